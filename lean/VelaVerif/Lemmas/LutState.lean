import VelaVerif.Spec.LutRefine
/-! Helper lemmas for `Props/C03LutState.lean`: the lookup-table residency pass (`Model/LutState.lean`) against the byte-level
table window (`Spec/LutWindow.lean`, `Spec/LutRefine.lean`). -/
namespace VelaVerif.Lemmas.LutState
open VelaVerif.Model.LutState VelaVerif.Spec.LutWindow VelaVerif.Spec.LutRefine

theorem overlaps_false {s1 e1 s2 e2 : Nat} : overlaps s1 e1 s2 e2 = false ↔ (e2 ≤ s1 ∨ e1 ≤ s2) := by
  simp [overlaps]; omega

theorem overlaps_true {s1 e1 s2 e2 : Nat} : overlaps s1 e1 s2 e2 = true ↔ (s1 < e2 ∧ s2 < e1) := by
  simp [overlaps]

/-- byte-level disjointness of two entries -/
def ByteDisjoint (u v : Tab) : Prop := ∀ b, ¬ ((u.addr ≤ b ∧ b < u.stop) ∧ (v.addr ≤ b ∧ b < v.stop))

theorem byteDisjoint_of_not_overlaps {u v : Tab} (h : overlaps u.addr u.stop v.addr v.stop = false) : ByteDisjoint u v := by
  intro b; rw [overlaps_false] at h; omega

theorem mem_pyRange {start stop step a : Nat} (hs : 0 < step) :
    a ∈ pyRange start stop step ↔ ∃ k, a = start + k * step ∧ start + k * step < stop := by
  unfold pyRange
  simp only [List.mem_map, List.mem_range]
  constructor
  · rintro ⟨k, hk, rfl⟩
    refine ⟨k, rfl, ?_⟩
    have h1 : (k + 1) * step ≤ stop - start + step - 1 := (Nat.le_div_iff_mul_le hs).1 hk
    rw [Nat.add_mul] at h1; omega
  · rintro ⟨k, rfl, hk⟩
    refine ⟨k, ?_, rfl⟩
    have h1 : (k + 1) * step ≤ stop - start + step - 1 := by rw [Nat.add_mul]; omega
    exact (Nat.le_div_iff_mul_le hs).2 h1

theorem foldl_fba_fst (st : State) (step : Nat) (l : List Nat) (b : Nat × Nat) :
    (l.foldl (fbaStep st step) b).1 = b.1 ∨ (l.foldl (fbaStep st step) b).1 ∈ l := by
  induction l generalizing b with
  | nil => simp
  | cons a l ih =>
    simp only [List.foldl_cons, List.mem_cons]
    rcases ih (fbaStep st step b a) with h | h
    · by_cases hc : nrOverlaps st a step < b.2
      · have : fbaStep st step b a = (a, nrOverlaps st a step) := by simp [fbaStep, hc]
        rw [this] at h ⊢; right; left; exact h
      · have : fbaStep st step b a = b := by simp [fbaStep, hc]
        rw [this] at h ⊢; left; exact h
    · right; right; exact h


theorem findBestAddress_form {st : State} {start stop step a : Nat} (h : findBestAddress st start stop step = .ok a) :
    0 < step ∧ ∃ k, a = start + k * step ∧ (k = 0 ∨ start + k * step < stop) := by
  unfold findBestAddress at h
  split at h
  · cases h
  · rename_i hs
    have hs' : 0 < step := Nat.pos_of_ne_zero hs
    refine ⟨hs', ?_⟩
    injection h with h
    rcases foldl_fba_fst st step (pyRange start stop step) (start, stop) with h1 | h1
    · exact ⟨0, by rw [← h, h1]; simp, Or.inl rfl⟩
    · rw [h] at h1
      obtain ⟨k, hk, hlt⟩ := (mem_pyRange hs').1 h1
      exact ⟨k, hk, Or.inr hlt⟩

/-- the table sizes of the property: 256, 512, 1024, 2048 bytes in a 2 KiB window -/
def Sizes (c : Ctx) : Prop := c.lutSize = 2048 ∧ ∀ t, c.size t = 256 ∨ c.size t = 512 ∨ c.size t = 1024 ∨ c.size t = 2048

/-- a newly placed table lies in the window, on a multiple of its size, and its index is its offset / 256 -/
theorem placed_geometry {c : Ctx} (hsz : Sizes c) {st : State} {t a : Nat}
    (h : findBestAddress st c.lutStart (c.lutStart + c.lutSize) (c.size t) = .ok a) :
    c.lutStart ≤ a ∧ a + c.size t ≤ c.lutStart + c.lutSize ∧ (a - c.lutStart) % c.size t = 0 ∧
      (a - c.lutStart) % 256 = 0 ∧ (a - c.lutStart) / slotSize < 8 ∧ c.lutStart + 256 * ((a - c.lutStart) / slotSize) = a := by
  obtain ⟨_, k, rfl, hk⟩ := findBestAddress_form h
  obtain ⟨h2k, hs⟩ := hsz
  rw [h2k] at hk ⊢
  unfold slotSize
  rcases hs t with e | e | e | e <;> rw [e] at hk ⊢ <;> omega


theorem getEquivalent_some {st : State} {v : Nat} {e : Tab} (h : getEquivalent st v = some e) : e ∈ st ∧ e.vals = v := by
  unfold getEquivalent at h
  exact ⟨List.mem_of_find?_eq_some h, by simpa using List.find?_some h⟩

theorem getEquivalent_none {st : State} {v : Nat} (h : getEquivalent st v = none) : ∀ u ∈ st, u.vals ≠ v := by
  unfold getEquivalent at h
  intro u hu
  simpa using List.find?_eq_none.1 h u hu

theorem getEquiv_some {c : Ctx} {st : State} {t : Nat} {e : Tab} (h : getEquiv c st t = some e) :
    e ∈ st ∧ e.vals = c.vals t ∧ (c.widthAware = true → e.size = c.size t) := by
  unfold getEquiv at h
  have h2 := List.find?_some h
  simp only [Bool.and_eq_true, Bool.or_eq_true, Bool.not_eq_true', beq_iff_eq] at h2
  refine ⟨List.mem_of_find?_eq_some h, h2.2, fun hw => ?_⟩
  rcases h2.1 with h3 | h3
  · rw [hw] at h3; cases h3
  · exact h3

/-- without C03-10 the pass's lookup is `get_equivalent` on the values -/
theorem getEquiv_plain {c : Ctx} (hw : c.widthAware = false) (st : State) (t : Nat) :
    getEquiv c st t = getEquivalent st (c.vals t) := by
  unfold getEquiv getEquivalent
  simp [hw]

theorem findReusable_some {c : Ctx} {s : PS} {t : Nat} {e : Tab} (h : findReusable c s t = some e) :
    getEquiv c s.st t = some e ∧ e ∈ s.st ∧ e.vals = c.vals t ∧ (c.widthAware = true → e.size = c.size t) ∧
      ∀ a, prevAddr c s t = some a → a = e.addr := by
  unfold findReusable at h
  split at h
  · rename_i e' he
    split at h
    · rename_i hr
      injection h with h; subst h
      obtain ⟨h1, h2, h3⟩ := getEquiv_some he
      refine ⟨he, h1, h2, h3, fun a ha => ?_⟩
      rw [ha] at hr
      simpa [reusable] using hr
    · cases h
  · cases h

/-- without C03-11 nothing is filtered -/
theorem findReusable_plain {c : Ctx} (hs : c.sticky = false) (s : PS) (t : Nat) : findReusable c s t = getEquiv c s.st t := by
  unfold findReusable prevAddr
  simp only [hs, Bool.false_eq_true, if_false, reusable]
  split <;> simp_all

theorem chooseAddr_plain {c : Ctx} (hs : c.sticky = false) (s : PS) (t : Nat) :
    chooseAddr c s t = findBestAddress s.st c.lutStart (c.lutStart + c.lutSize) (c.size t) := by
  unfold chooseAddr prevAddr
  simp [hs]

theorem lookup_cons_self (l : List (Nat × Nat)) (k v : Nat) : lookup ((k, v) :: l) k = some v := by
  simp [lookup]

theorem lookup_some_mem {l : List (Nat × Nat)} {k v : Nat} (h : lookup l k = some v) : (k, v) ∈ l := by
  unfold lookup at h
  cases hf : l.find? (fun e => e.1 == k) with
  | none => rw [hf] at h; cases h
  | some e =>
    rw [hf] at h
    have h1 := List.mem_of_find?_eq_some hf
    have h2 : e.1 = k := by simpa using List.find?_some hf
    injection h with h
    have : e = (k, v) := by cases e; simp_all
    rw [← this]; exact h1

/-- an address a table of tensor `t` can be loaded to: inside the window, on a 256-byte slot boundary -/
def PlaceOk (c : Ctx) (t a : Nat) : Prop :=
  c.lutStart ≤ a ∧ a + c.size t ≤ c.lutStart + c.lutSize ∧ (a - c.lutStart) % 256 = 0

theorem placeOk_index {c : Ctx} (hsz : Sizes c) {t a : Nat} (h : PlaceOk c t a) :
    (a - c.lutStart) / slotSize < 8 ∧ c.lutStart + 256 * ((a - c.lutStart) / slotSize) = a := by
  obtain ⟨h1, h2, h3⟩ := h
  obtain ⟨h2k, hs⟩ := hsz
  have := hs t
  unfold slotSize
  omega

/-- where a table that must be loaded goes is a good place, provided every address assigned so far was one -/
theorem chooseAddr_placeOk {c : Ctx} (hsz : Sizes c) {s : PS} {t a : Nat} (haddr : ∀ e ∈ s.env.addr, PlaceOk c e.1 e.2)
    (h : chooseAddr c s t = .ok a) : PlaceOk c t a := by
  unfold chooseAddr at h
  split at h
  · rename_i a' hp
    injection h with h; subst h
    unfold prevAddr at hp
    split at hp
    · exact haddr _ (lookup_some_mem hp)
    · cases hp
  · obtain ⟨g1, g2, _, g4, _, _⟩ := placed_geometry hsz h
    exact ⟨g1, g2, g4⟩

/-- the state describes the window, and the table load still standing for the reference reading is where its pass's
    operation will look -/
structure Inv (c : Ctx) (r : Refine) (s : PS) (w : Window) (cur : Option (Nat × Nat)) : Prop where
  fromCtx : ∀ u ∈ s.st, u.vals = c.vals u.tid ∧ u.size = c.size u.tid
  inWin : ∀ u ∈ s.st, c.lutStart ≤ u.addr ∧ u.addr + u.size ≤ c.lutStart + c.lutSize ∧ (u.addr - c.lutStart) % 256 = 0
  bytes : ∀ u ∈ s.st, ∀ k, k < u.size → w (u.addr + k) = some (r.content u.tid, k)
  curOk : ∀ p t, cur = some (p, t) → ∃ i, lookup s.env.idx p = some i ∧ Holds (geomOf c) w (r.content t) (c.size t) i
  addrOk : ∀ e ∈ s.env.addr, PlaceOk c e.1 e.2

theorem inv_nil (c : Ctx) (r : Refine) (env : Env) (w : Window) (h : ∀ e ∈ env.addr, PlaceOk c e.1 e.2) :
    Inv c r { st := [], env := env } w none :=
  { fromCtx := fun _ hu => absurd hu List.not_mem_nil
    inWin := fun _ hu => absurd hu List.not_mem_nil
    bytes := fun _ hu => absurd hu List.not_mem_nil
    curOk := fun _ _ h => by cases h
    addrOk := h }

theorem load_in (w : Window) (c n a b : Nat) (h1 : a ≤ b) (h2 : b < a + n) : (w.load c n a) b = some (c, b - a) := by
  simp [Window.load, h1, h2]

theorem load_out (w : Window) (c n a b : Nat) (h : b < a ∨ a + n ≤ b) : (w.load c n a) b = w b := by
  simp only [Window.load]; rw [if_neg (by omega)]

@[simp] theorem geomOf_clobbers (c : Ctx) : (geomOf c).clobbers = (c.reserved == 0) := rfl
@[simp] theorem geomOf_lutStart (c : Ctx) : (geomOf c).lutStart = c.lutStart := rfl
@[simp] theorem geomOf_lutSize (c : Ctx) : (geomOf c).lutSize = c.lutSize := rfl

theorem eventsAt_ok {c : Ctx} {r : Refine} (hsz : Sizes c) (hcb : EqualValuesEqualBytes c r) (hpa : PassesAgree c r) :
    ∀ (cmds : List Cmd) (s : PS) (w : Window) (cur : Option (Nat × Nat)), Inv c r s w cur → OrigOk c r cur cmds →
      StreamOk (geomOf c) w (eventsAt c r s cmds) := by
  intro cmds
  induction cmds with
  | nil => intro s w cur _ _; simp [eventsAt, StreamOk]
  | cons cmd rest ih =>
    intro s w cur hinv horig
    cases cmd with
    | other =>
      simp only [eventsAt, step, StreamOk, EvOk, stepW, true_and]
      exact ih s w cur hinv horig
    | stripe p =>
      have hp := hpa p
      cases hpt : r.passTab p with
      | some t =>
        rw [hpt] at hp
        simp only [OrigOk, hpt] at horig
        obtain ⟨hcur, horig⟩ := horig
        obtain ⟨i, hi, hholds⟩ := hinv.curOk p t hcur
        simp only [eventsAt, step, hp, Option.isSome_some, Bool.not_true, Bool.false_and, Bool.false_eq_true, if_false,
          StreamOk, stripeEv, hpt, hi, Option.getD_some, EvOk, stepW]
        exact ⟨hholds, ih s w cur hinv horig⟩
      | none =>
        rw [hpt] at hp
        simp only [OrigOk, hpt] at horig
        by_cases hres : (c.reserved == 0) = true
        · simp only [eventsAt, step, hp, Option.isSome_none, Bool.not_false, Bool.true_and, hres, if_true, StreamOk,
            stripeEv, hpt, EvOk, stepW, geomOf_clobbers, true_and]
          simp only [hres, if_true] at horig
          exact ih _ _ none (inv_nil c r s.env _ hinv.addrOk) horig
        · simp only [eventsAt, step, hp, Option.isSome_none, Bool.not_false, Bool.true_and, hres, if_false, StreamOk,
            stripeEv, hpt, EvOk, stepW, geomOf_clobbers, true_and, Bool.false_eq_true]
          simp only [hres, if_false, Bool.false_eq_true] at horig
          exact ih s w cur hinv horig
    | lutDma p t =>
      simp only [OrigOk] at horig
      cases heq : findReusable c s t with
      | some e =>
        obtain ⟨_, hmem, hv, hwa, _⟩ := findReusable_some heq
        simp only [eventsAt, step, heq, StreamOk, EvOk, stepW, true_and]
        refine ih _ w (some (p, t)) ?_ horig
        obtain ⟨hfv, hfs⟩ := hinv.fromCtx e hmem
        obtain ⟨hs1, hs2⟩ := hcb e.tid t (by rw [← hfv, hv]) (fun hw => by rw [← hfs]; exact hwa hw)
        obtain ⟨hw1, hw2, hw3⟩ := hinv.inWin e hmem
        have hb := hinv.bytes e hmem
        have hpl : PlaceOk c t e.addr := ⟨hw1, by omega, hw3⟩
        refine ⟨hinv.fromCtx, hinv.inWin, hinv.bytes, ?_, ?_⟩
        · intro p' t' hpt
          injection hpt with hpt; injection hpt with hp1 ht1; subst hp1; subst ht1
          refine ⟨_, lookup_cons_self _ _ _, ?_⟩
          obtain ⟨i8, hua'⟩ := placeOk_index hsz hpl
          have hua : useAddr (geomOf c) ((e.addr - c.lutStart) / slotSize) = e.addr := by
            simp only [useAddr, geomOf_lutStart, slotBytes]; exact hua'
          refine ⟨i8, by rw [hua]; simp only [geomOf_lutStart, geomOf_lutSize]; exact hpl.2.1, ?_⟩
          intro k hk
          rw [hua, ← hs2]
          exact hb k (by omega)
        · intro e' he'
          rcases List.mem_cons.1 he' with rfl | he'
          · exact hpl
          · exact hinv.addrOk e' he'
      | none =>
        cases hfba : chooseAddr c s t with
        | error e => simp [eventsAt, step, heq, hfba, StreamOk]
        | ok a =>
          have hpl := chooseAddr_placeOk hsz hinv.addrOk hfba
          obtain ⟨g5, g6⟩ := placeOk_index hsz hpl
          obtain ⟨g1, g2, g4⟩ := id hpl
          simp only [eventsAt, step, heq, hfba, StreamOk, EvOk, stepW, InWindow, geomOf_lutStart, geomOf_lutSize]
          refine ⟨⟨g1, g2⟩, ?_⟩
          refine ih _ _ (some (p, t)) ?_ horig
          refine ⟨?_, ?_, ?_, ?_, ?_⟩
          · intro u hu
            simp only [put, List.mem_cons, List.mem_filter] at hu
            rcases hu with rfl | ⟨hu, _⟩
            · simp [mkTab]
            · exact hinv.fromCtx u hu
          · intro u hu
            simp only [put, List.mem_cons, List.mem_filter] at hu
            rcases hu with rfl | ⟨hu, _⟩
            · simp only [mkTab]; exact ⟨g1, g2, g4⟩
            · exact hinv.inWin u hu
          · intro u hu k hk
            simp only [put, List.mem_cons, List.mem_filter] at hu
            rcases hu with rfl | ⟨hu, hno⟩
            · simp only [mkTab] at hk ⊢
              rw [load_in _ _ _ _ _ (by omega) (by omega)]; simp
            · simp only [Bool.not_eq_true'] at hno
              rw [overlaps_false] at hno
              simp only [mkTab, Tab.stop] at hno
              rw [load_out _ _ _ _ _ (by omega)]
              exact hinv.bytes u hu k hk
          · intro p' t' hpt
            injection hpt with hpt; injection hpt with hp1 ht1; subst hp1; subst ht1
            refine ⟨_, lookup_cons_self _ _ _, g5, ?_, ?_⟩
            · simp only [useAddr, geomOf_lutStart, geomOf_lutSize, slotBytes]; rw [g6]; exact g2
            · intro k hk
              simp only [useAddr, geomOf_lutStart, slotBytes]; rw [g6]
              rw [load_in _ _ _ _ _ (by omega) (by omega)]; simp
          · intro e' he'
            rcases List.mem_cons.1 he' with rfl | he'
            · exact hpl
            · exact hinv.addrOk e' he'

/-! ## invariants of the tracked state alone (no hypothesis on sizes) -/

/-- what the pass takes for the same table -/
def Equiv (c : Ctx) (u v : Tab) : Prop := u.vals = v.vals ∧ (c.widthAware = true → u.size = v.size)

structure StInv (c : Ctx) (st : State) : Prop where
  fromCtx : ∀ u ∈ st, u.vals = c.vals u.tid ∧ u.size = c.size u.tid
  disjoint : st.Pairwise ByteDisjoint
  distinct : c.sticky = false → st.Pairwise fun u v => ¬ Equiv c u v

theorem stInv_nil (c : Ctx) : StInv c [] :=
  ⟨fun _ h => absurd h List.not_mem_nil, List.Pairwise.nil, fun _ => List.Pairwise.nil⟩

theorem byteDisjoint_symm {u v : Tab} (h : ByteDisjoint u v) : ByteDisjoint v u := fun b hb => h b ⟨hb.2, hb.1⟩

/-- states the pass can be in -/
inductive Reach (c : Ctx) : PS → Prop
  | init : Reach c {}
  | step {s s' : PS} {cmd : Cmd} {a : Act} : Reach c s → step c s cmd = .ok (s', a) → Reach c s'

theorem getEquiv_none {c : Ctx} {st : State} {t : Nat} (h : getEquiv c st t = none) :
    ∀ u ∈ st, ¬ (u.vals = c.vals t ∧ (c.widthAware = true → u.size = c.size t)) := by
  unfold getEquiv at h
  intro u hu ⟨h1, h2⟩
  have := List.find?_eq_none.1 h u hu
  simp only [Bool.and_eq_true, Bool.or_eq_true, Bool.not_eq_true', beq_iff_eq, not_and] at this
  apply this _ h1
  cases hw : c.widthAware with
  | false => exact Or.inl rfl
  | true => exact Or.inr (h2 hw)

theorem step_stInv {c : Ctx} {s s' : PS} {cmd : Cmd} {a : Act} (h : StInv c s.st) (hs : step c s cmd = .ok (s', a)) :
    StInv c s'.st := by
  cases cmd with
  | other => simp only [step] at hs; injection hs with hs; injection hs with h1 _; subst h1; exact h
  | stripe p =>
    simp only [step] at hs
    split at hs
    · injection hs with hs; injection hs with h1 _; subst h1; exact stInv_nil c
    · injection hs with hs; injection hs with h1 _; subst h1; exact h
  | lutDma p t =>
    simp only [step] at hs
    split at hs
    · injection hs with hs; injection hs with h1 _; subst h1; exact h
    · rename_i heq
      split at hs
      · cases hs
      · rename_i a' hfba
        injection hs with hs; injection hs with h1 _; subst h1
        refine ⟨?_, ?_, ?_⟩
        · intro u hu
          simp only [put, List.mem_cons, List.mem_filter] at hu
          rcases hu with rfl | ⟨hu, _⟩
          · simp [mkTab]
          · exact h.fromCtx u hu
        · simp only [put, List.pairwise_cons]
          refine ⟨?_, h.disjoint.sublist List.filter_sublist⟩
          intro u hu
          simp only [List.mem_filter, Bool.not_eq_true'] at hu
          exact byteDisjoint_of_not_overlaps hu.2
        · intro hst
          simp only [put, List.pairwise_cons]
          refine ⟨?_, (h.distinct hst).sublist List.filter_sublist⟩
          intro u hu
          simp only [List.mem_filter] at hu
          rw [findReusable_plain hst] at heq
          have := getEquiv_none heq u hu.1
          intro ⟨e1, e2⟩
          exact this ⟨e1.symm, fun hw => (e2 hw).symm⟩

theorem reach_stInv {c : Ctx} {s : PS} (h : Reach c s) : StInv c s.st := by
  induction h with
  | init => exact stInv_nil c
  | step _ hs ih => exact step_stInv ih hs

theorem run_reach {c : Ctx} : ∀ (cmds : List Cmd) (s sf : PS) (acts : List Act), Reach c s → run c s cmds = .ok (acts, sf) →
    Reach c sf := by
  intro cmds
  induction cmds with
  | nil => intro s sf acts h hr; simp only [run] at hr; injection hr with hr; injection hr with _ h2; subst h2; exact h
  | cons cmd rest ih =>
    intro s sf acts h hr
    simp only [run] at hr
    split at hr
    · cases hr
    · rename_i s' a hs
      split at hr
      · cases hr
      · rename_i as sf' hrest
        injection hr with hr; injection hr with _ h2; subst h2
        exact ih s' _ as (Reach.step h hs) hrest

/-- (code without C03-11) an object that is in the list is found by `get_equivalent` as itself -/
theorem getEquiv_self {c : Ctx} (hst : c.sticky = false) {st : State} (h : StInv c st) {u : Tab} (hu : u ∈ st) :
    getEquiv c st u.tid = some u := by
  obtain ⟨fv, fs⟩ := h.fromCtx u hu
  cases heq : getEquiv c st u.tid with
  | none => exact absurd ⟨fv, fun _ => fs⟩ (getEquiv_none heq u hu)
  | some e =>
    obtain ⟨he, hv, hw⟩ := getEquiv_some heq
    by_cases hne : e = u
    · rw [hne]
    · exfalso
      have hd := h.distinct hst
      have heu : Equiv c e u := ⟨by rw [hv, fv], fun w => by rw [hw w, fs]⟩
      have hue : Equiv c u e := ⟨heu.1.symm, fun w => (heu.2 w).symm⟩
      rcases List.mem_iff_getElem.1 he with ⟨i, hi, rfl⟩
      rcases List.mem_iff_getElem.1 hu with ⟨j, hj, rfl⟩
      rcases Nat.lt_trichotomy i j with hij | hij | hij
      · exact (List.pairwise_iff_getElem.1 hd i j hi hj hij) heu
      · subst hij; exact hne rfl
      · exact (List.pairwise_iff_getElem.1 hd j i hj hi hij) hue

/-- (code without C03-11) the copy of the address kept in the model's list cannot go stale: when the pass processes the
    DMA of a tensor object that is in the list, it finds that very entry and "assigns" the address the entry already has;
    nothing is placed -/
theorem assign_keeps_state {c : Ctx} (hst : c.sticky = false) {s : PS} (hr : Reach c s) {u : Tab} (hu : u ∈ s.st) (p : Nat) :
    ∃ s', step c s (.lutDma p u.tid) = .ok (s', .dropped u u.addr ((u.addr - c.lutStart) / slotSize)) ∧ s'.st = s.st ∧
      lookup s'.env.addr u.tid = some u.addr := by
  have := getEquiv_self hst (reach_stInv hr) hu
  simp only [step, findReusable_plain hst, this]
  exact ⟨_, rfl, rfl, lookup_cons_self _ _ _⟩

/-! ## (code with C03-11) every tensor object has one address for the whole stream -/

theorem lookup_none_not_mem {l : List (Nat × Nat)} {k : Nat} (h : lookup l k = none) : ∀ v, (k, v) ∉ l := by
  unfold lookup at h
  intro v hm
  cases hf : l.find? (fun e => e.1 == k) with
  | none => have := List.find?_eq_none.1 hf (k, v) hm; simp at this
  | some e => rw [hf] at h; cases h

theorem lookup_mem_some {l : List (Nat × Nat)} {k v : Nat} (h : (k, v) ∈ l) : ∃ v', lookup l k = some v' := by
  cases hl : lookup l k with
  | none => exact absurd h (lookup_none_not_mem hl v)
  | some v' => exact ⟨v', rfl⟩

structure Sticky (c : Ctx) (r : Refine) (s : PS) : Prop where
  one : ∀ t a a', (t, a) ∈ s.env.addr → (t, a') ∈ s.env.addr → a = a'
  entries : ∀ u ∈ s.st, (u.tid, u.addr) ∈ s.env.addr
  idxOf : ∀ p i, (p, i) ∈ s.env.idx → ∃ t a, r.passTab p = some t ∧ (t, a) ∈ s.env.addr ∧ i = (a - c.lutStart) / slotSize

theorem sticky_init (c : Ctx) (r : Refine) : Sticky c r {} :=
  ⟨fun _ _ _ h => absurd h List.not_mem_nil, fun _ h => absurd h List.not_mem_nil, fun _ _ h => absurd h List.not_mem_nil⟩

theorem step_sticky {c : Ctx} {r : Refine} (hst : c.sticky = true) {s s' : PS} {cmd : Cmd} {a : Act} (h : Sticky c r s)
    (hown : ∀ p t, cmd = .lutDma p t → r.passTab p = some t) (hs : step c s cmd = .ok (s', a)) : Sticky c r s' := by
  cases cmd with
  | other => simp only [step] at hs; injection hs with hs; injection hs with h1 _; subst h1; exact h
  | stripe p =>
    simp only [step] at hs
    split at hs
    · injection hs with hs; injection hs with h1 _; subst h1
      exact ⟨h.one, fun _ hu => absurd hu List.not_mem_nil, h.idxOf⟩
    · injection hs with hs; injection hs with h1 _; subst h1; exact h
  | lutDma p t =>
    have hpt := hown p t rfl
    -- every earlier address of `t` is the one `prevAddr` reports
    have hprev : ∀ a, (t, a) ∈ s.env.addr → prevAddr c s t = some a := by
      intro a ha
      obtain ⟨v', hv'⟩ := lookup_mem_some ha
      have := h.one t a v' ha (lookup_some_mem hv')
      simp only [prevAddr, hst, if_true, hv', this]
    have key : ∀ x, (∀ a, prevAddr c s t = some a → a = x) →
        Sticky c r { st := s.st, env := { addr := (t, x) :: s.env.addr, idx := (p, (x - c.lutStart) / slotSize) :: s.env.idx } } := by
      intro x hx
      refine ⟨?_, fun u hu => List.mem_cons_of_mem _ (h.entries u hu), ?_⟩
      · intro t' a1 a2 h1 h2
        rcases List.mem_cons.1 h1 with e1 | m1
        · rcases List.mem_cons.1 h2 with e2 | m2
          · injection e1 with _ e1; injection e2 with _ e2; rw [e1, e2]
          · injection e1 with e0 e1; rw [e0] at m2; rw [e1]; exact (hx _ (hprev _ m2)).symm
        · rcases List.mem_cons.1 h2 with e2 | m2
          · injection e2 with e0 e2; rw [e0] at m1; rw [e2]; exact hx _ (hprev _ m1)
          · exact h.one t' a1 a2 m1 m2
      · intro p' i hpi
        rcases List.mem_cons.1 hpi with e | hpi
        · injection e with e1 e2; subst e1; subst e2
          exact ⟨t, x, hpt, List.mem_cons_self, rfl⟩
        · obtain ⟨t', a', q1, q2, q3⟩ := h.idxOf p' i hpi
          exact ⟨t', a', q1, List.mem_cons_of_mem _ q2, q3⟩
    simp only [step] at hs
    split at hs
    · rename_i e heq
      injection hs with hs; injection hs with h1 _; subst h1
      obtain ⟨_, _, _, _, hp⟩ := findReusable_some heq
      exact key e.addr hp
    · split at hs
      · cases hs
      · rename_i x hch
        injection hs with hs; injection hs with h1 _; subst h1
        have hx : ∀ a, prevAddr c s t = some a → a = x := by
          intro a ha
          simp only [chooseAddr, ha] at hch
          injection hch
        have k := key x hx
        refine ⟨k.one, ?_, k.idxOf⟩
        intro u hu
        simp only [put, List.mem_cons, List.mem_filter] at hu
        rcases hu with rfl | ⟨hu, _⟩
        · exact List.mem_cons_self
        · exact List.mem_cons_of_mem _ (h.entries u hu)

theorem run_sticky {c : Ctx} {r : Refine} (hst : c.sticky = true) : ∀ (cmds : List Cmd) (s sf : PS) (acts : List Act),
    Sticky c r s → DmaOwn r cmds → run c s cmds = .ok (acts, sf) → Sticky c r sf := by
  intro cmds
  induction cmds with
  | nil => intro s sf acts h _ hr; simp only [run] at hr; injection hr with hr; injection hr with _ h2; subst h2; exact h
  | cons cmd rest ih =>
    intro s sf acts h hown hr
    simp only [run] at hr
    split at hr
    · cases hr
    · rename_i s' a hs
      split at hr
      · cases hr
      · rename_i as sf' hrest
        injection hr with hr; injection hr with _ h2; subst h2
        refine ih s' _ as (step_sticky hst h (fun p t e => hown p t (by rw [e]; exact List.mem_cons_self)) hs)
          (fun p t hm => hown p t (List.mem_cons_of_mem _ hm)) hrest

/-- with C03-11 nothing is ever reassigned (for streams in which every table DMA loads its own pass's table) -/
theorem sticky_stable {c : Ctx} {r : Refine} (hst : c.sticky = true) {cmds : List Cmd} {acts : List Act} {sf : PS}
    (hown : DmaOwn r cmds) (hr : optimize c cmds = .ok (acts, sf)) : stable sf.env = true := by
  have h := run_sticky hst cmds {} sf acts (sticky_init c r) hown hr
  simp only [stable, Bool.and_eq_true, List.all_eq_true, beq_iff_eq]
  constructor
  · intro e he
    obtain ⟨v', hv'⟩ := lookup_mem_some (show (e.1, e.2) ∈ sf.env.addr from he)
    rw [hv', h.one e.1 e.2 v' he (lookup_some_mem hv')]
  · intro e he
    obtain ⟨v', hv'⟩ := lookup_mem_some (show (e.1, e.2) ∈ sf.env.idx from he)
    obtain ⟨t1, a1, p1, q1, r1⟩ := h.idxOf e.1 e.2 he
    obtain ⟨t2, a2, p2, q2, r2⟩ := h.idxOf e.1 v' (lookup_some_mem hv')
    rw [p1] at p2; injection p2 with p2; subst p2
    rw [hv', r1, r2, h.one t1 a1 a2 q1 q2]

/-! ## geometry of the tracked state and of every decision (sizes 256 … 2048) -/

/-- the size part of `EqualValuesEqualBytes`: tables the pass takes for equivalent have the same size (trivially so with
    C03-10) -/
def SameSizeIfEquiv (c : Ctx) : Prop := ∀ t u, c.vals t = c.vals u → (c.widthAware = true → c.size t = c.size u) → c.size t = c.size u

theorem sameSize_of_widthAware {c : Ctx} (h : c.widthAware = true) : SameSizeIfEquiv c := fun _ _ _ hw => hw h

def InWin (c : Ctx) (u : Tab) : Prop :=
  c.lutStart ≤ u.addr ∧ u.addr + u.size ≤ c.lutStart + c.lutSize ∧ (u.addr - c.lutStart) % u.size = 0 ∧ (u.addr - c.lutStart) % 256 = 0

/-- `PlaceOk` and on a multiple of the table's size -/
def PlaceOkA (c : Ctx) (t a : Nat) : Prop := PlaceOk c t a ∧ (a - c.lutStart) % c.size t = 0

structure Geo (c : Ctx) (s : PS) : Prop where
  inWin : ∀ u ∈ s.st, InWin c u
  addrOk : c.sticky = true → ∀ e ∈ s.env.addr, PlaceOkA c e.1 e.2

theorem chooseAddr_placeOkA {c : Ctx} (hsz : Sizes c) {s : PS} {t a : Nat} (haddr : c.sticky = true → ∀ e ∈ s.env.addr, PlaceOkA c e.1 e.2)
    (h : chooseAddr c s t = .ok a) : PlaceOkA c t a := by
  unfold chooseAddr at h
  split at h
  · rename_i a' hp
    injection h with h; subst h
    unfold prevAddr at hp
    split at hp
    · rename_i hst
      exact haddr hst _ (lookup_some_mem hp)
    · cases hp
  · obtain ⟨g1, g2, g3, g4, _, _⟩ := placed_geometry hsz h
    exact ⟨⟨g1, g2, g4⟩, g3⟩

theorem step_geo {c : Ctx} (hsz : Sizes c) (hgeo : c.sticky = true → SameSizeIfEquiv c) {s s' : PS} {cmd : Cmd} {a : Act}
    (hst : StInv c s.st) (h : Geo c s) (hs : step c s cmd = .ok (s', a)) : Geo c s' := by
  cases cmd with
  | other => simp only [step] at hs; injection hs with hs; injection hs with h1 _; subst h1; exact h
  | stripe p =>
    simp only [step] at hs
    split at hs
    · injection hs with hs; injection hs with h1 _; subst h1
      exact ⟨fun _ hu => absurd hu List.not_mem_nil, h.addrOk⟩
    · injection hs with hs; injection hs with h1 _; subst h1; exact h
  | lutDma p t =>
    simp only [step] at hs
    split at hs
    · rename_i e heq
      injection hs with hs; injection hs with h1 _; subst h1
      refine ⟨h.inWin, fun hsk e' he' => ?_⟩
      rcases List.mem_cons.1 he' with rfl | he'
      · obtain ⟨_, hmem, hv, hwa, _⟩ := findReusable_some heq
        obtain ⟨fv, fs⟩ := hst.fromCtx e hmem
        have hsize : c.size e.tid = c.size t := hgeo hsk e.tid t (by rw [← fv, hv]) (fun w => by rw [← fs]; exact hwa w)
        obtain ⟨w1, w2, w3, w4⟩ := h.inWin e hmem
        rw [fs, hsize] at w2 w3
        exact ⟨⟨w1, w2, w4⟩, w3⟩
      · exact h.addrOk hsk e' he'
    · split at hs
      · cases hs
      · rename_i a' hfba
        injection hs with hs; injection hs with h1 _; subst h1
        obtain ⟨⟨g1, g2, g4⟩, g3⟩ := chooseAddr_placeOkA hsz h.addrOk hfba
        refine ⟨?_, fun hsk e' he' => ?_⟩
        · intro u hu
          simp only [put, List.mem_cons, List.mem_filter] at hu
          rcases hu with rfl | ⟨hu, _⟩
          · exact ⟨g1, g2, g3, g4⟩
          · exact h.inWin u hu
        · rcases List.mem_cons.1 he' with rfl | he'
          · exact ⟨⟨g1, g2, g4⟩, g3⟩
          · exact h.addrOk hsk e' he'

theorem reach_geo {c : Ctx} (hsz : Sizes c) (hgeo : c.sticky = true → SameSizeIfEquiv c) {s : PS} (h : Reach c s) : Geo c s := by
  induction h with
  | init => exact ⟨fun _ hu => absurd hu List.not_mem_nil, fun _ _ he => absurd he List.not_mem_nil⟩
  | step hr hs ih => exact step_geo hsz hgeo (reach_stInv hr) ih hs

/-- what a table DMA is given -/
theorem lutDma_decision {c : Ctx} (hsz : Sizes c) (hgeo : c.sticky = true → SameSizeIfEquiv c) {s s' : PS} (hr : Reach c s)
    {p t : Nat} {act : Act} (hs : step c s (.lutDma p t) = .ok (s', act)) :
    ∃ a i, lookup s'.env.addr t = some a ∧ lookup s'.env.idx p = some i ∧ a = c.lutStart + 256 * i ∧ i < 8 ∧
      i = (a - c.lutStart) / 256 ∧
      ((act = .placed a i ∧ a + c.size t ≤ c.lutStart + c.lutSize ∧ (a - c.lutStart) % c.size t = 0 ∧
          s'.st = put s.st (mkTab c t a) ∧ findReusable c s t = none) ∨
       (∃ e, act = .dropped e a i ∧ e ∈ s.st ∧ e.vals = c.vals t ∧ e.addr = a ∧ findReusable c s t = some e ∧ s'.st = s.st)) := by
  have hg := reach_geo hsz hgeo hr
  simp only [step] at hs
  split at hs
  · rename_i e heq
    injection hs with hs; injection hs with h1 h2; subst h1; subst h2
    obtain ⟨_, hmem, hv, _, _⟩ := findReusable_some heq
    obtain ⟨w1, w2, _, w4⟩ := hg.inWin e hmem
    have hsize := (reach_stInv hr).fromCtx e hmem
    obtain ⟨h2k, hss⟩ := hsz
    have := hss e.tid
    refine ⟨e.addr, _, lookup_cons_self _ _ _, lookup_cons_self _ _ _, ?_, ?_, rfl, Or.inr ⟨e, rfl, hmem, hv, rfl, heq, rfl⟩⟩
    · simp only [slotSize]; omega
    · simp only [slotSize]; omega
  · rename_i heq
    split at hs
    · cases hs
    · rename_i a hfba
      injection hs with hs; injection hs with h1 h2; subst h1; subst h2
      obtain ⟨hpl, g3⟩ := chooseAddr_placeOkA hsz hg.addrOk hfba
      obtain ⟨g5, g6⟩ := placeOk_index hsz hpl
      exact ⟨a, _, lookup_cons_self _ _ _, lookup_cons_self _ _ _, g6.symm, g5, rfl, Or.inl ⟨rfl, hpl.2.1, g3, rfl, heq⟩⟩

/-- the pass never raises on the sizes of the property -/
theorem step_total {c : Ctx} (hsz : Sizes c) (s : PS) (cmd : Cmd) : ∃ r, step c s cmd = .ok r := by
  cases cmd with
  | other => exact ⟨_, rfl⟩
  | stripe p => simp only [step]; split <;> exact ⟨_, rfl⟩
  | lutDma p t =>
    simp only [step]
    split
    · exact ⟨_, rfl⟩
    · have : c.size t ≠ 0 := by rcases hsz.2 t with e | e | e | e <;> omega
      cases hp : prevAddr c s t with
      | some a => simp only [chooseAddr, hp]; exact ⟨_, rfl⟩
      | none => simp only [chooseAddr, hp, findBestAddress, this, if_false]; exact ⟨_, rfl⟩

theorem run_total {c : Ctx} (hsz : Sizes c) : ∀ (cmds : List Cmd) (s : PS), ∃ r, run c s cmds = .ok r := by
  intro cmds
  induction cmds with
  | nil => exact fun s => ⟨_, rfl⟩
  | cons cmd rest ih =>
    intro s
    obtain ⟨⟨s', a⟩, hs⟩ := step_total hsz s cmd
    obtain ⟨⟨as, sf⟩, hr⟩ := ih s'
    exact ⟨(a :: as, sf), by simp only [run, hs, hr]⟩

/-! ## values at decision time and values at the end -/

theorem step_env_mono {c : Ctx} {s s' : PS} {cmd : Cmd} {a : Act} (hs : step c s cmd = .ok (s', a)) :
    (∀ e ∈ s.env.addr, e ∈ s'.env.addr) ∧ (∀ e ∈ s.env.idx, e ∈ s'.env.idx) := by
  cases cmd with
  | other => simp only [step] at hs; injection hs with hs; injection hs with h1 _; subst h1; exact ⟨fun _ h => h, fun _ h => h⟩
  | stripe p =>
    simp only [step] at hs
    split at hs <;> (injection hs with hs; injection hs with h1 _; subst h1; exact ⟨fun _ h => h, fun _ h => h⟩)
  | lutDma p t =>
    simp only [step] at hs
    split at hs
    · injection hs with hs; injection hs with h1 _; subst h1
      exact ⟨fun _ h => List.mem_cons_of_mem _ h, fun _ h => List.mem_cons_of_mem _ h⟩
    · split at hs
      · cases hs
      · injection hs with hs; injection hs with h1 _; subst h1
        exact ⟨fun _ h => List.mem_cons_of_mem _ h, fun _ h => List.mem_cons_of_mem _ h⟩

theorem run_env_mono {c : Ctx} : ∀ (cmds : List Cmd) (s sf : PS) (acts : List Act), run c s cmds = .ok (acts, sf) →
    (∀ e ∈ s.env.addr, e ∈ sf.env.addr) ∧ (∀ e ∈ s.env.idx, e ∈ sf.env.idx) := by
  intro cmds
  induction cmds with
  | nil => intro s sf acts hr; simp only [run] at hr; injection hr with hr; injection hr with _ h2; subst h2; exact ⟨fun _ h => h, fun _ h => h⟩
  | cons cmd rest ih =>
    intro s sf acts hr
    simp only [run] at hr
    split at hr
    · cases hr
    · rename_i s' a hs
      split at hr
      · cases hr
      · rename_i as sf' hrest
        injection hr with hr; injection hr with _ h2; subst h2
        obtain ⟨m1, m2⟩ := step_env_mono hs
        obtain ⟨n1, n2⟩ := ih s' _ as hrest
        exact ⟨fun e h => n1 e (m1 e h), fun e h => n2 e (m2 e h)⟩

theorem stable_addr {env : Env} (h : stable env = true) {k v : Nat} (hm : (k, v) ∈ env.addr) : lookup env.addr k = some v := by
  simp only [stable, Bool.and_eq_true, List.all_eq_true] at h
  simpa using h.1 (k, v) hm

theorem stable_idx {env : Env} (h : stable env = true) {k v : Nat} (hm : (k, v) ∈ env.idx) : lookup env.idx k = some v := by
  simp only [stable, Bool.and_eq_true, List.all_eq_true] at h
  simpa using h.2 (k, v) hm

/-- when no assignment of the pass was overwritten later, the stream the later stages see is the stream with the values
    of decision time -/
theorem eventsFinal_eq_eventsAt {c : Ctx} {r : Refine} (hpa : PassesAgree c r) {E : Env} (hst : stable E = true) :
    ∀ (cmds : List Cmd) (s sf : PS) (acts : List Act) (cur : Option (Nat × Nat)), run c s cmds = .ok (acts, sf) →
      (∀ e ∈ sf.env.addr, e ∈ E.addr) → (∀ e ∈ sf.env.idx, e ∈ E.idx) →
      (∀ p t, cur = some (p, t) → ∃ i, lookup s.env.idx p = some i) → OrigOk c r cur cmds →
      eventsFinal c r E cmds acts = eventsAt c r s cmds := by
  intro cmds
  induction cmds with
  | nil => intro s sf acts cur hr _ _ _ _; simp only [run] at hr; injection hr with hr; injection hr with h1 _; subst h1; rfl
  | cons cmd rest ih =>
    intro s sf acts cur hr hE1 hE2 hcur horig
    simp only [run] at hr
    split at hr
    · cases hr
    · rename_i s' a hs
      split at hr
      · cases hr
      · rename_i as sf' hrest
        injection hr with hr; injection hr with h1 h2; subst h1; subst h2
        obtain ⟨n1, n2⟩ := run_env_mono rest s' _ as hrest
        cases cmd with
        | other =>
          simp only [eventsFinal, eventsAt, hs]
          have : s' = s := by simp only [step] at hs; injection hs with hs; injection hs with h1 _; exact h1.symm
          subst this
          simp only [OrigOk] at horig
          rw [ih s' _ as cur hrest hE1 hE2 hcur horig]
        | stripe p =>
          simp only [eventsFinal, eventsAt, hs]
          have hp := hpa p
          cases hpt : r.passTab p with
          | some t =>
            rw [hpt] at hp
            simp only [OrigOk, hpt] at horig
            obtain ⟨hc, horig⟩ := horig
            obtain ⟨i, hi⟩ := hcur p t hc
            have : s' = s := by
              simp only [step, hp, Option.isSome_some, Bool.not_true, Bool.false_and, Bool.false_eq_true, if_false] at hs
              injection hs with hs; injection hs with h1 _; exact h1.symm
            subst this
            have hfin : lookup E.idx p = some i := stable_idx hst (hE2 _ (n2 _ (lookup_some_mem hi)))
            rw [hfin, hi, ih s' _ as cur hrest hE1 hE2 hcur horig]
          | none =>
            rw [hpt] at hp
            simp only [OrigOk, hpt] at horig
            simp only [stripeEv, hpt]
            congr 1
            simp only [step, hp, Option.isSome_none, Bool.not_false, Bool.true_and] at hs
            split at hs
            · rename_i hres
              injection hs with hs; injection hs with h1 _; subst h1
              rw [if_pos hres] at horig
              exact ih _ _ as none hrest hE1 hE2 (fun _ _ h => nomatch h) horig
            · rename_i hres
              injection hs with hs; injection hs with h1 _; subst h1
              rw [if_neg hres] at horig
              exact ih _ _ as cur hrest hE1 hE2 hcur horig
        | lutDma p t =>
          simp only [OrigOk] at horig
          simp only [eventsFinal, eventsAt, hs]
          have hnext : ∃ i, lookup s'.env.idx p = some i := by
            simp only [step] at hs
            split at hs
            · injection hs with hs; injection hs with h1 _; subst h1; exact ⟨_, lookup_cons_self _ _ _⟩
            · split at hs
              · cases hs
              · injection hs with hs; injection hs with h1 _; subst h1; exact ⟨_, lookup_cons_self _ _ _⟩
          have hcur' : ∀ p' t', some (p, t) = some (p', t') → ∃ i, lookup s'.env.idx p' = some i := by
            intro p' t' h; injection h with h; injection h with h1 _; subst h1; exact hnext
          rw [ih s' _ as (some (p, t)) hrest hE1 hE2 hcur' horig]
          congr 1
          simp only [step] at hs
          split at hs
          · injection hs with hs; injection hs with _ h2; subst h2; simp [Act.kept]
          · split at hs
            · cases hs
            · rename_i a' _
              injection hs with hs; injection hs with h1 h2; subst h1; subst h2
              have : lookup E.addr t = some a' := stable_addr hst (hE1 _ (n1 _ List.mem_cons_self))
              simp [Act.kept, this]


/-! ## the executable checker decides the Spec -/

theorem holdsB_iff (g : Geom) (w : Window) (c n i : Nat) : holdsB g w c n i = true ↔ Holds g w c n i := by
  simp only [holdsB, Holds, Bool.and_eq_true, decide_eq_true_eq, List.all_eq_true, List.mem_range, beq_iff_eq]
  constructor
  · rintro ⟨⟨h1, h2⟩, h3⟩; exact ⟨h1, h2, h3⟩
  · rintro ⟨h1, h2, h3⟩; exact ⟨⟨h1, h2⟩, h3⟩

theorem evOkB_iff (g : Geom) (w : Window) (e : Ev) : evOkB g w e = true ↔ EvOk g w e := by
  cases e with
  | load c n a => simp [evOkB, EvOk, inWindowB, InWindow]
  | use c n i => simpa [evOkB, EvOk] using holdsB_iff g w c n i
  | kernel => simp [evOkB, EvOk]
  | nop => simp [evOkB, EvOk]

theorem streamOkB_iff (g : Geom) : ∀ (evs : List Ev) (w : Window), streamOkB g w evs = true ↔ StreamOk g w evs := by
  intro evs
  induction evs with
  | nil => intro w; simp [streamOkB, StreamOk]
  | cons e es ih => intro w; simp only [streamOkB, StreamOk, Bool.and_eq_true, evOkB_iff, ih]

theorem origOkB_iff (c : Ctx) (r : Refine) : ∀ (cmds : List Cmd) (cur : Option (Nat × Nat)),
    origOkB c r cur cmds = true ↔ OrigOk c r cur cmds := by
  intro cmds
  induction cmds with
  | nil => intro cur; simp [origOkB, OrigOk]
  | cons cmd rest ih =>
    intro cur
    cases cmd with
    | lutDma p t => simp only [origOkB, OrigOk, ih]
    | other => simp only [origOkB, OrigOk, ih]
    | stripe p =>
      simp only [origOkB, OrigOk]
      split <;> simp [ih]

/-- a kernel without table on a configuration where it may use the window leaves no table usable -/
theorem kernel_clobbers_every_table (g : Geom) (hc : g.clobbers = true) (w : Window) (c n i : Nat) (hn : 0 < n) :
    ¬ Holds g (stepW g w .kernel) c n i := by
  rintro ⟨_, _, h⟩
  have := h 0 hn
  simp [stepW, hc, Window.empty] at this

/-! ## `find_best_address` picks a place with the fewest overlaps -/

theorem nrOverlaps_le_length (st : State) (a step : Nat) : nrOverlaps st a step ≤ st.length := by
  unfold nrOverlaps; exact List.length_filter_le _ _

theorem foldl_fba_min (st : State) (step : Nat) (l : List Nat) (b : Nat × Nat) :
    (∀ a ∈ l, (l.foldl (fbaStep st step) b).2 ≤ nrOverlaps st a step) ∧ (l.foldl (fbaStep st step) b).2 ≤ b.2 ∧
      ((l.foldl (fbaStep st step) b) = b ∨
        (l.foldl (fbaStep st step) b).2 = nrOverlaps st (l.foldl (fbaStep st step) b).1 step) := by
  induction l generalizing b with
  | nil => simp
  | cons x l ih =>
    simp only [List.foldl_cons, List.mem_cons, forall_eq_or_imp]
    obtain ⟨i1, i2, i3⟩ := ih (fbaStep st step b x)
    by_cases hc : nrOverlaps st x step < b.2
    · have hx : fbaStep st step b x = (x, nrOverlaps st x step) := by simp [fbaStep, hc]
      rw [hx] at i1 i2 i3 ⊢
      refine ⟨⟨i2, i1⟩, by simp only at i2; omega, ?_⟩
      rcases i3 with h | h
      · right; rw [h]
      · right; exact h
    · have hx : fbaStep st step b x = b := by simp [fbaStep, hc]
      rw [hx] at i1 i2 i3 ⊢
      exact ⟨⟨by omega, i1⟩, i2, i3⟩

/-- `find_best_address` returns an address of the range with the minimal number of overlapping entries (as long as the
    list is shorter than `stop`, the value the loop starts from) -/
theorem findBestAddress_minimal {st : State} {start stop step a : Nat} (h : findBestAddress st start stop step = .ok a)
    (hlen : st.length < stop) (hne : start < stop) :
    a ∈ pyRange start stop step ∧ ∀ a' ∈ pyRange start stop step, nrOverlaps st a step ≤ nrOverlaps st a' step := by
  unfold findBestAddress at h
  split at h
  · cases h
  · rename_i hs
    have hs' : 0 < step := Nat.pos_of_ne_zero hs
    injection h with h
    obtain ⟨m1, _, m3⟩ := foldl_fba_min st step (pyRange start stop step) (start, stop)
    have hstart : start ∈ pyRange start stop step := (mem_pyRange hs').2 ⟨0, by simp, by simpa using hne⟩
    have hlt := m1 start hstart
    have hl := nrOverlaps_le_length st start step
    rcases m3 with e | e
    · rw [e] at hlt; simp only at hlt; omega
    · rw [h] at e
      refine ⟨?_, fun a' ha' => by rw [← e]; exact m1 a' ha'⟩
      rcases foldl_fba_fst st step (pyRange start stop step) (start, stop) with h1 | h1
      · rw [h] at h1; simp only at h1; rw [h1]; exact hstart
      · rw [h] at h1; exact h1

/-- placing a table where nothing overlaps evicts nothing -/
theorem put_of_no_overlap (st : State) (t : Tab) (h : nrOverlaps st t.addr t.size = 0) : put st t = t :: st := by
  unfold put
  congr 1
  rw [List.filter_eq_self]
  intro u hu
  unfold nrOverlaps at h
  have := List.length_eq_zero_iff.1 h
  rw [List.filter_eq_nil_iff] at this
  simpa [Tab.stop] using this u hu

/-! ## a syntactic sufficient condition for `stable` -/

def dmaTids : List Cmd → List Nat
  | [] => []
  | .lutDma _ t :: rest => t :: dmaTids rest
  | _ :: rest => dmaTids rest

def dmaPids : List Cmd → List Nat
  | [] => []
  | .lutDma p _ :: rest => p :: dmaPids rest
  | _ :: rest => dmaPids rest

theorem step_env_keys {c : Ctx} {s s' : PS} {cmd : Cmd} {a : Act} (hs : step c s cmd = .ok (s', a)) :
    s'.env.addr.map Prod.fst = (dmaTids [cmd]).reverse ++ s.env.addr.map Prod.fst ∧
    s'.env.idx.map Prod.fst = (dmaPids [cmd]).reverse ++ s.env.idx.map Prod.fst := by
  cases cmd with
  | other => simp only [step] at hs; injection hs with hs; injection hs with h1 _; subst h1; simp [dmaTids, dmaPids]
  | stripe p =>
    simp only [step] at hs
    split at hs <;> (injection hs with hs; injection hs with h1 _; subst h1; simp [dmaTids, dmaPids])
  | lutDma p t =>
    simp only [step] at hs
    split at hs
    · injection hs with hs; injection hs with h1 _; subst h1; simp [dmaTids, dmaPids]
    · split at hs
      · cases hs
      · injection hs with hs; injection hs with h1 _; subst h1; simp [dmaTids, dmaPids]

theorem dmaTids_cons (cmd : Cmd) (rest : List Cmd) : dmaTids (cmd :: rest) = dmaTids [cmd] ++ dmaTids rest := by
  cases cmd <;> simp [dmaTids]

theorem dmaPids_cons (cmd : Cmd) (rest : List Cmd) : dmaPids (cmd :: rest) = dmaPids [cmd] ++ dmaPids rest := by
  cases cmd <;> simp [dmaPids]

theorem run_env_keys {c : Ctx} : ∀ (cmds : List Cmd) (s sf : PS) (acts : List Act), run c s cmds = .ok (acts, sf) →
    sf.env.addr.map Prod.fst = (dmaTids cmds).reverse ++ s.env.addr.map Prod.fst ∧
    sf.env.idx.map Prod.fst = (dmaPids cmds).reverse ++ s.env.idx.map Prod.fst := by
  intro cmds
  induction cmds with
  | nil => intro s sf acts hr; simp only [run] at hr; injection hr with hr; injection hr with _ h2; subst h2; simp [dmaTids, dmaPids]
  | cons cmd rest ih =>
    intro s sf acts hr
    simp only [run] at hr
    split at hr
    · cases hr
    · rename_i s' a hs
      split at hr
      · cases hr
      · rename_i as sf' hrest
        injection hr with hr; injection hr with _ h2; subst h2
        obtain ⟨k1, k2⟩ := step_env_keys hs
        obtain ⟨j1, j2⟩ := ih s' _ as hrest
        rw [j1, j2, k1, k2, dmaTids_cons cmd rest, dmaPids_cons cmd rest]
        simp [List.reverse_append, List.append_assoc]

theorem lookup_of_nodup_keys : ∀ (l : List (Nat × Nat)), (l.map Prod.fst).Nodup → ∀ e ∈ l, lookup l e.1 = some e.2 := by
  intro l
  induction l with
  | nil => intro _ e he; cases he
  | cons x l ih =>
    intro hn e he
    simp only [List.map_cons, List.nodup_cons] at hn
    rcases List.mem_cons.1 he with rfl | he'
    · simp [lookup]
    · have hne : x.1 ≠ e.1 := fun h => hn.1 (by rw [h]; exact List.mem_map_of_mem he')
      have := ih hn.2 e he'
      simp only [lookup, List.find?_cons] at this ⊢
      rw [show (x.1 == e.1) = false by simpa using hne]
      exact this

theorem nodup_reverse' {l : List Nat} (h : l.Nodup) : l.reverse.Nodup := by
  unfold List.Nodup at *
  rw [List.pairwise_reverse]
  exact h.imp fun h => h.symm

/-- if no tensor object and no pass occurs in two table DMAs of the stream, nothing is reassigned -/
theorem stable_of_nodup {c : Ctx} {cmds : List Cmd} {acts : List Act} {sf : PS} (hr : optimize c cmds = .ok (acts, sf))
    (ht : (dmaTids cmds).Nodup) (hp : (dmaPids cmds).Nodup) : stable sf.env = true := by
  obtain ⟨k1, k2⟩ := run_env_keys cmds {} sf acts hr
  simp only [List.map_nil, List.append_nil] at k1 k2
  have h1 : (sf.env.addr.map Prod.fst).Nodup := by rw [k1]; exact nodup_reverse' ht
  have h2 : (sf.env.idx.map Prod.fst).Nodup := by rw [k2]; exact nodup_reverse' hp
  simp only [stable, Bool.and_eq_true, List.all_eq_true, beq_iff_eq]
  exact ⟨fun e he => lookup_of_nodup_keys _ h1 e he, fun e he => lookup_of_nodup_keys _ h2 e he⟩

/-! ## the list checker of the Spec -/

theorem shareByte_false {a b : Nat × Nat × Nat} (h : shareByte a b = false) :
    ∀ x, ¬ ((a.2.1 ≤ x ∧ x < a.2.1 + a.2.2) ∧ (b.2.1 ≤ x ∧ x < b.2.1 + b.2.2)) := by
  intro x
  simp only [shareByte, decide_eq_false_iff_not] at h
  omega

theorem tablesOverlap_none : ∀ (l : List (Nat × Nat × Nat)), tablesOverlap l = none →
    l.Pairwise fun a b => ∀ x, ¬ ((a.2.1 ≤ x ∧ x < a.2.1 + a.2.2) ∧ (b.2.1 ≤ x ∧ x < b.2.1 + b.2.2)) := by
  intro l
  induction l with
  | nil => intro _; exact List.Pairwise.nil
  | cons t rest ih =>
    intro h
    simp only [tablesOverlap] at h
    split at h
    · cases h
    · rename_i hf
      refine List.Pairwise.cons ?_ (ih h)
      intro u hu
      have := List.find?_eq_none.1 hf u hu
      exact shareByte_false (by simpa using this)

theorem problemsFrom_nil_iff (g : Geom) : ∀ (evs : List Ev) (i : Nat) (w : Window),
    problemsFrom g i w evs = [] ↔ streamOkB g w evs = true := by
  intro evs
  induction evs with
  | nil => intro i w; simp [problemsFrom, streamOkB]
  | cons e es ih =>
    intro i w
    simp only [problemsFrom, streamOkB, List.append_eq_nil_iff, Bool.and_eq_true, ih]
    constructor
    · rintro ⟨h1, h2⟩
      refine ⟨?_, h2⟩
      by_cases hb : evOkB g w e = true
      · exact hb
      · exfalso
        simp only [hb, Bool.false_eq_true, if_false] at h1
        cases e <;> simp_all [evOkB]
    · rintro ⟨h1, h2⟩
      exact ⟨by simp [h1], h2⟩

theorem problems_nil_iff (g : Geom) (evs : List Ev) : problems g evs = [] ↔ streamOkB g Window.empty evs = true :=
  problemsFrom_nil_iff g evs 0 Window.empty

end VelaVerif.Lemmas.LutState
