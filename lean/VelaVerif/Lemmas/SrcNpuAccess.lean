import VelaVerif.Lemmas.SrcNumericUtil
import VelaVerif.Model.NpuAccess
import VelaVerif.Gen.SrcRegisterCommandStreamUtil
/-!
# The translated address-range helpers of `register_command_stream_util.py` vs. `Model/NpuAccess.lean` (C04)

Record parameters (`fm`, `strides`, `start`, `end`) are read attribute by attribute; `fm.tiles.addresses` is a
list parameter, `fm.layout == NpuLayout.X` and `fm.strides is None` are boolean parameters.
-/
namespace VelaVerif.SrcNpuAccess
open VelaVerif VelaVerif.PyRt VelaVerif.NpuAccess
open VelaVerif.Gen.SrcRegisterCommandStreamUtil

/-- a loop `for x in xs: acc.append(g x)` (the translation of a list comprehension) -/
theorem pyFor_append {β : Type} (zs : List Int) (acc : List β) (body : List β → Num → M (List β)) (g : Int → β)
    (hb : ∀ a z, body a (Num.py z) = .ok (a ++ [g z])) :
    pyFor (zs.map Num.py) acc body = .ok (acc ++ zs.map g) := by
  induction zs generalizing acc with
  | nil => simp [pyFor]
  | cons z rest ih =>
    simp only [List.map_cons, pyFor, hb]
    rw [ih]
    simp

theorem rangeUp_eq (lo : Int) (n : Nat) : rangeUp lo 1 n = (List.range n).map (fun (i : Nat) => Num.py (lo + Int.ofNat i)) := by
  induction n generalizing lo with
  | zero => rfl
  | succ k ih =>
    rw [rangeUp, ih, List.range_succ_eq_map, List.map_cons, List.map_map]
    simp only [Int.ofNat_eq_natCast, Int.natCast_zero, Int.add_zero, List.cons.injEq, true_and]
    apply List.map_congr_left
    intro i _
    simp only [Function.comp, Int.natCast_succ]
    congr 1
    omega

/-- `range(y0, y1 + 1)` is the model's inclusive range -/
theorem pyRange_incl (y0 y1 : Int) :
    pyRange (.py y0) (.py (y1 + 1)) (.py 1) = .ok ((intRangeIncl y0 y1).map Num.py) := by
  unfold pyRange rangeLen intRangeIncl
  simp only [Int.reduceEq, if_false, Int.reduceLT, if_true, Int.reduceGT]
  rw [rangeUp_eq, List.map_map]
  have hn : (if y0 < y1 + 1 then ((y1 + 1 - y0 + 1 - 1) / 1).toNat else 0) = (y1 + 1 - y0).toNat := by
    split <;> omega
  rw [hn]
  rfl

def pyAR (r : ARange) : Num × Num × Num := (.py r.region, .py r.address, .py r.length)

theorem ga (fm : FMap) (strides : Shape3) (y x c : Int) :
    get_address (.py y) (.py x) (.py c) (.py fm.elemBytes) (.py fm.tiles.height0) (.py fm.tiles.height1)
        (.py fm.tiles.width0) (.py strides.depth) (.py strides.height) (.py strides.width)
        [.py fm.tiles.a0, .py fm.tiles.a1, .py fm.tiles.a2, .py fm.tiles.a3] fm.nhcwb16 (!fm.nhcwb16) =
      .ok (.py (getAddress fm strides y x c)) := by
  unfold getAddress
  cases hl : fm.nhcwb16 <;>
  · py_exec [get_address, pyIndex, if_pos, if_neg, List.getElem?_cons_zero, List.getElem?_cons_succ]
    py_finish

theorem gar (fm : FMap) (strides : Shape3) (y0 x0 c0 y1 x1 c1 : Int) :
    get_address_range (.py y0) (.py x0) (.py c0) (.py y1) (.py x1) (.py c1) (.py fm.elemBytes) (.py fm.region)
        (.py fm.tiles.height0) (.py fm.tiles.height1) (.py fm.tiles.width0) (.py strides.depth) (.py strides.height)
        (.py strides.width) [.py fm.tiles.a0, .py fm.tiles.a1, .py fm.tiles.a2, .py fm.tiles.a3]
        fm.nhcwb16 (!fm.nhcwb16) =
      .ok (pyAR (getAddressRange fm strides y0 x0 c0 y1 x1 c1)) := by
  unfold getAddressRange pyAR
  py_exec [get_address_range, ga]

theorem ghr (fm : FMap) (strides : Shape3) (y0 x0 c0 y1 x1 c1 : Int) :
    get_h_ranges (.py y0) (.py x0) (.py c0) (.py y1) (.py x1) (.py c1) (.py fm.elemBytes) (.py fm.region)
        (.py fm.tiles.height0) (.py fm.tiles.height1) (.py fm.tiles.width0) (.py strides.depth) (.py strides.height)
        (.py strides.width) [.py fm.tiles.a0, .py fm.tiles.a1, .py fm.tiles.a2, .py fm.tiles.a3]
        fm.nhcwb16 (!fm.nhcwb16) =
      .ok ((getHRanges fm strides y0 x0 c0 y1 x1 c1).map pyAR) := by
  unfold getHRanges
  py_exec [get_h_ranges, pyRange_incl]
  rw [pyFor_append _ _ _ (fun y => pyAR (getAddressRange fm strides y x0 c0 y x1 c1))]
  · simp only [List.nil_append, List.map_map]
    rfl
  · intro a z
    py_exec [gar]

theorem gst (fm : FMap) (sd sh sw : Int)
    (hs : ∀ s, fm.strides = some s → s.depth = sd ∧ s.height = sh ∧ s.width = sw) :
    get_strides (.py fm.elemBytes) (.py fm.shape.depth) (.py fm.shape.width) (.py sd) (.py sh) (.py sw)
        (!fm.nhcwb16) fm.strides.isNone =
      .ok (.py (getStrides fm).height, .py (getStrides fm).width, .py (getStrides fm).depth) := by
  unfold getStrides
  have hr := SrcNumericUtil.round_up_py fm.shape.depth 16 (by decide)
  cases hst : fm.strides with
  | some s =>
    obtain ⟨h1, h2, h3⟩ := hs s hst
    subst h1 h2 h3
    py_exec [get_strides, Option.isNone, if_pos, if_neg]
  | none =>
    cases hl : fm.nhcwb16 <;>
    · py_exec [get_strides, Option.isNone, if_pos, if_neg, hr, NpuAccess.roundUp]

theorem garfa (fm : FMap) (y0 x0 c0 ey ex ez sd sh sw : Int)
    (hs : ∀ s, fm.strides = some s → s.depth = sd ∧ s.height = sh ∧ s.width = sw) :
    get_address_ranges_for_area (.py ex) (.py ey) (.py ez) (.py fm.elemBytes) (.py fm.region) (.py fm.shape.depth)
        (.py fm.shape.height) (.py fm.shape.width) (.py sd) (.py sh) (.py sw) (.py fm.tiles.height0)
        (.py fm.tiles.height1) (.py fm.tiles.width0) (.py x0) (.py y0) (.py c0)
        [.py fm.tiles.a0, .py fm.tiles.a1, .py fm.tiles.a2, .py fm.tiles.a3] fm.nhcwb16 (!fm.nhcwb16)
        fm.strides.isNone =
      .ok ((getAddressRangesForArea fm y0 x0 c0 ey ex ez).map pyAR) := by
  unfold getAddressRangesForArea
  py_exec [get_address_ranges_for_area, gst fm sd sh sw hs, ghr]
  repeat' py_split1
  all_goals simp only [List.map_append, List.map_nil, List.nil_append, List.append_nil, List.append_assoc]

/-- a search loop: `for x in xs: if p(x): return True` (with `continue`s), over the image of a list -/
theorem pyForE_any {α β : Type} (os : List β) (f : β → α) (body : Unit → α → M (Step Unit Bool)) (p : β → Bool)
    (hb : ∀ o, body () (f o) = .ok (if p o then Step.ret true else Step.next ())) :
    pyForE (os.map f) () body = .ok (if os.any p then Out.ret true else Out.done ()) := by
  induction os with
  | nil => rfl
  | cons x rest ih =>
    rw [List.map_cons, pyForE, hb, List.any_cons]
    by_cases hp : p x = true
    · simp only [hp, if_true, Bool.true_or]
    · have hp' : p x = false := by simpa using hp
      simp only [hp', Bool.false_eq_true, if_false, Bool.false_or]
      exact ih

theorem rov (a b : ARange) :
    ranges_overlap (.py a.address) (.py a.length) (.py a.region) (.py b.address) (.py b.length) (.py b.region) =
      .ok (rangesOverlap a b) := by
  unfold rangesOverlap
  by_cases hr : a.region = b.region
  · have hr' : (a.region : Int) = (b.region : Int) := by omega
    py_exec [ranges_overlap, SrcNumericUtil.overlaps_py, if_pos, if_neg, hr, hr']
  · have hr' : ¬ (a.region : Int) = (b.region : Int) := by omega
    py_exec [ranges_overlap, SrcNumericUtil.overlaps_py, if_pos, if_neg, hr, hr']
    simp only [Bool.false_and]

def pyOAR (o : Option ARange) : Option (Num × Num × Num) := o.map pyAR

/-- does `a` overlap some range of the list (the `None`s are skipped) -/
def anyOv (a : ARange) (l2 : List (Option ARange)) : Bool :=
  l2.any fun o => match o with | none => false | some b => rangesOverlap a b

theorem any_filterMap (a : ARange) (l2 : List (Option ARange)) :
    (l2.filterMap id).any (fun b => rangesOverlap a b) = anyOv a l2 := by
  unfold anyOv
  induction l2 with
  | nil => rfl
  | cons o rest ih =>
    cases o with
    | none =>
      simp only [List.filterMap_cons, id, List.any_cons, Bool.false_or]
      exact ih
    | some b =>
      simp only [List.filterMap_cons, id, List.any_cons]
      rw [ih]

theorem rlo (l1 l2 : List (Option ARange)) :
    range_lists_overlap (l1.map pyOAR) (l2.map pyOAR) =
      .ok (rangeListsOverlap (l1.filterMap id) (l2.filterMap id)) := by
  unfold range_lists_overlap rangeListsOverlap
  rw [pyForE_any l1 pyOAR _ (fun o => match o with | none => false | some a => anyOv a l2)]
  · -- the result of the outer loop
    have : (l1.filterMap id).any (fun a => (l2.filterMap id).any fun b => rangesOverlap a b) =
        l1.any (fun o => match o with | none => false | some a => anyOv a l2) := by
      induction l1 with
      | nil => rfl
      | cons o rest ih =>
        cases o with
        | none =>
          simp only [List.filterMap_cons, id, List.any_cons, Bool.false_or]
          exact ih
        | some a =>
          simp only [List.filterMap_cons, id, List.any_cons]
          rw [ih, any_filterMap]
    rw [this]
    split
    · rename_i h
      py_exec [h]
    · rename_i h
      have h' : (l1.any fun o => match o with | none => false | some a => anyOv a l2) = false := by simpa using h
      py_exec [h']
  · intro o
    cases o with
    | none => rfl
    | some a =>
      simp only [pyOAR, Option.map]
      rw [pyForE_any l2 pyOAR _ (fun o => match o with | none => false | some b => rangesOverlap a b)]
      · show _ = Except.ok (if anyOv a l2 = true then Step.ret true else Step.next ())
        unfold anyOv
        split <;> rfl
      · intro o
        cases o with
        | none => rfl
        | some b =>
          simp only [pyOAR, Option.map, pyAR]
          py_exec [rov]
          split <;> rfl
theorem gars (fm : FMap) (sd sh sw : Int)
    (hs : ∀ s, fm.strides = some s → s.depth = sd ∧ s.height = sh ∧ s.width = sw) :
    Except.map (List.filterMap id)
      (get_address_ranges (.py fm.elemBytes) (.py fm.region) (.py fm.shape.depth) (.py fm.shape.height)
        (.py fm.shape.width) (.py sd) (.py sh) (.py sw) (.py fm.tiles.height0) (.py fm.tiles.height1)
        (.py fm.tiles.width0) [.py fm.tiles.a0, .py fm.tiles.a1, .py fm.tiles.a2, .py fm.tiles.a3]
        fm.nhcwb16 (!fm.nhcwb16) fm.strides.isNone) =
      .ok ((getAddressRanges fm).map pyAR) := by
  unfold getAddressRanges
  py_exec [get_address_ranges, gst fm sd sh sw hs, gar, Option.isSome_some, Option.isSome_none, Bool.false_eq_true,
    and_false, false_and]
  repeat' py_split1
  all_goals first
    | omega
    | (exfalso; simp_all; done)
    | (simp only [Except.map, List.filterMap_cons, id, List.filterMap_nil, List.map_cons, List.map_nil,
        List.cons_append, List.nil_append, List.append_nil]; done)
end VelaVerif.SrcNpuAccess
