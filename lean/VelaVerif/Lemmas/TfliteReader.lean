import VelaVerif.Lemmas.TfliteWriter
import VelaVerif.Model.TfliteReader
import VelaVerif.Spec.TfliteFile
/-! Lemmas about the TFLite reader model and the reader / writer tables. -/
set_option linter.unusedSimpArgs false
namespace VelaVerif.Tflite.Writer
open VelaVerif.Tflite VelaVerif.OpIndices VelaVerif.Gen

/-- what the reader makes of constant data: a zero-length buffer is no data -/
def normValues (v : Option Data) : Option Data := Reader.parseBuffer { data := v }

/-- table facts about `builtin_operator_inv_map` / `builtin_operator_map` / `Op`, one row of the regenerated `Op` table:
the name and the sort key identify the row; when the writer can serialise the type, the reader maps the builtin code back to
the same type, option serialiser and index triple (`CustomNpuOp` comes back as `Custom`); the graph-side and TFLite-side operand
orders coincide on both ways (so `align_inputs_indices` takes its `to_list == from_list` shortcut) -/
def OpInfo.tableOk (info : OpInfo) : Bool :=
  lookupOp info.name == some info && lookupOpId info.id == some info &&
  match info.inv with
  | none => true
  | some (tf, ser, wt) =>
    wt.flat == info.nng.flat &&
    match WriterTbl.readerOps.find? (fun r => r.1 == tf) with
    | none => false
    | some row =>
      row.2.2.1 == ser && Indices.ofTri row.2.2.2 == wt &&
      (if info.name == "CustomNpuOp" then row.2.1 == "Custom" && tf == WriterTbl.builtinCustom
       else row.2.1 == info.name && (tf == WriterTbl.builtinCustom) == (info.name == "Custom"))

theorem op_table_ok : opTable.all OpInfo.tableOk = true := by decide +kernel
theorem lookupOpId_mem (id : Nat) (info : OpInfo) (h : lookupOpId id = some info) : info ∈ opTable ∧ info.id = id := by
  unfold lookupOpId at h
  exact ⟨List.mem_of_find?_eq_some h, by simpa using List.find?_some h⟩

theorem tableOk_of_lookup (id : Nat) (info : OpInfo) (h : lookupOpId id = some info) : info.tableOk = true :=
  List.all_eq_true.mp op_table_ok info (lookupOpId_mem id info h).1

theorem custom_exists : (lookupOp "Custom").isSome = true := by decide +kernel


theorem builtin_of (oc : OpCodeT) (tf : Nat) (hb : oc.builtin = (tf : Int)) (hd : oc.deprecated = deprecatedCode tf) :
    Reader.effectiveBuiltin oc = (tf : Int) := by
  unfold Reader.effectiveBuiltin deprecatedCode at *
  rw [hb, hd]
  by_cases h : tf = 0
  · subst h; simp
  · have : ¬ ((tf : Int) = 0) := by omega
    simp [this]
    intro h0; exact absurd h0 h

theorem find_readerOps (tf : Nat) : WriterTbl.readerOps.find? (fun r => (r.1 : Int) == (tf : Int)) = WriterTbl.readerOps.find? (fun r => r.1 == tf) := by
  congr 1
  funext r
  simp only [beq_eq_beq, beq_iff_eq]
  exact ⟨fun h => by exact_mod_cast h, fun h => by rw [h]⟩

theorem parseOpCode_of (oc : OpCodeT) (tf : Nat) (row : Nat × String × Bool × WriterTbl.Tri) (info' : OpInfo)
    (hb : oc.builtin = (tf : Int)) (hd : oc.deprecated = deprecatedCode tf)
    (hf : WriterTbl.readerOps.find? (fun r => r.1 == tf) = some row) (hl : lookupOp row.2.1 = some info') :
    Reader.parseOpCode oc = .ok (Reader.RCode.mk info' row.2.2.1
      (if (tf : Int) == (WriterTbl.builtinCustom : Int) then some (oc.custom.getD []) else none)
      (Indices.ofTri row.2.2.2) oc.version) := by
  unfold Reader.parseOpCode Reader.readerRow lookupOpE
  simp only [builtin_of oc tf hb hd, find_readerOps, hf, hl, bind, Except.bind, pure, Except.pure]

theorem opcode_roundtrip (c : Code) (oc : OpCodeT) (info : OpInfo) (hi : lookupOpId c.opId = some info)
    (h : serialiseOpCode c = .ok oc) :
    ∃ rc tf ser wt, Reader.parseOpCode oc = .ok rc ∧ info.inv = some (tf, ser, wt) ∧ rc.version = c.version ∧
      rc.op.name = (if info.name = "CustomNpuOp" then "Custom" else info.name) ∧
      (info.name ≠ "CustomNpuOp" → rc.op = info) ∧
      rc.custom = (if info.name = "Custom" then some c.custom else if info.name = "CustomNpuOp" then some ethosU else none) ∧
      rc.hasSer = ser ∧ rc.indices = wt := by
  have hok := tableOk_of_lookup _ _ hi
  unfold serialiseOpCode at h
  simp only [hi, bind, Except.bind, pure, Except.pure] at h
  unfold OpInfo.tableOk at hok
  cases hinv : info.inv with
  | none =>
    by_cases hc : (info.name == "Custom") = true <;> simp [hinv, hc, throw, throwThe, MonadExceptOf.throw] at h
  | some x =>
    obtain ⟨tf, ser, wt⟩ := x
    simp only [hinv, Bool.and_eq_true, beq_iff_eq] at hok
    obtain ⟨⟨hname, _⟩, _, hrow⟩ := hok
    cases hf : WriterTbl.readerOps.find? (fun r => r.1 == tf) with
    | none => simp [hf] at hrow
    | some row =>
      simp only [hf, Bool.and_eq_true, beq_iff_eq] at hrow
      obtain ⟨⟨hser, hwt⟩, hnm⟩ := hrow
      by_cases hc : info.name = "Custom"
      · -- third-party custom operator
        have hne : ¬ info.name = "CustomNpuOp" := by rw [hc]; decide
        simp only [if_neg hne, Bool.and_eq_true, beq_iff_eq] at hnm
        simp [hinv, hc] at h
        subst h
        have hl : lookupOp row.2.1 = some info := by rw [hnm.1]; exact hname
        have htf : tf = WriterTbl.builtinCustom := by
          have := hnm.2
          simpa [hc] using this
        refine ⟨_, tf, ser, wt, parseOpCode_of _ tf row info rfl rfl hf hl, rfl, rfl, by simp [hne], fun _ => rfl, ?_, hser, hwt⟩
        simp [hc, htf]
      · by_cases hn : info.name = "CustomNpuOp"
        · simp only [if_pos hn, Bool.and_eq_true, beq_iff_eq] at hnm
          have hcb : ¬ (info.name == "Custom") = true := by simpa using hc
          have htf : tf = WriterTbl.builtinCustom := hnm.2
          simp [hinv, hcb, hn, htf] at h
          subst h
          obtain ⟨ci, hci⟩ := Option.isSome_iff_exists.mp custom_exists
          have hl : lookupOp row.2.1 = some ci := by rw [hnm.1]; exact hci
          have hcn : ci.name = "Custom" := by
            unfold lookupOp at hci; simpa using List.find?_some hci
          refine ⟨_, tf, ser, wt, parseOpCode_of _ tf row ci (by simp [htf]) (by simp [htf]) hf hl, rfl, rfl, by simp [hn, hcn],
            fun hx => absurd hn hx, ?_, hser, hwt⟩
          simp [hc, hn, htf]
        · simp only [if_neg hn, Bool.and_eq_true, beq_iff_eq] at hnm
          have hcb : ¬ (info.name == "Custom") = true := by simpa using hc
          have hnb : ¬ (info.name == "CustomNpuOp") = true := by simpa using hn
          simp [hinv, hcb, hnb] at h
          subst h
          have hl : lookupOp row.2.1 = some info := by rw [hnm.1]; exact hname
          have htf : ¬ tf = WriterTbl.builtinCustom := by
            intro hx
            have := hnm.2
            simp [hx, hc] at this
          refine ⟨_, tf, ser, wt, parseOpCode_of _ tf row info rfl rfl hf hl, rfl, rfl, by simp [hn], fun _ => rfl, ?_, hser, hwt⟩
          have : ¬ ((tf : Int) = (WriterTbl.builtinCustom : Int)) := by exact_mod_cast htf
          simp [hc, hn, this]

theorem alignInputs_id {α : Type} (fromI toI : Indices) (xs : List α) (h : toI.flat = fromI.flat) : alignInputs fromI toI xs = .ok xs := by
  unfold alignInputs alignSwaps
  simp [h, applySwaps]

theorem resolve_nat (base n i : Nat) (h : i < n) : Reader.resolve base n (i : Int) = .ok (some (base + i)) := by
  unfold Reader.resolve Reader.pyIndex
  have h1 : ¬ ((i : Int) == -1) = true := by simp
  simp only [h1, if_false]
  have h2 : (0 : Int) ≤ (i : Int) := by omega
  simp [h2, h, pure, Except.pure]

theorem resolve_minus1 (base n : Nat) : Reader.resolve base n (-1) = .ok none := by
  unfold Reader.resolve
  simp [pure, Except.pure]

theorem mapM_of_pointwise {α β : Type} (f : α → Except String β) : ∀ (l : List α), (∀ a ∈ l, ∃ b, f a = .ok b) → ∃ r, l.mapM f = .ok r
  | [], _ => ⟨[], by simp [pure, Except.pure]⟩
  | x :: xs, h => by
    obtain ⟨b, hb⟩ := h x (List.mem_cons_self ..)
    obtain ⟨r, hr⟩ := mapM_of_pointwise f xs (fun a ha => h a (List.mem_cons_of_mem _ ha))
    exact ⟨b :: r, by rw [List.mapM_cons, hb, hr]; rfl⟩

theorem lookupOp_tableOk (name : String) (info : OpInfo) (h : lookupOp name = some info) : info.tableOk = true ∧ info.name = name := by
  unfold lookupOp at h
  exact ⟨List.all_eq_true.mp op_table_ok info (List.mem_of_find?_eq_some h), by simpa using List.find?_some h⟩

/-- what `__init__` does to one operator, given the live tables (graph-side and TFLite-side operand orders coincide): the
operand list is kept, except that a convolution-like operator with constant weights gets the `src_tensor` of every operand
other than its IFM -/
theorem prepOp_ok (ts : List TensorD) (op : OpD) (p : POp) (h : prepOp ts op = .ok p) :
    p.info.name = op.type ∧ p.custom = op.customCode ∧ p.version = op.version ∧ p.outputs = op.outputs ∧
    p.intermediates = op.intermediates ∧ p.payload = op.payload ∧ p.ignored = WriterTbl.opsToIgnore.contains op.type ∧
    (p.ignored = false → p.info.inv.isSome) ∧
    restoredInputs ts p.info op.inputs = .ok p.inputs := by
  unfold prepOp at h
  obtain ⟨info, h1, h⟩ := bind_ok h
  obtain ⟨in1, h2, h⟩ := bind_ok h
  obtain ⟨in2, h3, h⟩ := bind_ok h
  simp only [pure, Except.pure, Except.ok.injEq] at h
  subst h
  have hl : lookupOp op.type = some info := by
    unfold lookupOpE at h1
    cases hx : lookupOp op.type with
    | none => simp [hx, throw, throwThe, MonadExceptOf.throw] at h1
    | some i => simp [hx, pure, Except.pure] at h1; rw [h1]
  obtain ⟨hok, hname⟩ := lookupOp_tableOk _ _ hl
  have hin1 : in1 = op.inputs ∧ (WriterTbl.opsToIgnore.contains op.type = false → info.inv.isSome) := by
    unfold alignedInputs at h2
    by_cases hig : WriterTbl.opsToIgnore.contains op.type = true
    · simp only [hig, if_true, pure, Except.pure, Except.ok.injEq] at h2
      exact ⟨h2.symm, fun hx => by rw [hig] at hx; exact absurd hx (by simp)⟩
    · simp only [hig] at h2
      cases hinv : info.inv with
      | none => simp [hinv, throw, throwThe, MonadExceptOf.throw] at h2
      | some x =>
        simp only [hinv] at h2
        unfold OpInfo.tableOk at hok
        simp only [hinv, Bool.and_eq_true, beq_iff_eq] at hok
        rw [alignInputs_id _ _ _ hok.2.1] at h2
        exact ⟨(Except.ok.inj h2).symm, fun _ => rfl⟩
  refine ⟨hname, rfl, rfl, rfl, rfl, rfl, rfl, ?_, ?_⟩
  · intro hx; exact hin1.2 hx
  · rw [← hin1.1]; exact h3

theorem prepSub_ok (ts : List TensorD) (sg : SubgraphD) (ps : PSub) (h : prepSub ts sg = .ok ps) :
    ps.sg = sg ∧ ps.ops.length = sg.ops.length ∧ ∀ (j : Nat) (op : OpD), sg.ops[j]? = some op → ∃ p, ps.ops[j]? = some p ∧ prepOp ts op = .ok p := by
  unfold prepSub at h
  obtain ⟨ops, h1, h⟩ := bind_ok h
  simp only [pure, Except.pure, Except.ok.injEq] at h
  subst h
  obtain ⟨l, f⟩ := mapM_ok _ _ _ h1
  exact ⟨rfl, l, f⟩
end VelaVerif.Tflite.Writer

namespace VelaVerif.Tflite.Reader
open VelaVerif.Tflite VelaVerif.Tflite.Writer VelaVerif.OpIndices VelaVerif.Gen

/-- the representable range of a tensor is there exactly when the tensor is quantised and of an integer element type, and is then
the full range of that type -/
def RangeOk (td : TensorD) : Prop :=
  td.range = if td.quant.isSome then (Spec.intType td.dtype).map (fun sb => Spec.fullRange sb.1 sb.2) else none

theorem cloneReshape_range (ts : List TensorD) (src : Nat) (r : Option (List Nat)) (c : TensorD)
    (hts : ∀ x ∈ ts, RangeOk x) (h : cloneReshape ts src r = .ok c) : RangeOk c := by
  unfold cloneReshape at h
  cases ht : ts[src]? with
  | none => simp [ht, bind, Except.bind, throw, throwThe, MonadExceptOf.throw] at h
  | some t =>
    have hr := hts t (List.mem_of_getElem? ht)
    simp only [ht, bind, Except.bind, pure, Except.pure] at h
    cases r with
    | none =>
      simp only [Except.ok.injEq] at h
      subst h; exact hr
    | some r =>
      simp only at h
      split at h
      · simp at h
      · split at h
        · simp at h
        · split at h
          · simp [throw, throwThe, MonadExceptOf.throw] at h
          · simp only [Except.ok.injEq] at h
            subst h; exact hr

theorem biasClone_range (ts : List TensorD) (ins : List (Option Nat)) (r : List TensorD × List (Option Nat))
    (hts : ∀ x ∈ ts, RangeOk x) (h : biasClone ts ins = .ok r) : ∀ x ∈ r.1, RangeOk x := by
  unfold biasClone at h
  split at h
  · split at h
    · simp [throw, throwThe, MonadExceptOf.throw] at h
    · split at h
      · obtain ⟨cb, hcb, h⟩ := bind_ok h
        simp only [pure, Except.pure, Except.ok.injEq] at h
        subst h
        intro x hx
        rcases List.mem_append.mp hx with hx | hx
        · exact hts x hx
        · simp at hx; subst hx; exact cloneReshape_range _ _ _ _ hts hcb
      · simp only [pure, Except.pure, Except.ok.injEq] at h
        subst h; exact hts
  · simp only [pure, Except.pure, Except.ok.injEq] at h
    subst h; exact hts

theorem cloneStep_range (op : OpInfo) (ts : List TensorD) (ins : List (Option Nat)) (r : List TensorD × List (Option Nat))
    (hts : ∀ x ∈ ts, RangeOk x) (h : cloneStep op ts ins = .ok r) : ∀ x ∈ r.1, RangeOk x := by
  unfold cloneStep at h
  split at h
  · split at h
    · simp [throw, throwThe, MonadExceptOf.throw] at h
    · simp [throw, throwThe, MonadExceptOf.throw] at h
    · split at h
      · simp [throw, throwThe, MonadExceptOf.throw] at h
      · split at h
        · obtain ⟨c, hc, h⟩ := bind_ok h
          refine biasClone_range _ _ _ ?_ h
          intro x hx
          rcases List.mem_append.mp hx with hx | hx
          · exact hts x hx
          · simp at hx; subst hx; exact cloneReshape_range _ _ _ _ hts hc
        · simp only [pure, Except.pure, Except.ok.injEq] at h
          subst h; exact hts
  · simp only [pure, Except.pure, Except.ok.injEq] at h
    subst h; exact hts

theorem virtualStep_range (code : RCode) (k : Nat) (ts : List TensorD) (outs : List (Option Nat))
    (hts : ∀ x ∈ ts, RangeOk x) : ∀ x ∈ (virtualStep code k ts outs).1, RangeOk x := by
  unfold virtualStep
  split
  · intro x hx
    rcases List.mem_append.mp hx with hx | hx
    · exact hts x hx
    · simp at hx; subst hx; simp [RangeOk, virtualTensor]
  · exact hts

theorem parseOperator_range (codes : List RCode) (base n : Nat) (ts : List TensorD) (k : Nat) (o : OperatorT)
    (r : ROp × List TensorD × Option Nat) (hts : ∀ x ∈ ts, RangeOk x) (h : parseOperator codes base n ts k o = .ok r) :
    ∀ x ∈ r.2.1, RangeOk x := by
  unfold parseOperator at h
  obtain ⟨code, _, h⟩ := bind_ok h
  obtain ⟨ins, _, h⟩ := bind_ok h
  obtain ⟨outs, _, h⟩ := bind_ok h
  obtain ⟨inter, _, h⟩ := bind_ok h
  obtain ⟨fo, _, h⟩ := bind_ok h
  obtain ⟨ins1, _, h⟩ := bind_ok h
  obtain ⟨c, hc, h⟩ := bind_ok h
  simp only [pure, Except.pure, Except.ok.injEq] at h
  subst h
  exact cloneStep_range _ _ _ _ (virtualStep_range code k ts outs hts) hc

theorem parseOperators_range (codes : List RCode) (base n : Nat) : ∀ (ops : List OperatorT) (k : Nat) (ts : List TensorD)
    (r : List ROp × List TensorD × List Nat), (∀ x ∈ ts, RangeOk x) → parseOperators codes base n ops k ts = .ok r → ∀ x ∈ r.2.1, RangeOk x
  | [], k, ts, r, hts, h => by
    simp [parseOperators, pure, Except.pure] at h
    subst h; exact hts
  | o :: rest, k, ts, r, hts, h => by
    unfold parseOperators at h
    obtain ⟨r1, h1, h⟩ := bind_ok h
    obtain ⟨rs, h2, h⟩ := bind_ok h
    simp only [pure, Except.pure, Except.ok.injEq] at h
    subst h
    exact parseOperators_range codes base n rest (k + 1) r1.2.1 rs (parseOperator_range _ _ _ _ _ _ _ hts h1) h2

theorem ranges_table :
    WriterTbl.dtypeMap.all (fun row => rangeOf row.2.1 row.2.2.1 == (Spec.intType row.2.1).map (fun sb => Spec.fullRange sb.1 sb.2)) = true := by
  decide +kernel

theorem parseTensor_range (bufs : List (Option Data)) (t : TensorT) (td : TensorD) (h : parseTensor bufs t = .ok td) : RangeOk td := by
  unfold parseTensor at h
  obtain ⟨row, hrow, h⟩ := bind_ok h
  obtain ⟨buf, hbuf, h⟩ := bind_ok h
  obtain ⟨_, _, h⟩ := bind_ok h
  simp only [pure, Except.pure, Except.ok.injEq] at h
  subst h
  unfold RangeOk
  dsimp only
  have hmem : row ∈ WriterTbl.dtypeMap := by
    unfold dtypeRow at hrow
    cases hf : WriterTbl.dtypeMap.find? (·.1 == t.type) with
    | none => simp [hf, throw, throwThe, MonadExceptOf.throw] at hrow
    | some r =>
      simp [hf, pure, Except.pure] at hrow
      subst hrow
      exact List.mem_of_find?_eq_some hf
  have := List.all_eq_true.mp ranges_table row hmem
  simp only [beq_iff_eq] at this
  rw [this]

theorem readSubgraph_range (codes : List RCode) (bufs : List (Option Data)) (ts : List TensorD) (sg : SubGraphT)
    (r : SubgraphD × List TensorD) (hts : ∀ x ∈ ts, RangeOk x) (h : readSubgraph codes bufs ts sg = .ok r) : ∀ x ∈ r.2, RangeOk x := by
  unfold readSubgraph at h
  obtain ⟨own, hown, h⟩ := bind_ok h
  obtain ⟨po, hpo, h⟩ := bind_ok h
  obtain ⟨_, _, h⟩ := bind_ok h
  obtain ⟨_, _, h⟩ := bind_ok h
  obtain ⟨_, _, h⟩ := bind_ok h
  obtain ⟨_, _, h⟩ := bind_ok h
  simp only [pure, Except.pure, Except.ok.injEq] at h
  subst h
  refine parseOperators_range _ _ _ _ _ _ _ ?_ hpo
  intro x hx
  rcases List.mem_append.mp hx with hx | hx
  · exact hts x hx
  · obtain ⟨j, hj⟩ := List.getElem?_of_mem hx
    obtain ⟨l, f⟩ := mapM_ok _ _ _ hown
    have hjl : j < sg.tensors.length := by rw [← l]; exact (List.getElem?_eq_some_iff.mp hj).1
    obtain ⟨b, hb1, hb2⟩ := f j _ (List.getElem?_eq_getElem hjl)
    rw [hj] at hb1
    rw [Option.some.inj hb1]
    exact parseTensor_range _ _ _ hb2

theorem readSubgraphs_range (codes : List RCode) (bufs : List (Option Data)) : ∀ (sgs : List SubGraphT) (ts : List TensorD)
    (r : List SubgraphD × List TensorD), (∀ x ∈ ts, RangeOk x) → readSubgraphs codes bufs sgs ts = .ok r → ∀ x ∈ r.2, RangeOk x
  | [], ts, r, hts, h => by
    simp [readSubgraphs, pure, Except.pure] at h
    subst h; exact hts
  | sg :: rest, ts, r, hts, h => by
    unfold readSubgraphs at h
    obtain ⟨r1, h1, h⟩ := bind_ok h
    obtain ⟨rs, h2, h⟩ := bind_ok h
    simp only [pure, Except.pure, Except.ok.injEq] at h
    subst h
    exact readSubgraphs_range codes bufs rest r1.2 rs (readSubgraph_range _ _ _ _ _ hts h1) h2

theorem read_range (version : Bytes) (t : ModelT) (d : Desc) (h : read version t = .ok d) : ∀ x ∈ d.tensors, RangeOk x := by
  unfold read at h
  obtain ⟨codes, _, h⟩ := bind_ok h
  obtain ⟨r, hr, h⟩ := bind_ok h
  obtain ⟨metas, _, h⟩ := bind_ok h
  simp only [pure, Except.pure, Except.ok.injEq] at h
  subst h
  exact readSubgraphs_range _ _ _ _ _ (by intro x hx; simp at hx) hr

/-- a tensor with `src_tensor` points to an earlier tensor with the same quantisation, element type and range -/
def CloneOk (ts : List TensorD) : Prop :=
  ∀ (i : Nat) td s, ts[i]? = some td → td.src = some s → ∃ t, ts[s]? = some t ∧ td.quant = t.quant ∧ td.dtype = t.dtype ∧ td.range = t.range

theorem cloneOk_append (ts : List TensorD) (c : TensorD) (h : CloneOk ts)
    (hc : ∀ s, c.src = some s → ∃ t, ts[s]? = some t ∧ c.quant = t.quant ∧ c.dtype = t.dtype ∧ c.range = t.range) : CloneOk (ts ++ [c]) := by
  intro i td s hi hs
  by_cases hlt : i < ts.length
  · rw [List.getElem?_append_left hlt] at hi
    obtain ⟨t, ht, r⟩ := h i td s hi hs
    exact ⟨t, by rw [List.getElem?_append_left (List.getElem?_eq_some_iff.mp ht).1]; exact ht, r⟩
  · have : i = ts.length := by
      have := (List.getElem?_eq_some_iff.mp hi).1
      simp at this; omega
    subst this
    simp at hi
    subst hi
    obtain ⟨t, ht, r⟩ := hc s hs
    exact ⟨t, by rw [List.getElem?_append_left (List.getElem?_eq_some_iff.mp ht).1]; exact ht, r⟩

theorem cloneReshape_src (ts : List TensorD) (src : Nat) (r : Option (List Nat)) (c : TensorD) (h : cloneReshape ts src r = .ok c) :
    c.src = some src ∧ ∃ t, ts[src]? = some t ∧ c.quant = t.quant ∧ c.dtype = t.dtype ∧ c.range = t.range := by
  unfold cloneReshape at h
  cases ht : ts[src]? with
  | none => simp [ht, bind, Except.bind, throw, throwThe, MonadExceptOf.throw] at h
  | some t =>
    simp only [ht, bind, Except.bind, pure, Except.pure] at h
    cases r with
    | none =>
      simp only [Except.ok.injEq] at h
      subst h; exact ⟨rfl, t, rfl, rfl, rfl, rfl⟩
    | some r =>
      simp only at h
      split at h
      · simp at h
      · split at h
        · simp at h
        · split at h
          · simp [throw, throwThe, MonadExceptOf.throw] at h
          · simp only [Except.ok.injEq] at h
            subst h; exact ⟨rfl, t, rfl, rfl, rfl, rfl⟩

theorem cloneOk_append_clone (ts : List TensorD) (src : Nat) (r : Option (List Nat)) (c : TensorD) (h : CloneOk ts)
    (hc : cloneReshape ts src r = .ok c) : CloneOk (ts ++ [c]) := by
  obtain ⟨h1, t, h2⟩ := cloneReshape_src ts src r c hc
  refine cloneOk_append ts c h ?_
  intro s hs
  rw [h1] at hs
  obtain rfl := Option.some.inj hs
  exact ⟨t, h2⟩

theorem biasClone_cloneOk (ts : List TensorD) (ins : List (Option Nat)) (r : List TensorD × List (Option Nat))
    (hts : CloneOk ts) (h : biasClone ts ins = .ok r) : CloneOk r.1 := by
  unfold biasClone at h
  split at h
  · split at h
    · simp [throw, throwThe, MonadExceptOf.throw] at h
    · split at h
      · obtain ⟨cb, hcb, h⟩ := bind_ok h
        simp only [pure, Except.pure, Except.ok.injEq] at h
        subst h
        exact cloneOk_append_clone _ _ _ _ hts hcb
      · simp only [pure, Except.pure, Except.ok.injEq] at h
        subst h; exact hts
  · simp only [pure, Except.pure, Except.ok.injEq] at h
    subst h; exact hts

theorem cloneStep_cloneOk (op : OpInfo) (ts : List TensorD) (ins : List (Option Nat)) (r : List TensorD × List (Option Nat))
    (hts : CloneOk ts) (h : cloneStep op ts ins = .ok r) : CloneOk r.1 := by
  unfold cloneStep at h
  split at h
  · split at h
    · simp [throw, throwThe, MonadExceptOf.throw] at h
    · simp [throw, throwThe, MonadExceptOf.throw] at h
    · split at h
      · simp [throw, throwThe, MonadExceptOf.throw] at h
      · split at h
        · obtain ⟨c, hc, h⟩ := bind_ok h
          exact biasClone_cloneOk _ _ _ (cloneOk_append_clone _ _ _ _ hts hc) h
        · simp only [pure, Except.pure, Except.ok.injEq] at h
          subst h; exact hts
  · simp only [pure, Except.pure, Except.ok.injEq] at h
    subst h; exact hts

theorem virtualStep_cloneOk (code : RCode) (k : Nat) (ts : List TensorD) (outs : List (Option Nat))
    (hts : CloneOk ts) : CloneOk (virtualStep code k ts outs).1 := by
  unfold virtualStep
  split
  · exact cloneOk_append ts _ hts (by intro s hs; simp [virtualTensor] at hs)
  · exact hts

theorem parseOperator_cloneOk (codes : List RCode) (base n : Nat) (ts : List TensorD) (k : Nat) (o : OperatorT)
    (r : ROp × List TensorD × Option Nat) (hts : CloneOk ts) (h : parseOperator codes base n ts k o = .ok r) : CloneOk r.2.1 := by
  unfold parseOperator at h
  obtain ⟨code, _, h⟩ := bind_ok h
  obtain ⟨ins, _, h⟩ := bind_ok h
  obtain ⟨outs, _, h⟩ := bind_ok h
  obtain ⟨inter, _, h⟩ := bind_ok h
  obtain ⟨fo, _, h⟩ := bind_ok h
  obtain ⟨ins1, _, h⟩ := bind_ok h
  obtain ⟨c, hc, h⟩ := bind_ok h
  simp only [pure, Except.pure, Except.ok.injEq] at h
  subst h
  exact cloneStep_cloneOk _ _ _ _ (virtualStep_cloneOk code k ts outs hts) hc

theorem parseOperators_cloneOk (codes : List RCode) (base n : Nat) : ∀ (ops : List OperatorT) (k : Nat) (ts : List TensorD)
    (r : List ROp × List TensorD × List Nat), CloneOk ts → parseOperators codes base n ops k ts = .ok r → CloneOk r.2.1
  | [], k, ts, r, hts, h => by
    simp [parseOperators, pure, Except.pure] at h
    subst h; exact hts
  | o :: rest, k, ts, r, hts, h => by
    unfold parseOperators at h
    obtain ⟨r1, h1, h⟩ := bind_ok h
    obtain ⟨rs, h2, h⟩ := bind_ok h
    simp only [pure, Except.pure, Except.ok.injEq] at h
    subst h
    exact parseOperators_cloneOk codes base n rest (k + 1) r1.2.1 rs (parseOperator_cloneOk _ _ _ _ _ _ _ hts h1) h2

theorem parseTensor_src (bufs : List (Option Data)) (t : TensorT) (td : TensorD) (h : parseTensor bufs t = .ok td) : td.src = none := by
  unfold parseTensor at h
  obtain ⟨row, _, h⟩ := bind_ok h
  obtain ⟨buf, _, h⟩ := bind_ok h
  obtain ⟨_, _, h⟩ := bind_ok h
  simp only [pure, Except.pure, Except.ok.injEq] at h
  subst h; rfl

theorem cloneOk_append_plain (ts : List TensorD) : ∀ (own : List TensorD), CloneOk ts → (∀ x ∈ own, x.src = none) → CloneOk (ts ++ own)
  | [], h, _ => by simpa using h
  | x :: rest, h, hs => by
    have h1 : CloneOk (ts ++ [x]) := cloneOk_append ts x h (by intro s hsx; rw [hs x (List.mem_cons_self ..)] at hsx; simp at hsx)
    have := cloneOk_append_plain (ts ++ [x]) rest h1 (fun y hy => hs y (List.mem_cons_of_mem _ hy))
    simpa using this

theorem readSubgraph_cloneOk (codes : List RCode) (bufs : List (Option Data)) (ts : List TensorD) (sg : SubGraphT)
    (r : SubgraphD × List TensorD) (hts : CloneOk ts) (h : readSubgraph codes bufs ts sg = .ok r) : CloneOk r.2 := by
  unfold readSubgraph at h
  obtain ⟨own, hown, h⟩ := bind_ok h
  obtain ⟨po, hpo, h⟩ := bind_ok h
  obtain ⟨_, _, h⟩ := bind_ok h
  obtain ⟨_, _, h⟩ := bind_ok h
  obtain ⟨_, _, h⟩ := bind_ok h
  obtain ⟨_, _, h⟩ := bind_ok h
  simp only [pure, Except.pure, Except.ok.injEq] at h
  subst h
  refine parseOperators_cloneOk _ _ _ _ _ _ _ (cloneOk_append_plain ts own hts ?_) hpo
  intro x hx
  obtain ⟨j, hj⟩ := List.getElem?_of_mem hx
  obtain ⟨l, f⟩ := mapM_ok _ _ _ hown
  have hjl : j < sg.tensors.length := by rw [← l]; exact (List.getElem?_eq_some_iff.mp hj).1
  obtain ⟨b, hb1, hb2⟩ := f j _ (List.getElem?_eq_getElem hjl)
  rw [hj] at hb1
  rw [Option.some.inj hb1]
  exact parseTensor_src _ _ _ hb2

theorem readSubgraphs_cloneOk (codes : List RCode) (bufs : List (Option Data)) : ∀ (sgs : List SubGraphT) (ts : List TensorD)
    (r : List SubgraphD × List TensorD), CloneOk ts → readSubgraphs codes bufs sgs ts = .ok r → CloneOk r.2
  | [], ts, r, hts, h => by
    simp [readSubgraphs, pure, Except.pure] at h
    subst h; exact hts
  | sg :: rest, ts, r, hts, h => by
    unfold readSubgraphs at h
    obtain ⟨r1, h1, h⟩ := bind_ok h
    obtain ⟨rs, h2, h⟩ := bind_ok h
    simp only [pure, Except.pure, Except.ok.injEq] at h
    subst h
    exact readSubgraphs_cloneOk codes bufs rest r1.2 rs (readSubgraph_cloneOk _ _ _ _ _ hts h1) h2

theorem read_cloneOk (version : Bytes) (t : ModelT) (d : Desc) (h : read version t = .ok d) : CloneOk d.tensors := by
  unfold read at h
  obtain ⟨codes, _, h⟩ := bind_ok h
  obtain ⟨r, hr, h⟩ := bind_ok h
  obtain ⟨metas, _, h⟩ := bind_ok h
  simp only [pure, Except.pure, Except.ok.injEq] at h
  subst h
  exact readSubgraphs_cloneOk _ _ _ _ _ (by intro i td s hi; simp at hi) hr

theorem read_metadata_bytes (version : Bytes) (t : ModelT) (d : Desc) (h : read version t = .ok d) : ∀ md ∈ d.metadata, md.nameIsBytes = true := by
  unfold read at h
  obtain ⟨codes, _, h⟩ := bind_ok h
  obtain ⟨r, hr, h⟩ := bind_ok h
  obtain ⟨metas, hm, h⟩ := bind_ok h
  simp only [pure, Except.pure, Except.ok.injEq] at h
  subst h
  unfold readMetadata at hm
  obtain ⟨rm, hrm, hm⟩ := bind_ok hm
  simp only [pure, Except.pure, Except.ok.injEq] at hm
  subst hm
  intro md hmd
  simp only [List.mem_filterMap, id] at hmd
  obtain ⟨x, hx, hxe⟩ := hmd
  obtain ⟨j, hj⟩ := List.getElem?_of_mem hx
  obtain ⟨l, f⟩ := mapM_ok _ _ _ hrm
  have hjl : j < t.metadata.length := by rw [← l]; exact (List.getElem?_eq_some_iff.mp hj).1
  obtain ⟨b, hb1, hb2⟩ := f j _ (List.getElem?_eq_getElem hjl)
  rw [hj] at hb1
  obtain rfl := Option.some.inj hb1
  subst hxe
  split at hb2
  · simp [pure, Except.pure] at hb2
  · split at hb2
    · simp only [pure, Except.pure, Except.ok.injEq] at hb2
      rw [← Option.some.inj hb2]
    · simp [throw, throwThe, MonadExceptOf.throw] at hb2

theorem biasSlot_set (op : OpInfo) (ins : List (Option Nat)) (x : Option Nat) (h1 : 1 < ins.length) :
    biasSlot op (setAt ins 1 x) = (biasSlot op ins).set 1 x := by
  unfold biasSlot setAt
  split
  · split
    · simp only [List.length_set]
      split
      · rw [List.set_append_left _ _ h1]
      · rfl
    · rfl
  · rfl

/-- `biasSlot` appends one `None` or nothing; when the last entry of the result is a tensor nothing was appended and the list is
longer than the bias position -/
theorem biasSlot_cases (op : OpInfo) (ins : List (Option Nat)) (b0 : Nat) (hb : op.needsBias = true) (h0 : op.nng.biases[0]? = some b0) :
    (biasSlot op ins = ins ∧ b0 < ins.length) ∨ (biasSlot op ins = ins ++ [none] ∧ ins.length ≤ b0) := by
  unfold biasSlot
  simp only [hb, if_true, h0]
  split
  · right; exact ⟨rfl, by assumption⟩
  · left; exact ⟨rfl, by omega⟩

/-- the writer's view of one operand after the reader's cloning: a clone goes back to its source, everything else stays -/
theorem restoreSrc_plain (ts : List TensorD) (ifm : Option Nat) (g : Nat) (t : TensorD) (ht : ts[g]? = some t) (hs : t.src = none) :
    restoreSrc ts ifm (some g) = some g := by
  unfold restoreSrc
  simp [ht, hs]

theorem restoreSrc_clone (ts : List TensorD) (ifm : Option Nat) (c : Nat) (t : TensorD) (s : Nat) (ht : ts[c]? = some t) (hs : t.src = some s)
    (hne : some c ≠ ifm) : restoreSrc ts ifm (some c) = some s := by
  unfold restoreSrc
  simp [ht, hs, hne]

theorem cloneReshape_values (ts : List TensorD) (src : Nat) (r : Option (List Nat)) (c : TensorD) (h : cloneReshape ts src r = .ok c) :
    ∃ t, ts[src]? = some t ∧ c.values.isSome = t.values.isSome := by
  unfold cloneReshape at h
  cases ht : ts[src]? with
  | none => simp [ht, bind, Except.bind, throw, throwThe, MonadExceptOf.throw] at h
  | some t =>
    simp only [ht, bind, Except.bind, pure, Except.pure] at h
    cases r with
    | none =>
      simp only [Except.ok.injEq] at h
      subst h; exact ⟨t, rfl, by cases t.values <;> rfl⟩
    | some r =>
      simp only at h
      split at h
      · simp at h
      · split at h
        · simp at h
        · split at h
          · simp [throw, throwThe, MonadExceptOf.throw] at h
          · simp only [Except.ok.injEq] at h
            subst h; exact ⟨t, rfl, by cases t.values <;> rfl⟩

theorem map_eq_of_pointwise {α β : Type} (f : α → β) (A : List α) (X : List β) (hl : A.length = X.length)
    (h : ∀ (q : Nat) a x, A[q]? = some a → X[q]? = some x → f a = x) : A.map f = X := by
  apply List.ext_getElem?
  intro q
  by_cases hq : q < A.length
  · have ha : A[q]? = some A[q] := List.getElem?_eq_getElem hq
    have hx : X[q]? = some X[q] := List.getElem?_eq_getElem (by omega)
    simp [ha, hx, h q _ _ ha hx]
  · simp [List.getElem?_eq_none (Nat.le_of_not_lt hq), List.getElem?_eq_none (by omega : X.length ≤ q)]

/-- table conditions on a convolution-like operator type (they hold for every type the reader can produce, `conv_types_ok`):
it has a bias position `b0 ≥ 2`, its IFM position `i0` is neither the weights position 1 nor behind the bias position -/
structure ConvOk (op : OpInfo) (i0 b0 : Nat) : Prop where
  conv : op.convLike = true
  bias : op.needsBias = true
  b : op.nng.biases[0]? = some b0
  i : op.nng.ifms[0]? = some i0
  i1 : i0 ≠ 1
  ib : i0 < b0
  b2 : 2 ≤ b0

/-- the writer's `restoredInputs` on (tensors `T`, operand list `A`) gives `X`, when `A` is `X` with clones at some positions:
`A[1]` is the weights clone `cw`, every other position holds `X`'s entry or a clone of it, and the IFM position is untouched -/
theorem restored_of_clones (op : OpInfo) (i0 b0 : Nat) (hop : ConvOk op i0 b0) (T : List TensorD) (A X : List (Option Nat)) (n cw : Nat)
    (hl : A.length = X.length) (h1 : A[1]? = some (some cw)) (hcw : ∃ c, T[cw]? = some c ∧ c.values.isSome = true) (_hcn : n ≤ cw)
    (hi0 : A[i0]? = X[i0]?)
    (hsmall : ∀ (q g : Nat), X[q]? = some (some g) → g < n ∧ ∃ t, T[g]? = some t ∧ t.src = none)
    (hpt : ∀ (q : Nat) a x, A[q]? = some a → X[q]? = some x → a = x ∨
      (∃ c g t, a = some c ∧ x = some g ∧ n ≤ c ∧ T[c]? = some t ∧ t.src = some g)) :
    restoredInputs T op A = .ok X := by
  obtain ⟨c, hc, hcv⟩ := hcw
  unfold restoredInputs
  simp only [hop.conv, if_true, h1, hc, hcv, pure, Except.pure, Except.ok.injEq]
  apply map_eq_of_pointwise _ _ _ hl
  intro q a x ha hx
  -- the IFM as the writer sees it is an entry of X: none or a tensor below n
  have hifm : ∀ k, n ≤ k → some k ≠ getInput A op.nng.ifms 0 := by
    intro k hk heq
    unfold getInput at heq
    simp only [hop.i] at heq
    rw [hi0] at heq
    cases hxi : X[i0]? with
    | none => simp [hxi] at heq
    | some v =>
      simp only [hxi] at heq
      cases v with
      | none => simp at heq
      | some g =>
        have := (hsmall i0 g hxi).1
        simp at heq; omega
  rcases hpt q a x ha hx with rfl | ⟨c', g, t, rfl, rfl, hn, ht, hs⟩
  · cases a with
    | none => rfl
    | some g =>
      obtain ⟨_, t, ht, hs⟩ := hsmall q g hx
      exact restoreSrc_plain T _ g t ht hs
  · exact restoreSrc_clone T _ c' t g ht hs (hifm c' hn)

/-- **the writer undoes the reader's clones.** For a convolution-like operator whose file operands `ins` refer to tensors without
`src_tensor` (the file's own tensors): after `cloneStep` (reshaped clones of constant weights and bias, `None` for a missing
bias) the writer's `restoredInputs` yields the file operands again, followed by the `None` of the missing bias. -/
theorem clones_restored (op : OpInfo) (i0 b0 : Nat) (hop : ConvOk op i0 b0) (ts : List TensorD) (ins : List (Option Nat))
    (r : List TensorD × List (Option Nat))
    (hins : ∀ (q g : Nat), ins[q]? = some (some g) → ∃ t, ts[g]? = some t ∧ t.src = none)
    (h : cloneStep op ts ins = .ok r) :
    ∃ w tw, ins[1]? = some (some w) ∧ ts[w]? = some tw ∧
      restoredInputs r.1 op r.2 = .ok (if tw.values.isSome then biasSlot op ins else ins) := by
  unfold cloneStep at h
  simp only [hop.conv, if_true] at h
  cases h1 : ins[1]? with
  | none => simp [h1, throw, throwThe, MonadExceptOf.throw] at h
  | some v =>
    cases v with
    | none => simp [h1, throw, throwThe, MonadExceptOf.throw] at h
    | some w =>
      simp only [h1] at h
      cases htw : ts[w]? with
      | none => simp [htw, throw, throwThe, MonadExceptOf.throw] at h
      | some tw =>
        simp only [htw] at h
        refine ⟨w, tw, rfl, htw, ?_⟩
        by_cases hv : tw.values.isSome = true
        · simp only [hv, if_true] at h ⊢
          obtain ⟨c, hc, h⟩ := bind_ok h
          have h1len : 1 < ins.length := (List.getElem?_eq_some_iff.mp h1).1
          rw [biasSlot_set op ins _ h1len] at h
          obtain ⟨hcsrc, _⟩ := cloneReshape_src ts w _ c hc
          obtain ⟨tw', htw', hcv⟩ := cloneReshape_values ts w _ c hc
          have : tw' = tw := by rw [htw] at htw'; exact (Option.some.inj htw').symm
          subst this
          -- facts about X = biasSlot op ins
          have hXsub : ∀ (q g : Nat), (biasSlot op ins)[q]? = some (some g) → ins[q]? = some (some g) := by
            intro q g hq
            rcases biasSlot_cases op ins b0 hop.bias hop.b with ⟨e, _⟩ | ⟨e, _⟩
            · rw [e] at hq; exact hq
            · rw [e] at hq
              by_cases hql : q < ins.length
              · rwa [List.getElem?_append_left hql] at hq
              · rw [List.getElem?_append_right (by omega)] at hq
                by_cases hq0 : q - ins.length = 0
                · simp [hq0] at hq
                · have : ([none] : List (Option Nat))[q - ins.length]? = none := by
                    apply List.getElem?_eq_none; simp; omega
                  rw [this] at hq; simp at hq
          have hXlen : ins.length ≤ (biasSlot op ins).length := by
            rcases biasSlot_cases op ins b0 hop.bias hop.b with ⟨e, _⟩ | ⟨e, _⟩ <;> rw [e] <;> simp
          have hX1 : (biasSlot op ins)[1]? = some (some w) := by
            rcases biasSlot_cases op ins b0 hop.bias hop.b with ⟨e, _⟩ | ⟨e, _⟩
            · rw [e]; exact h1
            · rw [e, List.getElem?_append_left h1len]; exact h1
          have hXlen1 : 1 < (biasSlot op ins).length := by omega
          have hsmall1 : ∀ (T : List TensorD), (∀ (g : Nat) t, ts[g]? = some t → T[g]? = some t) →
              ∀ (q g : Nat), (biasSlot op ins)[q]? = some (some g) → g < ts.length ∧ ∃ t, T[g]? = some t ∧ t.src = none := by
            intro T hT q g hq
            obtain ⟨t, ht, hs⟩ := hins q g (hXsub q g hq)
            exact ⟨(List.getElem?_eq_some_iff.mp ht).1, t, hT g t ht, hs⟩
          have hT1 : ∀ (g : Nat) t, ts[g]? = some t → (ts ++ [c])[g]? = some t := by
            intro g t ht
            rw [List.getElem?_append_left (List.getElem?_eq_some_iff.mp ht).1]; exact ht
          have hcT1 : (ts ++ [c])[ts.length]? = some c := by simp
          have hXA1 : ((biasSlot op ins).set 1 (some ts.length))[1]? = some (some ts.length) := by
            rw [List.getElem?_set_self hXlen1]
          -- the result without a bias clone
          have hplain : restoredInputs (ts ++ [c]) op ((biasSlot op ins).set 1 (some ts.length)) = .ok (biasSlot op ins) := by
            refine restored_of_clones op i0 b0 hop (ts ++ [c]) _ _ ts.length ts.length (by simp) hXA1 ⟨c, hcT1, by rw [hcv]; exact hv⟩
              (Nat.le_refl _) ?_ (hsmall1 _ hT1) ?_
            · rw [List.getElem?_set_ne (Ne.symm hop.i1)]
            · intro q a x ha hx
              by_cases hq : q = 1
              · subst hq
                rw [hXA1] at ha; rw [hX1] at hx
                obtain rfl := Option.some.inj ha
                obtain rfl := Option.some.inj hx
                exact Or.inr ⟨ts.length, w, c, rfl, rfl, Nat.le_refl _, hcT1, hcsrc⟩
              · rw [List.getElem?_set_ne (Ne.symm hq)] at ha
                rw [ha] at hx; exact Or.inl (Option.some.inj hx)
          unfold biasClone at h
          split at h
          · rename_i b hlast
            split at h
            · simp [throw, throwThe, MonadExceptOf.throw] at h
            · rename_i tb htb
              split at h
              · rename_i htbv
                obtain ⟨cb, hcb, h⟩ := bind_ok h
                simp only [pure, Except.pure, Except.ok.injEq] at h
                subst h
                obtain ⟨hcbsrc, _⟩ := cloneReshape_src _ b none cb hcb
                -- nothing was appended: the last operand is a tensor
                have hL : (biasSlot op ins) = ins ∧ b0 < ins.length := by
                  rcases biasSlot_cases op ins b0 hop.bias hop.b with hx | ⟨e, _⟩
                  · exact hx
                  · exfalso
                    rw [e, List.getLast?_eq_getElem?] at hlast
                    simp only [List.length_set, List.length_append, List.length_cons, List.length_nil] at hlast
                    rw [List.getElem?_set_ne (by omega)] at hlast
                    simp at hlast
                obtain ⟨hXe, hb0⟩ := hL
                have hlastX : (biasSlot op ins)[(biasSlot op ins).length - 1]? = some (some b) := by
                  rw [List.getLast?_eq_getElem?] at hlast
                  simp only [List.length_set] at hlast
                  rw [List.getElem?_set_ne (by rw [hXe]; have := hop.b2; omega)] at hlast
                  exact hlast
                have hLm : (biasSlot op ins).length - 1 ≠ 1 := by rw [hXe]; have := hop.b2; omega
                have hLi : (biasSlot op ins).length - 1 ≠ i0 := by rw [hXe]; have := hop.ib; omega
                have hT2 : ∀ (g : Nat) t, ts[g]? = some t → (ts ++ [c] ++ [cb])[g]? = some t := by
                  intro g t ht
                  rw [List.getElem?_append_left (by simp; have := (List.getElem?_eq_some_iff.mp ht).1; omega)]
                  exact hT1 g t ht
                have hcT2 : (ts ++ [c] ++ [cb])[ts.length]? = some c := by
                  rw [List.getElem?_append_left (by simp)]; exact hcT1
                have hcbT2 : (ts ++ [c] ++ [cb])[ts.length + 1]? = some cb := by simp
                show restoredInputs (ts ++ [c] ++ [cb]) op
                  (setAt ((biasSlot op ins).set 1 (some ts.length)) (((biasSlot op ins).set 1 (some ts.length)).length - 1) (some (ts ++ [c]).length)) = _
                unfold setAt
                simp only [List.length_set, List.length_append, List.length_cons, List.length_nil]
                refine restored_of_clones op i0 b0 hop _ _ _ ts.length ts.length (by simp) ?_ ⟨c, hcT2, by rw [hcv]; exact hv⟩
                  (Nat.le_refl _) ?_ (hsmall1 _ hT2) ?_
                · rw [List.getElem?_set_ne hLm]; exact hXA1
                · rw [List.getElem?_set_ne hLi, List.getElem?_set_ne (Ne.symm hop.i1)]
                · intro q a x ha hx
                  by_cases hq : q = 1
                  · subst hq
                    rw [List.getElem?_set_ne hLm, hXA1] at ha; rw [hX1] at hx
                    obtain rfl := Option.some.inj ha
                    obtain rfl := Option.some.inj hx
                    exact Or.inr ⟨ts.length, w, c, rfl, rfl, Nat.le_refl _, hcT2, hcsrc⟩
                  · by_cases hq2 : q = (biasSlot op ins).length - 1
                    · subst hq2
                      rw [List.getElem?_set_self (by simp; omega)] at ha
                      rw [hlastX] at hx
                      obtain rfl := Option.some.inj ha
                      obtain rfl := Option.some.inj hx
                      exact Or.inr ⟨ts.length + 1, b, cb, rfl, rfl, by omega, hcbT2, hcbsrc⟩
                    · rw [List.getElem?_set_ne (Ne.symm hq2), List.getElem?_set_ne (Ne.symm hq)] at ha
                      rw [ha] at hx; exact Or.inl (Option.some.inj hx)
              · simp only [pure, Except.pure, Except.ok.injEq] at h
                subst h; exact hplain
          · simp only [pure, Except.pure, Except.ok.injEq] at h
            subst h; exact hplain
        · have hv' : tw.values.isSome = false := by simpa using hv
          simp only [hv', Bool.false_eq_true, if_false, pure, Except.pure, Except.ok.injEq] at h ⊢
          subst h
          unfold restoredInputs
          simp [hop.conv, h1, htw, hv', pure, Except.pure]

/-- the table conditions of `clones_restored` as a check of one reader-side row -/
def convRowOk (row : Nat × String × Bool × WriterTbl.Tri) : Bool :=
  match lookupOp row.2.1 with
  | none => false
  | some info =>
    !info.convLike ||
      (info.needsBias && match info.nng.ifms[0]?, info.nng.biases[0]? with
        | some i0, some b0 => i0 != 1 && decide (i0 < b0) && decide (2 ≤ b0)
        | _, _ => false)

theorem conv_rows_ok : WriterTbl.readerOps.all convRowOk = true := by decide +kernel

theorem convOk_of_row (row : Nat × String × Bool × WriterTbl.Tri) (info : OpInfo) (hr : convRowOk row = true) (hl : lookupOp row.2.1 = some info)
    (hc : info.convLike = true) : ∃ i0 b0, ConvOk info i0 b0 := by
  unfold convRowOk at hr
  simp only [hl, hc, Bool.not_true, Bool.false_or, Bool.and_eq_true] at hr
  obtain ⟨hb, hm⟩ := hr
  cases hi : info.nng.ifms[0]? with
  | none => simp [hi] at hm
  | some i0 =>
    cases hbb : info.nng.biases[0]? with
    | none => simp [hi, hbb] at hm
    | some b0 =>
      simp only [hi, hbb, Bool.and_eq_true, bne_iff_ne, ne_eq, decide_eq_true_eq] at hm
      exact ⟨i0, b0, ⟨hc, hb, hbb, hi, hm.1.1, hm.1.2, hm.2⟩⟩

/-- table facts, reader side first: the operator type a builtin code is read as is written with the same builtin code, serialiser
and index triple (no two builtin codes share an `Op`); the element type a TensorType code is read as is written with that code -/
def readerRowInverts (row : Nat × String × Bool × WriterTbl.Tri) : Bool :=
  match lookupOp row.2.1 with
  | none => false
  | some info => info.inv == some (row.1, row.2.2.1, Indices.ofTri row.2.2.2) && lookupOpId info.id == some info &&
      ((row.1 == WriterTbl.builtinCustom) == (info.name == "Custom")) && info.name != "CustomNpuOp"

theorem reader_rows_invert : WriterTbl.readerOps.all readerRowInverts = true := by decide +kernel

theorem dtype_codes_roundtrip : WriterTbl.dtypeMap.all (fun row => dtypeCode row.2.1 == some row.1) = true := by decide +kernel

/-- **file → graph → file, operator codes.** An operator-code entry the reader accepts is written back with the same builtin
code (as `builtin_code`, and capped at 127 as `deprecated_builtin_code`), the same version, and — for CUSTOM — the same custom
code (an absent custom code becomes the empty string); other entries carry no custom code. -/
theorem opcode_preserved (oc : OpCodeT) (rc : RCode) (h : parseOpCode oc = .ok rc) :
    ∃ (b : Nat) (oc' : OpCodeT), effectiveBuiltin oc = (b : Int) ∧
      serialiseOpCode { opId := rc.op.id, custom := rc.custom.getD [], version := rc.version } = .ok oc' ∧
      oc'.builtin = (b : Int) ∧ oc'.deprecated = deprecatedCode b ∧ oc'.version = oc.version ∧
      oc'.custom = (if b = WriterTbl.builtinCustom then some (oc.custom.getD []) else none) ∧ oc'.extra = [] := by
  unfold parseOpCode at h
  obtain ⟨row, hrowE, h⟩ := bind_ok h
  obtain ⟨info, hinfoE, h⟩ := bind_ok h
  simp only [pure, Except.pure, Except.ok.injEq] at h
  subst h
  have hf : WriterTbl.readerOps.find? (fun r => (r.1 : Int) == effectiveBuiltin oc) = some row := by
    unfold readerRow at hrowE
    cases hx : WriterTbl.readerOps.find? (fun r => (r.1 : Int) == effectiveBuiltin oc) with
    | none => simp [hx, throw, throwThe, MonadExceptOf.throw] at hrowE
    | some r => simp [hx, pure, Except.pure] at hrowE; rw [hrowE]
  have hl : lookupOp row.2.1 = some info := by
    unfold lookupOpE at hinfoE
    cases hx : lookupOp row.2.1 with
    | none => simp [hx, throw, throwThe, MonadExceptOf.throw] at hinfoE
    | some i => simp [hx, pure, Except.pure] at hinfoE; rw [hinfoE]
  have hrow := List.all_eq_true.mp reader_rows_invert row (List.mem_of_find?_eq_some hf)
  have hb : (row.1 : Int) = effectiveBuiltin oc := by simpa using List.find?_some hf
  unfold readerRowInverts at hrow
  simp only [hl, Bool.and_eq_true, beq_iff_eq, bne_iff_ne, ne_eq] at hrow
  obtain ⟨⟨⟨hinv, hid⟩, hcus⟩, hnpu⟩ := hrow
  refine ⟨row.1, ?_⟩
  unfold serialiseOpCode
  simp only [hid, bind, Except.bind, pure, Except.pure, hinv]
  by_cases hc : info.name = "Custom"
  · have hrc : row.1 = WriterTbl.builtinCustom := by
      have : (row.1 == WriterTbl.builtinCustom) = true := by rw [hcus]; simp [hc]
      simpa using this
    have hbc : effectiveBuiltin oc = (WriterTbl.builtinCustom : Int) := by rw [← hb, hrc]
    simp only [hc, beq_self_eq_true, if_true]
    exact ⟨_, hb.symm, rfl, rfl, rfl, rfl, by simp [hrc, hbc], rfl⟩
  · have hrc : ¬ row.1 = WriterTbl.builtinCustom := by
      intro hx
      have : (row.1 == WriterTbl.builtinCustom) = true := by simp [hx]
      rw [hcus] at this
      exact hc (by simpa using this)
    have hcb : (info.name == "Custom") = false := by simpa using hc
    have hnb : (info.name == "CustomNpuOp") = false := by simpa using hnpu
    have hbc : ¬ effectiveBuiltin oc = (WriterTbl.builtinCustom : Int) := by
      rw [← hb]; exact_mod_cast hrc
    simp only [hcb, hnb, Bool.false_eq_true, if_false]
    exact ⟨_, hb.symm, rfl, rfl, rfl, rfl, by simp [hrc, hbc], rfl⟩

/-- **file → graph → file, tensor records.** A tensor record the reader accepts is written back (under any buffer index `b`)
with the same name (absent = empty), shape (absent = scalar), element type and variable flag; its quantisation is the reader's
normal form of the file's (`readQuant`: dropped without scale and zero point; zero points 0 for a scale without zero points;
min / max / scale / quantized_dimension as in the file). -/
theorem tensor_preserved (bufs : List (Option Data)) (t : TensorT) (td : TensorD) (b : Nat) (h : parseTensor bufs t = .ok td) :
    ∃ tt, tensorT td b = .ok tt ∧ tt.name = some (t.name.getD []) ∧ tt.shape = some (t.shape.getD []) ∧ tt.type = t.type ∧
      tt.quant = (readQuant t.quant).map quantT ∧ tt.isVariable = t.isVariable ∧ tt.buffer = b ∧ tt.extra = [] := by
  unfold parseTensor at h
  obtain ⟨row, hrow, h⟩ := bind_ok h
  obtain ⟨buf, _, h⟩ := bind_ok h
  obtain ⟨_, _, h⟩ := bind_ok h
  simp only [pure, Except.pure, Except.ok.injEq] at h
  subst h
  have hf : WriterTbl.dtypeMap.find? (·.1 == t.type) = some row := by
    unfold dtypeRow at hrow
    cases hx : WriterTbl.dtypeMap.find? (·.1 == t.type) with
    | none => simp [hx, throw, throwThe, MonadExceptOf.throw] at hrow
    | some r => simp [hx, pure, Except.pure] at hrow; rw [hrow]
  have hr1 : row.1 = t.type := by simpa using List.find?_some hf
  have hcode : dtypeCode row.2.1 = some row.1 := by
    have := List.all_eq_true.mp dtype_codes_roundtrip row (List.mem_of_find?_eq_some hf)
    simpa using this
  unfold tensorT
  simp only [hcode, bind, Except.bind, pure, Except.pure, Except.ok.injEq, exists_eq_left', numElems, ne_eq, not_true_eq_false, if_false, hr1]
  simp
end VelaVerif.Tflite.Reader
