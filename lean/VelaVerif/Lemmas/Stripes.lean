import VelaVerif.Model.Stripes
import VelaVerif.Spec.Receptive
import Mathlib.Tactic.Ring
/-! Helper lemmas for C10 `stripes_partition`: exactly-one counting on each loop level and on the product. -/
namespace VelaVerif.Stripes
open VelaVerif.Box

theorem countP_range_zero (p : Nat → Bool) (n : Nat) (h : ∀ i, i < n → p i = false) :
    (List.range n).countP p = 0 := by
  induction n with
  | zero => simp
  | succ n ih =>
    rw [List.range_succ, List.countP_append, ih (fun i hi => h i (by omega))]
    simp [h n (by omega)]

theorem countP_range_one (p : Nat → Bool) (n k : Nat) (hk : k < n)
    (h : ∀ i, i < n → (p i = true ↔ i = k)) : (List.range n).countP p = 1 := by
  induction n with
  | zero => omega
  | succ n ih =>
    rw [List.range_succ, List.countP_append]
    by_cases hkn : k = n
    · subst hkn
      have h0 : (List.range k).countP p = 0 := by
        apply countP_range_zero
        intro i hi
        have := h i (by omega)
        cases hp : p i
        · rfl
        · have := this.mp hp; omega
      have hk1 : p k = true := (h k (by omega)).mpr rfl
      simp [h0, hk1]
    · have h1 := ih (by omega) (fun i hi => h i (by omega))
      have hn : p n = false := by
        cases hp : p n
        · rfl
        · have := (h n (by omega)).mp hp; omega
      simp [h1, hn]

/-- one loop level: every `y ∈ [start, stop)` lies in exactly one interval -/
theorem axis_count (start stop step y : Nat) (hstep : 0 < step) (h0 : start ≤ y) (h1 : y < stop) :
    (axisIntervals start stop step).countP (fun iv => decide (iv.1 ≤ y) && decide (y < iv.2)) = 1 := by
  unfold axisIntervals pyRange
  rw [List.map_map, List.countP_map]
  apply countP_range_one _ _ ((y - start) / step)
  · -- the index is in range
    have hL : y - start ≤ stop - start - 1 := by omega
    have h2 : (stop - start - 1) / step < (stop - start + step - 1) / step := by
      have e : stop - start + step - 1 = (stop - start - 1) + step := by omega
      rw [e, Nat.add_div_right _ hstep]; omega
    exact Nat.lt_of_le_of_lt (Nat.div_le_div_right hL) h2
  · intro i _
    simp only [Function.comp, Bool.and_eq_true, decide_eq_true_eq]
    have ha : i ≤ (y - start) / step ↔ i * step ≤ y - start := Nat.le_div_iff_mul_le hstep
    have hb : (y - start) / step < i + 1 ↔ y - start < (i + 1) * step := Nat.div_lt_iff_lt_mul hstep
    have e : (i + 1) * step = i * step + step := by ring
    constructor
    · rintro ⟨c1, c2⟩
      have c3 : y < start + i * step + step := by omega
      have : i ≤ (y - start) / step := ha.mpr (by omega)
      have : (y - start) / step < i + 1 := hb.mpr (by omega)
      omega
    · intro hi
      have h3 : i * step ≤ y - start := ha.mp (by omega)
      have h4 : y - start < (i + 1) * step := hb.mp (by omega)
      constructor <;> omega

theorem axis_within (start stop step : Nat) (iv : Nat × Nat) (h : iv ∈ axisIntervals start stop step) :
    start ≤ iv.1 ∧ iv.2 ≤ stop := by
  unfold axisIntervals pyRange at h
  simp only [List.map_map, List.mem_map, List.mem_range, Function.comp] at h
  obtain ⟨i, _, rfl⟩ := h
  constructor
  · show start ≤ start + i * step; omega
  · show min (start + i * step + step) stop ≤ stop; omega

def inIv (c : Nat) (iv : Nat × Nat) : Bool := decide (iv.1 ≤ c) && decide (c < iv.2)

theorem depth_count_zero (S E c : Nat) (hS : S ≤ c) (hE : c < E) (l : List Nat) (hl : ∀ x ∈ l, c < x) :
    (depthIntervals S E l).countP (inIv c) = 0 := by
  induction l with
  | nil => simp [depthIntervals]
  | cons a rest ih =>
    cases rest with
    | nil => simp [depthIntervals]
    | cons b rest' =>
      rw [depthIntervals, List.countP_cons, ih (fun x hx => hl x (List.mem_cons_of_mem _ hx))]
      have : c < a := hl a (by simp)
      simp [inIv]; omega

/-- depth level: for a sorted slice list whose first element is ≤ c and that has an element > c,
    exactly one clamped interval contains c -/
theorem depth_count (S E c : Nat) (hS : S ≤ c) (hE : c < E) (l : List Nat) (hs : l.Pairwise (· ≤ ·))
    (hhead : ∀ a ∈ l.head?, a ≤ c) (hlast : ∃ x ∈ l, c < x) :
    (depthIntervals S E l).countP (inIv c) = 1 := by
  induction l with
  | nil => obtain ⟨x, hx, _⟩ := hlast; cases hx
  | cons a rest ih =>
    have ha : a ≤ c := hhead a (by simp)
    cases rest with
    | nil =>
      obtain ⟨x, hx, hcx⟩ := hlast
      simp at hx; omega
    | cons b rest' =>
      rw [depthIntervals, List.countP_cons]
      have hs' : (b :: rest').Pairwise (· ≤ ·) := (List.pairwise_cons.mp hs).2
      by_cases hcb : c < b
      · have hz : (depthIntervals S E (b :: rest')).countP (inIv c) = 0 := by
          apply depth_count_zero S E c hS hE
          intro x hx
          rcases List.mem_cons.mp hx with rfl | hx
          · exact hcb
          · have := (List.pairwise_cons.mp hs').1 x hx; omega
        rw [hz]; simp [inIv]; omega
      · have h1 : (depthIntervals S E (b :: rest')).countP (inIv c) = 1 := by
          apply ih hs'
          · intro a' ha'; simp at ha'; omega
          · obtain ⟨x, hx, hcx⟩ := hlast
            rcases List.mem_cons.mp hx with rfl | hx
            · omega
            · exact ⟨x, hx, hcx⟩
        rw [h1]; simp [inIv]; omega

theorem depth_within (S E : Nat) (l : List Nat) (iv : Nat × Nat) (h : iv ∈ depthIntervals S E l) :
    S ≤ iv.1 ∧ iv.2 ≤ E := by
  induction l with
  | nil => simp [depthIntervals] at h
  | cons a rest ih =>
    cases rest with
    | nil => simp [depthIntervals] at h
    | cons b rest' =>
      rw [depthIntervals] at h
      rcases List.mem_cons.mp h with rfl | h
      · constructor
        · show S ≤ max a S; omega
        · show min b E ≤ E; omega
      · exact ih h

/-- counting over a `flatMap` whose pieces contribute `n` or nothing -/
theorem countP_flatMap_factor {α γ : Type} (l : List α) (g : α → List γ) (p : γ → Bool) (p1 : α → Bool) (n : Nat)
    (h : ∀ a, (g a).countP p = if p1 a then n else 0) : (l.flatMap g).countP p = l.countP p1 * n := by
  induction l with
  | nil => simp
  | cons a rest ih =>
    rw [List.flatMap_cons, List.countP_append, ih, h a, List.countP_cons]
    cases p1 a <;> simp [Nat.add_mul]; omega

end VelaVerif.Stripes

namespace VelaVerif.Stripes
open VelaVerif.Receptive

def toBox3 (b : OBox) : Box3 := ⟨b.y0, b.y1, b.x0, b.x1, b.c0, b.c1⟩

theorem countP_map_gate {β γ : Type} (l : List β) (f : β → γ) (p : γ → Bool) (p2 : β → Bool) (b0 : Bool)
    (h : ∀ b, p (f b) = (b0 && p2 b)) : (l.map f).countP p = if b0 then l.countP p2 else 0 := by
  induction l with
  | nil => cases b0 <;> simp
  | cons a rest ih =>
    rw [List.map_cons, List.countP_cons, ih, h a, List.countP_cons]
    cases b0 <;> simp

theorem countP_gate {β : Type} (l : List β) (p2 : β → Bool) (b0 : Bool) :
    l.countP (fun b => b0 && p2 b) = if b0 then l.countP p2 else 0 := by
  induction l with
  | nil => cases b0 <;> simp
  | cons a rest ih =>
    rw [List.countP_cons, ih, List.countP_cons]
    cases b0 <;> simp

/-- the triple loop: the number of boxes containing a point is the product of the per-level counts -/
theorem count3 (hs ws ds : List (Nat × Nat)) (y x c : Nat) :
    ((hs.flatMap fun hh => ws.flatMap fun ww => ds.map fun cc => (⟨hh.1, hh.2, ww.1, ww.2, cc.1, cc.2⟩ : OBox)).map toBox3).countP
        (fun b => b.contains y x c) =
      hs.countP (inIv y) * (ws.countP (inIv x) * ds.countP (inIv c)) := by
  rw [List.countP_map]
  apply countP_flatMap_factor
  intro hh
  have mid := countP_flatMap_factor ws (fun ww => ds.map fun cc => (⟨hh.1, hh.2, ww.1, ww.2, cc.1, cc.2⟩ : OBox))
    ((fun b => b.contains y x c) ∘ toBox3) (fun ww => inIv y hh && inIv x ww) (ds.countP (inIv c)) (by
      intro ww
      rw [countP_map_gate ds _ _ (inIv c) (inIv y hh && inIv x ww)]
      intro cc
      simp only [Function.comp, Box3.contains, toBox3, inIv, Bool.and_assoc]
      congr)
  rw [mid, countP_gate]
  cases inIv y hh <;> simp

end VelaVerif.Stripes
