import VelaVerif.Spec.Alloc
/-! Soundness/completeness of the C05 Spec checkers and the "disjoint ⇒ covers the peak" lemma. -/
namespace VelaVerif.Spec.Alloc

theorem liveTogetherB_iff (a b : Placed) : liveTogetherB a b = true ↔ LiveTogether a b := by
  simp only [liveTogetherB, decide_eq_true_eq, LiveTogether, LiveAt]
  constructor
  · intro h
    exact ⟨max a.start b.start, by omega⟩
  · rintro ⟨t, h⟩
    omega

theorem disjointB_iff (a b : Placed) : disjointB a b = true ↔ Disjoint a b := by
  simp [disjointB, Disjoint]

theorem sharedB_iff (a b : Placed) : sharedB a b = true ↔ Shared a b := by
  simp [sharedB, Shared, and_assoc]

theorem noConflictB_iff (a b : Placed) : noConflictB a b = true ↔ NoConflict a b := by
  unfold noConflictB NoConflict
  rw [← liveTogetherB_iff, ← disjointB_iff, ← sharedB_iff]
  cases liveTogetherB a b <;> simp

theorem noConflict_symm {a b : Placed} (h : NoConflict a b) : NoConflict b a := by
  unfold NoConflict LiveTogether Disjoint Shared at *
  rintro ⟨t, h1, h2⟩
  rcases h ⟨t, h2, h1⟩ with h | h
  · exact Or.inl (by omega)
  · exact Or.inr ⟨by omega, by omega, by omega⟩

theorem noOverlapB_iff (ps : List Placed) : noOverlapB ps = true ↔ NoOverlap ps := by
  unfold NoOverlap
  induction ps with
  | nil => simp [noOverlapB]
  | cons p ps ih =>
    simp only [noOverlapB, Bool.and_eq_true, List.all_eq_true, List.pairwise_cons, ih,
      noConflictB_iff]

theorem alignedB_iff (ps : List Placed) : alignedB ps = true ↔ Aligned ps := by
  simp only [alignedB, Aligned, List.all_eq_true, beq_iff_eq, Nat.dvd_iff_mod_eq_zero]

theorem le_highestEnd {ps : List Placed} {p : Placed} (h : p ∈ ps) :
    p.addr + p.size ≤ highestEnd ps := by
  induction ps with
  | nil => cases h
  | cons q qs ih =>
    simp only [highestEnd, List.foldr_cons]
    rcases List.mem_cons.1 h with h | h
    · subst h; omega
    · have := ih h
      simp only [highestEnd] at this
      omega

theorem highestEnd_attained {ps : List Placed} (h : ps ≠ []) :
    ∃ p ∈ ps, p.addr + p.size = highestEnd ps := by
  induction ps with
  | nil => exact absurd rfl h
  | cons q qs ih =>
    by_cases hq : qs = []
    · subst hq
      exact ⟨q, by simp, by simp [highestEnd]⟩
    · obtain ⟨p, hp, he⟩ := ih hq
      by_cases hc : highestEnd qs ≤ q.addr + q.size
      · exact ⟨q, by simp, by simp only [highestEnd, List.foldr_cons] at *; omega⟩
      · exact ⟨p, by simp [hp], by simp only [highestEnd, List.foldr_cons] at *; omega⟩

theorem highestEnd_iff (ps : List Placed) (total : Nat) :
    total = highestEnd ps ↔ IsHighestEnd ps total := by
  constructor
  · intro h
    subst h
    exact ⟨fun p hp => le_highestEnd hp, fun h => by subst h; rfl, highestEnd_attained⟩
  · rintro ⟨h1, h2, h3⟩
    by_cases hp : ps = []
    · rw [h2 hp, hp]; rfl
    · obtain ⟨p, hp1, hp2⟩ := h3 hp
      obtain ⟨q, hq1, hq2⟩ := highestEnd_attained hp
      have := h1 q hq1
      have := le_highestEnd hp1
      omega

/-- the size padded to the alignment -/
def pad (p : Placed) : Placed := { p with size := roundUp p.size p.align }

theorem paddedEnd_eq (ps : List Placed) : paddedEnd ps = highestEnd (ps.map pad) := by
  induction ps with
  | nil => rfl
  | cons p ps ih =>
    simp only [paddedEnd, highestEnd, List.map_cons, List.foldr_cons] at *
    rw [ih]; rfl

theorem le_paddedEnd (ps : List Placed) : highestEnd ps ≤ paddedEnd ps
    ∨ ∃ p ∈ ps, p.align = 0 := by
  induction ps with
  | nil => left; exact Nat.le_refl _
  | cons p ps ih =>
    rcases ih with ih | ⟨q, hq, hz⟩
    · by_cases hp : p.align = 0
      · exact Or.inr ⟨p, by simp, hp⟩
      · left
        have hle : p.size ≤ roundUp p.size p.align := by
          have h1 := Nat.div_add_mod (p.size + p.align - 1) p.align
          have h2 := Nat.mod_lt (p.size + p.align - 1) (Nat.pos_of_ne_zero hp)
          have h3 : (p.size + p.align - 1) / p.align * p.align =
              p.align * ((p.size + p.align - 1) / p.align) := Nat.mul_comm _ _
          unfold roundUp
          omega
        simp only [paddedEnd, highestEnd, List.foldr_cons] at *
        omega
    · exact Or.inr ⟨q, by simp [hq], hz⟩

/-- **Checker soundness and completeness**: the executable verdict is exactly the property. -/
theorem ok_iff (ps : List Placed) (total : Nat) : ok ps total = true ↔ Ok ps total := by
  simp only [ok, Ok, Bool.and_eq_true, noOverlapB_iff, alignedB_iff, beq_iff_eq, highestEnd_iff]
  exact ⟨fun ⟨⟨a, b⟩, c⟩ => ⟨a, b, c⟩, fun ⟨a, b, c⟩ => ⟨⟨a, b⟩, c⟩⟩

/-! ### peak -/

theorem le_maxEndTime {ps : List Placed} {p : Placed} (h : p ∈ ps) : p.end_ ≤ maxEndTime ps := by
  induction ps with
  | nil => cases h
  | cons q qs ih =>
    simp only [maxEndTime, List.foldr_cons]
    rcases List.mem_cons.1 h with h | h
    · subst h; omega
    · have := ih h
      simp only [maxEndTime] at this
      omega

theorem liveSum_eq_zero_of_gt (ps : List Placed) (t : Nat) (h : maxEndTime ps < t) :
    liveSum ps t = 0 := by
  unfold liveSum
  have : ps.filter (fun p => decide (p.start ≤ t) && decide (t ≤ p.end_)) = [] := by
    rw [List.filter_eq_nil_iff]
    intro p hp
    have := le_maxEndTime hp
    simp only [Bool.and_eq_true, decide_eq_true_eq, not_and]
    omega
  rw [this]; rfl

theorem coversPeakB_iff (ps : List Placed) (total : Nat) :
    coversPeakB ps total = true ↔ CoversPeak ps total := by
  simp only [coversPeakB, CoversPeak, List.all_eq_true, List.mem_range, decide_eq_true_eq]
  constructor
  · intro h t
    by_cases ht : t < maxEndTime ps + 1
    · exact h t ht
    · rw [liveSum_eq_zero_of_gt ps t (by omega)]; omega
  · intro h t _; exact h t

/-- plain address-disjointness of every pair of a list -/
def AllDisjoint (ps : List Placed) : Prop := ps.Pairwise Disjoint

theorem disjoint_symm {a b : Placed} (h : Disjoint a b) : Disjoint b a := by
  unfold Disjoint at *; omega

theorem exists_max_addr (ps : List Placed) (h : ps ≠ []) :
    ∃ m ∈ ps, ∀ p ∈ ps, p.addr ≤ m.addr := by
  induction ps with
  | nil => exact absurd rfl h
  | cons q qs ih =>
    by_cases hq : qs = []
    · subst hq; exact ⟨q, by simp, by simp⟩
    · obtain ⟨m, hm, hmax⟩ := ih hq
      by_cases hc : m.addr ≤ q.addr
      · refine ⟨q, by simp, ?_⟩
        intro p hp
        rcases List.mem_cons.1 hp with hp | hp
        · subst hp; omega
        · have := hmax p hp; omega
      · refine ⟨m, by simp [hm], ?_⟩
        intro p hp
        rcases List.mem_cons.1 hp with hp | hp
        · subst hp; omega
        · exact hmax p hp

/-- Pairwise disjoint byte intervals that all end at or below `T` have total size at most `T`. -/
theorem sum_sizes_le_of_disjoint (n : Nat) : ∀ (ps : List Placed) (T : Nat), ps.length = n →
    AllDisjoint ps → (∀ p ∈ ps, p.addr + p.size ≤ T) → (ps.map (·.size)).sum ≤ T := by
  induction n with
  | zero =>
    intro ps T hl _ _
    have : ps = [] := List.length_eq_zero_iff.1 hl
    subst this; simp
  | succ n ih =>
    intro ps T hl hd hT
    have hne : ps ≠ [] := by intro h; subst h; simp at hl
    obtain ⟨m, hm, hmax⟩ := exists_max_addr ps hne
    have hperm := List.perm_cons_erase hm
    have hd' : AllDisjoint (m :: ps.erase m) :=
      (List.Perm.pairwise_iff (fun h => disjoint_symm h) hperm).1 hd
    have hlen : (ps.erase m).length = n := by
      rw [List.length_erase_of_mem hm]; omega
    have hsum : (ps.map (·.size)).sum = m.size + ((ps.erase m).map (·.size)).sum := by
      rw [(hperm.map (·.size)).sum_nat]; simp
    rw [hsum]
    obtain ⟨hm_rest, hrest⟩ := List.pairwise_cons.1 hd'
    have hsub : ∀ p ∈ ps.erase m, p ∈ ps := fun p hp => List.mem_of_mem_erase hp
    by_cases hz : m.size = 0
    · have := ih (ps.erase m) T hlen hrest (fun p hp => hT p (hsub p hp))
      omega
    · have hbelow : ∀ p ∈ ps.erase m, p.addr + p.size ≤ m.addr := by
        intro p hp
        have h1 := hm_rest p hp
        have h2 := hmax p (hsub p hp)
        unfold Disjoint at h1
        omega
      have := ih (ps.erase m) m.addr hlen hrest hbelow
      have := hT m hm
      omega

/-- **Footprint ≥ peak**: if no buffer is shared (`cls = 0` everywhere), buffers alive together
    are disjoint and every buffer ends at or below `total`, then at every time step the sum of
    the live sizes is at most `total`. -/
theorem coversPeak_of_noOverlap (ps : List Placed) (total : Nat) (hcls : ∀ p ∈ ps, p.cls = 0)
    (hno : NoOverlap ps) (hT : ∀ p ∈ ps, p.addr + p.size ≤ total) : CoversPeak ps total := by
  intro t
  unfold liveSum
  apply sum_sizes_le_of_disjoint _ _ _ rfl
  · unfold AllDisjoint
    have hf := List.Pairwise.filter (fun p => decide (p.start ≤ t) && decide (t ≤ p.end_)) hno
    rw [List.pairwise_iff_forall_sublist] at hf ⊢
    intro a b hab
    have hab' := hf hab
    have ha : a ∈ ps.filter (fun p => decide (p.start ≤ t) && decide (t ≤ p.end_)) :=
      hab.subset (by simp)
    have hb : b ∈ ps.filter (fun p => decide (p.start ≤ t) && decide (t ≤ p.end_)) :=
      hab.subset (by simp)
    rw [List.mem_filter] at ha hb
    simp only [Bool.and_eq_true, decide_eq_true_eq] at ha hb
    rcases hab' ⟨t, ⟨ha.2.1, ha.2.2⟩, ⟨hb.2.1, hb.2.2⟩⟩ with h | h
    · exact h
    · exact absurd (hcls a ha.1) h.1
  · intro p hp
    exact hT p (List.mem_filter.1 hp).1

end VelaVerif.Spec.Alloc
