import VelaVerif.Lemmas.SchedMem
/-!
# Lemmas about the model of `use_fast_storage_for_feature_maps` (`Model/SchedMem.lean`, second half)
-/
namespace VelaVerif.SchedMem
open VelaVerif.Spec.SchedMem

/-- bytes the range contributes at tick `t` -/
def FLR.contrib (lr : FLR) (t : Nat) : Int := if lr.start ≤ t ∧ t ≤ lr.end_ then (lr.size : Int) else 0

theorem addTicks_ok {u u' : List Int} {lr : FLR} {v : Int} (h : addTicks u lr v = .ok u') :
    u'.length = u.length ∧ ∀ t, t < u.length → val u' t = val u t + (if lr.start ≤ t ∧ t ≤ lr.end_ then v else 0) := by
  unfold addTicks at h
  split at h
  · simp at h
  · next hc =>
    simp only [Except.ok.injEq] at h
    subst h
    refine ⟨addRange_length _ _ _ _, ?_⟩
    intro t ht
    rw [addRange_val]
    by_cases hl : lr.start ≤ t ∧ t ≤ lr.end_
    · have : t < u.length ∧ lr.start ≤ t ∧ t < lr.end_ + 1 := ⟨ht, hl.1, by omega⟩
      simp [this, hl]
    · have : ¬ (t < u.length ∧ lr.start ≤ t ∧ t < lr.end_ + 1) := by omega
      simp [this, hl]

def UniqueIds (lrs : List FLR) : Prop := ∀ a ∈ lrs, ∀ b ∈ lrs, a.id = b.id → a = b

/-- contribution of the range with identity `id` -/
def cOf (lrs : List FLR) (id t : Nat) : Int :=
  match lrs.find? (·.id == id) with | some lr => lr.contrib t | none => 0

theorem cOf_mem {lrs : List FLR} (hu : UniqueIds lrs) {lr : FLR} (h : lr ∈ lrs) (t : Nat) : cOf lrs lr.id t = lr.contrib t := by
  unfold cOf
  cases hf : lrs.find? (·.id == lr.id) with
  | none => have := List.find?_eq_none.mp hf lr h; simp at this
  | some x =>
    have hx := List.mem_of_find?_eq_some hf
    have hid := List.find?_some hf
    simp at hid
    rw [hu x hx lr h hid]

def evSum (lrs : List FLR) : List Nat → Nat → Int
  | [], _ => 0
  | i :: r, t => cOf lrs i t + evSum lrs r t

theorem evSum_append (lrs : List FLR) (a b : List Nat) (t : Nat) : evSum lrs (a ++ b) t = evSum lrs a t + evSum lrs b t := by
  induction a with
  | nil => simp [evSum]
  | cons x r ih => simp [evSum, ih]; omega

/-- the accounting invariant: `max_mem_usage` is the usage of all ranges minus the evicted ones -/
structure FInv (lrs : List FLR) (all : List Int) (st : FS) : Prop where
  lenM : st.maxU.length = all.length
  lenB : st.baseU.length = all.length
  q : ∀ t, t < all.length → val st.maxU t + evSum lrs st.evicted t = val all t

theorem evict_spec {lrs : List FLR} {all : List Int} {st st' : FS} {lr : FLR} {rec : Bool} (hu : UniqueIds lrs)
    (hm : lr ∈ lrs) (hi : FInv lrs all st) (h : st.evict lr rec = .ok st') :
    FInv lrs all st' ∧ st'.evicted = st.evicted ++ [lr.id] ∧ st'.kept = st.kept ∧ st'.baseU = st.baseU := by
  unfold FS.evict evictUsage at h
  cases ha : addTicks st.maxU lr (-(lr.size : Int)) with
  | error e => simp [ha, bind, Except.bind] at h
  | ok m =>
    simp only [ha, bind, Except.bind, Except.ok.injEq] at h
    subst h
    obtain ⟨hl, hv⟩ := addTicks_ok ha
    refine ⟨⟨by simpa [hi.lenM] using hl, hi.lenB, ?_⟩, rfl, rfl, rfl⟩
    intro t ht
    have := hi.q t ht
    simp only [evSum_append, evSum, cOf_mem hu hm, FLR.contrib] at this ⊢
    rw [hv t (by rw [hi.lenM]; exact ht)]
    split <;> omega

theorem keep_spec {lrs : List FLR} {all : List Int} {st st' : FS} {lr : FLR}
    (hi : FInv lrs all st) (h : st.keep lr = .ok st') :
    FInv lrs all st' ∧ st'.evicted = st.evicted ∧ st'.maxU = st.maxU ∧ st'.kept = st.kept ++ [lr.id] := by
  unfold FS.keep keepUsage at h
  cases ha : addTicks st.baseU lr (lr.size : Int) with
  | error e => simp [ha, bind, Except.bind] at h
  | ok m =>
    simp only [ha, bind, Except.bind, Except.ok.injEq] at h
    subst h
    obtain ⟨hl, _⟩ := addTicks_ok ha
    exact ⟨⟨hi.lenM, by simpa [hi.lenB] using hl, hi.q⟩, rfl, rfl, rfl⟩

theorem sliceMax_ge {u : List Int} {a b : Nat} {m : Int} (h : sliceMax u a b = .ok m) :
    ∀ t, a ≤ t → t < b → t < u.length → val u t ≤ m := by
  unfold sliceMax at h
  split at h
  · simp at h
  · next x xs hx =>
    simp only [Except.ok.injEq] at h
    intro t h1 h2 h3
    have hmem : val u t ∈ (x :: xs) := by
      rw [← hx]
      simp only [List.mem_map, List.mem_filter]
      refine ⟨(u[t], t), ⟨?_, by simp [h1, h2]⟩, by simp [val, List.getD, h3]⟩
      rw [List.mem_iff_getElem]
      exact ⟨t, by simpa using h3, by simp⟩
    have gen : ∀ (l : List Int) (acc : Int), acc ≤ l.foldl max acc ∧ ∀ y ∈ l, y ≤ l.foldl max acc := by
      intro l
      induction l with
      | nil => intro acc; simp
      | cons a r ih =>
        intro acc
        simp only [List.foldl_cons]
        have := ih (max acc a)
        refine ⟨Int.le_trans (Int.le_max_left _ _) this.1, ?_⟩
        intro y hy
        simp only [List.mem_cons] at hy
        rcases hy with rfl | hy
        · exact Int.le_trans (Int.le_max_right _ _) this.1
        · exact this.2 y hy
    subst h
    simp only [List.mem_cons] at hmem
    rcases hmem with hm | hm
    · rw [hm]; exact (gen xs x).1
    · exact (gen xs x).2 _ hm

/-- evicted identities and the identities of the ranges not yet decided (`pool`) are pairwise different; all come from `curr` -/
structure PInv (curr : List FLR) (st : FS) (pool : List FLR) : Prop where
  nodup : (st.evicted ++ pool.map (·.id)).Nodup
  evIn : ∀ id ∈ st.evicted, ∃ lr ∈ curr, lr.id = id
  poolIn : ∀ lr ∈ pool, lr ∈ curr

theorem nodup_move (A R T : List Nat) (x : Nat) (h : (A ++ (R ++ x :: T)).Nodup) : ((A ++ [x]) ++ (R ++ T)).Nodup := by
  have p1 : (A ++ (R ++ x :: T)).Perm (x :: (A ++ (R ++ T))) := by
    rw [← List.append_assoc, ← List.append_assoc]; exact List.perm_middle
  have p2 : ((A ++ [x]) ++ (R ++ T)).Perm (x :: (A ++ (R ++ T))) := by
    rw [List.append_assoc]; simp only [List.singleton_append]; exact List.perm_middle
  exact (p2.nodup_iff).mpr ((p1.nodup_iff).mp h)

theorem PInv.evictHead {curr : List FLR} {st st' : FS} {R T : List FLR} {lr : FLR}
    (h : PInv curr st (R ++ lr :: T)) (he : st'.evicted = st.evicted ++ [lr.id]) : PInv curr st' (R ++ T) := by
  refine ⟨?_, ?_, fun x hx => h.poolIn x (by simp at hx ⊢; rcases hx with hx | hx <;> simp [hx])⟩
  · rw [he]
    have := h.nodup
    simp only [List.map_append, List.map_cons] at this ⊢
    exact nodup_move _ _ _ _ this
  · intro id hid
    rw [he] at hid
    simp only [List.mem_append, List.mem_singleton] at hid
    rcases hid with hid | rfl
    · exact h.evIn id hid
    · exact ⟨lr, h.poolIn lr (by simp), rfl⟩

theorem PInv.dropHead {curr : List FLR} {st st' : FS} {R T : List FLR} {lr : FLR}
    (h : PInv curr st (R ++ lr :: T)) (he : st'.evicted = st.evicted) : PInv curr st' (R ++ T) := by
  refine ⟨?_, by rw [he]; exact h.evIn, fun x hx => h.poolIn x (by simp at hx ⊢; rcases hx with hx | hx <;> simp [hx])⟩
  rw [he]
  refine h.nodup.sublist ?_
  refine List.Sublist.append (List.Sublist.refl _) ?_
  simp only [List.map_append, List.map_cons]
  exact List.Sublist.append (List.Sublist.refl _) (List.sublist_cons_self _ _)

theorem neverFit_spec (lrs curr : List FLR) (all : List Int) (limit : Int) (hu : UniqueIds lrs) (hsub : ∀ lr ∈ curr, lr ∈ lrs) :
    ∀ (input : List FLR) (st : FS) (remaining : List FLR) (st' : FS) (rem' : List FLR),
      FInv lrs all st → PInv curr st (remaining ++ input) →
      neverFitPhase limit input st remaining = .ok (st', rem') →
      FInv lrs all st' ∧ PInv curr st' rem' ∧ st'.baseU = st.baseU ∧ st'.kept = st.kept ∧
      (∀ lr ∈ remaining ++ input, lr.id ∈ st'.evicted ∨ lr ∈ rem') ∧ (∀ id ∈ st.evicted, id ∈ st'.evicted) := by
  intro input
  induction input with
  | nil =>
    intro st remaining st' rem' hi hp h
    simp [neverFitPhase] at h
    obtain ⟨rfl, rfl⟩ := h
    exact ⟨hi, by simpa using hp, rfl, rfl, fun lr hlr => Or.inr (by simpa using hlr), fun _ h => h⟩
  | cons lr rest ih =>
    intro st remaining st' rem' hi hp h
    unfold neverFitPhase at h
    cases hs : sliceMax st.baseU lr.start (lr.end_ + 1) with
    | error e => simp [hs, bind, Except.bind] at h
    | ok bu =>
      simp only [hs, bind, Except.bind] at h
      split at h
      · cases he : st.evict lr false with
        | error e => simp [he] at h
        | ok st1 =>
          simp only [he] at h
          have hlm : lr ∈ lrs := hsub lr (hp.poolIn lr (by simp))
          obtain ⟨hi1, hev, hk, hb⟩ := evict_spec hu hlm hi he
          have hp1 : PInv curr { st1 with evictedFms := st1.evictedFms ++ [lr.id] } (remaining ++ rest) :=
            hp.evictHead (by simpa using hev)
          have hi1' : FInv lrs all { st1 with evictedFms := st1.evictedFms ++ [lr.id] } := ⟨hi1.lenM, hi1.lenB, hi1.q⟩
          obtain ⟨a, b, c, d, e, f⟩ := ih _ remaining st' rem' hi1' hp1 h
          refine ⟨a, b, by rw [c]; exact hb, by rw [d]; exact hk, ?_, fun id hid => f id (by simp [hev, hid])⟩
          intro x hx
          simp only [List.mem_append, List.mem_cons] at hx
          rcases hx with hx | rfl | hx
          · exact e x (by simp [hx])
          · exact Or.inl (f _ (by simp [hev]))
          · exact e x (by simp [hx])
      · have hp1 : PInv curr st ((remaining ++ [lr]) ++ rest) := by simpa using hp
        obtain ⟨a, b, c, d, e, f⟩ := ih st (remaining ++ [lr]) st' rem' hi hp1 h
        exact ⟨a, b, c, d, fun x hx => e x (by simpa using hx), f⟩
theorem alwaysFit_spec (lrs curr : List FLR) (all : List Int) (limit : Int) :
    ∀ (input : List FLR) (st : FS) (competing : List FLR) (st' : FS) (comp' : List FLR),
      FInv lrs all st → PInv curr st (competing ++ input) →
      alwaysFitPhase limit input st competing = .ok (st', comp') →
      FInv lrs all st' ∧ PInv curr st' comp' ∧ st'.maxU = st.maxU ∧ st'.evicted = st.evicted ∧
      (∀ lr ∈ input, lr ∈ comp' ∨ ∀ t, lr.start ≤ t → t ≤ lr.end_ → t < st.maxU.length → val st.maxU t ≤ limit) ∧
      (∀ lr ∈ competing, lr ∈ comp') := by
  intro input
  induction input with
  | nil =>
    intro st competing st' comp' hi hp h
    simp [alwaysFitPhase] at h
    obtain ⟨rfl, rfl⟩ := h
    exact ⟨hi, by simpa using hp, rfl, rfl, fun lr hlr => by simp at hlr, fun _ h => h⟩
  | cons lr rest ih =>
    intro st competing st' comp' hi hp h
    unfold alwaysFitPhase at h
    cases hs : sliceMax st.maxU lr.start (lr.end_ + 1) with
    | error e => simp [hs, bind, Except.bind] at h
    | ok mu =>
      simp only [hs, bind, Except.bind] at h
      split at h
      · next hle =>
        cases hk : st.keep lr with
        | error e => simp [hk] at h
        | ok st1 =>
          simp only [hk] at h
          obtain ⟨hi1, hev, hm, _⟩ := keep_spec hi hk
          obtain ⟨a, b, c, d, e, f⟩ := ih st1 competing st' comp' hi1 (hp.dropHead hev) h
          refine ⟨a, b, by rw [c, hm], by rw [d, hev], ?_, f⟩
          intro x hx
          simp only [List.mem_cons] at hx
          rcases hx with rfl | hx
          · right
            intro t h1 h2 h3
            exact Int.le_trans (sliceMax_ge hs t h1 (by omega) h3) hle
          · rw [← hm]; exact e x hx
      · have hp1 : PInv curr st ((competing ++ [lr]) ++ rest) := by simpa using hp
        obtain ⟨a, b, c, d, e, f⟩ := ih st (competing ++ [lr]) st' comp' hi hp1 h
        refine ⟨a, b, c, d, ?_, fun x hx => f x (by simp [hx])⟩
        intro x hx
        simp only [List.mem_cons] at hx
        rcases hx with rfl | hx
        · exact Or.inl (f _ (by simp))
        · exact e x hx

/-- a fold of guarded evict / keep steps over ranges taken from the head of the pool -/
theorem decide_fold (lrs curr : List FLR) (all : List Int) (hu : UniqueIds lrs) (hsub : ∀ lr ∈ curr, lr ∈ lrs) :
    ∀ (c : List FLR) (pat : List Bool) (st st' : FS) (pool : List FLR),
      FInv lrs all st → PInv curr st (c ++ pool) →
      (c.zip pat).foldlM (fun st p => if p.2 then st.evict p.1 true else st.keep p.1) st = .ok st' →
      FInv lrs all st' ∧ PInv curr st' pool := by
  intro c
  induction c with
  | nil => intro pat st st' pool hi hp h; simp [pure, Except.pure] at h; subst h; exact ⟨hi, by simpa using hp⟩
  | cons lr rest ih =>
    intro pat st st' pool hi hp h
    cases pat with
    | nil =>
      simp [pure, Except.pure] at h; subst h
      refine ⟨hi, ⟨hp.nodup.sublist ?_, hp.evIn, fun x hx => hp.poolIn x (by simp [hx])⟩⟩
      exact List.Sublist.append (List.Sublist.refl _) (by
        simp only [List.map_append]; exact List.sublist_append_right _ _)
    | cons p pr =>
      simp only [List.zip_cons_cons, List.foldlM_cons] at h
      have hp0 : PInv curr st ([] ++ lr :: (rest ++ pool)) := by simpa using hp
      cases p with
      | true =>
        simp only [↓reduceIte] at h
        cases he : st.evict lr true with
        | error e => simp [he, bind, Except.bind] at h
        | ok st1 =>
          simp only [he, bind, Except.bind] at h
          obtain ⟨hi1, hev, _, _⟩ := evict_spec hu (hsub lr (hp.poolIn lr (by simp))) hi he
          exact ih pr st1 st' pool hi1 (by simpa using hp0.evictHead hev) h
      | false =>
        simp only [Bool.false_eq_true, ↓reduceIte] at h
        cases hk : st.keep lr with
        | error e => simp [hk, bind, Except.bind] at h
        | ok st1 =>
          simp only [hk, bind, Except.bind] at h
          obtain ⟨hi1, hev, _, _⟩ := keep_spec hi hk
          exact ih pr st1 st' pool hi1 (by simpa using hp0.dropHead hev) h

theorem allocateComponent_spec (lrs curr : List FLR) (all : List Int) (limit : Int) (hu : UniqueIds lrs) (hsub : ∀ lr ∈ curr, lr ∈ lrs)
    (c : List FLR) (st st' : FS) (pool : List FLR) (hi : FInv lrs all st) (hp : PInv curr st (c ++ pool))
    (h : allocateComponent limit st c = .ok st') : FInv lrs all st' ∧ PInv curr st' pool := by
  unfold allocateComponent at h
  cases hb : allocExh limit c 0 st.baseU st.maxU [] { bestScore := -1, evicted := c.map fun _ => false } with
  | error e => simp [hb, bind, Except.bind] at h
  | ok best =>
    simp only [hb, bind, Except.bind] at h
    exact decide_fold lrs curr all hu hsub c best.evicted st st' pool hi hp h

theorem components_flatten : ∀ (l cur : List FLR) (e : Nat), (components l cur e).flatten = cur ++ l := by
  intro l
  induction l with
  | nil => intro cur e; simp [components]
  | cons lr rest ih =>
    intro cur e
    unfold components
    split
    · rw [ih]; simp
    · simp [ih]

theorem components_fold (lrs curr : List FLR) (all : List Int) (limit : Int) (hu : UniqueIds lrs) (hsub : ∀ lr ∈ curr, lr ∈ lrs) :
    ∀ (comps : List (List FLR)) (st st' : FS), FInv lrs all st → PInv curr st comps.flatten →
      comps.foldlM (fun st c => allocateComponent limit st c) st = .ok st' → FInv lrs all st' ∧ PInv curr st' [] := by
  intro comps
  induction comps with
  | nil => intro st st' hi hp h; simp [pure, Except.pure] at h; subst h; exact ⟨hi, by simpa using hp⟩
  | cons c rest ih =>
    intro st st' hi hp h
    simp only [List.foldlM_cons] at h
    cases ha : allocateComponent limit st c with
    | error e => simp [ha, bind, Except.bind] at h
    | ok st1 =>
      simp only [ha, bind, Except.bind] at h
      obtain ⟨hi1, hp1⟩ := allocateComponent_spec lrs curr all limit hu hsub c st st1 rest.flatten hi (by simpa using hp) ha
      exact ih st1 st' hi1 hp1 h

theorem filter_remove (R T : List FLR) (lr : FLR) (h : ((R ++ lr :: T).map (·.id)).Nodup) :
    (R ++ lr :: T).filter (·.id != lr.id) = R ++ T := by
  simp only [List.map_append, List.map_cons] at h
  have h1 := List.nodup_append.mp h
  have h2 := List.nodup_cons.mp h1.2.1
  have hR : ∀ x ∈ R, (x.id != lr.id) = true := by
    intro x hx
    have := h1.2.2 x.id (List.mem_map.mpr ⟨x, hx, rfl⟩) lr.id (by simp)
    simpa using this
  have hT : ∀ x ∈ T, (x.id != lr.id) = true := by
    intro x hx
    have : lr.id ≠ x.id := fun e => h2.1 (e ▸ List.mem_map.mpr ⟨x, hx, rfl⟩)
    simpa using fun e => this e.symm
  rw [List.filter_append, List.filter_cons]
  simp only [bne_self_eq_false, Bool.false_eq_true, ↓reduceIte]
  rw [List.filter_eq_self.mpr hR, List.filter_eq_self.mpr hT]

theorem longPhase_spec (lrs curr : List FLR) (all : List Int) (hu : UniqueIds lrs) (hsub : ∀ lr ∈ curr, lr ∈ lrs) (copy : List FLR) :
    ∀ (zs : List (FLR × Nat)) (st : FS) (competing : List FLR) (st' : FS) (comp' : List FLR),
      FInv lrs all st → PInv curr st competing → (∀ z ∈ zs, z.1 ∈ competing) → (zs.map (·.1.id)).Nodup →
      longPhase copy zs st competing = .ok (st', comp') → FInv lrs all st' ∧ PInv curr st' comp' := by
  intro zs
  induction zs with
  | nil => intro st competing st' comp' hi hp _ _ h; simp [longPhase] at h; obtain ⟨rfl, rfl⟩ := h; exact ⟨hi, hp⟩
  | cons z rest ih =>
    intro st competing st' comp' hi hp hz hn h
    obtain ⟨lr, i⟩ := z
    have hn' := List.nodup_cons.mp (by simpa using hn : (lr.id :: rest.map (·.1.id)).Nodup)
    have hrest : ∀ z ∈ rest, z.1 ∈ competing := fun z hz' => hz z (by simp [hz'])
    unfold longPhase at h
    split at h
    · simp only at h
      split at h
      · simp at h
      · next other ho =>
        split at h
        · cases he : st.evict lr false with
          | error e => simp [he, bind, Except.bind] at h
          | ok st1 =>
            simp only [he, bind, Except.bind] at h
            have hlc : lr ∈ competing := hz (lr, i) (by simp)
            obtain ⟨R, T, hRT⟩ := List.append_of_mem hlc
            have hnd : (competing.map (·.id)).Nodup := (List.nodup_append.mp hp.nodup).2.1
            obtain ⟨hi1, hev, _, _⟩ := evict_spec hu (hsub lr (hp.poolIn lr hlc)) hi he
            have hfil : competing.filter (·.id != lr.id) = R ++ T := by rw [hRT] at hnd ⊢; exact filter_remove R T lr hnd
            rw [hfil] at h
            refine ih st1 (R ++ T) st' comp' hi1 ((hRT ▸ hp).evictHead hev) ?_ hn'.2 h
            intro z hz'
            have hzc := hrest z hz'
            rw [hRT] at hzc
            simp only [List.mem_append, List.mem_cons] at hzc ⊢
            rcases hzc with hzc | hzc | hzc
            · exact Or.inl hzc
            · exact absurd (List.mem_map.mpr ⟨z, hz', by rw [hzc]⟩) hn'.1
            · exact Or.inr hzc
        · exact ih st competing st' comp' hi hp hrest hn'.2 h
    · exact ih st competing st' comp' hi hp hrest hn'.2 h

/-- sum of the contributions at `t` of the ranges that satisfy `p` -/
def sumCond (p : FLR → Bool) : List FLR → Nat → Int
  | [], _ => 0
  | lr :: r, t => (if p lr then lr.contrib t else 0) + sumCond p r t

theorem sumCond_congr {p q : FLR → Bool} {l : List FLR} (h : ∀ lr ∈ l, p lr = q lr) (t : Nat) : sumCond p l t = sumCond q l t := by
  induction l with
  | nil => rfl
  | cons a r ih =>
    simp only [sumCond, h a (by simp)]
    rw [ih (fun lr hlr => h lr (by simp [hlr]))]

theorem sumCond_split (p q : FLR → Bool) (l : List FLR) (t : Nat) :
    sumCond p l t = sumCond (fun lr => p lr && q lr) l t + sumCond (fun lr => p lr && !q lr) l t := by
  induction l with
  | nil => simp [sumCond]
  | cons a r ih =>
    simp only [sumCond, ih]
    by_cases hp : p a = true <;> by_cases hq : q a = true <;> simp [hp, hq] <;> omega

theorem sumCond_nonneg (p : FLR → Bool) (l : List FLR) (t : Nat) : 0 ≤ sumCond p l t := by
  induction l with
  | nil => simp [sumCond]
  | cons a r ih => simp only [sumCond, FLR.contrib]; split <;> (try split) <;> omega

theorem sumCond_filter (p q : FLR → Bool) (l : List FLR) (t : Nat) : sumCond p (l.filter q) t = sumCond (fun lr => q lr && p lr) l t := by
  induction l with
  | nil => simp [sumCond]
  | cons a r ih =>
    simp only [List.filter_cons]
    cases hq : q a <;> simp [sumCond, hq, ih]

/-- the usage of all ranges of the target area -/
theorem tlrUsage_sumCond (lrs : List FLR) (t : Nat) : (tlrUsage (lrs.map (·.tlr)) t : Int) = sumCond (·.inArea) lrs t := by
  induction lrs with
  | nil => simp [tlrUsage, sumCond]
  | cons a r ih =>
    simp only [List.map_cons, tlrUsage, sumCond, FLR.contrib]
    rw [← ih]
    generalize tlrUsage (List.map (fun x => x.tlr) r) t = X
    simp only [FLR.tlr]
    by_cases h1 : a.inArea <;> by_cases h2 : a.start ≤ t ∧ t ≤ a.end_
    · have : a.start ≤ t ∧ t < a.end_ + 1 := by omega
      simp [h1, h2, this]
    · have : ¬ (a.start ≤ t ∧ t < a.end_ + 1) := by omega
      simp [h1, h2, this]
    · simp [h1]
    · simp [h1]

theorem cOf_cons (a : FLR) (r : List FLR) (i t : Nat) : cOf (a :: r) i t = if a.id = i then a.contrib t else cOf r i t := by
  unfold cOf
  by_cases h : a.id = i
  · simp [List.find?, h]
  · have : (a.id == i) = false := by simpa using h
    simp [List.find?, this, h]

theorem cOf_absent {r : List FLR} {i : Nat} (h : i ∉ r.map (·.id)) (t : Nat) : cOf r i t = 0 := by
  unfold cOf
  cases hf : r.find? (·.id == i) with
  | none => rfl
  | some x =>
    have := List.mem_of_find?_eq_some hf
    have hid := List.find?_some hf
    simp at hid
    exact absurd (List.mem_map.mpr ⟨x, this, hid⟩) h

theorem evSum_cons_lrs (a : FLR) (r : List FLR) (hn : a.id ∉ r.map (·.id)) : ∀ (ev : List Nat) (t : Nat), ev.Nodup →
    evSum (a :: r) ev t = (if ev.contains a.id then a.contrib t else 0) + evSum r ev t := by
  intro ev
  induction ev with
  | nil => intro t _; simp [evSum]
  | cons i rest ih =>
    intro t hnd
    have hnd' := List.nodup_cons.mp hnd
    simp only [evSum, cOf_cons, ih t hnd'.2]
    by_cases h : a.id = i
    · subst h
      simp [hnd'.1, cOf_absent hn]
    · have h' : ¬ i = a.id := fun e => h e.symm
      simp [h]
      omega

theorem evSum_sumCond : ∀ (lrs : List FLR), (lrs.map (·.id)).Nodup → ∀ (ev : List Nat) (t : Nat), ev.Nodup →
    evSum lrs ev t = sumCond (fun lr => ev.contains lr.id) lrs t := by
  intro lrs
  induction lrs with
  | nil =>
    intro _ ev t _
    have : ∀ ev : List Nat, evSum [] ev t = 0 := by
      intro ev; induction ev with
      | nil => rfl
      | cons i r ih => simp [evSum, cOf, ih]
    simp [this, sumCond]
  | cons a r ih =>
    intro hn ev t hnd
    have hn' := List.nodup_cons.mp (by simpa using hn : (a.id :: r.map (·.id)).Nodup)
    rw [evSum_cons_lrs a r hn'.1 ev t hnd, ih hn'.2 ev t hnd]
    simp [sumCond]

theorem fold_sub (curr : List FLR) : ∀ (u : List Int) (t : Nat), t < u.length →
    val (curr.foldl (fun u lr => addRange u lr.start (lr.end_ + 1) (-(lr.size : Int))) u) t = val u t - sumCond (fun _ => true) curr t ∧
    (curr.foldl (fun u lr => addRange u lr.start (lr.end_ + 1) (-(lr.size : Int))) u).length = u.length := by
  induction curr with
  | nil => intro u t _; simp [sumCond]
  | cons a r ih =>
    intro u t ht
    simp only [List.foldl_cons]
    obtain ⟨h1, h2⟩ := ih (addRange u a.start (a.end_ + 1) (-(a.size : Int))) t (by simpa [addRange_length] using ht)
    rw [h1, h2, addRange_length, addRange_val]
    refine ⟨?_, rfl⟩
    simp only [sumCond, FLR.contrib, ↓reduceIte]
    by_cases hl : a.start ≤ t ∧ t ≤ a.end_
    · have : t < u.length ∧ a.start ≤ t ∧ t < a.end_ + 1 := ⟨ht, hl.1, by omega⟩
      simp [this, hl]; omega
    · have : ¬ (t < u.length ∧ a.start ≤ t ∧ t < a.end_ + 1) := by omega
      simp [this, hl]

def FLR.rng (lr : FLR) : Rng := ⟨lr.start, lr.end_, lr.size⟩

/-- the ranges of the target area as the Spec reads the outcome: movable = the scheduler placed the range in fast storage
    itself (`scratched_fms`), kept = `evict` was not called for it -/
def frngs (lrs : List FLR) (ev : List Nat) : List FRng :=
  (lrs.filter (·.inArea)).map fun lr => { rng := lr.rng, movable := lr.scratched, kept := !ev.contains lr.id }

theorem usageAt_map (l : List FLR) (t : Nat) : (usageAt (l.map (·.rng)) t : Int) = sumCond (fun _ => true) l t := by
  induction l with
  | nil => simp [usageAt, sumSizes, sumCond]
  | cons a r ih =>
    rw [List.map_cons, usageAt_cons, sumCond, ← ih]
    generalize usageAt (List.map (fun x => x.rng) r) t = X
    have hlive : a.rng.liveAt t = decide (a.start ≤ t ∧ t ≤ a.end_) := by
      unfold Rng.liveAt FLR.rng
      by_cases h1 : a.start ≤ t <;> by_cases h2 : t ≤ a.end_ <;> simp [h1, h2]
    rw [hlive]
    by_cases hl : a.start ≤ t ∧ t ≤ a.end_
    · simp [FLR.rng, FLR.contrib, hl]
    · simp [FLR.contrib, hl]

theorem finalAt_frngs (lrs : List FLR) (ev : List Nat) (t : Nat) :
    (finalAt (frngs lrs ev) t : Int) = sumCond (fun lr => lr.inArea && (!lr.scratched || !ev.contains lr.id)) lrs t := by
  unfold finalAt frngs
  rw [List.filter_map, List.map_map]
  have : ((fun r : FRng => r.rng) ∘ fun lr : FLR => ({ rng := lr.rng, movable := lr.scratched, kept := !ev.contains lr.id } : FRng)) = (·.rng) := rfl
  rw [this, usageAt_map, sumCond_filter, sumCond_filter]
  apply sumCond_congr
  intro lr _; simp [Function.comp]

theorem fixedAt_frngs (lrs : List FLR) (ev : List Nat) (t : Nat) :
    (fixedAt (frngs lrs ev) t : Int) = sumCond (fun lr => lr.inArea && !lr.scratched) lrs t := by
  unfold fixedAt frngs
  rw [List.filter_map, List.map_map]
  have : ((fun r : FRng => r.rng) ∘ fun lr : FLR => ({ rng := lr.rng, movable := lr.scratched, kept := !ev.contains lr.id } : FRng)) = (·.rng) := rfl
  rw [this, usageAt_map, sumCond_filter, sumCond_filter]
  apply sumCond_congr
  intro lr _; simp [Function.comp]

theorem foldl_max_ge (u : List Int) (acc : Int) : acc ≤ u.foldl max acc ∧ ∀ t, t < u.length → val u t ≤ u.foldl max acc := by
  induction u generalizing acc with
  | nil => simp
  | cons a r ih =>
    simp only [List.foldl_cons]
    have := ih (max acc a)
    refine ⟨Int.le_trans (Int.le_max_left _ _) this.1, ?_⟩
    intro t ht
    cases t with
    | zero => simp [val]; exact Int.le_trans (Int.le_max_right _ _) this.1
    | succ j => have := this.2 j (by simpa using ht); simpa [val] using this

theorem uniqueIds_of_nodup {lrs : List FLR} (h : (lrs.map (·.id)).Nodup) : UniqueIds lrs := by
  intro a ha b hb hab
  induction lrs with
  | nil => simp at ha
  | cons x r ih =>
    have hn := List.nodup_cons.mp (by simpa using h : (x.id :: r.map (·.id)).Nodup)
    simp only [List.mem_cons] at ha hb
    rcases ha with rfl | ha <;> rcases hb with rfl | hb
    · rfl
    · exact absurd (List.mem_map.mpr ⟨b, hb, hab.symm⟩) hn.1
    · exact absurd (List.mem_map.mpr ⟨a, ha, hab⟩) hn.1
    · exact ih hn.2 ha hb

theorem sumCond_zero {p : FLR → Bool} {l : List FLR} {t : Nat} (h : ∀ lr ∈ l, p lr = true → lr.contrib t = 0) : sumCond p l t = 0 := by
  induction l with
  | nil => rfl
  | cons a r ih =>
    simp only [sumCond]
    rw [ih (fun lr hlr => h lr (by simp [hlr]))]
    by_cases hp : p a = true
    · simp [hp, h a (by simp) hp]
    · simp [hp]

/-- the facts about the final state that the accounting needs -/
structure Accounted (lrs : List FLR) (all fixed : List Int) (st : FS) : Prop where
  finv : FInv lrs all st
  evNodup : st.evicted.Nodup
  evScr : ∀ lr ∈ lrs, st.evicted.contains lr.id = true → lr.scratched = true

theorem final_eq {lrs : List FLR} {all fixed : List Int} {st : FS} (ha : Accounted lrs all fixed st)
    (hids : (lrs.map (·.id)).Nodup) (harea : ∀ lr ∈ lrs, lr.scratched = true → lr.inArea = true)
    (hall : ∀ t, t < all.length → val all t = sumCond (·.inArea) lrs t) (t : Nat) (ht : t < all.length) :
    val st.maxU t = (finalAt (frngs lrs st.evicted) t : Int) := by
  have hq := ha.finv.q t ht
  rw [hall t ht, evSum_sumCond lrs hids _ t ha.evNodup] at hq
  rw [finalAt_frngs]
  have h1 := sumCond_split (·.inArea) (fun lr => st.evicted.contains lr.id) lrs t
  have h2 : sumCond (fun lr => st.evicted.contains lr.id) lrs t = sumCond (fun lr => lr.inArea && st.evicted.contains lr.id) lrs t := by
    apply sumCond_congr
    intro lr hlr
    cases he : st.evicted.contains lr.id with
    | true => simp only [harea lr hlr (ha.evScr lr hlr he), Bool.and_true]
    | false => simp only [Bool.and_false]
  have h3 : sumCond (fun lr => lr.inArea && !st.evicted.contains lr.id) lrs t =
      sumCond (fun lr => lr.inArea && (!lr.scratched || !st.evicted.contains lr.id)) lrs t := by
    apply sumCond_congr
    intro lr hlr
    cases he : st.evicted.contains lr.id with
    | true => simp only [ha.evScr lr hlr he, Bool.not_true, Bool.or_false]
    | false => simp only [Bool.not_false, Bool.or_true]
  omega

theorem fixed_eq {lrs : List FLR} {all : List Int} (harea : ∀ lr ∈ lrs, lr.scratched = true → lr.inArea = true)
    (hall : ∀ t, t < all.length → val all t = sumCond (·.inArea) lrs t) (ev : List Nat) (t : Nat) (ht : t < all.length) :
    val ((lrs.filter (·.scratched)).foldl (fun u lr => addRange u lr.start (lr.end_ + 1) (-(lr.size : Int))) all) t =
      (fixedAt (frngs lrs ev) t : Int) := by
  rw [(fold_sub _ all t ht).1, hall t ht, sumCond_filter, fixedAt_frngs]
  have h1 := sumCond_split (·.inArea) (·.scratched) lrs t
  have h2 : sumCond (fun lr => lr.scratched && true) lrs t = sumCond (fun lr => lr.inArea && lr.scratched) lrs t := by
    apply sumCond_congr
    intro lr hlr
    by_cases hs : lr.scratched = true
    · simp [hs, harea lr hlr hs]
    · simp [hs]
  omega

theorem insertSorted_perm (a : FLR) (l : List FLR) : (insertSorted a l).Perm (a :: l) := by
  induction l with
  | nil => simp [insertSorted]
  | cons b r ih =>
    unfold insertSorted
    split
    · exact List.Perm.refl _
    · exact (List.Perm.cons b ih).trans (List.Perm.swap a b r)

theorem sortFlr_perm (l : List FLR) : (sortFlr l).Perm l := by
  induction l with
  | nil => simp [sortFlr]
  | cons a r ih => exact (insertSorted_perm a _).trans (List.Perm.cons a ih)

theorem accounted_of {lrs curr : List FLR} {all fixed : List Int} {st : FS} {pool : List FLR}
    (hids : (lrs.map (·.id)).Nodup) (hcurr : ∀ lr ∈ curr, lr ∈ lrs ∧ lr.scratched = true)
    (hi : FInv lrs all st) (hp : PInv curr st pool) : Accounted lrs all fixed st := by
  refine ⟨hi, (List.nodup_append.mp hp.nodup).1, ?_⟩
  intro lr hlr he
  have : lr.id ∈ st.evicted := by simpa using he
  obtain ⟨lr', hl', hid⟩ := hp.evIn _ this
  have := uniqueIds_of_nodup hids lr' (hcurr lr' hl').1 lr hlr hid
  subst this
  exact (hcurr lr' hl').2

theorem zip_all_val (u f : List Int) (limit : Int) (hl : u.length = f.length)
    (h : ((u.zip f).all fun p => decide (p.1 ≤ max limit p.2)) = true) :
    ∀ t, t < u.length → val u t ≤ max limit (val f t) := by
  induction u generalizing f with
  | nil => intro t ht; simp at ht
  | cons a r ih =>
    cases f with
    | nil => simp at hl
    | cons b s =>
      simp only [List.zip_cons_cons, List.all_cons, Bool.and_eq_true, decide_eq_true_eq] at h
      intro t ht
      cases t with
      | zero => simpa [val] using h.1
      | succ j => simpa [val] using ih s (by simpa using hl) h.2 j (by simpa using ht)


theorem fastComponents_fits (lrs : List FLR) (ct : Nat) (limit : Int) (maxU baseU : List Int) (st3 : FS) (competing3 : List FLR) (r : FSResult)
    (hids : (lrs.map (·.id)).Nodup) (harea : ∀ lr ∈ lrs, lr.scratched = true → lr.inArea = true) (hlen : maxU.length = ct + 2)
    (hall : ∀ t, t < maxU.length → val maxU t = sumCond (·.inArea) lrs t)
    (hfix : ∀ ev t, t < maxU.length → val baseU t = (fixedAt (frngs lrs ev) t : Int)) (hbl : baseU.length = maxU.length)
    (hi : FInv lrs maxU st3) (hp : PInv (lrs.filter (·.scratched)) st3 competing3)
    (h : fastComponents limit baseU st3 competing3 = .ok r) :
    FastStorageFits (frngs lrs r.st.evicted) limit (ct + 2) := by
  have hu := uniqueIds_of_nodup hids
  have hcurr : ∀ lr ∈ lrs.filter (·.scratched), lr ∈ lrs ∧ lr.scratched = true := by
    intro lr hlr; simpa using List.mem_filter.mp hlr
  have hsub : ∀ lr ∈ lrs.filter (·.scratched), lr ∈ lrs := fun lr hlr => (hcurr lr hlr).1
  unfold fastComponents at h
  split at h
  · simp at h
  · next first tl =>
    simp only [bind, Except.bind] at h
    cases hc : List.foldlM (fun st c => allocateComponent limit st c) st3 (components (first :: tl) [] first.end_) with
    | error e => simp [hc] at h
    | ok st4 =>
      simp only [hc] at h
      obtain ⟨hi4, hp4⟩ := components_fold lrs _ maxU limit hu hsub _ st3 st4 hi
        (by rw [components_flatten]; simpa using hp) hc
      split at h
      · next hassert =>
        simp only [Except.ok.injEq] at h
        subst h
        have hacc : Accounted lrs maxU baseU st4 := accounted_of hids hcurr hi4 hp4
        intro t ht
        have hfin := final_eq hacc hids harea hall t (by omega)
        have := zip_all_val st4.maxU baseU limit (by rw [hi4.lenM, hbl]) hassert t (by rw [hi4.lenM]; omega)
        simp only at hfin ⊢
        rw [← hfin, ← hfix st4.evicted t (by omega)]
        exact this
      · simp at h

theorem useFastStorage_fits (lrs : List FLR) (ct : Nat) (limit : Int) (r : FSResult)
    (hids : (lrs.map (·.id)).Nodup) (harea : ∀ lr ∈ lrs, lr.scratched = true → lr.inArea = true)
    (hb : ∀ t, tlrUsage (lrs.map (·.tlr)) t < 2147483648)
    (h : useFastStorage lrs ct limit = .ok r) :
    FastStorageFits (frngs lrs r.st.evicted) limit (ct + 2) := by
  unfold useFastStorage at h
  cases hT : temporalUsage (lrs.map (·.tlr)) ct with
  | error e => simp [hT, bind, Except.bind] at h
  | ok maxU =>
    simp only [hT, bind, Except.bind] at h
    obtain ⟨hlen, hval⟩ := temporalUsage_val _ ct maxU hb hT
    have hall : ∀ t, t < maxU.length → val maxU t = sumCond (·.inArea) lrs t := by
      intro t ht; rw [hval t (by omega), tlrUsage_sumCond]
    have hu := uniqueIds_of_nodup hids
    split at h
    · -- nothing exceeds the limit
      next hmax =>
      simp only [Except.ok.injEq] at h
      subst h
      intro t ht
      have hacc : Accounted lrs maxU maxU { baseU := maxU, maxU := maxU, evicted := [], kept := [], evictedFms := [] } :=
        ⟨⟨rfl, rfl, by intro t _; simp [evSum]⟩, by simp, by intro lr _ he; simp at he⟩
      have := final_eq hacc hids harea hall t (by omega)
      simp only at this
      rw [← this]
      exact Int.le_trans (Int.le_trans ((foldl_max_ge maxU _).2 t (by omega)) hmax) (Int.le_max_left _ _)
    · next hmax =>
      -- the phases
      have hcurr : ∀ lr ∈ lrs.filter (·.scratched), lr ∈ lrs ∧ lr.scratched = true := by
        intro lr hlr; simpa using List.mem_filter.mp hlr
      have hsub : ∀ lr ∈ lrs.filter (·.scratched), lr ∈ lrs := fun lr hlr => (hcurr lr hlr).1
      generalize hbase : (lrs.filter (·.scratched)).foldl (fun u lr => addRange u lr.start (lr.end_ + 1) (-(lr.size : Int))) maxU = baseU at h
      have hfix : ∀ ev t, t < maxU.length → val baseU t = (fixedAt (frngs lrs ev) t : Int) := by
        intro ev t ht; rw [← hbase]; exact fixed_eq harea hall ev t ht
      have hi0 : FInv lrs maxU { baseU := baseU, maxU := maxU, evicted := [], kept := [], evictedFms := [] } :=
        ⟨rfl, by rw [← hbase]; exact (fold_sub _ maxU 0 (by omega)).2, by intro t _; simp [evSum]⟩
      have hp0 : PInv (lrs.filter (·.scratched)) { baseU := baseU, maxU := maxU, evicted := [], kept := [], evictedFms := [] } ([] ++ lrs.filter (·.scratched)) := by
        refine ⟨?_, by intro id hid; simp at hid, by intro lr hlr; simpa using hlr⟩
        simp only [List.nil_append]
        exact hids.sublist ((List.filter_sublist).map _)
      cases h1 : neverFitPhase limit (lrs.filter (·.scratched)) { baseU := baseU, maxU := maxU, evicted := [], kept := [], evictedFms := [] } [] with
      | error e => simp [h1] at h
      | ok r1 =>
        obtain ⟨st1, curr1⟩ := r1
        simp only [h1] at h
        obtain ⟨hi1, hp1, _, _, hcov1, _⟩ := neverFit_spec lrs _ maxU limit hu hsub _ _ [] st1 curr1 hi0 hp0 h1
        cases h2 : alwaysFitPhase limit curr1 st1 [] with
        | error e => simp [h2] at h
        | ok r2 =>
          obtain ⟨st2, competing⟩ := r2
          simp only [h2] at h
          obtain ⟨hi2, hp2, hm2, he2, hk2, _⟩ := alwaysFit_spec lrs _ maxU limit curr1 st1 [] st2 competing hi1 (by simpa using hp1) h2
          split at h
          · -- no range competes
            next hempty =>
            simp only [Except.ok.injEq] at h
            subst h
            have hcomp : competing = [] := by simpa using hempty
            have hacc : Accounted lrs maxU baseU st2 := accounted_of hids hcurr hi2 hp2
            intro t ht
            have hfin := final_eq hacc hids harea hall t (by omega)
            simp only at hfin ⊢
            by_cases hcov : ∃ lr ∈ curr1, lr.start ≤ t ∧ t ≤ lr.end_
            · obtain ⟨lr, hlr, hs, he⟩ := hcov
              rcases hk2 lr hlr with hc | hc
              · rw [hcomp] at hc; simp at hc
              · have := hc t hs he (by rw [hi1.lenM]; omega)
                rw [← hfin, hm2]
                exact Int.le_trans this (Int.le_max_left _ _)
            · -- every scratched range alive at t was evicted: what is left is the fixed part
              rw [finalAt_frngs, fixedAt_frngs]
              have hs := sumCond_split (fun lr => lr.inArea && (!lr.scratched || !st2.evicted.contains lr.id)) (fun lr => !lr.scratched) lrs t
              have e1 : sumCond (fun lr => (lr.inArea && (!lr.scratched || !st2.evicted.contains lr.id)) && !lr.scratched) lrs t =
                  sumCond (fun lr => lr.inArea && !lr.scratched) lrs t := by
                apply sumCond_congr; intro lr _; cases lr.inArea <;> cases lr.scratched <;> simp
              have e2 : sumCond (fun lr => (lr.inArea && (!lr.scratched || !st2.evicted.contains lr.id)) && !!lr.scratched) lrs t = 0 := by
                apply sumCond_zero
                intro lr hlr hp
                simp only [Bool.not_not, Bool.and_eq_true, Bool.or_eq_true, Bool.not_eq_eq_eq_not, Bool.not_true] at hp
                have hscr : lr.scratched = true := hp.2
                have hne : st2.evicted.contains lr.id = false := by
                  rcases hp.1.2 with h' | h'
                  · rw [hscr] at h'; simp at h'
                  · exact h'
                have hin : lr ∈ lrs.filter (·.scratched) := List.mem_filter.mpr ⟨hlr, hscr⟩
                rcases hcov1 lr (by simpa using hin) with hc | hc
                · rw [← he2] at hc; simp at hne; exact absurd hc hne
                · unfold FLR.contrib
                  split
                  · next hl => exact absurd ⟨lr, hc, hl⟩ hcov
                  · rfl
              rw [hs, e1, e2]
              simp only [Int.add_zero]
              exact Int.le_max_right _ _
          · -- competition
            have hbl : baseU.length = maxU.length := hi0.lenB
            have hps : PInv (lrs.filter (·.scratched)) st2 (sortFlr competing) := by
              refine ⟨?_, hp2.evIn, fun lr hlr => hp2.poolIn lr ((sortFlr_perm _).mem_iff.mp hlr)⟩
              exact ((List.Perm.append_left _ ((sortFlr_perm competing).map _)).nodup_iff).mpr hp2.nodup
            split at h
            · cases h3 : longPhase (sortFlr competing) (sortFlr competing).zipIdx st2 (sortFlr competing) with
              | error e => simp [h3] at h
              | ok r3 =>
                obtain ⟨st3, competing3⟩ := r3
                simp only [h3] at h
                obtain ⟨hi3, hp3⟩ := longPhase_spec lrs _ maxU hu hsub _ _ st2 _ st3 competing3 hi2 hps
                  (by intro z hz; exact (List.mem_zipIdx hz).2.2 ▸ List.getElem_mem _)
                  (by
                    have : (sortFlr competing).zipIdx.map (fun z => z.1.id) = (sortFlr competing).map (·.id) := by
                      have e : (fun z : FLR × Nat => z.1.id) = (fun lr : FLR => lr.id) ∘ Prod.fst := rfl
                      rw [e, ← List.map_map, List.zipIdx_map_fst]
                    rw [this]
                    exact (List.nodup_append.mp hps.nodup).2.1) h3
                exact fastComponents_fits lrs ct limit maxU baseU st3 competing3 r hids harea hlen hall hfix hbl hi3 hp3 h
            · exact fastComponents_fits lrs ct limit maxU baseU st2 _ r hids harea hlen hall hfix hbl hi2 hps h

end VelaVerif.SchedMem
