import VelaVerif.Lemmas.FpMathExp
import VelaVerif.Lemmas.Lut
/-! Lemmas for `convert_hardswish_to_lut` = TFLite HardSwish reference kernel (C19). -/
namespace VelaVerif.Lut
open VelaVerif VelaVerif.FpMath

theorem pure_bind_ok {α β : Type} (v : α) (f : α → Except Err β) : ((pure v : Except Err α) >>= f) = f v := rfl

theorem inI16_of (x : Int) (h1 : -32768 ≤ x) (h2 : x ≤ 32767) : inI16 x = true := (inI16_iff x).2 ⟨h1, h2⟩

/-- `RoundingDivideByPOT` of an int16 value by at most 15 bits stays int16; by at least one bit it is at most 2^14 -/
theorem rdbp_small (x : Int) (e : Nat) (he : e ≤ 15) (hx : -32768 ≤ x ∧ x ≤ 32767) :
    (-32768 ≤ Gemmlowp.roundingDivideByPOT x e ∧ Gemmlowp.roundingDivideByPOT x e ≤ 32767) ∧
    (1 ≤ e → -16384 ≤ Gemmlowp.roundingDivideByPOT x e ∧ Gemmlowp.roundingDivideByPOT x e ≤ 16384) := by
  rw [rdbp_formula x e (by omega)]
  interval_cases e <;> simp only [Int.reducePow] <;> (by_cases h0 : x < 0 <;> simp only [h0, if_true, if_false] <;> split <;> omega)

theorem srdhm16_bound (a b K : Int) (hK : K ≤ 1073709056) (h : -K ≤ a * b ∧ a * b ≤ K) :
    -((K + 16384) / 32768) ≤ Gemmlowp.srdhm16 a b ∧ Gemmlowp.srdhm16 a b ≤ (K + 16384) / 32768 := by
  unfold Gemmlowp.srdhm16
  rw [int16Min_eq, int16Max_eq]
  simp only []
  by_cases hov : (a == b && a == i16min) = true
  · exfalso
    simp only [Bool.and_eq_true, beq_iff_eq] at hov
    obtain ⟨h1, h2⟩ := hov
    rw [← h1, h2] at h
    unfold i16min at h
    omega
  · simp only [hov, Bool.false_eq_true, if_false]
    generalize a * b = ab at h ⊢
    have hr := tdiv15_range (ab + if ab ≥ 0 then 2 ^ 14 else 1 - 2 ^ 14) (by split <;> omega) (by split <;> omega)
    rw [cast16_id _ hr.1 hr.2]
    by_cases hp : ab ≥ 0
    · simp only [hp, if_true]
      rw [Int.tdiv_eq_ediv_of_nonneg (by omega)]
      omega
    · simp only [hp, if_false]
      rw [tdiv_neg _ _ (by decide) (by omega)]
      split <;> omega

theorem sdhm16_bound (a b K : Int) (hK : K ≤ 1073709056) (h : -K ≤ a * b ∧ a * b ≤ K) :
    -(K / 32768) ≤ Gemmlowp.sdhm16 a b ∧ Gemmlowp.sdhm16 a b ≤ K / 32768 := by
  unfold Gemmlowp.sdhm16
  rw [int16Min_eq, int16Max_eq]
  simp only []
  by_cases hov : (a == b && a == i16min) = true
  · exfalso
    simp only [Bool.and_eq_true, beq_iff_eq] at hov
    obtain ⟨h1, h2⟩ := hov
    rw [← h1, h2] at h
    unfold i16min at h
    omega
  · simp only [hov, Bool.false_eq_true, if_false]
    generalize a * b = ab at h ⊢
    have hr := tdiv15_range ab (by omega) (by omega)
    rw [cast16_id _ hr.1 hr.2]
    by_cases hp : ab ≥ 0
    · rw [Int.tdiv_eq_ediv_of_nonneg (by omega)]
      omega
    · rw [tdiv_neg _ _ (by decide) (by omega)]
      split <;> omega

theorem shiftLeft16_range (a : Int) (o : Nat) :
    -32768 ≤ Gemmlowp.shiftLeft16 a o ∧ Gemmlowp.shiftLeft16 a o ≤ 32767 := by
  have : inI16 (Gemmlowp.shiftLeft16 a o) = true := by
    unfold Gemmlowp.shiftLeft16; simp only []
    split
    · decide
    · split
      · decide
      · exact cast16_range _
  exact (inI16_iff _).1 this

/-- the reluish part of the TFLite HardSwish kernel, as it appears inside `Gemmlowp.hardSwishRef` -/
def specRelu (hires reluMult16 reluishExp : Int) : Int :=
  let reluish := hires
  let reluish := if reluishExp > 0 then Gemmlowp.shiftLeft16 reluish (reluishExp - 1).toNat else reluish
  let reluish := Gemmlowp.srdhm16 reluish reluMult16
  let reluish := if reluishExp > 0 then Gemmlowp.shiftLeft16 reluish 1 else reluish
  let reluish := if reluishExp < 0 then Gemmlowp.cast16 (Gemmlowp.roundingDivideByPOT reluish (-reluishExp).toNat) else reluish
  Gemmlowp.cast16 ((reluish + 2 ^ 15) >>> 1)

theorem half_id (r : Int) (h : -32768 ≤ r ∧ r ≤ 32767) :
    Gemmlowp.cast16 ((r + 2 ^ 15) >>> 1) = (r + 32768) / 2 ∧ 0 ≤ (r + 32768) / 2 ∧ (r + 32768) / 2 ≤ 32767 := by
  have e : (2:Int) ^ 15 = 32768 := by decide
  rw [e, Int.shiftRight_eq_div_pow]
  have e1 : ((2 ^ 1 : Nat) : Int) = 2 := by decide
  rw [e1]
  refine ⟨cast16_id _ (by omega) (by omega), by omega, by omega⟩

theorem relu_eq (hires rs16 rsh : Int) (hh : inI16 hires = true) (hr : inI16 rs16 = true)
    (hrsh : 0 ≤ rsh ∧ rsh ≤ 46) :
    hardswishRelu hires rs16 rsh = .ok (specRelu hires rs16 (31 - rsh)) ∧
      0 ≤ specRelu hires rs16 (31 - rsh) ∧ specRelu hires rs16 (31 - rsh) ≤ 32767 := by
  unfold hardswishRelu specRelu
  simp only []
  by_cases hlt : rsh < 31
  · have hpos : 31 - rsh > 0 := by omega
    have hnn : ¬ (31 - rsh < 0) := by omega
    have hngt : ¬ (rsh > 31) := by omega
    simp only [hlt, hpos, hnn, hngt, if_true, if_false]
    obtain ⟨n, hn⟩ := Int.eq_ofNat_of_zero_le (a := 30 - rsh) (by omega)
    have e1 : (31 - rsh - 1).toNat = n := by omega
    rw [hn, e1, shift_left16_eq hires n hh]
    simp only [ok_bind]
    have h1 := shiftLeft16_range hires n
    generalize Gemmlowp.shiftLeft16 hires n = v1 at h1
    rw [srdhm16_eq v1 rs16 (inI16_of _ h1.1 h1.2) hr]
    simp only [ok_bind]
    have h2 := (inI16_iff _).1 (srdhm16_range v1 rs16)
    generalize Gemmlowp.srdhm16 v1 rs16 = v2 at h2
    show (do let relu ← shiftLeft16 v2 ((1:Nat):Int); _) = _ ∧ _
    rw [shift_left16_eq v2 1 (inI16_of _ h2.1 h2.2)]
    simp only [ok_bind]
    have h3 := shiftLeft16_range v2 1
    generalize Gemmlowp.shiftLeft16 v2 1 = v3 at h3
    have hh := half_id v3 h3
    rw [hh.1]
    exact ⟨rfl, hh.2⟩
  · have hpos : ¬ (31 - rsh > 0) := by omega
    simp only [hlt, hpos, if_false, pure_bind_ok]
    rw [srdhm16_eq hires rs16 hh hr]
    simp only [ok_bind]
    have h2 := (inI16_iff _).1 (srdhm16_range hires rs16)
    generalize Gemmlowp.srdhm16 hires rs16 = v2 at h2
    by_cases hgt : rsh > 31
    · have hneg : 31 - rsh < 0 := by omega
      simp only [hgt, hneg, if_true]
      obtain ⟨n, hn⟩ := Int.eq_ofNat_of_zero_le (a := rsh - 31) (by omega)
      have e1 : (-(31 - rsh)).toNat = n := by omega
      rw [hn, e1, rdbp_eq v2 n (inI32_of _ (by omega) (by omega)) (by omega)]
      simp only [ok_bind]
      have h3 := (rdbp_small v2 n (by omega) h2).1
      generalize Gemmlowp.roundingDivideByPOT v2 n = v3 at h3
      rw [cast16_id v3 h3.1 h3.2]
      have hh := half_id v3 h3
      rw [hh.1]
      exact ⟨rfl, hh.2⟩
    · have hneg : ¬ (31 - rsh < 0) := by omega
      simp only [hgt, hneg, if_false]
      have hh := half_id v2 h2
      rw [hh.1]
      exact ⟨rfl, hh.2⟩

theorem hardSwishRef_unfold (lo hi zi zo om oe rm re q : Int) :
    Gemmlowp.hardSwishRef lo hi zi zo om oe rm re q =
      (let hires := Gemmlowp.cast16 (Gemmlowp.cast16 (q - zi) * 2 ^ 7)
       let preshift := Gemmlowp.srdhm16 hires om
       let reluish := specRelu hires rm re
       let po := Gemmlowp.sdhm16 reluish preshift
       let output := Gemmlowp.cast16 (Gemmlowp.roundingDivideByPOT po (-oe).toNat)
       let output := Gemmlowp.cast16 (output + zo)
       max (min output hi) lo) := rfl

theorem hardswish_entry_eq (signed : Bool) (zpIn zpOut os16 osh rs16 rsh x : Int)
    (hd : -255 ≤ x - zpIn ∧ x - zpIn ≤ 255) (ho : inI16 os16 = true) (hr : inI16 rs16 = true)
    (hosh : 31 ≤ osh ∧ osh ≤ 46) (hrsh : 0 ≤ rsh ∧ rsh ≤ 46)
    (hzo : -128 ≤ zpOut ∧ zpOut ≤ 255) (hw : zpOut ≤ 127 ∨ 32 ≤ osh) :
    hardswishEntry signed zpIn zpOut os16 osh rs16 rsh x =
      .ok (Gemmlowp.hardSwishRef (qmin signed) (qmax signed) zpIn zpOut os16 (31 - osh) rs16 (31 - rsh) x) := by
  rw [hardSwishRef_unfold]
  unfold hardswishEntry
  simp only []
  have e7 : (2:Int) ^ 7 = 128 := by decide
  rw [e7, cast16_id (x - zpIn) (by omega) (by omega)]
  generalize x - zpIn = d at hd
  rw [cast16_id (d * 128) (by omega) (by omega)]
  have hhr : -32640 ≤ d * 128 ∧ d * 128 ≤ 32640 := by omega
  generalize d * 128 = hires at hhr
  have hh : inI16 hires = true := inI16_of _ (by omega) (by omega)
  have ho' := (inI16_iff _).1 ho
  -- preshift
  rw [srdhm16_eq hires os16 hh ho]
  simp only [ok_bind]
  have bp := srdhm16_bound hires os16 1069547520 (by decide)
    (mul_bounds 32640 32768 hires os16 (by omega) (by omega) (by omega) (by omega))
  generalize Gemmlowp.srdhm16 hires os16 = pre at bp
  have hpre : -32640 ≤ pre ∧ pre ≤ 32640 := by omega
  -- relu
  have hrel := relu_eq hires rs16 rsh hh hr hrsh
  rw [hrel.1]
  simp only [ok_bind]
  have hrel2 := hrel.2
  generalize specRelu hires rs16 (31 - rsh) = relu at hrel2
  -- lut result
  rw [sat_mul16_eq relu pre (inI16_of _ (by omega) (by omega)) (inI16_of _ (by omega) (by omega))]
  simp only [ok_bind]
  have bl := sdhm16_bound relu pre 1069514880 (by decide)
    (mul_bounds 32767 32640 relu pre (by omega) (by omega) (by omega) (by omega))
  generalize Gemmlowp.sdhm16 relu pre = lr at bl
  have hlr : -32639 ≤ lr ∧ lr ≤ 32639 := by omega
  -- output shift
  have hneg : 31 - osh < 0 ∨ osh = 31 := by omega
  obtain ⟨n, hn⟩ := Int.eq_ofNat_of_zero_le (a := osh - 31) (by omega)
  have eshift : (if 31 - osh < 0 then -(31 - osh) else 0) = (n : Int) := by split <;> omega
  have espec : (-(31 - osh)).toNat = n := by omega
  rw [eshift, espec, rdbp_eq lr n (inI32_of _ (by omega) (by omega)) (by omega)]
  simp only [ok_bind]
  have hsm := rdbp_small lr n (by omega) ⟨by omega, by omega⟩
  have hr0 : n = 0 → Gemmlowp.roundingDivideByPOT lr n = lr := by
    intro h0; subst h0; rw [rdbp_formula lr 0 (by decide)]; simp; omega
  generalize Gemmlowp.roundingDivideByPOT lr n = r at hsm hr0
  rw [cast16_id r hsm.1.1 hsm.1.2]
  have hfit : -32768 ≤ r + zpOut ∧ r + zpOut ≤ 32767 := by
    by_cases h0 : n = 0
    · have := hr0 h0
      have : zpOut ≤ 127 := by omega
      omega
    · have := hsm.2 (by omega)
      omega
  rw [cast16_id (r + zpOut) hfit.1 hfit.2]
  have hq := qmin_le_qmax signed
  show Except.ok (clamp (qmin signed) (qmax signed) (r + zpOut)) = _
  congr 1
  unfold clamp
  omega

theorem hardSwishRef_range (lo hi zi zo om oe rm re q : Int) (h : lo ≤ hi) :
    lo ≤ Gemmlowp.hardSwishRef lo hi zi zo om oe rm re q ∧ Gemmlowp.hardSwishRef lo hi zi zo om oe rm re q ≤ hi := by
  have key : ∀ o : Int, lo ≤ max (min o hi) lo ∧ max (min o hi) lo ≤ hi := by intro o; omega
  exact key _

theorem bind2_ok {α β γ : Type} (a : Except Err α) (b : Except Err β) (va : α) (vb : β) (f : α → β → Except Err γ)
    (ha : a = .ok va) (hb : b = .ok vb) : (do let x ← a; let y ← b; f x y) = f va vb := by
  subst ha; subst hb; rfl

theorem hardswishLut_unfold (signed : Bool) (zpIn zpOut outScale outShift reluScale reluShift : Int) :
    hardswishLut signed zpIn zpOut outScale outShift reluScale reluShift =
      (do let x ← downscaleMultiplierInt32ToInt16 outScale
          let y ← downscaleMultiplierInt32ToInt16 reluScale
          (fun a b => (codes signed).mapM (hardswishEntry signed zpIn zpOut a outShift b reluShift)) x y) := rfl

theorem hardswish_table_eq (signed : Bool) (zpIn zpOut outScale outShift reluScale reluShift : Int)
    (hos : inI32 outScale = true) (hrs : inI32 reluScale = true)
    (hzi : qmin signed ≤ zpIn ∧ zpIn ≤ qmax signed) (hzo : -128 ≤ zpOut ∧ zpOut ≤ 255)
    (hosh : 31 ≤ outShift ∧ outShift ≤ 46) (hrsh : 0 ≤ reluShift ∧ reluShift ≤ 46)
    (hw : zpOut ≤ 127 ∨ 32 ≤ outShift) :
    ∃ os16 rs16, downscaleMultiplierInt32ToInt16 outScale = .ok os16 ∧
      downscaleMultiplierInt32ToInt16 reluScale = .ok rs16 ∧
      hardswishLut signed zpIn zpOut outScale outShift reluScale reluShift =
        .ok ((codes signed).map (Gemmlowp.hardSwishRef (qmin signed) (qmax signed) zpIn zpOut
              os16 (31 - outShift) rs16 (31 - reluShift))) := by
  obtain ⟨os16, ho1, ho2, _⟩ := FpMath.downscale_ok outScale hos
  obtain ⟨rs16, hr1, hr2, _⟩ := FpMath.downscale_ok reluScale hrs
  refine ⟨os16, rs16, ho1, hr1, ?_⟩
  have hent : ∀ x ∈ codes signed, hardswishEntry signed zpIn zpOut os16 outShift rs16 reluShift x =
      .ok (Gemmlowp.hardSwishRef (qmin signed) (qmax signed) zpIn zpOut os16 (31 - outShift) rs16 (31 - reluShift) x) := by
    intro x hx
    have hc := codes_mem signed x hx
    have hd : -255 ≤ x - zpIn ∧ x - zpIn ≤ 255 := by
      cases signed <;> simp [qmin, qmax] at hc hzi <;> omega
    exact hardswish_entry_eq signed zpIn zpOut os16 outShift rs16 reluShift x hd ho2 hr2 hosh hrsh hzo hw
  have hm := mapM_ok _ _ _ hent
  rw [hardswishLut_unfold, bind2_ok _ _ os16 rs16 _ ho1 hr1]
  exact hm

end VelaVerif.Lut
