import VelaVerif.Lemmas.TfliteWriter
import VelaVerif.Lemmas.TfliteReader
import VelaVerif.Spec.TfliteFile
/-! Lemmas for `Props/C11Writer.conforms_write`: the executable checker `Spec.conforms` accepts what the writer model produces. -/
set_option linter.unusedSimpArgs false
set_option linter.unusedVariables false
namespace VelaVerif.Tflite.Spec
open VelaVerif.Tflite VelaVerif.Tflite.Writer VelaVerif.OpIndices VelaVerif.Gen

/-- every pair of the relation is explained by the writer's tensor list -/
def RelExpl (all : List Nat) (r : Rel) : Prop := ∀ p ∈ r, all[p.2]? = some p.1

/-- how a graph operand and a file index have to match -/
def OperandOk (all : List Nat) (g : Option Nat) (f : Int) : Prop :=
  match g with
  | none => f = -1
  | some g => ∃ n : Nat, f = n ∧ all[n]? = some g

theorem relList_ok (what : String) (all : List Nat) : ∀ (gs : List (Option Nat)) (fs : List Int) (r : Rel),
    List.Forall₂ (OperandOk all) gs fs → RelExpl all r →
    (relList what r gs fs).2 = [] ∧ RelExpl all (relList what r gs fs).1 ∧
    (∀ p ∈ r, p ∈ (relList what r gs fs).1) ∧
    (∀ g, some g ∈ gs → ∃ n, (g, n) ∈ (relList what r gs fs).1)
  | [], [], r, _, hr => by simp [relList, hr]
  | none :: gs, f :: fs, r, h, hr => by
    cases h with
    | cons h1 h2 =>
      obtain ⟨a, b, c, e⟩ := relList_ok what all gs fs r h2 hr
      have hf : f = -1 := h1
      subst hf
      simp only [relList]
      refine ⟨by simpa using a, b, c, ?_⟩
      intro g hg
      simp at hg
      exact e g hg
  | some g :: gs, f :: fs, r, h, hr => by
    cases h with
    | cons h1 h2 =>
      obtain ⟨n, hf, hn⟩ := h1
      subst hf
      have hr' : RelExpl all ((g, n) :: r) := by
        intro p hp
        rcases List.mem_cons.mp hp with rfl | hp
        · exact hn
        · exact hr p hp
      obtain ⟨a, b, c, e⟩ := relList_ok what all gs fs ((g, n) :: r) h2 hr'
      have h1 : relOne what r g (n : Int) = ((g, n) :: r, []) := by
        simp [relOne]
      simp only [relList, h1]
      refine ⟨by simpa using a, b, fun p hp => c p (List.mem_cons_of_mem _ hp), ?_⟩
      intro g' hg'
      simp at hg'
      rcases hg' with rfl | hg'
      · exact ⟨n, c _ (List.mem_cons_self ..)⟩
      · exact e g' hg'


theorem relOne_mono (what : String) (r : Rel) (g : Nat) (f : Int) (p : Nat × Nat) (hp : p ∈ r) : p ∈ (relOne what r g f).1 := by
  unfold relOne
  split
  · exact hp
  · exact List.mem_cons_of_mem _ hp

theorem relList_mono (what : String) : ∀ (gs : List (Option Nat)) (fs : List Int) (r : Rel) (p : Nat × Nat), p ∈ r →
    p ∈ (relList what r gs fs).1
  | [], [], r, p, hp => by simpa [relList] using hp
  | none :: gs, f :: fs, r, p, hp => by
    simp only [relList]
    exact relList_mono what gs fs r p hp
  | some g :: gs, f :: fs, r, p, hp => by
    simp only [relList]
    exact relList_mono what gs fs _ p (relOne_mono what r g f p hp)
  | [], f :: fs, r, p, hp => by simpa [relList] using hp
  | g :: gs, [], r, p, hp => by
    cases g <;> simpa [relList] using hp

/-! ## one tensor -/

theorem tensorProblems_ok (what : String) (m : ModelT) (td : TensorD) (tt : TensorT) (b : Nat) (h : tensorT td b = .ok tt)
    (hb : m.buffers[tt.buffer]? = some { data := td.values }) : tensorProblems what m td tt = [] := by
  obtain ⟨b1, b2, b3, b4, b5, _, b7⟩ := tensorT_ok td b tt h
  have hq : (tt.quant.map (·.extra.isEmpty)).getD true = true := by
    rw [b4]; cases td.quant <;> simp [quantT]
  have hs : tt.shape = some (Spec.writtenShape td) := b2
  unfold tensorProblems
  simp only [hb, b1, b3, b5, b7, hq, hs]
  simp [b4]

/-! ## one operator -/

theorem serialiseOpCode_fields (c : Code) (oc : OpCodeT) (info : OpInfo) (hi : lookupOpId c.opId = some info)
    (h : serialiseOpCode c = .ok oc) :
    ∃ tf ser wt, info.inv = some (tf, ser, wt) ∧ oc.builtin = (tf : Int) ∧ oc.deprecated = deprecatedCode tf ∧ oc.version = c.version ∧
      oc.custom = (if info.name == "Custom" then some c.custom else if info.name == "CustomNpuOp" then some ethosU else none) ∧
      oc.extra = [] := by
  unfold serialiseOpCode at h
  simp only [hi, bind, Except.bind, pure, Except.pure] at h
  cases hinv : info.inv with
  | none =>
    by_cases hc : (info.name == "Custom") = true <;> simp [hinv, hc, throw, throwThe, MonadExceptOf.throw] at h
  | some x =>
    obtain ⟨tf, ser, wt⟩ := x
    by_cases hc : (info.name == "Custom") = true
    · simp [hinv, hc] at h
      subst h
      exact ⟨tf, ser, wt, rfl, rfl, rfl, rfl, by simp [hc], rfl⟩
    · by_cases hn : (info.name == "CustomNpuOp") = true
      · by_cases htf : tf = WriterTbl.builtinCustom
        · simp [hinv, hc, hn, htf] at h
          subst h
          exact ⟨tf, ser, wt, rfl, by simp [htf], by simp [htf], rfl, by simp [hc, hn], rfl⟩
        · simp [hinv, hc, hn, htf, throw, throwThe, MonadExceptOf.throw] at h
      · simp [hinv, hc, hn] at h
        subst h
        exact ⟨tf, ser, wt, rfl, rfl, rfl, rfl, by simp [hc, hn], rfl⟩

theorem forall₂_map_self {α β : Type} (R : α → β → Prop) (f : α → β) : ∀ (l : List α), (∀ a ∈ l, R a (f a)) → List.Forall₂ R l (l.map f)
  | [], _ => List.Forall₂.nil
  | a :: l, h => List.Forall₂.cons (h a (List.mem_cons_self ..)) (forall₂_map_self R f l (fun x hx => h x (List.mem_cons_of_mem _ hx)))

theorem forall₂_some {all : List Nat} : ∀ {l₁ : List Nat} {l₂ : List Int},
    List.Forall₂ (fun g (i : Int) => ∃ n : Nat, i = n ∧ all[n]? = some g) l₁ l₂ → List.Forall₂ (OperandOk all) (l₁.map some) l₂
  | _, _, .nil => List.Forall₂.nil
  | _, _, .cons h t => List.Forall₂.cons h (forall₂_some t)

theorem operator_ok (what : String) (m : ModelT) (codes : List Code) (all : List Nat) (p : POp) (o : OperatorT)
    (hser : serialiseOperator codes all p = .ok o)
    (hok : p.info.tableOk = true) (hinv : p.info.inv.isSome = true)
    (hcodes : ∀ (i : Nat) c, codes[i]? = some c → ∃ oc, m.opcodes[i]? = some oc ∧ serialiseOpCode c = .ok oc)
    (hmem : ∀ g, some g ∈ p.operands → g ∈ all) :
    ∃ lg, lowerOp p = some lg ∧ codeProblems what m lg o = [] ∧ o.payload = lg.payload ∧ o.mutating = some [] ∧ o.extra = [] ∧
      List.Forall₂ (OperandOk all) lg.inputs (optList o.inputs) ∧
      List.Forall₂ (OperandOk all) (lg.outputs.map some) (optList o.outputs) ∧
      List.Forall₂ (OperandOk all) (lg.intermediates.map some) (optList o.intermediates) := by
  obtain ⟨x, hx⟩ := Option.isSome_iff_exists.mp hinv
  obtain ⟨tf, ser, wt⟩ := x
  obtain ⟨s1, s2, s3, s4, s5, s6⟩ := serialiseOperator_ok _ _ _ _ hser
  have hpay : o.payload = (if ser then
               { optType := if p.payload.opts.isSome then p.payload.optType else 0, opts := p.payload.opts, custom := p.payload.custom,
                 customFormat := if p.payload.custom.isSome then p.payload.customFormat else 0 }
             else { optType := 0, opts := none, custom := none, customFormat := 0 } : Payload) := by
    unfold serialiseOperator at hser
    dsimp only at hser
    obtain ⟨idx, hidx, hser⟩ := bind_ok hser
    simp only [pure, Except.pure, Except.ok.injEq] at hser
    subst hser
    simp [hx]
  obtain ⟨c, c1, c2, c3, c4⟩ := opcodeIndex_ok _ _ _ s4
  obtain ⟨oc, oc1, oc2⟩ := hcodes _ c c1
  have hid : lookupOpId c.opId = some p.info := by
    unfold OpInfo.tableOk at hok
    simp only [Bool.and_eq_true, beq_iff_eq] at hok
    rw [c2]; exact hok.1.2
  obtain ⟨tf', ser', wt', f1, f2, f3, f4, f5, f6⟩ := serialiseOpCode_fields c oc p.info hid oc2
  rw [hx] at f1
  simp only [Option.some.injEq, Prod.mk.injEq] at f1
  obtain ⟨rfl, rfl, rfl⟩ := f1
  refine ⟨_, by unfold lowerOp; rw [hx], ?_, hpay, s5, s6, ?_, ?_, ?_⟩
  · unfold codeProblems
    simp only [oc1]
    have hb : (if oc.builtin == 0 then oc.deprecated else oc.builtin) = (tf : Int) := builtin_of oc tf f2 f3
    have hcu : oc.custom = (if p.info.name == "Custom" then some p.custom else if p.info.name == "CustomNpuOp" then some ethosU else none) := by
      rw [f5]
      by_cases hc : (p.info.name == "Custom") = true
      · have : c = p.code := c4 (by simpa using hc)
        simp [hc, this, POp.code]
      · simp [hc]
    simp only [hb]
    simp [f3, f4, c3, hcu, deprecatedCode]
  · rw [s1]
    simp only [optList, Option.getD_some]
    apply forall₂_map_self
    intro a ha
    cases a with
    | none => simp [OperandOk, mapIdx]
    | some g =>
      have hg : g ∈ all := hmem g (by unfold POp.operands; exact List.mem_append_left _ (List.mem_append_left _ ha))
      obtain ⟨i, hi, hgi⟩ := indexIn_of_mem all g hg
      simp only [OperandOk, mapIdx, hi]
      exact ⟨i, rfl, hgi⟩
  · rw [s2]
    simp only [optList, Option.getD_some]
    exact forall₂_some (filterMap_mapIdx all p.outputs (fun g hg => hmem g (by
      unfold POp.operands; exact List.mem_append_left _ (List.mem_append_right _ hg))))
  · rw [s3]
    simp only [optList, Option.getD_some]
    exact forall₂_some (filterMap_mapIdx all p.intermediates (fun g hg => hmem g (by
      unfold POp.operands; exact List.mem_append_right _ hg)))


/-! ## one subgraph: `subgraphProblems` in projection form -/

/-- the body of the fold over the operators in `subgraphProblems` -/
def opStep (m : ModelT) (w : String) (acc : Rel × List Problem) (x : (POp × OperatorT) × Nat) : Rel × List Problem :=
  let wo := s!"{w} operator {x.2}"
  match lowerOp x.1.1 with
  | none => (acc.1, acc.2 ++ [⟨"not-serialisable", wo⟩])
  | some lg =>
    let a := relList s!"{wo} inputs" acc.1 lg.inputs (optList x.1.2.inputs)
    let b := relList s!"{wo} outputs" a.1 (lg.outputs.map some) (optList x.1.2.outputs)
    let c := relList s!"{wo} intermediates" b.1 (lg.intermediates.map some) (optList x.1.2.intermediates)
    (c.1, acc.2 ++ codeProblems wo m lg x.1.2 ++ a.2 ++ b.2 ++ c.2 ++
      (if x.1.2.payload == lg.payload then [] else [⟨"option-payload", wo⟩]) ++
      (if x.1.2.mutating == some [] && x.1.2.extra.isEmpty then [] else [⟨"operator-extra-fields", wo⟩]))

theorem opStep_mono (m : ModelT) (w : String) (acc : Rel × List Problem) (x : (POp × OperatorT) × Nat) (p : Nat × Nat)
    (hp : p ∈ acc.1) : p ∈ (opStep m w acc x).1 := by
  unfold opStep
  cases lowerOp x.1.1 with
  | none => exact hp
  | some lg => exact relList_mono _ _ _ _ _ (relList_mono _ _ _ _ _ (relList_mono _ _ _ _ _ hp))

def specOps (ps : PSub) : List POp := (clearVirtual ps.ops ps.sg.virtualOutputs).filter (!·.ignored)

def relIn (k : Nat) (ps : PSub) (f : SubGraphT) : Rel × List Problem :=
  relList s!"{s!"subgraph {k}"} inputs" [] (ps.sg.originalInputs.map some) (optList f.inputs)
def relOut (k : Nat) (ps : PSub) (f : SubGraphT) : Rel × List Problem :=
  relList s!"{s!"subgraph {k}"} outputs" (relIn k ps f).1 ((specOuts2 ps).map some) (optList f.outputs)
def relOps (m : ModelT) (k : Nat) (ps : PSub) (f : SubGraphT) : Rel × List Problem :=
  ((specOps ps).zip f.operators).zipIdx.foldl (opStep m s!"subgraph {k}") ((relOut k ps f).1, [])

theorem subgraphProblems_fst (d : Desc) (m : ModelT) (k : Nat) (ps : PSub) (f : SubGraphT) :
    (subgraphProblems d m k ps f).1 = (relOps m k ps f).1.eraseDups := rfl


def sgP0 (k : Nat) (ps : PSub) (f : SubGraphT) : List Problem :=
  (if f.operators.length == (specOps ps).length then [] else [⟨"operator-count", s!"{s!"subgraph {k}"}: graph {(specOps ps).length} file {f.operators.length}"⟩]) ++
  (if f.name == some ps.sg.name then [] else [⟨"subgraph-name", s!"subgraph {k}"⟩])

def sgP4 (d : Desc) (m : ModelT) (k : Nat) (f : SubGraphT) (r : Rel) : List Problem :=
  r.flatMap fun (g, i) =>
    match d.tensors[g]?, f.tensors[i]? with
    | some gt, some ft => tensorProblems s!"{s!"subgraph {k}"} tensor {i} ({showName gt.name})" m gt ft
    | none, _ => [⟨"graph-reference", s!"{s!"subgraph {k}"}: graph tensor {g}"⟩]
    | _, none => [⟨"index-range", s!"{s!"subgraph {k}"}: file tensor {i} of {f.tensors.length}"⟩]

def specPlaceholders (ps : PSub) : List Nat := (ps.ops.filter (·.placeholder)).flatMap fun o => o.outputs.filterMap id

def sgP5 (d : Desc) (m : ModelT) (k : Nat) (ps : PSub) (f : SubGraphT) (r : Rel) : List Problem :=
  (List.range f.tensors.length).flatMap fun i =>
    if r.any (·.2 == i) then [] else
    match f.tensors[i]? with
    | none => []
    | some ft =>
      if (specPlaceholders ps).any fun g => match d.tensors[g]? with
        | some gt => (tensorProblems "" m gt ft).isEmpty
        | none => false
      then [] else [⟨"unexplained-tensor", s!"{s!"subgraph {k}"} tensor {i}"⟩]

theorem subgraphProblems_snd (d : Desc) (m : ModelT) (k : Nat) (ps : PSub) (f : SubGraphT) :
    (subgraphProblems d m k ps f).2 = sgP0 k ps f ++ (relIn k ps f).2 ++ (relOut k ps f).2 ++ (relOps m k ps f).2 ++
      oneToOne (relOps m k ps f).1.eraseDups ++ sgP4 d m k f (relOps m k ps f).1.eraseDups ++
      sgP5 d m k ps f (relOps m k ps f).1.eraseDups := rfl


/-! ## helper facts -/

theorem foldl_inv_mem {α β : Type} (P : β → Prop) (Q : α → β → Prop) (f : β → α → β) :
    ∀ (l : List α) (b : β), P b → (∀ b a, a ∈ l → P b → P (f b a) ∧ Q a (f b a)) →
    (∀ b a a', a' ∈ l → P b → Q a b → Q a (f b a')) →
    P (l.foldl f b) ∧ ∀ a ∈ l, Q a (l.foldl f b)
  | [], b, hb, _, _ => ⟨hb, by simp⟩
  | x :: l, b, hb, hstep, hmono => by
    obtain ⟨h1, h2⟩ := hstep b x (List.mem_cons_self ..) hb
    have hgen : ∀ (l' : List α) (b' : β), (∀ a ∈ l', a ∈ x :: l) → P b' → Q x b' → Q x (l'.foldl f b') := by
      intro l'
      induction l' with
      | nil => intro b' _ _ hq; exact hq
      | cons y l' ih =>
        intro b' hsub hp hq
        have hy : y ∈ x :: l := hsub y (List.mem_cons_self ..)
        exact ih (f b' y) (fun a ha => hsub a (List.mem_cons_of_mem _ ha)) (hstep b' y hy hp).1 (hmono b' x y hy hp hq)
    obtain ⟨i1, i2⟩ := foldl_inv_mem P Q f l (f b x) h1 (fun b a ha => hstep b a (List.mem_cons_of_mem _ ha))
      (fun b a a' ha' => hmono b a a' (List.mem_cons_of_mem _ ha'))
    refine ⟨i1, ?_⟩
    intro a ha
    rcases List.mem_cons.mp ha with rfl | ha
    · exact hgen l (f b a) (fun a ha => List.mem_cons_of_mem _ ha) h1 h2
    · exact i2 a ha

theorem clearVirtual_mem : ∀ (vo : List (Nat × Option Nat)) (ops : List POp) (p : POp), p ∈ clearVirtual ops vo →
    ∃ p' ∈ ops, p.info = p'.info ∧ p.ignored = p'.ignored ∧ p.placeholder = p'.placeholder ∧ p.inputs = p'.inputs ∧
      p.intermediates = p'.intermediates ∧ (p.outputs = p'.outputs ∨ p.outputs = [])
  | [], ops, p, h => ⟨p, by simpa [clearVirtual] using h, rfl, rfl, rfl, rfl, rfl, Or.inl rfl⟩
  | v :: vo, ops, p, h => by
    have h' : p ∈ clearVirtual (match v.2 with
        | some k => modifyAt ops k (fun o => { o with outputs := [] })
        | none => ops) vo := h
    obtain ⟨p1, hp1, a1, a2, a3, a4, a5, a6⟩ := clearVirtual_mem vo _ p h'
    have hp1' : ∃ p' ∈ ops, p1.info = p'.info ∧ p1.ignored = p'.ignored ∧ p1.placeholder = p'.placeholder ∧ p1.inputs = p'.inputs ∧
        p1.intermediates = p'.intermediates ∧ (p1.outputs = p'.outputs ∨ p1.outputs = []) := by
      cases hv : v.2 with
      | none => simp only [hv] at hp1; exact ⟨p1, hp1, rfl, rfl, rfl, rfl, rfl, Or.inl rfl⟩
      | some k =>
        simp only [hv] at hp1
        unfold modifyAt at hp1
        cases hk : ops[k]? with
        | none => simp only [hk] at hp1; exact ⟨p1, hp1, rfl, rfl, rfl, rfl, rfl, Or.inl rfl⟩
        | some a =>
          simp only [hk] at hp1
          rcases List.mem_or_eq_of_mem_set hp1 with hm | he
          · exact ⟨p1, hm, rfl, rfl, rfl, rfl, rfl, Or.inl rfl⟩
          · exact ⟨a, List.mem_of_getElem? hk, by rw [he], by rw [he], by rw [he], by rw [he], by rw [he], Or.inr (by rw [he])⟩
    obtain ⟨p2, hp2, b1, b2, b3, b4, b5, b6⟩ := hp1'
    refine ⟨p2, hp2, a1.trans b1, a2.trans b2, a3.trans b3, a4.trans b4, a5.trans b5, ?_⟩
    rcases a6 with a6 | a6
    · rcases b6 with b6 | b6
      · exact Or.inl (a6.trans b6)
      · exact Or.inr (a6.trans b6)
    · exact Or.inr a6

theorem outputList_spec (outs : List Nat) : ∀ (pos : List Nat) (outs2 : List Nat),
    outputList (some pos) outs = .ok outs2 → outs2 = pos.filterMap (outs[·]?)
  | [], outs2, h => by
    simp [outputList, pure, Except.pure] at h
    simp [h]
  | p :: pos, outs2, h => by
    unfold outputList at h
    simp only [List.mapM_cons] at h
    obtain ⟨t, ht, h⟩ := bind_ok h
    obtain ⟨r, hr, h⟩ := bind_ok h
    simp only [pure, Except.pure, Except.ok.injEq] at h
    subst h
    have ih := outputList_spec outs pos r (by unfold outputList; exact hr)
    cases ho : outs[p]? with
    | none => simp [ho, throw, throwThe, MonadExceptOf.throw] at ht
    | some t' =>
      simp [ho, pure, Except.pure] at ht
      subst ht
      simp [ho, ih]

theorem specOuts2_sub (ps : PSub) (g : Nat) (h : g ∈ specOuts2 ps) : g ∈ sgOuts ps := by
  unfold specOuts2 at h
  unfold sgOuts
  cases hp : ps.sg.originalOutputPositions with
  | none => rw [hp] at h; exact h
  | some pos =>
    rw [hp] at h
    obtain ⟨p, _, hp2⟩ := List.mem_filterMap.mp h
    exact List.mem_of_getElem? hp2

theorem specOuts2_eq (ps : PSub) (outs2 : List Nat) (h : outputList ps.sg.originalOutputPositions (sgOuts ps) = .ok outs2) :
    specOuts2 ps = outs2 := by
  unfold specOuts2
  cases hp : ps.sg.originalOutputPositions with
  | none =>
    rw [hp] at h
    simp [outputList, pure, Except.pure] at h
    simpa [sgOuts] using h
  | some pos =>
    rw [hp] at h
    exact (outputList_spec _ pos outs2 h).symm


/-! ## one subgraph -/

theorem lowerOp_fields (p : POp) (lg : LOp) (h : lowerOp p = some lg) :
    lg.inputs = p.inputs ∧ lg.outputs = p.outputs.filterMap id ∧ lg.intermediates = p.intermediates.filterMap id := by
  unfold lowerOp at h
  cases hi : p.info.inv with
  | none => simp [hi] at h
  | some x =>
    obtain ⟨tf, ser, wt⟩ := x
    simp only [hi, Option.some.injEq] at h
    subst h
    exact ⟨rfl, rfl, rfl⟩

/-- what is known about one written subgraph (from `write_facts`) -/
structure SgFacts (d : Desc) (m : ModelT) (codes : List Code) (ps : PSub) (f : SubGraphT) : Prop where
  loc : SgLocal d.tensors codes ps f
  tlen : f.tensors.length = (sgAll d.tensors ps).length
  tens : ∀ (i g : Nat), (sgAll d.tensors ps)[i]? = some g → ∃ td tt, d.tensors[g]? = some td ∧ f.tensors[i]? = some tt ∧
    tensorT td tt.buffer = .ok tt ∧ m.buffers[tt.buffer]? = some { data := td.values }
  codes : ∀ (i : Nat) c, codes[i]? = some c → ∃ oc, m.opcodes[i]? = some oc ∧ serialiseOpCode c = .ok oc
  info : ∀ p ∈ ps.ops, p.info.tableOk = true ∧ (p.ignored = false → p.info.inv.isSome = true)

/-- the part of the writer's domain on which the Spec's reading of a subgraph and the writer's agree:
* `outs`: every subgraph output left after the virtual outputs were removed is named by the expanded output list (original
  positions) or written anyway — since the repair C11-60 every remaining output is in the tensor table, and one that nothing names
  would be reported as `unexplained-tensor`;
* `plain`: a Placeholder has no operands or intermediates of its own (its operands would be written without any operator or
  interface list referring to them; the Spec reports `unexplained-tensor`) -/
structure SgDomain (ps : PSub) : Prop where
  outs : ∀ g ∈ sgOuts ps, g ∈ specOuts2 ps ∨ g ∈ tensorSet ps.sg.originalInputs (sgOps ps) []
  plain : ∀ p ∈ ps.ops, p.placeholder = true → p.ignored = true → ∀ g, some g ∉ p.inputs ++ p.intermediates

theorem subgraph_ok (d : Desc) (m : ModelT) (codes : List Code) (k : Nat) (ps : PSub) (f : SubGraphT)
    (hf : SgFacts d m codes ps f) (hd : SgDomain ps) :
    (subgraphProblems d m k ps f).2 = [] ∧ RelExpl (sgAll d.tensors ps) (subgraphProblems d m k ps f).1 := by
  obtain ⟨outs2, operators, l1, l2, l3, l4, l5, l6, l7⟩ := hf.loc
  have hnd := sgAll_nodup d.tensors ps
  -- inputs
  have hin : List.Forall₂ (OperandOk (sgAll d.tensors ps)) (ps.sg.originalInputs.map some) (optList f.inputs) := by
    rw [l4]
    simp only [optList, Option.getD_some]
    refine forall₂_some (idxList_spec _ _ ?_)
    intro g hg
    rw [mem_sgAll]; unfold sgSet; rw [mem_tensorSet]; exact Or.inl (Or.inl hg)
  obtain ⟨i1, i2, _, i4⟩ := relList_ok s!"{s!"subgraph {k}"} inputs" (sgAll d.tensors ps) _ _ [] hin (by intro p hp; simp at hp)
  -- outputs
  have hout : List.Forall₂ (OperandOk (sgAll d.tensors ps)) ((specOuts2 ps).map some) (optList f.outputs) := by
    rw [l5, specOuts2_eq ps outs2 l1]
    simp only [optList, Option.getD_some]
    refine forall₂_some (idxList_spec _ _ ?_)
    intro g hg
    rw [mem_sgAll]; unfold sgSet; rw [mem_tensorSet]
    exact Or.inr (specOuts2_sub ps g (by rw [specOuts2_eq ps outs2 l1]; exact hg))
  obtain ⟨o1, o2, o3, o4⟩ := relList_ok s!"{s!"subgraph {k}"} outputs" (sgAll d.tensors ps) _ _ (relIn k ps f).1 hout i2
  have i1' : (relIn k ps f).2 = [] := i1
  have o1' : (relOut k ps f).2 = [] := o1
  -- operators
  obtain ⟨ol, of⟩ := mapM_ok _ _ _ l2
  have hops := foldl_inv_mem
    (fun acc : Rel × List Problem => acc.2 = [] ∧ RelExpl (sgAll d.tensors ps) acc.1 ∧ ∀ p ∈ (relOut k ps f).1, p ∈ acc.1)
    (fun (x : (POp × OperatorT) × Nat) (acc : Rel × List Problem) => ∀ g, some g ∈ x.1.1.operands → ∃ n, (g, n) ∈ acc.1)
    (opStep m s!"subgraph {k}") ((specOps ps).zip f.operators).zipIdx ((relOut k ps f).1, [])
    ⟨rfl, o2, fun p hp => hp⟩ ?_ ?_
  rotate_left
  · -- one step
    intro acc x hx ⟨ha1, ha2, ha3⟩
    obtain ⟨⟨p, o⟩, j⟩ := x
    have hz := List.mem_zipIdx_iff_getElem?.mp hx
    obtain ⟨hzp, hzo⟩ := List.getElem?_zip_eq_some.mp hz
    simp only at hzp hzo
    have hpm : p ∈ (sgOps ps).filter (!·.ignored) := List.mem_of_getElem? hzp
    obtain ⟨o', ho', hser⟩ := of j p hzp
    rw [← l3, hzo] at ho'
    obtain rfl := Option.some.inj ho'
    obtain ⟨hps, hig⟩ := List.mem_filter.mp hpm
    obtain ⟨p', hp', e1, e2, _⟩ := clearVirtual_mem _ _ p hps
    obtain ⟨t1, t2⟩ := hf.info p' hp'
    have hig' : p.ignored = false := by simpa using hig
    obtain ⟨lg, g1, g2, g3, g4, g5, g6, g7, g8⟩ := operator_ok s!"{s!"subgraph {k}"} operator {j}" m codes (sgAll d.tensors ps) p o hser
      (by rw [e1]; exact t1) (by rw [e1]; exact t2 (by rw [← e2]; exact hig')) hf.codes
      (fun g hg => operand_mem d.tensors ps p hpm g hg)
    obtain ⟨a1, a2, a3, a4⟩ := relList_ok s!"{s!"{s!"subgraph {k}"} operator {j}"} inputs" (sgAll d.tensors ps) _ _ acc.1 g6 ha2
    obtain ⟨b1, b2, b3, b4⟩ := relList_ok s!"{s!"{s!"subgraph {k}"} operator {j}"} outputs" (sgAll d.tensors ps) _ _ _ g7 a2
    obtain ⟨c1, c2, c3, c4⟩ := relList_ok s!"{s!"{s!"subgraph {k}"} operator {j}"} intermediates" (sgAll d.tensors ps) _ _ _ g8 b2
    simp only [opStep, g1]
    refine ⟨⟨?_, c2, fun q hq => c3 q (b3 q (a3 q (ha3 q hq)))⟩, ?_⟩
    · simp only [ha1, g2, a1, b1, c1, g3, g4, g5]
      simp
    · intro g hg
      unfold POp.operands at hg
      simp only [List.mem_append] at hg
      obtain ⟨q1, q2, q3⟩ := lowerOp_fields p lg g1
      rcases hg with (hg | hg) | hg
      · obtain ⟨n, hn⟩ := a4 g (by rw [q1]; exact hg)
        exact ⟨n, c3 _ (b3 _ hn)⟩
      · obtain ⟨n, hn⟩ := b4 g (by rw [q2]; simp; exact hg)
        exact ⟨n, c3 _ hn⟩
      · exact c4 g (by rw [q3]; simp; exact hg)
  · -- monotone
    intro acc x x' hx' ⟨ha1, ha2, ha3⟩ hq g hg
    obtain ⟨n, hn⟩ := hq g hg
    exact ⟨n, opStep_mono _ _ _ _ _ hn⟩
  obtain ⟨⟨hR2, hRE, hR3⟩, hQ⟩ := hops
  change (relOps m k ps f).2 = [] at hR2
  change RelExpl (sgAll d.tensors ps) (relOps m k ps f).1 at hRE
  change ∀ p ∈ (relOut k ps f).1, p ∈ (relOps m k ps f).1 at hR3
  change ∀ a ∈ ((specOps ps).zip f.operators).zipIdx, ∀ g, some g ∈ a.1.1.operands → ∃ n, (g, n) ∈ (relOps m k ps f).1 at hQ
  have hrE : RelExpl (sgAll d.tensors ps) (relOps m k ps f).1.eraseDups := fun p hp => hRE p (List.mem_eraseDups.mp hp)
  -- a pair for g at position i is the pair (g, i)
  have hpos : ∀ (g n i : Nat), (g, n) ∈ (relOps m k ps f).1 → (sgAll d.tensors ps)[i]? = some g → n = i := by
    intro g n i hm hi
    have hn := hRE _ hm
    have hnl : n < (sgAll d.tensors ps).length := (List.getElem?_eq_some_iff.mp hn).1
    exact (List.getElem?_inj hnl hnd).mp (hn.trans hi.symm)
  rw [subgraphProblems_snd, subgraphProblems_fst]
  refine ⟨?_, hrE⟩
  have e0 : sgP0 k ps f = [] := by
    unfold sgP0
    have : f.operators.length = (specOps ps).length := by rw [l3, ol]; rfl
    simp [this, l6]
  have e3 : oneToOne (relOps m k ps f).1.eraseDups = [] := by
    unfold oneToOne
    rw [List.flatMap_eq_nil_iff]
    intro a ha
    rw [List.filterMap_eq_nil_iff]
    intro b hb
    have hA := hrE a ha
    have hB := hrE b hb
    have hal : a.2 < (sgAll d.tensors ps).length := (List.getElem?_eq_some_iff.mp hA).1
    by_cases h1 : a.1 = b.1
    · have : a.2 = b.2 := (List.getElem?_inj hal hnd).mp (by rw [hA, hB, h1])
      simp [h1, this]
    · by_cases h2 : a.2 = b.2
      · rw [h2, hB] at hA
        exact absurd (Option.some.inj hA).symm h1
      · simp [h1, h2]
  have e4 : sgP4 d m k f (relOps m k ps f).1.eraseDups = [] := by
    unfold sgP4
    rw [List.flatMap_eq_nil_iff]
    intro x hx
    obtain ⟨g, i⟩ := x
    obtain ⟨td, tt, t1, t2, t3, t4⟩ := hf.tens i g (hrE _ hx)
    simp only [t1, t2]
    exact tensorProblems_ok _ m td tt _ t3 t4
  have e5 : sgP5 d m k ps f (relOps m k ps f).1.eraseDups = [] := by
    unfold sgP5
    rw [List.flatMap_eq_nil_iff]
    intro i hi
    have hil : i < (sgAll d.tensors ps).length := by rw [← hf.tlen]; exact List.mem_range.mp hi
    have hig : (sgAll d.tensors ps)[i]? = some (sgAll d.tensors ps)[i] := List.getElem?_eq_getElem hil
    generalize (sgAll d.tensors ps)[i] = g at hig
    obtain ⟨td, tt, t1, t2, t3, t4⟩ := hf.tens i g hig
    by_cases hany : (relOps m k ps f).1.eraseDups.any (·.2 == i) = true
    · simp [hany]
    · have hno : ∀ n, (g, n) ∈ (relOps m k ps f).1 → False := by
        intro n hn
        have := hpos g n i hn hig
        subst this
        exact hany (List.any_eq_true.mpr ⟨(g, n), List.mem_eraseDups.mpr hn, by simp⟩)
      have hgm : g ∈ sgAll d.tensors ps := List.mem_of_getElem? hig
      rw [mem_sgAll] at hgm
      unfold sgSet at hgm
      rw [mem_tensorSet] at hgm
      have hgm' : g ∈ ps.sg.originalInputs ∨ ∃ op ∈ sgOps ps, (op.ignored = false ∨ op.placeholder = true) ∧ some g ∈ op.operands := by
        rcases hgm with h | h
        · exact h
        · rcases hd.outs g h with h2 | h2
          · obtain ⟨n, hn⟩ := o4 g (List.mem_map.mpr ⟨g, h2, rfl⟩)
            exact (hno n (hR3 _ hn)).elim
          · rw [mem_tensorSet] at h2
            rcases h2 with h3 | h3
            · exact h3
            · simp at h3
      have hpl : g ∈ specPlaceholders ps := by
        rcases hgm' with hgi | ⟨op, hop, hkind, hgo⟩
        · obtain ⟨n, hn⟩ := i4 g (List.mem_map.mpr ⟨g, hgi, rfl⟩)
          exact (hno n (hR3 _ (o3 _ hn))).elim
        · by_cases hign : op.ignored = false
          · have hmf : op ∈ (sgOps ps).filter (!·.ignored) := List.mem_filter.mpr ⟨hop, by simp [hign]⟩
            obtain ⟨j, hj⟩ := List.getElem?_of_mem hmf
            obtain ⟨o, ho, _⟩ := of j op hj
            have hz : ((op, o), j) ∈ ((specOps ps).zip f.operators).zipIdx := by
              rw [List.mem_zipIdx_iff_getElem?]
              exact List.getElem?_zip_eq_some.mpr ⟨hj, by rw [l3]; exact ho⟩
            obtain ⟨n, hn⟩ := hQ _ hz g hgo
            exact (hno n hn).elim
          · have hign' : op.ignored = true := by simpa using hign
            have hplc : op.placeholder = true := by
              rcases hkind with h | h
              · exact absurd h hign
              · exact h
            obtain ⟨p', hp', _, e2, e3', e4', e5', e6'⟩ := clearVirtual_mem _ _ op hop
            have hnot := hd.plain p' hp' (by rw [← e3']; exact hplc) (by rw [← e2]; exact hign') g
            unfold POp.operands at hgo
            simp only [List.mem_append] at hgo hnot
            have hout' : some g ∈ p'.outputs := by
              rcases hgo with (h | h) | h
              · exact absurd (Or.inl (by rw [← e4']; exact h)) hnot
              · rcases e6' with e | e
                · rw [← e]; exact h
                · rw [e] at h; simp at h
              · exact absurd (Or.inr (by rw [← e5']; exact h)) hnot
            unfold specPlaceholders
            rw [List.mem_flatMap]
            exact ⟨p', List.mem_filter.mpr ⟨hp', by rw [← e3']; exact hplc⟩, by simpa using hout'⟩
      have hany2 : ((specPlaceholders ps).any fun g => match d.tensors[g]? with
          | some gt => (tensorProblems "" m gt tt).isEmpty
          | none => false) = true := by
        rw [List.any_eq_true]
        exact ⟨g, hpl, by simp [t1, tensorProblems_ok "" m td tt _ t3 t4]⟩
      simp only [hany, t2, hany2]
      simp
  rw [e0, i1', o1', hR2, e3, e4, e5]
  rfl


/-! ## all subgraphs: the facts, from `write_facts` -/

theorem prepOp_info (ts : List TensorD) (op : OpD) (p : POp) (h : prepOp ts op = .ok p) :
    p.info.tableOk = true ∧ (p.ignored = false → p.info.inv.isSome = true) := by
  refine ⟨?_, (prepOp_ok ts op p h).2.2.2.2.2.2.2.1⟩
  unfold prepOp at h
  obtain ⟨info, h1, h⟩ := bind_ok h
  obtain ⟨in1, h2, h⟩ := bind_ok h
  obtain ⟨in2, h3, h⟩ := bind_ok h
  simp only [pure, Except.pure, Except.ok.injEq] at h
  subst h
  unfold lookupOpE at h1
  cases hx : lookupOp op.type with
  | none => simp [hx, throw, throwThe, MonadExceptOf.throw] at h1
  | some i =>
    simp [hx, pure, Except.pure] at h1
    subst h1
    exact (lookupOp_tableOk _ _ hx).1

theorem prepSub_info (ts : List TensorD) (sg : SubgraphD) (ps : PSub) (h : prepSub ts sg = .ok ps) :
    ∀ p ∈ ps.ops, p.info.tableOk = true ∧ (p.ignored = false → p.info.inv.isSome = true) := by
  obtain ⟨_, hl, hf⟩ := prepSub_ok ts sg ps h
  intro p hp
  obtain ⟨j, hj⟩ := List.getElem?_of_mem hp
  have hjl : j < sg.ops.length := by rw [← hl]; exact (List.getElem?_eq_some_iff.mp hj).1
  obtain ⟨p', hp', hpo⟩ := hf j _ (List.getElem?_eq_getElem hjl)
  rw [hj] at hp'
  obtain rfl := Option.some.inj hp'
  exact prepOp_info ts _ _ hpo

theorem subs_info (d : Desc) (subs : List PSub) (h : (subgraphsToWrite d).mapM (prepSub d.tensors) = .ok subs) :
    ∀ ps ∈ subs, ∀ p ∈ ps.ops, p.info.tableOk = true ∧ (p.ignored = false → p.info.inv.isSome = true) := by
  obtain ⟨hl, hf⟩ := mapM_ok _ _ _ h
  intro ps hps
  obtain ⟨k, hk⟩ := List.getElem?_of_mem hps
  have hkl : k < (subgraphsToWrite d).length := by rw [← hl]; exact (List.getElem?_eq_some_iff.mp hk).1
  obtain ⟨ps', hps', hpo⟩ := hf k _ (List.getElem?_eq_getElem hkl)
  rw [hk] at hps'
  obtain rfl := Option.some.inj hps'
  exact prepSub_info _ _ _ hpo

theorem write_sgFacts (d : Desc) (enum : List Code) (m : ModelT) (h : writeWith d enum = .ok m) :
    ∃ subs, (subgraphsToWrite d).mapM (prepSub d.tensors) = .ok subs ∧ m.subgraphs.length = subs.length ∧
      ∀ (k : Nat) ps sg, subs[k]? = some ps → m.subgraphs[k]? = some sg → SgFacts d m (sortCodes enum) ps sg := by
  obtain ⟨subs, opcodes, st, metas, h1, h2, h3, _, hm, acc, hl⟩ := write_facts d enum m h
  refine ⟨subs, h1, hl, ?_⟩
  intro k ps sg hk hs
  have hloc := subgraphs_local d.tensors (sortCodes enum) subs st0 m.subgraphs st h3
  have hk' : k < subs.length := (List.getElem?_eq_some_iff.mp hk).1
  have hs' : k < m.subgraphs.length := (List.getElem?_eq_some_iff.mp hs).1
  have hL := (List.forall₂_iff_get.mp hloc).2 k hk' hs'
  have e1 : subs.get ⟨k, hk'⟩ = ps := by
    have := (List.getElem?_eq_some_iff.mp hk).2; simpa using this
  have e2 : m.subgraphs.get ⟨k, hs'⟩ = sg := by
    have := (List.getElem?_eq_some_iff.mp hs).2; simpa using this
  rw [e1, e2] at hL
  have hmap : (subs.map (sgAll d.tensors))[k]? = some (sgAll d.tensors ps) := by simp [hk]
  obtain ⟨tl, tf⟩ := acc.tensors k _ sg hmap hs
  refine ⟨hL, tl, ?_, ?_, subs_info d subs h1 ps (List.mem_of_getElem? hk)⟩
  · intro i g hig
    obtain ⟨td, tt, a1, a2, a3, _, a5⟩ := tf i g hig
    refine ⟨td, tt, a1, a2, a3, ?_⟩
    rw [hm]
    exact assemble_buffers_get d opcodes m.subgraphs st metas _ _ a5
  · intro i c hc
    obtain ⟨_, cf⟩ := mapM_ok _ _ _ h2
    obtain ⟨oc, oc1, oc2⟩ := cf i c hc
    exact ⟨oc, by rw [hm]; exact oc1, oc2⟩


/-! ## the domain, executable -/

theorem sgDomain_of_B (ps : PSub) (h : sgDomainB ps = true) : SgDomain ps := by
  unfold sgDomainB outsListedB placeholdersPlainB at h
  simp only [Bool.and_eq_true, List.all_eq_true, List.contains_iff_mem, Bool.or_eq_true, Bool.not_eq_true', beq_iff_eq] at h
  refine ⟨fun g hg => by simpa using h.1 g hg, ?_⟩
  intro p hp hpl hig g hg
  rcases h.2 p hp with h1 | h1
  · simp [hpl, hig] at h1
  · have := h1 _ hg
    simp at this

theorem forall₂_of_getElem? {α β : Type} (R : α → β → Prop) : ∀ (l₁ : List α) (l₂ : List β), l₁.length = l₂.length →
    (∀ (i : Nat) a b, l₁[i]? = some a → l₂[i]? = some b → R a b) → List.Forall₂ R l₁ l₂
  | [], [], _, _ => List.Forall₂.nil
  | [], _ :: _, h, _ => by simp at h
  | _ :: _, [], h, _ => by simp at h
  | a :: l₁, b :: l₂, h, hf =>
    List.Forall₂.cons (hf 0 a b rfl rfl) (forall₂_of_getElem? R l₁ l₂ (by simpa using h) (fun i a b ha hb => hf (i + 1) a b (by simpa using ha) (by simpa using hb)))

/-- `conforms` accepts what `writeWith` produces, given the two parts proved elsewhere (file well-formedness, metadata) -/
theorem conforms_writeWith (d : Desc) (enum : List Code) (m : ModelT) (h : writeWith d enum = .ok m)
    (hd : conformsDomainB d = true)
    (hwf : wellFormed m = [])
    (hmeta : ∀ subs, (subgraphsToWrite d).mapM (prepSub d.tensors) = .ok subs → ∀ rels : List (Rel × Nat),
      List.Forall₂ (fun (all : List Nat) (r : Rel × Nat) => r.2 = all.length ∧ ∀ p ∈ r.1, all[p.2]? = some p.1)
        (subs.map (sgAll d.tensors)) rels → metadataProblems d m rels = []) :
    conforms d m = [] := by
  obtain ⟨subs, h1, hl, hfacts⟩ := write_sgFacts d enum m h
  obtain ⟨_, opcodes, sgs, st, metas, _, _, _, _, hm⟩ := writeWith_ok d enum m h
  have hdom : ∀ ps ∈ subs, SgDomain ps := by
    unfold conformsDomainB at hd
    simp only [h1, Bool.and_eq_true, List.all_eq_true] at hd
    exact fun ps hps => sgDomain_of_B ps (hd.2 ps hps)
  have hper : ∀ x ∈ (subs.zip m.subgraphs).zipIdx, (subgraphProblems d m x.2 x.1.1 x.1.2).2 = [] ∧
      RelExpl (sgAll d.tensors x.1.1) (subgraphProblems d m x.2 x.1.1 x.1.2).1 ∧ x.1.2.tensors.length = (sgAll d.tensors x.1.1).length ∧
      subs[x.2]? = some x.1.1 := by
    intro x hx
    obtain ⟨⟨ps, f⟩, k⟩ := x
    have hz := List.mem_zipIdx_iff_getElem?.mp hx
    obtain ⟨hzp, hzo⟩ := List.getElem?_zip_eq_some.mp hz
    simp only at hzp hzo
    have hF := hfacts k ps f hzp hzo
    obtain ⟨a, b⟩ := subgraph_ok d m (sortCodes enum) k ps f hF (hdom ps (List.mem_of_getElem? hzp))
    exact ⟨a, b, hF.tlen, hzp⟩
  unfold conforms
  simp only [h1]
  have hhdr : m.fileId = WriterTbl.fileIdentifier ∧ m.version = WriterTbl.tfliteVersion ∧
      m.description = some (descriptionOf d.version) := by
    rw [hm]; exact ⟨rfl, rfl, rfl⟩
  have e1 : (((subs.zip m.subgraphs).zipIdx.map fun (x : (PSub × SubGraphT) × Nat) =>
      (subgraphProblems d m x.2 x.1.1 x.1.2, x.1.2.tensors.length)).flatMap (·.1.2)) = [] := by
    rw [List.flatMap_eq_nil_iff]
    intro y hy
    obtain ⟨x, hx, rfl⟩ := List.mem_map.mp hy
    exact (hper x hx).1
  have e2 := hmeta subs h1 (((subs.zip m.subgraphs).zipIdx.map fun (x : (PSub × SubGraphT) × Nat) =>
      (subgraphProblems d m x.2 x.1.1 x.1.2, x.1.2.tensors.length)).map fun x => (x.1.1, x.2)) (by
    apply forall₂_of_getElem?
    · simp [hl]
    · intro i all r hall hr
      simp only [List.getElem?_map, Option.map_eq_some_iff] at hall hr
      obtain ⟨ps, hps, rfl⟩ := hall
      obtain ⟨y, ⟨x, hx, rfl⟩, rfl⟩ := hr
      have hxm : x ∈ (subs.zip m.subgraphs).zipIdx := List.mem_of_getElem? hx
      obtain ⟨_, b, c, e⟩ := hper x hxm
      have hxi : x.2 = i := by
        rw [List.getElem?_zipIdx] at hx
        obtain ⟨z, _, rfl⟩ := Option.map_eq_some_iff.mp hx
        simp
      rw [hxi, hps] at e
      obtain rfl := Option.some.inj e
      exact ⟨c, b⟩)
  have e1' : (((subs.zip m.subgraphs).zipIdx.map fun x => match x with
      | ((ps, f), k) => (subgraphProblems d m k ps f, f.tensors.length)).flatMap (·.1.2)) = [] := e1
  rw [e1', hwf]
  simp only [hhdr.1, hhdr.2.1, hhdr.2.2, hl]
  simpa using e2

end VelaVerif.Tflite.Spec
