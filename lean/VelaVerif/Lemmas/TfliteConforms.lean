import VelaVerif.Lemmas.TfliteWriter
import VelaVerif.Lemmas.TfliteReader
import VelaVerif.Spec.TfliteFile
/-! Lemmas for `Props/C11Writer.conforms_write`: the executable checker `Spec.conforms` accepts what the writer model produces. -/
set_option linter.unusedSimpArgs false
set_option linter.unusedVariables false
namespace VelaVerif.Tflite.Spec
open VelaVerif.Tflite VelaVerif.Tflite.Writer VelaVerif.OpIndices VelaVerif.Gen

/-- every pair of the relation is explained by the writer's tensor list -/
def RelExpl (all : List Nat) (r : Rel) : Prop := ∀ p ∈ r, all[p.2]? = some p.1

/-- how a graph operand and a file index have to match -/
def OperandOk (all : List Nat) (g : Option Nat) (f : Int) : Prop :=
  match g with
  | none => f = -1
  | some g => ∃ n : Nat, f = n ∧ all[n]? = some g

theorem relList_ok (what : String) (all : List Nat) : ∀ (gs : List (Option Nat)) (fs : List Int) (r : Rel),
    List.Forall₂ (OperandOk all) gs fs → RelExpl all r →
    (relList what r gs fs).2 = [] ∧ RelExpl all (relList what r gs fs).1 ∧
    (∀ p ∈ r, p ∈ (relList what r gs fs).1) ∧
    (∀ g, some g ∈ gs → ∃ n, (g, n) ∈ (relList what r gs fs).1)
  | [], [], r, _, hr => by simp [relList, hr]
  | none :: gs, f :: fs, r, h, hr => by
    cases h with
    | cons h1 h2 =>
      obtain ⟨a, b, c, e⟩ := relList_ok what all gs fs r h2 hr
      have hf : f = -1 := h1
      subst hf
      simp only [relList]
      refine ⟨by simpa using a, b, c, ?_⟩
      intro g hg
      simp at hg
      exact e g hg
  | some g :: gs, f :: fs, r, h, hr => by
    cases h with
    | cons h1 h2 =>
      obtain ⟨n, hf, hn⟩ := h1
      subst hf
      have hr' : RelExpl all ((g, n) :: r) := by
        intro p hp
        rcases List.mem_cons.mp hp with rfl | hp
        · exact hn
        · exact hr p hp
      obtain ⟨a, b, c, e⟩ := relList_ok what all gs fs ((g, n) :: r) h2 hr'
      have h1 : relOne what r g (n : Int) = ((g, n) :: r, []) := by
        simp [relOne]
      simp only [relList, h1]
      refine ⟨by simpa using a, b, fun p hp => c p (List.mem_cons_of_mem _ hp), ?_⟩
      intro g' hg'
      simp at hg'
      rcases hg' with rfl | hg'
      · exact ⟨n, c _ (List.mem_cons_self ..)⟩
      · exact e g' hg'


/-! ## one tensor -/

theorem tensorProblems_ok (what : String) (m : ModelT) (td : TensorD) (tt : TensorT) (b : Nat) (h : tensorT td b = .ok tt)
    (hb : m.buffers[tt.buffer]? = some { data := td.values }) : tensorProblems what m td tt = [] := by
  obtain ⟨b1, b2, b3, b4, b5, _, b7⟩ := tensorT_ok td b tt h
  have hq : (tt.quant.map (·.extra.isEmpty)).getD true = true := by
    rw [b4]; cases td.quant <;> simp [quantT]
  have hs : tt.shape = some (Spec.writtenShape td) := b2
  unfold tensorProblems
  simp only [hb, b1, b3, b5, b7, hq, hs]
  simp [b4]

/-! ## one operator -/

theorem serialiseOpCode_fields (c : Code) (oc : OpCodeT) (info : OpInfo) (hi : lookupOpId c.opId = some info)
    (h : serialiseOpCode c = .ok oc) :
    ∃ tf ser wt, info.inv = some (tf, ser, wt) ∧ oc.builtin = (tf : Int) ∧ oc.deprecated = deprecatedCode tf ∧ oc.version = c.version ∧
      oc.custom = (if info.name == "Custom" then some c.custom else if info.name == "CustomNpuOp" then some ethosU else none) ∧
      oc.extra = [] := by
  unfold serialiseOpCode at h
  simp only [hi, bind, Except.bind, pure, Except.pure] at h
  cases hinv : info.inv with
  | none =>
    by_cases hc : (info.name == "Custom") = true <;> simp [hinv, hc, throw, throwThe, MonadExceptOf.throw] at h
  | some x =>
    obtain ⟨tf, ser, wt⟩ := x
    by_cases hc : (info.name == "Custom") = true
    · simp [hinv, hc] at h
      subst h
      exact ⟨tf, ser, wt, rfl, rfl, rfl, rfl, by simp [hc], rfl⟩
    · by_cases hn : (info.name == "CustomNpuOp") = true
      · by_cases htf : tf = WriterTbl.builtinCustom
        · simp [hinv, hc, hn, htf] at h
          subst h
          exact ⟨tf, ser, wt, rfl, by simp [htf], by simp [htf], rfl, by simp [hc, hn], rfl⟩
        · simp [hinv, hc, hn, htf, throw, throwThe, MonadExceptOf.throw] at h
      · simp [hinv, hc, hn] at h
        subst h
        exact ⟨tf, ser, wt, rfl, rfl, rfl, rfl, by simp [hc, hn], rfl⟩

theorem forall₂_map_self {α β : Type} (R : α → β → Prop) (f : α → β) : ∀ (l : List α), (∀ a ∈ l, R a (f a)) → List.Forall₂ R l (l.map f)
  | [], _ => List.Forall₂.nil
  | a :: l, h => List.Forall₂.cons (h a (List.mem_cons_self ..)) (forall₂_map_self R f l (fun x hx => h x (List.mem_cons_of_mem _ hx)))

theorem forall₂_some {all : List Nat} : ∀ {l₁ : List Nat} {l₂ : List Int},
    List.Forall₂ (fun g (i : Int) => ∃ n : Nat, i = n ∧ all[n]? = some g) l₁ l₂ → List.Forall₂ (OperandOk all) (l₁.map some) l₂
  | _, _, .nil => List.Forall₂.nil
  | _, _, .cons h t => List.Forall₂.cons h (forall₂_some t)

theorem operator_ok (what : String) (m : ModelT) (codes : List Code) (all : List Nat) (p : POp) (o : OperatorT)
    (hser : serialiseOperator codes all p = .ok o)
    (hok : p.info.tableOk = true) (hinv : p.info.inv.isSome = true)
    (hcodes : ∀ (i : Nat) c, codes[i]? = some c → ∃ oc, m.opcodes[i]? = some oc ∧ serialiseOpCode c = .ok oc)
    (hmem : ∀ g, some g ∈ p.operands → g ∈ all) :
    ∃ lg, lowerOp p = some lg ∧ codeProblems what m lg o = [] ∧ o.payload = lg.payload ∧ o.mutating = some [] ∧ o.extra = [] ∧
      List.Forall₂ (OperandOk all) lg.inputs (optList o.inputs) ∧
      List.Forall₂ (OperandOk all) (lg.outputs.map some) (optList o.outputs) ∧
      List.Forall₂ (OperandOk all) (lg.intermediates.map some) (optList o.intermediates) := by
  obtain ⟨x, hx⟩ := Option.isSome_iff_exists.mp hinv
  obtain ⟨tf, ser, wt⟩ := x
  obtain ⟨s1, s2, s3, s4, s5, s6⟩ := serialiseOperator_ok _ _ _ _ hser
  have hpay : o.payload = (if ser then
               { optType := if p.payload.opts.isSome then p.payload.optType else 0, opts := p.payload.opts, custom := p.payload.custom,
                 customFormat := if p.payload.custom.isSome then p.payload.customFormat else 0 }
             else { optType := 0, opts := none, custom := none, customFormat := 0 } : Payload) := by
    unfold serialiseOperator at hser
    dsimp only at hser
    obtain ⟨idx, hidx, hser⟩ := bind_ok hser
    simp only [pure, Except.pure, Except.ok.injEq] at hser
    subst hser
    simp [hx]
  obtain ⟨c, c1, c2, c3, c4⟩ := opcodeIndex_ok _ _ _ s4
  obtain ⟨oc, oc1, oc2⟩ := hcodes _ c c1
  have hid : lookupOpId c.opId = some p.info := by
    unfold OpInfo.tableOk at hok
    simp only [Bool.and_eq_true, beq_iff_eq] at hok
    rw [c2]; exact hok.1.2
  obtain ⟨tf', ser', wt', f1, f2, f3, f4, f5, f6⟩ := serialiseOpCode_fields c oc p.info hid oc2
  rw [hx] at f1
  simp only [Option.some.injEq, Prod.mk.injEq] at f1
  obtain ⟨rfl, rfl, rfl⟩ := f1
  refine ⟨_, by unfold lowerOp; rw [hx], ?_, hpay, s5, s6, ?_, ?_, ?_⟩
  · unfold codeProblems
    simp only [oc1]
    have hb : (if oc.builtin == 0 then oc.deprecated else oc.builtin) = (tf : Int) := builtin_of oc tf f2 f3
    have hcu : oc.custom = (if p.info.name == "Custom" then some p.custom else if p.info.name == "CustomNpuOp" then some ethosU else none) := by
      rw [f5]
      by_cases hc : (p.info.name == "Custom") = true
      · have : c = p.code := c4 (by simpa using hc)
        simp [hc, this, POp.code]
      · simp [hc]
    simp only [hb]
    simp [f3, f4, c3, hcu, deprecatedCode]
  · rw [s1]
    simp only [optList, Option.getD_some]
    apply forall₂_map_self
    intro a ha
    cases a with
    | none => simp [OperandOk, mapIdx]
    | some g =>
      have hg : g ∈ all := hmem g (by unfold POp.operands; exact List.mem_append_left _ (List.mem_append_left _ ha))
      obtain ⟨i, hi, hgi⟩ := indexIn_of_mem all g hg
      simp only [OperandOk, mapIdx, hi]
      exact ⟨i, rfl, hgi⟩
  · rw [s2]
    simp only [optList, Option.getD_some]
    exact forall₂_some (filterMap_mapIdx all p.outputs (fun g hg => hmem g (by
      unfold POp.operands; exact List.mem_append_left _ (List.mem_append_right _ hg))))
  · rw [s3]
    simp only [optList, Option.getD_some]
    exact forall₂_some (filterMap_mapIdx all p.intermediates (fun g hg => hmem g (by
      unfold POp.operands; exact List.mem_append_right _ hg)))

end VelaVerif.Tflite.Spec
