import VelaVerif.Lemmas.TfliteWriter
import VelaVerif.Lemmas.TfliteReader
import VelaVerif.Spec.TfliteFile
/-! Lemmas for `Props/C11Writer.conforms_write`: the executable checker `Spec.conforms` accepts what the writer model produces. -/
set_option linter.unusedSimpArgs false
set_option linter.unusedVariables false
namespace VelaVerif.Tflite.Spec
open VelaVerif.Tflite VelaVerif.Tflite.Writer VelaVerif.OpIndices VelaVerif.Gen

/-- every pair of the relation is explained by the writer's tensor list -/
def RelExpl (all : List Nat) (r : Rel) : Prop := ∀ p ∈ r, all[p.2]? = some p.1

/-- how a graph operand and a file index have to match -/
def OperandOk (all : List Nat) (g : Option Nat) (f : Int) : Prop :=
  match g with
  | none => f = -1
  | some g => ∃ n : Nat, f = n ∧ all[n]? = some g

theorem relList_ok (what : String) (all : List Nat) : ∀ (gs : List (Option Nat)) (fs : List Int) (r : Rel),
    List.Forall₂ (OperandOk all) gs fs → RelExpl all r →
    (relList what r gs fs).2 = [] ∧ RelExpl all (relList what r gs fs).1 ∧
    (∀ p ∈ r, p ∈ (relList what r gs fs).1) ∧
    (∀ g, some g ∈ gs → ∃ n, (g, n) ∈ (relList what r gs fs).1)
  | [], [], r, _, hr => by simp [relList, hr]
  | none :: gs, f :: fs, r, h, hr => by
    cases h with
    | cons h1 h2 =>
      obtain ⟨a, b, c, e⟩ := relList_ok what all gs fs r h2 hr
      have hf : f = -1 := h1
      subst hf
      simp only [relList]
      refine ⟨by simpa using a, b, c, ?_⟩
      intro g hg
      simp at hg
      exact e g hg
  | some g :: gs, f :: fs, r, h, hr => by
    cases h with
    | cons h1 h2 =>
      obtain ⟨n, hf, hn⟩ := h1
      subst hf
      have hr' : RelExpl all ((g, n) :: r) := by
        intro p hp
        rcases List.mem_cons.mp hp with rfl | hp
        · exact hn
        · exact hr p hp
      obtain ⟨a, b, c, e⟩ := relList_ok what all gs fs ((g, n) :: r) h2 hr'
      have h1 : relOne what r g (n : Int) = ((g, n) :: r, []) := by
        simp [relOne]
      simp only [relList, h1]
      refine ⟨by simpa using a, b, fun p hp => c p (List.mem_cons_of_mem _ hp), ?_⟩
      intro g' hg'
      simp at hg'
      rcases hg' with rfl | hg'
      · exact ⟨n, c _ (List.mem_cons_self ..)⟩
      · exact e g' hg'


/-! ## one tensor -/

theorem tensorProblems_ok (what : String) (m : ModelT) (td : TensorD) (tt : TensorT) (b : Nat) (h : tensorT td b = .ok tt)
    (hb : m.buffers[tt.buffer]? = some { data := td.values }) : tensorProblems what m td tt = [] := by
  obtain ⟨b1, b2, b3, b4, b5, _, b7⟩ := tensorT_ok td b tt h
  have hq : (tt.quant.map (·.extra.isEmpty)).getD true = true := by
    rw [b4]; cases td.quant <;> simp [quantT]
  have hs : tt.shape = some (Spec.writtenShape td) := b2
  unfold tensorProblems
  simp only [hb, b1, b3, b5, b7, hq, hs]
  simp [b4]

/-! ## one operator -/

theorem serialiseOpCode_fields (c : Code) (oc : OpCodeT) (info : OpInfo) (hi : lookupOpId c.opId = some info)
    (h : serialiseOpCode c = .ok oc) :
    ∃ tf ser wt, info.inv = some (tf, ser, wt) ∧ oc.builtin = (tf : Int) ∧ oc.deprecated = deprecatedCode tf ∧ oc.version = c.version ∧
      oc.custom = (if info.name == "Custom" then some c.custom else if info.name == "CustomNpuOp" then some ethosU else none) ∧
      oc.extra = [] := by
  unfold serialiseOpCode at h
  simp only [hi, bind, Except.bind, pure, Except.pure] at h
  cases hinv : info.inv with
  | none =>
    by_cases hc : (info.name == "Custom") = true <;> simp [hinv, hc, throw, throwThe, MonadExceptOf.throw] at h
  | some x =>
    obtain ⟨tf, ser, wt⟩ := x
    by_cases hc : (info.name == "Custom") = true
    · simp [hinv, hc] at h
      subst h
      exact ⟨tf, ser, wt, rfl, rfl, rfl, rfl, by simp [hc], rfl⟩
    · by_cases hn : (info.name == "CustomNpuOp") = true
      · by_cases htf : tf = WriterTbl.builtinCustom
        · simp [hinv, hc, hn, htf] at h
          subst h
          exact ⟨tf, ser, wt, rfl, by simp [htf], by simp [htf], rfl, by simp [hc, hn], rfl⟩
        · simp [hinv, hc, hn, htf, throw, throwThe, MonadExceptOf.throw] at h
      · simp [hinv, hc, hn] at h
        subst h
        exact ⟨tf, ser, wt, rfl, rfl, rfl, rfl, by simp [hc, hn], rfl⟩

theorem forall₂_map_self {α β : Type} (R : α → β → Prop) (f : α → β) : ∀ (l : List α), (∀ a ∈ l, R a (f a)) → List.Forall₂ R l (l.map f)
  | [], _ => List.Forall₂.nil
  | a :: l, h => List.Forall₂.cons (h a (List.mem_cons_self ..)) (forall₂_map_self R f l (fun x hx => h x (List.mem_cons_of_mem _ hx)))

theorem forall₂_some {all : List Nat} : ∀ {l₁ : List Nat} {l₂ : List Int},
    List.Forall₂ (fun g (i : Int) => ∃ n : Nat, i = n ∧ all[n]? = some g) l₁ l₂ → List.Forall₂ (OperandOk all) (l₁.map some) l₂
  | _, _, .nil => List.Forall₂.nil
  | _, _, .cons h t => List.Forall₂.cons h (forall₂_some t)

theorem operator_ok (what : String) (m : ModelT) (codes : List Code) (all : List Nat) (p : POp) (o : OperatorT)
    (hser : serialiseOperator codes all p = .ok o)
    (hok : p.info.tableOk = true) (hinv : p.info.inv.isSome = true)
    (hcodes : ∀ (i : Nat) c, codes[i]? = some c → ∃ oc, m.opcodes[i]? = some oc ∧ serialiseOpCode c = .ok oc)
    (hmem : ∀ g, some g ∈ p.operands → g ∈ all) :
    ∃ lg, lowerOp p = some lg ∧ codeProblems what m lg o = [] ∧ o.payload = lg.payload ∧ o.mutating = some [] ∧ o.extra = [] ∧
      List.Forall₂ (OperandOk all) lg.inputs (optList o.inputs) ∧
      List.Forall₂ (OperandOk all) (lg.outputs.map some) (optList o.outputs) ∧
      List.Forall₂ (OperandOk all) (lg.intermediates.map some) (optList o.intermediates) := by
  obtain ⟨x, hx⟩ := Option.isSome_iff_exists.mp hinv
  obtain ⟨tf, ser, wt⟩ := x
  obtain ⟨s1, s2, s3, s4, s5, s6⟩ := serialiseOperator_ok _ _ _ _ hser
  have hpay : o.payload = (if ser then
               { optType := if p.payload.opts.isSome then p.payload.optType else 0, opts := p.payload.opts, custom := p.payload.custom,
                 customFormat := if p.payload.custom.isSome then p.payload.customFormat else 0 }
             else { optType := 0, opts := none, custom := none, customFormat := 0 } : Payload) := by
    unfold serialiseOperator at hser
    dsimp only at hser
    obtain ⟨idx, hidx, hser⟩ := bind_ok hser
    simp only [pure, Except.pure, Except.ok.injEq] at hser
    subst hser
    simp [hx]
  obtain ⟨c, c1, c2, c3, c4⟩ := opcodeIndex_ok _ _ _ s4
  obtain ⟨oc, oc1, oc2⟩ := hcodes _ c c1
  have hid : lookupOpId c.opId = some p.info := by
    unfold OpInfo.tableOk at hok
    simp only [Bool.and_eq_true, beq_iff_eq] at hok
    rw [c2]; exact hok.1.2
  obtain ⟨tf', ser', wt', f1, f2, f3, f4, f5, f6⟩ := serialiseOpCode_fields c oc p.info hid oc2
  rw [hx] at f1
  simp only [Option.some.injEq, Prod.mk.injEq] at f1
  obtain ⟨rfl, rfl, rfl⟩ := f1
  refine ⟨_, by unfold lowerOp; rw [hx], ?_, hpay, s5, s6, ?_, ?_, ?_⟩
  · unfold codeProblems
    simp only [oc1]
    have hb : (if oc.builtin == 0 then oc.deprecated else oc.builtin) = (tf : Int) := builtin_of oc tf f2 f3
    have hcu : oc.custom = (if p.info.name == "Custom" then some p.custom else if p.info.name == "CustomNpuOp" then some ethosU else none) := by
      rw [f5]
      by_cases hc : (p.info.name == "Custom") = true
      · have : c = p.code := c4 (by simpa using hc)
        simp [hc, this, POp.code]
      · simp [hc]
    simp only [hb]
    simp [f3, f4, c3, hcu, deprecatedCode]
  · rw [s1]
    simp only [optList, Option.getD_some]
    apply forall₂_map_self
    intro a ha
    cases a with
    | none => simp [OperandOk, mapIdx]
    | some g =>
      have hg : g ∈ all := hmem g (by unfold POp.operands; exact List.mem_append_left _ (List.mem_append_left _ ha))
      obtain ⟨i, hi, hgi⟩ := indexIn_of_mem all g hg
      simp only [OperandOk, mapIdx, hi]
      exact ⟨i, rfl, hgi⟩
  · rw [s2]
    simp only [optList, Option.getD_some]
    exact forall₂_some (filterMap_mapIdx all p.outputs (fun g hg => hmem g (by
      unfold POp.operands; exact List.mem_append_left _ (List.mem_append_right _ hg))))
  · rw [s3]
    simp only [optList, Option.getD_some]
    exact forall₂_some (filterMap_mapIdx all p.intermediates (fun g hg => hmem g (by
      unfold POp.operands; exact List.mem_append_right _ hg)))


/-! ## one subgraph: `subgraphProblems` in projection form -/

/-- the body of the fold over the operators in `subgraphProblems` -/
def opStep (m : ModelT) (w : String) (acc : Rel × List Problem) (x : (POp × OperatorT) × Nat) : Rel × List Problem :=
  let wo := s!"{w} operator {x.2}"
  match lowerOp x.1.1 with
  | none => (acc.1, acc.2 ++ [⟨"not-serialisable", wo⟩])
  | some lg =>
    let a := relList s!"{wo} inputs" acc.1 lg.inputs (optList x.1.2.inputs)
    let b := relList s!"{wo} outputs" a.1 (lg.outputs.map some) (optList x.1.2.outputs)
    let c := relList s!"{wo} intermediates" b.1 (lg.intermediates.map some) (optList x.1.2.intermediates)
    (c.1, acc.2 ++ codeProblems wo m lg x.1.2 ++ a.2 ++ b.2 ++ c.2 ++
      (if x.1.2.payload == lg.payload then [] else [⟨"option-payload", wo⟩]) ++
      (if x.1.2.mutating == some [] && x.1.2.extra.isEmpty then [] else [⟨"operator-extra-fields", wo⟩]))

def specOuts2 (ps : PSub) : List Nat :=
  match ps.sg.originalOutputPositions with
  | none => removeVirtual ps.sg.outputTensors ps.sg.virtualOutputs
  | some pos => pos.filterMap ((removeVirtual ps.sg.outputTensors ps.sg.virtualOutputs)[·]?)

def specOps (ps : PSub) : List POp := (clearVirtual ps.ops ps.sg.virtualOutputs).filter (!·.ignored)

def relIn (k : Nat) (ps : PSub) (f : SubGraphT) : Rel × List Problem :=
  relList s!"{s!"subgraph {k}"} inputs" [] (ps.sg.originalInputs.map some) (optList f.inputs)
def relOut (k : Nat) (ps : PSub) (f : SubGraphT) : Rel × List Problem :=
  relList s!"{s!"subgraph {k}"} outputs" (relIn k ps f).1 ((specOuts2 ps).map some) (optList f.outputs)
def relOps (m : ModelT) (k : Nat) (ps : PSub) (f : SubGraphT) : Rel × List Problem :=
  ((specOps ps).zip f.operators).zipIdx.foldl (opStep m s!"subgraph {k}") ((relOut k ps f).1, [])

theorem subgraphProblems_fst (d : Desc) (m : ModelT) (k : Nat) (ps : PSub) (f : SubGraphT) :
    (subgraphProblems d m k ps f).1 = (relOps m k ps f).1.eraseDups := rfl


def sgP0 (k : Nat) (ps : PSub) (f : SubGraphT) : List Problem :=
  (if f.operators.length == (specOps ps).length then [] else [⟨"operator-count", s!"{s!"subgraph {k}"}: graph {(specOps ps).length} file {f.operators.length}"⟩]) ++
  (if f.name == some ps.sg.name then [] else [⟨"subgraph-name", s!"subgraph {k}"⟩])

def sgP4 (d : Desc) (m : ModelT) (k : Nat) (f : SubGraphT) (r : Rel) : List Problem :=
  r.flatMap fun (g, i) =>
    match d.tensors[g]?, f.tensors[i]? with
    | some gt, some ft => tensorProblems s!"{s!"subgraph {k}"} tensor {i} ({showName gt.name})" m gt ft
    | none, _ => [⟨"graph-reference", s!"{s!"subgraph {k}"}: graph tensor {g}"⟩]
    | _, none => [⟨"index-range", s!"{s!"subgraph {k}"}: file tensor {i} of {f.tensors.length}"⟩]

def specPlaceholders (ps : PSub) : List Nat := (ps.ops.filter (·.placeholder)).flatMap fun o => o.outputs.filterMap id

def sgP5 (d : Desc) (m : ModelT) (k : Nat) (ps : PSub) (f : SubGraphT) (r : Rel) : List Problem :=
  (List.range f.tensors.length).flatMap fun i =>
    if r.any (·.2 == i) then [] else
    match f.tensors[i]? with
    | none => []
    | some ft =>
      if (specPlaceholders ps).any fun g => match d.tensors[g]? with
        | some gt => (tensorProblems "" m gt ft).isEmpty
        | none => false
      then [] else [⟨"unexplained-tensor", s!"{s!"subgraph {k}"} tensor {i}"⟩]

theorem subgraphProblems_snd (d : Desc) (m : ModelT) (k : Nat) (ps : PSub) (f : SubGraphT) :
    (subgraphProblems d m k ps f).2 = sgP0 k ps f ++ (relIn k ps f).2 ++ (relOut k ps f).2 ++ (relOps m k ps f).2 ++
      oneToOne (relOps m k ps f).1.eraseDups ++ sgP4 d m k f (relOps m k ps f).1.eraseDups ++
      sgP5 d m k ps f (relOps m k ps f).1.eraseDups := rfl


/-! ## helper facts -/

theorem foldl_inv_mem {α β : Type} (P : β → Prop) (Q : α → β → Prop) (f : β → α → β) :
    ∀ (l : List α) (b : β), P b → (∀ b a, a ∈ l → P b → P (f b a) ∧ Q a (f b a)) →
    (∀ b a a', a' ∈ l → P b → Q a b → Q a (f b a')) →
    P (l.foldl f b) ∧ ∀ a ∈ l, Q a (l.foldl f b)
  | [], b, hb, _, _ => ⟨hb, by simp⟩
  | x :: l, b, hb, hstep, hmono => by
    obtain ⟨h1, h2⟩ := hstep b x (List.mem_cons_self ..) hb
    have hgen : ∀ (l' : List α) (b' : β), (∀ a ∈ l', a ∈ x :: l) → P b' → Q x b' → Q x (l'.foldl f b') := by
      intro l'
      induction l' with
      | nil => intro b' _ _ hq; exact hq
      | cons y l' ih =>
        intro b' hsub hp hq
        have hy : y ∈ x :: l := hsub y (List.mem_cons_self ..)
        exact ih (f b' y) (fun a ha => hsub a (List.mem_cons_of_mem _ ha)) (hstep b' y hy hp).1 (hmono b' x y hy hp hq)
    obtain ⟨i1, i2⟩ := foldl_inv_mem P Q f l (f b x) h1 (fun b a ha => hstep b a (List.mem_cons_of_mem _ ha))
      (fun b a a' ha' => hmono b a a' (List.mem_cons_of_mem _ ha'))
    refine ⟨i1, ?_⟩
    intro a ha
    rcases List.mem_cons.mp ha with rfl | ha
    · exact hgen l (f b a) (fun a ha => List.mem_cons_of_mem _ ha) h1 h2
    · exact i2 a ha

theorem clearVirtual_mem : ∀ (vo : List (Nat × Option Nat)) (ops : List POp) (p : POp), p ∈ clearVirtual ops vo →
    ∃ p' ∈ ops, p.info = p'.info ∧ p.ignored = p'.ignored ∧ p.placeholder = p'.placeholder ∧ p.inputs = p'.inputs ∧
      p.intermediates = p'.intermediates ∧ (p.outputs = p'.outputs ∨ p.outputs = [])
  | [], ops, p, h => ⟨p, by simpa [clearVirtual] using h, rfl, rfl, rfl, rfl, rfl, Or.inl rfl⟩
  | v :: vo, ops, p, h => by
    have h' : p ∈ clearVirtual (match v.2 with
        | some k => modifyAt ops k (fun o => { o with outputs := [] })
        | none => ops) vo := h
    obtain ⟨p1, hp1, a1, a2, a3, a4, a5, a6⟩ := clearVirtual_mem vo _ p h'
    have hp1' : ∃ p' ∈ ops, p1.info = p'.info ∧ p1.ignored = p'.ignored ∧ p1.placeholder = p'.placeholder ∧ p1.inputs = p'.inputs ∧
        p1.intermediates = p'.intermediates ∧ (p1.outputs = p'.outputs ∨ p1.outputs = []) := by
      cases hv : v.2 with
      | none => simp only [hv] at hp1; exact ⟨p1, hp1, rfl, rfl, rfl, rfl, rfl, Or.inl rfl⟩
      | some k =>
        simp only [hv] at hp1
        unfold modifyAt at hp1
        cases hk : ops[k]? with
        | none => simp only [hk] at hp1; exact ⟨p1, hp1, rfl, rfl, rfl, rfl, rfl, Or.inl rfl⟩
        | some a =>
          simp only [hk] at hp1
          rcases List.mem_or_eq_of_mem_set hp1 with hm | he
          · exact ⟨p1, hm, rfl, rfl, rfl, rfl, rfl, Or.inl rfl⟩
          · exact ⟨a, List.mem_of_getElem? hk, by rw [he], by rw [he], by rw [he], by rw [he], by rw [he], Or.inr (by rw [he])⟩
    obtain ⟨p2, hp2, b1, b2, b3, b4, b5, b6⟩ := hp1'
    refine ⟨p2, hp2, a1.trans b1, a2.trans b2, a3.trans b3, a4.trans b4, a5.trans b5, ?_⟩
    rcases a6 with a6 | a6
    · rcases b6 with b6 | b6
      · exact Or.inl (a6.trans b6)
      · exact Or.inr (a6.trans b6)
    · exact Or.inr a6

theorem outputList_spec (outs : List Nat) : ∀ (pos : List Nat) (outs2 : List Nat),
    outputList (some pos) outs = .ok outs2 → outs2 = pos.filterMap (outs[·]?)
  | [], outs2, h => by
    simp [outputList, pure, Except.pure] at h
    simp [h]
  | p :: pos, outs2, h => by
    unfold outputList at h
    simp only [List.mapM_cons] at h
    obtain ⟨t, ht, h⟩ := bind_ok h
    obtain ⟨r, hr, h⟩ := bind_ok h
    simp only [pure, Except.pure, Except.ok.injEq] at h
    subst h
    have ih := outputList_spec outs pos r (by unfold outputList; exact hr)
    cases ho : outs[p]? with
    | none => simp [ho, throw, throwThe, MonadExceptOf.throw] at ht
    | some t' =>
      simp [ho, pure, Except.pure] at ht
      subst ht
      simp [ho, ih]

theorem specOuts2_eq (ps : PSub) (outs2 : List Nat) (h : outputList ps.sg.originalOutputPositions (sgOuts ps) = .ok outs2) :
    specOuts2 ps = outs2 := by
  unfold specOuts2
  cases hp : ps.sg.originalOutputPositions with
  | none =>
    rw [hp] at h
    simp [outputList, pure, Except.pure] at h
    simpa [sgOuts] using h
  | some pos =>
    rw [hp] at h
    exact (outputList_spec _ pos outs2 h).symm

end VelaVerif.Tflite.Spec
