import VelaVerif.Lemmas.Sem
import VelaVerif.Spec.RewriteSem
/-! Helper lemmas for `Props/C01Rewrites.lean`: clamps, contraction and monotonicity of the gemmlowp primitives. -/
namespace VelaVerif.Lemmas.Rewrites
open VelaVerif.Requant VelaVerif.TfliteRef VelaVerif.Lemmas.Sem VelaVerif.RewriteSem VelaVerif.Rewrites

theorem clamp_mono (a b lo hi : Int) (hlh : lo ≤ hi) (h : a ≤ b) : clamp a lo hi ≤ clamp b lo hi := by
  unfold clamp; split <;> split <;> (try split) <;> (try split) <;> omega

theorem clamp_id (v lo hi : Int) (h1 : lo ≤ v) (h2 : v ≤ hi) : clamp v lo hi = v := by
  unfold clamp; split <;> (try split) <;> omega

/-- srdhm with a non-negative multiplier below 2^31 contracts towards zero -/
theorem srdhm_contract_nonneg (x m : Int) (hx : 0 ≤ x) (hm0 : 0 ≤ m) (hm : m < 2147483648) :
    0 ≤ srdhm x m ∧ srdhm x m ≤ x := by
  have hns : ¬ (x = INT32_MIN ∧ m = INT32_MIN) := by
    intro h; have := h.2; simp [INT32_MIN] at this; omega
  rw [srdhm_floor x m hns]
  have h1 : 0 ≤ x * m := Int.mul_nonneg hx hm0
  have h2 : x * m ≤ x * 2147483647 := Int.mul_le_mul_of_nonneg_left (by omega) hx
  constructor <;> omega

theorem srdhm_contract_neg (x m : Int) (hx : x ≤ 0) (hm0 : 0 ≤ m) (hm : m < 2147483648) :
    x ≤ srdhm x m ∧ srdhm x m ≤ 0 := by
  have hns : ¬ (x = INT32_MIN ∧ m = INT32_MIN) := by
    intro h; have := h.2; simp [INT32_MIN] at this; omega
  rw [srdhm_floor x m hns]
  have h1 : x * m ≤ 0 := Int.mul_nonpos_of_nonpos_of_nonneg hx hm0
  have h2 : x * 2147483647 ≤ x * m := Int.mul_le_mul_of_nonpos_left hx (by omega) 
  constructor <;> omega

theorem rdivpot_contract_nonneg (y : Int) (e : Nat) (hy : 0 ≤ y) : 0 ≤ rdivpot y e ∧ rdivpot y e ≤ y := by
  rw [rdivpot_cases]
  simp only []
  have hpos := two_pow_pos e
  generalize hP : (2 : Int) ^ e = P at *
  have hr0 : 0 ≤ y % P := Int.emod_nonneg y (by omega)
  have hr1 : y % P < P := Int.emod_lt_of_pos y hpos
  have hq : 0 ≤ y / P := Int.ediv_nonneg hy (by omega)
  have hd : P * (y / P) + y % P = y := Int.mul_ediv_add_emod y P
  have hqy : y / P ≤ P * (y / P) := by
    have : 1 * (y / P) ≤ P * (y / P) := Int.mul_le_mul_of_nonneg_right (by omega) hq
    omega
  have hqq : y / P ≥ 1 → 2 * (y / P) ≤ P * (y / P) ∨ P = 1 := by
    intro _
    by_cases hp1 : P = 1
    · right; exact hp1
    · left; exact Int.mul_le_mul_of_nonneg_right (by omega) hq
  have hq0 : y / P = 0 → P * (y / P) = 0 := by intro h; rw [h]; omega
  generalize y % P = r at *
  generalize y / P = q at *
  generalize P * q = Pq at *
  have hx : ¬ y < 0 := by omega
  simp only [hx, if_false]
  split
  · constructor
    · omega
    · by_cases hq1 : q ≥ 1
      · rcases hqq hq1 with h | h <;> omega
      · have : q = 0 := by omega
        have := hq0 this
        omega
  · split <;> constructor <;> omega

theorem rdivpot_contract_neg (y : Int) (e : Nat) (hy : y ≤ 0) : y ≤ rdivpot y e ∧ rdivpot y e ≤ 0 := by
  rw [rdivpot_cases]
  simp only []
  have hpos := two_pow_pos e
  generalize hP : (2 : Int) ^ e = P at *
  have hr0 : 0 ≤ y % P := Int.emod_nonneg y (by omega)
  have hr1 : y % P < P := Int.emod_lt_of_pos y hpos
  have hd : P * (y / P) + y % P = y := Int.mul_ediv_add_emod y P
  have hq : y / P ≤ 0 := by
    by_cases h : y / P ≤ 0
    · exact h
    · exfalso
      have h' : 1 ≤ y / P := by omega
      have : P * 1 ≤ P * (y / P) := Int.mul_le_mul_of_nonneg_left h' (by omega)
      omega
  have hqy : y / P < 0 → (P - 1) * (-(y / P)) ≥ P - 1 := by
    intro h
    have : (P - 1) * 1 ≤ (P - 1) * (-(y / P)) := Int.mul_le_mul_of_nonneg_left (by omega) (by omega)
    omega
  have hexp : (P - 1) * (-(y / P)) = y / P - P * (y / P) := by
    rw [Int.sub_mul, Int.mul_neg, Int.mul_neg]; omega
  have hq0 : y / P = 0 → P * (y / P) = 0 := by intro h; rw [h]; omega
  generalize y % P = r at *
  generalize y / P = q at *
  generalize P * q = Pq at *
  generalize (P - 1) * (-q) = Z at *
  by_cases hq1 : q < 0
  · have := hqy hq1
    split
    · constructor <;> omega
    · split
      · split <;> constructor <;> omega
      · constructor <;> omega
  · have hqz : q = 0 := by omega
    have := hq0 hqz
    have hy0 : y = 0 := by omega
    subst hy0
    split
    · omega
    · split
      · omega
      · constructor <;> omega

theorem mbqm_contract_nonneg (x m s : Int) (hx : 0 ≤ x) (hm0 : 0 ≤ m) (hm : m < 2147483648) (hs : s ≤ 0) :
    0 ≤ mbqm x m s ∧ mbqm x m s ≤ x := by
  unfold mbqm
  have h1 : ¬ s > 0 := by omega
  simp only [h1, if_false, Int.pow_zero, Int.mul_one]
  have a := srdhm_contract_nonneg x m hx hm0 hm
  have b := rdivpot_contract_nonneg (srdhm x m) (-s).toNat a.1
  omega

theorem mbqm_contract_neg (x m s : Int) (hx : x ≤ 0) (hm0 : 0 ≤ m) (hm : m < 2147483648) (hs : s ≤ 0) :
    x ≤ mbqm x m s ∧ mbqm x m s ≤ 0 := by
  unfold mbqm
  have h1 : ¬ s > 0 := by omega
  simp only [h1, if_false, Int.pow_zero, Int.mul_one]
  have a := srdhm_contract_neg x m hx hm0 hm
  have b := rdivpot_contract_neg (srdhm x m) (-s).toNat a.2
  omega

theorem mbqm_identity (x : Int) : mbqm x 1073741824 1 = x := by
  unfold mbqm
  simp only [show (1 : Int) > 0 by omega, if_true]
  have hns : ¬ (x * (2 : Int) ^ (1 : Int).toNat = INT32_MIN ∧ (1073741824 : Int) = INT32_MIN) := by
    intro h; have := h.2; simp [INT32_MIN] at this
  rw [srdhm_floor _ _ hns, rdivpot_cases]
  simp only [Int.pow_zero, Int.emod_one, Int.ediv_one]
  have : (1 : Int).toNat = 1 := rfl
  rw [this]
  have : x * (2 : Int) ^ 1 * 1073741824 = x * 2147483648 := by
    rw [Int.pow_one, Int.mul_assoc]; rfl
  rw [this]
  have h0 : (x * 2147483648 + 1073741824) / 2147483648 = x := by omega
  rw [h0]
  simp

theorem rdivpot_mono (y1 y2 : Int) (e : Nat) (h : y1 ≤ y2) : rdivpot y1 e ≤ rdivpot y2 e := by
  rw [rdivpot_cases, rdivpot_cases]
  simp only []
  have hpos := two_pow_pos e
  generalize hP : (2 : Int) ^ e = P at *
  have hq : y1 / P ≤ y2 / P := Int.ediv_le_ediv hpos h
  have a0 : 0 ≤ y1 % P := Int.emod_nonneg y1 (by omega)
  have a1 : y1 % P < P := Int.emod_lt_of_pos y1 hpos
  have b0 : 0 ≤ y2 % P := Int.emod_nonneg y2 (by omega)
  have b1 : y2 % P < P := Int.emod_lt_of_pos y2 hpos
  have d1 : P * (y1 / P) + y1 % P = y1 := Int.mul_ediv_add_emod y1 P
  have d2 : P * (y2 / P) + y2 % P = y2 := Int.mul_ediv_add_emod y2 P
  by_cases heq : y1 / P = y2 / P
  · rw [heq] at d1 ⊢
    have n1 : y2 / P ≥ 0 → P * (y2 / P) ≥ 0 := fun hh => Int.mul_nonneg (by omega) hh
    have n2 : y2 / P ≤ -1 → P * (y2 / P) ≤ -P := by
      intro hh
      have : P * (y2 / P) ≤ P * (-1) := Int.mul_le_mul_of_nonneg_left hh (by omega)
      omega
    generalize y1 % P = r1 at *
    generalize y2 % P = r2 at *
    generalize y2 / P = q at *
    generalize P * q = Pq at *
    by_cases hq0 : q ≥ 0
    · have := n1 hq0
      split <;> split <;> (try split) <;> (try split) <;> (try split) <;> omega
    · have := n2 (by omega)
      split <;> split <;> (try split) <;> (try split) <;> (try split) <;> omega
  · have hlt : y1 / P + 1 ≤ y2 / P := by omega
    generalize y1 % P = r1 at *
    generalize y2 % P = r2 at *
    generalize y1 / P = q1 at *
    generalize y2 / P = q2 at *
    split <;> split <;> (try split) <;> (try split) <;> (try split) <;> omega

theorem rdivpot_mul_pow (d : Int) (e : Nat) : rdivpot (d * (2 : Int) ^ e) e = d := by
  rw [rdivpot_cases]
  simp only []
  have hpos := two_pow_pos e
  generalize hP : (2 : Int) ^ e = P at *
  have h1 : d * P % P = 0 := Int.mul_emod_left d P
  have h2 : d * P / P = d := Int.mul_ediv_cancel d (by omega)
  rw [h1, h2]
  split
  · omega
  · split
    · omega
    · rfl

theorem mbqm_scaled_nonneg (a d m s : Int) (ha : 0 ≤ a) (hd : 0 ≤ d) (hm0 : 0 ≤ m) (hs : s ≤ 0)
    (hreal : a * m ≤ 2147483648 * (2 : Int) ^ (-s).toNat) :
    0 ≤ mbqm (a * d) m s ∧ mbqm (a * d) m s ≤ d := by
  unfold mbqm
  have h1 : ¬ s > 0 := by omega
  simp only [h1, if_false, Int.pow_zero, Int.mul_one]
  have hns : ¬ (a * d = INT32_MIN ∧ m = INT32_MIN) := by
    intro h; have := h.2; simp [INT32_MIN] at this; omega
  have hpos := two_pow_pos (-s).toNat
  generalize hP : (2 : Int) ^ (-s).toNat = P at *
  have hy : 0 ≤ srdhm (a * d) m ∧ srdhm (a * d) m ≤ d * P := by
    rw [srdhm_floor _ _ hns]
    have e1 : a * d * m = d * (a * m) := by
      rw [Int.mul_comm a d, Int.mul_assoc]
    have e2 : d * (a * m) ≤ d * (2147483648 * P) := Int.mul_le_mul_of_nonneg_left hreal hd
    have e3 : 0 ≤ d * (a * m) := Int.mul_nonneg hd (Int.mul_nonneg ha hm0)
    have e4 : d * (2147483648 * P) = (d * P) * 2147483648 := by
      rw [Int.mul_comm 2147483648 P, Int.mul_assoc]
    rw [e1]
    generalize d * (a * m) = z at *
    generalize d * P = w at *
    constructor <;> omega
  have b := rdivpot_contract_nonneg (srdhm (a * d) m) (-s).toNat hy.1
  have c := rdivpot_mono _ _ (-s).toNat hy.2
  rw [← hP, rdivpot_mul_pow] at c
  omega

theorem mbqm_scaled_neg (a d m s : Int) (ha : 0 ≤ a) (hd : d ≤ 0) (hm0 : 0 ≤ m) (hs : s ≤ 0)
    (hreal : a * m ≤ 2147483648 * (2 : Int) ^ (-s).toNat) :
    d ≤ mbqm (a * d) m s ∧ mbqm (a * d) m s ≤ 0 := by
  unfold mbqm
  have h1 : ¬ s > 0 := by omega
  simp only [h1, if_false, Int.pow_zero, Int.mul_one]
  have hns : ¬ (a * d = INT32_MIN ∧ m = INT32_MIN) := by
    intro h; have := h.2; simp [INT32_MIN] at this; omega
  have hpos := two_pow_pos (-s).toNat
  generalize hP : (2 : Int) ^ (-s).toNat = P at *
  have hy : d * P ≤ srdhm (a * d) m ∧ srdhm (a * d) m ≤ 0 := by
    rw [srdhm_floor _ _ hns]
    have e1 : a * d * m = d * (a * m) := by
      rw [Int.mul_comm a d, Int.mul_assoc]
    have e2 : d * (2147483648 * P) ≤ d * (a * m) := Int.mul_le_mul_of_nonpos_left hd hreal
    have e3 : d * (a * m) ≤ 0 := Int.mul_nonpos_of_nonpos_of_nonneg hd (Int.mul_nonneg ha hm0)
    have e4 : d * (2147483648 * P) = (d * P) * 2147483648 := by
      rw [Int.mul_comm 2147483648 P, Int.mul_assoc]
    rw [e1]
    generalize d * (a * m) = z at *
    generalize d * P = w at *
    constructor <;> omega
  have b := rdivpot_contract_neg (srdhm (a * d) m) (-s).toNat hy.2
  have c := rdivpot_mono _ _ (-s).toNat hy.1
  rw [← hP, rdivpot_mul_pow] at c
  omega

/-! ## Monotonicity of the requantisation in the multiplier -/

/-- `RoundingDivideByPOT` of a non-negative value in closed form -/
theorem rdivpot_nonneg_closed (y : Int) (e : Nat) (hy : 0 ≤ y) : rdivpot y e = (2 * y + (2 : Int) ^ e) / (2 * (2 : Int) ^ e) := by
  rw [rdivpot_cases]
  simp only []
  have hpos := two_pow_pos e
  generalize hP : (2 : Int) ^ e = P at *
  have hr0 : 0 ≤ y % P := Int.emod_nonneg y (by omega)
  have hr1 : y % P < P := Int.emod_lt_of_pos y hpos
  have hd : P * (y / P) + y % P = y := Int.mul_ediv_add_emod y P
  -- (2y + P) / (2P) = q + (2r + P) / (2P), with 0 ≤ 2r + P < 3P
  have key : (2 * y + P) / (2 * P) = y / P + (2 * (y % P) + P) / (2 * P) := by
    have : 2 * y + P = (2 * (y % P) + P) + (2 * P) * (y / P) := by
      have h2 : 2 * (P * (y / P)) = 2 * P * (y / P) := by rw [Int.mul_assoc]
      omega
    rw [this, Int.add_mul_ediv_left _ _ (by omega : (2 * P) ≠ 0)]
    omega
  rw [key]
  have hx : ¬ y < 0 := by omega
  generalize y % P = r at *
  generalize y / P = q at *
  have ht0 : 0 ≤ (2 * r + P) / (2 * P) := Int.ediv_nonneg (by omega) (by omega)
  have ht2 : (2 * r + P) / (2 * P) < 2 := Int.ediv_lt_of_lt_mul (by omega) (by omega)
  have hm0 : 0 ≤ (2 * r + P) % (2 * P) := Int.emod_nonneg _ (by omega)
  have hm1 : (2 * r + P) % (2 * P) < 2 * P := Int.emod_lt_of_pos _ (by omega)
  have hdm : (2 * P) * ((2 * r + P) / (2 * P)) + (2 * r + P) % (2 * P) = 2 * r + P := Int.mul_ediv_add_emod _ _
  generalize (2 * r + P) % (2 * P) = rr at *
  have ht : (2 * r + P) / (2 * P) = 0 ∨ (2 * r + P) / (2 * P) = 1 := by omega
  rcases ht with h | h
  · rw [h] at hdm ⊢
    simp only [Int.mul_zero] at hdm
    split
    · omega
    · split <;> omega
  · rw [h] at hdm ⊢
    simp only [Int.mul_one] at hdm
    split
    · omega
    · split
      · first | rfl | (split <;> omega)
      · omega

/-- `SaturatingRoundingDoublingHighMul` is monotone in the multiplier for a non-negative operand -/
theorem srdhm_mono_m (x m1 m2 : Int) (hx : 0 ≤ x) (_h0 : 0 ≤ m1) (h : m1 ≤ m2) : srdhm x m1 ≤ srdhm x m2 := by
  have n1 : ¬ (x = INT32_MIN ∧ m1 = INT32_MIN) := by intro c; have := c.2; simp [INT32_MIN] at this; omega
  have n2 : ¬ (x = INT32_MIN ∧ m2 = INT32_MIN) := by intro c; have := c.2; simp [INT32_MIN] at this; omega
  rw [srdhm_floor x m1 n1, srdhm_floor x m2 n2]
  apply Int.ediv_le_ediv (by decide)
  have := Int.mul_le_mul_of_nonneg_left h hx
  omega

/-- Lemma A: same shift, larger multiplier -/
theorem mbqm_mono_m (x m1 m2 s : Int) (hx : 0 ≤ x) (h0 : 0 ≤ m1) (h : m1 ≤ m2) : mbqm x m1 s ≤ mbqm x m2 s := by
  unfold mbqm
  apply rdivpot_mono
  apply srdhm_mono_m _ _ _ _ h0 h
  exact Int.mul_nonneg hx (Int.le_of_lt (two_pow_pos _))

theorem srdhm_pow30 (y : Int) : srdhm y 1073741824 = (y + 1) / 2 := by
  have n : ¬ (y = INT32_MIN ∧ (1073741824 : Int) = INT32_MIN) := by intro c; have := c.2; simp [INT32_MIN] at this
  rw [srdhm_floor y _ n]
  omega

/-- Lemma B: one more bit of shift with the smallest normalised multiplier is at least as large -/
theorem mbqm_shift_step (x m s : Int) (hx : 0 ≤ x) (hm0 : 0 ≤ m) (hm : m < 2147483648) :
    mbqm x m s ≤ mbqm x 1073741824 (s + 1) := by
  by_cases hs : s ≥ 0
  · -- left shifts: srdhm (x * 2^s) m ≤ x * 2^s = srdhm (x * 2^(s+1)) 2^30
    unfold mbqm
    have h1 : s + 1 > 0 := by omega
    simp only [h1, if_true]
    have hl : (if s > 0 then s.toNat else 0) = s.toNat := by
      by_cases h : s > 0
      · simp [h]
      · have : s = 0 := by omega
        subst this; simp
    have hr : (if s > 0 then 0 else (-s).toNat) = 0 := by
      by_cases h : s > 0
      · simp [h]
      · have : s = 0 := by omega
        subst this; simp
    rw [hl, hr]
    have e1 : ∀ z : Int, rdivpot z 0 = z := by
      intro z
      rw [rdivpot_cases]
      simp only [Int.pow_zero, Int.emod_one, Int.ediv_one]
      simp
    rw [e1, e1, srdhm_pow30]
    have hp : (2 : Int) ^ (s + 1).toNat = 2 * (2 : Int) ^ s.toNat := by
      have : (s + 1).toNat = s.toNat + 1 := by omega
      rw [this, two_pow_succ]
    rw [hp]
    have hpos := two_pow_pos s.toNat
    have hxp : 0 ≤ x * (2 : Int) ^ s.toNat := Int.mul_nonneg hx (Int.le_of_lt hpos)
    have c := (srdhm_contract_nonneg (x * (2 : Int) ^ s.toNat) m hxp hm0 hm).2
    have : x * (2 * (2 : Int) ^ s.toNat) = 2 * (x * (2 : Int) ^ s.toNat) := by
      rw [Int.mul_comm 2, ← Int.mul_assoc, Int.mul_comm _ 2]
    rw [this]
    omega
  · -- right shifts
    unfold mbqm
    have h0 : ¬ s > 0 := by omega
    have h1 : ¬ s + 1 > 0 := by omega
    simp only [h0, h1, if_false, Int.pow_zero, Int.mul_one]
    have he : (-s).toNat = (-(s + 1)).toNat + 1 := by omega
    rw [he]
    generalize (-(s + 1)).toNat = e
    have c := srdhm_contract_nonneg x m hx hm0 hm
    have step1 := rdivpot_mono (srdhm x m) x (e + 1) c.2
    refine Int.le_trans step1 ?_
    rw [srdhm_pow30]
    have hh : 0 ≤ (x + 1) / 2 := by omega
    rw [rdivpot_nonneg_closed x (e + 1) hx, rdivpot_nonneg_closed ((x + 1) / 2) e hh, two_pow_succ]
    have hpos := two_pow_pos e
    generalize (2 : Int) ^ e = P at *
    -- (2x + 2P) / (4P) = (x + P) / (2P) ≤ (2 * ((x+1)/2) + P) / (2P)
    have e2 : (2 * x + 2 * P) / (2 * (2 * P)) = (x + P) / (2 * P) := by
      have : 2 * x + 2 * P = 2 * (x + P) := by omega
      rw [this, Int.mul_ediv_mul_of_pos _ _ (by decide : (0 : Int) < 2)]
    rw [e2]
    apply Int.ediv_le_ediv (by omega)
    omega


/-- Lemma C: with the multiplier 2^30 a larger shift gives a larger (or equal) result -/
theorem mbqm_pow30_mono_shift (x : Int) (hx : 0 ≤ x) (s : Int) (k : Nat) :
    mbqm x 1073741824 s ≤ mbqm x 1073741824 (s + k) := by
  induction k with
  | zero => simp
  | succ j ih =>
    have step := mbqm_shift_step x 1073741824 (s + j) hx (by decide) (by decide)
    have e : s + ((j + 1 : Nat) : Int) = s + j + 1 := by omega
    rw [e]
    exact Int.le_trans ih step


/-! ## Activation ranges -/

theorem isect_nonempty_left (p c : ActRange Int) (h : ActRange.nonempty (isectStep (some p) c)) :
    ActRange.nonempty p ∧ ActRange.nonempty c := by
  obtain ⟨pl, ph⟩ := p
  obtain ⟨cl, ch⟩ := c
  cases pl <;> cases ph <;> cases cl <;> cases ch <;>
    simp only [isectStep, isectLo, isectHi, ActRange.nonempty] at h ⊢ <;> (try trivial) <;> (try omega) <;> (try (constructor <;> (try trivial) <;> omega))

theorem clamp_clamp (p c : ActRange Int) (h : ActRange.nonempty (isectStep (some p) c)) (x : Int) :
    clampO c (clampO p x) = clampO (isectStep (some p) c) x := by
  obtain ⟨pl, ph⟩ := p
  obtain ⟨cl, ch⟩ := c
  cases pl <;> cases ph <;> cases cl <;> cases ch <;>
    simp only [isectStep, isectLo, isectHi, ActRange.nonempty, clampO] at h ⊢ <;>
    (repeat' split) <;> omega

def finalNonempty (r : Option (ActRange Int)) : Prop :=
  match r with | none => True | some r => ActRange.nonempty r

instance (r : Option (ActRange Int)) : Decidable (finalNonempty r) := by
  unfold finalNonempty; cases r <;> infer_instance

theorem passActivation_cons (fused : Option (ActRange Int)) (r : ActRange Int) (rest : List (ActRange Int)) :
    passActivation fused (r :: rest) = passActivation (some (isectStep fused r)) rest := by
  simp [passActivation, List.foldl]

theorem acc_nonempty_of_final (rest : List (ActRange Int)) :
    ∀ acc : ActRange Int, finalNonempty (passActivation (some acc) rest) → ActRange.nonempty acc := by
  induction rest with
  | nil => intro acc h; simpa [passActivation, finalNonempty] using h
  | cons r rest ih =>
    intro acc h
    rw [passActivation_cons] at h
    exact (isect_nonempty_left acc r (ih _ h)).1

theorem pass_activation_seq (ops : List (ActRange Int)) :
    ∀ (fused : Option (ActRange Int)) (x : Int), finalNonempty (passActivation fused ops) →
      clampSeq ops (clampOpt fused x) = clampOpt (passActivation fused ops) x := by
  induction ops with
  | nil => intro fused x _; simp [clampSeq, passActivation]
  | cons r rest ih =>
    intro fused x h
    rw [passActivation_cons] at h ⊢
    have hstep : clampO r (clampOpt fused x) = clampOpt (some (isectStep fused r)) x := by
      cases fused with
      | none => simp [clampOpt, isectStep]
      | some p =>
        simp only [clampOpt]
        exact clamp_clamp p r (acc_nonempty_of_final rest _ h) x
    have := ih (some (isectStep fused r)) x h
    rw [← this, ← hstep]
    simp [clampSeq, List.foldl]

/-! ## Sums and counts over ranges (pooling) -/

/-- number of indices below `n` satisfying `p` -/
def countRange : Nat → (Nat → Bool) → Nat
  | 0, _ => 0
  | n + 1, p => countRange n p + (if p n then 1 else 0)

theorem foldl_range_pair (n : Nat) (p : Nat → Prop) [inst : ∀ k, Decidable (p k)] (v : Nat → Int) (acc : Int × Nat) :
    (List.range n).foldl (fun (acc : Int × Nat) k => if p k then (acc.1 + v k, acc.2 + 1) else acc) acc =
      (acc.1 + sumRange n (fun k => if p k then v k else 0), acc.2 + countRange n (fun k => decide (p k))) := by
  induction n with
  | zero => simp [sumRange, countRange]
  | succ k ih =>
    rw [List.range_succ, List.foldl_append, ih]
    simp only [List.foldl, sumRange, countRange]
    by_cases h : p k
    · simp only [h, if_true, decide_true]
      ext <;> simp <;> omega
    · simp only [h, if_false, decide_false]
      ext <;> simp

theorem foldl_range_acc (n : Nat) (f : Nat → Int) (g : Nat → Nat) (acc : Int × Nat) :
    (List.range n).foldl (fun (acc : Int × Nat) k => (acc.1 + f k, acc.2 + g k)) acc =
      (acc.1 + sumRange n f, acc.2 + (List.range n).foldl (fun a k => a + g k) 0) := by
  induction n with
  | zero => simp [sumRange]
  | succ k ih =>
    rw [List.range_succ, List.foldl_append, ih, List.foldl_append]
    simp only [List.foldl, sumRange]
    ext <;> simp <;> omega

/-- closed form of the reference pooling sum and count -/
theorem poolSumCount_eq (H W : Nat) (ifm : Nat → Nat → Int) (fh fw sh sw pt pl oy ox : Nat) :
    poolSumCount H W ifm fh fw sh sw pt pl oy ox =
      (sumRange fh fun ky => sumRange fw fun kx =>
          if 0 ≤ ((oy * sh + ky : Nat) : Int) - (pt : Int) ∧ ((oy * sh + ky : Nat) : Int) - (pt : Int) < (H : Int) ∧
             0 ≤ ((ox * sw + kx : Nat) : Int) - (pl : Int) ∧ ((ox * sw + kx : Nat) : Int) - (pl : Int) < (W : Int)
          then ifm (((oy * sh + ky : Nat) : Int) - (pt : Int)).toNat (((ox * sw + kx : Nat) : Int) - (pl : Int)).toNat else 0,
       (List.range fh).foldl (fun a ky => a + countRange fw fun kx =>
          decide (0 ≤ ((oy * sh + ky : Nat) : Int) - (pt : Int) ∧ ((oy * sh + ky : Nat) : Int) - (pt : Int) < (H : Int) ∧
             0 ≤ ((ox * sw + kx : Nat) : Int) - (pl : Int) ∧ ((ox * sw + kx : Nat) : Int) - (pl : Int) < (W : Int))) 0) := by
  unfold poolSumCount
  simp only []
  have inner : ∀ ky (acc : Int × Nat), (List.range fw).foldl (fun (acc : Int × Nat) kx =>
      if 0 ≤ ((oy * sh + ky : Nat) : Int) - (pt : Int) ∧ ((oy * sh + ky : Nat) : Int) - (pt : Int) < (H : Int) ∧
             0 ≤ ((ox * sw + kx : Nat) : Int) - (pl : Int) ∧ ((ox * sw + kx : Nat) : Int) - (pl : Int) < (W : Int)
      then (acc.1 + ifm (((oy * sh + ky : Nat) : Int) - (pt : Int)).toNat (((ox * sw + kx : Nat) : Int) - (pl : Int)).toNat, acc.2 + 1) else acc) acc = _ :=
    fun ky acc => foldl_range_pair fw _ _ acc
  simp only [inner]
  rw [foldl_range_acc]
  simp

theorem sumRange_add (n : Nat) (f g : Nat → Int) : sumRange n (fun k => f k + g k) = sumRange n f + sumRange n g := by
  induction n with
  | zero => rfl
  | succ k ih => simp only [sumRange, ih]; omega

theorem sumRange_const (n : Nat) (c : Int) : sumRange n (fun _ => c) = c * n := by
  induction n with
  | zero => simp [sumRange]
  | succ k ih =>
    simp only [sumRange, ih]
    rw [Int.natCast_succ, Int.mul_add, Int.mul_one]

theorem countRange_true (n : Nat) (p : Nat → Bool) (h : ∀ k, k < n → p k = true) : countRange n p = n := by
  induction n with
  | zero => rfl
  | succ k ih =>
    simp only [countRange, h k (Nat.lt_succ_self k), if_true]
    rw [ih (fun j hj => h j (Nat.lt_succ_of_lt hj))]

theorem foldl_add_const (n c : Nat) (g : Nat → Nat) (h : ∀ k, k < n → g k = c) :
    (List.range n).foldl (fun a k => a + g k) 0 = n * c := by
  induction n with
  | zero => simp
  | succ k ih =>
    rw [List.range_succ, List.foldl_append, ih (fun j hj => h j (Nat.lt_succ_of_lt hj))]
    simp only [List.foldl, h k (Nat.lt_succ_self k)]
    rw [Nat.succ_mul]


/-! ## Concatenation offsets -/

theorem concatOffsets_aux (sizes : List Nat) : ∀ (pre : List Nat) (base : Nat),
    sizes.foldl (fun (acc : List Nat × Nat) d => (acc.1 ++ [acc.2], acc.2 + d)) (pre, base) =
      (pre ++ offsFrom base sizes, base + sumL sizes) := by
  induction sizes with
  | nil => intro pre base; simp [offsFrom, sumL]
  | cons d ds ih =>
    intro pre base
    simp only [List.foldl, ih, offsFrom, sumL]
    have h : ∀ (l : List Nat) (a : Nat), l.foldl (· + ·) a = a + l.foldl (· + ·) 0 := by
      intro l
      induction l with
      | nil => intro a; simp
      | cons x xs ihx => intro a; simp only [List.foldl]; rw [ihx (a + x), ihx (0 + x)]; omega
    rw [h ds (0 + d)]
    simp only [List.append_assoc, List.singleton_append, Nat.zero_add]
    congr 1
    omega

theorem concatOffsets_eq (sizes : List Nat) : concatOffsets sizes = (offsFrom 0 sizes, sumL sizes) := by
  unfold concatOffsets
  rw [concatOffsets_aux]
  simp

theorem sumL_cons (d : Nat) (ds : List Nat) : sumL (d :: ds) = d + sumL ds := by
  unfold sumL
  simp only [List.foldl]
  have h : ∀ (l : List Nat) (a : Nat), l.foldl (· + ·) a = a + l.foldl (· + ·) 0 := by
    intro l
    induction l with
    | nil => intro a; simp
    | cons x xs ihx => intro a; simp only [List.foldl]; rw [ihx (a + x), ihx (0 + x)]; omega
  rw [h ds (0 + d)]; omega

/-- positions below `base` are untouched by the copies of `offsFrom base` -/
theorem writtenFrom_below (ds : List Nat) : ∀ (k base a : Nat) (acc : Option (Nat × Nat)), a < base →
    writtenFrom k (ds.zip (offsFrom base ds)) a acc = acc := by
  induction ds with
  | nil => intro k base a acc _; simp [offsFrom, writtenFrom]
  | cons d ds ih =>
    intro k base a acc h
    simp only [offsFrom, List.zip_cons_cons, writtenFrom]
    have : ¬ (base ≤ a ∧ a < base + d) := by omega
    rw [if_neg this]
    exact ih (k + 1) (base + d) a acc (by omega)

theorem written_eq_locate (ds : List Nat) : ∀ (k base a : Nat) (acc : Option (Nat × Nat)), base ≤ a → a < base + sumL ds →
    writtenFrom k (ds.zip (offsFrom base ds)) a acc = (locate ds (a - base)).map fun (i, j) => (i + k, j) := by
  induction ds with
  | nil => intro k base a acc h1 h2; simp [sumL] at h2; omega
  | cons d ds ih =>
    intro k base a acc h1 h2
    rw [sumL_cons] at h2
    simp only [offsFrom, List.zip_cons_cons, writtenFrom, locate]
    by_cases hin : a < base + d
    · have c : base ≤ a ∧ a < base + d := ⟨h1, hin⟩
      have c2 : a - base < d := by omega
      rw [if_pos c, if_pos c2, writtenFrom_below ds (k + 1) (base + d) a _ hin]
      simp
    · have c : ¬ (base ≤ a ∧ a < base + d) := by omega
      have c2 : ¬ (a - base < d) := by omega
      rw [if_neg c, if_neg c2, ih (k + 1) (base + d) a acc (by omega) (by omega)]
      have e : a - (base + d) = a - base - d := by omega
      rw [e]
      cases locate ds (a - base - d) with
      | none => rfl
      | some p => simp [Nat.add_assoc, Nat.add_comm 1 k]

theorem writers_below (ds : List Nat) : ∀ (base a : Nat), a < base → writers (ds.zip (offsFrom base ds)) a = 0 := by
  induction ds with
  | nil => intro base a _; simp [offsFrom, writers]
  | cons d ds ih =>
    intro base a h
    simp only [offsFrom, List.zip_cons_cons, writers]
    have : ¬ (base ≤ a ∧ a < base + d) := by omega
    rw [if_neg this, ih (base + d) a (by omega)]

theorem writers_once (ds : List Nat) : ∀ (base a : Nat), base ≤ a → a < base + sumL ds → writers (ds.zip (offsFrom base ds)) a = 1 := by
  induction ds with
  | nil => intro base a h1 h2; simp [sumL] at h2; omega
  | cons d ds ih =>
    intro base a h1 h2
    rw [sumL_cons] at h2
    simp only [offsFrom, List.zip_cons_cons, writers]
    by_cases hin : a < base + d
    · rw [if_pos ⟨h1, hin⟩, writers_below ds (base + d) a hin]
    · have c : ¬ (base ≤ a ∧ a < base + d) := by omega
      rw [if_neg c, ih (base + d) a (by omega) (by omega)]

end VelaVerif.Lemmas.Rewrites
