import VelaVerif.Lemmas.PyRt
import VelaVerif.Lemmas.WeightLayout
import VelaVerif.Gen.SrcWeightCompressor
/-!
# The translated `weight_compressor.encode_bias` in closed form

`bias` is an `np.int64` (the function asserts it), `scale` / `shift` Python ints.  `bias >> 8k` stays an `np.int64`,
`& 0xFF` converts the Python int 255 to `np.int64` and gives `x mod 256` (`iand_mask`), the `bytearray` store accepts
it because it is in `range(0, 256)`.
-/
namespace VelaVerif.SrcWeightCompressor
open VelaVerif VelaVerif.PyRt VelaVerif.WeightLayout
open VelaVerif.Gen.SrcWeightCompressor

theorem isinst_mk (s t : Ty) (x : Int) : Num.isinst ⟨s, x⟩ t = (s == t) := rfl

theorem iand_255 (x : Int) : iand x 255 = x % 256 := by
  have h := iand_mask x 8
  simpa using h

theorem iand_63 (x : Int) : iand x 63 = x % 64 := by
  have h := iand_mask x 6
  simpa using h

theorem pySetByte_mk (l : List Num) (i : Num) (t : Ty) (x : Int) (h : 0 ≤ x ∧ x < 256) :
    pySetByte l i ⟨t, x⟩ = pySetItem l i (Num.py x) := by
  simp only [pySetByte, h, and_self, if_true]

theorem byteOf_cast (x : Int) (k : Nat) : ((byteOf x k : Nat) : Int) = x / 256 ^ k % 256 := by
  unfold byteOf
  have : 0 ≤ x / 256 ^ k % 256 := Int.emod_nonneg _ (by decide)
  omega

/-- in range: the ten bytes of the model's record, as Python ints -/
theorem encode_bias_ok (bias scale shift : Int) (h : InRange bias scale shift) :
    encode_bias ⟨.i64, bias⟩ (.py scale) (.py shift) =
      .ok ((recordBytes bias scale shift).map fun (b : Nat) => Num.py (b : Int)) := by
  obtain ⟨⟨hb1, hb2⟩, ⟨hs1, hs2⟩, hh1, hh2⟩ := h
  have hb1' : (-549755813888 : Int) ≤ bias := by omega
  have hb2' : bias < (549755813888 : Int) := by omega
  have hs2' : scale < (4294967296 : Int) := by omega
  have hsh : ((shift % 64).toNat : Int) = shift % 64 := by omega
  simp only [recordBytes, List.map, byteOf_cast, hsh, Int.reducePow, Int.ediv_one]
  py_exec [encode_bias, isinst_mk, pyByteArray, iand_255, iand_63, pySetByte_mk, pySetItem, List.length_replicate,
    List.length_set, List.length_cons, List.length_nil, Nat.reduceLT, List.replicate, List.set, Int.ediv_one,
    hb1', hb2', hs1, hs2', hh1, hh2]

/-- out of range: one of the three range asserts fails -/
theorem encode_bias_err (bias scale shift : Int) (h : ¬ InRange bias scale shift) :
    encode_bias ⟨.i64, bias⟩ (.py scale) (.py shift) = .error .assert_ := by
  by_cases c1 : (-549755813888 : Int) ≤ bias ∧ bias < 549755813888
  · by_cases c2 : (0 : Int) ≤ scale ∧ scale < 4294967296
    · by_cases c3 : (0 : Int) ≤ shift ∧ shift < 64
      · exfalso; apply h; unfold InRange; omega
      · py_exec [encode_bias, isinst_mk, c1, c2, c3]
    · py_exec [encode_bias, isinst_mk, c1, c2]
  · py_exec [encode_bias, isinst_mk, c1]

/-- a Python-int `bias` fails the first `isinstance` assert -/
theorem encode_bias_py_bias (bias scale shift : Int) :
    encode_bias (.py bias) (.py scale) (.py shift) = .error .assert_ := by
  py_exec [encode_bias, isinst_mk]

end VelaVerif.SrcWeightCompressor
