import VelaVerif.Spec.Constraints
/-! Helper lemmas for Props/C16.lean: what the list walk of the two checkers returns. -/
namespace VelaVerif.Constraints
open VelaVerif.Gen.Constraints

theorem walk_npu_iff (tbl : List (Name × (Params → OpDesc → R))) (P : Params) (d : OpDesc) (cs : List Name) :
    walk tbl P d cs = .npu ↔ ∀ c ∈ cs, evalIn tbl P c d = .ok true := by
  induction cs with
  | nil => simp [walk]
  | cons c cs ih =>
    simp only [walk, List.mem_cons, forall_eq_or_imp]
    cases h : evalIn tbl P c d with
    | error e => simp
    | ok b => cases b <;> simp [ih]

/-- a `cpu c` verdict names a listed constraint that is false while every earlier one holds -/
theorem walk_cpu (tbl : List (Name × (Params → OpDesc → R))) (P : Params) (d : OpDesc) (cs : List Name) (c : Name)
    (h : walk tbl P d cs = .cpu c) :
    ∃ pre post, cs = pre ++ c :: post ∧ evalIn tbl P c d = .ok false ∧ ∀ x ∈ pre, evalIn tbl P x d = .ok true := by
  induction cs with
  | nil => simp [walk] at h
  | cons x xs ih =>
    simp only [walk] at h
    cases hx : evalIn tbl P x d with
    | error e => simp [hx] at h
    | ok b =>
      cases b with
      | false =>
        simp [hx] at h
        subst h
        exact ⟨[], xs, rfl, hx, by simp⟩
      | true =>
        simp [hx] at h
        obtain ⟨pre, post, e, hc, hp⟩ := ih h
        refine ⟨x :: pre, post, by simp [e], hc, ?_⟩
        intro y hy
        rcases List.mem_cons.mp hy with rfl | hy
        · exact hx
        · exact hp y hy

theorem mem_listedWith (generic : List Name) (exceptions specific : List (Name × List Name)) (ty c : Name) :
    c ∈ listedWith generic exceptions specific ty ↔
      (c ∈ generic ∧ (lookup exceptions ty).contains c = false) ∨ c ∈ lookup specific ty := by
  simp [listedWith, List.mem_append, List.mem_filter]

end VelaVerif.Constraints
