import VelaVerif.Spec.MlwPlan
import VelaVerif.Lemmas.MlwEncStream
import VelaVerif.Lemmas.MlwSpec
/-! The executable `planOk` implies the propositional conditions the round-trip lemmas use (C07). -/
namespace VelaVerif.MlwPlan
open VelaVerif.Mlw VelaVerif.MlwEnc List

theorem palOk_sound {p : PalPlan} (h : palOk p = true) : PalOk p := by
  unfold palOk at h
  simp only [Bool.and_eq_true, Bool.or_eq_true, decide_eq_true_eq, beq_iff_eq, all_eq_true] at h
  obtain ⟨⟨⟨⟨h1, h2⟩, h3⟩, h4⟩, h5⟩ := h
  exact ⟨h1, h2, ⟨h3, h4⟩, h5⟩

theorem idxOk_sound {p : PalPlan} {w : Int} (h : idxOk p w = true) : IdxOk p w := by
  unfold idxOk at h
  intro hn
  rw [hn] at h
  simpa using h

theorem sliceOk_sound {p : PalPlan} {newPal : Bool} {wv zv : List Nat} {g : GrcCfg}
    (h : sliceOk p newPal wv zv g = true) : SliceOk p newPal wv zv g := by
  unfold sliceOk at h
  simp only [Bool.and_eq_true, decide_eq_true_eq, all_eq_true, Bool.or_eq_true, Bool.not_eq_true', beq_iff_eq] at h
  obtain ⟨⟨⟨⟨⟨⟨h1, h2⟩, h3⟩, h4⟩, h5⟩, h6⟩, h7⟩ := h
  refine ⟨⟨h1, h2⟩, ?_, ?_, fun v hv => (h4 v hv).1.1.1, fun v hv => (h4 v hv).1.1.2, ?_, ?_, ?_, h7⟩
  · intro hu; rw [hu] at h3; simpa using h3
  · intro hu; rw [hu] at h3; simpa using h3
  · intro ht v hv
    rcases (h4 v hv).1.2 with h | h
    · rw [ht] at h; cases h
    · exact h
  · intro hu
    refine ⟨fun v hv => ?_, ?_⟩
    · rcases (h4 v hv).2 with h | h
      · rw [hu] at h; cases h
      · exact h
    · rcases h5 with h | h
      · rw [hu] at h; cases h
      · exact h
  · intro hu
    rcases h6 with h | h
    · rw [hu] at h; cases h
    · exact h

theorem slicesOk_sound {p : PalPlan} {ubits : Nat} : ∀ (slices : List SlicePlan) (wrest zrest : List Nat) (newPal : Bool),
    slicesOk p ubits slices wrest zrest newPal = true → SlicesOk p ubits slices wrest zrest newPal
  | [], wrest, zrest, newPal, h => by
    simp only [slicesOk, Bool.and_eq_true, isEmpty_iff, Bool.not_eq_true'] at h
    exact h
  | sl :: more, wrest, zrest, newPal, h => by
    simp only [slicesOk, Bool.and_eq_true, decide_eq_true_eq] at h
    obtain ⟨⟨h1, h2⟩, h3⟩ := h
    refine ⟨h1, ?_, slicesOk_sound more _ _ false h3⟩
    split at h2
    · cases h2
    · rename_i g hg
      exact ⟨g, hg, sliceOk_sound h2⟩

theorem sectionOk_sound {sp : SectionPlan} {inbuf : List Int} (h : sectionOk sp inbuf = true) : SectionOk sp inbuf := by
  unfold sectionOk at h
  simp only [Bool.and_eq_true, all_eq_true] at h
  obtain ⟨⟨h1, h2⟩, h3⟩ := h
  refine ⟨palOk_sound h1, fun w hw => idxOk_sound (h2 w hw), ?_⟩
  intro wv hl
  rw [hl] at h3
  exact slicesOk_sound _ _ _ _ h3

theorem sectionsOk_sound : ∀ (plan : Plan) (ws : List Int), sectionsOk plan ws = true → SectionsOk plan ws
  | [], ws, h => by
    have : ws = [] := by simpa [sectionsOk] using h
    exact this
  | sp :: more, ws, h => by
    simp only [sectionsOk, Bool.and_eq_true, decide_eq_true_eq] at h
    obtain ⟨⟨⟨h1, h2⟩, h3⟩, h4⟩ := h
    exact ⟨h1, h2, sectionOk_sound h3, sectionsOk_sound more _ h4⟩

theorem planOk_sound {plan : Plan} {ws : List Int} (h : PlanOk plan ws) :
    (∀ w ∈ ws, -255 ≤ w ∧ w ≤ 255) ∧ SectionsOk plan ws := by
  unfold PlanOk planOk at h
  simp only [Bool.and_eq_true] at h
  exact ⟨(MlwSpec.weightsInRange_iff ws).mp h.1, sectionsOk_sound plan ws h.2⟩

theorem mapM_some_length {α β : Type} (f : α → Option β) : ∀ (l : List α) (r : List β),
    l.mapM f = some r → r.length = l.length
  | [], r, h => by simp at h; subst h; rfl
  | a :: l, r, h => by
    rw [List.mapM_cons] at h
    cases hf : f a with
    | none => simp [hf] at h
    | some b =>
      cases hl : l.mapM f with
      | none => simp [hf, hl] at h
      | some r' =>
        simp [hf, hl] at h
        subst h
        simp [mapM_some_length f l r' hl]

end VelaVerif.MlwPlan
