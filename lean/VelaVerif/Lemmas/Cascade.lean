import VelaVerif.Model.Cascade
import VelaVerif.Spec.Receptive
import Mathlib.Tactic.Ring
/-! Helper lemmas for C10 about rolling buffers. -/
namespace VelaVerif.Cascade
open VelaVerif.Box

theorem roundUp_succ (y B : Nat) (hB : 0 < B) : roundUp (y + 1) B = (y / B + 1) * B := by
  unfold roundUp
  have h1 : y + 1 + B - 1 = y % B + (y / B + 1) * B := by
    have := Nat.div_add_mod y B
    have e : (y / B + 1) * B = B * (y / B) + B := by ring
    omega
  rw [h1, Nat.add_mul_div_right _ _ hB, Nat.div_eq_of_lt (Nat.mod_lt _ hB)]
  simp

theorem mod_of_offset (B q m d : Nat) (h : m + d < B) : (B * q + m + d) % B = m + d := by
  rw [Nat.add_assoc, Nat.mul_add_mod]
  exact Nat.mod_eq_of_lt h

/-- `addresses_for_rolling_buffer` + the hardware's two-tile addressing reach storage row `r mod B`
    for every row of a box that is at most `B` rows high. -/
theorem hwSlot_eq_mod (y0 y1 x0 x1 B W : Nat) (t : Tiles)
    (h : addressesForRollingBuffer y0 y1 x0 x1 B W = .ok t) (hle : y1 - y0 ≤ B)
    (r : Nat) (hr0 : y0 ≤ r) (hr1 : r < y1) : hwSlot t y0 r = some (r % B) := by
  unfold addressesForRollingBuffer at h
  split at h
  · cases h
  · rename_i hz
    have hB : 0 < B := by omega
    simp only at h
    split at h
    · cases h
    · injection h with h
      subst h
      rw [roundUp_succ y0 B hB]
      have hdm := Nat.div_add_mod y0 B
      have hm := Nat.mod_lt y0 hB
      have e : (y0 / B + 1) * B = B * (y0 / B) + B := by ring
      generalize hq : y0 / B = q at *
      generalize hmm : y0 % B = m at *
      unfold hwSlot
      simp only
      by_cases hc : r - y0 < min ((q + 1) * B) y1 - y0
      · rw [if_pos hc]
        congr 1
        have hr : r = B * q + m + (r - y0) := by omega
        have hlt : m + (r - y0) < B := by omega
        conv => rhs; rw [hr]
        exact (mod_of_offset B q m (r - y0) hlt).symm
      · rw [if_neg hc]
        have hy : y1 > min ((q + 1) * B) y1 := by omega
        rw [if_pos hy]
        simp only
        congr 1
        have hmin : min ((q + 1) * B) y1 = (q + 1) * B := by omega
        rw [hmin, Nat.mul_mod_left]
        have hr : r = B * (q + 1) + 0 + (r - (q + 1) * B) := by
          have : B * (q + 1) = (q + 1) * B := by ring
          omega
        have hlt : 0 + (r - (q + 1) * B) < B := by omega
        conv => rhs; rw [hr]
        rw [mod_of_offset B (q + 1) 0 _ hlt]
        omega


/-- the accesses of an issue order, for the rolling-buffer simulation of `Spec/Receptive.lean`:
    operator `i` reads tensor `i` (0 = the cascade's input, not tracked) and writes tensor `i+1`;
    `stor[i]` = storage height of tensor `i+1`; the rows read are the hardware's implicit extent
    computed from the stripe's own `pad_top`/`pad_bottom`. -/
def accessesOf (ops : List OpDesc) (stor : List Nat) (cmds : List Cmd) : List Receptive.Access :=
  cmds.map fun c =>
    let d := ops.getD c.op default
    let sy := match d.strides with | some (sy, _) => sy | none => 1
    let ext := Receptive.implicitExtent ((c.ofm.y1 : Int) - c.ofm.y0) sy d.kdil c.padTop c.padBottom
    { wT := c.op + 1, wB := stor.getD c.op 0, wy0 := c.ofm.y0, wy1 := c.ofm.y1,
      rT := c.op, rB := if c.op = 0 then 0 else stor.getD (c.op - 1) 0,
      ra := c.ifm.s.h.toNat, rb := (c.ifm.s.h + ext).toNat }

end VelaVerif.Cascade
