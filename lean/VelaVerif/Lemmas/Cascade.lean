import VelaVerif.Model.Cascade
import VelaVerif.Spec.Receptive
import Mathlib.Tactic.Ring
/-! Helper lemmas for C10 about rolling buffers. -/
namespace VelaVerif.Cascade
open VelaVerif.Box

theorem roundUp_succ (y B : Nat) (hB : 0 < B) : roundUp (y + 1) B = (y / B + 1) * B := by
  unfold roundUp
  have h1 : y + 1 + B - 1 = y % B + (y / B + 1) * B := by
    have := Nat.div_add_mod y B
    have e : (y / B + 1) * B = B * (y / B) + B := by ring
    omega
  rw [h1, Nat.add_mul_div_right _ _ hB, Nat.div_eq_of_lt (Nat.mod_lt _ hB)]
  simp

theorem mod_of_offset (B q m d : Nat) (h : m + d < B) : (B * q + m + d) % B = m + d := by
  rw [Nat.add_assoc, Nat.mul_add_mod]
  exact Nat.mod_eq_of_lt h

/-- `addresses_for_rolling_buffer` + the hardware's two-tile addressing reach storage row `r mod B`
    for every row of a box that is at most `B` rows high. -/
theorem hwSlot_eq_mod (y0 y1 x0 x1 B W : Nat) (t : Tiles)
    (h : addressesForRollingBuffer y0 y1 x0 x1 B W = .ok t) (hle : y1 - y0 ≤ B)
    (r : Nat) (hr0 : y0 ≤ r) (hr1 : r < y1) : hwSlot t y0 r = some (r % B) := by
  unfold addressesForRollingBuffer at h
  split at h
  · cases h
  · rename_i hz
    have hB : 0 < B := by omega
    simp only at h
    split at h
    · cases h
    · injection h with h
      subst h
      rw [roundUp_succ y0 B hB]
      have hdm := Nat.div_add_mod y0 B
      have hm := Nat.mod_lt y0 hB
      have e : (y0 / B + 1) * B = B * (y0 / B) + B := by ring
      generalize hq : y0 / B = q at *
      generalize hmm : y0 % B = m at *
      unfold hwSlot
      simp only
      by_cases hc : r - y0 < min ((q + 1) * B) y1 - y0
      · rw [if_pos hc]
        congr 1
        have hr : r = B * q + m + (r - y0) := by omega
        have hlt : m + (r - y0) < B := by omega
        conv => rhs; rw [hr]
        exact (mod_of_offset B q m (r - y0) hlt).symm
      · rw [if_neg hc]
        have hy : y1 > min ((q + 1) * B) y1 := by omega
        rw [if_pos hy]
        simp only
        congr 1
        have hmin : min ((q + 1) * B) y1 = (q + 1) * B := by omega
        rw [hmin, Nat.mul_mod_left]
        have hr : r = B * (q + 1) + 0 + (r - (q + 1) * B) := by
          have : B * (q + 1) = (q + 1) * B := by ring
          omega
        have hlt : 0 + (r - (q + 1) * B) < B := by omega
        conv => rhs; rw [hr]
        rw [mod_of_offset B (q + 1) 0 _ hlt]
        omega


/-- the accesses of an issue order, for the rolling-buffer simulation of `Spec/Receptive.lean`:
    operator `i` reads tensor `i` (0 = the cascade's input, not tracked) and writes tensor `i+1`;
    `stor[i]` = storage height of tensor `i+1`; the rows read are the hardware's implicit extent
    computed from the stripe's own `pad_top`/`pad_bottom`. -/
def accessesOf (ops : List OpDesc) (stor : List Nat) (cmds : List Cmd) : List Receptive.Access :=
  cmds.map fun c =>
    let d := ops.getD c.op default
    let sy := match d.strides with | some (sy, _) => sy | none => 1
    let ext := Receptive.implicitExtent ((c.ofm.y1 : Int) - c.ofm.y0) sy d.kdil c.padTop c.padBottom
    { wT := c.op + 1, wB := stor.getD c.op 0, wy0 := c.ofm.y0, wy1 := c.ofm.y1,
      rT := c.op, rB := if c.op = 0 then 0 else stor.getD (c.op - 1) 0,
      ra := c.ifm.s.h.toNat, rb := (c.ifm.s.h + ext).toNat }

theorem frontier_ge (p H b : Int) (hp : 1 ≤ p) (hb : b ≤ H) : b ≤ frontier p H b := by
  unfold frontier
  have h1 := Int.mul_ediv_add_emod (b + p - 1) p
  have h2 := Int.emod_lt_of_pos (b + p - 1) (by omega : 0 < p)
  have e : (b + p - 1) / p * p = p * ((b + p - 1) / p) := Int.mul_comm _ _
  omega


end VelaVerif.Cascade

namespace VelaVerif.Receptive

theorem Mem.get_set_same (m : Mem) (t s r : Nat) : (m.set t s r).get t s = some r := by
  simp [Mem.get, Mem.set]

theorem Mem.get_set_other (m : Mem) (t s s' r : Nat) (h : s' ≠ s) : (m.set t s r).get t s' = m.get t s' := by
  unfold Mem.get Mem.set
  have h1 : ((t, s) == (t, s')) = false := by simp; omega
  rw [List.find?_cons]
  simp only [h1]
  rw [List.find?_filter]
  have hf : (fun a : (Nat × Nat) × Nat => decide ((a.1 != (t, s)) = true ∧ (a.1 == (t, s')) = true)) = (fun e => e.1 == (t, s')) := by
    funext e
    by_cases he : e.1 = (t, s')
    · have hne : ¬ ((t, s') = (t, s)) := by simp; omega
      simp [he, hne]
    · simp [he]
  rw [hf]

/-- congruent and smaller means at least one buffer height smaller -/
theorem lt_congr_add_le (B r P : Nat) (hB : 0 < B) (hm : r % B = P % B) (hlt : r < P) : r + B ≤ P := by
  have h1 := Nat.div_add_mod P B
  have h2 := Nat.div_add_mod r B
  have hq : r / B < P / B := by
    by_contra hc
    have : B * (P / B) ≤ B * (r / B) := Nat.mul_le_mul_left B (by omega)
    omega
  have : B * (r / B + 1) ≤ B * (P / B) := Nat.mul_le_mul_left B (by omega)
  have e : B * (r / B + 1) = B * (r / B) + B := by ring
  omega

theorem writeAll_succ (t B P : Nat) : writeAll t B (P + 1) = (writeAll t B P).set t (P % B) P := by
  unfold writeAll writeRows
  simp only [Nat.sub_zero, Nat.zero_add]
  rw [List.range_succ, List.foldl_append]
  rfl

/-- after the producer has written rows `[0, P)` in order into a buffer of `B` rows, slot `r mod B`
    still holds row `r` iff `r < P ≤ r + B` -/
theorem slot_holds_iff (t B : Nat) (hB : 0 < B) (P r : Nat) :
    (writeAll t B P).get t (r % B) = some r ↔ r < P ∧ P ≤ r + B := by
  induction P with
  | zero => simp [writeAll, writeRows, Mem.get]
  | succ P ih =>
    rw [writeAll_succ]
    by_cases hs : r % B = P % B
    · rw [hs, Mem.get_set_same]
      constructor
      · intro h; injection h with h; subst h; omega
      · rintro ⟨h1, h2⟩
        by_cases hrp : r = P
        · rw [hrp]
        · have := lt_congr_add_le B r P hB hs (by omega)
          omega
    · rw [Mem.get_set_other _ _ _ _ _ hs, ih]
      constructor
      · rintro ⟨h1, h2⟩
        refine ⟨by omega, ?_⟩
        by_contra hc
        have hP : P = r + B := by omega
        rw [hP, Nat.add_mod_right] at hs
        exact hs rfl
      · rintro ⟨h1, h2⟩
        have : r ≠ P := by intro h; rw [h] at hs; exact hs rfl
        omega


end VelaVerif.Receptive
