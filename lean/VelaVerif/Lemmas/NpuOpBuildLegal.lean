import VelaVerif.Lemmas.NpuOpBuild
import VelaVerif.Spec.OpCheck
/-! Legality (`Spec/OpCheck.lean`: every field representable in its register) of the operations `Model/NpuOpBuild.lean`
builds: Prop-level mirrors of the `fits*` message lists and their introduction lemmas. -/
namespace VelaVerif.NpuOpBuild
open VelaVerif.NpuOp VelaVerif.OpCheck

theorem inRange_nil (n : String) (lo hi v : Int) (h : lo ≤ v ∧ v < hi) : inRange n lo hi v = [] := by
  simp [inRange, h.1, h.2]

theorem flatMap_nil {α β : Type} (l : List α) (f : α → List β) (h : ∀ x ∈ l, f x = []) : l.flatMap f = [] := by
  induction l with
  | nil => rfl
  | cons x xs ih =>
    simp only [List.flatMap_cons, h x (by simp), List.nil_append]
    exact ih (fun y hy => h y (by simp [hy]))

/-- what `fitsFM` asks of a feature map -/
structure FmFits (fm : FM) (maxAddr : Int) : Prop where
  region : 0 ≤ fm.region ∧ fm.region < 8
  addrs : ∀ a ∈ fm.addresses, 0 ≤ a ∧ a < maxAddr
  h0 : 1 ≤ fm.height0 ∧ fm.height0 < 65537
  h1 : 1 ≤ fm.height1 ∧ fm.height1 < 65537
  w0 : 1 ≤ fm.width0 ∧ fm.width0 < 65537
  sy : 0 ≤ (specStrides fm).1 ∧ (specStrides fm).1 < maxAddr
  sx : 0 ≤ (specStrides fm).2.1 ∧ (specStrides fm).2.1 < maxAddr
  sc : 0 ≤ (specStrides fm).2.2 ∧ (specStrides fm).2.2 < maxAddr
  zp : -32768 ≤ (if fm.hasQuant then fm.zeroPoint else 0) ∧ (if fm.hasQuant then fm.zeroPoint else 0) < 32768

theorem fitsFM_nil (nm : String) (fm : FM) (maxAddr : Int) (h : FmFits fm maxAddr) : fitsFM nm fm maxAddr = [] := by
  unfold fitsFM
  simp only [inRange_nil _ _ _ _ h.region, inRange_nil _ _ _ _ h.h0, inRange_nil _ _ _ _ h.h1, inRange_nil _ _ _ _ h.w0,
    inRange_nil _ _ _ _ h.sy, inRange_nil _ _ _ _ h.sx, inRange_nil _ _ _ _ h.sc, inRange_nil _ _ _ _ h.zp,
    List.append_nil, List.nil_append]
  exact flatMap_nil _ _ (fun a ha => inRange_nil _ _ _ _ (h.addrs a ha))

def ShapeFits (s : Shape3) : Prop :=
  (1 ≤ s.height ∧ s.height < 65537) ∧ (1 ≤ s.width ∧ s.width < 65537) ∧ (1 ≤ s.depth ∧ s.depth < 65537)

theorem fitsShape_nil (nm : String) (s : Shape3) (h : ShapeFits s) : fitsShape nm s = [] := by
  unfold fitsShape
  simp only [inRange_nil _ _ _ _ h.1, inRange_nil _ _ _ _ h.2.1, inRange_nil _ _ _ _ h.2.2, List.append_nil]

/-- an address range of weights / scales fits: region 0..7, address below the limit, length below 2^32 -/
def RangeFits (r : AddrRange) (maxAddr : Int) : Prop :=
  (0 ≤ r.region ∧ r.region < 8) ∧ (0 ≤ r.address ∧ r.address < maxAddr) ∧ (0 ≤ r.length ∧ r.length < 2 ^ 32)

theorem fitsRange_nil (nm : String) (r : AddrRange) (maxAddr : Int) (h : RangeFits r maxAddr) :
    fitsRange nm r maxAddr false = [] := by
  unfold fitsRange
  simp only [Bool.false_and, Bool.false_eq_true, ↓reduceIte, inRange_nil _ _ _ _ h.1, inRange_nil _ _ _ _ h.2.1,
    List.append_nil]

def KernelFits (k : Kernel) : Prop :=
  (1 ≤ k.dilationX * (k.width - 1) + 1 ∧ k.dilationX * (k.width - 1) + 1 < 65537) ∧
  (1 ≤ k.dilationY * (k.height - 1) + 1 ∧ k.dilationY * (k.height - 1) + 1 < 65537) ∧
  (1 ≤ k.strideX ∧ k.strideX < 4) ∧ (1 ≤ k.strideY ∧ k.strideY < 4) ∧
  (1 ≤ k.dilationX ∧ k.dilationX < 3) ∧ (1 ≤ k.dilationY ∧ k.dilationY < 3)

def PaddingFits (p : Padding) : Prop :=
  (0 ≤ p.top ∧ p.top < 65536) ∧ (0 ≤ p.left ∧ p.left < 65536) ∧ (0 ≤ p.bottom ∧ p.bottom < 65536) ∧ (0 ≤ p.right ∧ p.right < 65536)

def OracleFits (o : Oracle) : Prop :=
  (0 ≤ o.blockdep ∧ o.blockdep < 4) ∧
  (∀ s sh, o.ofmScale = some (s, sh) → (0 ≤ s ∧ s < 2 ^ 32) ∧ (0 ≤ sh ∧ sh < 64)) ∧
  (∀ s sh, o.opaScale = some (s, sh) → (0 ≤ s ∧ s < 2 ^ 32) ∧ (0 ≤ sh ∧ sh < 64)) ∧
  (∀ s sh, o.opbScale = some (s, sh) → (0 ≤ s ∧ s < 2 ^ 16))

/-- what `fitsBlock` asks of a block operation -/
structure BlockFits (op : BlockOp) (maxAddr : Int) : Prop where
  ifm : FmFits op.ifm maxAddr
  ifmDepth : 1 ≤ op.ifm.shape.depth ∧ op.ifm.shape.depth < 65537
  ofm : FmFits op.ofm maxAddr
  ofmShape : ShapeFits op.ofm.shape
  ifm2 : ∀ f2, op.ifm2 = some f2 →
    match op.ifm2Scalar with
    | none => FmFits f2 maxAddr
    | some q => (-32768 ≤ (if f2.hasQuant then f2.zeroPoint else 0) ∧ (if f2.hasQuant then f2.zeroPoint else 0) < 32768) ∧
        (if f2.dtype.signed then -32768 ≤ q ∧ q < 32768 else 0 ≤ q ∧ q < 65536)
  kernel : ∀ k, op.kernel = some k → op.kind ≠ .elementwise → KernelFits k
  padding : ∀ p, op.padding = some p → PaddingFits p
  weights : ∀ r ∈ op.weights, RangeFits r maxAddr
  biases : ∀ r ∈ op.biases, RangeFits r maxAddr
  blockConfig : ShapeFits op.blockConfig
  oracle : OracleFits op.oracle

theorem fitsBlock_nil (op : BlockOp) (maxAddr : Int) (h : BlockFits op maxAddr) : fitsBlock op maxAddr = [] := by
  have hb := h.blockConfig
  have ho := h.oracle
  unfold fitsBlock
  simp only [List.append_eq_nil_iff, and_assoc]
  refine ⟨fitsFM_nil "ifm" op.ifm maxAddr h.ifm, inRange_nil _ _ _ _ h.ifmDepth, fitsFM_nil "ofm" op.ofm maxAddr h.ofm,
    fitsShape_nil "ofm" op.ofm.shape h.ofmShape, ?_, ?_, ?_, ?_, ?_, inRange_nil _ _ _ _ hb.1, inRange_nil _ _ _ _ hb.2.1,
    inRange_nil _ _ _ _ hb.2.2, inRange_nil _ _ _ _ ho.1, ?_, ?_, ?_⟩
  · split
    · rename_i f2 h2f hs
      have := h.ifm2 f2 h2f
      simp only [hs] at this
      exact fitsFM_nil _ _ _ this
    · rename_i f2 q h2f hs
      have := h.ifm2 f2 h2f
      simp only [hs] at this
      simp only [inRange_nil _ _ _ _ this.1, List.nil_append]
      by_cases hsg : f2.dtype.signed = true
      · simp only [hsg, ↓reduceIte] at this ⊢; exact inRange_nil _ _ _ _ this.2
      · have hsg' : f2.dtype.signed = false := by simpa using hsg
        simp only [hsg', Bool.false_eq_true, ↓reduceIte] at this ⊢; exact inRange_nil _ _ _ _ this.2
    · rfl
  · split
    · rename_i k hk
      by_cases he : op.kind = .elementwise
      · simp [he]
      · have hk' := h.kernel k hk he
        have hne : (op.kind == Kind.elementwise) = false := by simpa using he
        simp only [hne, Bool.false_eq_true, ↓reduceIte, inRange_nil _ _ _ _ hk'.1, inRange_nil _ _ _ _ hk'.2.1,
          inRange_nil _ _ _ _ hk'.2.2.1, inRange_nil _ _ _ _ hk'.2.2.2.1, inRange_nil _ _ _ _ hk'.2.2.2.2.1,
          inRange_nil _ _ _ _ hk'.2.2.2.2.2, List.append_nil]
    · rfl
  · split
    · rename_i p hp
      have hp' := h.padding p hp
      simp only [inRange_nil _ _ _ _ hp'.1, inRange_nil _ _ _ _ hp'.2.1, inRange_nil _ _ _ _ hp'.2.2.1,
        inRange_nil _ _ _ _ hp'.2.2.2, List.append_nil]
    · rfl
  · exact flatMap_nil _ _ (fun r hr => by
      have := h.weights r hr
      simp only [fitsRange_nil _ _ _ this, inRange_nil _ _ _ _ this.2.2, List.append_nil])
  · exact flatMap_nil _ _ (fun r hr => by
      have := h.biases r hr
      simp only [fitsRange_nil _ _ _ this, inRange_nil _ _ _ _ this.2.2, List.append_nil])
  · split
    · rename_i s sh hs
      have := ho.2.1 s sh hs
      simp only [inRange_nil _ _ _ _ this.1, inRange_nil _ _ _ _ this.2, List.append_nil]
    · rfl
  · split
    · rename_i s sh hs
      have := ho.2.2.1 s sh hs
      simp only [inRange_nil _ _ _ _ this.1, inRange_nil _ _ _ _ this.2, List.append_nil]
    · rfl
  · split
    · rename_i s sh hs
      exact inRange_nil _ _ _ _ (ho.2.2.2 s sh hs)
    · rfl

/-- what `fitsDma` asks of a DMA operation with channel 0, mode 0 -/
theorem fitsDma_nil (d : DmaOp) (maxAddr : Int) (hc : d.channel = 0) (hm : d.mode = 0)
    (hsr : 0 ≤ d.src.region ∧ d.src.region < 8)
    (hdr : d.dst.region = ((Isa.REGION_SHRAM : Nat) : Int) ∨ (0 ≤ d.dst.region ∧ d.dst.region < 8))
    (hs : 0 ≤ d.src.address ∧ d.src.address < maxAddr) (ht : 0 ≤ d.dst.address ∧ d.dst.address < maxAddr)
    (hl : 0 ≤ d.src.length ∧ d.src.length < maxAddr) : fitsDma d maxAddr = [] := by
  unfold fitsDma fitsRange
  simp only [List.append_eq_nil_iff, and_assoc]
  refine ⟨?_, inRange_nil _ _ _ _ hs, ?_, inRange_nil _ _ _ _ ht, inRange_nil _ _ _ _ hl, ?_⟩
  · split
    · rfl
    · exact inRange_nil _ _ _ _ hsr
  · rcases hdr with h3 | h3
    · simp [h3]
    · split
      · rfl
      · exact inRange_nil _ _ _ _ h3
  · rw [hc, hm]; exact inRange_nil _ _ _ _ ⟨by omega, by omega⟩

/-! ### from the model to `BlockFits` -/

theorem getRegion_range (m : MemT) (arch : ArchD) (r : Int) (h : getRegion m arch = .ok r) : 0 ≤ r ∧ r < 8 := by
  unfold getRegion at h
  cases m with
  | unknown => cases h
  | permanentNpu => injection h with h; omega
  | permanentCpu => injection h with h; omega
  | scratch => injection h with h; omega
  | scratchFast =>
    injection h with h
    split at h <;> omega

/-- tile addresses, tile extents and strides of a feature map fit their registers -/
def StridesFit (st : Option Shape3) (maxAddr : Int) : Prop :=
  match st with
  | some s => (0 ≤ s.height ∧ s.height < maxAddr) ∧ (0 ≤ s.width ∧ s.width < maxAddr) ∧ (0 ≤ s.depth ∧ s.depth < maxAddr)
  | none => False

def TilesFit (fm : FM) (maxAddr : Int) : Prop :=
  (∀ a ∈ fm.addresses, 0 ≤ a ∧ a < maxAddr) ∧ (1 ≤ fm.height0 ∧ fm.height0 < 65537) ∧
  (1 ≤ fm.height1 ∧ fm.height1 < 65537) ∧ (1 ≤ fm.width0 ∧ fm.width0 < 65537) ∧ StridesFit fm.strides maxAddr

def ZpFits (z : Int) : Prop := -32768 ≤ z ∧ z < 32768

instance (st : Option Shape3) (maxAddr : Int) : Decidable (StridesFit st maxAddr) := by
  unfold StridesFit; split <;> infer_instance

instance (fm : FM) (maxAddr : Int) : Decidable (TilesFit fm maxAddr) := by
  unfold TilesFit; infer_instance

/-- a property checked on the value of a successful computation -/
theorem of_toOption_all {ε α : Type} (e : Except ε α) (p : α → Bool) (h : e.toOption.all p = true) (x : α)
    (hx : e = .ok x) : p x = true := by
  subst hx; simpa [Except.toOption] using h

theorem createFm_region (tens : TensD) (box : BoxD) (arch : ArchD) (shape : TensorAddr.S4) (offs : List Nat)
    (mult : Option (Nat × Nat × Nat)) (isOfm : Bool) (fm : FM) (h : createFm tens box arch shape offs mult isOfm = .ok fm) :
    0 ≤ fm.region ∧ fm.region < 8 := by
  unfold createFm at h
  split at h
  · cases h
  · rename_i region hreg
    have hr := getRegion_range _ _ _ hreg
    split at h
    · cases h
    · split at h
      · cases h
      · split at h
        · cases h
        · split at h
          · cases h
          · cases h
          · split at h
            · cases h
            · injection h with h
              subst h
              exact hr

theorem fmFits_withQuant (fm0 : FM) (S : Shape3) (q : Option NpuQuant) (maxAddr : Int)
    (hr : 0 ≤ fm0.region ∧ fm0.region < 8) (ht : TilesFit fm0 maxAddr) (hz : ∀ x, q = some x → ZpFits x.zeroPoint) :
    FmFits (withQuant { fm0 with shape := S } q).fm maxAddr := by
  obtain ⟨ha, h0, h1, w0, hst⟩ := ht
  unfold StridesFit at hst
  split at hst
  case h_2 => cases hst
  rename_i s hs
  obtain ⟨hsy, hsx, hsc⟩ := hst
  cases q with
  | none =>
    exact ⟨hr, ha, h0, h1, w0, by simpa [withQuant, specStrides, hs] using hsy, by simpa [withQuant, specStrides, hs] using hsx,
      by simpa [withQuant, specStrides, hs] using hsc, by simp [withQuant]⟩
  | some x =>
    have := hz x rfl
    unfold ZpFits at this
    exact ⟨hr, ha, h0, h1, w0, by simpa [withQuant, specStrides, hs] using hsy, by simpa [withQuant, specStrides, hs] using hsx,
      by simpa [withQuant, specStrides, hs] using hsc, by simpa [withQuant] using this⟩

theorem getIfmQuant_zp (c : StripeD) (t : TensD) (x : NpuQuant) (h : getIfmQuant c t = some x)
    (hz : ∀ q, (t.quant = some q ∨ c.op.forcedInputQuant = some q) → ZpFits q.zeroPoint) : ZpFits x.zeroPoint := by
  unfold getIfmQuant at h
  split at h
  · cases h
  · rename_i q hq
    injection h with h
    subst h
    have hq' : ZpFits q.zeroPoint := by
      apply hz q
      cases hf : c.op.forcedInputQuant with
      | none => simp only [hf] at hq; exact Or.inl hq
      | some f => simp only [hf] at hq; injection hq with hq; subst hq; exact Or.inr rfl
    simp only
    split
    · exact ⟨by omega, by omega⟩
    · exact hq'

theorem getOfmQuant_zp (c : StripeD) (t : TensD) (x : NpuQuant) (h : getOfmQuant c t = some x)
    (hz : ∀ q, (t.quant = some q ∨ c.op.forcedOutputQuant = some q) → ZpFits q.zeroPoint) : ZpFits x.zeroPoint := by
  unfold getOfmQuant at h
  split at h
  · cases h
  · rename_i q hq
    injection h with h
    subst h
    have hq' : ZpFits q.zeroPoint := by
      apply hz q
      cases hf : c.op.forcedOutputQuant with
      | none => simp only [hf] at hq; exact Or.inl hq
      | some f => simp only [hf] at hq; injection hq with hq; subst hq; exact Or.inr rfl
    simp only
    split
    · exact ⟨by omega, by omega⟩
    · exact hq'

/-- the explicit hypotheses of `build_legal`: what the operator constraints (C16), the scheduler's boxes (C10) and the
    tensor allocation (C02 / C05, through the address-generation theorems of `Props/C02Addr.lean`) provide -/
structure WellFormed (c : StripeD) (arch : ArchD) (maxAddr : Int) : Prop where
  /-- what `create_feature_map` computes for the IFM and the OFM of this command fits the address / stride / tile registers -/
  ifmTiles : ∀ fm, createFm c.ifm c.ifmBox arch c.ifmShape0 c.op.tileOffsIfm0 none false = .ok fm → TilesFit fm maxAddr
  ofmTiles : ∀ fm, createFm c.ofm c.ofmBox arch c.ofmShape0 c.op.tileOffsOfm c.op.ofmStrideMult true = .ok fm → TilesFit fm maxAddr
  zpIn : ∀ q, (c.ifm.quant = some q ∨ c.op.forcedInputQuant = some q) → ZpFits q.zeroPoint
  zpOut : ∀ q, (c.ofm.quant = some q ∨ c.op.forcedOutputQuant = some q) → ZpFits q.zeroPoint
  ifmDepth : 1 ≤ (blockOf c.ifmBox).depth ∧ (blockOf c.ifmBox).depth < 65537
  ofmBox : ShapeFits (blockOf c.ofmBox)
  kernel : KernelFits c.op.kernel
  pads : ∀ p0, c.op.explicitPadding = some p0 → PaddingFits ⟨p0.1, p0.2.1, p0.2.2.1, p0.2.2.2⟩
  stripePads : (0 ≤ c.padTop ∧ c.padTop < 65536) ∧ (0 ≤ c.padBottom ∧ c.padBottom < 65536)
  noTile : c.op.paddingAttr ≠ some .tile
  /-- the ranges derived for weights and scales lie below the address limit (for weights read straight from the encoded
      tensor this is `weight_ranges_match_layout` + "the tensor lies inside its region") -/
  ranges : ∀ ws bs, commonWeights c arch = .ok (ws, bs) → ∀ r ∈ ws ++ bs,
    (0 ≤ r.address ∧ r.address < maxAddr) ∧ (0 ≤ r.length ∧ r.length < 2 ^ 32)
  blockConfig : ShapeFits ⟨c.blockConfig.1, c.blockConfig.2.1, c.blockConfig.2.2.2⟩

theorem padValues_fits (c : StripeD) (p0 : Int × Int × Int × Int) (lim : Int × Int)
    (h0 : PaddingFits ⟨p0.1, p0.2.1, p0.2.2.1, p0.2.2.2⟩)
    (hs : (0 ≤ c.padTop ∧ c.padTop < 65536) ∧ (0 ≤ c.padBottom ∧ c.padBottom < 65536)) : PaddingFits (padValues c p0 lim) := by
  obtain ⟨t, l, b, r⟩ := p0
  obtain ⟨ht, hl, hb, hr⟩ := h0
  simp only at ht hl hb hr
  have hz : (0 : Int) ≤ 0 ∧ (0 : Int) < 65536 := ⟨by omega, by omega⟩
  have hleft : ∀ v : Int, (v = 0 ∨ v = l) → 0 ≤ v ∧ v < 65536 := by
    intro v hv; rcases hv with rfl | rfl
    · exact hz
    · exact hl
  have hright : ∀ v : Int, (v = 0 ∨ v = r) → 0 ≤ v ∧ v < 65536 := by
    intro v hv; rcases hv with rfl | rfl
    · exact hz
    · exact hr
  unfold padValues PaddingFits
  simp only
  refine ⟨?_, ?_, ?_, ?_⟩
  · by_cases hh : (!(c.isFirstH && c.isLastH)) = true
    · simp only [hh, ↓reduceIte]; exact hs.1
    · simp only [hh, Bool.false_eq_true, ↓reduceIte]; exact ht
  · apply hleft
    cases penult c.ifmBox.start with
    | none => exact Or.inr rfl
    | some x =>
      simp only
      by_cases hx : (x : Int) > lim.1
      · simp [hx]
      · simp [hx]
  · by_cases hh : (!(c.isFirstH && c.isLastH)) = true
    · simp only [hh, ↓reduceIte]; exact hs.2
    · simp only [hh, Bool.false_eq_true, ↓reduceIte]; exact hb
  · apply hright
    cases penult c.ifmBox.stop with
    | none => exact Or.inr rfl
    | some x =>
      simp only
      by_cases hx : (x : Int) < lim.2
      · simp [hx]
      · simp [hx]

theorem createWeights_regions (w : WTensD) (depth : Nat) (sc : Option STensD) (arch : ArchD) (ws bs : List AddrRange)
    (h : createWeights w depth sc arch = .ok (ws, bs)) : ∀ r ∈ ws ++ bs, 0 ≤ r.region ∧ r.region < 8 := by
  obtain ⟨shared, sreg, ws', bs', hsh, hsr, _, rfl, rfl⟩ := createWeights_spec w depth sc arch ws bs h
  have h1 := getRegion_range _ _ _ hsh
  have h2 : sc.isSome = true → 0 ≤ sreg ∧ sreg < 8 := by
    intro hs
    cases sc with
    | none => cases hs
    | some s => exact getRegion_range _ _ _ hsr
  intro r hr
  simp only [List.mem_append, List.mem_map] at hr
  rcases hr with ⟨a, _, rfl⟩ | ⟨a, _, rfl⟩
  · exact h1
  · simp only [toRange]
    split
    · rename_i hs; exact h2 hs
    · exact h1

theorem commonWeights_regions (c : StripeD) (arch : ArchD) (ws bs : List AddrRange)
    (h : commonWeights c arch = .ok (ws, bs)) : ∀ r ∈ ws ++ bs, 0 ≤ r.region ∧ r.region < 8 := by
  unfold commonWeights at h
  split at h
  · injection h with h; injection h with h1 h2; subst h1; subst h2; simp
  · split at h
    · cases h
    · exact createWeights_regions _ _ _ _ _ _ h

/-- fields of what `set_common_op_fields` builds for a non-elementwise operation without tile padding -/
theorem setCommon_fields (fo : FloatOps) (c : StripeD) (arch : ArchD) (kind : Kind) (b : BlockB)
    (hne : c.op.type.isElementwise = false) (hnt : c.op.paddingAttr ≠ some .tile) (h : setCommon fo c arch kind = .ok b) :
    commonIfm c arch = .ok b.ifm ∧ commonOfm c arch = .ok b.ofm ∧ commonWeights c arch = .ok (b.weights, b.biases) ∧
    b.kernel = some c.op.kernel ∧ b.ifm2 = none ∧ b.scalar = none ∧ b.kind = kind ∧
    b.blockConfig = ⟨c.blockConfig.1, c.blockConfig.2.1, c.blockConfig.2.2.2⟩ ∧
    ∃ p, b.padding = some p ∧ (p = ⟨0, 0, 0, 0⟩ ∨ ∃ p0 lim, c.op.explicitPadding = some p0 ∧ p = padValues c p0 lim) := by
  unfold setCommon at h
  split at h
  · cases h
  · rename_i ifmB hifm
    split at h
    · cases h
    · rename_i ofmB hofm
      split at h
      · cases h
      · rename_i ws bs hw
        split at h
        · cases h
        · rename_i act hact
          split at h
          · cases h
          · rename_i padding ifmFinal kernel hpad
            split at h
            · cases h
            · injection h with h
              subst h
              simp only [commonPadding, hne, Bool.false_eq_true, ↓reduceIte] at hpad
              split at hpad
              · cases hpad
              · rename_i p f hcp
                injection hpad with hpad
                simp only [Prod.mk.injEq] at hpad
                obtain ⟨rfl, rfl, rfl⟩ := hpad
                -- what `createPadding` returned
                unfold createPadding at hcp
                split at hcp
                · injection hcp with hcp
                  simp only [Prod.mk.injEq] at hcp
                  obtain ⟨rfl, rfl⟩ := hcp
                  exact ⟨hifm, hofm, hw, rfl, rfl, rfl, rfl, rfl, _, rfl, Or.inl rfl⟩
                · split at hcp
                  · cases hcp
                  · rename_i p0 hp0
                    split at hcp
                    · cases hcp
                    · rename_i lim hlim
                      have hnt' : (c.op.paddingAttr == some PadAttr.tile) = false := by
                        simpa using hnt
                      simp only [hnt', Bool.false_eq_true, ↓reduceIte] at hcp
                      injection hcp with hcp
                      simp only [Prod.mk.injEq] at hcp
                      obtain ⟨rfl, rfl⟩ := hcp
                      exact ⟨hifm, hofm, hw, rfl, rfl, rfl, rfl, rfl, _, rfl, Or.inr ⟨p0, lim, hp0, rfl⟩⟩

/-- the explicit hypotheses of `build_legal_elementwise` -/
structure WellFormedEw (c0 : StripeD) (arch : ArchD) (maxAddr : Int) : Prop where
  /-- what `create_feature_map` computes for either input tensor of the command (with its own box and shape, and either list
      of tile offsets: the operands may be exchanged) fits the address / stride / tile registers -/
  inTiles : ∀ (t : TensD) (bx : BoxD) (sh : TensorAddr.S4) (offs : List Nat) (fm : FM),
    ((t = c0.ifm ∧ bx = c0.ifmBox ∧ sh = c0.ifmShape0) ∨ (c0.ifm2 = some t ∧ c0.ifm2Box = some bx ∧ c0.ifmShape1 = some sh)) →
    (offs = c0.op.tileOffsIfm0 ∨ offs = c0.op.tileOffsIfm1) →
    createFm t bx arch sh offs none false = .ok fm → TilesFit fm maxAddr
  ofmTiles : ∀ fm, createFm c0.ofm c0.ofmBox arch c0.ofmShape0 c0.op.tileOffsOfm c0.op.ofmStrideMult true = .ok fm → TilesFit fm maxAddr
  zpIn : ∀ t q, (t = c0.ifm ∨ c0.ifm2 = some t) → (t.quant = some q ∨ c0.op.forcedInputQuant = some q) → ZpFits q.zeroPoint
  zpOut : ∀ q, (c0.ofm.quant = some q ∨ c0.op.forcedOutputQuant = some q) → ZpFits q.zeroPoint
  ofmBox : ShapeFits (blockOf c0.ofmBox)
  ranges : ∀ ws bs, commonWeights c0 arch = .ok (ws, bs) → ∀ r ∈ ws ++ bs,
    (0 ≤ r.address ∧ r.address < maxAddr) ∧ (0 ≤ r.length ∧ r.length < 2 ^ 32)
  blockConfig : ShapeFits ⟨c0.blockConfig.1, c0.blockConfig.2.1, c0.blockConfig.2.2.2⟩

/-- `commonWeights` does not look at the operands that the swap exchanges -/
theorem commonWeights_congr (c c' : StripeD) (h1 : c'.weight = c.weight) (h2 : c'.weightDepth = c.weightDepth)
    (h3 : c'.scale = c.scale) (arch : ArchD) : commonWeights c' arch = commonWeights c arch := by
  simp only [commonWeights, h1, h2, h3]

theorem getOfmQuant_congr (c c' : StripeD) (hop : c'.op = c.op) (hps : c'.psOps = c.psOps) (t : TensD) :
    getOfmQuant c' t = getOfmQuant c t := by
  simp only [getOfmQuant, hop, useZeroPoint0_congr c c' hop hps]

/-- `(t, bx, sh)` is one of the two input operands of the command -/
def InTriple (c0 : StripeD) (t : TensD) (bx : BoxD) (sh : TensorAddr.S4) : Prop :=
  (t = c0.ifm ∧ bx = c0.ifmBox ∧ sh = c0.ifmShape0) ∨ (c0.ifm2 = some t ∧ c0.ifm2Box = some bx ∧ c0.ifmShape1 = some sh)

/-- the command after `ewOrder` differs from the original only in which operand is IFM and which IFM2 -/
theorem ewOrder_same (c0 c : StripeD) (rev : Bool) (h : ewOrder c0 = .ok (c, rev)) :
    c.op = c0.op ∧ c.psOps = c0.psOps ∧ c.ofm = c0.ofm ∧ c.ofmBox = c0.ofmBox ∧ c.ofmShape0 = c0.ofmShape0 ∧
    c.weight = c0.weight ∧ c.weightDepth = c0.weightDepth ∧ c.scale = c0.scale ∧ c.blockConfig = c0.blockConfig ∧
    InTriple c0 c.ifm c.ifmBox c.ifmShape0 ∧
    (∀ t b s, c.ifm2 = some t → c.ifm2Box = some b → c.ifmShape1 = some s → InTriple c0 t b s) := by
  obtain ⟨t2, sh2, ht2, _, hcases⟩ := ewOrder_spec c0 c rev h
  rcases hcases with ⟨rfl, _, _⟩ | ⟨_, _, _, hsw⟩
  · exact ⟨rfl, rfl, rfl, rfl, rfl, rfl, rfl, rfl, rfl, Or.inl ⟨rfl, rfl, rfl⟩, fun t b s h1 h2 h3 => Or.inr ⟨h1, h2, h3⟩⟩
  · obtain ⟨t2s, b2s, s1s, hs2, hsb2, hss1, rfl⟩ := swapOperands_spec c0 c hsw
    refine ⟨rfl, rfl, rfl, rfl, rfl, rfl, rfl, rfl, rfl, Or.inr ⟨hs2, hsb2, hss1⟩, ?_⟩
    intro t b s h1 h2 h3
    simp only [Option.some.injEq] at h1 h2 h3
    exact Or.inl ⟨h1.symm, h2.symm, h3.symm⟩

/-- fields of what `set_common_op_fields` builds for an elementwise operation -/
theorem setCommon_ew_fields (fo : FloatOps) (c : StripeD) (arch : ArchD) (b : BlockB)
    (hbt : c.op.type.blockType = .elementWise) (h : setCommon fo c arch .elementwise = .ok b) :
    commonIfm c arch = .ok b.ifm ∧ commonOfm c arch = .ok b.ofm ∧ commonWeights c arch = .ok (b.weights, b.biases) ∧
    b.kernel = none ∧ b.padding = none ∧ b.ifm2 = none ∧ b.scalar = none ∧ b.kind = .elementwise ∧
    b.blockConfig = ⟨c.blockConfig.1, c.blockConfig.2.1, c.blockConfig.2.2.2⟩ := by
  unfold setCommon at h
  split at h
  · cases h
  · rename_i ifmB hifm
    split at h
    · cases h
    · rename_i ofmB hofm
      split at h
      · cases h
      · rename_i ws bs hw
        split at h
        · cases h
        · have hew : c.op.type.isElementwise = true := by simp [OpT.isElementwise, hbt]
          simp only [commonPadding, hew, if_true] at h
          split at h
          · cases h
          · injection h with h
            subst h
            exact ⟨hifm, hofm, hw, rfl, rfl, rfl, rfl, rfl, rfl⟩

/-- the output-scale override keeps what `fitsFM` looks at -/
theorem ewFinish_ofm_fits (fo : FloatOps) (op : OpD) (b : BlockB) (u : EwUpd) (maxAddr : Int)
    (h : ewFinish fo op b = .ok u) (hf : FmFits b.ofm.fm maxAddr) :
    FmFits u.ofm.fm maxAddr ∧ u.ofm.fm.shape = b.ofm.fm.shape := by
  have hset : ∀ os : Fl, b.ofm.fm.hasQuant = true →
      FmFits ({ b.ofm.fm with hasQuant := true, zeroPoint := b.ofm.fm.zeroPoint, scaled := true } : FM) maxAddr := by
    intro os hq
    obtain ⟨h1, h2, h3, h4, h5, h6, h7, h8, h9⟩ := hf
    exact ⟨h1, h2, h3, h4, h5, h6, h7, h8, by simpa [hq] using h9⟩
  unfold ewFinish at h
  split at h
  · cases h
  · split at h
    · split at h
      · injection h with h; subst h; exact ⟨hf, rfl⟩
      · cases h
    · cases h
  · injection h with h; subst h; exact ⟨hf, rfl⟩
  · rename_i os _
    by_cases hq : b.ofm.fm.hasQuant = true
    · simp only [hq, Bool.not_true, Bool.false_eq_true, ↓reduceIte] at h
      split at h
      · split at h
        · split at h
          · injection h with h; subst h; exact ⟨hset os hq, rfl⟩
          · cases h
          · cases h
        · injection h with h; subst h; exact ⟨hset os hq, rfl⟩
      · injection h with h; subst h; exact ⟨hset os hq, rfl⟩
    · have hq' : b.ofm.fm.hasQuant = false := by simpa using hq
      simp only [hq', Bool.not_false, ↓reduceIte] at h
      cases h

/-- a non-elementwise block operation is what `set_common_op_fields` builds, up to the kind-specific fields -/
theorem buildBlock_nonEw (fo : FloatOps) (c : StripeD) (arch : ArchD) (b : BlockB)
    (hne : c.op.type.isElementwise = false) (h : buildBlock fo c arch = .ok b) :
    ∃ kind b0, setCommon fo c arch kind = .ok b0 ∧ b.ifm = b0.ifm ∧ b.ofm = b0.ofm ∧ b.ifm2 = b0.ifm2 ∧ b.scalar = b0.scalar ∧
      b.kernel = b0.kernel ∧ b.padding = b0.padding ∧ b.weights = b0.weights ∧ b.biases = b0.biases ∧
      b.blockConfig = b0.blockConfig ∧ b.kind = b0.kind := by
  unfold buildBlock at h
  split at h
  · -- conv
    unfold createConv2d at h
    split at h
    · cases h
    · rename_i b0 hb0
      split at h
      · injection h with h; subst h; exact ⟨_, b0, hb0, rfl, rfl, rfl, rfl, rfl, rfl, rfl, rfl, rfl, rfl⟩
      · split at h
        · cases h
        · injection h with h; subst h; exact ⟨_, b0, hb0, rfl, rfl, rfl, rfl, rfl, rfl, rfl, rfl, rfl, rfl⟩
  · unfold createConv2d at h
    split at h
    · cases h
    · rename_i b0 hb0
      split at h
      · injection h with h; subst h; exact ⟨_, b0, hb0, rfl, rfl, rfl, rfl, rfl, rfl, rfl, rfl, rfl, rfl⟩
      · split at h
        · cases h
        · injection h with h; subst h; exact ⟨_, b0, hb0, rfl, rfl, rfl, rfl, rfl, rfl, rfl, rfl, rfl, rfl⟩
  · unfold createDepthwise at h
    exact ⟨_, b, h, rfl, rfl, rfl, rfl, rfl, rfl, rfl, rfl, rfl, rfl⟩
  · unfold createPool at h
    split at h
    · cases h
    · split at h
      · cases h
      · rename_i b0 hb0
        split at h <;>
          (injection h with h; subst h; exact ⟨_, b0, hb0, rfl, rfl, rfl, rfl, rfl, rfl, rfl, rfl, rfl, rfl⟩)
  · unfold createPool at h
    split at h
    · cases h
    · split at h
      · cases h
      · rename_i b0 hb0
        split at h <;>
          (injection h with h; subst h; exact ⟨_, b0, hb0, rfl, rfl, rfl, rfl, rfl, rfl, rfl, rfl, rfl, rfl⟩)
  · rename_i hbt
    simp [OpT.isElementwise, hbt] at hne
  · cases h

end VelaVerif.NpuOpBuild
