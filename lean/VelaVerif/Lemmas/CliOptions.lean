import VelaVerif.Spec.CliOptions
set_option linter.unusedSimpArgs false
/-! Helper lemmas for Props/C13Cli: the pieces of `CliOptions.validate` against the rule list of Spec/CliOptions. -/
namespace VelaVerif.Lemmas.CliOptions
open VelaVerif.CliOptions VelaVerif.CliOptions.Spec

theorem checkConfigs_eq (cs : List CfgArg) :
    checkConfigs cs = match firstBadConfig cs with | some r => .error r | none => .ok () := by
  induction cs with
  | nil => rfl
  | cons c cs ih =>
    simp only [checkConfigs, firstBadConfig]
    cases c.endsIni <;> cases c.readable <;> simp [ih]

theorem firstBadConfig_none (cs : List CfgArg) :
    firstBadConfig cs = none ↔ ∀ c ∈ cs, c.endsIni = true ∧ c.readable = true := by
  induction cs with
  | nil => simp [firstBadConfig]
  | cons c cs ih =>
    simp only [firstBadConfig, List.mem_cons, forall_eq_or_imp]
    cases c.endsIni <;> cases c.readable <;> simp [ih]

theorem firstBadConfig_cases (cs : List CfgArg) :
    firstBadConfig cs = none ∨ firstBadConfig cs = some .configIni ∨ firstBadConfig cs = some .configReadable := by
  induction cs with
  | nil => simp [firstBadConfig]
  | cons c cs ih =>
    simp only [firstBadConfig]
    cases c.endsIni <;> cases c.readable <;> simp [ih]

theorem notPow2_iff {n : Nat} (h : n ≠ 0) : notPow2 n = true ↔ ¬ Nat.isPowerOfTwo n := by
  unfold notPow2
  rw [← Nat.and_sub_one_eq_zero_iff_isPowerOfTwo h]
  simp

theorem docDefaultSys_eq (a : Accel) : docDefaultSys a = defaultSys a := by cases a <;> rfl
theorem docDefaultMem_eq (a : Accel) : docDefaultMem a = defaultMem a := by cases a <;> rfl
theorem area_eq (s : SysCfg) (p : MemPort) : area s p = portArea s p := by cases p <;> rfl



def archRules : List Rule :=
  [.sysNeedsConfig, .sysSection, .memNeedsConfig, .memSection, .constArea, .arenaArea, .cacheArea, .arenaNegative, .arenaTooLarge]

def errOf {α} : Except Rule α → Option Rule
  | .error r => some r
  | .ok _ => none

theorem selectSys_eq (o : Opts) (a : Accel) :
    selectSys a o = match sysInForce o a with
      | some s => .ok s
      | none => .error (if o.configs.isEmpty then .sysNeedsConfig else .sysSection) := by
  unfold selectSys sysInForce
  rw [docDefaultSys_eq]
  rcases hc : o.configs with _ | ⟨c, cs⟩ <;> rcases hs : o.sysFile with _ | s <;> cases hsd : o.sysDefault <;> simp

theorem selectMem_eq (o : Opts) (a : Accel) :
    selectMem a o = match memInForce o a with
      | some s => .ok s
      | none => .error (if o.configs.isEmpty then .memNeedsConfig else .memSection) := by
  unfold selectMem memInForce
  rw [docDefaultMem_eq]
  rcases hc : o.configs with _ | ⟨c, cs⟩ <;> rcases hs : o.memFile with _ | s <;> cases hsd : o.memDefault <;> simp

theorem sysInForce_none (o : Opts) (a : Accel) :
    sysInForce o a = none ↔ o.sysDefault = false ∧ (o.configs.isEmpty = true ∨ o.sysFile = none) := by
  unfold sysInForce
  rcases hc : o.configs with _ | ⟨c, cs⟩ <;> rcases hs : o.sysFile with _ | s <;> cases hsd : o.sysDefault <;> simp

theorem memInForce_none (o : Opts) (a : Accel) :
    memInForce o a = none ↔ o.memDefault = false ∧ (o.configs.isEmpty = true ∨ o.memFile = none) := by
  unfold memInForce
  rcases hc : o.configs with _ | ⟨c, cs⟩ <;> rcases hs : o.memFile with _ | s <;> cases hsd : o.memDefault <;> simp

theorem selectArch_first (o : Opts) (a : Accel) (h : o.accel = some a) :
    archRules.find? (violated o) = errOf (selectArch a o) := by
  unfold selectArch
  rw [selectSys_eq, selectMem_eq]
  simp only [archRules, List.find?, violated, h, Option.getD_some, area_eq]
  rcases hs : sysInForce o a with _ | s
  · have := (sysInForce_none o a).1 hs
    rcases hc : o.configs with _ | ⟨c, cs⟩ <;> simp_all [errOf]
  · have hs' : ¬ (o.sysDefault = false ∧ (o.configs.isEmpty = true ∨ o.sysFile = none)) := by
      rw [← sysInForce_none o a, hs]; simp
    rcases hm : memInForce o a with _ | m
    · have := (memInForce_none o a).1 hm
      rcases hc : o.configs with _ | ⟨c, cs⟩ <;> cases hsd : o.sysDefault <;> cases hf : o.sysFile <;> simp_all [errOf]
    · have hm' : ¬ (o.memDefault = false ∧ (o.configs.isEmpty = true ∨ o.memFile = none)) := by
        rw [← memInForce_none o a, hm]; simp
      have e1 : (o.configs.isEmpty && !o.sysDefault) = false := by
        cases hsd : o.sysDefault <;> cases hc : o.configs.isEmpty <;> simp_all
      have e2 : (!o.configs.isEmpty && o.sysFile.isNone && !o.sysDefault) = false := by
        cases hsd : o.sysDefault <;> cases hc : o.configs.isEmpty <;> cases hf : o.sysFile <;> simp_all
      have e3 : (o.configs.isEmpty && !o.memDefault) = false := by
        cases hsd : o.memDefault <;> cases hc : o.configs.isEmpty <;> simp_all
      have e4 : (!o.configs.isEmpty && o.memFile.isNone && !o.memDefault) = false := by
        cases hsd : o.memDefault <;> cases hc : o.configs.isEmpty <;> cases hf : o.memFile <;> simp_all
      simp only [e1, e2, e3, e4, checkArch]
      generalize overrideSram s m = sm
      by_cases c1 : portArea sm.1 sm.2.constPort = .sram
      · simp [c1, errOf]
      have b1 : (portArea sm.1 sm.2.constPort == MemArea.sram) = false := by simpa using c1
      by_cases c2 : (portArea sm.1 sm.2.arenaPort = .sram ∨ portArea sm.1 sm.2.arenaPort = .dram)
      · by_cases c3 : portArea sm.1 sm.2.cachePort = .sram
        · by_cases c4 : o.arenaCacheSize < 0
          · rcases c2 with c2 | c2 <;> simp [b1, c1, c2, c3, c4, errOf]
          · by_cases c5 : o.arenaCacheSize > maxAddressOffset a
            · rcases c2 with c2 | c2 <;> simp [b1, c1, c2, c3, c4, c5, errOf]
            · rcases c2 with c2 | c2 <;> simp [b1, c1, c2, c3, c4, c5, errOf]
        · have b3 : (portArea sm.1 sm.2.cachePort != MemArea.sram) = true := by simpa using c3
          rcases c2 with c2 | c2 <;> simp [b1, b3, c1, c2, c3, errOf]
      · have c2' := not_or.1 c2
        have b2a : (portArea sm.1 sm.2.arenaPort == MemArea.sram) = false := by simpa using c2'.1
        have b2b : (portArea sm.1 sm.2.arenaPort == MemArea.dram) = false := by simpa using c2'.2
        simp [b1, b2a, b2b, c1, c2'.1, c2'.2, errOf]

theorem mainRules_split : mainRules =
    [.networkRequired, .configIni, .configReadable, .alignment, .recursionLimit] ++ (archRules ++ [.networkFile, .networkSuffix]) := rfl

theorem firstViolated_eq (o : Opts) : firstViolated o = errOf (validate o) := by
  unfold firstViolated rulesFor validate
  rcases ha : o.accel with _ | a
  · simp [parseRules, List.find?, violated, ha, errOf]
  rcases hal : o.allocator with _ | al
  · simp [parseRules, List.find?, violated, ha, hal, errOf]
  by_cases hb : o.maxBlockdep < 0 ∨ o.maxBlockdep > 3
  · have : (o.maxBlockdep < 0 ∨ 3 < o.maxBlockdep) := hb
    simp [parseRules, List.find?, violated, ha, hal, hb, this, errOf]
  rcases hop : o.optimise with _ | op
  · have : ¬ (o.maxBlockdep < 0 ∨ 3 < o.maxBlockdep) := hb
    simp [parseRules, List.find?, violated, ha, hal, hb, this, hop, errOf]
  have hp : parseRules.find? (violated o) = none := by
    have : ¬ (o.maxBlockdep < 0 ∨ 3 < o.maxBlockdep) := hb
    simp [parseRules, List.find?, violated, ha, hal, this, hop]
  rw [List.find?_append, hp, Option.none_or]
  simp only [hb, if_false]
  cases hr : o.supportedOpsReport with
  | true => simp [errOf]
  | false =>
  cases hl : o.listConfigFiles with
  | true => simp [errOf]
  | false =>
  simp only [Bool.or_self, Bool.false_eq_true, if_false]
  rcases hn : o.network with _ | sfx
  · simp [mainRules, List.find?, violated, hn, errOf]
  rw [checkConfigs_eq]
  have hnr : violated o .networkRequired = false := by simp [violated, hn]
  rcases firstBadConfig_cases o.configs with hc | hc | hc
  · have hci : violated o .configIni = false := by simp [violated, hc]
    have hcr : violated o .configReadable = false := by simp [violated, hc]
    simp only [hc]
    by_cases hA : o.cpuTensorAlignment < 16 ∨ notPow2 o.cpuTensorAlignment.toNat = true
    · have : violated o .alignment = true := by
        simp only [violated]
        rcases hA with hA | hA
        · simp [hA]
        · by_cases h16 : o.cpuTensorAlignment < 16
          · simp [h16]
          · have hne : o.cpuTensorAlignment.toNat ≠ 0 := by omega
            have := (notPow2_iff hne).1 hA
            simp [this]
      simp [mainRules, List.find?, hnr, hci, hcr, this, hA, errOf]
    · have hA' := not_or.1 hA
      have : violated o .alignment = false := by
        have hne : o.cpuTensorAlignment.toNat ≠ 0 := by omega
        have hp2 : Nat.isPowerOfTwo o.cpuTensorAlignment.toNat := by
          have := (not_congr (notPow2_iff hne)).1 hA'.2
          exact Classical.not_not.1 this
        simp [violated, hA'.1, hp2]
      simp only [hA, if_false]
      by_cases hR : o.recursionLimit < 1 ∨ o.recursionLimit > 2147483647
      · have hR' : o.recursionLimit < 1 ∨ 2147483647 < o.recursionLimit := hR
        have : violated o .recursionLimit = true := by simp [violated, hR']
        simp [mainRules, List.find?, hnr, hci, hcr, *, errOf]
      · have hR' : ¬ (o.recursionLimit < 1 ∨ 2147483647 < o.recursionLimit) := hR
        have hrl : violated o .recursionLimit = false := by simp [violated, hR']
        rw [mainRules_split, List.find?_append]
        have h5 : List.find? (violated o) [.networkRequired, .configIni, .configReadable, .alignment, .recursionLimit] = none := by
          simp [List.find?, *]
        rw [h5, Option.none_or, List.find?_append, selectArch_first o a ha]
        simp only [hR, if_false]
        rcases hsa : selectArch a o with r | ⟨sys, mem⟩
        · simp [errOf]
        · simp only [errOf, Option.none_or]
          cases hne : o.networkExists with
          | false => simp [List.find?, violated, hne, errOf]
          | true =>
            cases sfx <;> simp [List.find?, violated, hne, hn, frontendOf, errOf, (by decide : (Suffix.tflite == Suffix.other) = false), (by decide : (Suffix.tosa == Suffix.other) = false)]
  · simp [mainRules, List.find?, violated, hn, hc, errOf]
  · simp [mainRules, List.find?, violated, hn, hc, errOf, (by decide : (Rule.configReadable == Rule.configIni) = false)]


/-- the three area checks after the Sram→OnChipFlash override, stated on the sections as written in the files -/
theorem override_checks (s : SysCfg) (m : MemMode) :
    (portArea (overrideSram s m).1 (overrideSram s m).2.constPort ≠ .sram ∧
      (portArea (overrideSram s m).1 (overrideSram s m).2.arenaPort = .sram ∨ portArea (overrideSram s m).1 (overrideSram s m).2.arenaPort = .dram) ∧
      portArea (overrideSram s m).1 (overrideSram s m).2.cachePort = .sram) ↔
    ((area s m.constPort ≠ .sram ∨ (m.constPort = m.arenaPort ∧ m.arenaPort = m.cachePort)) ∧
      (area s m.arenaPort = .sram ∨ area s m.arenaPort = .dram) ∧ area s m.cachePort = .sram) := by
  rcases s with ⟨a0, a1⟩
  rcases m with ⟨c, ar, ca⟩
  cases a0 <;> cases a1 <;> cases c <;> cases ar <;> cases ca <;> decide

theorem checkArch_ok (a : Accel) (o : Opts) (sm r : SysCfg × MemMode) (h : checkArch a o sm = .ok r) :
    r = sm ∧ portArea sm.1 sm.2.constPort ≠ .sram ∧
      (portArea sm.1 sm.2.arenaPort = .sram ∨ portArea sm.1 sm.2.arenaPort = .dram) ∧
      portArea sm.1 sm.2.cachePort = .sram ∧ 0 ≤ o.arenaCacheSize ∧ o.arenaCacheSize ≤ maxAddressOffset a := by
  unfold checkArch at h
  repeat' split at h
  all_goals first | cases h | skip
  rename_i h1 h2 h3 h4 h5
  refine ⟨rfl, h1, Classical.not_not.1 h2, Classical.not_not.1 h3, by omega, by omega⟩

end VelaVerif.Lemmas.CliOptions
