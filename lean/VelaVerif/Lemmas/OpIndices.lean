import VelaVerif.Model.OpIndices
/-! Lemmas about the operand-index alignment model: swap schedules are parametric in the operands, do not depend on
the operand count beyond the row bound, and therefore the bounded decidable check `Row.ok` implies the round trip
for operand lists of every length. -/
namespace VelaVerif.OpIndices

theorem swapList_length (l : List α) (i j : Nat) : (swapList l i j).length = l.length := by
  unfold swapList; split <;> simp

theorem applySwaps_cons (p : Nat × Nat) (ps : List (Nat × Nat)) (l : List α) :
    applySwaps (p :: ps) l = applySwaps ps (swapList l p.1 p.2) := rfl

theorem applySwaps_append (s1 s2 : List (Nat × Nat)) (l : List α) :
    applySwaps (s1 ++ s2) l = applySwaps s2 (applySwaps s1 l) := by
  unfold applySwaps; exact List.foldl_append ..

theorem applySwaps_length (sw : List (Nat × Nat)) (l : List α) : (applySwaps sw l).length = l.length := by
  induction sw generalizing l with
  | nil => rfl
  | cons p ps ih => rw [applySwaps_cons, ih, swapList_length]

theorem swapList_map (f : α → β) (l : List α) (i j : Nat) : swapList (l.map f) i j = (swapList l i j).map f := by
  unfold swapList
  simp only [List.getElem?_map]
  cases l[i]? <;> cases l[j]? <;> simp [List.map_set]

theorem applySwaps_map (f : α → β) (sw : List (Nat × Nat)) (l : List α) :
    applySwaps sw (l.map f) = (applySwaps sw l).map f := by
  induction sw generalizing l with
  | nil => rfl
  | cons p ps ih => rw [applySwaps_cons, applySwaps_cons, swapList_map, ih]

theorem swapList_append_left (l1 l2 : List α) (i j : Nat) (hi : i < l1.length) (hj : j < l1.length) :
    swapList (l1 ++ l2) i j = swapList l1 i j ++ l2 := by
  unfold swapList
  rw [List.getElem?_append_left hi, List.getElem?_append_left hj]
  rw [List.getElem?_eq_getElem hi, List.getElem?_eq_getElem hj]
  simp only
  rw [List.set_append_left _ _ hi, List.set_append_left _ _ (by simpa using hj)]

theorem applySwaps_append_left (sw : List (Nat × Nat)) (l1 l2 : List α)
    (h : ∀ p ∈ sw, p.1 < l1.length ∧ p.2 < l1.length) : applySwaps sw (l1 ++ l2) = applySwaps sw l1 ++ l2 := by
  induction sw generalizing l1 with
  | nil => rfl
  | cons p ps ih =>
    have hp := h p (List.mem_cons_self ..)
    rw [applySwaps_cons, applySwaps_cons, swapList_append_left _ _ _ _ hp.1 hp.2]
    apply ih
    intro q hq
    rw [swapList_length]
    exact h q (List.mem_cons_of_mem _ hq)

theorem map_getElem?_range (ys : List α) : (List.range ys.length).map (fun i => ys[i]?) = ys.map some := by
  apply List.ext_getElem
  · simp
  · intro i h1 h2
    simp at h1
    simp [h1]

/-- a swap schedule that fixes `[0, …, n)` fixes every list of length `n` -/
theorem applySwaps_id_of_range (sw : List (Nat × Nat)) (n : Nat) (h : applySwaps sw (List.range n) = List.range n)
    (ys : List α) (hy : ys.length = n) : applySwaps sw ys = ys := by
  subst hy
  have h1 : (applySwaps sw ys).map some = ys.map some := by
    rw [← applySwaps_map, ← map_getElem?_range, applySwaps_map, h]
  exact (List.map_inj_right (fun _ _ h => Option.some.inj h)).mp h1

theorem findSwap_some_lt (fl : List Nat) (t : Nat) : ∀ (c : List Nat) (j : Nat), findSwap fl t c = .ok (some j) → j < fl.length
  | [], j, h => by simp [findSwap] at h
  | jdx :: rest, j, h => by
    unfold findSwap at h
    split at h
    · simp at h
    · rename_i v hv
      split at h
      · simp only [Except.ok.injEq, Option.some.injEq] at h
        subst h
        exact (List.getElem?_eq_some_iff.mp hv).1
      · exact findSwap_some_lt fl t rest j h

theorem alignLoop_cons_lt (fI tI : Indices) (toL : List Nat) (n idx tIdx : Nat) (rest fl : List Nat) (sw : List (Nat × Nat))
    (h : tIdx < n) :
    alignLoop fI tI toL n idx (tIdx :: rest) fl sw =
      if toL[idx]? != fl[idx]? then
        match findSwap fl tIdx (fl.drop idx) with
        | .error e => .error e
        | .ok none => alignLoop fI tI toL n (idx + 1) rest fl sw
        | .ok (some jdx) =>
          if idx < n && jdx < n then alignLoop fI tI toL n (idx + 1) rest (swapList fl idx jdx) (sw ++ [(idx, jdx)])
          else .error "index"
      else alignLoop fI tI toL n (idx + 1) rest fl sw := by
  rw [alignLoop, if_neg (by omega)]
  split
  · cases findSwap fl tIdx (List.drop idx fl) with
    | error e => rfl
    | ok r => cases r <;> rfl
  · rfl

/-- beyond the bound, the loop no longer depends on the operand count -/
theorem alignLoop_sat (fI tI : Indices) (toL : List Nat) (B n : Nat) (hn : B ≤ n) :
    ∀ (rest : List Nat) (idx : Nat) (fl : List Nat) (sw : List (Nat × Nat)),
      (∀ t ∈ rest, t < B) → idx + rest.length ≤ B → fl.length ≤ B →
      alignLoop fI tI toL n idx rest fl sw = alignLoop fI tI toL B idx rest fl sw
  | [], idx, fl, sw, _, _, _ => by simp [alignLoop]
  | tIdx :: rest, idx, fl, sw, ht, hlen, hfl => by
    have htB : tIdx < B := ht tIdx (List.mem_cons_self ..)
    have hrest : ∀ t ∈ rest, t < B := fun t h => ht t (List.mem_cons_of_mem _ h)
    have hlen0 : idx + (rest.length + 1) ≤ B := hlen
    have hlen' : idx + 1 + rest.length ≤ B := by omega
    rw [alignLoop_cons_lt _ _ _ _ _ _ _ _ _ (by omega : tIdx < n), alignLoop_cons_lt _ _ _ _ _ _ _ _ _ htB]
    split
    · cases hf : findSwap fl tIdx (fl.drop idx) with
      | error e => rfl
      | ok r =>
        cases r with
        | none => exact alignLoop_sat fI tI toL B n hn rest (idx + 1) fl sw hrest hlen' hfl
        | some jdx =>
          have hj : jdx < fl.length := findSwap_some_lt fl tIdx _ jdx hf
          have c1 : (decide (idx < n) && decide (jdx < n)) = true := by
            simp only [Bool.and_eq_true, decide_eq_true_eq]; omega
          have c2 : (decide (idx < B) && decide (jdx < B)) = true := by
            simp only [Bool.and_eq_true, decide_eq_true_eq]; omega
          simp only [c1, c2, if_true]
          exact alignLoop_sat fI tI toL B n hn rest (idx + 1) _ _ hrest hlen' (by rw [swapList_length]; exact hfl)
    · exact alignLoop_sat fI tI toL B n hn rest (idx + 1) fl sw hrest hlen' hfl

/-- every swap the loop records is between positions below the operand count -/
theorem alignLoop_swaps_lt (fI tI : Indices) (toL : List Nat) (n : Nat) :
    ∀ (rest : List Nat) (idx : Nat) (fl : List Nat) (sw : List (Nat × Nat)) (fl' : List Nat) (sw' : List (Nat × Nat)),
      alignLoop fI tI toL n idx rest fl sw = .ok (fl', sw') → (∀ p ∈ sw, p.1 < n ∧ p.2 < n) → ∀ p ∈ sw', p.1 < n ∧ p.2 < n
  | [], idx, fl, sw, fl', sw', h, hs => by
    simp only [alignLoop, Except.ok.injEq, Prod.mk.injEq] at h
    rw [← h.2]; exact hs
  | tIdx :: rest, idx, fl, sw, fl', sw', h, hs => by
    unfold alignLoop at h
    split at h
    · split at h
      · exact alignLoop_swaps_lt fI tI toL n rest _ _ _ _ _ h hs
      · simp at h
    · split at h
      · cases hf : findSwap fl tIdx (fl.drop idx) with
        | error e => simp [hf] at h
        | ok r =>
          cases r with
          | none =>
            simp only [hf] at h
            exact alignLoop_swaps_lt fI tI toL n rest _ _ _ _ _ h hs
          | some jdx =>
            simp only [hf] at h
            split at h
            · rename_i hc
              simp only [Bool.and_eq_true, decide_eq_true_eq] at hc
              apply alignLoop_swaps_lt fI tI toL n rest _ _ _ _ _ h
              intro p hp
              rcases List.mem_append.mp hp with hp | hp
              · exact hs p hp
              · simp only [List.mem_singleton] at hp
                subst hp
                exact hc
            · simp at h
      · exact alignLoop_swaps_lt fI tI toL n rest _ _ _ _ _ h hs


theorem lt_listBound : ∀ (l : List Nat) (x : Nat), x ∈ l → x < listBound l
  | [], _, h => by simp at h
  | y :: ys, x, h => by
    unfold listBound
    rcases List.mem_cons.mp h with rfl | h'
    · omega
    · have := lt_listBound ys x h'; omega

/-- beyond the bound the swap schedule no longer depends on the operand count -/
theorem alignSwaps_sat (fI tI : Indices) (B n : Nat) (hn : B ≤ n) (hB : ∀ t ∈ tI.flat, t < B)
    (hlt : tI.flat.length ≤ B) (hlf : fI.flat.length ≤ B) : alignSwaps fI tI n = alignSwaps fI tI B := by
  unfold alignSwaps
  simp only
  rw [alignLoop_sat fI tI tI.flat B n hn tI.flat 0 fI.flat [] hB (by omega) hlf]

theorem alignSwaps_lt (fI tI : Indices) (n : Nat) (sw : List (Nat × Nat)) (h : alignSwaps fI tI n = .ok sw) :
    ∀ p ∈ sw, p.1 < n ∧ p.2 < n := by
  unfold alignSwaps at h
  simp only at h
  split at h
  · simp at h
  · split at h
    · simp only [Except.ok.injEq] at h; subst h; simp
    · split at h
      · simp at h
      · rename_i fl sw' hl
        split at h
        · simp only [Except.ok.injEq] at h; subst h
          exact alignLoop_swaps_lt fI tI tI.flat n tI.flat 0 fI.flat [] fl sw' hl (by simp)
        · simp at h

theorem rightArity_mono (r : Row) (m n : Nat) (h : m ≤ n) (hm : r.rightArity m = true) : r.rightArity n = true := by
  unfold Row.rightArity at *
  rw [List.all_eq_true] at *
  intro x hx
  have := hm x hx
  simp only [decide_eq_true_eq] at *
  omega

theorem rightArity_bound (r : Row) : r.rightArity r.bound = true := by
  unfold Row.rightArity
  rw [List.all_eq_true]
  intro x hx
  simp only [decide_eq_true_eq]
  have : x ∈ r.tflite.flat ++ r.nng.flat ++ r.wtflite.flat := by
    simp only [Indices.flat, List.mem_append] at *
    rcases hx with ((((h | h) | h) | h) | h) | h <;> simp [h]
  have := lt_listBound _ x this
  unfold Row.bound
  omega

/-- the bounded decidable check implies the round trip for operand lists of every length -/
theorem roundTrip_of_ok (r : Row) (h : r.ok = true) (xs : List α) (ha : r.rightArity xs.length = true) :
    r.roundTrip xs = .ok xs := by
  unfold Row.ok at h
  rw [List.all_eq_true] at h
  -- the schedule at the effective arity m = min xs.length bound
  have key : ∀ m, m ≤ r.bound → r.rightArity m = true →
      ∃ s1 s2, alignSwaps r.tflite r.nng m = .ok s1 ∧ alignSwaps r.nng r.wtflite m = .ok s2 ∧
        applySwaps (s1 ++ s2) (List.range m) = List.range m := by
    intro m hm hr
    have := h m (List.mem_range.mpr (by omega))
    simp only [hr, Bool.not_true, Bool.false_or] at this
    unfold Row.rtOk at this
    split at this
    · rename_i s1 h1
      split at this
      · rename_i s2 h2
        exact ⟨s1, s2, h1, h2, by simpa using this⟩
      · simp at this
    · simp at this
  have hflat : ∀ t, (t ∈ r.tflite.flat ∨ t ∈ r.nng.flat ∨ t ∈ r.wtflite.flat) → t < r.bound := by
    intro t ht
    have : t ∈ r.tflite.flat ++ r.nng.flat ++ r.wtflite.flat := by
      simp only [List.mem_append]; rcases ht with h | h | h <;> simp [h]
    have := lt_listBound _ t this
    unfold Row.bound; omega
  have hlens : r.tflite.flat.length ≤ r.bound ∧ r.nng.flat.length ≤ r.bound ∧ r.wtflite.flat.length ≤ r.bound := by
    unfold Row.bound; omega
  by_cases hle : xs.length ≤ r.bound
  · obtain ⟨s1, s2, h1, h2, hid⟩ := key xs.length hle ha
    unfold Row.roundTrip alignInputs
    simp only [h1, applySwaps_length, h2]
    rw [← applySwaps_append, applySwaps_id_of_range _ _ hid xs rfl]
  · have hgt : r.bound ≤ xs.length := by omega
    obtain ⟨s1, s2, h1, h2, hid⟩ := key r.bound (Nat.le_refl _) (rightArity_bound r)
    have e1 : alignSwaps r.tflite r.nng xs.length = .ok s1 := by
      rw [alignSwaps_sat _ _ r.bound xs.length hgt (fun t ht => hflat t (Or.inr (Or.inl ht))) hlens.2.1 hlens.1, h1]
    have e2 : alignSwaps r.nng r.wtflite xs.length = .ok s2 := by
      rw [alignSwaps_sat _ _ r.bound xs.length hgt (fun t ht => hflat t (Or.inr (Or.inr ht))) hlens.2.2 hlens.2.1, h2]
    unfold Row.roundTrip alignInputs
    simp only [e1, applySwaps_length, e2]
    rw [← applySwaps_append]
    have hpos : ∀ p ∈ s1 ++ s2, p.1 < (xs.take r.bound).length ∧ p.2 < (xs.take r.bound).length := by
      intro p hp
      rw [List.length_take, Nat.min_eq_left hgt]
      rcases List.mem_append.mp hp with hp | hp
      · exact alignSwaps_lt _ _ _ _ h1 p hp
      · exact alignSwaps_lt _ _ _ _ h2 p hp
    conv => lhs; rw [← List.take_append_drop r.bound xs]
    rw [applySwaps_append_left _ _ _ hpos,
      applySwaps_id_of_range _ _ hid (xs.take r.bound) (by rw [List.length_take, Nat.min_eq_left hgt]),
      List.take_append_drop]

end VelaVerif.OpIndices
