import VelaVerif.Model.WeightLayout
import VelaVerif.Spec.WeightLayout
/-! Helper lemmas for C08 (model: `Model/WeightLayout.lean`, spec: `Spec/WeightLayout.lean`). -/
namespace VelaVerif.WeightLayout
open VelaVerif.WeightSpec (bytesAt decodeRecord decodeRecords Rec chanOf SReq ValidReq Expect expected slices slicesFrom activeCores)

/-! ### the 80-bit record -/

def recordBytes (bias scale shift : Int) : List Nat :=
  [byteOf bias 0, byteOf bias 1, byteOf bias 2, byteOf bias 3, byteOf bias 4,
   byteOf scale 0, byteOf scale 1, byteOf scale 2, byteOf scale 3, (shift % 64).toNat]

/-- the argument ranges `encode_bias` asserts -/
def InRange (bias scale shift : Int) : Prop :=
  (-(2:Int)^39 ≤ bias ∧ bias < (2:Int)^39) ∧ (0 ≤ scale ∧ scale < (2:Int)^32) ∧ (0 ≤ shift ∧ shift < 64)

theorem encodeBias_ok (bias scale shift : Int) (h : InRange bias scale shift) :
    encodeBias bias scale shift = .ok (recordBytes bias scale shift) := by
  obtain ⟨hb, hs, hh⟩ := h
  unfold encodeBias
  simp only [hb, hs, hh, and_self, not_true_eq_false, if_false]
  rfl

theorem encodeBias_err (bias scale shift : Int) (h : ¬ InRange bias scale shift) :
    encodeBias bias scale shift = .error .assert := by
  unfold encodeBias InRange at *
  split
  · rfl
  · split
    · rfl
    · split
      · rfl
      · exfalso; apply h; simp_all

theorem encodeBias_ok_iff (bias scale shift : Int) (bytes : List Nat) :
    encodeBias bias scale shift = .ok bytes ↔ InRange bias scale shift ∧ bytes = recordBytes bias scale shift := by
  by_cases h : InRange bias scale shift
  · rw [encodeBias_ok _ _ _ h]; simp [h, eq_comm]
  · rw [encodeBias_err _ _ _ h]; simp [h]

theorem byteOf_lt (x : Int) (k : Nat) : byteOf x k < 256 := by
  unfold byteOf
  have h : (x / (256:Int)^k) % 256 < 256 := Int.emod_lt_of_pos _ (by decide)
  have h0 : 0 ≤ (x / (256:Int)^k) % 256 := Int.emod_nonneg _ (by decide)
  omega

private theorem step256 (x : Int) : x = x % 256 + 256 * (x / 256) := by omega

theorem decomp5 (x : Int) :
    x = x % 256 + 256 * (x / 256 % 256) + 65536 * (x / 65536 % 256) + 16777216 * (x / 16777216 % 256)
        + 4294967296 * (x / 4294967296 % 256) + 1099511627776 * (x / 1099511627776) := by
  have h1 : x / 65536 = x / 256 / 256 := by omega
  have h2 : x / 16777216 = x / 65536 / 256 := by omega
  have h3 : x / 4294967296 = x / 16777216 / 256 := by omega
  have h4 : x / 1099511627776 = x / 4294967296 / 256 := by omega
  have s0 := step256 x; have s1 := step256 (x / 256); have s2 := step256 (x / 65536)
  have s3 := step256 (x / 16777216); have s4 := step256 (x / 4294967296)
  rw [← h1] at s1; rw [← h2] at s2; rw [← h3] at s3; rw [← h4] at s4
  omega

private theorem signed40 (a0 a1 a2 a3 a4 q x : Int)
    (h : x = a0 + 256 * a1 + 65536 * a2 + 16777216 * a3 + 4294967296 * a4 + 1099511627776 * q)
    (b0 : 0 ≤ a0 ∧ a0 < 256) (b1 : 0 ≤ a1 ∧ a1 < 256) (b2 : 0 ≤ a2 ∧ a2 < 256) (b3 : 0 ≤ a3 ∧ a3 < 256)
    (b4 : 0 ≤ a4 ∧ a4 < 256) (hx : -549755813888 ≤ x ∧ x < 549755813888) :
    (if a0.toNat + 256 * a1.toNat + 65536 * a2.toNat + 16777216 * a3.toNat + 4294967296 * a4.toNat < 549755813888
     then ((a0.toNat + 256 * a1.toNat + 65536 * a2.toNat + 16777216 * a3.toNat + 4294967296 * a4.toNat : Nat) : Int)
     else ((a0.toNat + 256 * a1.toNat + 65536 * a2.toNat + 16777216 * a3.toNat + 4294967296 * a4.toNat : Nat) : Int)
            - 1099511627776) = x := by
  split <;> omega

private theorem unsigned32 (a0 a1 a2 a3 q x : Int) (h : x = a0 + 256 * a1 + 65536 * a2 + 16777216 * a3 + 4294967296 * q)
    (b0 : 0 ≤ a0 ∧ a0 < 256) (b1 : 0 ≤ a1 ∧ a1 < 256) (b2 : 0 ≤ a2 ∧ a2 < 256) (b3 : 0 ≤ a3 ∧ a3 < 256)
    (hx : 0 ≤ x ∧ x < 4294967296) :
    a0.toNat + 256 * a1.toNat + 65536 * a2.toNat + 16777216 * a3.toNat = x.toNat := by
  omega

theorem decode_recordBytes (bias scale shift : Int) (h : InRange bias scale shift) :
    decodeRecord (recordBytes bias scale shift) = some ⟨bias, scale.toNat, shift.toNat⟩ := by
  obtain ⟨hb, hs, hh⟩ := h
  simp only [decodeRecord, recordBytes]
  have e0 := byteOf_lt bias 0; have e1 := byteOf_lt bias 1; have e2 := byteOf_lt bias 2
  have e3 := byteOf_lt bias 3; have e4 := byteOf_lt bias 4
  have f0 := byteOf_lt scale 0; have f1 := byteOf_lt scale 1; have f2 := byteOf_lt scale 2
  have f3 := byteOf_lt scale 3
  have g : (shift % 64).toNat < 64 := by omega
  rw [if_pos ⟨e0, e1, e2, e3, e4, f0, f1, f2, f3, g⟩]
  simp only [Option.some.injEq, Rec.mk.injEq]
  simp only [Int.reducePow] at hb hs
  refine ⟨?_, ?_, ?_⟩
  · have d := decomp5 bias
    simp only [byteOf, Int.reducePow, Int.ediv_one, Nat.reducePow]
    exact signed40 _ _ _ _ _ _ _ d (by omega) (by omega) (by omega) (by omega) (by omega) hb
  · have d := decomp5 scale
    simp only [byteOf, Int.reducePow, Int.ediv_one]
    have hq2 : scale / 4294967296 % 256 = 0 := by omega
    have hq3 : scale / 1099511627776 = 0 := by omega
    rw [hq2, hq3] at d
    exact unsigned32 _ _ _ _ 0 _ (by omega) (by omega) (by omega) (by omega) (by omega) hs
  · omega

theorem recordBytes_length (b s h : Int) : (recordBytes b s h).length = 10 := rfl

theorem decodeRecords_cons (b s h : Int) (rest : List Nat) (r : Rec) (rs : List Rec)
    (hr : decodeRecord (recordBytes b s h) = some r) (hrs : decodeRecords rest = some rs) :
    decodeRecords (recordBytes b s h ++ rest) = some (r :: rs) := by
  simp only [recordBytes] at hr
  simp only [recordBytes, List.cons_append, List.nil_append, decodeRecords, hr, hrs]

/-! ### padding -/

theorem roundUp16_mod (n : Nat) : roundUp16 n % 16 = 0 := by unfold roundUp16; omega
theorem roundUp16_ge (n : Nat) : n ≤ roundUp16 n := by unfold roundUp16; omega
theorem roundUp16_of_mod (n : Nat) (h : n % 16 = 0) : roundUp16 n = n := by unfold roundUp16; omega
theorem roundUp16_add (a b : Nat) (h : b % 16 = 0) : roundUp16 (a + b) = roundUp16 a + b := by
  unfold roundUp16; omega

theorem padTo16_length (s : List Nat) : (padTo16 s).length = roundUp16 s.length := by
  unfold padTo16 roundUp16
  split
  · simp only [List.length_append, List.length_replicate]; omega
  · omega

theorem padTo16_eq (s : List Nat) : ∃ z, padTo16 s = s ++ z := by
  unfold padTo16
  split
  · exact ⟨_, rfl⟩
  · exact ⟨[], by simp⟩

/-! ### `bytesAt` -/

theorem bytesAt_append_left (s t : List Nat) (start len : Nat) (h : start + len ≤ s.length) :
    bytesAt (s ++ t) start len = bytesAt s start len := by
  unfold bytesAt
  rw [List.drop_append_of_le_length (by omega)]
  rw [List.take_append_of_le_length (by simp only [List.length_drop]; omega)]

theorem bytesAt_exact (s x t : List Nat) : bytesAt (s ++ x ++ t) s.length x.length = x := by
  unfold bytesAt
  rw [List.append_assoc, List.drop_left, List.take_left]

/-! ### one core iteration -/

/-- `core_block_depth` -/
def cbdOf (c : Cfg) (core : Nat) : Nat := (c.blockDepth + c.ncores - 1 - core) / c.ncores

/-- the range `encodeCore` creates, given the record bytes `ss` -/
def newRange (c : Cfg) (idx off len core : Nat) (st : St) (ss : List Nat) : Range :=
  let wch := if c.doWeights then weightChannels c off len core else []
  let sub := if c.doWeights then c.enc wch (cbdOf c core) else []
  { core := core, depth := off, offset := st.stream.length, scaleBytes := ss.length,
    weightOffset := if c.doWeights then (padTo16 (st.stream ++ ss)).length - st.stream.length else 0,
    weightBytes := sub.length, index := st.index, slice := idx, scaleCh := scaleChannels c off len core,
    weightCh := wch, cbd := cbdOf c core, scaleData := ss, weightData := sub }

theorem encodeCore_cases (c : Cfg) (idx off len core : Nat) (st st' : St)
    (h : encodeCore c idx off len core st = .ok st') :
    (cbdOf c core = 0 ∧ st' = st) ∨
    (cbdOf c core ≠ 0 ∧ ∃ ss,
      scaleRecords c (scaleChannels c off len core)
        (pySliceIdx c.scales.length (off + core) (off + len) c.ncores) = .ok ss ∧
      (c.doWeights = true → (padTo16 (st.stream ++ ss) ++ (newRange c idx off len core st ss).weightData).length % 16 = 0) ∧
      st' = { stream := padTo16 (st.stream ++ ss) ++ (newRange c idx off len core st ss).weightData,
              ranges := st.ranges ++ [newRange c idx off len core st ss], index := st.index + 1 }) := by
  unfold encodeCore at h
  simp only at h
  by_cases h0 : (c.blockDepth + c.ncores - 1 - core) / c.ncores = 0
  · left
    rw [if_pos h0] at h
    exact ⟨h0, by injection h with h; exact h.symm⟩
  · right
    rw [if_neg h0] at h
    refine ⟨h0, ?_⟩
    cases hs : scaleRecords c (scaleChannels c off len core)
        (pySliceIdx c.scales.length (off + core) (off + len) c.ncores) with
    | error e => rw [hs] at h; cases h
    | ok ss =>
      rw [hs] at h
      simp only at h
      by_cases hw : c.doWeights = true
      · simp only [hw, if_true, true_and, ne_eq] at h
        split at h
        · cases h
        · rename_i hassert
          injection h with h
          refine ⟨ss, rfl, ?_, ?_⟩
          · intro _
            simp only [Decidable.not_not] at hassert
            simpa [newRange, hw, cbdOf] using hassert
          · rw [← h]; simp [newRange, hw, cbdOf]
      · simp only [hw] at h
        injection h with h
        refine ⟨ss, rfl, fun hw' => absurd hw' hw, ?_⟩
        rw [← h]; simp [newRange, hw, cbdOf]

/-! ### the loop invariant -/

/-- what holds of a recorded range with respect to the stream built so far -/
structure RangeGood (c : Cfg) (S : List Nat) (r : Range) : Prop where
  offAligned : r.offset % 16 = 0
  woAligned : r.weightOffset % 16 = 0
  wbAligned : r.weightBytes % 16 = 0
  inside : r.stop ≤ S.length
  wo : r.weightOffset = if c.doWeights then roundUp16 r.scaleBytes else 0
  wb0 : c.doWeights = false → r.weightBytes = 0
  sbLen : r.scaleBytes = r.scaleData.length
  wbLen : r.weightBytes = r.weightData.length
  scaleAt : bytesAt S r.offset r.scaleBytes = r.scaleData
  weightAt : bytesAt S (r.offset + r.weightOffset) r.weightBytes = r.weightData

theorem Range.stop_ge_scale (r : Range) : r.offset + r.scaleBytes ≤ r.stop := by unfold Range.stop; omega
theorem Range.stop_ge_weight (r : Range) : r.offset + r.weightOffset + r.weightBytes ≤ r.stop := by
  unfold Range.stop; omega

theorem RangeGood.mono {c : Cfg} {S : List Nat} {r : Range} (h : RangeGood c S r) (T : List Nat) :
    RangeGood c (S ++ T) r := by
  refine { h with inside := ?_, scaleAt := ?_, weightAt := ?_ }
  · have := h.inside; simp only [List.length_append]; omega
  · rw [bytesAt_append_left _ _ _ _ (by have := h.inside; have := r.stop_ge_scale; omega)]; exact h.scaleAt
  · rw [bytesAt_append_left _ _ _ _ (by have := h.inside; have := r.stop_ge_weight; omega)]; exact h.weightAt

structure Good (c : Cfg) (st : St) : Prop where
  aligned : st.stream.length % 16 = 0
  rng : ∀ r ∈ st.ranges, RangeGood c st.stream r
  ordered : st.ranges.Pairwise (fun r s => r.stop ≤ s.offset)

theorem bytesAt_zero (S : List Nat) (k : Nat) : bytesAt S k 0 = [] := by simp [bytesAt]

theorem newRange_good (c : Cfg) (idx off len core : Nat) (st : St) (ss : List Nat)
    (hal : st.stream.length % 16 = 0)
    (hass : c.doWeights = true →
      (padTo16 (st.stream ++ ss) ++ (newRange c idx off len core st ss).weightData).length % 16 = 0) :
    RangeGood c (padTo16 (st.stream ++ ss) ++ (newRange c idx off len core st ss).weightData)
      (newRange c idx off len core st ss) ∧
    (padTo16 (st.stream ++ ss) ++ (newRange c idx off len core st ss).weightData).length % 16 = 0 := by
  obtain ⟨z, hz⟩ := padTo16_eq (st.stream ++ ss)
  have hpl := padTo16_length (st.stream ++ ss)
  simp only [List.length_append] at hpl
  have hr16 : roundUp16 (st.stream.length + ss.length) = st.stream.length + roundUp16 ss.length := by
    unfold roundUp16; omega
  have hr := roundUp16_mod ss.length
  have hge := roundUp16_ge ss.length
  by_cases hw : c.doWeights = true
  · have ha := hass hw
    simp only [List.length_append] at ha
    have hwo : (newRange c idx off len core st ss).weightOffset = roundUp16 ss.length := by
      simp only [newRange, hw, if_true, hpl]; omega
    refine ⟨{ offAligned := hal, woAligned := (by rw [hwo]; exact hr), wbAligned := ?_, inside := ?_, wo := ?_,
              wb0 := (fun h => by rw [hw] at h; cases h), sbLen := rfl, wbLen := rfl, scaleAt := ?_, weightAt := ?_ }, ?_⟩
    · show (newRange c idx off len core st ss).weightData.length % 16 = 0
      omega
    · show (newRange c idx off len core st ss).stop ≤ _
      unfold Range.stop
      rw [hwo]
      simp only [List.length_append, hpl]
      show st.stream.length + max ss.length (roundUp16 ss.length + (newRange c idx off len core st ss).weightData.length) ≤ _
      omega
    · rw [hwo]; simp [hw, newRange]
    · show bytesAt _ st.stream.length ss.length = ss
      rw [hz, List.append_assoc (st.stream ++ ss)]
      exact bytesAt_exact _ _ _
    · show bytesAt _ (st.stream.length + (newRange c idx off len core st ss).weightOffset)
        (newRange c idx off len core st ss).weightData.length = _
      rw [hwo]
      have : st.stream.length + roundUp16 ss.length = (padTo16 (st.stream ++ ss)).length := by
        rw [padTo16_length]; simp only [List.length_append]; omega
      rw [this]
      unfold bytesAt
      rw [List.drop_left, List.take_length]
    · simp only [List.length_append]; exact ha
  · have hwd : (newRange c idx off len core st ss).weightData = [] := by simp [newRange, hw]
    have hwo : (newRange c idx off len core st ss).weightOffset = 0 := by simp [newRange, hw]
    have hwb : (newRange c idx off len core st ss).weightBytes = 0 := by simp [newRange, hw]
    rw [hwd, List.append_nil]
    refine ⟨{ offAligned := hal, woAligned := (by rw [hwo]), wbAligned := (by rw [hwb]), inside := ?_, wo := ?_,
              wb0 := fun _ => hwb, sbLen := rfl, wbLen := (by rw [hwb, hwd]; rfl), scaleAt := ?_, weightAt := ?_ }, ?_⟩
    · unfold Range.stop
      rw [hwo, hwb, padTo16_length]
      simp only [List.length_append]
      show st.stream.length + max ss.length (0 + 0) ≤ _
      omega
    · rw [hwo]; simp [hw]
    · show bytesAt _ st.stream.length ss.length = ss
      rw [hz]
      exact bytesAt_exact _ _ _
    · rw [hwb, hwd]; exact bytesAt_zero _ _
    · rw [padTo16_length]; exact roundUp16_mod _


/-- the ghost fields of a range created for `(idx, off, len, core)` -/
structure Made (c : Cfg) (idx off len core : Nat) (r : Range) : Prop where
  hcore : r.core = core
  hdepth : r.depth = off
  hslice : r.slice = idx
  hscaleCh : r.scaleCh = scaleChannels c off len core
  hweightCh : r.weightCh = if c.doWeights then weightChannels c off len core else []
  hcbd : r.cbd = cbdOf c core
  recs : scaleRecords c r.scaleCh (pySliceIdx c.scales.length (off + core) (off + len) c.ncores) = .ok r.scaleData
  wdata : r.weightData = if c.doWeights then c.enc r.weightCh r.cbd else []

theorem newRange_made (c : Cfg) (idx off len core : Nat) (st : St) (ss : List Nat)
    (hs : scaleRecords c (scaleChannels c off len core)
        (pySliceIdx c.scales.length (off + core) (off + len) c.ncores) = .ok ss) :
    Made c idx off len core (newRange c idx off len core st ss) :=
  { hcore := rfl, hdepth := rfl, hslice := rfl, hscaleCh := rfl, hweightCh := rfl, hcbd := rfl, recs := hs,
    wdata := by simp only [newRange] }

def dmaSum (rs : List Range) : Nat := (rs.map fun r => roundUp16 r.totalBytes).sum

theorem encodeCore_spec (c : Cfg) (idx off len core : Nat) (st st' : St) (hg : Good c st)
    (he : encodeCore c idx off len core st = .ok st') :
    Good c st' ∧
    ((cbdOf c core = 0 ∧ st' = st) ∨
     (cbdOf c core ≠ 0 ∧ ∃ r T, st'.ranges = st.ranges ++ [r] ∧ st'.stream = st.stream ++ T ∧
        Made c idx off len core r ∧ T.length = roundUp16 r.totalBytes ∧ r.offset = st.stream.length)) := by
  rcases encodeCore_cases c idx off len core st st' he with ⟨h0, rfl⟩ | ⟨h0, ss, hs, hass, rfl⟩
  · exact ⟨hg, Or.inl ⟨h0, rfl⟩⟩
  · obtain ⟨hrg, hal⟩ := newRange_good c idx off len core st ss hg.aligned hass
    obtain ⟨z, hz⟩ := padTo16_eq (st.stream ++ ss)
    have hstream : padTo16 (st.stream ++ ss) ++ (newRange c idx off len core st ss).weightData
        = st.stream ++ (ss ++ z ++ (newRange c idx off len core st ss).weightData) := by
      rw [hz]; simp only [List.append_assoc]
    refine ⟨{ aligned := hal, rng := ?_, ordered := ?_ }, Or.inr ⟨h0, _, _, rfl, hstream, newRange_made c idx off len core st ss hs, ?_, rfl⟩⟩
    · intro r hr
      simp only [List.mem_append, List.mem_singleton] at hr
      rcases hr with hr | rfl
      · show RangeGood c (padTo16 (st.stream ++ ss) ++ _) r
        rw [hstream]; exact (hg.rng r hr).mono _
      · exact hrg
    · show (st.ranges ++ [_]).Pairwise _
      rw [List.pairwise_append]
      refine ⟨hg.ordered, List.pairwise_singleton _ _, ?_⟩
      intro a ha b hb
      simp only [List.mem_singleton] at hb
      subst hb
      exact (hg.rng a ha).inside
    · -- length of the appended bytes
      have hl := congrArg List.length hstream
      have hpl := padTo16_length (st.stream ++ ss)
      simp only [List.length_append] at hl hpl
      have hr16 : roundUp16 (st.stream.length + ss.length) = st.stream.length + roundUp16 ss.length := by
        have := hg.aligned; unfold roundUp16; omega
      have hwb := hrg.wbAligned
      have hwl := hrg.wbLen
      have : (newRange c idx off len core st ss).totalBytes = ss.length + (newRange c idx off len core st ss).weightData.length := by
        unfold Range.totalBytes; rw [hwl]; rfl
      rw [this, roundUp16_add _ _ (by rw [← hwl]; exact hwb)]
      simp only [List.length_append]
      omega


/-- element-wise relation between two lists of the same length -/
inductive All₂ {α β : Type} (R : α → β → Prop) : List α → List β → Prop
  | nil : All₂ R [] []
  | cons {a : α} {b : β} {as : List α} {bs : List β} : R a b → All₂ R as bs → All₂ R (a :: as) (b :: bs)

theorem All₂.append {α β : Type} {R : α → β → Prop} {a a' : List α} {b b' : List β}
    (h : All₂ R a b) (h' : All₂ R a' b') : All₂ R (a ++ a') (b ++ b') := by
  induction h with
  | nil => simpa using h'
  | cons hx _ ih => exact All₂.cons hx ih

theorem All₂.length_eq {α β : Type} {R : α → β → Prop} {a : List α} {b : List β} (h : All₂ R a b) :
    a.length = b.length := by
  induction h with
  | nil => rfl
  | cons _ _ ih => simp [ih]

theorem All₂.zip {α β : Type} {R : α → β → Prop} {a : List α} {b : List β} (h : All₂ R a b) :
    ∀ p ∈ a.zip b, R p.1 p.2 := by
  induction h with
  | nil => simp
  | cons hx _ ih =>
    intro p hp
    simp only [List.zip_cons_cons, List.mem_cons] at hp
    rcases hp with rfl | hp
    · exact hx
    · exact ih p hp

theorem All₂.mono {α β : Type} {R S : α → β → Prop} {a : List α} {b : List β} (h : All₂ R a b)
    (hrs : ∀ x y, R x y → S x y) : All₂ S a b := by
  induction h with
  | nil => exact All₂.nil
  | cons hx _ ih => exact All₂.cons (hrs _ _ hx) ih

theorem All₂.map_eq {α β γ : Type} {R : α → β → Prop} {a : List α} {b : List β} (f : α → γ) (g : β → γ)
    (h : All₂ R a b) (hfg : ∀ x y, R x y → g y = f x) : b.map g = a.map f := by
  induction h with
  | nil => rfl
  | cons hx _ ih => simp [hfg _ _ hx, ih]

theorem dmaSum_append (a b : List Range) : dmaSum (a ++ b) = dmaSum a + dmaSum b := by
  simp [dmaSum, List.map_append, List.sum_append]

/-- cores of a slice that get a range -/
def activeCoresM (c : Cfg) (cores : List Nat) : List Nat := cores.filter (fun k => cbdOf c k ≠ 0)

theorem encodeCores_spec (c : Cfg) (idx off len : Nat) : ∀ (cores : List Nat) (st st' : St), Good c st →
    encodeCores c idx off len cores st = .ok st' →
    Good c st' ∧ ∃ new T, st'.ranges = st.ranges ++ new ∧ st'.stream = st.stream ++ T ∧
      All₂ (fun k r => Made c idx off len k r) (activeCoresM c cores) new ∧ T.length = dmaSum new ∧
      (∀ r ∈ new, st.stream.length ≤ r.offset) := by
  intro cores
  induction cores with
  | nil =>
    intro st st' hg he
    simp only [encodeCores] at he
    injection he with he
    subst he
    exact ⟨hg, [], [], by simp, by simp, by simpa [activeCoresM] using All₂.nil, by simp [dmaSum], by simp⟩
  | cons k ks ih =>
    intro st st' hg he
    simp only [encodeCores] at he
    cases h1 : encodeCore c idx off len k st with
    | error e => rw [h1] at he; cases he
    | ok st1 =>
      rw [h1] at he
      simp only at he
      obtain ⟨hg1, hcase⟩ := encodeCore_spec c idx off len k st st1 hg h1
      obtain ⟨hg', new, T, hr, hs, hf, hl, hoff⟩ := ih st1 st' hg1 he
      rcases hcase with ⟨h0, rfl⟩ | ⟨h0, r, T1, hr1, hs1, hm, hl1, hro⟩
      · refine ⟨hg', new, T, hr, hs, ?_, hl, hoff⟩
        simpa [activeCoresM, h0] using hf
      · refine ⟨hg', r :: new, T1 ++ T, ?_, ?_, ?_, ?_, ?_⟩
        · rw [hr, hr1]; simp
        · rw [hs, hs1]; simp
        · have : activeCoresM c (k :: ks) = k :: activeCoresM c ks := by simp [activeCoresM, h0]
          rw [this]; exact All₂.cons hm hf
        · simp only [List.length_append, hl, hl1, dmaSum, List.map_cons, List.sum_cons]
        · intro x hx
          simp only [List.mem_cons] at hx
          rcases hx with rfl | hx
          · omega
          · have := hoff x hx; rw [hs1] at this; simp only [List.length_append] at this; omega


theorem All₂.map_left {α β γ : Type} {R : γ → β → Prop} {a : List α} {b : List β} (f : α → γ)
    (h : All₂ (fun x y => R (f x) y) a b) : All₂ R (a.map f) b := by
  induction h with
  | nil => exact All₂.nil
  | cons hx _ ih => exact All₂.cons hx ih

theorem All₂.right_forall {α β : Type} {R : α → β → Prop} {P : β → Prop} {a : List α} {b : List β}
    (h : All₂ R a b) (hp : ∀ x y, R x y → P y) : ∀ y ∈ b, P y := by
  induction h with
  | nil => simp
  | cons hx _ ih =>
    intro y hy
    simp only [List.mem_cons] at hy
    rcases hy with rfl | hy
    · exact hp _ _ hx
    · exact ih y hy

/-- `(slice index, offset, length, core)` of every range the loops create, in creation order -/
def expectedM (c : Cfg) : Nat → List Nat → List (Nat × Nat × Nat × Nat)
  | idx, off :: next :: rest =>
    (activeCoresM c (List.range (min c.ncores c.fullDepth))).map (fun k => (idx, off, next - off, k))
      ++ expectedM c (idx + 1) (next :: rest)
  | _, _ => []

def MadeE (c : Cfg) (e : Nat × Nat × Nat × Nat) (r : Range) : Prop := Made c e.1 e.2.1 e.2.2.1 e.2.2.2 r

theorem encodeSlices_spec (c : Cfg) : ∀ (offs : List Nat) (idx : Nat) (st : St) (dbs : Nat × Nat) (st' : St)
    (dbs' : Nat × Nat), Good c st → encodeSlices c idx offs st dbs = .ok (st', dbs') →
    Good c st' ∧ ∃ new T, st'.ranges = st.ranges ++ new ∧ st'.stream = st.stream ++ T ∧
      All₂ (MadeE c) (expectedM c idx offs) new := by
  intro offs
  induction offs with
  | nil =>
    intro idx st dbs st' dbs' hg he
    simp only [encodeSlices] at he
    injection he with he; injection he with h1 h2; subst h1
    exact ⟨hg, [], [], by simp, by simp, by simpa [expectedM] using All₂.nil⟩
  | cons off tl ih =>
    intro idx st dbs st' dbs' hg he
    cases tl with
    | nil =>
      simp only [encodeSlices] at he
      injection he with he; injection he with h1 h2; subst h1
      exact ⟨hg, [], [], by simp, by simp, by simpa [expectedM] using All₂.nil⟩
    | cons next rest =>
      simp only [encodeSlices] at he
      split at he
      · cases he
      · cases h1 : encodeCores c idx off (next - off) (List.range (min c.ncores c.fullDepth)) st with
        | error e => rw [h1] at he; cases he
        | ok st1 =>
          rw [h1] at he
          simp only at he
          obtain ⟨hg1, new1, T1, hr1, hs1, hf1, _, _⟩ := encodeCores_spec c idx off (next - off) _ st st1 hg h1
          obtain ⟨hg', new, T, hr, hs, hf⟩ := ih (idx + 1) st1 _ st' dbs' hg1 he
          refine ⟨hg', new1 ++ new, T1 ++ T, by rw [hr, hr1]; simp, by rw [hs, hs1]; simp, ?_⟩
          simp only [expectedM]
          exact All₂.append (All₂.map_left (R := MadeE c) _ hf1) hf

theorem getDbs_setDbs_self (dbs : Nat × Nat) (idx v : Nat) : v ≤ getDbs (setDbs dbs idx v) idx := by
  unfold getDbs setDbs; split <;> simp_all <;> omega

theorem getDbs_setDbs_mono (dbs : Nat × Nat) (idx v i : Nat) : getDbs dbs i ≤ getDbs (setDbs dbs idx v) i := by
  unfold getDbs setDbs; split <;> split <;> simp_all <;> omega

theorem filter_slice_eq_self (rs : List Range) (i : Nat) (h : ∀ r ∈ rs, r.slice = i) :
    rs.filter (fun r => r.slice = i) = rs := by
  rw [List.filter_eq_self]; intro r hr; simp [h r hr]

theorem filter_slice_eq_nil (rs : List Range) (i : Nat) (h : ∀ r ∈ rs, r.slice ≠ i) :
    rs.filter (fun r => r.slice = i) = [] := by
  rw [List.filter_eq_nil_iff]; intro r hr; simp [h r hr]

theorem encodeSlices_dbs (c : Cfg) : ∀ (offs : List Nat) (idx : Nat) (st : St) (dbs : Nat × Nat) (st' : St)
    (dbs' : Nat × Nat), Good c st → (∀ r ∈ st.ranges, r.slice < idx) →
    (∀ i, dmaSum (st.ranges.filter (fun r => r.slice = i)) ≤ getDbs dbs i) →
    encodeSlices c idx offs st dbs = .ok (st', dbs') →
    ∀ i, dmaSum (st'.ranges.filter (fun r => r.slice = i)) ≤ getDbs dbs' i := by
  intro offs
  induction offs with
  | nil =>
    intro idx st dbs st' dbs' hg hlt hinv he
    simp only [encodeSlices] at he
    injection he with he; injection he with h1 h2; subst h1; subst h2
    exact hinv
  | cons off tl ih =>
    intro idx st dbs st' dbs' hg hlt hinv he
    cases tl with
    | nil =>
      simp only [encodeSlices] at he
      injection he with he; injection he with h1 h2; subst h1; subst h2
      exact hinv
    | cons next rest =>
      simp only [encodeSlices] at he
      split at he
      · cases he
      · cases h1 : encodeCores c idx off (next - off) (List.range (min c.ncores c.fullDepth)) st with
        | error e => rw [h1] at he; cases he
        | ok st1 =>
          rw [h1] at he
          simp only at he
          obtain ⟨hg1, new1, T1, hr1, hs1, hf1, hl1, _⟩ := encodeCores_spec c idx off (next - off) _ st st1 hg h1
          have hslice : ∀ r ∈ new1, r.slice = idx := hf1.right_forall (fun _ _ h => h.hslice)
          have hgrow : st1.stream.length - st.stream.length = dmaSum new1 := by
            rw [hs1]; simp only [List.length_append]; omega
          rw [hgrow] at he
          refine ih (idx + 1) st1 _ st' dbs' hg1 ?_ ?_ he
          · intro r hr
            rw [hr1] at hr
            simp only [List.mem_append] at hr
            rcases hr with hr | hr
            · have := hlt r hr; omega
            · have := hslice r hr; omega
          · intro i
            rw [hr1, List.filter_append, dmaSum_append]
            by_cases hi : i = idx
            · subst hi
              rw [filter_slice_eq_nil st.ranges i (fun r hr => by have := hlt r hr; omega),
                  filter_slice_eq_self new1 i hslice]
              have := getDbs_setDbs_self dbs i (dmaSum new1)
              simp only [dmaSum, List.map_nil, List.sum_nil] at *
              omega
            · rw [filter_slice_eq_nil new1 i (fun r hr => by rw [hslice r hr]; exact fun h => hi h.symm)]
              have := getDbs_setDbs_mono dbs idx (dmaSum new1) i
              have := hinv i
              simp only [dmaSum, List.map_nil, List.sum_nil] at *
              omega

/-! ### the whole tensor -/

theorem good_init (c : Cfg) : Good c { stream := [], ranges := [], index := 0 } :=
  { aligned := rfl, rng := by simp, ordered := List.Pairwise.nil }

structure TensorFacts (c : Cfg) (offsets : List Nat) (out : Out) : Prop where
  good : Good c { stream := out.stream, ranges := out.rawRanges, index := 0 }
  made : All₂ (MadeE c) (expectedM c 0 offsets) out.rawRanges
  dbs : ∀ i, dmaSum (out.rawRanges.filter (fun r => r.slice = i)) ≤ getDbs out.dbs i
  dict : out.ranges = orderedDict out.rawRanges
  ncores : c.ncores ≠ 0
  nOff : offsets.length > 1

theorem encodeTensor_facts (c : Cfg) (offsets : List Nat) (out : Out) (h : encodeTensor c offsets = .ok out) :
    TensorFacts c offsets out := by
  unfold encodeTensor at h
  split at h
  · cases h
  · rename_i hlen
    split at h
    · cases h
    · rename_i hn
      cases h1 : encodeSlices c 0 offsets { stream := [], ranges := [], index := 0 } (0, 0) with
      | error e => rw [h1] at h; cases h
      | ok p =>
        obtain ⟨st, dbs⟩ := p
        rw [h1] at h
        simp only at h
        injection h with h
        subst h
        obtain ⟨hg, new, T, hr, hs, hf⟩ := encodeSlices_spec c offsets 0 _ (0, 0) st dbs (good_init c) h1
        have hd := encodeSlices_dbs c offsets 0 _ (0, 0) st dbs (good_init c) (by simp) (by simp [dmaSum, getDbs]) h1
        simp only [List.nil_append] at hr hs
        refine { good := ?_, made := by rw [hr]; exact hf, dbs := hd, dict := rfl, ncores := hn, nOff := by omega }
        exact { aligned := hg.aligned, rng := hg.rng, ordered := hg.ordered }

/-! ### `OrderedDict` view -/

def sameKey (x r : Range) : Prop := x.core = r.core ∧ x.depth = r.depth

theorem upsert_fresh (l : List Range) (r : Range) (h : ∀ x ∈ l, ¬ sameKey x r) : upsert l r = l ++ [r] := by
  induction l with
  | nil => rfl
  | cons x xs ih =>
    have hx : ¬ (x.core = r.core ∧ x.depth = r.depth) := h x (by simp)
    simp only [upsert, hx, if_false, List.cons_append]
    rw [ih (fun y hy => h y (by simp [hy]))]

theorem foldl_upsert_fresh (rs acc : List Range) (h : (acc ++ rs).Pairwise (fun x y => ¬ sameKey x y)) :
    rs.foldl upsert acc = acc ++ rs := by
  induction rs generalizing acc with
  | nil => simp
  | cons r rs ih =>
    simp only [List.foldl_cons]
    have h' : (acc ++ [r] ++ rs).Pairwise (fun x y => ¬ sameKey x y) := by simpa using h
    rw [upsert_fresh acc r ?_, ih _ h']
    · simp
    · intro x hx
      rw [List.pairwise_append] at h
      exact h.2.2 x hx r (by simp)

theorem orderedDict_of_distinct (rs : List Range) (h : rs.Pairwise (fun x y => ¬ sameKey x y)) :
    orderedDict rs = rs := by
  unfold orderedDict
  simpa using foldl_upsert_fresh rs [] (by simpa using h)


/-! ### model loop order = Spec's expected (core, slice) list -/

def reqOf (c : Cfg) (offsets : List Nat) : SReq := ⟨c.ncores, c.fullDepth, c.blockDepth, offsets⟩

def toExpect (e : Nat × Nat × Nat × Nat) : Expect := ⟨e.1, e.2.2.2, e.2.1, e.2.2.1⟩

theorem cbdOf_pos (c : Cfg) (k : Nat) (hk : k < c.ncores) (hb : c.ncores ≤ c.blockDepth) : cbdOf c k ≠ 0 := by
  unfold cbdOf
  have : 0 < (c.blockDepth + c.ncores - 1 - k) / c.ncores := Nat.div_pos (by omega) (by omega)
  omega

theorem activeCoresM_all (c : Cfg) (hb : c.ncores ≤ c.blockDepth) :
    activeCoresM c (List.range (min c.ncores c.fullDepth)) = List.range (min c.ncores c.fullDepth) := by
  unfold activeCoresM
  rw [List.filter_eq_self]
  intro k hk
  simp only [List.mem_range] at hk
  simp [cbdOf_pos c k (by omega) hb]

theorem expectedM_eq (c : Cfg) (hb : c.ncores ≤ c.blockDepth) : ∀ (offs : List Nat) (idx : Nat),
    (expectedM c idx offs).map toExpect =
      (slicesFrom idx offs).flatMap fun s => (List.range (min c.ncores c.fullDepth)).map fun k => ⟨s.1, k, s.2.1, s.2.2⟩ := by
  intro offs
  induction offs with
  | nil => intro idx; simp [expectedM, slicesFrom]
  | cons a tl ih =>
    intro idx
    cases tl with
    | nil => simp [expectedM, slicesFrom]
    | cons b rest =>
      simp only [expectedM, slicesFrom, List.map_append, List.flatMap_cons, ih (idx + 1), activeCoresM_all c hb,
        List.map_map]
      rfl

theorem expectedM_expected (c : Cfg) (offsets : List Nat) (hb : c.ncores ≤ c.blockDepth) :
    (expectedM c 0 offsets).map toExpect = expected (reqOf c offsets) := by
  rw [expectedM_eq c hb]; rfl


/-! ### consecutive slices of a strictly increasing offset list -/

def lastOf : Nat → List Nat → Nat
  | a, [] => a
  | _, b :: rest => lastOf b rest

theorem getLast?_cons_lastOf (a : Nat) (tl : List Nat) : (a :: tl).getLast? = some (lastOf a tl) := by
  induction tl generalizing a with
  | nil => rfl
  | cons b rest ih => rw [List.getLast?_cons_cons, ih b]; rfl

/-- a slice `(idx, off, len)` contains channel `ch` -/
def inSlice (s : Nat × Nat × Nat) (ch : Nat) : Prop := s.2.1 ≤ ch ∧ ch < s.2.1 + s.2.2

theorem slicesFrom_props (a : Nat) (tl : List Nat) : ∀ (idx : Nat), (a :: tl).Pairwise (· < ·) →
    (∀ s ∈ slicesFrom idx (a :: tl), idx ≤ s.1 ∧ a ≤ s.2.1 ∧ 0 < s.2.2 ∧ s.2.1 + s.2.2 ≤ lastOf a tl) ∧
    (slicesFrom idx (a :: tl)).Pairwise (fun s t => s.2.1 + s.2.2 ≤ t.2.1 ∧ s.1 < t.1) ∧
    (∀ ch, a ≤ ch → ch < lastOf a tl → ∃ s ∈ slicesFrom idx (a :: tl), inSlice s ch) := by
  induction tl generalizing a with
  | nil => intro idx _; simp [slicesFrom, lastOf]
  | cons b rest ih =>
    intro idx hp
    rw [List.pairwise_cons] at hp
    obtain ⟨hab, hp'⟩ := hp
    have hlt : a < b := hab b (by simp)
    obtain ⟨h1, h2, h3⟩ := ih b (idx + 1) hp'
    have hbl : b ≤ lastOf b rest := by
      cases rest with
      | nil => simp [lastOf]
      | cons d r =>
        -- the first slice of the tail ends below the last offset
        have := (h1 (idx + 1, b, d - b) (by simp [slicesFrom])).2.2.2
        simp at this; omega
    simp only [slicesFrom, lastOf]
    refine ⟨?_, ?_, ?_⟩
    · intro s hs
      simp only [List.mem_cons] at hs
      rcases hs with rfl | hs
      · simp; omega
      · obtain ⟨i1, i2, i3, i4⟩ := h1 s hs
        exact ⟨by omega, by omega, i3, i4⟩
    · rw [List.pairwise_cons]
      refine ⟨?_, h2⟩
      intro t ht
      obtain ⟨i1, i2, _, _⟩ := h1 t ht
      simp; omega
    · intro ch hch hlast
      by_cases hc : ch < b
      · exact ⟨(idx, a, b - a), by simp, by simp [inSlice]; omega⟩
      · obtain ⟨s, hs, hin⟩ := h3 ch (by omega) hlast
        exact ⟨s, by simp [hs], hin⟩

theorem pairwise_mem_cases {α : Type} {R : α → α → Prop} {l : List α} (h : l.Pairwise R) (x y : α)
    (hx : x ∈ l) (hy : y ∈ l) : x = y ∨ R x y ∨ R y x := by
  induction l with
  | nil => simp at hx
  | cons a t ih =>
    rw [List.pairwise_cons] at h
    simp only [List.mem_cons] at hx hy
    rcases hx with rfl | hx <;> rcases hy with rfl | hy
    · exact Or.inl rfl
    · exact Or.inr (Or.inl (h.1 y hy))
    · exact Or.inr (Or.inr (h.1 x hx))
    · exact ih h.2 hx hy

/-! ### Python slice = channels of the (core, slice) -/

theorem lt_ceilDiv_iff (i x n : Nat) (hn : 0 < n) : i < (x + n - 1) / n ↔ i * n < x := by
  rw [show i < (x + n - 1) / n ↔ i + 1 ≤ (x + n - 1) / n from Iff.rfl, Nat.le_div_iff_mul_le hn, Nat.add_mul]
  omega

theorem mem_pySliceIdx (L a b n x : Nat) (hn : 0 < n) :
    x ∈ pySliceIdx L a b n ↔ ∃ i, i * n < min b L - a ∧ x = a + i * n := by
  unfold pySliceIdx
  simp only [List.mem_map, List.mem_range]
  constructor
  · rintro ⟨i, hi, rfl⟩
    refine ⟨i, ?_, rfl⟩
    have := (lt_ceilDiv_iff i (min b L - a) n hn).1 (by rw [show min b L - a + n - 1 = min b L - a + n - 1 from rfl]; exact hi)
    exact this
  · rintro ⟨i, hi, rfl⟩
    exact ⟨i, (lt_ceilDiv_iff i (min b L - a) n hn).2 hi, rfl⟩

theorem mem_chanOf (n core off len x : Nat) :
    x ∈ chanOf n core off len ↔ ∃ j, j < len ∧ j % n = core ∧ x = off + j := by
  unfold chanOf
  simp only [List.mem_map, List.mem_filter, List.mem_range, decide_eq_true_eq]
  constructor
  · rintro ⟨j, ⟨h1, h2⟩, rfl⟩; exact ⟨j, h1, h2, rfl⟩
  · rintro ⟨j, h1, h2, rfl⟩; exact ⟨j, ⟨h1, h2⟩, rfl⟩

theorem pySliceIdx_sorted (L a b n : Nat) (hn : 0 < n) : (pySliceIdx L a b n).Pairwise (· < ·) := by
  unfold pySliceIdx
  rw [List.pairwise_map]
  refine List.Pairwise.imp ?_ List.pairwise_lt_range
  intro i j hij
  have := Nat.mul_lt_mul_of_lt_of_le hij (Nat.le_refl n) hn
  omega

theorem chanOf_sorted (n core off len : Nat) : (chanOf n core off len).Pairwise (· < ·) := by
  unfold chanOf
  rw [List.pairwise_map]
  refine List.Pairwise.imp ?_ (List.Pairwise.filter _ List.pairwise_lt_range)
  intro i j hij; omega

theorem sorted_ext : ∀ (l1 l2 : List Nat), l1.Pairwise (· < ·) → l2.Pairwise (· < ·) →
    (∀ x, x ∈ l1 ↔ x ∈ l2) → l1 = l2 := by
  intro l1
  induction l1 with
  | nil =>
    intro l2 _ _ h
    cases l2 with
    | nil => rfl
    | cons b t => exact absurd ((h b).2 (by simp)) (by simp)
  | cons a t1 ih =>
    intro l2 h1 h2 h
    cases l2 with
    | nil => exact absurd ((h a).1 (by simp)) (by simp)
    | cons b t2 =>
      rw [List.pairwise_cons] at h1 h2
      have hab : a = b := by
        have ha := (h a).1 (by simp)
        have hb := (h b).2 (by simp)
        simp only [List.mem_cons] at ha hb
        rcases ha with ha | ha
        · exact ha
        · rcases hb with hb | hb
          · exact hb.symm
          · have := h2.1 a ha; have := h1.1 b hb; omega
      subst hab
      congr 1
      apply ih t2 h1.2 h2.2
      intro x
      constructor
      · intro hx
        have := (h x).1 (by simp [hx])
        simp only [List.mem_cons] at this
        rcases this with rfl | this
        · have := h1.1 x hx; omega
        · exact this
      · intro hx
        have := (h x).2 (by simp [hx])
        simp only [List.mem_cons] at this
        rcases this with rfl | this
        · have := h2.1 x hx; omega
        · exact this

/-- multiples of `n`: `i·n < q·n` leaves room for a whole further step -/
theorem mul_step_le (i n len : Nat) (hdiv : len % n = 0) (h : i * n < len) (_hn : 0 < n) : i * n + n ≤ len := by
  have hq : len = n * (len / n) := by have := Nat.mod_add_div len n; omega
  have hi : i < len / n := by
    rw [hq, Nat.mul_comm n] at h
    exact Nat.lt_of_mul_lt_mul_right h
  have : (i + 1) * n ≤ (len / n) * n := Nat.mul_le_mul_right n hi
  rw [Nat.add_mul, Nat.one_mul] at this
  rw [Nat.mul_comm] at hq
  omega

/-- the weights of a (core, slice): `core_deinterleave(weights[..., off:off+len], core, n)` selects
    exactly the channels whose in-slice index is `≡ core (mod n)` -/
theorem weight_slice_eq (D n core off len : Nat) (hn : 0 < n) (hc : core < n) (hD : off + len ≤ D) :
    pySliceIdx D (off + core) (off + len) n = chanOf n core off len := by
  apply sorted_ext _ _ (pySliceIdx_sorted _ _ _ _ hn) (chanOf_sorted _ _ _ _)
  intro x
  rw [mem_pySliceIdx _ _ _ _ _ hn, mem_chanOf]
  constructor
  · rintro ⟨i, hi, rfl⟩
    refine ⟨core + i * n, ?_, ?_, by omega⟩
    · have : min (off + len) D = off + len := by omega
      rw [this] at hi; omega
    · rw [Nat.add_mul_mod_self_right, Nat.mod_eq_of_lt hc]
  · rintro ⟨j, hj, hm, rfl⟩
    refine ⟨j / n, ?_, ?_⟩
    · have := Nat.mod_add_div j n
      have : min (off + len) D = off + len := by omega
      rw [this, Nat.mul_comm]; omega
    · have := Nat.mod_add_div j n
      rw [Nat.mul_comm (j / n)]; omega

/-- HISTORICAL (the code before the repair `fixed: property=C08 PENDING-1`): the former slice
    `biases[off+core : off+core+len : n]` is the same set only when the slice length is a multiple of `n`
    or the slice is the last one (the list end clips it).  No longer used by the property theorems. -/
theorem scale_slice_eq (L n core off len : Nat) (hn : 0 < n) (hc : core < n) (hL : off + len ≤ L)
    (hreg : len % n = 0 ∨ off + len = L) :
    pySliceIdx L (off + core) (off + core + len) n = chanOf n core off len := by
  apply sorted_ext _ _ (pySliceIdx_sorted _ _ _ _ hn) (chanOf_sorted _ _ _ _)
  intro x
  rw [mem_pySliceIdx _ _ _ _ _ hn, mem_chanOf]
  constructor
  · rintro ⟨i, hi, rfl⟩
    refine ⟨core + i * n, ?_, ?_, by omega⟩
    · rcases hreg with hdiv | hlast
      · have h1 : i * n < len := by omega
        have := mul_step_le i n len hdiv h1 hn
        omega
      · have : min (off + core + len) L = off + len := by omega
        rw [this] at hi; omega
    · rw [Nat.add_mul_mod_self_right, Nat.mod_eq_of_lt hc]
  · rintro ⟨j, hj, hm, rfl⟩
    refine ⟨j / n, ?_, ?_⟩
    · have := Nat.mod_add_div j n
      rw [Nat.mul_comm]; omega
    · have := Nat.mod_add_div j n
      rw [Nat.mul_comm (j / n)]; omega


/-! ### the record bytes decode to the channels' records -/

/-- per-channel expected record: `(bias, multiplier, shift)` -/
def expOf (c : Cfg) : List Rec := List.zipWith (fun b q => Rec.mk b q.1.toNat q.2.toNat) c.biases c.scales

theorem expOf_get (c : Cfg) (ch : Nat) (b : Int) (q : Int × Int) (hb : c.biases[ch]? = some b)
    (hq : c.scales[ch]? = some q) : (expOf c)[ch]? = some ⟨b, q.1.toNat, q.2.toNat⟩ := by
  unfold expOf
  rw [List.getElem?_zipWith]
  simp [hb, hq]

theorem scaleRecords_diag (c : Cfg) : ∀ (chs : List Nat) (data : List Nat), scaleRecords c chs chs = .ok data →
    data.length = 10 * chs.length ∧
    (decodeRecords data).map (fun l => l.map some) = some (chs.map ((expOf c)[·]?)) := by
  intro chs
  induction chs with
  | nil =>
    intro data h
    simp only [scaleRecords] at h
    injection h with h; subst h
    simp [decodeRecords]
  | cons ch rest ih =>
    intro data h
    simp only [scaleRecords] at h
    cases hb : c.biases[ch]? with
    | none => rw [hb] at h; simp at h
    | some b =>
      cases hq : c.scales[ch]? with
      | none => rw [hb, hq] at h; simp at h
      | some q =>
        rw [hb, hq] at h
        simp only at h
        cases he : encodeBias b q.1 q.2 with
        | error e => rw [he] at h; simp at h
        | ok bytes =>
          rw [he] at h
          simp only at h
          cases hr : scaleRecords c rest rest with
          | error e => rw [hr] at h; simp at h
          | ok more =>
            rw [hr] at h
            simp only at h
            injection h with h; subst h
            obtain ⟨hin, rfl⟩ := (encodeBias_ok_iff _ _ _ _).1 he
            obtain ⟨hl, hd⟩ := ih more hr
            refine ⟨by simp [recordBytes_length, hl]; omega, ?_⟩
            cases hdm : decodeRecords more with
            | none => rw [hdm] at hd; simp at hd
            | some rs =>
              rw [hdm] at hd
              simp only [Option.map_some, Option.some.injEq] at hd
              rw [decodeRecords_cons b q.1 q.2 more _ rs (decode_recordBytes _ _ _ hin) hdm]
              simp only [Option.map_some, List.map_cons, Option.some.injEq, hd]
              rw [expOf_get c ch b q hb hq]


/-! ### keys are distinct when the offsets increase -/

theorem All₂.exists_left {α β : Type} {R : α → β → Prop} {a : List α} {b : List β} (h : All₂ R a b) :
    ∀ y ∈ b, ∃ x ∈ a, R x y := by
  induction h with
  | nil => simp
  | cons hx _ ih =>
    intro y hy
    simp only [List.mem_cons] at hy
    rcases hy with rfl | hy
    · exact ⟨_, by simp, hx⟩
    · obtain ⟨x, hx', hr⟩ := ih y hy
      exact ⟨x, by simp [hx'], hr⟩

theorem All₂.pairwise {α β : Type} {R : α → β → Prop} {P : α → α → Prop} {Q : β → β → Prop}
    {a : List α} {b : List β} (h : All₂ R a b) (hp : a.Pairwise P)
    (hq : ∀ x x' y y', R x y → R x' y' → P x x' → Q y y') : b.Pairwise Q := by
  induction h with
  | nil => exact List.Pairwise.nil
  | cons hx hrest ih =>
    rw [List.pairwise_cons] at hp ⊢
    refine ⟨?_, ih hp.2⟩
    intro y' hy'
    obtain ⟨x', hx', hr⟩ := hrest.exists_left y' hy'
    exact hq _ _ _ _ hx hr (hp.1 x' hx')

theorem expectedM_keys (c : Cfg) (a : Nat) (tl : List Nat) : ∀ (idx : Nat), (a :: tl).Pairwise (· < ·) →
    (expectedM c idx (a :: tl)).Pairwise (fun e f => ¬ (e.2.2.2 = f.2.2.2 ∧ e.2.1 = f.2.1)) ∧
    ∀ e ∈ expectedM c idx (a :: tl), a ≤ e.2.1 := by
  induction tl generalizing a with
  | nil => intro idx _; simp [expectedM]
  | cons b rest ih =>
    intro idx hp
    rw [List.pairwise_cons] at hp
    have hlt : a < b := hp.1 b (by simp)
    obtain ⟨h1, h2⟩ := ih b (idx + 1) hp.2
    simp only [expectedM]
    refine ⟨?_, ?_⟩
    · rw [List.pairwise_append]
      refine ⟨?_, h1, ?_⟩
      · rw [List.pairwise_map]
        refine List.Pairwise.imp ?_ (List.Pairwise.filter _ List.pairwise_lt_range)
        intro i j hij; simp; omega
      · intro e he f hf
        simp only [List.mem_map] at he
        obtain ⟨k, _, rfl⟩ := he
        have := h2 f hf
        simp; omega
    · intro e he
      simp only [List.mem_append, List.mem_map] at he
      rcases he with ⟨k, _, rfl⟩ | he
      · simp
      · have := h2 e he; omega

theorem rawRanges_distinct (c : Cfg) (offsets : List Nat) (out : Out) (hs : offsets.Pairwise (· < ·))
    (hf : TensorFacts c offsets out) : out.rawRanges.Pairwise (fun x y => ¬ sameKey x y) := by
  cases offsets with
  | nil => have := hf.nOff; simp at this
  | cons a tl =>
    refine hf.made.pairwise (expectedM_keys c a tl 0 hs).1 ?_
    intro e e' r r' hm hm' hne
    unfold MadeE at hm hm'
    unfold sameKey
    rw [hm.hcore, hm.hdepth, hm'.hcore, hm'.hdepth]
    exact hne

theorem ranges_eq_raw (c : Cfg) (offsets : List Nat) (out : Out) (hs : offsets.Pairwise (· < ·))
    (hf : TensorFacts c offsets out) : out.ranges = out.rawRanges := by
  rw [hf.dict]; exact orderedDict_of_distinct _ (rawRanges_distinct c offsets out hs hf)

/-! ### artefact view of a model run -/
open VelaVerif.WeightSpec

def toARange (r : Range) : ARange := ⟨r.core, r.depth, r.offset, r.scaleBytes, r.weightOffset, r.weightBytes⟩

/-- the artefact (what the Spec looks at) of a model run; `ranges` = the dict view -/
def artefactOf (c : Cfg) (out : Out) : Artefact :=
  ⟨out.stream.length, out.ranges.map toARange, out.dbs.1, out.dbs.2, c.doWeights⟩

/-- same with every WeightRange object ever created (no dict overwriting) -/
def rawArtefactOf (c : Cfg) (out : Out) : Artefact :=
  ⟨out.stream.length, out.rawRanges.map toARange, out.dbs.1, out.dbs.2, c.doWeights⟩

theorem toARange_stop (r : Range) : (toARange r).stop = r.stop := rfl

theorem raw_aligned_ordered (c : Cfg) (offsets : List Nat) (out : Out) (hf : TensorFacts c offsets out) :
    AlignedOk (rawArtefactOf c out) ∧ OrderedOk (rawArtefactOf c out) := by
  refine ⟨?_, ?_, ?_⟩
  · intro r hr
    simp only [rawArtefactOf, List.mem_map] at hr
    obtain ⟨r0, hr0, rfl⟩ := hr
    have := hf.good.rng r0 hr0
    exact ⟨this.offAligned, this.woAligned, this.wbAligned⟩
  · simp only [rawArtefactOf]
    rw [List.pairwise_map]
    exact hf.good.ordered
  · intro r hr
    simp only [rawArtefactOf, List.mem_map] at hr
    obtain ⟨r0, hr0, rfl⟩ := hr
    have hg := hf.good.rng r0 hr0
    refine ⟨hg.inside, ?_⟩
    intro hw
    have hw' : c.doWeights = true := hw
    have := hg.wo
    rw [hw'] at this
    simp only [if_true] at this
    show r0.scaleBytes ≤ r0.weightOffset
    rw [this]; exact roundUp16_ge _

theorem mem_expected (q : SReq) (e : Expect) (he : e ∈ expected q) :
    (e.slice, e.off, e.len) ∈ slices q.offsets ∧ e.core < activeCores q := by
  unfold expected at he
  simp only [List.mem_flatMap, List.mem_map, List.mem_range] at he
  obtain ⟨s, hs, k, hk, rfl⟩ := he
  exact ⟨hs, hk⟩

/-- facts about one slice of a valid request -/
theorem slice_facts (q : SReq) (hv : ValidReq q) (s : Nat × Nat × Nat) (hs : s ∈ slices q.offsets) :
    0 < s.2.2 ∧ s.2.1 + s.2.2 ≤ q.fullDepth := by
  obtain ⟨_, _, _, hhead, hlast, hsorted⟩ := hv
  cases hq : q.offsets with
  | nil => rw [hq] at hs; simp [slices, slicesFrom] at hs
  | cons a tl =>
    rw [hq] at hs hlast hsorted
    rw [getLast?_cons_lastOf] at hlast
    injection hlast with hlast
    have := ((slicesFrom_props a tl 0 hsorted).1 s hs)
    rw [hlast] at this
    exact ⟨this.2.2.1, this.2.2.2⟩


/-- the model's ranges, paired with the Spec's expected (core, slice) list -/
theorem made_expected (c : Cfg) (offsets : List Nat) (out : Out) (hb : c.ncores ≤ c.blockDepth)
    (hf : TensorFacts c offsets out) :
    All₂ (fun (e : Expect) (r : Range) => Made c e.slice e.off e.len e.core r) (expected (reqOf c offsets)) out.rawRanges := by
  rw [← expectedM_expected c offsets hb]
  exact All₂.map_left (R := fun (e : Expect) (r : Range) => Made c e.slice e.off e.len e.core r) toExpect hf.made

theorem zip_map_right_mem {α β γ : Type} (l1 : List α) (l2 : List β) (g : β → γ) (p : α × γ)
    (hp : p ∈ l1.zip (l2.map g)) : ∃ p' ∈ l1.zip l2, p = (p'.1, g p'.2) := by
  induction l1 generalizing l2 with
  | nil => simp at hp
  | cons a t ih =>
    cases l2 with
    | nil => simp at hp
    | cons b t2 =>
      simp only [List.map_cons, List.zip_cons_cons, List.mem_cons] at hp
      rcases hp with rfl | hp
      · exact ⟨(a, b), by simp, rfl⟩
      · obtain ⟨p', hp', rfl⟩ := ih t2 hp
        exact ⟨p', by simp [hp'], rfl⟩

theorem keys_ok (c : Cfg) (offsets : List Nat) (out : Out) (hb : c.ncores ≤ c.blockDepth)
    (hf : TensorFacts c offsets out) : KeysOk (reqOf c offsets) (rawArtefactOf c out) := by
  unfold KeysOk rawArtefactOf
  simp only [List.map_map]
  exact (made_expected c offsets out hb hf).map_eq _ _ (fun e r hm => by
    simp only [Function.comp, toARange]; rw [hm.hcore, hm.hdepth])

/-- scale section of one created range -/
theorem made_scale (c : Cfg) (idx off len core : Nat) (r : Range) (S : List Nat) (hm : Made c idx off len core r)
    (hg : RangeGood c S r) (hlen : c.biases.length = c.scales.length) (hn : 0 < c.ncores) (hcore : core < c.ncores)
    (hL : off + len ≤ c.biases.length) :
    r.scaleCh = chanOf c.ncores core off len ∧ r.scaleBytes = 10 * (chanOf c.ncores core off len).length ∧
    (decodeRecords (bytesAt S r.offset r.scaleBytes)).map (fun l => l.map some)
      = some ((chanOf c.ncores core off len).map ((expOf c)[·]?)) ∧
    r.offset + r.scaleBytes ≤ S.length := by
  have hch : r.scaleCh = chanOf c.ncores core off len := by
    rw [hm.hscaleCh]; exact weight_slice_eq _ _ _ _ _ hn hcore hL
  have hrec := hm.recs
  rw [← hlen, ← show scaleChannels c off len core = pySliceIdx c.biases.length (off + core) (off + len) c.ncores from rfl,
    ← hm.hscaleCh] at hrec
  obtain ⟨hl, hd⟩ := scaleRecords_diag c r.scaleCh r.scaleData hrec
  refine ⟨hch, ?_, ?_, ?_⟩
  · rw [hg.sbLen, hl, hch]
  · rw [hg.scaleAt, hd, hch]
  · have := hg.inside; have := r.stop_ge_scale; omega

/-- weight section of one created range: the encoder was given exactly the channels of the (core, slice) -/
theorem made_weights (c : Cfg) (idx off len core : Nat) (r : Range) (S : List Nat) (hm : Made c idx off len core r)
    (hg : RangeGood c S r) (hw : c.doWeights = true) (hn : 0 < c.ncores) (hcore : core < c.ncores)
    (hL : off + len ≤ c.fullDepth) :
    r.weightCh = chanOf c.ncores core off len ∧
    bytesAt S (r.offset + r.weightOffset) r.weightBytes = c.enc (chanOf c.ncores core off len) (cbdOf c core) := by
  have hch : r.weightCh = chanOf c.ncores core off len := by
    rw [hm.hweightCh, hw]; exact weight_slice_eq _ _ _ _ _ hn hcore hL
  refine ⟨hch, ?_⟩
  rw [hg.weightAt, hm.wdata, hw, hch, hm.hcbd]; rfl

/-- DESIGN.md section 8 #11: two cores, 8 output channels, block depth 8, depth offsets [0, 3, 8] -/
def witnessCfg : Cfg :=
  { ncores := 2, fullDepth := 8, blockDepth := 8, doWeights := true,
    scales := List.replicate 8 (1073741824, 30), biases := [920, -684, -791, 288, -272, 677, -373, -569],
    enc := fun chs _ => List.replicate (16 * chs.length) 0 }


theorem mem_expected_iff (q : SReq) (e : Expect) :
    e ∈ expected q ↔ (e.slice, e.off, e.len) ∈ slices q.offsets ∧ e.core < activeCores q := by
  constructor
  · exact mem_expected q e
  · rintro ⟨hs, hk⟩
    unfold expected
    simp only [List.mem_flatMap, List.mem_map, List.mem_range]
    exact ⟨_, hs, e.core, hk, rfl⟩

/-- Spec-level partition: the channel sets of the expected (core, slice) pairs cover `[0, depth)`,
    stay inside it, are pairwise disjoint and repetition-free. -/
theorem chans_partition (q : SReq) (hv : ValidReq q) :
    (∀ ch, ch < q.fullDepth → ∃ e ∈ expected q, ch ∈ e.chans q) ∧
    (∀ e ∈ expected q, ∀ ch ∈ e.chans q, ch < q.fullDepth) ∧
    (∀ e1 ∈ expected q, ∀ e2 ∈ expected q, ∀ ch, ch ∈ e1.chans q → ch ∈ e2.chans q → e1 = e2) ∧
    (∀ e ∈ expected q, (e.chans q).Nodup) := by
  have hv' := hv
  obtain ⟨hn, hb, hlen, hhead, hlast, hsorted⟩ := hv
  cases hq : q.offsets with
  | nil => rw [hq] at hlen; simp at hlen
  | cons a tl =>
    rw [hq] at hhead hlast hsorted
    simp only [List.head?_cons, Option.some.injEq] at hhead
    subst hhead
    rw [getLast?_cons_lastOf] at hlast
    injection hlast with hlast
    obtain ⟨hp1, hp2, hp3⟩ := slicesFrom_props 0 tl 0 hsorted
    have hsl : slices q.offsets = slicesFrom 0 (0 :: tl) := by rw [hq]; rfl
    refine ⟨?_, ?_, ?_, ?_⟩
    · intro ch hch
      obtain ⟨s, hs, hin⟩ := hp3 ch (by omega) (by omega)
      obtain ⟨_, _, _, hle⟩ := hp1 s hs
      unfold inSlice at hin
      refine ⟨⟨s.1, (ch - s.2.1) % q.ncores, s.2.1, s.2.2⟩, ?_, ?_⟩
      · rw [mem_expected_iff]
        refine ⟨by rw [hsl]; exact hs, ?_⟩
        have h1 : (ch - s.2.1) % q.ncores < q.ncores := Nat.mod_lt _ (by omega)
        have h2 : (ch - s.2.1) % q.ncores ≤ ch - s.2.1 := Nat.mod_le _ _
        show (ch - s.2.1) % q.ncores < min q.ncores q.fullDepth
        omega
      · unfold Expect.chans
        rw [mem_chanOf]
        show ∃ j, j < s.2.2 ∧ j % q.ncores = (ch - s.2.1) % q.ncores ∧ ch = s.2.1 + j
        exact ⟨ch - s.2.1, by omega, rfl, by omega⟩
    · intro e he ch hch
      obtain ⟨hs, _⟩ := mem_expected q e he
      obtain ⟨_, hle⟩ := slice_facts q hv' _ hs
      unfold Expect.chans at hch
      rw [mem_chanOf] at hch
      obtain ⟨j, hj, _, rfl⟩ := hch
      simp only at hle; omega
    · intro e1 he1 e2 he2 ch h1 h2
      obtain ⟨hs1, _⟩ := mem_expected q e1 he1
      obtain ⟨hs2, _⟩ := mem_expected q e2 he2
      unfold Expect.chans at h1 h2
      rw [mem_chanOf] at h1 h2
      obtain ⟨j1, hj1, hm1, rfl⟩ := h1
      obtain ⟨j2, hj2, hm2, hch⟩ := h2
      rw [hsl] at hs1 hs2
      have hsame : (e1.slice, e1.off, e1.len) = (e2.slice, e2.off, e2.len) := by
        rcases pairwise_mem_cases hp2 _ _ hs1 hs2 with h | h | h
        · exact h
        · simp only at h; omega
        · simp only at h; omega
      simp only [Prod.mk.injEq] at hsame
      obtain ⟨ha, hb', hc⟩ := hsame
      have hj : j1 = j2 := by omega
      subst hj
      cases e1; cases e2
      simp only at ha hb' hc hm1 hm2
      subst ha; subst hb'; subst hc
      rw [← hm1, ← hm2]
    · intro e _
      unfold Expect.chans
      exact (chanOf_sorted _ _ _ _).imp (fun h => Nat.ne_of_lt h)


theorem All₂.exists_right {α β : Type} {R : α → β → Prop} {a : List α} {b : List β} (h : All₂ R a b) :
    ∀ x ∈ a, ∃ y ∈ b, R x y := by
  induction h with
  | nil => simp
  | cons hx _ ih =>
    intro x hx'
    simp only [List.mem_cons] at hx'
    rcases hx' with rfl | hx'
    · exact ⟨_, by simp, hx⟩
    · obtain ⟨y, hy, hr⟩ := ih x hx'
      exact ⟨y, by simp [hy], hr⟩

/-- `core_block_depth` is the number of block channels the core owns -/
theorem cbdOf_eq_coreBlockDepth (c : Cfg) (core : Nat) (hn : 0 < c.ncores) (hc : core < c.ncores) :
    cbdOf c core = coreBlockDepth c.ncores c.blockDepth core := by
  have h := weight_slice_eq c.blockDepth c.ncores core 0 c.blockDepth hn hc (by omega)
  have hl : (chanOf c.ncores core 0 c.blockDepth).length = coreBlockDepth c.ncores c.blockDepth core := by
    simp [chanOf, coreBlockDepth]
  rw [← hl, ← h]
  simp only [pySliceIdx, List.length_map, List.length_range, Nat.zero_add, Nat.min_self]
  unfold cbdOf
  by_cases hcb : core ≤ c.blockDepth
  · congr 1; omega
  · rw [Nat.div_eq_of_lt (by omega), Nat.div_eq_of_lt (by omega)]

/-! ### address derivation -/

theorem findRange_mem (rs : List Range) (core depth : Nat) (r : Range) (h : findRange rs core depth = some r) :
    r ∈ rs ∧ r.core = core ∧ r.depth = depth := by
  unfold findRange at h
  refine ⟨List.mem_of_find?_eq_some h, ?_⟩
  have := List.find?_some h
  simpa using this

/-- numeric facts about a recorded range that the address derivation relies on -/
structure RangeNum (L : Nat) (r : Range) : Prop where
  offAligned : r.offset % 16 = 0
  wbAligned : r.weightBytes % 16 = 0
  inside : r.stop ≤ L
  wo : r.weightOffset = roundUp16 r.scaleBytes ∨ (r.weightOffset = 0 ∧ r.weightBytes = 0)

theorem RangeGood.num {c : Cfg} {S : List Nat} {r : Range} (h : RangeGood c S r) : RangeNum S.length r := by
  refine ⟨h.offAligned, h.wbAligned, h.inside, ?_⟩
  have := h.wo
  by_cases hw : c.doWeights = true
  · left; rw [this, hw]; rfl
  · right
    have hw' : c.doWeights = false := by simpa using hw
    exact ⟨by rw [this, hw']; rfl, h.wb0 hw'⟩

/-- Unbuffered (`weight_tensor == w_tensor_src`, scales in the same tensor): every address range
    `create_weights` returns is 16-byte aligned (for an aligned tensor address), lies inside the tensor
    and is exactly the recorded weight / scale section of a range with the requested key. -/
theorem createWeightsLoop_direct (rs : List Range) (L srcAddr depth : Nat) (hnum : ∀ r ∈ rs, RangeNum L r)
    (hsrc : srcAddr % 16 = 0) (hL : L % 16 = 0) : ∀ (cores : List Nat) (off0 : Nat) (ws bs : List AddrRange),
    createWeightsLoop rs srcAddr none none depth cores off0 = some (ws, bs) →
    (∀ a ∈ ws, a.address % 16 = 0 ∧ srcAddr ≤ a.address ∧ a.address + a.length ≤ srcAddr + L ∧
        ∃ r ∈ rs, r.depth = depth ∧ a = ⟨srcAddr + r.offset + r.weightOffset, r.weightBytes⟩) ∧
    (∀ a ∈ bs, a.address % 16 = 0 ∧ srcAddr ≤ a.address ∧ a.address + a.length ≤ srcAddr + L ∧
        ∃ r ∈ rs, r.depth = depth ∧ a = ⟨srcAddr + r.offset, roundUp16 r.scaleBytes⟩) := by
  intro cores
  induction cores with
  | nil =>
    intro off0 ws bs h
    simp only [createWeightsLoop] at h
    injection h with h; injection h with h1 h2; subst h1; subst h2
    simp
  | cons k ks ih =>
    intro off0 ws bs h
    simp only [createWeightsLoop] at h
    cases hf : findRange rs k depth with
    | none => rw [hf] at h; exact ih off0 ws bs h
    | some r =>
      rw [hf] at h
      simp only at h
      cases hrest : createWeightsLoop rs srcAddr none none depth ks off0 with
      | none => rw [hrest] at h; simp at h
      | some p =>
        obtain ⟨ws', bs'⟩ := p
        rw [hrest] at h
        simp only at h
        injection h with h; injection h with h1 h2; subst h1; subst h2
        obtain ⟨hr, _, hd⟩ := findRange_mem rs k depth r hf
        have hn := hnum r hr
        obtain ⟨ihw, ihb⟩ := ih off0 ws' bs' hrest
        have hstop := hn.inside
        unfold Range.stop at hstop
        have hro := roundUp16_of_mod _ hn.wbAligned
        have hsb := roundUp16_mod r.scaleBytes
        have hsb' := roundUp16_ge r.scaleBytes
        refine ⟨?_, ?_⟩
        · intro a ha
          simp only [List.mem_cons] at ha
          rcases ha with rfl | ha
          · refine ⟨?_, ?_, ?_, r, hr, hd, ?_⟩
            · have := hn.offAligned
              rcases hn.wo with h1 | ⟨h1, _⟩ <;> (simp only [h1]; omega)
            · simp only; omega
            · simp only [hro]; omega
            · simp only [hro]
          · exact ihw a ha
        · intro a ha
          simp only [List.mem_cons] at ha
          rcases ha with rfl | ha
          · refine ⟨?_, ?_, ?_, r, hr, hd, rfl⟩
            · have := hn.offAligned; simp only; omega
            · simp only; omega
            · simp only
              rcases hn.wo with h1 | ⟨h1, h2⟩
              · omega
              · -- scale-only tensor: the rounded scale section extends into the padding, which is inside the stream
                have := hn.offAligned
                unfold roundUp16 at *
                omega
          · exact ihb a ha


/-- bytes `create_dma_op` moves for a slice: the 16-byte rounded size of every core's range -/
def foundSum (rs : List Range) (depth : Nat) (cores : List Nat) : Nat :=
  ((cores.filterMap (fun k => findRange rs k depth)).map (fun r => roundUp16 r.totalBytes)).sum

theorem foldl_add_sum (l : List Range) (a : Nat) :
    l.foldl (fun acc r => acc + roundUp16 r.totalBytes) a = a + (l.map (fun r => roundUp16 r.totalBytes)).sum := by
  induction l generalizing a with
  | nil => simp
  | cons x xs ih => simp only [List.foldl_cons, List.map_cons, List.sum_cons, ih]; omega

theorem createDmaOp_spec (n : Nat) (rs : List Range) (src dst depth : Nat) (s d : AddrRange)
    (h : createDmaOp n rs src dst depth = some (s, d)) :
    s.length = foundSum rs depth (List.range n) ∧ d = ⟨dst, s.length⟩ ∧
    ∃ r0 ∈ rs, r0.core = 0 ∧ r0.depth = depth ∧ s.address = src + r0.offset := by
  unfold createDmaOp at h
  simp only at h
  cases hf : findRange rs 0 depth with
  | none => rw [hf] at h; simp at h
  | some r0 =>
    rw [hf] at h
    simp only [Option.some.injEq, Prod.mk.injEq] at h
    obtain ⟨rfl, rfl⟩ := h
    obtain ⟨hm, hc, hd⟩ := findRange_mem rs 0 depth r0 hf
    refine ⟨?_, rfl, r0, hm, hc, hd, rfl⟩
    simp only [foundSum, foldl_add_sum, Nat.zero_add]

/-- Buffered (`weight_tensor` is a copy filled by the DMA of `create_dma_op`): every address range
    `create_weights` returns lies inside the bytes the DMA of the same slice writes, 16-byte aligned. -/
theorem createWeightsLoop_buffered (rs : List Range) (L srcAddr depth buf : Nat) (hnum : ∀ r ∈ rs, RangeNum L r)
    (hbuf : buf % 16 = 0) : ∀ (cores : List Nat) (off0 : Nat) (ws bs : List AddrRange), off0 % 16 = 0 →
    createWeightsLoop rs srcAddr (some buf) none depth cores off0 = some (ws, bs) →
    ∀ a ∈ ws ++ bs, a.address % 16 = 0 ∧ buf + off0 ≤ a.address ∧
      a.address + a.length ≤ buf + off0 + foundSum rs depth cores := by
  intro cores
  induction cores with
  | nil =>
    intro off0 ws bs _ h
    simp only [createWeightsLoop] at h
    injection h with h; injection h with h1 h2; subst h1; subst h2
    simp
  | cons k ks ih =>
    intro off0 ws bs ho h
    simp only [createWeightsLoop] at h
    cases hf : findRange rs k depth with
    | none =>
      rw [hf] at h
      have : foundSum rs depth (k :: ks) = foundSum rs depth ks := by simp [foundSum, hf]
      rw [this]; exact ih off0 ws bs ho h
    | some r =>
      rw [hf] at h
      simp only at h
      cases hrest : createWeightsLoop rs srcAddr (some buf) none depth ks (off0 + roundUp16 r.totalBytes) with
      | none => rw [hrest] at h; simp at h
      | some p =>
        obtain ⟨ws', bs'⟩ := p
        rw [hrest] at h
        simp only at h
        injection h with h; injection h with h1 h2; subst h1; subst h2
        obtain ⟨hr, _, _⟩ := findRange_mem rs k depth r hf
        have hn := hnum r hr
        have hsum : foundSum rs depth (k :: ks) = roundUp16 r.totalBytes + foundSum rs depth ks := by
          simp [foundSum, hf]
        have hrt := roundUp16_mod r.totalBytes
        have ih' := ih (off0 + roundUp16 r.totalBytes) ws' bs' (by omega) hrest
        have hro := roundUp16_of_mod _ hn.wbAligned
        have hsb := roundUp16_mod r.scaleBytes
        have htot : roundUp16 r.scaleBytes + r.weightBytes = roundUp16 r.totalBytes := by
          unfold Range.totalBytes; rw [roundUp16_add _ _ hn.wbAligned]
        have hle : roundUp16 r.scaleBytes ≤ roundUp16 r.totalBytes := by omega
        intro a ha
        simp only [List.cons_append, List.mem_cons, List.mem_append] at ha
        rw [hsum]
        rcases ha with rfl | ha | rfl | ha
        · simp only [hro]
          rcases hn.wo with h1 | ⟨h1, h2⟩
          · rw [h1]; omega
          · rw [h1, h2]; omega
        · have := ih' a (by simp [ha]); omega
        · simp only; omega
        · have := ih' a (by simp [ha]); omega


/-! ### the memo table -/

/-- every entry of the table is the fresh answer of some admissible request with that key -/
def CacheInv {ρ κ β : Type} (key : ρ → κ) (fresh : ρ → β) (S : ρ → Prop) (cache : List (κ × β)) : Prop :=
  ∀ e ∈ cache, ∃ r, S r ∧ key r = e.1 ∧ fresh r = e.2

theorem cacheGet_some {κ β : Type} [DecidableEq κ] (cache : List (κ × β)) (k : κ) (v : β)
    (h : cacheGet cache k = some v) : (k, v) ∈ cache := by
  unfold cacheGet at h
  cases hf : cache.find? (fun e => e.1 = k) with
  | none => rw [hf] at h; simp at h
  | some e =>
    rw [hf] at h
    simp only [Option.map_some, Option.some.injEq] at h
    have h1 := List.mem_of_find?_eq_some hf
    have h2 := List.find?_some hf
    simp only [decide_eq_true_eq] at h2
    subst h; rw [← h2]; exact h1

theorem cachedRun_sound {ρ κ β : Type} [DecidableEq κ] (key : ρ → κ) (fresh : ρ → β) (S : ρ → Prop)
    (hfun : ∀ a b, S a → S b → key a = key b → fresh a = fresh b) :
    ∀ (reqs : List ρ) (cache : List (κ × β)), CacheInv key fresh S cache → (∀ r ∈ reqs, S r) →
      ∀ p ∈ cachedRun key fresh cache reqs, p.2 = fresh p.1 := by
  intro reqs
  induction reqs with
  | nil => intro cache _ _ p hp; simp [cachedRun] at hp
  | cons r rs ih =>
    intro cache hinv hS p hp
    simp only [cachedRun, cachedStep] at hp
    cases hg : cacheGet cache (key r) with
    | some v =>
      rw [hg] at hp
      simp only [List.mem_cons] at hp
      rcases hp with rfl | hp
      · obtain ⟨r0, hs0, hk0, hf0⟩ := hinv _ (cacheGet_some cache (key r) v hg)
        simp only at hk0 hf0 ⊢
        rw [← hf0]; exact hfun r0 r hs0 (hS r (by simp)) hk0
      · exact ih cache hinv (fun x hx => hS x (by simp [hx])) p hp
    | none =>
      rw [hg] at hp
      simp only [List.mem_cons] at hp
      rcases hp with rfl | hp
      · rfl
      · refine ih _ ?_ (fun x hx => hS x (by simp [hx])) p hp
        intro e he
        simp only [List.mem_cons] at he
        rcases he with rfl | he
        · exact ⟨r, hS r (by simp), rfl, rfl⟩
        · exact hinv e he

/-- a stale answer (one that is not the fresh encoding of its request) can only come from an *earlier* request
    with the same key whose fresh encoding differs: a key collision -/
theorem cachedRun_stale {ρ κ β : Type} [DecidableEq κ] (key : ρ → κ) (fresh : ρ → β) :
    ∀ (reqs : List ρ) (cache : List (κ × β)) (prev : List ρ),
      (∀ e ∈ cache, ∃ a ∈ prev, key a = e.1 ∧ fresh a = e.2) →
      ∀ p ∈ cachedRun key fresh cache reqs, p.2 ≠ fresh p.1 →
        ∃ a ∈ prev ++ reqs, key a = key p.1 ∧ fresh a ≠ fresh p.1 := by
  intro reqs
  induction reqs with
  | nil => intro cache prev _ p hp; simp [cachedRun] at hp
  | cons r rs ih =>
    intro cache prev hinv p hp hne
    simp only [cachedRun, cachedStep] at hp
    have hsub : ∀ a, a ∈ (prev ++ [r]) ++ rs → a ∈ prev ++ r :: rs := by
      intro a ha; simp only [List.mem_append, List.mem_cons, List.not_mem_nil, or_false] at ha ⊢
      rcases ha with (h | h) | h
      · exact Or.inl h
      · exact Or.inr (Or.inl h)
      · exact Or.inr (Or.inr h)
    cases hg : cacheGet cache (key r) with
    | some v =>
      rw [hg] at hp
      simp only [List.mem_cons] at hp
      rcases hp with rfl | hp
      · obtain ⟨a, ha, hk, hf⟩ := hinv _ (cacheGet_some cache (key r) v hg)
        simp only at hk hf hne ⊢
        exact ⟨a, by simp [ha], hk, by rw [hf]; exact hne⟩
      · obtain ⟨a, ha, h1, h2⟩ := ih cache (prev ++ [r])
          (fun e he => by obtain ⟨a, ha, h⟩ := hinv e he; exact ⟨a, by simp [ha], h⟩) p hp hne
        exact ⟨a, hsub a ha, h1, h2⟩
    | none =>
      rw [hg] at hp
      simp only [List.mem_cons] at hp
      rcases hp with rfl | hp
      · exact absurd rfl hne
      · obtain ⟨a, ha, h1, h2⟩ := ih ((key r, fresh r) :: cache) (prev ++ [r]) (by
          intro e he
          simp only [List.mem_cons] at he
          rcases he with rfl | he
          · exact ⟨r, by simp, rfl, rfl⟩
          · obtain ⟨a, ha, h⟩ := hinv e he; exact ⟨a, by simp [ha], h⟩) p hp hne
        exact ⟨a, hsub a ha, h1, h2⟩

theorem cachedRun_two {ρ κ β : Type} [DecidableEq κ] (key : ρ → κ) (fresh : ρ → β) (a b : ρ) (h : key a = key b) :
    cachedRun key fresh [] [a, b] = [(a, fresh a), (b, fresh a)] := by
  simp [cachedRun, cachedStep, cacheGet, h]


/-- position-wise consequence of two mapped lists being equal -/
theorem zip_of_map_eq {α β γ : Type} (f : α → γ) (g : β → γ) :
    ∀ (l1 : List α) (l2 : List β), l2.map g = l1.map f → ∀ p ∈ l1.zip l2, g p.2 = f p.1 := by
  intro l1
  induction l1 with
  | nil => intro l2 _ p hp; simp at hp
  | cons a t ih =>
    intro l2 h p hp
    cases l2 with
    | nil => simp at hp
    | cons b t2 =>
      simp only [List.map_cons, List.cons.injEq] at h
      simp only [List.zip_cons_cons, List.mem_cons] at hp
      rcases hp with rfl | hp
      · exact h.1
      · exact ih t2 h.2 p hp

/-- the tensor a cache-bypassing call of the model returns, as its holder sees it (`pk`: the traversal flag, which
    the model does not compute) -/
def tensorOf (c : Cfg) (out : Out) (pk : Bool) : ETensor :=
  ⟨out.stream, (artefactOf c out).ranges, out.dbs.1, out.dbs.2, pk⟩

theorem extract_toList (a : Array Nat) (s n : Nat) : (a.extract s (s + n)).toList = bytesAt a.toList s n := by
  unfold bytesAt
  rw [Array.toList_extract, List.extract_eq_take_drop]
  simp

theorem bytesAt_mid (pre mid post : List Nat) (off n : Nat) (h : off + n ≤ mid.length) :
    bytesAt (pre ++ mid ++ post) (pre.length + off) n = bytesAt mid off n := by
  unfold bytesAt
  rw [List.append_assoc, List.drop_append, List.drop_of_length_le (by omega), List.nil_append]
  have : pre.length + off - pre.length = off := by omega
  rw [this, List.drop_append_of_le_length (by omega), List.take_append_of_le_length (by simp; omega)]

/-- model end to end for the cache: request A fills the table; request B (same weights, other biases) is answered
    with A's tensor and a stand-alone scale tensor; `f` is B's fresh encoding -/
def witnessCfgB : Cfg := { witnessCfg with biases := witnessCfg.biases.map (· + 5) }

def transparencyWitness : Option (ETensor × Option ETensor × ETensor) :=
  match encodeTensor witnessCfg [0, 4, 8], encodeTensor { witnessCfgB with doWeights := false } [0, 4, 8],
        encodeTensor witnessCfgB [0, 4, 8] with
  | .ok a, .ok s, .ok f =>
    some (tensorOf witnessCfg a true, some (tensorOf { witnessCfgB with doWeights := false } s true), tensorOf witnessCfgB f true)
  | _, _, _ => none

def toRng (region : Nat) (a : AddrRange) : Rng := ⟨region, a.address, a.length⟩

/-- model end to end for the registers: the witness tensor at address 64 of a constants image, the stripe `[4, 8)`
    read in place and through a buffer at 256 of region 1 filled by the DMA of `createDmaOp`:
    (in place ok, buffered ok after the DMA, scale base 16 bytes off, buffered without the DMA) -/
def emittedWitness : Option (Bool × Bool × Bool × Bool) :=
  match encodeTensor witnessCfg [0, 4, 8] with
  | .ok out =>
    let m : ConstMem := ⟨0, (List.replicate 64 0xAA ++ out.stream).toArray, []⟩
    match createWeights 2 out.rawRanges 64 none none 4, createWeights 2 out.rawRanges 64 (some 256) none 4,
          createDmaOp 2 out.rawRanges 64 256 4 with
    | some (ws, bs), some (wsB, bsB), some (src, dst) =>
      let direct : OpConsts := ⟨2, 4, 8, bs.map (toRng 0), ws.map (toRng 0)⟩
      let m' := m.dma (toRng 0 src) (toRng 1 dst)
      let buffered : OpConsts := ⟨2, 4, 8, bsB.map (toRng 1), wsB.map (toRng 1)⟩
      let wrong : OpConsts := { direct with scales := direct.scales.map fun r => { r with addr := r.addr + 16 } }
      let own := [List.replicate 32 0, List.replicate 32 0]
      some (decide (ScaleRegsOk m (expOf witnessCfg) direct ∧ WeightRegsOk m direct own),
            decide (ScaleRegsOk m' (expOf witnessCfg) buffered ∧ WeightRegsOk m' buffered own),
            decide (ScaleRegsOk m (expOf witnessCfg) wrong),
            decide (ScaleRegsOk m (expOf witnessCfg) buffered))
    | _, _, _ => none
  | .error _ => none

/-- the (scale) address range `create_weights` derives for core `k` when the tensor is read in place -/
def directScale (rs : List Range) (src depth k : Nat) : AddrRange :=
  match findRange rs k depth with
  | some r => ⟨src + r.offset, roundUp16 r.scaleBytes⟩
  | none => ⟨0, 0⟩

def directWeight (rs : List Range) (src depth k : Nat) : AddrRange :=
  match findRange rs k depth with
  | some r => ⟨src + r.offset + r.weightOffset, roundUp16 r.weightBytes⟩
  | none => ⟨0, 0⟩

theorem createWeightsLoop_direct_map (rs : List Range) (src depth : Nat) :
    ∀ (cores : List Nat) (off0 : Nat), (∀ k ∈ cores, (findRange rs k depth).isSome) →
      createWeightsLoop rs src none none depth cores off0
        = some (cores.map (directWeight rs src depth), cores.map (directScale rs src depth)) := by
  intro cores
  induction cores with
  | nil => intro off0 _; rfl
  | cons k ks ih =>
    intro off0 hall
    have hk := hall k (by simp)
    cases hf : findRange rs k depth with
    | none => rw [hf] at hk; simp at hk
    | some r =>
      simp only [createWeightsLoop, hf]
      rw [ih off0 (fun x hx => hall x (by simp [hx]))]
      simp [directWeight, directScale, hf]

theorem mem_zip_map_self {α β : Type} (f : α → β) : ∀ (l : List α) (p : α × β), p ∈ l.zip (l.map f) → p.2 = f p.1 := by
  intro l
  induction l with
  | nil => intro p hp; simp at hp
  | cons a t ih =>
    intro p hp
    simp only [List.map_cons, List.zip_cons_cons, List.mem_cons] at hp
    rcases hp with rfl | hp
    · rfl
    · exact ih p hp

theorem chanOf_nonempty (n k off len : Nat) (hk : k < n) (hl : k < len) : (chanOf n k off len).length ≠ 0 := by
  have : off + k ∈ chanOf n k off len := by
    unfold chanOf
    simp only [List.mem_map, List.mem_filter, List.mem_range, decide_eq_true_eq]
    exact ⟨k, ⟨hl, Nat.mod_eq_of_lt hk⟩, rfl⟩
  intro h0
  have := List.length_pos_of_mem this
  omega

theorem find_made (c : Cfg) (offsets : List Nat) (out : Out) (hv : ValidReq (reqOf c offsets))
    (h : encodeTensor c offsets = .ok out) (s : Nat × Nat × Nat) (hs : s ∈ slices offsets) (k : Nat)
    (hk : k < activeCores (reqOf c offsets)) :
    ∃ r, findRange out.rawRanges k s.2.1 = some r ∧ r ∈ out.rawRanges ∧ Made c s.1 s.2.1 s.2.2 k r := by
  have hf := encodeTensor_facts c offsets out h
  obtain ⟨_, hb, _, _, _, hsorted⟩ := hv
  have he : (⟨s.1, k, s.2.1, s.2.2⟩ : Expect) ∈ expected (reqOf c offsets) := (mem_expected_iff _ _).2 ⟨hs, hk⟩
  obtain ⟨r, hr, hm⟩ := (made_expected c offsets out hb hf).exists_right _ he
  cases hfind : findRange out.rawRanges k s.2.1 with
  | none =>
    unfold findRange at hfind
    have := List.find?_eq_none.1 hfind r hr
    simp [hm.hcore, hm.hdepth] at this
  | some r' =>
    obtain ⟨hr', hc', hd'⟩ := findRange_mem _ _ _ _ hfind
    rcases pairwise_mem_cases (rawRanges_distinct c offsets out hsorted hf) r' r hr' hr with hx | hx | hx
    · subst hx; exact ⟨r', rfl, hr, hm⟩
    · exact absurd ⟨by rw [hc', hm.hcore], by rw [hd', hm.hdepth]⟩ hx
    · exact absurd ⟨by rw [hc', hm.hcore], by rw [hd', hm.hdepth]⟩ hx

theorem read_in_image (m : ConstMem) (pre mid post : List Nat) (himg : m.image.toList = pre ++ mid ++ post)
    (off n : Nat) (hin : off + n ≤ mid.length) :
    m.read ⟨m.constRegion, pre.length + off, n⟩ = some (bytesAt mid off n) := by
  have hsize : m.image.size = pre.length + mid.length + post.length := by
    rw [← Array.length_toList, himg]; simp; omega
  unfold ConstMem.read
  simp only [if_true]
  rw [if_pos (by rw [hsize]; omega), extract_toList, himg, bytesAt_mid _ _ _ _ _ hin]

theorem mem_zip_map_map {α β γ : Type} (f : α → β) (g : α → γ) :
    ∀ (l : List α) (p : β × γ), p ∈ (l.map f).zip (l.map g) → ∃ k ∈ l, p = (f k, g k) := by
  intro l
  induction l with
  | nil => intro p hp; simp at hp
  | cons a t ih =>
    intro p hp
    simp only [List.map_cons, List.zip_cons_cons, List.mem_cons] at hp
    rcases hp with rfl | hp
    · exact ⟨a, by simp, rfl⟩
    · obtain ⟨k, hk, hp'⟩ := ih p hp
      exact ⟨k, by simp [hk], hp'⟩


/-- a small one-core configuration with three channels split `[0, 1, 3]`: slice 1 is larger than slice 0 -/
def unevenCfg : Cfg :=
  { ncores := 1, fullDepth := 3, blockDepth := 8, doWeights := true, scales := List.replicate 3 (1073741824, 30),
    biases := [1, -2, 3], enc := fun chs _ => List.replicate (16 * chs.length) 7 }

/-- two requests that differ only in the IFM bit depth -/
def reqInt8 : Req :=
  { blockType := 1, blockDepthClamped := 16, depthHash := 77, dilation := (1, 1), weightValueId := 5, scaleValueId := 6,
    ifmScale := 1, ofmScale := 2, accelerator := 2, ifmBits := 8, opFlip := false, depthOffsets := [0, 16], blockDepth := 16,
    weightData := 9, scaleData := 10 }
def reqInt16 : Req := { reqInt8 with ifmBits := 16, scaleValueId := 7, scaleData := 11 }

theorem slice_key_iff (q : SReq) (hv : ValidReq q) (s t : Nat × Nat × Nat) (hs : s ∈ slices q.offsets)
    (ht : t ∈ slices q.offsets) : (t.2.1 = s.2.1 ↔ t.1 = s.1) := by
  obtain ⟨_, _, _, _, _, hsorted⟩ := hv
  cases hq : q.offsets with
  | nil => rw [hq] at hs; simp [slices, slicesFrom] at hs
  | cons a tl =>
    rw [hq] at hs ht hsorted
    obtain ⟨hp1, hp2, _⟩ := slicesFrom_props a tl 0 hsorted
    have h1 := hp1 s hs
    have h2 := hp1 t ht
    rcases pairwise_mem_cases hp2 t s ht hs with h | h | h
    · subst h; simp
    · constructor <;> intro hx <;> omega
    · constructor <;> intro hx <;> omega

theorem dmaBytes_map (rs : List Range) : dmaBytes (rs.map toARange) = dmaSum rs := by
  unfold dmaBytes dmaSum
  rw [List.map_map]
  rfl

theorem dbs_ok (c : Cfg) (offsets : List Nat) (out : Out) (hv : ValidReq (reqOf c offsets))
    (hf : TensorFacts c offsets out) : DbsOk (reqOf c offsets) (rawArtefactOf c out) := by
  have hv' := hv
  obtain ⟨_, hb, _, _, _, _⟩ := hv
  intro s hs
  have hall := made_expected c offsets out hb hf
  have hfil : sliceRanges (rawArtefactOf c out) s.2.1 = (out.rawRanges.filter (fun r => r.slice = s.1)).map toARange := by
    unfold sliceRanges rawArtefactOf
    simp only
    rw [List.filter_map]
    congr 1
    apply List.filter_congr
    intro r hr
    obtain ⟨e, he, hm⟩ := hall.exists_left r hr
    obtain ⟨hsl, _⟩ := mem_expected _ _ he
    have := slice_key_iff _ hv' s (e.slice, e.off, e.len) hs hsl
    have hd := hm.hdepth
    have hsl2 := hm.hslice
    simp only [Function.comp, toARange]
    simp only at this
    by_cases hx : r.depth = s.2.1
    · have : r.slice = s.1 := by rw [hsl2]; exact this.1 (by rw [← hd]; exact hx)
      simp [hx, this]
    · have : ¬ r.slice = s.1 := fun h => hx (by rw [hd]; exact this.2 (by rw [← hsl2]; exact h))
      simp [hx, this]
  rw [hfil, dmaBytes_map]
  have := hf.dbs s.1
  unfold dbsOf rawArtefactOf
  unfold getDbs at this
  exact this


end VelaVerif.WeightLayout
