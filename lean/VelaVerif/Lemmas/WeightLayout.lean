import VelaVerif.Model.WeightLayout
import VelaVerif.Spec.WeightLayout
/-! Helper lemmas for C08 (model: `Model/WeightLayout.lean`, spec: `Spec/WeightLayout.lean`). -/
namespace VelaVerif.WeightLayout
open VelaVerif.WeightSpec (bytesAt decodeRecord decodeRecords Rec chanOf)

/-! ### the 80-bit record -/

def recordBytes (bias scale shift : Int) : List Nat :=
  [byteOf bias 0, byteOf bias 1, byteOf bias 2, byteOf bias 3, byteOf bias 4,
   byteOf scale 0, byteOf scale 1, byteOf scale 2, byteOf scale 3, (shift % 64).toNat]

/-- the argument ranges `encode_bias` asserts -/
def InRange (bias scale shift : Int) : Prop :=
  (-(2:Int)^39 ≤ bias ∧ bias < (2:Int)^39) ∧ (0 ≤ scale ∧ scale < (2:Int)^32) ∧ (0 ≤ shift ∧ shift < 64)

theorem encodeBias_ok (bias scale shift : Int) (h : InRange bias scale shift) :
    encodeBias bias scale shift = .ok (recordBytes bias scale shift) := by
  obtain ⟨hb, hs, hh⟩ := h
  unfold encodeBias
  simp only [hb, hs, hh, and_self, not_true_eq_false, if_false]
  rfl

theorem encodeBias_err (bias scale shift : Int) (h : ¬ InRange bias scale shift) :
    encodeBias bias scale shift = .error .assert := by
  unfold encodeBias InRange at *
  split
  · rfl
  · split
    · rfl
    · split
      · rfl
      · exfalso; apply h; simp_all

theorem encodeBias_ok_iff (bias scale shift : Int) (bytes : List Nat) :
    encodeBias bias scale shift = .ok bytes ↔ InRange bias scale shift ∧ bytes = recordBytes bias scale shift := by
  by_cases h : InRange bias scale shift
  · rw [encodeBias_ok _ _ _ h]; simp [h, eq_comm]
  · rw [encodeBias_err _ _ _ h]; simp [h]

theorem byteOf_lt (x : Int) (k : Nat) : byteOf x k < 256 := by
  unfold byteOf
  have h : (x / (256:Int)^k) % 256 < 256 := Int.emod_lt_of_pos _ (by decide)
  have h0 : 0 ≤ (x / (256:Int)^k) % 256 := Int.emod_nonneg _ (by decide)
  omega

private theorem step256 (x : Int) : x = x % 256 + 256 * (x / 256) := by omega

theorem decomp5 (x : Int) :
    x = x % 256 + 256 * (x / 256 % 256) + 65536 * (x / 65536 % 256) + 16777216 * (x / 16777216 % 256)
        + 4294967296 * (x / 4294967296 % 256) + 1099511627776 * (x / 1099511627776) := by
  have h1 : x / 65536 = x / 256 / 256 := by omega
  have h2 : x / 16777216 = x / 65536 / 256 := by omega
  have h3 : x / 4294967296 = x / 16777216 / 256 := by omega
  have h4 : x / 1099511627776 = x / 4294967296 / 256 := by omega
  have s0 := step256 x; have s1 := step256 (x / 256); have s2 := step256 (x / 65536)
  have s3 := step256 (x / 16777216); have s4 := step256 (x / 4294967296)
  rw [← h1] at s1; rw [← h2] at s2; rw [← h3] at s3; rw [← h4] at s4
  omega

private theorem signed40 (a0 a1 a2 a3 a4 q x : Int)
    (h : x = a0 + 256 * a1 + 65536 * a2 + 16777216 * a3 + 4294967296 * a4 + 1099511627776 * q)
    (b0 : 0 ≤ a0 ∧ a0 < 256) (b1 : 0 ≤ a1 ∧ a1 < 256) (b2 : 0 ≤ a2 ∧ a2 < 256) (b3 : 0 ≤ a3 ∧ a3 < 256)
    (b4 : 0 ≤ a4 ∧ a4 < 256) (hx : -549755813888 ≤ x ∧ x < 549755813888) :
    (if a0.toNat + 256 * a1.toNat + 65536 * a2.toNat + 16777216 * a3.toNat + 4294967296 * a4.toNat < 549755813888
     then ((a0.toNat + 256 * a1.toNat + 65536 * a2.toNat + 16777216 * a3.toNat + 4294967296 * a4.toNat : Nat) : Int)
     else ((a0.toNat + 256 * a1.toNat + 65536 * a2.toNat + 16777216 * a3.toNat + 4294967296 * a4.toNat : Nat) : Int)
            - 1099511627776) = x := by
  split <;> omega

private theorem unsigned32 (a0 a1 a2 a3 q x : Int) (h : x = a0 + 256 * a1 + 65536 * a2 + 16777216 * a3 + 4294967296 * q)
    (b0 : 0 ≤ a0 ∧ a0 < 256) (b1 : 0 ≤ a1 ∧ a1 < 256) (b2 : 0 ≤ a2 ∧ a2 < 256) (b3 : 0 ≤ a3 ∧ a3 < 256)
    (hx : 0 ≤ x ∧ x < 4294967296) :
    a0.toNat + 256 * a1.toNat + 65536 * a2.toNat + 16777216 * a3.toNat = x.toNat := by
  omega

theorem decode_recordBytes (bias scale shift : Int) (h : InRange bias scale shift) :
    decodeRecord (recordBytes bias scale shift) = some ⟨bias, scale.toNat, shift.toNat⟩ := by
  obtain ⟨hb, hs, hh⟩ := h
  simp only [decodeRecord, recordBytes]
  have e0 := byteOf_lt bias 0; have e1 := byteOf_lt bias 1; have e2 := byteOf_lt bias 2
  have e3 := byteOf_lt bias 3; have e4 := byteOf_lt bias 4
  have f0 := byteOf_lt scale 0; have f1 := byteOf_lt scale 1; have f2 := byteOf_lt scale 2
  have f3 := byteOf_lt scale 3
  have g : (shift % 64).toNat < 64 := by omega
  rw [if_pos ⟨e0, e1, e2, e3, e4, f0, f1, f2, f3, g⟩]
  simp only [Option.some.injEq, Rec.mk.injEq]
  simp only [Int.reducePow] at hb hs
  refine ⟨?_, ?_, ?_⟩
  · have d := decomp5 bias
    simp only [byteOf, Int.reducePow, Int.ediv_one, Nat.reducePow]
    exact signed40 _ _ _ _ _ _ _ d (by omega) (by omega) (by omega) (by omega) (by omega) hb
  · have d := decomp5 scale
    simp only [byteOf, Int.reducePow, Int.ediv_one]
    have hq2 : scale / 4294967296 % 256 = 0 := by omega
    have hq3 : scale / 1099511627776 = 0 := by omega
    rw [hq2, hq3] at d
    exact unsigned32 _ _ _ _ 0 _ (by omega) (by omega) (by omega) (by omega) (by omega) hs
  · omega

theorem recordBytes_length (b s h : Int) : (recordBytes b s h).length = 10 := rfl

theorem decodeRecords_cons (b s h : Int) (rest : List Nat) (r : Rec) (rs : List Rec)
    (hr : decodeRecord (recordBytes b s h) = some r) (hrs : decodeRecords rest = some rs) :
    decodeRecords (recordBytes b s h ++ rest) = some (r :: rs) := by
  simp only [recordBytes] at hr
  simp only [recordBytes, List.cons_append, List.nil_append, decodeRecords, hr, hrs]

/-! ### padding -/

theorem roundUp16_mod (n : Nat) : roundUp16 n % 16 = 0 := by unfold roundUp16; omega
theorem roundUp16_ge (n : Nat) : n ≤ roundUp16 n := by unfold roundUp16; omega
theorem roundUp16_of_mod (n : Nat) (h : n % 16 = 0) : roundUp16 n = n := by unfold roundUp16; omega
theorem roundUp16_add (a b : Nat) (h : b % 16 = 0) : roundUp16 (a + b) = roundUp16 a + b := by
  unfold roundUp16; omega

theorem padTo16_length (s : List Nat) : (padTo16 s).length = roundUp16 s.length := by
  unfold padTo16 roundUp16
  split
  · simp only [List.length_append, List.length_replicate]; omega
  · omega

theorem padTo16_eq (s : List Nat) : ∃ z, padTo16 s = s ++ z := by
  unfold padTo16
  split
  · exact ⟨_, rfl⟩
  · exact ⟨[], by simp⟩

/-! ### `bytesAt` -/

theorem bytesAt_append_left (s t : List Nat) (start len : Nat) (h : start + len ≤ s.length) :
    bytesAt (s ++ t) start len = bytesAt s start len := by
  unfold bytesAt
  rw [List.drop_append_of_le_length (by omega)]
  rw [List.take_append_of_le_length (by simp only [List.length_drop]; omega)]

theorem bytesAt_exact (s x t : List Nat) : bytesAt (s ++ x ++ t) s.length x.length = x := by
  unfold bytesAt
  rw [List.append_assoc, List.drop_left, List.take_left]

/-! ### one core iteration -/

/-- `core_block_depth` -/
def cbdOf (c : Cfg) (core : Nat) : Nat := (c.blockDepth + c.ncores - 1 - core) / c.ncores

/-- the range `encodeCore` creates, given the record bytes `ss` -/
def newRange (c : Cfg) (idx off len core : Nat) (st : St) (ss : List Nat) : Range :=
  let wch := if c.doWeights then weightChannels c off len core else []
  let sub := if c.doWeights then c.enc wch (cbdOf c core) else []
  { core := core, depth := off, offset := st.stream.length, scaleBytes := ss.length,
    weightOffset := if c.doWeights then (padTo16 (st.stream ++ ss)).length - st.stream.length else 0,
    weightBytes := sub.length, index := st.index, slice := idx, scaleCh := scaleChannels c off len core,
    weightCh := wch, cbd := cbdOf c core, scaleData := ss, weightData := sub }

theorem encodeCore_cases (c : Cfg) (idx off len core : Nat) (st st' : St)
    (h : encodeCore c idx off len core st = .ok st') :
    (cbdOf c core = 0 ∧ st' = st) ∨
    (cbdOf c core ≠ 0 ∧ ∃ ss,
      scaleRecords c (scaleChannels c off len core)
        (pySliceIdx c.scales.length (off + core) (off + core + len) c.ncores) = .ok ss ∧
      (c.doWeights = true → (padTo16 (st.stream ++ ss) ++ (newRange c idx off len core st ss).weightData).length % 16 = 0) ∧
      st' = { stream := padTo16 (st.stream ++ ss) ++ (newRange c idx off len core st ss).weightData,
              ranges := st.ranges ++ [newRange c idx off len core st ss], index := st.index + 1 }) := by
  unfold encodeCore at h
  simp only at h
  by_cases h0 : (c.blockDepth + c.ncores - 1 - core) / c.ncores = 0
  · left
    rw [if_pos h0] at h
    exact ⟨h0, by injection h with h; exact h.symm⟩
  · right
    rw [if_neg h0] at h
    refine ⟨h0, ?_⟩
    cases hs : scaleRecords c (scaleChannels c off len core)
        (pySliceIdx c.scales.length (off + core) (off + core + len) c.ncores) with
    | error e => rw [hs] at h; cases h
    | ok ss =>
      rw [hs] at h
      simp only at h
      by_cases hw : c.doWeights = true
      · simp only [hw, if_true, true_and, ne_eq] at h
        split at h
        · cases h
        · rename_i hassert
          injection h with h
          refine ⟨ss, rfl, ?_, ?_⟩
          · intro _
            simp only [Decidable.not_not] at hassert
            simpa [newRange, hw, cbdOf] using hassert
          · rw [← h]; simp [newRange, hw, cbdOf]
      · simp only [hw] at h
        injection h with h
        refine ⟨ss, rfl, fun hw' => absurd hw' hw, ?_⟩
        rw [← h]; simp [newRange, hw, cbdOf]

/-! ### the loop invariant -/

/-- what holds of a recorded range with respect to the stream built so far -/
structure RangeGood (c : Cfg) (S : List Nat) (r : Range) : Prop where
  offAligned : r.offset % 16 = 0
  woAligned : r.weightOffset % 16 = 0
  wbAligned : r.weightBytes % 16 = 0
  inside : r.stop ≤ S.length
  wo : r.weightOffset = if c.doWeights then roundUp16 r.scaleBytes else 0
  wb0 : c.doWeights = false → r.weightBytes = 0
  sbLen : r.scaleBytes = r.scaleData.length
  wbLen : r.weightBytes = r.weightData.length
  scaleAt : bytesAt S r.offset r.scaleBytes = r.scaleData
  weightAt : bytesAt S (r.offset + r.weightOffset) r.weightBytes = r.weightData

theorem Range.stop_ge_scale (r : Range) : r.offset + r.scaleBytes ≤ r.stop := by unfold Range.stop; omega
theorem Range.stop_ge_weight (r : Range) : r.offset + r.weightOffset + r.weightBytes ≤ r.stop := by
  unfold Range.stop; omega

theorem RangeGood.mono {c : Cfg} {S : List Nat} {r : Range} (h : RangeGood c S r) (T : List Nat) :
    RangeGood c (S ++ T) r := by
  refine { h with inside := ?_, scaleAt := ?_, weightAt := ?_ }
  · have := h.inside; simp only [List.length_append]; omega
  · rw [bytesAt_append_left _ _ _ _ (by have := h.inside; have := r.stop_ge_scale; omega)]; exact h.scaleAt
  · rw [bytesAt_append_left _ _ _ _ (by have := h.inside; have := r.stop_ge_weight; omega)]; exact h.weightAt

structure Good (c : Cfg) (st : St) : Prop where
  aligned : st.stream.length % 16 = 0
  rng : ∀ r ∈ st.ranges, RangeGood c st.stream r
  ordered : st.ranges.Pairwise (fun r s => r.stop ≤ s.offset)

theorem bytesAt_zero (S : List Nat) (k : Nat) : bytesAt S k 0 = [] := by simp [bytesAt]

theorem newRange_good (c : Cfg) (idx off len core : Nat) (st : St) (ss : List Nat)
    (hal : st.stream.length % 16 = 0)
    (hass : c.doWeights = true →
      (padTo16 (st.stream ++ ss) ++ (newRange c idx off len core st ss).weightData).length % 16 = 0) :
    RangeGood c (padTo16 (st.stream ++ ss) ++ (newRange c idx off len core st ss).weightData)
      (newRange c idx off len core st ss) ∧
    (padTo16 (st.stream ++ ss) ++ (newRange c idx off len core st ss).weightData).length % 16 = 0 := by
  obtain ⟨z, hz⟩ := padTo16_eq (st.stream ++ ss)
  have hpl := padTo16_length (st.stream ++ ss)
  simp only [List.length_append] at hpl
  have hr16 : roundUp16 (st.stream.length + ss.length) = st.stream.length + roundUp16 ss.length := by
    unfold roundUp16; omega
  have hr := roundUp16_mod ss.length
  have hge := roundUp16_ge ss.length
  by_cases hw : c.doWeights = true
  · have ha := hass hw
    simp only [List.length_append] at ha
    have hwo : (newRange c idx off len core st ss).weightOffset = roundUp16 ss.length := by
      simp only [newRange, hw, if_true, hpl]; omega
    refine ⟨{ offAligned := hal, woAligned := (by rw [hwo]; exact hr), wbAligned := ?_, inside := ?_, wo := ?_,
              wb0 := (fun h => by rw [hw] at h; cases h), sbLen := rfl, wbLen := rfl, scaleAt := ?_, weightAt := ?_ }, ?_⟩
    · show (newRange c idx off len core st ss).weightData.length % 16 = 0
      omega
    · show (newRange c idx off len core st ss).stop ≤ _
      unfold Range.stop
      rw [hwo]
      simp only [List.length_append, hpl]
      show st.stream.length + max ss.length (roundUp16 ss.length + (newRange c idx off len core st ss).weightData.length) ≤ _
      omega
    · rw [hwo]; simp [hw, newRange]
    · show bytesAt _ st.stream.length ss.length = ss
      rw [hz, List.append_assoc (st.stream ++ ss)]
      exact bytesAt_exact _ _ _
    · show bytesAt _ (st.stream.length + (newRange c idx off len core st ss).weightOffset)
        (newRange c idx off len core st ss).weightData.length = _
      rw [hwo]
      have : st.stream.length + roundUp16 ss.length = (padTo16 (st.stream ++ ss)).length := by
        rw [padTo16_length]; simp only [List.length_append]; omega
      rw [this]
      unfold bytesAt
      rw [List.drop_left, List.take_length]
    · simp only [List.length_append]; exact ha
  · have hwd : (newRange c idx off len core st ss).weightData = [] := by simp [newRange, hw]
    have hwo : (newRange c idx off len core st ss).weightOffset = 0 := by simp [newRange, hw]
    have hwb : (newRange c idx off len core st ss).weightBytes = 0 := by simp [newRange, hw]
    rw [hwd, List.append_nil]
    refine ⟨{ offAligned := hal, woAligned := (by rw [hwo]), wbAligned := (by rw [hwb]), inside := ?_, wo := ?_,
              wb0 := fun _ => hwb, sbLen := rfl, wbLen := (by rw [hwb, hwd]; rfl), scaleAt := ?_, weightAt := ?_ }, ?_⟩
    · unfold Range.stop
      rw [hwo, hwb, padTo16_length]
      simp only [List.length_append]
      show st.stream.length + max ss.length (0 + 0) ≤ _
      omega
    · rw [hwo]; simp [hw]
    · show bytesAt _ st.stream.length ss.length = ss
      rw [hz]
      exact bytesAt_exact _ _ _
    · rw [hwb, hwd]; exact bytesAt_zero _ _
    · rw [padTo16_length]; exact roundUp16_mod _


/-- the ghost fields of a range created for `(idx, off, len, core)` -/
structure Made (c : Cfg) (idx off len core : Nat) (r : Range) : Prop where
  hcore : r.core = core
  hdepth : r.depth = off
  hslice : r.slice = idx
  hscaleCh : r.scaleCh = scaleChannels c off len core
  hweightCh : r.weightCh = if c.doWeights then weightChannels c off len core else []
  hcbd : r.cbd = cbdOf c core
  recs : scaleRecords c r.scaleCh (pySliceIdx c.scales.length (off + core) (off + core + len) c.ncores) = .ok r.scaleData
  wdata : r.weightData = if c.doWeights then c.enc r.weightCh r.cbd else []

theorem newRange_made (c : Cfg) (idx off len core : Nat) (st : St) (ss : List Nat)
    (hs : scaleRecords c (scaleChannels c off len core)
        (pySliceIdx c.scales.length (off + core) (off + core + len) c.ncores) = .ok ss) :
    Made c idx off len core (newRange c idx off len core st ss) :=
  { hcore := rfl, hdepth := rfl, hslice := rfl, hscaleCh := rfl, hweightCh := rfl, hcbd := rfl, recs := hs,
    wdata := by simp only [newRange] }

def dmaSum (rs : List Range) : Nat := (rs.map fun r => roundUp16 r.totalBytes).sum

theorem encodeCore_spec (c : Cfg) (idx off len core : Nat) (st st' : St) (hg : Good c st)
    (he : encodeCore c idx off len core st = .ok st') :
    Good c st' ∧
    ((cbdOf c core = 0 ∧ st' = st) ∨
     (cbdOf c core ≠ 0 ∧ ∃ r T, st'.ranges = st.ranges ++ [r] ∧ st'.stream = st.stream ++ T ∧
        Made c idx off len core r ∧ T.length = roundUp16 r.totalBytes ∧ r.offset = st.stream.length)) := by
  rcases encodeCore_cases c idx off len core st st' he with ⟨h0, rfl⟩ | ⟨h0, ss, hs, hass, rfl⟩
  · exact ⟨hg, Or.inl ⟨h0, rfl⟩⟩
  · obtain ⟨hrg, hal⟩ := newRange_good c idx off len core st ss hg.aligned hass
    obtain ⟨z, hz⟩ := padTo16_eq (st.stream ++ ss)
    have hstream : padTo16 (st.stream ++ ss) ++ (newRange c idx off len core st ss).weightData
        = st.stream ++ (ss ++ z ++ (newRange c idx off len core st ss).weightData) := by
      rw [hz]; simp only [List.append_assoc]
    refine ⟨{ aligned := hal, rng := ?_, ordered := ?_ }, Or.inr ⟨h0, _, _, rfl, hstream, newRange_made c idx off len core st ss hs, ?_, rfl⟩⟩
    · intro r hr
      simp only [List.mem_append, List.mem_singleton] at hr
      rcases hr with hr | rfl
      · show RangeGood c (padTo16 (st.stream ++ ss) ++ _) r
        rw [hstream]; exact (hg.rng r hr).mono _
      · exact hrg
    · show (st.ranges ++ [_]).Pairwise _
      rw [List.pairwise_append]
      refine ⟨hg.ordered, List.pairwise_singleton _ _, ?_⟩
      intro a ha b hb
      simp only [List.mem_singleton] at hb
      subst hb
      exact (hg.rng a ha).inside
    · -- length of the appended bytes
      have hl := congrArg List.length hstream
      have hpl := padTo16_length (st.stream ++ ss)
      simp only [List.length_append] at hl hpl
      have hr16 : roundUp16 (st.stream.length + ss.length) = st.stream.length + roundUp16 ss.length := by
        have := hg.aligned; unfold roundUp16; omega
      have hwb := hrg.wbAligned
      have hwl := hrg.wbLen
      have : (newRange c idx off len core st ss).totalBytes = ss.length + (newRange c idx off len core st ss).weightData.length := by
        unfold Range.totalBytes; rw [hwl]; rfl
      rw [this, roundUp16_add _ _ (by rw [← hwl]; exact hwb)]
      simp only [List.length_append]
      omega


/-- element-wise relation between two lists of the same length -/
inductive All₂ {α β : Type} (R : α → β → Prop) : List α → List β → Prop
  | nil : All₂ R [] []
  | cons {a : α} {b : β} {as : List α} {bs : List β} : R a b → All₂ R as bs → All₂ R (a :: as) (b :: bs)

theorem All₂.append {α β : Type} {R : α → β → Prop} {a a' : List α} {b b' : List β}
    (h : All₂ R a b) (h' : All₂ R a' b') : All₂ R (a ++ a') (b ++ b') := by
  induction h with
  | nil => simpa using h'
  | cons hx _ ih => exact All₂.cons hx ih

theorem All₂.length_eq {α β : Type} {R : α → β → Prop} {a : List α} {b : List β} (h : All₂ R a b) :
    a.length = b.length := by
  induction h with
  | nil => rfl
  | cons _ _ ih => simp [ih]

theorem All₂.zip {α β : Type} {R : α → β → Prop} {a : List α} {b : List β} (h : All₂ R a b) :
    ∀ p ∈ a.zip b, R p.1 p.2 := by
  induction h with
  | nil => simp
  | cons hx _ ih =>
    intro p hp
    simp only [List.zip_cons_cons, List.mem_cons] at hp
    rcases hp with rfl | hp
    · exact hx
    · exact ih p hp

theorem All₂.mono {α β : Type} {R S : α → β → Prop} {a : List α} {b : List β} (h : All₂ R a b)
    (hrs : ∀ x y, R x y → S x y) : All₂ S a b := by
  induction h with
  | nil => exact All₂.nil
  | cons hx _ ih => exact All₂.cons (hrs _ _ hx) ih

theorem All₂.map_eq {α β γ : Type} {R : α → β → Prop} {a : List α} {b : List β} (f : α → γ) (g : β → γ)
    (h : All₂ R a b) (hfg : ∀ x y, R x y → g y = f x) : b.map g = a.map f := by
  induction h with
  | nil => rfl
  | cons hx _ ih => simp [hfg _ _ hx, ih]

theorem dmaSum_append (a b : List Range) : dmaSum (a ++ b) = dmaSum a + dmaSum b := by
  simp [dmaSum, List.map_append, List.sum_append]

/-- cores of a slice that get a range -/
def activeCoresM (c : Cfg) (cores : List Nat) : List Nat := cores.filter (fun k => cbdOf c k ≠ 0)

theorem encodeCores_spec (c : Cfg) (idx off len : Nat) : ∀ (cores : List Nat) (st st' : St), Good c st →
    encodeCores c idx off len cores st = .ok st' →
    Good c st' ∧ ∃ new T, st'.ranges = st.ranges ++ new ∧ st'.stream = st.stream ++ T ∧
      All₂ (fun k r => Made c idx off len k r) (activeCoresM c cores) new ∧ T.length = dmaSum new ∧
      (∀ r ∈ new, st.stream.length ≤ r.offset) := by
  intro cores
  induction cores with
  | nil =>
    intro st st' hg he
    simp only [encodeCores] at he
    injection he with he
    subst he
    exact ⟨hg, [], [], by simp, by simp, by simpa [activeCoresM] using All₂.nil, by simp [dmaSum], by simp⟩
  | cons k ks ih =>
    intro st st' hg he
    simp only [encodeCores] at he
    cases h1 : encodeCore c idx off len k st with
    | error e => rw [h1] at he; cases he
    | ok st1 =>
      rw [h1] at he
      simp only at he
      obtain ⟨hg1, hcase⟩ := encodeCore_spec c idx off len k st st1 hg h1
      obtain ⟨hg', new, T, hr, hs, hf, hl, hoff⟩ := ih st1 st' hg1 he
      rcases hcase with ⟨h0, rfl⟩ | ⟨h0, r, T1, hr1, hs1, hm, hl1, hro⟩
      · refine ⟨hg', new, T, hr, hs, ?_, hl, hoff⟩
        simpa [activeCoresM, h0] using hf
      · refine ⟨hg', r :: new, T1 ++ T, ?_, ?_, ?_, ?_, ?_⟩
        · rw [hr, hr1]; simp
        · rw [hs, hs1]; simp
        · have : activeCoresM c (k :: ks) = k :: activeCoresM c ks := by simp [activeCoresM, h0]
          rw [this]; exact All₂.cons hm hf
        · simp only [List.length_append, hl, hl1, dmaSum, List.map_cons, List.sum_cons]
        · intro x hx
          simp only [List.mem_cons] at hx
          rcases hx with rfl | hx
          · omega
          · have := hoff x hx; rw [hs1] at this; simp only [List.length_append] at this; omega


theorem All₂.map_left {α β γ : Type} {R : γ → β → Prop} {a : List α} {b : List β} (f : α → γ)
    (h : All₂ (fun x y => R (f x) y) a b) : All₂ R (a.map f) b := by
  induction h with
  | nil => exact All₂.nil
  | cons hx _ ih => exact All₂.cons hx ih

theorem All₂.right_forall {α β : Type} {R : α → β → Prop} {P : β → Prop} {a : List α} {b : List β}
    (h : All₂ R a b) (hp : ∀ x y, R x y → P y) : ∀ y ∈ b, P y := by
  induction h with
  | nil => simp
  | cons hx _ ih =>
    intro y hy
    simp only [List.mem_cons] at hy
    rcases hy with rfl | hy
    · exact hp _ _ hx
    · exact ih y hy

/-- `(slice index, offset, length, core)` of every range the loops create, in creation order -/
def expectedM (c : Cfg) : Nat → List Nat → List (Nat × Nat × Nat × Nat)
  | idx, off :: next :: rest =>
    (activeCoresM c (List.range (min c.ncores c.fullDepth))).map (fun k => (idx, off, next - off, k))
      ++ expectedM c (idx + 1) (next :: rest)
  | _, _ => []

def MadeE (c : Cfg) (e : Nat × Nat × Nat × Nat) (r : Range) : Prop := Made c e.1 e.2.1 e.2.2.1 e.2.2.2 r

theorem encodeSlices_spec (c : Cfg) : ∀ (offs : List Nat) (idx : Nat) (st : St) (dbs : Nat × Nat) (st' : St)
    (dbs' : Nat × Nat), Good c st → encodeSlices c idx offs st dbs = .ok (st', dbs') →
    Good c st' ∧ ∃ new T, st'.ranges = st.ranges ++ new ∧ st'.stream = st.stream ++ T ∧
      All₂ (MadeE c) (expectedM c idx offs) new := by
  intro offs
  induction offs with
  | nil =>
    intro idx st dbs st' dbs' hg he
    simp only [encodeSlices] at he
    injection he with he; injection he with h1 h2; subst h1
    exact ⟨hg, [], [], by simp, by simp, by simpa [expectedM] using All₂.nil⟩
  | cons off tl ih =>
    intro idx st dbs st' dbs' hg he
    cases tl with
    | nil =>
      simp only [encodeSlices] at he
      injection he with he; injection he with h1 h2; subst h1
      exact ⟨hg, [], [], by simp, by simp, by simpa [expectedM] using All₂.nil⟩
    | cons next rest =>
      simp only [encodeSlices] at he
      split at he
      · cases he
      · cases h1 : encodeCores c idx off (next - off) (List.range (min c.ncores c.fullDepth)) st with
        | error e => rw [h1] at he; cases he
        | ok st1 =>
          rw [h1] at he
          simp only at he
          obtain ⟨hg1, new1, T1, hr1, hs1, hf1, _, _⟩ := encodeCores_spec c idx off (next - off) _ st st1 hg h1
          obtain ⟨hg', new, T, hr, hs, hf⟩ := ih (idx + 1) st1 _ st' dbs' hg1 he
          refine ⟨hg', new1 ++ new, T1 ++ T, by rw [hr, hr1]; simp, by rw [hs, hs1]; simp, ?_⟩
          simp only [expectedM]
          exact All₂.append (All₂.map_left (R := MadeE c) _ hf1) hf

theorem getDbs_setDbs_self (dbs : Nat × Nat) (idx v : Nat) : v ≤ getDbs (setDbs dbs idx v) idx := by
  unfold getDbs setDbs; split <;> simp_all <;> omega

theorem getDbs_setDbs_mono (dbs : Nat × Nat) (idx v i : Nat) : getDbs dbs i ≤ getDbs (setDbs dbs idx v) i := by
  unfold getDbs setDbs; split <;> split <;> simp_all <;> omega

theorem filter_slice_eq_self (rs : List Range) (i : Nat) (h : ∀ r ∈ rs, r.slice = i) :
    rs.filter (fun r => r.slice = i) = rs := by
  rw [List.filter_eq_self]; intro r hr; simp [h r hr]

theorem filter_slice_eq_nil (rs : List Range) (i : Nat) (h : ∀ r ∈ rs, r.slice ≠ i) :
    rs.filter (fun r => r.slice = i) = [] := by
  rw [List.filter_eq_nil_iff]; intro r hr; simp [h r hr]

theorem encodeSlices_dbs (c : Cfg) : ∀ (offs : List Nat) (idx : Nat) (st : St) (dbs : Nat × Nat) (st' : St)
    (dbs' : Nat × Nat), Good c st → (∀ r ∈ st.ranges, r.slice < idx) →
    (∀ i, dmaSum (st.ranges.filter (fun r => r.slice = i)) ≤ getDbs dbs i) →
    encodeSlices c idx offs st dbs = .ok (st', dbs') →
    ∀ i, dmaSum (st'.ranges.filter (fun r => r.slice = i)) ≤ getDbs dbs' i := by
  intro offs
  induction offs with
  | nil =>
    intro idx st dbs st' dbs' hg hlt hinv he
    simp only [encodeSlices] at he
    injection he with he; injection he with h1 h2; subst h1; subst h2
    exact hinv
  | cons off tl ih =>
    intro idx st dbs st' dbs' hg hlt hinv he
    cases tl with
    | nil =>
      simp only [encodeSlices] at he
      injection he with he; injection he with h1 h2; subst h1; subst h2
      exact hinv
    | cons next rest =>
      simp only [encodeSlices] at he
      split at he
      · cases he
      · cases h1 : encodeCores c idx off (next - off) (List.range (min c.ncores c.fullDepth)) st with
        | error e => rw [h1] at he; cases he
        | ok st1 =>
          rw [h1] at he
          simp only at he
          obtain ⟨hg1, new1, T1, hr1, hs1, hf1, hl1, _⟩ := encodeCores_spec c idx off (next - off) _ st st1 hg h1
          have hslice : ∀ r ∈ new1, r.slice = idx := hf1.right_forall (fun _ _ h => h.hslice)
          have hgrow : st1.stream.length - st.stream.length = dmaSum new1 := by
            rw [hs1]; simp only [List.length_append]; omega
          rw [hgrow] at he
          refine ih (idx + 1) st1 _ st' dbs' hg1 ?_ ?_ he
          · intro r hr
            rw [hr1] at hr
            simp only [List.mem_append] at hr
            rcases hr with hr | hr
            · have := hlt r hr; omega
            · have := hslice r hr; omega
          · intro i
            rw [hr1, List.filter_append, dmaSum_append]
            by_cases hi : i = idx
            · subst hi
              rw [filter_slice_eq_nil st.ranges i (fun r hr => by have := hlt r hr; omega),
                  filter_slice_eq_self new1 i hslice]
              have := getDbs_setDbs_self dbs i (dmaSum new1)
              simp only [dmaSum, List.map_nil, List.sum_nil] at *
              omega
            · rw [filter_slice_eq_nil new1 i (fun r hr => by rw [hslice r hr]; exact fun h => hi h.symm)]
              have := getDbs_setDbs_mono dbs idx (dmaSum new1) i
              have := hinv i
              simp only [dmaSum, List.map_nil, List.sum_nil] at *
              omega

end VelaVerif.WeightLayout
