import VelaVerif.Spec.NpuSem
import VelaVerif.Spec.Tiling
/-! Helper lemmas for `Props/C01.lean` (sums over ranges, rounding division by a power of two). -/
namespace VelaVerif.Lemmas.Sem
open VelaVerif.TfliteRef VelaVerif.Requant

theorem sumRange_congr (n : Nat) (f g : Nat → Int) (h : ∀ i, i < n → f i = g i) : sumRange n f = sumRange n g := by
  induction n with
  | zero => rfl
  | succ k ih =>
    simp only [sumRange]
    rw [ih (fun i hi => h i (Nat.lt_succ_of_lt hi)), h k (Nat.lt_succ_self k)]

theorem two_pow_pos (e : Nat) : (0 : Int) < (2 : Int) ^ e := by
  have : (0 : Int) < 2 := by decide
  exact Int.pow_pos this

theorem two_pow_succ (e : Nat) : (2 : Int) ^ (e + 1) = 2 * (2 : Int) ^ e := by
  rw [Int.pow_succ]; omega

/-- `RoundingDivideByPOT` in quotient/remainder form: nearest, ties away from zero -/
theorem rdivpot_cases (x : Int) (e : Nat) :
    rdivpot x e =
      (let p : Int := (2 : Int) ^ e
       let q := x / p
       let r := x % p
       if 2 * r > p then q + 1 else if 2 * r = p then (if x < 0 then q else q + 1) else q) := by
  unfold rdivpot
  cases e with
  | zero =>
    simp only [Int.pow_zero]
    have h1 : x % 1 = 0 := Int.emod_one x
    rw [h1]
    by_cases hx : x < 0 <;> simp [hx]
  | succ k =>
    simp only []
    have hp := two_pow_succ k
    have hpos := two_pow_pos k
    generalize hP : (2 : Int) ^ (k + 1) = P at *
    generalize hP' : (2 : Int) ^ k = P' at *
    have hr0 : 0 ≤ x % P := Int.emod_nonneg x (by omega)
    have hr1 : x % P < P := Int.emod_lt_of_pos x (by omega)
    generalize x % P = r at *
    generalize x / P = q at *
    have hthr : (P - 1) / 2 = P' - 1 := by omega
    rw [hthr]
    by_cases hx : x < 0
    · simp only [hx, if_true]
      split <;> split <;> (try split) <;> omega
    · simp only [hx, if_false]
      split <;> split <;> (try split) <;> omega

/-- `SaturatingRoundingDoublingHighMul` is `⌊(a·b + 2^30) / 2^31⌋` (round to nearest, ties towards +∞)
    outside its single saturating case -/
theorem srdhm_floor (a b : Int) (h : ¬ (a = INT32_MIN ∧ b = INT32_MIN)) :
    srdhm a b = (a * b + 1073741824) / 2147483648 := by
  unfold srdhm
  rw [if_neg h]
  generalize a * b = p
  by_cases hp : p ≥ 0
  · simp only [hp, if_true]
    rw [Int.tdiv_eq_ediv_of_nonneg (by omega)]
  · simp only [hp, if_false]
    rw [Int.tdiv_eq_ediv]
    have hs : Int.sign 2147483648 = 1 := by decide
    rw [hs]
    split
    · rename_i h
      rcases h with h | h <;> omega
    · rename_i h
      have h2 : ¬ (2147483648 : Int) ∣ p + (1 - 1073741824) := fun hh => h (Or.inr hh)
      omega


/-- the reference multiplier 2^30 with shift 0 (an input whose scale is the larger one) halves exactly -/
theorem mbqm_half (x : Int) (L : Nat) (hL : 1 ≤ L) : mbqm (x * (2 : Int) ^ L) 1073741824 0 = x * (2 : Int) ^ (L - 1) := by
  unfold mbqm
  have hns : ¬ (x * (2 : Int) ^ L = INT32_MIN ∧ (1073741824 : Int) = INT32_MIN) := by
    intro h; have := h.2; simp [INT32_MIN] at this
  simp only [show ¬ ((0 : Int) > 0) by omega, if_false, Int.pow_zero, Int.mul_one]
  rw [srdhm_floor _ _ hns, rdivpot_cases]
  simp only [show (-(0:Int)).toNat = 0 by rfl, Int.pow_zero, Int.emod_one, Int.ediv_one]
  have hp : (2 : Int) ^ L = 2 * (2 : Int) ^ (L - 1) := by
    have : L = (L - 1) + 1 := by omega
    rw [this, two_pow_succ]; simp
  rw [hp]
  generalize (2 : Int) ^ (L - 1) = P
  have : x * (2 * P) * 1073741824 = (x * P) * 2147483648 := by
    rw [Int.mul_comm 2 P, ← Int.mul_assoc, Int.mul_assoc (x * P) 2 1073741824]
    rfl
  rw [this]
  generalize x * P = y
  have h0 : (y * 2147483648 + 1073741824) / 2147483648 = y := by omega
  rw [h0]
  simp

open VelaVerif.Tiling in
theorem execStripes_row {α β : Type} (op : (Nat → α) → Nat → β) (lo hi : Nat → Nat) (hloc : IsLocal op lo hi)
    (inp : Nat → α) (l : List (Stripe α)) (hsee : ∀ s ∈ l, s.sees inp lo hi) (y : Nat) :
    ∀ out : Nat → β, (out y = op inp y ∨ ∃ s ∈ l, s.covers y) → execStripes op l out y = op inp y := by
  induction l with
  | nil =>
    intro out h
    rcases h with h | ⟨s, hs, _⟩
    · exact h
    · cases hs
  | cons s rest ih =>
    intro out h
    simp only [execStripes]
    apply ih (fun t ht => hsee t (List.mem_cons_of_mem s ht))
    by_cases hc : s.first ≤ y ∧ y < s.last
    · left
      simp only [stepStripe, hc, and_self, if_true]
      exact hloc y s.mem inp (fun r h1 h2 => hsee s (List.mem_cons_self) y hc r h1 h2)
    · rcases h with h | ⟨t, ht, hcov⟩
      · left; simp only [stepStripe, hc, if_false]; exact h
      · rcases List.mem_cons.mp ht with rfl | ht'
        · exact absurd hcov hc
        · right; exact ⟨t, ht', hcov⟩

end VelaVerif.Lemmas.Sem
