import VelaVerif.Spec.NpuSem
import VelaVerif.Spec.Tiling
/-! Helper lemmas for `Props/C01.lean` (sums over ranges, rounding division by a power of two). -/
namespace VelaVerif.Lemmas.Sem
open VelaVerif.TfliteRef VelaVerif.Requant

theorem sumRange_congr (n : Nat) (f g : Nat → Int) (h : ∀ i, i < n → f i = g i) : sumRange n f = sumRange n g := by
  induction n with
  | zero => rfl
  | succ k ih =>
    simp only [sumRange]
    rw [ih (fun i hi => h i (Nat.lt_succ_of_lt hi)), h k (Nat.lt_succ_self k)]

theorem two_pow_pos (e : Nat) : (0 : Int) < (2 : Int) ^ e := by
  have : (0 : Int) < 2 := by decide
  exact Int.pow_pos this

theorem two_pow_succ (e : Nat) : (2 : Int) ^ (e + 1) = 2 * (2 : Int) ^ e := by
  rw [Int.pow_succ]; omega

/-- `RoundingDivideByPOT` in quotient/remainder form: nearest, ties away from zero -/
theorem rdivpot_cases (x : Int) (e : Nat) :
    rdivpot x e =
      (let p : Int := (2 : Int) ^ e
       let q := x / p
       let r := x % p
       if 2 * r > p then q + 1 else if 2 * r = p then (if x < 0 then q else q + 1) else q) := by
  unfold rdivpot
  cases e with
  | zero =>
    simp only [Int.pow_zero]
    have h1 : x % 1 = 0 := Int.emod_one x
    rw [h1]
    by_cases hx : x < 0 <;> simp [hx]
  | succ k =>
    simp only []
    have hp := two_pow_succ k
    have hpos := two_pow_pos k
    generalize hP : (2 : Int) ^ (k + 1) = P at *
    generalize hP' : (2 : Int) ^ k = P' at *
    have hr0 : 0 ≤ x % P := Int.emod_nonneg x (by omega)
    have hr1 : x % P < P := Int.emod_lt_of_pos x (by omega)
    generalize x % P = r at *
    generalize x / P = q at *
    have hthr : (P - 1) / 2 = P' - 1 := by omega
    rw [hthr]
    by_cases hx : x < 0
    · simp only [hx, if_true]
      split <;> split <;> (try split) <;> omega
    · simp only [hx, if_false]
      split <;> split <;> (try split) <;> omega

open VelaVerif.Tiling in
theorem execStripes_row {α β : Type} (op : (Nat → α) → Nat → β) (lo hi : Nat → Nat) (hloc : IsLocal op lo hi)
    (inp : Nat → α) (l : List (Stripe α)) (hsee : ∀ s ∈ l, s.sees inp lo hi) (y : Nat) :
    ∀ out : Nat → β, (out y = op inp y ∨ ∃ s ∈ l, s.covers y) → execStripes op l out y = op inp y := by
  induction l with
  | nil =>
    intro out h
    rcases h with h | ⟨s, hs, _⟩
    · exact h
    · cases hs
  | cons s rest ih =>
    intro out h
    simp only [execStripes]
    apply ih (fun t ht => hsee t (List.mem_cons_of_mem s ht))
    by_cases hc : s.first ≤ y ∧ y < s.last
    · left
      simp only [stepStripe, hc, and_self, if_true]
      exact hloc y s.mem inp (fun r h1 h2 => hsee s (List.mem_cons_self) y hc r h1 h2)
    · rcases h with h | ⟨t, ht, hcov⟩
      · left; simp only [stepStripe, hc, if_false]; exact h
      · rcases List.mem_cons.mp ht with rfl | ht'
        · exact absurd hcov hc
        · right; exact ⟨t, ht', hcov⟩

end VelaVerif.Lemmas.Sem
