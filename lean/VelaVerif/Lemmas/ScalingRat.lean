import Mathlib.Tactic.Linarith
import Mathlib.Tactic.Ring
import Mathlib.Tactic.Positivity
import Mathlib.Algebra.Order.Field.Power
import Mathlib.Data.Rat.Cast.Order
import VelaVerif.Spec.Scaling
/-!
The integer statements of `Spec/Scaling.lean` say what they are meant to say over the rationals:
`scaleTo`-based comparisons of dyadics `a·2^ea`, `b·2^eb` are the comparisons of the rational numbers.
-/
namespace VelaVerif.Spec.Scaling

theorem scaleTo_rat (a e c : Int) (h : c ≤ e) :
    ((scaleTo a e c : Int) : ℚ) * (2:ℚ) ^ c = (a:ℚ) * (2:ℚ) ^ e := by
  unfold scaleTo
  have hk : ((e - c).toNat : Int) = e - c := Int.toNat_of_nonneg (by omega)
  push_cast
  have : (2:ℚ) ^ e = (2:ℚ) ^ ((e - c).toNat : Int) * (2:ℚ) ^ c := by
    rw [← zpow_add₀ (by norm_num : (2:ℚ) ≠ 0), hk]; congr 1; omega
  rw [this, zpow_natCast]; ring

theorem relErr_iff_rat (a ea b eb : Int) (n d : Nat) :
    RelErr a ea b eb n d ↔
      |(a:ℚ) * (2:ℚ) ^ ea - (b:ℚ) * (2:ℚ) ^ eb| * d ≤ (b:ℚ) * (2:ℚ) ^ eb * n := by
  have hc1 : min ea eb ≤ ea := min_le_left _ _
  have hc2 : min ea eb ≤ eb := min_le_right _ _
  rw [← scaleTo_rat a ea _ hc1, ← scaleTo_rat b eb _ hc2]
  unfold RelErr
  generalize scaleTo a ea (min ea eb) = A
  generalize scaleTo b eb (min ea eb) = B
  have hp : (0:ℚ) < (2:ℚ) ^ (min ea eb) := by positivity
  generalize (2:ℚ) ^ (min ea eb) = P at hp
  have e1 : |(A:ℚ) * P - (B:ℚ) * P| = |(A:ℚ) - B| * P := by
    rw [← sub_mul, abs_mul, abs_of_pos hp]
  rw [e1]
  constructor
  · intro h
    have h' := (Int.cast_le (R := ℚ)).2 h
    push_cast at h'
    have : |(A:ℚ) - B| * d ≤ B * n := h'
    nlinarith
  · intro h
    have : |(A:ℚ) - B| * d ≤ B * n := by
      have : (|(A:ℚ) - B| * d) * P ≤ (B * n) * P := by nlinarith
      exact le_of_mul_le_mul_right this hp
    apply (Int.cast_le (R := ℚ)).1
    push_cast
    exact this

theorem dyEq_iff_rat (a ea b eb : Int) :
    DyEq a ea b eb ↔ (a:ℚ) * (2:ℚ) ^ ea = (b:ℚ) * (2:ℚ) ^ eb := by
  have hc1 : min ea eb ≤ ea := min_le_left _ _
  have hc2 : min ea eb ≤ eb := min_le_right _ _
  rw [← scaleTo_rat a ea _ hc1, ← scaleTo_rat b eb _ hc2]
  unfold DyEq
  have hp : (0:ℚ) < (2:ℚ) ^ (min ea eb) := by positivity
  constructor
  · intro h; rw [h]
  · intro h
    have := mul_right_cancel₀ (ne_of_gt hp) h
    exact_mod_cast this

theorem dyLe_iff_rat (a ea b eb : Int) :
    DyLe a ea b eb ↔ (a:ℚ) * (2:ℚ) ^ ea ≤ (b:ℚ) * (2:ℚ) ^ eb := by
  have hc1 : min ea eb ≤ ea := min_le_left _ _
  have hc2 : min ea eb ≤ eb := min_le_right _ _
  rw [← scaleTo_rat a ea _ hc1, ← scaleTo_rat b eb _ hc2]
  unfold DyLe
  have hp : (0:ℚ) < (2:ℚ) ^ (min ea eb) := by positivity
  rw [mul_le_mul_iff_of_pos_right hp]
  exact Int.cast_le.symm

theorem dyLt_iff_rat (a ea b eb : Int) :
    DyLt a ea b eb ↔ (a:ℚ) * (2:ℚ) ^ ea < (b:ℚ) * (2:ℚ) ^ eb := by
  have hc1 : min ea eb ≤ ea := min_le_left _ _
  have hc2 : min ea eb ≤ eb := min_le_right _ _
  rw [← scaleTo_rat a ea _ hc1, ← scaleTo_rat b eb _ hc2]
  unfold DyLt
  have hp : (0:ℚ) < (2:ℚ) ^ (min ea eb) := by positivity
  rw [mul_lt_mul_iff_of_pos_right hp]
  exact Int.cast_lt.symm

end VelaVerif.Spec.Scaling
