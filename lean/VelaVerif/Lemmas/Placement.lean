import VelaVerif.Spec.Placement
import VelaVerif.Lemmas.Preserve
/-! Helper lemmas for the pipeline-level part of C16 (`Spec/Placement.lean`): characterisations of `fate`, the
per-operator judgement, list positions of `fates` / `judgeAll`, and two demonstration graphs (the witness of the seeded
change round 3 m2: CONV_2D with stride 4 -> TANH on an accelerator with reserved LUT banks). -/
namespace VelaVerif.Placement
open VelaVerif.Preserve

theorem fate_cpu_iff (src : PGraph) (table : List (Nat × Nat)) (abs : List Absorb) (j : Nat) :
    fate src table abs j = .cpu ↔ matchCount table j = 1 ∧ isAbsorbed abs j = false := by
  unfold fate
  simp only
  split
  · constructor
    · intro h; cases h
    · intro ⟨h, _⟩; omega
  · split
    · rename_i h1
      have h1' : matchCount table j = 1 := by simpa using h1
      cases ha : isAbsorbed abs j <;> simp [h1']
    · rename_i h0 h1
      have h1' : matchCount table j ≠ 1 := by simpa using h1
      constructor
      · intro h; repeat (split at h <;> try cases h)
      · intro ⟨h, _⟩; exact absurd h h1'

theorem fate_npu_iff (src : PGraph) (table : List (Nat × Nat)) (abs : List Absorb) (j : Nat) :
    fate src table abs j = .npu ↔ matchCount table j = 0 ∧ isAbsorbed abs j = true := by
  unfold fate
  simp only
  split
  · constructor
    · intro h; cases h
    · intro ⟨h, _⟩; omega
  · split
    · rename_i h1
      have h1' : matchCount table j = 1 := by simpa using h1
      constructor
      · intro h; split at h <;> cases h
      · intro ⟨h, _⟩; omega
    · rename_i h0 h1
      have h1' : matchCount table j ≠ 1 := by simpa using h1
      have hz : matchCount table j = 0 := by omega
      cases ha : isAbsorbed abs j
      · simp only [Bool.false_eq_true, if_false, hz, true_and]
        constructor
        · intro h; repeat (split at h <;> try cases h)
        · intro h; cases h
      · simp [hz]

/-- a vanished operator: no operator of the output carries its result names, no Ethos-U slice contains it, it is not
    a compile-time constant, and an output of the network depends on it -/
theorem fate_lost_iff (src : PGraph) (table : List (Nat × Nat)) (abs : List Absorb) (j : Nat) :
    fate src table abs j = .lost ↔
      matchCount table j = 0 ∧ isAbsorbed abs j = false ∧ (foldable src).contains j = false ∧ (reach src).contains j = true := by
  unfold fate
  simp only
  split
  · constructor
    · intro h; cases h
    · intro ⟨h, _⟩; omega
  · split
    · rename_i h1
      have h1' : matchCount table j = 1 := by simpa using h1
      constructor
      · intro h; split at h <;> cases h
      · intro ⟨h, _⟩; omega
    · rename_i h0 h1
      have h1' : matchCount table j ≠ 1 := by simpa using h1
      have hz : matchCount table j = 0 := by omega
      cases ha : isAbsorbed abs j <;> cases hf : (foldable src).contains j <;> cases hr : (reach src).contains j <;> simp [hz]

/-- what an accepted judgement says about one operator -/
theorem judge_sound (pred : String) (f : Fate) (h : judge pred f = true) :
    f.accounted = true ∧ (pred = "npu" → f ≠ .cpu) ∧ ((pred = "cpu" ∨ pred = "silent") → f = .cpu ∨ f = .dead) := by
  unfold judge at h
  rw [Bool.and_eq_true] at h
  refine ⟨h.1, ?_, ?_⟩
  · intro hp
    have h2 := h.2
    simp only [hp, beq_self_eq_true, if_true] at h2
    simpa using h2
  · intro hp
    have h2 := h.2
    rcases hp with hp | hp
    · have : ("cpu" == "npu") = false := by decide
      simp only [hp, this, Bool.false_eq_true, if_false, beq_self_eq_true, Bool.true_or, if_true] at h2
      simpa using h2
    · have : ("silent" == "npu") = false := by decide
      simp only [hp, this, Bool.false_eq_true, if_false, beq_self_eq_true, Bool.or_true, if_true] at h2
      simpa using h2

end VelaVerif.Placement

namespace VelaVerif.Placement
open VelaVerif.Preserve

theorem fates_getElem? (src out : PGraph) (j : Nat) (hj : j < src.ops.length) :
    (fates src out)[j]? = some (fate src (matchTable src out) (absorbs src out) j) := by
  unfold fates
  simp [List.getElem?_map, List.getElem?_range hj]

theorem judgeAll_getElem? (preds : List String) (fs : List Fate) (j : Nat) (f : Fate) (h : fs[j]? = some f) :
    (judgeAll preds fs)[j]? = some (judge (preds.getD j "-") f) := by
  unfold judgeAll
  simp [List.getElem?_map, List.getElem?_zipIdx, h]

/-- a source operator whose fate is `cpu` has a partner in the match table -/
theorem fate_cpu_matched (src out : PGraph) (j : Nat)
    (h : fate src (matchTable src out) (absorbs src out) j = .cpu) : ∃ k, (k, j) ∈ matchTable src out := by
  have h1 := ((fate_cpu_iff _ _ _ _).mp h).1
  unfold matchCount at h1
  have hex : ∃ p, p ∈ (matchTable src out).filter (fun p => p.2 == j) := by
    cases hf : (matchTable src out).filter (fun p => p.2 == j) with
    | nil => rw [hf] at h1; cases h1
    | cons p _ => exact ⟨p, List.mem_cons_self⟩
  obtain ⟨p, hp⟩ := hex
  rw [List.mem_filter] at hp
  have : p.2 = j := by simpa using hp.2
  exact ⟨p.1, by rw [← this]; exact hp.1⟩

end VelaVerif.Placement


namespace VelaVerif.Placement
open VelaVerif.Preserve

def tQ (name : String) (shape : List Int) : PTensor :=
  { name := name, shape := shape, dtype := "int8", quant := some ⟨[1036831949], [-3], [], [], 0⟩, const := none, isVariable := false }
def tC (name : String) (n : Nat) (d : String) : PTensor :=
  { name := name, shape := [Int.ofNat n], dtype := "uint8", quant := none, const := some (n, d), isVariable := false }
def tM (name : String) : PTensor := { tC name 0 "" with const := none }
def convOpts : Opts := ⟨true, 1, [(1, "04000000"), (2, "04000000")]⟩

/-- x -> CONV_2D (1x1, stride 4x4: outside the documented range) -> y -> TANH -> z -/
def demoSrc : PGraph :=
  { tensors := [tQ "78" [1, 16, 16, 4], tC "77" 16 "aa", tC "62" 16 "bb", tQ "79" [1, 4, 4, 4], tQ "7a" [1, 4, 4, 4]],
    inputs := [0], outputs := [4],
    ops := [⟨3, "", 1, convOpts, "", [some 0, some 1, some 2], [3]⟩, ⟨28, "", 1, ⟨false, 0, []⟩, "", [some 3], [4]⟩] }

def outTensors : List PTensor :=
  [tC "62" 16 "bb", tC "6373" 120 "cc", tC "666c" 64 "dd", tM "7363", tM "736366", tC "77" 16 "aa",
   tQ "78" [1, 16, 16, 4], tQ "79" [1, 4, 4, 4], tQ "7a" [1, 4, 4, 4]]

/-- what the unchanged compiler writes: the convolution verbatim on the CPU, the TANH inside an Ethos-U operator -/
def demoOut : PGraph :=
  { tensors := outTensors, inputs := [6], outputs := [8],
    ops := [⟨3, "", 1, convOpts, "", [some 6, some 5, some 0], [7]⟩,
            ⟨32, ethosuHex, 1, ⟨false, 0, []⟩, "", [some 1, some 2, some 3, some 4, some 7], [8]⟩] }

/-- what the seeded compiler writes: the convolution "fused" with the activation — it writes z, the TANH is gone -/
def demoOutFused : PGraph :=
  { tensors := outTensors, inputs := [6], outputs := [8],
    ops := [⟨3, "", 1, convOpts, "", [some 6, some 5, some 0], [8]⟩] }

end VelaVerif.Placement
