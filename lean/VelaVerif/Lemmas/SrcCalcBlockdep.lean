import VelaVerif.Lemmas.SrcBlockdep
import VelaVerif.Lemmas.SrcNpuAccess
/-!
# The translated `calc_blockdep` (`register_command_stream_util.py`) vs. `Model/Blockdep.lean` (property C04)

The callees whose arguments are operation objects (`get_address_ranges`, `has_ifm2`, `get_ifm_ofm_block_depth`,
`get_first_job_input_volume`, `get_prev_job_output_volume`, `intersects`) are *opaque functions*: parameters of the
translated definition, applied to the value arguments at each call.  The theorems instantiate them with anything
that behaves like the model's functions (`RelArea`, tied to the source on their own in `Props/C06Src.lean`); what is
compared here is `calc_blockdep`'s own control flow: early returns, the two nested loops with their `break`s,
`min`, the job accumulation.
-/
namespace VelaVerif.SrcCalcBlockdep
open VelaVerif VelaVerif.PyRt VelaVerif.Blockdep VelaVerif.NpuAccess VelaVerif.SrcBlockdep
open VelaVerif.Gen.SrcRegisterCommandStreamUtil

abbrev Vol := (Num × Num × Num) × (Num × Num × Num) × Num

/-- translated outcome vs. the model's `Option Nat` (`none`: Python raises) -/
def RelNat (s : M Num) (m : Option Nat) : Prop :=
  match m with
  | none => ∃ e, s = .error e
  | some n => s = .ok (.py (n : Int))

def pyNats (l : List Nat) : List Num := l.map fun (n : Nat) => Num.py (n : Int)

/-- the inner loop: from `outstanding_jobs = acc`, over block offsets `ks` -/
theorem inner_sim (c : LoopCtx) (ia : Area) (fout : Num → M (Option Vol))
    (fhit : (Num × Num × Num) → (Num × Num × Num) → (Num × Num × Num) → (Num × Num × Num) → M Bool)
    (hout : ∀ k : Nat, RelArea (fout (.py k)) (c.outArea k))
    (hhit : ∀ oa : Area, fhit (pyPt ia.start) (pyPt ia.stop) (pyPt oa.start) (pyPt oa.stop) = .ok (c.hit ia oa))
    (body : Num → Num → M (Step Num Num))
    (hb : ∀ (o k : Nat), o ≤ 3 → body (.py o) (.py k) =
      match fout (.py k) with
      | .error e => .error e
      | .ok none => .ok (.brk (.py o))
      | .ok (some oa) =>
        match fhit (pyPt ia.start) (pyPt ia.stop) oa.1 oa.2.1 with
        | .error e => .error e
        | .ok true => .ok (.brk (.py o))
        | .ok false => match Num.add (.py o) oa.2.2 with
          | .ok o' => .ok (.next o')
          | .error e => .error e)
    (ks : List Nat) (acc : Nat) (hacc : acc + ks.length ≤ 3) :
    match innerLoop c ia ks with
    | none => ∃ e, pyForE (pyNats ks) (Num.py (acc : Int)) body = .error e
    | some n => pyForE (pyNats ks) (Num.py (acc : Int)) body = .ok (Out.done (Num.py ((acc + n : Nat) : Int))) := by
  induction ks generalizing acc with
  | nil => simp [innerLoop, pyNats, pyForE.eq_def]
  | cons k t ih =>
    simp only [List.length_cons] at hacc
    have hk := hout k
    have hstep := hb acc k (by omega)
    simp only [pyNats, List.map_cons] at ih ⊢
    rw [pyForE.eq_def]
    simp only [innerLoop]
    cases hm : c.outArea k with
    | none =>
      rw [hm] at hk
      obtain ⟨e, he⟩ := hk
      simp only [hstep, he]
      exact ⟨e, rfl⟩
    | some o =>
      cases o with
      | none =>
        rw [hm] at hk
        simp only [RelArea] at hk
        simp only [hstep, hk, Nat.add_zero]
      | some oa =>
        rw [hm] at hk
        simp only [RelArea] at hk
        simp only [hstep, hk, pyArea, hhit oa]
        cases hh : c.hit ia oa with
        | true => simp only [if_true, Nat.add_zero]
        | false =>
          have hadd : Num.add (Num.py (acc : Int)) (Num.py 1) = .ok (Num.py ((acc + 1 : Nat) : Int)) := by
            py_exec [if_neg]
            simp only [Num.py]
            push_cast
            try rfl
          simp only [hadd, Bool.false_eq_true, if_false]
          have := ih (acc + 1) (by omega)
          cases hi : innerLoop c ia t with
          | none =>
            rw [hi] at this
            simpa using this
          | some n =>
            rw [hi] at this
            simp only [Option.map_some, this]
            congr 3
            omega

end VelaVerif.SrcCalcBlockdep
