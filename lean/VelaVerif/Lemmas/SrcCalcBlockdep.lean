import VelaVerif.Lemmas.SrcBlockdep
import VelaVerif.Lemmas.SrcNpuAccess
/-!
# The translated `calc_blockdep` (`register_command_stream_util.py`) vs. `Model/Blockdep.lean` (property C04)

The callees whose arguments are operation objects (`get_address_ranges`, `has_ifm2`, `get_ifm_ofm_block_depth`,
`get_first_job_input_volume`, `get_prev_job_output_volume`, `intersects`) are *opaque functions*: parameters of the
translated definition, applied to the value arguments at each call.  The theorems instantiate them with anything
that behaves like the model's functions (`RelArea`, tied to the source on their own in `Props/C06Src.lean`); what is
compared here is `calc_blockdep`'s own control flow: early returns, the two nested loops with their `break`s,
`min`, the job accumulation.
-/
namespace VelaVerif.SrcCalcBlockdep
open VelaVerif VelaVerif.PyRt VelaVerif.Blockdep VelaVerif.NpuAccess VelaVerif.SrcBlockdep VelaVerif.SrcNpuAccess
open VelaVerif.Gen.SrcRegisterCommandStreamUtil

abbrev Vol := (Num × Num × Num) × (Num × Num × Num) × Num

/-- translated outcome vs. the model's `Option Nat` (`none`: Python raises) -/
def RelNat (s : M Num) (m : Option Nat) : Prop :=
  match m with
  | none => ∃ e, s = .error e
  | some n => s = .ok (.py (n : Int))

def pyNats (l : List Nat) : List Num := l.map fun (n : Nat) => Num.py (n : Int)

/-- the inner loop: from `outstanding_jobs = acc`, over block offsets `ks` -/
theorem inner_sim (c : LoopCtx) (ia : Area) (fout : Num → M (Option Vol))
    (fhit : (Num × Num × Num) → (Num × Num × Num) → (Num × Num × Num) → (Num × Num × Num) → M Bool)
    (hout : ∀ k : Nat, RelArea (fout (.py k)) (c.outArea k))
    (hhit : ∀ oa : Area, fhit (pyPt ia.start) (pyPt ia.stop) (pyPt oa.start) (pyPt oa.stop) = .ok (c.hit ia oa))
    (body : Num → Num → M (Step Num Num))
    (hb : ∀ (o k : Nat), o ≤ 3 → body (.py o) (.py k) =
      match fout (.py k) with
      | .error e => .error e
      | .ok none => .ok (.brk (.py o))
      | .ok (some oa) =>
        match fhit (pyPt ia.start) (pyPt ia.stop) oa.1 oa.2.1 with
        | .error e => .error e
        | .ok true => .ok (.brk (.py o))
        | .ok false => match Num.add (.py o) oa.2.2 with
          | .ok o' => .ok (.next o')
          | .error e => .error e)
    (ks : List Nat) (acc : Nat) (hacc : acc + ks.length ≤ 3) :
    match innerLoop c ia ks with
    | none => ∃ e, pyForE (pyNats ks) (Num.py (acc : Int)) body = .error e
    | some n => pyForE (pyNats ks) (Num.py (acc : Int)) body = .ok (Out.done (Num.py ((acc + n : Nat) : Int))) := by
  induction ks generalizing acc with
  | nil => simp [innerLoop, pyNats, pyForE.eq_def]
  | cons k t ih =>
    simp only [List.length_cons] at hacc
    have hk := hout k
    have hstep := hb acc k (by omega)
    simp only [pyNats, List.map_cons] at ih ⊢
    rw [pyForE.eq_def]
    simp only [innerLoop]
    cases hm : c.outArea k with
    | none =>
      rw [hm] at hk
      obtain ⟨e, he⟩ := hk
      simp only [hstep, he]
      exact ⟨e, rfl⟩
    | some o =>
      cases o with
      | none =>
        rw [hm] at hk
        simp only [RelArea] at hk
        simp only [hstep, hk, Nat.add_zero]
      | some oa =>
        rw [hm] at hk
        simp only [RelArea] at hk
        simp only [hstep, hk, pyArea, hhit oa]
        cases hh : c.hit ia oa with
        | true => simp only [if_true, Nat.add_zero]
        | false =>
          have hadd : Num.add (Num.py (acc : Int)) (Num.py 1) = .ok (Num.py ((acc + 1 : Nat) : Int)) := by
            py_exec [if_neg]
            simp only [Num.py]
            push_cast
            try rfl
          simp only [hadd, Bool.false_eq_true, if_false]
          have := ih (acc + 1) (by omega)
          cases hi : innerLoop c ia t with
          | none =>
            rw [hi] at this
            simpa using this
          | some n =>
            rw [hi] at this
            simp only [Option.map_some, this]
            congr 3
            omega

/-- the outer loop: from `(blockdep, elapsed_jobs) = (bd, f₀)`, over the forward offsets `fs = [f₀, f₀+1, …]` -/
theorem outer_sim (c : LoopCtx) (fin : Num → M (Option Vol))
    (hin : ∀ f : Nat, RelArea (fin (.py f)) (c.inArea f))
    (inner : Vol → Num → M (Out Num Num))
    (hinner : ∀ (ia : Area), match innerLoop c ia (List.range Gen.maxBlockdep) with
      | none => ∃ e, inner (pyArea ia) (.py 0) = .error e
      | some n => inner (pyArea ia) (.py 0) = .ok (Out.done (Num.py (n : Int))))
    (body : (Num × Num) → Num → M (Step (Num × Num) Num))
    (hb : ∀ (bd f : Nat), body (.py bd, .py f) (.py f) =
      match fin (.py f) with
      | .error e => .error e
      | .ok none => .ok (.brk (.py bd, .py f))
      | .ok (some ia) =>
        match inner ia (.py 0) with
        | .error e => .error e
        | .ok (Out.ret r) => .ok (.ret r)
        | .ok (Out.done o) =>
          match Num.add (.py f) o with
          | .error e => .error e
          | .ok t => match Num.min (.py bd) t with
            | .error e => .error e
            | .ok bd' => match Num.add (.py f) ia.2.2 with
              | .error e => .error e
              | .ok el => if Num.gt el (.py 3) then .ok (.brk (bd', el)) else .ok (.next (bd', el)))
    (n : Nat) (f0 bd : Nat) :
    match outerLoop c ((List.range n).map (· + f0)) bd with
    | none => ∃ e, pyForE (pyNats ((List.range n).map (· + f0))) (Num.py (bd : Int), Num.py (f0 : Int)) body = .error e
    | some r => ∃ el, pyForE (pyNats ((List.range n).map (· + f0))) (Num.py (bd : Int), Num.py (f0 : Int)) body =
        .ok (Out.done (Num.py (r : Int), el)) := by
  induction n generalizing f0 bd with
  | zero => simp [outerLoop, pyNats, pyForE.eq_def]
  | succ n ih =>
    have hl : (List.range (n + 1)).map (· + f0) = f0 :: (List.range n).map (· + (f0 + 1)) := by
      rw [List.range_succ_eq_map]
      simp only [List.map_cons, List.map_map, Nat.zero_add]
      congr 1
      apply List.map_congr_left
      intro x _
      simp only [Function.comp]
      omega
    rw [hl]
    have hf := hin f0
    have hstep := hb bd f0
    simp only [pyNats, List.map_cons] at ih ⊢
    rw [pyForE.eq_def]
    simp only [outerLoop]
    cases hm : c.inArea f0 with
    | none =>
      rw [hm] at hf
      obtain ⟨e, he⟩ := hf
      simp only [hstep, he]
      exact ⟨e, rfl⟩
    | some o =>
      cases o with
      | none =>
        rw [hm] at hf
        simp only [RelArea] at hf
        simp only [hstep, hf]
        exact ⟨_, rfl⟩
      | some ia =>
        rw [hm] at hf
        simp only [RelArea] at hf
        have hi := hinner ia
        simp only [hstep, hf]
        cases hil : innerLoop c ia (List.range Gen.maxBlockdep) with
        | none =>
          rw [hil] at hi
          obtain ⟨e, he⟩ := hi
          simp only [he]
          exact ⟨e, rfl⟩
        | some o =>
          rw [hil] at hi
          have hadd1 : Num.add (Num.py (f0 : Int)) (Num.py (o : Int)) = .ok (Num.py ((f0 + o : Nat) : Int)) := by
            py_exec [if_neg]
            simp only [Num.py]
            push_cast
            try rfl
          have hmin : Num.min (Num.py (bd : Int)) (Num.py ((f0 + o : Nat) : Int)) =
              .ok (Num.py ((min bd (f0 + o) : Nat) : Int)) := by
            unfold Num.min
            simp only [Num.py]
            by_cases hlt : ((f0 + o : Nat) : Int) < (bd : Int)
            · have : min bd (f0 + o) = f0 + o := by omega
              simp only [hlt, if_true, this]
            · have : min bd (f0 + o) = bd := by omega
              simp only [hlt, if_false, this]
          have hadd2 : Num.add (Num.py (f0 : Int)) (pyArea ia).2.2 = .ok (Num.py ((f0 + 1 : Nat) : Int)) := by
            simp only [pyArea]
            py_exec [if_neg]
            simp only [Num.py]
            push_cast
            try rfl
          have hgt : Num.gt (Num.py ((f0 + 1 : Nat) : Int)) (Num.py 3) = decide (f0 + 1 > Gen.maxBlockdep) := by
            simp only [Num.gt, Gen.maxBlockdep]
            by_cases h3 : f0 + 1 > 3
            · simp [h3]
              omega
            · simp [h3]
              omega
          simp only [hi, hadd1, hmin, hadd2, hgt]
          by_cases h3 : f0 + 1 > Gen.maxBlockdep
          · simp only [h3, decide_true, if_true]
            exact ⟨_, rfl⟩
          · simp only [h3, decide_false, Bool.false_eq_true, if_false]
            exact ih (f0 + 1) (min bd (f0 + o))

/-! ### the two loop bodies, restated by hand over the opaque functions (the translated lambdas are definitionally
these; `loops_sim` is applied by unification, nothing refers to the generated names) -/

def innerBody (fout : Num → M (Option Vol))
    (fhit : (Num × Num × Num) → (Num × Num × Num) → (Num × Num × Num) → (Num × Num × Num) → M Bool)
    (ia : Vol) (o : Num) (k : Num) : M (Step Num Num) := do
  let out ← fout k
  match out with
  | none => pure (Step.brk o)
  | some oa => do
    let t ← fhit ia.1 ia.2.1 oa.1 oa.2.1
    if t then pure (Step.brk o)
    else if Num.gt o (Num.py 3) then pure (Step.brk o)
    else do
      let o' ← Num.add o oa.2.2
      pure (Step.next o')

def outerBody (fin : Num → M (Option Vol)) (fout : Num → M (Option Vol))
    (fhit : (Num × Num × Num) → (Num × Num × Num) → (Num × Num × Num) → (Num × Num × Num) → M Bool)
    (s : Num × Num) (f : Num) : M (Step (Num × Num) Num) := do
  let ina ← fin f
  match ina with
  | none => pure (Step.brk (s.1, s.2))
  | some ia => do
    let t ← pyForE [Num.py 0, Num.py 1, Num.py 2] (Num.py 0) (innerBody fout fhit ia)
    match t with
    | Out.ret r => pure (Step.ret r)
    | Out.done o => do
      let t18 ← Num.add s.2 o
      let bd ← Num.min s.1 t18
      let el ← Num.add s.2 ia.2.2
      if Num.gt el (Num.py 3) then pure (Step.brk (bd, el)) else pure (Step.next (bd, el))

theorem loops_sim (c : LoopCtx) (fin : Num → M (Option Vol)) (fout : Num → M (Option Vol))
    (fhit : (Num × Num × Num) → (Num × Num × Num) → (Num × Num × Num) → (Num × Num × Num) → M Bool)
    (hin : ∀ f : Nat, RelArea (fin (.py f)) (c.inArea f))
    (hout : ∀ k : Nat, RelArea (fout (.py k)) (c.outArea k))
    (hhit : ∀ ia oa : Area, fhit (pyPt ia.start) (pyPt ia.stop) (pyPt oa.start) (pyPt oa.stop) = .ok (c.hit ia oa)) :
    RelNat (do
        let t ← pyForE [Num.py 0, Num.py 1, Num.py 2] (Num.py 3, Num.py 0) (outerBody fin fout fhit)
        match t with
        | Out.ret r => pure r
        | Out.done (b, _) => pure b)
      (outerLoop c (List.range Gen.maxBlockdep) Gen.maxBlockdep) := by
  have hinner : ∀ (ia : Area), match innerLoop c ia (List.range Gen.maxBlockdep) with
      | none => ∃ e, pyForE [Num.py 0, Num.py 1, Num.py 2] (Num.py 0) (innerBody fout fhit (pyArea ia)) = .error e
      | some n => pyForE [Num.py 0, Num.py 1, Num.py 2] (Num.py 0) (innerBody fout fhit (pyArea ia)) =
          .ok (Out.done (Num.py (n : Int))) := by
    intro ia
    have := inner_sim c ia fout fhit hout (hhit ia) (innerBody fout fhit (pyArea ia)) (by
      intro o k ho
      unfold innerBody
      cases fout (Num.py (k : Int)) with
      | error e => rfl
      | ok v =>
        cases v with
        | none => rfl
        | some oa =>
          show (fhit (pyArea ia).1 (pyArea ia).2.1 oa.1 oa.2.1 >>= _) = _
          simp only [pyArea]
          cases fhit (pyPt ia.start) (pyPt ia.stop) oa.1 oa.2.1 with
          | error e => rfl
          | ok t =>
            cases t with
            | true => rfl
            | false =>
              have hgt : Num.gt (Num.py (o : Int)) (Num.py 3) = false := by
                simp only [Num.gt]
                simp
                omega
              simp only [Bool.false_eq_true, if_false, hgt, bind, Except.bind]
              cases Num.add (Num.py (o : Int)) oa.2.2 <;> rfl) (List.range Gen.maxBlockdep) 0 (by decide)
    simpa [pyNats, Gen.maxBlockdep, List.range, List.range.loop] using this
  have key := outer_sim c fin hin (fun ia o => pyForE [Num.py 0, Num.py 1, Num.py 2] o (innerBody fout fhit ia)) hinner
    (outerBody fin fout fhit) (by
      intro bd f
      unfold outerBody
      cases fin (Num.py (f : Int)) with
      | error e => rfl
      | ok v =>
        cases v with
        | none => rfl
        | some ia =>
          simp only [bind, Except.bind]
          cases pyForE [Num.py 0, Num.py 1, Num.py 2] (Num.py 0) (innerBody fout fhit ia) with
          | error e => rfl
          | ok t =>
            cases t with
            | ret r => rfl
            | done o =>
              simp only []
              cases Num.add (Num.py (f : Int)) o with
              | error e => rfl
              | ok t18 =>
                simp only []
                cases Num.min (Num.py (bd : Int)) t18 with
                | error e => rfl
                | ok b =>
                  simp only []
                  cases Num.add (Num.py (f : Int)) ia.2.2 <;> rfl) 3 0 3
  have e1 : pyNats ((List.range 3).map (· + 0)) = [Num.py 0, Num.py 1, Num.py 2] := rfl
  have e2 : (List.range 3).map (· + 0) = List.range Gen.maxBlockdep := rfl
  rw [e1, e2] at key
  show RelNat _ (outerLoop c (List.range Gen.maxBlockdep) 3)
  cases hm : outerLoop c (List.range Gen.maxBlockdep) 3 with
  | none =>
    rw [hm] at key
    obtain ⟨e, he⟩ := key
    exact ⟨e, by rw [show (Num.py ((3 : Nat) : Int), Num.py ((0 : Nat) : Int)) = (Num.py 3, Num.py 0) from rfl] at he; rw [he]; rfl⟩
  | some r =>
    rw [hm] at key
    obtain ⟨el, he⟩ := key
    rw [show (Num.py ((3 : Nat) : Int), Num.py ((0 : Nat) : Int)) = (Num.py 3, Num.py 0) from rfl] at he
    show _ = _
    rw [he]
    rfl

/-- the loop context `classify` builds for the overlapping feature map `fm` -/
def mkCtx (a : Gen.AccRow) (prev op : BlockOp) (fm : FMap) : Option LoopCtx :=
  match getIfmOfmBlockDepth a op, toKernel op.kernel with
  | some ibd, some k => some {
      acc := a, curIfmSize := shapeToBlk op.ifm.shape, curOfmSize := shapeToBlk op.ofm.shape,
      curIfmBlockDepth := ibd, curOfmBlock := shapeToBlk op.blockConfig, kernel := k,
      padding := op.padding.getD ⟨0, 0, 0, 0⟩,
      prevOfmSize := shapeToBlk prev.ofm.shape, prevOfmBlock := shapeToBlk prev.blockConfig,
      overlappingFm := fm, prevOfm := prev.ofm }
  | _, _ => none

/-- `classify` / `calcBlockdep` by cases (model side only) -/
theorem model_cases (a : Gen.AccRow) (prev op : BlockOp) :
    (prev.usesLut = true ∧ a.shramReservedUnusedBanks = 0 ∧ ¬ op.usesLut = true →
      calcBlockdep a (some prev) op = some 0) ∧
    (¬ (prev.usesLut = true ∧ a.shramReservedUnusedBanks = 0 ∧ ¬ op.usesLut = true) →
      (ifmOverlaps prev op = true → ifm2Overlaps prev op = true → calcBlockdep a (some prev) op = some 0) ∧
      (ifmOverlaps prev op = false → ifm2Overlaps prev op = false →
        calcBlockdep a (some prev) op = some Gen.maxBlockdep) ∧
      (ifmOverlaps prev op = true → ifm2Overlaps prev op = false →
        classify a (some prev) op = (mkCtx a prev op op.ifm).map fun c => (Path.loop, some c)) ∧
      (ifmOverlaps prev op = false → ifm2Overlaps prev op = true → ∀ f2, op.ifm2 = some f2 →
        (shapeSize f2.shape < shapeSize op.ifm.shape → calcBlockdep a (some prev) op = some 0) ∧
        (¬ shapeSize f2.shape < shapeSize op.ifm.shape →
          classify a (some prev) op = (mkCtx a prev op f2).map fun c => (Path.loop, some c)))) := by
  refine ⟨fun hU => ?_, fun hU => ⟨fun h1 h2 => ?_, fun h1 h2 => ?_, fun h1 h2 => ?_, fun h1 h2 f2 hf2 => ⟨fun hlt => ?_, fun hlt => ?_⟩⟩⟩
  · unfold calcBlockdep classify
    simp only []
    rw [if_pos hU]
  · unfold calcBlockdep classify
    simp only []
    rw [if_neg hU]
    simp only [h1, h2, and_self, if_true]
  · unfold calcBlockdep classify
    simp only []
    rw [if_neg hU]
    simp only [h1, h2, and_self, if_true, Bool.false_eq_true, if_false]
  · unfold classify mkCtx
    simp only []
    rw [if_neg hU]
    simp only [h1, h2, and_self, if_true, Bool.false_eq_true, if_false, and_false, and_true, reduceCtorEq]
    cases getIfmOfmBlockDepth a op <;> cases toKernel op.kernel <;> rfl
  · unfold calcBlockdep classify
    simp only []
    rw [if_neg hU]
    simp only [h1, h2, hf2, hlt, and_self, if_true, Bool.false_eq_true, if_false, and_false, false_and, and_true, reduceCtorEq]
  · unfold classify mkCtx
    simp only []
    rw [if_neg hU]
    simp only [h1, h2, hf2, hlt, and_self, if_true, Bool.false_eq_true, if_false, and_false, false_and, and_true, reduceCtorEq]
    cases getIfmOfmBlockDepth a op <;> cases toKernel op.kernel <;> rfl

theorem shape3d_size_py (s : Shape3) :
    shape3d_size (.py s.depth) (.py s.height) (.py s.width) = .ok (.py (shapeSize s)) := by
  unfold shapeSize
  py_exec [shape3d_size]

/-- what the theorems assume of the opaque functions on the loop path: they behave like the model's -/
def OpaqueOk (a : Gen.AccRow) (prev op : BlockOp) (ibd : M Num) (fin : Num → Num → M (Option Vol))
    (fout : Num → M (Option Vol))
    (fhit : (Num × Num × Num) → (Num × Num × Num) → (Num × Num × Num) → (Num × Num × Num) → M Bool) : Prop :=
  ∀ c, classify a (some prev) op = some (.loop, some c) →
    ibd = .ok (.py c.curIfmBlockDepth) ∧ (∀ f : Nat, RelArea (fin (.py c.curIfmBlockDepth) (.py f)) (c.inArea f)) ∧
    (∀ k : Nat, RelArea (fout (.py k)) (c.outArea k)) ∧
    ∀ ia oa : Area, fhit (pyPt ia.start) (pyPt ia.stop) (pyPt oa.start) (pyPt oa.stop) = .ok (c.hit ia oa)

theorem loop_case (a : Gen.AccRow) (prev op : BlockOp) (fm : FMap) (ibd : M Num) (fin : Num → Num → M (Option Vol))
    (fout : Num → M (Option Vol))
    (fhit : (Num × Num × Num) → (Num × Num × Num) → (Num × Num × Num) → (Num × Num × Num) → M Bool)
    (hctx : OpaqueOk a prev op ibd fin fout fhit) (hcl : classify a (some prev) op ≠ none)
    (hcls : classify a (some prev) op = (mkCtx a prev op fm).map fun c => (Path.loop, some c))
    (P : M Num)
    (hP : ∀ v, ibd = .ok v → P = (do
        let t ← pyForE [Num.py 0, Num.py 1, Num.py 2] (Num.py 3, Num.py 0) (outerBody (fin v) fout fhit)
        match t with
        | Out.ret r => pure r
        | Out.done (b, _) => pure b)) :
    RelNat P (calcBlockdep a (some prev) op) := by
  cases hk : mkCtx a prev op fm with
  | none => rw [hk] at hcls; exact absurd hcls hcl
  | some c =>
    rw [hk] at hcls
    simp only [Option.map_some] at hcls
    obtain ⟨hibd, hin, hout, hhit⟩ := hctx c hcls
    have hm : calcBlockdep a (some prev) op = outerLoop c (List.range Gen.maxBlockdep) Gen.maxBlockdep := by
      unfold calcBlockdep
      rw [hcls]
    rw [hm, hP _ hibd]
    exact loops_sim c (fin (.py c.curIfmBlockDepth)) fout fhit hin hout hhit

theorem calc_blockdep_sim (a : Gen.AccRow) (prev op : BlockOp) (lp li l2 : List (Option ARange))
    (hlp : lp.filterMap id = getAddressRanges prev.ofm)
    (hli : li.filterMap id = getAddressRanges op.ifm)
    (hl2 : ∀ f2, op.ifm2 = some f2 → l2.filterMap id = getAddressRanges f2)
    (s2 : Shape3) (hs2 : ∀ f2, op.ifm2 = some f2 → f2.shape = s2)
    (pan plt can clt : Bool) (hp : (!pan && plt) = prev.usesLut) (hc : (!can && clt) = op.usesLut)
    (ibd : M Num) (fin : Num → Num → M (Option Vol)) (fout : Num → M (Option Vol))
    (fhit : (Num × Num × Num) → (Num × Num × Num) → (Num × Num × Num) → (Num × Num × Num) → M Bool)
    (hctx : OpaqueOk a prev op ibd fin fout fhit)
    (hcl : classify a (some prev) op ≠ none) :
    RelNat (calc_blockdep (.py a.shramReservedUnusedBanks) (.py op.ifm.shape.depth) (.py op.ifm.shape.height)
        (.py op.ifm.shape.width) (.py s2.depth) (.py s2.height) (.py s2.width) can clt false op.ifm2.isNone false false
        pan plt false (.ok (lp.map pyOAR)) (.ok (li.map pyOAR)) (.ok (hasIfm2 op)) (.ok (l2.map pyOAR)) ibd fin fout fhit)
      (calcBlockdep a (some prev) op) := by
  obtain ⟨mU, mN⟩ := model_cases a prev op
  have hio : range_lists_overlap (lp.map pyOAR) (li.map pyOAR) = .ok (ifmOverlaps prev op) := by
    rw [rlo, hlp, hli]; rfl
  have hsz1 := shape3d_size_py op.ifm.shape
  have hsz2 := shape3d_size_py s2
  unfold calc_blockdep
  simp only [Bool.false_eq_true, if_false, Bool.not_false, pyAssert, if_true, hp, hc]
  by_cases hU : prev.usesLut = true ∧ a.shramReservedUnusedBanks = 0 ∧ ¬ op.usesLut = true
  · have hs : (prev.usesLut && (Num.py ↑a.shramReservedUnusedBanks).eq (Num.py 0) && !op.usesLut) = true := by
      obtain ⟨h1, h2, h3⟩ := hU
      simp [h1, h2, h3, Num.eq]
    rw [mU hU]
    simp only [hs, if_true]
    exact rfl
  · have hs : (prev.usesLut && (Num.py ↑a.shramReservedUnusedBanks).eq (Num.py 0) && !op.usesLut) = false := by
      cases h1 : prev.usesLut <;> cases h3 : op.usesLut <;> simp [Num.eq] <;>
        (intro h2; apply hU; simp [h1, h3]; omega)
    obtain ⟨m1, m2, m3, m4⟩ := mN hU
    simp only [hs, Bool.false_eq_true, if_false]
    cases hh : hasIfm2 op with
    | false =>
      have hi2o : ifm2Overlaps prev op = false := by
        unfold ifm2Overlaps; simp only [hh, Bool.false_eq_true, if_false]
      cases hio' : ifmOverlaps prev op with
      | false =>
        rw [m2 hio' hi2o]
        py_exec [hio, hh, hio']
        exact rfl
      | true =>
        apply loop_case a prev op op.ifm ibd fin fout fhit hctx hcl (m3 hio' hi2o)
        intro v hv
        rw [hv]
        py_exec [hio, hh, hio']
        rfl
    | true =>
      have hsome : op.ifm2.isSome = true := by
        unfold hasIfm2 at hh
        simp only [Bool.and_eq_true] at hh
        exact hh.1
      obtain ⟨f2, hf2⟩ := Option.isSome_iff_exists.1 hsome
      have hnone : op.ifm2.isNone = false := by rw [hf2]; rfl
      have hi2 : range_lists_overlap (lp.map pyOAR) (l2.map pyOAR) = .ok (ifm2Overlaps prev op) := by
        rw [rlo, hlp, hl2 f2 hf2]
        unfold ifm2Overlaps
        simp only [hh, hf2, if_true]
      have hsh := hs2 f2 hf2
      cases hio' : ifmOverlaps prev op with
      | false =>
        cases hi2' : ifm2Overlaps prev op with
        | false =>
          rw [m2 hio' hi2']
          py_exec [hio, hh, hio', hi2, hi2', hnone]
          exact rfl
        | true =>
          obtain ⟨m4a, m4b⟩ := m4 hio' hi2' f2 hf2
          rw [hsh] at m4a m4b
          by_cases hlt : shapeSize s2 < shapeSize op.ifm.shape
          · rw [m4a hlt]
            py_exec [hio, hh, hio', hi2, hi2', hnone, hsz1, hsz2, hlt]
            exact rfl
          · apply loop_case a prev op f2 ibd fin fout fhit hctx hcl (m4b hlt)
            intro v hv
            rw [hv]
            py_exec [hio, hh, hio', hi2, hi2', hnone, hsz1, hsz2, hlt]
            rfl
      | true =>
        cases hi2' : ifm2Overlaps prev op with
        | false =>
          apply loop_case a prev op op.ifm ibd fin fout fhit hctx hcl (m3 hio' hi2')
          intro v hv
          rw [hv]
          py_exec [hio, hh, hio', hi2, hi2', hnone]
          rfl
        | true =>
          rw [m1 hio' hi2']
          py_exec [hio, hh, hio', hi2, hi2', hnone]
          exact rfl


def encVol : Option (Option Area) → M (Option Vol)
  | none => .error .zerodiv
  | some none => .ok none
  | some (some a) => .ok (some (pyArea a))

def decPt (p : Num × Num × Num) : Pt := ⟨p.1.v, p.2.1.v, p.2.2.v⟩

theorem relArea_encVol (m : Option (Option Area)) : RelArea (encVol m) m := by
  cases m with
  | none => exact ⟨_, rfl⟩
  | some o => cases o <;> rfl

/-- `OpaqueOk` is satisfiable for every accelerator row and pair of operations: take the model's own functions -/
theorem opaqueOk_inhabited (a : Gen.AccRow) (prev op : BlockOp) :
    ∃ ibd fin fout fhit, OpaqueOk a prev op ibd fin fout fhit := by
  cases hc : classify a (some prev) op with
  | none => exact ⟨.ok (.py 0), fun _ _ => .ok none, fun _ => .ok none, fun _ _ _ _ => .ok false, fun c h => by rw [hc] at h; cases h⟩
  | some pc =>
    obtain ⟨p, oc⟩ := pc
    cases oc with
    | none => exact ⟨.ok (.py 0), fun _ _ => .ok none, fun _ => .ok none, fun _ _ _ _ => .ok false, fun c h => by rw [hc] at h; cases h⟩
    | some c =>
      refine ⟨.ok (.py c.curIfmBlockDepth), fun _ f => encVol (c.inArea f.v.toNat), fun k => encVol (c.outArea k.v.toNat),
        fun p1 p2 p3 p4 => .ok (c.hit ⟨decPt p1, decPt p2⟩ ⟨decPt p3, decPt p4⟩), ?_⟩
      intro c' h
      rw [hc] at h
      have : c' = c := by
        simp only [Option.some.injEq, Prod.mk.injEq] at h
        exact h.2.symm
      subst this
      refine ⟨rfl, fun f => ?_, fun k => ?_, fun ia oa => rfl⟩
      · have : (Num.py (f : Int)).v.toNat = f := by simp
        simp only [this]
        exact relArea_encVol _
      · have : (Num.py (k : Int)).v.toNat = k := by simp
        simp only [this]
        exact relArea_encVol _

end VelaVerif.SrcCalcBlockdep
