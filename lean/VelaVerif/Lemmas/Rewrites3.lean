import Mathlib.Tactic.Linarith
import Mathlib.Tactic.Ring
/-!
Arithmetic behind the `AwayZero` rounding of the convolution `convert_avg_pool_to_conv2d` creates: NATURAL rounding (add half,
floor) with a multiplier slightly ABOVE `1 / n` is rounding to nearest with halves away from zero.
-/
namespace VelaVerif.Lemmas.Rewrites3

/-- non-negative accumulator: `2H·r ≤ acc·M + H < 2H·r + 2H` where `r = ⌊(2acc + n) / 2n⌋` -/
theorem natural_bounds_nonneg (acc M n H D r t : Int) (hn : 0 < n) (hH : 0 < H) (hD : n * M = 2 * H + D) (hD0 : 0 < D) (hacc : 0 ≤ acc)
    (hs : 2 * acc * D < 2 * H) (hr : 2 * acc + n = 2 * n * r + t) (ht0 : 0 ≤ t) (ht1 : t < 2 * n) :
    2 * H * r ≤ acc * M + H ∧ acc * M + H < 2 * H * r + 2 * H := by
  have h1 : acc * (n * M) = acc * (2 * H + D) := by rw [hD]
  have h2 : H * (2 * acc + n) = H * (2 * n * r + t) := by rw [hr]
  have p1 : 0 ≤ t * H := mul_nonneg ht0 hH.le
  have p2 : 0 ≤ acc * D := mul_nonneg hacc hD0.le
  have p3 : 0 < (2 * n - t) * H := mul_pos (by linarith) hH
  constructor
  · by_contra hc
    push_neg at hc
    have := mul_lt_mul_of_pos_left hc hn
    nlinarith
  · by_contra hc
    push_neg at hc
    have := mul_le_mul_of_nonneg_left hc hn.le
    have q : (2 * n - t) * H ≥ H := by nlinarith
    nlinarith

/-- negative accumulator `acc = -a`: `2H·(-r) ≤ -a·M + H < 2H·(-r) + 2H` where `r = ⌊(2a + n) / 2n⌋` -/
theorem natural_bounds_neg (a M n H D r t : Int) (hn : 0 < n) (hH : 0 < H) (hD : n * M = 2 * H + D) (hD0 : 0 < D) (ha : 0 < a)
    (hs : 2 * a * D < 2 * H) (hr : 2 * a + n = 2 * n * r + t) (ht0 : 0 ≤ t) (ht1 : t < 2 * n) :
    2 * H * (-r) ≤ (-a) * M + H ∧ (-a) * M + H < 2 * H * (-r) + 2 * H := by
  have h1 : a * (n * M) = a * (2 * H + D) := by rw [hD]
  have h2 : H * (2 * a + n) = H * (2 * n * r + t) := by rw [hr]
  have p1 : 0 ≤ t * H := mul_nonneg ht0 hH.le
  have p2 : 0 < a * D := mul_pos ha hD0
  have p3 : 0 < (2 * n - t) * H := mul_pos (by linarith) hH
  have q : (2 * n - t) * H ≥ H := by nlinarith
  constructor
  · by_contra hc
    push_neg at hc
    have := mul_lt_mul_of_pos_left hc hn
    nlinarith
  · by_contra hc
    push_neg at hc
    have := mul_le_mul_of_nonneg_left hc hn.le
    nlinarith

end VelaVerif.Lemmas.Rewrites3
