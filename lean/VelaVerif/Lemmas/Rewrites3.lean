import Mathlib.Tactic.Linarith
import Mathlib.Tactic.Ring
import VelaVerif.Spec.RewriteSem3
import VelaVerif.Lemmas.Rewrites2
/-!
Helper lemmas of `Props/C01Rewrites3.lean`. Arithmetic behind the `AwayZero` rounding of the convolution `convert_avg_pool_to_conv2d` creates: NATURAL rounding (add half,
floor) with a multiplier slightly ABOVE `1 / n` is rounding to nearest with halves away from zero.
-/
namespace VelaVerif.Lemmas.Rewrites3
open VelaVerif.Requant VelaVerif.TfliteRef VelaVerif.RewriteSem3 VelaVerif.Lemmas.Rewrites VelaVerif.Lemmas.Sem

/-- non-negative accumulator: `2H·r ≤ acc·M + H < 2H·r + 2H` where `r = ⌊(2acc + n) / 2n⌋` -/
theorem natural_bounds_nonneg (acc M n H D r t : Int) (hn : 0 < n) (hH : 0 < H) (hD : n * M = 2 * H + D) (hD0 : 0 < D) (hacc : 0 ≤ acc)
    (hs : 2 * acc * D < 2 * H) (hr : 2 * acc + n = 2 * n * r + t) (ht0 : 0 ≤ t) (ht1 : t < 2 * n) :
    2 * H * r ≤ acc * M + H ∧ acc * M + H < 2 * H * r + 2 * H := by
  have h1 : acc * (n * M) = acc * (2 * H + D) := by rw [hD]
  have h2 : H * (2 * acc + n) = H * (2 * n * r + t) := by rw [hr]
  have p1 : 0 ≤ t * H := mul_nonneg ht0 hH.le
  have p2 : 0 ≤ acc * D := mul_nonneg hacc hD0.le
  have p3 : 0 < (2 * n - t) * H := mul_pos (by linarith) hH
  constructor
  · by_contra hc
    push_neg at hc
    have := mul_lt_mul_of_pos_left hc hn
    nlinarith
  · by_contra hc
    push_neg at hc
    have := mul_le_mul_of_nonneg_left hc hn.le
    have q : (2 * n - t) * H ≥ H := by nlinarith
    nlinarith

/-- negative accumulator `acc = -a`: `2H·(-r) ≤ -a·M + H < 2H·(-r) + 2H` where `r = ⌊(2a + n) / 2n⌋` -/
theorem natural_bounds_neg (a M n H D r t : Int) (hn : 0 < n) (hH : 0 < H) (hD : n * M = 2 * H + D) (hD0 : 0 < D) (ha : 0 < a)
    (hs : 2 * a * D < 2 * H) (hr : 2 * a + n = 2 * n * r + t) (ht0 : 0 ≤ t) (ht1 : t < 2 * n) :
    2 * H * (-r) ≤ (-a) * M + H ∧ (-a) * M + H < 2 * H * (-r) + 2 * H := by
  have h1 : a * (n * M) = a * (2 * H + D) := by rw [hD]
  have h2 : H * (2 * a + n) = H * (2 * n * r + t) := by rw [hr]
  have p1 : 0 ≤ t * H := mul_nonneg ht0 hH.le
  have p2 : 0 < a * D := mul_pos ha hD0
  have p3 : 0 < (2 * n - t) * H := mul_pos (by linarith) hH
  have q : (2 * n - t) * H ≥ H := by nlinarith
  constructor
  · by_contra hc
    push_neg at hc
    have := mul_lt_mul_of_pos_left hc hn
    nlinarith
  · by_contra hc
    push_neg at hc
    have := mul_le_mul_of_nonneg_left hc hn.le
    nlinarith

/-- the integer bilinear kernel on four equal neighbours returns that value, whatever the interpolation weights -/
theorem bilinearInt_const (v dy dx : Int) : bilinearInt v v v v dy dx = v := by
  unfold bilinearInt
  have e : v * (1024 - dy) * (1024 - dx) + v * dy * (1024 - dx) + v * (1024 - dy) * dx + v * dy * dx = v * 1048576 := by
    have h1 : v * (1024 - dy) * (1024 - dx) + v * dy * (1024 - dx) = v * 1024 * (1024 - dx) := by
      rw [← Int.add_mul, ← Int.mul_add]; congr 2; omega
    have h2 : v * (1024 - dy) * dx + v * dy * dx = v * 1024 * dx := by
      rw [← Int.add_mul, ← Int.mul_add]; congr 2; omega
    rw [h1, Int.add_assoc, h2, ← Int.mul_add, Int.mul_assoc]
    congr 1
    have : (1024 - dx + dx) = 1024 := by omega
    rw [this]; rfl
  simp only [e]
  by_cases hv : v * 1048576 > 0
  · rw [if_pos hv]
    rw [Int.tdiv_eq_ediv_of_nonneg (by omega)]
    omega
  · rw [if_neg hv]
    have hn : v * 1048576 + -524288 = -((-v) * 1048576 + 524288) := by omega
    rw [hn, Int.neg_tdiv, Int.tdiv_eq_ediv_of_nonneg (by omega)]
    omega


theorem mbqm_zero (m s : Int) : mbqm 0 m s = 0 := by
  unfold mbqm
  have hns : ¬ ((0 : Int) * (2 : Int) ^ (if s > 0 then s.toNat else 0) = INT32_MIN ∧ m = INT32_MIN) := by
    intro h; have := h.1; simp [INT32_MIN] at this
  simp only []
  rw [srdhm_floor _ _ hns, rdivpot_cases]
  simp only [Int.zero_mul]
  have hp := two_pow_pos (if s > 0 then 0 else (-s).toNat)
  generalize (2 : Int) ^ (if s > 0 then 0 else (-s).toNat) = P at *
  have h0 : ((0 : Int) + 1073741824) / 2147483648 = 0 := by decide
  simp only [h0]
  have h1 : (0 : Int) / P = 0 := Int.zero_ediv P
  have h2 : (0 : Int) % P = 0 := Int.zero_emod P
  simp only [h1, h2]
  split <;> omega


theorem sumRange_diag (C oc : Nat) (f : Nat → Int) :
    sumRange C (fun ic => f ic * (if ic = oc then 1 else 0)) = if oc < C then f oc else 0 := by
  induction C with
  | zero => simp [sumRange]
  | succ k ih =>
    simp only [sumRange, ih]
    by_cases h1 : oc < k
    · have h2 : oc < k + 1 := by omega
      have h3 : ¬ (k = oc) := by omega
      rw [if_pos h1, if_pos h2, if_neg h3]; omega
    · by_cases h4 : k = oc
      · have h2 : oc < k + 1 := by omega
        rw [if_neg h1, if_pos h2, if_pos h4, h4]; omega
      · have h2 : ¬ (oc < k + 1) := by omega
        rw [if_neg h1, if_neg h2, if_neg h4]; omega


/-- `(2a + n) / (2n) = (a + n/2) / n` for `a ≥ 0`: rounding to nearest with the exact half and with the kernel's `n / 2` agree -/
theorem half_up_div (a : Int) (n : Nat) (ha : 0 ≤ a) (hn : 0 < n) :
    (2 * a + (n : Int)) / (2 * (n : Int)) = (a + ((n / 2 : Nat) : Int)) / (n : Int) := by
  have hn' : (0 : Int) < (n : Int) := by omega
  have hq := Int.mul_ediv_add_emod (a + ((n / 2 : Nat) : Int)) (n : Int)
  have hr0 := Int.emod_nonneg (a + ((n / 2 : Nat) : Int)) (by omega : (n : Int) ≠ 0)
  have hr1 := Int.emod_lt_of_pos (a + ((n / 2 : Nat) : Int)) hn'
  generalize (a + ((n / 2 : Nat) : Int)) / (n : Int) = q at *
  generalize (a + ((n / 2 : Nat) : Int)) % (n : Int) = r at *
  have h2 : ((n / 2 : Nat) : Int) = (n : Int) / 2 := by omega
  have key : (2 * a + (n : Int)) / (2 * (n : Int)) = q ∧ (2 * a + (n : Int)) % (2 * (n : Int)) = 2 * r + (n : Int) % 2 := by
    rw [Int.ediv_emod_unique (by omega : (0 : Int) < 2 * (n : Int))]
    refine ⟨?_, by omega, by omega⟩
    have : 2 * (n : Int) * q = 2 * ((n : Int) * q) := by rw [Int.mul_assoc]
    rw [this]
    generalize (n : Int) * q = nq at *
    omega
  exact key.1


theorem prod_insert_one (a b : List Nat) : TfliteRef.prod (a ++ [1] ++ b) = TfliteRef.prod (a ++ b) := by
  unfold TfliteRef.prod
  simp [List.foldl_append]


end VelaVerif.Lemmas.Rewrites3
