import VelaVerif.Lemmas.SrcNumericUtil
import VelaVerif.Model.Blockdep
import VelaVerif.Gen.SrcRegisterCommandStreamUtil
/-!
# The translated block-dependency volume helpers of `register_command_stream_util.py` vs. `Model/Blockdep.lean`
(property C06).  The model's outer `none` stands for "Python raises" (`ZeroDivisionError`); the model
places every area at the origin and takes sizes / blocks as triples, the source reads `area.x`, `area.size().width`, …
(record attributes = parameters of the translated functions).
-/
namespace VelaVerif.SrcBlockdep
open VelaVerif VelaVerif.PyRt VelaVerif.Blockdep VelaVerif.NpuAccess
open VelaVerif.Gen.SrcRegisterCommandStreamUtil

def pyPt (p : Pt) : Num × Num × Num := (.py p.x, .py p.y, .py p.z)

/-- outcome of the translated `get_offset_block_coords` vs. the model's `Option (Option Pt)`
    (outer `none`: Python raises) -/
def RelPt (s : M (Option (Num × Num × Num))) (m : Option (Option Pt)) : Prop :=
  match m with
  | none => ∃ e, s = .error e
  | some none => s = .ok none
  | some (some p) => s = .ok (some (pyPt p))

theorem gobc (size block : Blk3) (offset : Int)
    (hb : 0 < block.width ∧ 0 < block.height ∧ 0 < block.depth)
    (hs : 0 ≤ size.width ∧ 0 ≤ size.height ∧ 0 ≤ size.depth) :
    RelPt (get_offset_block_coords (.py offset) (.py size.depth) (.py size.height) (.py size.width)
        (.py 0) (.py 0) (.py 0) (.py block.depth) (.py block.height) (.py block.width))
      (getOffsetBlockCoords size block offset) := by
  unfold getOffsetBlockCoords roundUpDivide
  have hw := SrcNumericUtil.round_up_divide_py size.width block.width hb.1
  have hh := SrcNumericUtil.round_up_divide_py size.height block.height hb.2.1
  have hd := SrcNumericUtil.round_up_divide_py size.depth block.depth hb.2.2
  have h0w : 0 ≤ (size.width + block.width - 1) / block.width := Int.ediv_nonneg (by omega) (by omega)
  have h0d : 0 ≤ (size.depth + block.depth - 1) / block.depth := Int.ediv_nonneg (by omega) (by omega)
  generalize (size.width + block.width - 1) / block.width = wb at *
  generalize (size.height + block.height - 1) / block.height = hbk at *
  generalize (size.depth + block.depth - 1) / block.depth = db at *
  have hmul : 0 ≤ db * wb := Int.mul_nonneg h0d h0w
  have hmz : db * wb = 0 ↔ (db = 0 ∨ wb = 0) := Int.mul_eq_zero
  py_exec [get_offset_block_coords, hw, hh, hd]
  repeat' py_split1
  all_goals first
    | omega
    | rfl
    | exact ⟨_, rfl⟩
    | (simp only [RelPt, pyPt]; first | rfl | omega | exact ⟨_, rfl⟩)
def pyArea (a : Area) : (Num × Num × Num) × (Num × Num × Num) × Num := (pyPt a.start, pyPt a.stop, .py 1)

/-- outcome of a translated `get_*_job_*_volume` vs. the model's `Option (Option Area)` -/
def RelArea (s : M (Option ((Num × Num × Num) × (Num × Num × Num) × Num))) (m : Option (Option Area)) : Prop :=
  match m with
  | none => ∃ e, s = .error e
  | some none => s = .ok none
  | some (some a) => s = .ok (some (pyArea a))

theorem gpjov (size block : Blk3) (bo : Int)
    (hb : 0 < block.width ∧ 0 < block.height ∧ 0 < block.depth)
    (hs : 0 ≤ size.width ∧ 0 ≤ size.height ∧ 0 ≤ size.depth) :
    RelArea (get_prev_job_output_volume (.py bo) (.py size.depth) (.py size.height) (.py size.width)
        (.py 0) (.py 0) (.py 0) (.py block.depth) (.py block.height) (.py block.width))
      (getPrevJobOutputVolume size block bo) := by
  have h := gobc size block (-1 - bo) hb hs
  unfold getPrevJobOutputVolume
  by_cases hbo : bo < 0
  · py_exec [get_prev_job_output_volume, if_pos, if_neg, hbo]
    exact ⟨_, rfl⟩
  · cases hm : getOffsetBlockCoords size block (-1 - bo) with
    | none =>
      rw [hm] at h
      obtain ⟨e, he⟩ := h
      py_exec [get_prev_job_output_volume, if_pos, if_neg, hbo, he]
      exact ⟨_, rfl⟩
    | some o =>
      cases o with
      | none =>
        rw [hm] at h
        simp only [RelPt] at h
        py_exec [get_prev_job_output_volume, if_pos, if_neg, hbo, h]
        rfl
      | some p =>
        rw [hm] at h
        simp only [RelPt, pyPt] at h
        py_exec [get_prev_job_output_volume, if_pos, if_neg, hbo, h]
        rfl

theorem gfjiv (a : Gen.AccRow) (ifmSize ofmSize : Blk3) (ibd : Int) (ofmBlock : Blk3) (k : Kernel) (p : Padding)
    (bo : Int) (hb : 0 < ofmBlock.width ∧ 0 < ofmBlock.height ∧ 0 < ofmBlock.depth)
    (hs : 0 ≤ ofmSize.width ∧ 0 ≤ ofmSize.height ∧ 0 ≤ ofmSize.depth) (hibd : 0 < ibd) (hid : 0 ≤ ifmSize.depth) :
    let B := getIfmBlockSize a ibd ofmBlock k a.ofmBlockMax.width a.ofmBlockMax.height
    RelArea (get_first_job_input_volume (.py ibd) (.py bo) (.py ifmSize.depth) (.py 0)
        (.py B.depth) (.py B.height) (.py B.width) (.py k.strideX) (.py k.strideY)
        (.py ofmSize.depth) (.py ofmSize.height) (.py ofmSize.width) (.py 0) (.py 0) (.py 0)
        (.py ofmBlock.depth) (.py ofmBlock.height) (.py ofmBlock.width) (.py p.left) (.py p.top))
      (getFirstJobInputVolume a ifmSize ofmSize ibd ofmBlock k p bo) := by
  intro B
  unfold getFirstJobInputVolume roundUpDivide
  have hdb := SrcNumericUtil.round_up_divide_py ifmSize.depth ibd hibd
  have h0 : 0 ≤ (ifmSize.depth + ibd - 1) / ibd := Int.ediv_nonneg (by omega) (by omega)
  generalize (ifmSize.depth + ibd - 1) / ibd = idb at *
  have hnot : ¬ ibd ≤ 0 := by omega
  by_cases hz : idb = 0
  · subst hz
    py_exec [get_first_job_input_volume, hdb, if_pos, if_neg, hnot]
    exact ⟨_, rfl⟩
  · have hpos : 0 < idb := by omega
    have hnz : ¬ idb ≤ 0 := by omega
    have h := gobc ofmSize ofmBlock (bo / idb) hb hs
    cases hm : getOffsetBlockCoords ofmSize ofmBlock (bo / idb) with
    | none =>
      rw [hm] at h
      obtain ⟨e, he⟩ := h
      py_exec [get_first_job_input_volume, hdb, if_pos, if_neg, hnot, hnz, he, hm]
      exact ⟨_, rfl⟩
    | some o =>
      cases o with
      | none =>
        rw [hm] at h
        simp only [RelPt] at h
        py_exec [get_first_job_input_volume, hdb, if_pos, if_neg, hnot, hnz, h, hm]
        rfl
      | some q =>
        rw [hm] at h
        simp only [RelPt, pyPt] at h
        py_exec [get_first_job_input_volume, hdb, if_pos, if_neg, hnot, hnz, h, hm]
        rfl

end VelaVerif.SrcBlockdep
