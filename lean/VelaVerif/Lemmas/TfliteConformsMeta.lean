import VelaVerif.Lemmas.TfliteWriter
import VelaVerif.Spec.TfliteFile
/-! The writer's output passes the well-formedness part and the metadata part of the file checker `Spec.conforms`
(Spec/TfliteFile.lean): `wellFormed_write`, `metadataProblems_write`. -/
set_option linter.unusedSimpArgs false
namespace VelaVerif.Tflite.Spec
open VelaVerif.Gen
open VelaVerif.Tflite.Writer

/-! ## list helpers -/

theorem eraseDups_of_nodup {α : Type} [BEq α] [LawfulBEq α] : ∀ (l : List α), l.Nodup → l.eraseDups = l
  | [], _ => by simp
  | a :: l, h => by
    rw [List.eraseDups_cons]
    obtain ⟨h1, h2⟩ := List.nodup_cons.mp h
    have hf : l.filter (fun b => !b == a) = l := by
      rw [List.filter_eq_self]
      intro b hb
      simp only [Bool.not_eq_true', beq_eq_false_iff_ne, ne_eq]
      rintro rfl
      exact h1 hb
    rw [hf, eraseDups_of_nodup l h2]

/-- element `i` of the `k`-th block of a flattened list of blocks -/
theorem flatten_map_get {β : Type} (f : List Nat → List β) (hf : ∀ a, (f a).length = a.length) :
    ∀ (maps : List (List Nat)) (k : Nat) (all : List Nat), maps[k]? = some all → ∀ (i : Nat) (v : β), (f all)[i]? = some v →
      ((maps.map f).flatten)[((maps.take k).map List.length).sum + i]? = some v
  | [], k, all, h, _, _, _ => by simp at h
  | y :: rest, 0, all, h, i, v, hv => by
    simp only [List.getElem?_cons_zero, Option.some.injEq] at h
    subst h
    have hi : i < (f y).length := (List.getElem?_eq_some_iff.mp hv).1
    simp only [List.take_zero, List.map_nil, List.sum_nil, Nat.zero_add, List.map_cons, List.flatten_cons]
    rw [List.getElem?_append_left hi]
    exact hv
  | y :: rest, k + 1, all, h, i, v, hv => by
    simp only [List.getElem?_cons_succ] at h
    have ih := flatten_map_get f hf rest k all h i v hv
    simp only [List.take_succ_cons, List.map_cons, List.sum_cons, List.flatten_cons]
    rw [List.getElem?_append_right (by rw [hf]; omega)]
    rw [hf]
    have : y.length + ((rest.take k).map List.length).sum + i - y.length = ((rest.take k).map List.length).sum + i := by omega
    rw [this]
    exact ih

/-! ## little-endian words -/

theorem i32le_ok (x : Int) (b : List Nat) (h : i32le x = .ok b) :
    ∃ a0 a1 a2 a3 : Nat, b = [a0, a1, a2, a3] ∧
      (if a0 + 256 * a1 + 65536 * a2 + 16777216 * a3 ≥ 2147483648 then ((a0 + 256 * a1 + 65536 * a2 + 16777216 * a3 : Nat) : Int) - 4294967296
       else ((a0 + 256 * a1 + 65536 * a2 + 16777216 * a3 : Nat) : Int)) = x := by
  unfold i32le at h
  split at h
  · simp [throw, throwThe, MonadExceptOf.throw] at h
  · rename_i hr
    simp only [pure, Except.pure, Except.ok.injEq] at h
    subst h
    refine ⟨_, _, _, _, rfl, ?_⟩
    have hu : (((x % 4294967296).toNat : Nat) : Int) = x % 4294967296 := Int.toNat_of_nonneg (by omega)
    generalize (x % 4294967296).toNat = u at hu
    split <;> omega

theorem le32_go_cons (fuel a b c e : Nat) (rest : List Nat) :
    le32.go (fuel + 1) (a :: b :: c :: e :: rest) =
      (if a + 256 * b + 65536 * c + 16777216 * e ≥ 2147483648 then ((a + 256 * b + 65536 * c + 16777216 * e : Nat) : Int) - 4294967296
       else ((a + 256 * b + 65536 * c + 16777216 * e : Nat) : Int)) :: le32.go fuel rest := by
  simp [le32.go]

theorem le32_go_roundtrip : ∀ (l : List Int) (bs : List (List Nat)), l.mapM i32le = .ok bs →
    bs.flatten.length = 4 * l.length ∧ ∀ fuel, l.length ≤ fuel → le32.go fuel bs.flatten = l
  | [], bs, h => by
    simp [pure, Except.pure] at h
    subst h
    refine ⟨by simp, fun fuel _ => ?_⟩
    cases fuel <;> simp [le32.go]
  | x :: xs, bs, h => by
    rw [List.mapM_cons] at h
    obtain ⟨b, hb, h⟩ := bind_ok h
    obtain ⟨bs', hbs, h⟩ := bind_ok h
    simp only [pure, Except.pure, Except.ok.injEq] at h
    subst h
    obtain ⟨ih1, ih2⟩ := le32_go_roundtrip xs bs' hbs
    obtain ⟨a0, a1, a2, a3, rfl, hx⟩ := i32le_ok x b hb
    refine ⟨by simp only [List.flatten_cons, List.length_append, List.length_cons, List.length_nil, ih1]; omega, ?_⟩
    intro fuel hf
    cases fuel with
    | zero => simp at hf
    | succ fuel =>
      simp only [List.flatten_cons, List.cons_append, List.nil_append]
      rw [le32_go_cons, hx, ih2 fuel (by simpa using hf)]

theorem le32_roundtrip (l : List Int) (bs : List (List Nat)) (h : l.mapM i32le = .ok bs) :
    le32 bs.flatten = l ∧ bs.flatten.length = 4 * l.length := by
  obtain ⟨h1, h2⟩ := le32_go_roundtrip l bs h
  refine ⟨?_, h1⟩
  unfold le32
  exact h2 _ (by omega)

/-! ## `wellFormed` -/

theorem serialiseOpCode_extra (c : Code) (o : OpCodeT) (h : serialiseOpCode c = .ok o) : o.extra = [] := by
  unfold serialiseOpCode at h
  cases hl : lookupOpId c.opId with
  | none => simp [hl, bind, Except.bind, throw, throwThe, MonadExceptOf.throw] at h
  | some info =>
  simp only [hl, bind, Except.bind, pure, Except.pure] at h
  repeat' split at h
  all_goals first
    | (simp only [pure, Except.pure, Except.ok.injEq] at h; subst h; rfl)
    | (simp [throw, throwThe, MonadExceptOf.throw] at h)

theorem assemble_metadata_buffers (d : Desc) (opcodes : List OpCodeT) (sgs : List SubGraphT) (st : St) (metas : List MetaW) :
    (assemble d opcodes sgs st metas).metadata.map (·.buffer) = (List.range metas.length).map (st.buffers.length + ·) := by
  simp only [assemble, List.map_map]
  apply List.ext_getElem?
  intro i
  simp only [List.getElem?_map, List.getElem?_zipIdx, List.getElem?_range, Function.comp]
  by_cases hi : i < metas.length
  · simp [hi, List.getElem?_eq_getElem hi]
  · simp [hi, List.getElem?_eq_none (Nat.le_of_not_lt hi)]

theorem wellFormed_assemble (d : Desc) (opcodes : List OpCodeT) (sgs : List SubGraphT) (st : St) (metas : List MetaW)
    (h0 : st.buffers[0]? = some none)
    (hnd : (((sgs.flatMap (·.tensors)).map (·.buffer)).filter (· ≠ 0)).Nodup)
    (hlt : ∀ sg ∈ sgs, ∀ tt ∈ sg.tensors, tt.buffer < st.buffers.length)
    (hop : ∀ c ∈ opcodes, c.extra = []) (hsg : ∀ s ∈ sgs, s.extra = []) :
    wellFormed (assemble d opcodes sgs st metas) = [] := by
  have hb0 := assemble_buffers_get d opcodes sgs st metas 0 none h0
  have hmd := assemble_metadata_buffers d opcodes sgs st metas
  have hpos : 0 < st.buffers.length := (List.getElem?_eq_some_iff.mp h0).1
  unfold wellFormed
  dsimp only
  rw [hb0, hmd]
  have hsgs : (assemble d opcodes sgs st metas).subgraphs = sgs := rfl
  rw [hsgs]
  have hflat : (sgs.flatMap fun s => s.tensors.map (·.buffer)) = (sgs.flatMap (·.tensors)).map (·.buffer) := by
    rw [List.map_flatMap]
  rw [hflat]
  have hnz : ((List.range metas.length).map (st.buffers.length + ·)).filter (· != 0) = (List.range metas.length).map (st.buffers.length + ·) := by
    rw [List.filter_eq_self]
    intro a ha
    obtain ⟨i, _, rfl⟩ := List.mem_map.mp ha
    simp only [bne_iff_ne, ne_eq]
    omega
  have hnodup : ((((sgs.flatMap (·.tensors)).map (·.buffer)) ++ (List.range metas.length).map (st.buffers.length + ·)).filter (· != 0)).Nodup := by
    rw [List.filter_append, hnz]
    have e : (((sgs.flatMap (·.tensors)).map (·.buffer)).filter (· != 0)) = (((sgs.flatMap (·.tensors)).map (·.buffer)).filter (· ≠ 0)) := by
      congr 1; funext x; cases x <;> simp
    rw [e]
    refine List.Nodup.append hnd ?_ ?_
    · exact (List.nodup_range).map (fun a b hab => by simpa using hab)
    · intro x hx1 hx2
      obtain ⟨hx1m, _⟩ := List.mem_filter.mp hx1
      obtain ⟨t1, ht1, rfl⟩ := List.mem_map.mp hx1m
      obtain ⟨sg1, hsg1, ht1'⟩ := List.mem_flatMap.mp ht1
      have := hlt sg1 hsg1 t1 ht1'
      obtain ⟨i, _, he⟩ := List.mem_map.mp hx2
      omega
  rw [eraseDups_of_nodup _ hnodup]
  have e1 : (assemble d opcodes sgs st metas).extra.isEmpty = true := rfl
  have e2 : (assemble d opcodes sgs st metas).opcodes.all (·.extra.isEmpty) = true := by
    simp only [assemble, List.all_eq_true]
    intro c hc; rw [hop c hc]; rfl
  have e3 : (assemble d opcodes sgs st metas).buffers.all (·.extra.isEmpty) = true := by
    simp only [assemble, List.all_eq_true, List.mem_map]
    rintro b ⟨x, _, rfl⟩; rfl
  have e4 : (assemble d opcodes sgs st metas).metadata.all (·.extra.isEmpty) = true := by
    simp only [assemble, List.all_eq_true, List.mem_map]
    rintro b ⟨x, _, rfl⟩; rfl
  have e5 : sgs.all (·.extra.isEmpty) = true := by
    simp only [List.all_eq_true]
    intro c hc; rw [hsg c hc]; rfl
  rw [e1, e2, e3, e4, e5]
  simp

theorem wellFormed_write (d : Desc) (enum : List Code) (m : ModelT) (h : writeWith d enum = .ok m)
    (hne : m.subgraphs ≠ []) : wellFormed m = [] := by
  obtain ⟨subs, opcodes, st, metas, _, h2, h3, _, hm, acc, _⟩ := write_facts d enum m h
  have h0 := acc.nonempty hne
  have hle : st.bufIdx ≤ st.buffers.length := by
    rcases acc.inv.bufs with he | ⟨hle, _⟩
    · rw [he] at h0; simp at h0
    · exact hle
  have hloc := subgraphs_local d.tensors (sortCodes enum) subs st0 m.subgraphs st h3
  have hsg : ∀ s ∈ m.subgraphs, s.extra = [] := by
    intro s hs
    obtain ⟨k, hk, rfl⟩ := List.getElem_of_mem hs
    have hk' : k < subs.length := by rw [hloc.length_eq]; exact hk
    obtain ⟨_, _, _, _, _, _, _, _, he⟩ := (List.forall₂_iff_get.mp hloc).2 k hk' hk
    simpa using he
  have hop : ∀ c ∈ opcodes, c.extra = [] := by
    intro c hc
    obtain ⟨k, hk, rfl⟩ := List.getElem_of_mem hc
    obtain ⟨hl, hg⟩ := mapM_ok serialiseOpCode _ _ h2
    have hk' : k < (sortCodes enum).length := by rw [← hl]; exact hk
    obtain ⟨b, hb1, hb2⟩ := hg k _ (List.getElem?_eq_getElem hk')
    rw [List.getElem?_eq_getElem hk] at hb1
    rw [Option.some.inj hb1]
    exact serialiseOpCode_extra _ _ hb2
  rw [hm]
  refine wellFormed_assemble d opcodes m.subgraphs st metas h0 acc.nodup ?_ hop hsg
  intro sg hsg' tt htt
  have := acc.below sg hsg' tt htt
  omega

/-- a graph without a Cpu subgraph: no tensor buffer is written, buffer 0 of the file is the `vela_version` buffer -/
def noCpuDesc : Desc := { tensors := [], subgraphs := [], metadata := [], version := [49] }
def noCpuFile : ModelT :=
  { fileId := WriterTbl.fileIdentifier, version := WriterTbl.tfliteVersion, opcodes := [], subgraphs := [],
    description := some (descriptionOf [49]),
    buffers := [{ data := some (.raw [49]) }, { data := some (.raw [0,0,0,0, 0,0,0,0, 0,0,0,0]) }],
    metadata := [{ name := some velaVersionName, buffer := 0 }, { name := some omaName, buffer := 1 }] }
theorem wellFormed_no_cpu_subgraph_witness : ∃ d m, write d = .ok m ∧ wellFormed m ≠ [] := by
  refine ⟨noCpuDesc, noCpuFile, ?_, ?_⟩
  · decide +kernel
  · decide +kernel

/-! ## metadata -/

/-- the relations `conforms` reads off the file are explained by the writer's tensor lists: as many as subgraphs, each with
    the table length, every pair (graph tensor g, file index i) has `all[i] = g` -/
def RelsOk (maps : List (List Nat)) (rels : List (Rel × Nat)) : Prop :=
  List.Forall₂ (fun (all : List Nat) (r : Rel × Nat) => r.2 = all.length ∧ ∀ p ∈ r.1, all[p.2]? = some p.1) maps rels

/-- the entries `metadataProblems` expects -/
def expectedMeta (d : Desc) : List (Bytes × Option (Option Data)) :=
  d.metadata.map (fun x => (x.name, some x.data)) ++ [(velaVersionName, some (some (.raw d.version)))] ++
    (if (d.metadata.any fun x => x.nameIsBytes && x.name == omaName) then [] else [(omaName, none)])

/-- the check of a generated offline plan in `metadataProblems` -/
def planProblems (d : Desc) (rels : List (Rel × Nat)) (bytes : List Nat) : List Problem :=
  let v := le32 bytes
  let total := (rels.map (·.2)).sum
  (if v.take 3 == [0, (rels.length : Int), (total : Int)] && v.length == 3 + total && bytes.length == 4 * v.length then []
   else [⟨"offline-plan-header", s!"{v.take 3} length {v.length}"⟩]) ++
  (rels.zipIdx.flatMap fun ((r, _), k) =>
    let base := 3 + ((rels.take k).map (·.2)).sum
    r.filterMap fun (g, i) =>
      match d.tensors[g]?, v[base + i]? with
      | some gt, some off =>
        let want : Int := if isScratchMem gt then gt.address.getD 0 else -1
        if off == want then none else some ⟨"offline-plan-offset", s!"subgraph {k} tensor {i}: plan {off} graph {want}"⟩
      | _, _ => some ⟨"offline-plan-offset", s!"subgraph {k} tensor {i}"⟩)

/-- the check of one metadata entry in `metadataProblems` -/
def entryProblems (d : Desc) (m : ModelT) (rels : List (Rel × Nat)) (e : Bytes × Option (Option Data)) (f : MetadataT) : List Problem :=
  (if f.name == some e.1 then [] else [⟨"metadata-name", showName e.1⟩]) ++
  (match m.buffers[f.buffer]? with
   | none => [⟨"buffer-range", "metadata " ++ showName e.1⟩]
   | some b =>
     match e.2 with
     | some data => if b.data == data then [] else [⟨"metadata-data", showName e.1⟩]
     | none =>
       match b.data with
       | some (.raw bytes) => planProblems d rels bytes
       | _ => [⟨"offline-plan-data", ""⟩])

theorem metadataProblems_eq (d : Desc) (m : ModelT) (rels : List (Rel × Nat)) : metadataProblems d m rels =
    (if m.metadata.length == (expectedMeta d).length then []
     else [⟨"metadata-count", s!"expected {(expectedMeta d).length} file {m.metadata.length}"⟩]) ++
    (((expectedMeta d).zip m.metadata).flatMap fun (e, f) => entryProblems d m rels e f) := rfl

theorem forall₂_getElem? {α β : Type} {R : α → β → Prop} {l1 : List α} {l2 : List β} (h : List.Forall₂ R l1 l2) :
    ∀ (i : Nat) (a : α) (b : β), l1[i]? = some a → l2[i]? = some b → R a b := by
  induction h with
  | nil => intro i a b ha; simp at ha
  | cons hab _ ih =>
    intro i a b ha hb
    cases i with
    | zero =>
      simp only [List.getElem?_cons_zero, Option.some.injEq] at ha hb
      subst ha; subst hb; exact hab
    | succ i =>
      simp only [List.getElem?_cons_succ] at ha hb
      exact ih i a b ha hb

theorem relsOk_snd {maps : List (List Nat)} {rels : List (Rel × Nat)} (h : RelsOk maps rels) :
    rels.map (·.2) = maps.map List.length := by
  unfold RelsOk at h
  induction h with
  | nil => rfl
  | cons hab _ ih => simp only [List.map_cons, ih, hab.1]

theorem relsOk_sum {maps : List (List Nat)} {rels : List (Rel × Nat)} (h : RelsOk maps rels) :
    (rels.map (fun x => (x.2 : Int))).sum = (((maps.map List.length).sum : Nat) : Int) := by
  unfold RelsOk at h
  induction h with
  | nil => rfl
  | cons hab _ ih => simp only [List.map_cons, List.sum_cons, ih, hab.1, Int.natCast_add]

theorem relsOk_get {maps : List (List Nat)} {rels : List (Rel × Nat)} (h : RelsOk maps rels) (k : Nat) (r : Rel) (n : Nat)
    (hk : rels[k]? = some (r, n)) : ∃ all, maps[k]? = some all ∧ n = all.length ∧ ∀ p ∈ r, all[p.2]? = some p.1 := by
  have hl : maps.length = rels.length := List.Forall₂.length_eq h
  have hk1 : k < rels.length := (List.getElem?_eq_some_iff.mp hk).1
  have hk2 : k < maps.length := by omega
  have := forall₂_getElem? h k maps[k] (r, n) (List.getElem?_eq_getElem hk2) hk
  exact ⟨maps[k], List.getElem?_eq_getElem hk2, this.1, this.2⟩

theorem offsetsOf_get (ts : List TensorD) (all : List Nat) (i g : Nat) (td : TensorD) (hi : all[i]? = some g) (hg : ts[g]? = some td) :
    (offsetsOf ts all)[i]? = some (if isScratchMem td then td.address.getD 0 else -1) := by
  unfold offsetsOf
  rw [List.getElem?_map, hi]
  simp only [Option.map_some, hg, isScratchMem]
  cases td.address <;> rfl

theorem offsetsOf_length (ts : List TensorD) (all : List Nat) : (offsetsOf ts all).length = all.length := by
  simp [offsetsOf]

theorem planProblems_nil (d : Desc) (maps : List (List Nat)) (rels : List (Rel × Nat)) (bs : List (List Nat)) (hr : RelsOk maps rels)
    (hts : ∀ all ∈ maps, ∀ g ∈ all, ∃ td, d.tensors[g]? = some td)
    (hb : (offlineAlloc d.tensors maps).mapM i32le = .ok bs) : planProblems d rels bs.flatten = [] := by
  obtain ⟨hv, hlen⟩ := le32_roundtrip _ _ hb
  have hsnd := relsOk_snd hr
  have hrl : rels.length = maps.length := (List.Forall₂.length_eq hr).symm
  have hofl : (maps.map (offsetsOf d.tensors)).flatten.length = (maps.map List.length).sum := by
    rw [List.length_flatten, List.map_map]
    congr 1
    apply List.map_congr_left
    intro a _
    exact offsetsOf_length _ _
  have hhead : (offlineAlloc d.tensors maps).take 3 = [0, (rels.length : Int), (((maps.map List.length).sum : Nat) : Int)] := by
    rw [hrl]; rfl
  have hoal : (offlineAlloc d.tensors maps).length = 3 + (maps.map List.length).sum := by
    unfold offlineAlloc
    rw [List.length_append, hofl]
    simp only [List.length_cons, List.length_nil]
  unfold planProblems
  dsimp only
  rw [hv, hlen, relsOk_sum hr]
  apply List.append_eq_nil_iff.mpr
  constructor
  · rw [hhead, hoal]
    simp
  · rw [List.flatMap_eq_nil_iff]
    rintro ⟨⟨r, n⟩, k⟩ hk
    have hk' : rels[k]? = some (r, n) := List.mem_zipIdx_iff_getElem?.mp hk
    obtain ⟨all, hall, _, hp⟩ := relsOk_get hr k r n hk'
    have hbase : (rels.take k).map (·.2) = (maps.take k).map List.length := by
      rw [List.map_take, hsnd, ← List.map_take]
    dsimp only
    rw [hbase, List.filterMap_eq_nil_iff]
    rintro ⟨g, i⟩ hgi
    have hig : all[i]? = some g := hp (g, i) hgi
    obtain ⟨td, htd⟩ := hts all (List.mem_of_getElem? hall) g (List.mem_of_getElem? hig)
    have ho := offsetsOf_get d.tensors all i g td hig htd
    have hfl := flatten_map_get (offsetsOf d.tensors) (offsetsOf_length d.tensors) maps k all hall i _ ho
    have hidx : (offlineAlloc d.tensors maps)[3 + ((maps.take k).map List.length).sum + i]? =
        some (if isScratchMem td then td.address.getD 0 else -1) := by
      have e : 3 + ((maps.take k).map List.length).sum + i = (((maps.take k).map List.length).sum + i) + 1 + 1 + 1 := by omega
      rw [e]
      unfold offlineAlloc
      simp only [List.cons_append, List.nil_append, List.getElem?_cons_succ]
      exact hfl
    dsimp only
    rw [htd, hidx]
    simp

/-- how an entry the checker expects and an entry the writer hands to `assemble` correspond -/
def MetaRel (d : Desc) (maps : List (List Nat)) (e : Bytes × Option (Option Data)) (mw : MetaW) : Prop :=
  mw.name = e.1 ∧ (∀ data, e.2 = some data → mw.data = data) ∧
  (e.2 = none → ∃ bs, (offlineAlloc d.tensors maps).mapM i32le = .ok bs ∧ mw.data = some (.raw bs.flatten))

theorem metadataToWrite_rel (d : Desc) (maps : List (List Nat)) (metas : List MetaW) (h : metadataToWrite d maps = .ok metas) :
    List.Forall₂ (MetaRel d maps) (expectedMeta d) metas := by
  have hbase : List.Forall₂ (MetaRel d maps)
      (d.metadata.map (fun x => (x.name, some x.data)) ++ [(velaVersionName, some (some (.raw d.version)))])
      (d.metadata.map (fun m => ({ name := m.name, data := m.data } : MetaW)) ++ [{ name := velaVersionName, data := some (.raw d.version) }]) := by
    apply List.rel_append
    · rw [List.forall₂_map_left_iff, List.forall₂_map_right_iff, List.forall₂_same]
      intro x _
      refine ⟨rfl, ?_, ?_⟩
      · intro data hd
        simp only [Option.some.injEq] at hd
        exact hd
      · intro hd; simp at hd
    · refine List.Forall₂.cons ⟨rfl, ?_, ?_⟩ List.Forall₂.nil
      · intro data hd
        simp only [Option.some.injEq] at hd
        exact hd
      · intro hd; simp at hd
  unfold metadataToWrite at h
  dsimp only at h
  unfold expectedMeta
  by_cases hc : (d.metadata.any fun m => m.nameIsBytes && m.name == omaName) = true
  · rw [if_pos hc] at h
    rw [if_pos hc]
    simp only [pure, Except.pure, Except.ok.injEq] at h
    subst h
    simpa using hbase
  · rw [if_neg hc] at h
    rw [if_neg hc]
    obtain ⟨bytes, hb, h⟩ := bind_ok h
    simp only [pure, Except.pure, Except.ok.injEq] at h
    subst h
    refine List.rel_append hbase (List.Forall₂.cons ⟨rfl, ?_, ?_⟩ List.Forall₂.nil)
    · intro data hd; simp at hd
    · intro _; exact ⟨bytes, hb, rfl⟩

theorem assemble_metadata_get (d : Desc) (opcodes : List OpCodeT) (sgs : List SubGraphT) (st : St) (metas : List MetaW) (i : Nat)
    (f : MetadataT) (h : (assemble d opcodes sgs st metas).metadata[i]? = some f) :
    ∃ mw, metas[i]? = some mw ∧ f.name = some mw.name ∧
      (assemble d opcodes sgs st metas).buffers[f.buffer]? = some { data := mw.data } := by
  simp only [assemble, List.getElem?_map, List.getElem?_zipIdx] at h
  cases hmw : metas[i]? with
  | none => simp [hmw] at h
  | some mw =>
    simp only [hmw, Option.map_some, Option.some.injEq] at h
    subst h
    refine ⟨mw, rfl, rfl, ?_⟩
    simp only [assemble, List.getElem?_map, Nat.zero_add]
    rw [List.getElem?_append_right (by omega)]
    simp [hmw]

theorem entryProblems_data (d : Desc) (m : ModelT) (rels : List (Rel × Nat)) (e : Bytes × Option (Option Data)) (f : MetadataT)
    (b : BufferT) (data : Option Data) (hn : f.name = some e.1) (hb : m.buffers[f.buffer]? = some b) (he : e.2 = some data)
    (hd : b.data = data) : entryProblems d m rels e f = [] := by
  unfold entryProblems
  simp [hb, he, hn, hd]

theorem entryProblems_plan (d : Desc) (m : ModelT) (rels : List (Rel × Nat)) (e : Bytes × Option (Option Data)) (f : MetadataT)
    (b : BufferT) (bytes : List Nat) (hn : f.name = some e.1) (hb : m.buffers[f.buffer]? = some b) (he : e.2 = none)
    (hd : b.data = some (.raw bytes)) (hp : planProblems d rels bytes = []) : entryProblems d m rels e f = [] := by
  unfold entryProblems
  simp [hb, he, hn, hd, hp]

theorem metadataProblems_write (d : Desc) (enum : List Code) (m : ModelT) (h : writeWith d enum = .ok m)
    (subs : List PSub) (hs : (subgraphsToWrite d).mapM (prepSub d.tensors) = .ok subs)
    (rels : List (Rel × Nat)) (hr : RelsOk (subs.map (sgAll d.tensors)) rels) : metadataProblems d m rels = [] := by
  obtain ⟨subs', opcodes, st, metas, h1, _, _, h4, hm, acc, _⟩ := write_facts d enum m h
  have hsub : subs' = subs := by rw [hs] at h1; exact (Except.ok.inj h1).symm
  subst hsub
  rw [acc.maps_eq] at h4
  generalize hmaps : subs'.map (sgAll d.tensors) = maps at h4 hr acc
  have hts : ∀ all ∈ maps, ∀ g ∈ all, ∃ td, d.tensors[g]? = some td := by
    intro all hall g hg
    obtain ⟨k, hk⟩ := List.getElem?_of_mem hall
    have hk1 : k < maps.length := (List.getElem?_eq_some_iff.mp hk).1
    have hk2 : k < m.subgraphs.length := by rw [← acc.len]; exact hk1
    obtain ⟨i, hi⟩ := List.getElem?_of_mem hg
    obtain ⟨td, _, htd, _⟩ := (acc.tensors k all _ hk (List.getElem?_eq_getElem hk2)).2 i g hi
    exact ⟨td, htd⟩
  have hrel := metadataToWrite_rel d maps metas h4
  have hlen : m.metadata.length = (expectedMeta d).length := by
    rw [hm]
    simp [assemble, hrel.length_eq]
  rw [metadataProblems_eq]
  apply List.append_eq_nil_iff.mpr
  refine ⟨by simp [hlen], ?_⟩
  rw [List.flatMap_eq_nil_iff]
  rintro ⟨e, f⟩ hef
  obtain ⟨i, hi⟩ := List.getElem?_of_mem hef
  obtain ⟨hie, hif⟩ := List.getElem?_zip_eq_some.mp hi
  rw [hm] at hif
  obtain ⟨mw, hmw, hfn, hbuf⟩ := assemble_metadata_get d opcodes m.subgraphs st metas i f hif
  have hbuf' : m.buffers[f.buffer]? = some { data := mw.data } := by rw [hm]; exact hbuf
  obtain ⟨r1, r2, r3⟩ := forall₂_getElem? hrel i e mw hie hmw
  rw [r1] at hfn
  dsimp only
  cases he : e.2 with
  | some data => exact entryProblems_data d m rels e f _ data hfn hbuf' he (r2 data he)
  | none =>
    obtain ⟨bs, hbs, hdat⟩ := r3 he
    exact entryProblems_plan d m rels e f _ bs.flatten hfn hbuf' he hdat (planProblems_nil d maps rels bs hr hts hbs)

/-! ## non-vacuity -/

/-- non-vacuity: a graph with one Cpu subgraph holding one scratch tensor; the hypotheses of both theorems hold with a non-empty relation -/
def oneTensorDesc : Desc :=
  { tensors := [{ name := [97], shape := [1, 2], originalShape := [1, 2], dtype := "int8", quant := none, values := none, isVariable := false,
                  purpose := 0, memArea := 1, memType := WriterTbl.memTypeScratch, address := some 16, src := none }],
    subgraphs := [{ name := [109], cpu := true, ops := [], originalInputs := [0], inputTensors := [0], outputTensors := [0],
                    originalOutputPositions := none, virtualOutputs := [] }],
    metadata := [], version := [49] }

example : (match write oneTensorDesc, (subgraphsToWrite oneTensorDesc).mapM (prepSub oneTensorDesc.tensors) with
    | .ok m, .ok subs => decide (m.subgraphs ≠ [] ∧ subs.map (sgAll oneTensorDesc.tensors) = [[0]] ∧ wellFormed m = [] ∧
        metadataProblems oneTensorDesc m [([(0, 0)], 1)] = [] ∧ metadataProblems oneTensorDesc m [([(0, 1)], 1)] ≠ [])
    | _, _ => false) = true := by
  decide +kernel

example : RelsOk [[0]] [([(0, 0)], 1)] := List.Forall₂.cons ⟨rfl, by decide⟩ List.Forall₂.nil

end VelaVerif.Tflite.Spec
