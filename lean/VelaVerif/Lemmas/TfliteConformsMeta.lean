import VelaVerif.Lemmas.TfliteWriter
import VelaVerif.Spec.TfliteFile
/-! The writer's output passes the well-formedness part and the metadata part of the file checker `Spec.conforms`
(Spec/TfliteFile.lean): `wellFormed_write`, `metadataProblems_write`. -/
set_option linter.unusedSimpArgs false
namespace VelaVerif.Tflite.Spec
open VelaVerif.Gen
open VelaVerif.Tflite.Writer

/-! ## list helpers -/

theorem eraseDups_of_nodup {α : Type} [BEq α] [LawfulBEq α] : ∀ (l : List α), l.Nodup → l.eraseDups = l
  | [], _ => by simp
  | a :: l, h => by
    rw [List.eraseDups_cons]
    obtain ⟨h1, h2⟩ := List.nodup_cons.mp h
    have hf : l.filter (fun b => !b == a) = l := by
      rw [List.filter_eq_self]
      intro b hb
      simp only [Bool.not_eq_true', beq_eq_false_iff_ne, ne_eq]
      rintro rfl
      exact h1 hb
    rw [hf, eraseDups_of_nodup l h2]

/-- element `i` of the `k`-th block of a flattened list of blocks -/
theorem flatten_map_get {β : Type} (f : List Nat → List β) (hf : ∀ a, (f a).length = a.length) :
    ∀ (maps : List (List Nat)) (k : Nat) (all : List Nat), maps[k]? = some all → ∀ (i : Nat) (v : β), (f all)[i]? = some v →
      ((maps.map f).flatten)[((maps.take k).map List.length).sum + i]? = some v
  | [], k, all, h, _, _, _ => by simp at h
  | y :: rest, 0, all, h, i, v, hv => by
    simp only [List.getElem?_cons_zero, Option.some.injEq] at h
    subst h
    have hi : i < (f y).length := (List.getElem?_eq_some_iff.mp hv).1
    simp only [List.take_zero, List.map_nil, List.sum_nil, Nat.zero_add, List.map_cons, List.flatten_cons]
    rw [List.getElem?_append_left hi]
    exact hv
  | y :: rest, k + 1, all, h, i, v, hv => by
    simp only [List.getElem?_cons_succ] at h
    have ih := flatten_map_get f hf rest k all h i v hv
    simp only [List.take_succ_cons, List.map_cons, List.sum_cons, List.flatten_cons]
    rw [List.getElem?_append_right (by rw [hf]; omega)]
    rw [hf]
    have : y.length + ((rest.take k).map List.length).sum + i - y.length = ((rest.take k).map List.length).sum + i := by omega
    rw [this]
    exact ih

/-! ## little-endian words -/

theorem i32le_ok (x : Int) (b : List Nat) (h : i32le x = .ok b) :
    ∃ a0 a1 a2 a3 : Nat, b = [a0, a1, a2, a3] ∧
      (if a0 + 256 * a1 + 65536 * a2 + 16777216 * a3 ≥ 2147483648 then ((a0 + 256 * a1 + 65536 * a2 + 16777216 * a3 : Nat) : Int) - 4294967296
       else ((a0 + 256 * a1 + 65536 * a2 + 16777216 * a3 : Nat) : Int)) = x := by
  unfold i32le at h
  split at h
  · simp [throw, throwThe, MonadExceptOf.throw] at h
  · rename_i hr
    simp only [pure, Except.pure, Except.ok.injEq] at h
    subst h
    refine ⟨_, _, _, _, rfl, ?_⟩
    have hu : (((x % 4294967296).toNat : Nat) : Int) = x % 4294967296 := Int.toNat_of_nonneg (by omega)
    generalize (x % 4294967296).toNat = u at hu
    split <;> omega

theorem le32_go_cons (fuel a b c e : Nat) (rest : List Nat) :
    le32.go (fuel + 1) (a :: b :: c :: e :: rest) =
      (if a + 256 * b + 65536 * c + 16777216 * e ≥ 2147483648 then ((a + 256 * b + 65536 * c + 16777216 * e : Nat) : Int) - 4294967296
       else ((a + 256 * b + 65536 * c + 16777216 * e : Nat) : Int)) :: le32.go fuel rest := by
  simp [le32.go]

theorem le32_go_roundtrip : ∀ (l : List Int) (bs : List (List Nat)), l.mapM i32le = .ok bs →
    bs.flatten.length = 4 * l.length ∧ ∀ fuel, l.length ≤ fuel → le32.go fuel bs.flatten = l
  | [], bs, h => by
    simp [pure, Except.pure] at h
    subst h
    refine ⟨by simp, fun fuel _ => ?_⟩
    cases fuel <;> simp [le32.go]
  | x :: xs, bs, h => by
    rw [List.mapM_cons] at h
    obtain ⟨b, hb, h⟩ := bind_ok h
    obtain ⟨bs', hbs, h⟩ := bind_ok h
    simp only [pure, Except.pure, Except.ok.injEq] at h
    subst h
    obtain ⟨ih1, ih2⟩ := le32_go_roundtrip xs bs' hbs
    obtain ⟨a0, a1, a2, a3, rfl, hx⟩ := i32le_ok x b hb
    refine ⟨by simp only [List.flatten_cons, List.length_append, List.length_cons, List.length_nil, ih1]; omega, ?_⟩
    intro fuel hf
    cases fuel with
    | zero => simp at hf
    | succ fuel =>
      simp only [List.flatten_cons, List.cons_append, List.nil_append]
      rw [le32_go_cons, hx, ih2 fuel (by simpa using hf)]

theorem le32_roundtrip (l : List Int) (bs : List (List Nat)) (h : l.mapM i32le = .ok bs) :
    le32 bs.flatten = l ∧ bs.flatten.length = 4 * l.length := by
  obtain ⟨h1, h2⟩ := le32_go_roundtrip l bs h
  refine ⟨?_, h1⟩
  unfold le32
  exact h2 _ (by omega)

/-! ## `wellFormed` -/

theorem serialiseOpCode_extra (c : Code) (o : OpCodeT) (h : serialiseOpCode c = .ok o) : o.extra = [] := by
  unfold serialiseOpCode at h
  cases hl : lookupOpId c.opId with
  | none => simp [hl, bind, Except.bind, throw, throwThe, MonadExceptOf.throw] at h
  | some info =>
  simp only [hl, bind, Except.bind, pure, Except.pure] at h
  repeat' split at h
  all_goals first
    | (simp only [pure, Except.pure, Except.ok.injEq] at h; subst h; rfl)
    | (simp [throw, throwThe, MonadExceptOf.throw] at h)

theorem assemble_metadata_buffers (d : Desc) (opcodes : List OpCodeT) (sgs : List SubGraphT) (st : St) (metas : List MetaW) :
    (assemble d opcodes sgs st metas).metadata.map (·.buffer) = (List.range metas.length).map (st.buffers.length + ·) := by
  simp only [assemble, List.map_map]
  apply List.ext_getElem?
  intro i
  simp only [List.getElem?_map, List.getElem?_zipIdx, List.getElem?_range, Function.comp]
  by_cases hi : i < metas.length
  · simp [hi, List.getElem?_eq_getElem hi]
  · simp [hi, List.getElem?_eq_none (Nat.le_of_not_lt hi)]

theorem wellFormed_assemble (d : Desc) (opcodes : List OpCodeT) (sgs : List SubGraphT) (st : St) (metas : List MetaW)
    (h0 : st.buffers[0]? = some none)
    (hnd : (((sgs.flatMap (·.tensors)).map (·.buffer)).filter (· ≠ 0)).Nodup)
    (hlt : ∀ sg ∈ sgs, ∀ tt ∈ sg.tensors, tt.buffer < st.buffers.length)
    (hop : ∀ c ∈ opcodes, c.extra = []) (hsg : ∀ s ∈ sgs, s.extra = []) :
    wellFormed (assemble d opcodes sgs st metas) = [] := by
  have hb0 := assemble_buffers_get d opcodes sgs st metas 0 none h0
  have hmd := assemble_metadata_buffers d opcodes sgs st metas
  have hpos : 0 < st.buffers.length := (List.getElem?_eq_some_iff.mp h0).1
  unfold wellFormed
  dsimp only
  rw [hb0, hmd]
  have hsgs : (assemble d opcodes sgs st metas).subgraphs = sgs := rfl
  rw [hsgs]
  have hflat : (sgs.flatMap fun s => s.tensors.map (·.buffer)) = (sgs.flatMap (·.tensors)).map (·.buffer) := by
    rw [List.map_flatMap]
  rw [hflat]
  have hnz : ((List.range metas.length).map (st.buffers.length + ·)).filter (· != 0) = (List.range metas.length).map (st.buffers.length + ·) := by
    rw [List.filter_eq_self]
    intro a ha
    obtain ⟨i, _, rfl⟩ := List.mem_map.mp ha
    simp only [bne_iff_ne, ne_eq]
    omega
  have hnodup : ((((sgs.flatMap (·.tensors)).map (·.buffer)) ++ (List.range metas.length).map (st.buffers.length + ·)).filter (· != 0)).Nodup := by
    rw [List.filter_append, hnz]
    have e : (((sgs.flatMap (·.tensors)).map (·.buffer)).filter (· != 0)) = (((sgs.flatMap (·.tensors)).map (·.buffer)).filter (· ≠ 0)) := by
      congr 1; funext x; cases x <;> simp
    rw [e]
    refine List.Nodup.append hnd ?_ ?_
    · exact (List.nodup_range).map (fun a b hab => by simpa using hab)
    · intro x hx1 hx2
      obtain ⟨hx1m, _⟩ := List.mem_filter.mp hx1
      obtain ⟨t1, ht1, rfl⟩ := List.mem_map.mp hx1m
      obtain ⟨sg1, hsg1, ht1'⟩ := List.mem_flatMap.mp ht1
      have := hlt sg1 hsg1 t1 ht1'
      obtain ⟨i, _, he⟩ := List.mem_map.mp hx2
      omega
  rw [eraseDups_of_nodup _ hnodup]
  have e1 : (assemble d opcodes sgs st metas).extra.isEmpty = true := rfl
  have e2 : (assemble d opcodes sgs st metas).opcodes.all (·.extra.isEmpty) = true := by
    simp only [assemble, List.all_eq_true]
    intro c hc; rw [hop c hc]; rfl
  have e3 : (assemble d opcodes sgs st metas).buffers.all (·.extra.isEmpty) = true := by
    simp only [assemble, List.all_eq_true, List.mem_map]
    rintro b ⟨x, _, rfl⟩; rfl
  have e4 : (assemble d opcodes sgs st metas).metadata.all (·.extra.isEmpty) = true := by
    simp only [assemble, List.all_eq_true, List.mem_map]
    rintro b ⟨x, _, rfl⟩; rfl
  have e5 : sgs.all (·.extra.isEmpty) = true := by
    simp only [List.all_eq_true]
    intro c hc; rw [hsg c hc]; rfl
  rw [e1, e2, e3, e4, e5]
  simp

theorem wellFormed_write (d : Desc) (enum : List Code) (m : ModelT) (h : writeWith d enum = .ok m)
    (hne : m.subgraphs ≠ []) : wellFormed m = [] := by
  obtain ⟨subs, opcodes, st, metas, _, h2, h3, _, hm, acc, _⟩ := write_facts d enum m h
  have h0 := acc.nonempty hne
  have hle : st.bufIdx ≤ st.buffers.length := by
    rcases acc.inv.bufs with he | ⟨hle, _⟩
    · rw [he] at h0; simp at h0
    · exact hle
  have hloc := subgraphs_local d.tensors (sortCodes enum) subs st0 m.subgraphs st h3
  have hsg : ∀ s ∈ m.subgraphs, s.extra = [] := by
    intro s hs
    obtain ⟨k, hk, rfl⟩ := List.getElem_of_mem hs
    have hk' : k < subs.length := by rw [hloc.length_eq]; exact hk
    obtain ⟨_, _, _, _, _, _, _, _, he⟩ := (List.forall₂_iff_get.mp hloc).2 k hk' hk
    simpa using he
  have hop : ∀ c ∈ opcodes, c.extra = [] := by
    intro c hc
    obtain ⟨k, hk, rfl⟩ := List.getElem_of_mem hc
    obtain ⟨hl, hg⟩ := mapM_ok serialiseOpCode _ _ h2
    have hk' : k < (sortCodes enum).length := by rw [← hl]; exact hk
    obtain ⟨b, hb1, hb2⟩ := hg k _ (List.getElem?_eq_getElem hk')
    rw [List.getElem?_eq_getElem hk] at hb1
    rw [Option.some.inj hb1]
    exact serialiseOpCode_extra _ _ hb2
  rw [hm]
  refine wellFormed_assemble d opcodes m.subgraphs st metas h0 acc.nodup ?_ hop hsg
  intro sg hsg' tt htt
  have := acc.below sg hsg' tt htt
  omega

/-- a graph without a Cpu subgraph: no tensor buffer is written, buffer 0 of the file is the `vela_version` buffer -/
def noCpuDesc : Desc := { tensors := [], subgraphs := [], metadata := [], version := [49] }
def noCpuFile : ModelT :=
  { fileId := WriterTbl.fileIdentifier, version := WriterTbl.tfliteVersion, opcodes := [], subgraphs := [],
    description := some (descriptionOf [49]),
    buffers := [{ data := some (.raw [49]) }, { data := some (.raw [0,0,0,0, 0,0,0,0, 0,0,0,0]) }],
    metadata := [{ name := some velaVersionName, buffer := 0 }, { name := some omaName, buffer := 1 }] }
theorem wellFormed_no_cpu_subgraph_witness : ∃ d m, write d = .ok m ∧ wellFormed m ≠ [] := by
  refine ⟨noCpuDesc, noCpuFile, ?_, ?_⟩
  · decide +kernel
  · decide +kernel

end VelaVerif.Tflite.Spec
