import VelaVerif.Lemmas.PassPackingInputs
/-!
# `input_refcounts`: `build_pass` visits every input tensor once per input position of the pass that reads it
-/
namespace VelaVerif.Lemmas.PassPackingWalk
open VelaVerif.PassPacking VelaVerif.Gen.PassPacking VelaVerif.PassPackingSpec

/-! ## `input_refcounts` -/

def refOf : List (Nat × Nat) → Nat → Nat
  | [], _ => 0
  | (u, n) :: rest, t => if u = t then n else refOf rest t

theorem refOf_of_not_key (refs : List (Nat × Nat)) (t : Nat) (h : t ∉ refs.map (·.1)) : refOf refs t = 0 := by
  induction refs with
  | nil => rfl
  | cons p rest ih =>
    obtain ⟨u, n⟩ := p
    simp only [List.map_cons, List.mem_cons, not_or] at h
    simp only [refOf]
    rw [if_neg (fun h' => h.1 h'.symm)]
    exact ih h.2

theorem refOf_bumpRef (refs : List (Nat × Nat)) (t u : Nat) : refOf (bumpRef refs u) t = refOf refs t + (if t = u then 1 else 0) := by
  induction refs with
  | nil =>
    by_cases h : t = u
    · subst h; simp [bumpRef, refOf]
    · have h' : ¬ u = t := fun h' => h h'.symm
      simp [bumpRef, refOf, h, h']
  | cons p rest ih =>
    obtain ⟨v, n⟩ := p
    by_cases hvu : v = u
    · subst hvu
      have hb : bumpRef ((v, n) :: rest) v = (v, n + 1) :: rest := by simp [bumpRef]
      rw [hb]
      by_cases h : v = t
      · subst h; simp [refOf]
      · have h' : ¬ t = v := fun h' => h h'.symm
        simp [refOf, h, h']
    · have hb : (v == u) = false := by simpa using hvu
      have hb2 : bumpRef ((v, n) :: rest) u = (v, n) :: bumpRef rest u := by simp [bumpRef, hb]
      rw [hb2]
      simp only [refOf]
      by_cases h : v = t
      · subst h; simp [hvu]
      · simp only [h, if_false]; exact ih

theorem bumpRef_keys (refs : List (Nat × Nat)) (u : Nat) (h : (refs.map (·.1)).Nodup) : ((bumpRef refs u).map (·.1)).Nodup ∧
    ∀ k, k ∈ (bumpRef refs u).map (·.1) ↔ k ∈ refs.map (·.1) ∨ k = u := by
  induction refs with
  | nil => simp [bumpRef]
  | cons p rest ih =>
    obtain ⟨v, n⟩ := p
    simp only [List.map_cons, List.nodup_cons] at h
    obtain ⟨ih1, ih2⟩ := ih h.2
    by_cases hvu : v = u
    · subst hvu
      have : bumpRef ((v, n) :: rest) v = (v, n + 1) :: rest := by simp [bumpRef]
      rw [this]
      simp only [List.map_cons, List.nodup_cons, List.mem_cons]
      refine ⟨⟨h.1, h.2⟩, fun k => ?_⟩
      constructor
      · intro hk; exact Or.inl hk
      · rintro (hk | hk)
        · exact hk
        · exact Or.inl hk
    · have hb : (v == u) = false := by simpa using hvu
      have : bumpRef ((v, n) :: rest) u = (v, n) :: bumpRef rest u := by simp [bumpRef, hb]
      rw [this]
      simp only [List.map_cons, List.nodup_cons, List.mem_cons]
      refine ⟨⟨?_, ih1⟩, fun k => ?_⟩
      · intro hm
        rcases (ih2 v).mp hm with hm | hm
        · exact h.1 hm
        · exact hvu hm
      · rw [ih2 k]
        constructor
        · rintro (hk | hk | hk)
          · exact Or.inl (Or.inl hk)
          · exact Or.inl (Or.inr hk)
          · exact Or.inr hk
        · rintro ((hk | hk) | hk)
          · exact Or.inl hk
          · exact Or.inr (Or.inl hk)
          · exact Or.inr (Or.inr hk)

variable (G : Graph)

theorem addInput_refs (S : List Nat) (a : InAcc) (inp : Option Nat) (t : Nat) (hk : (a.refs.map (·.1)).Nodup) :
    refOf (addInput G S a inp).refs t = refOf a.refs t + (if inp = some t ∧ t ∈ S then 1 else 0) ∧
    ((addInput G S a inp).refs.map (·.1)).Nodup := by
  unfold addInput
  cases inp with
  | none => simp [hk]
  | some u =>
    simp only []
    by_cases hS : S.contains u = true
    · simp only [hS, if_true]
      refine ⟨?_, (bumpRef_keys a.refs u hk).1⟩
      rw [refOf_bumpRef]
      by_cases htu : t = u
      · subst htu
        have : (some t = some t ∧ t ∈ S) := ⟨rfl, List.contains_iff_mem.mp hS⟩
        simp [this]
      · have : ¬ (some u = some t ∧ t ∈ S) := by rintro ⟨h, _⟩; exact htu (Option.some.inj h).symm
        rw [if_neg htu, if_neg this]
    · simp only [hS, Bool.false_eq_true, if_false]
      refine ⟨?_, hk⟩
      have : ¬ (some u = some t ∧ t ∈ S) := by
        rintro ⟨h, hm⟩
        have := Option.some.inj h; subst this
        exact hS (List.contains_iff_mem.mpr hm)
      rw [if_neg this]; rfl

theorem addInputs_refs (S : List Nat) (inps : List (Option Nat)) (a : InAcc) (t : Nat) (hk : (a.refs.map (·.1)).Nodup) :
    refOf (addInputs G S a inps).refs t = refOf a.refs t + (if t ∈ S then inps.count (some t) else 0) ∧
    ((addInputs G S a inps).refs.map (·.1)).Nodup := by
  unfold addInputs
  induction inps generalizing a with
  | nil => simp [hk]
  | cons i rest ih =>
    simp only [List.foldl_cons]
    obtain ⟨h1, h2⟩ := addInput_refs G S a i t hk
    obtain ⟨h3, h4⟩ := ih (addInput G S a i) h2
    refine ⟨?_, h4⟩
    rw [h3, h1]
    by_cases hS : t ∈ S
    · simp only [hS, and_true, if_true, List.count_cons]
      by_cases hi : i = some t
      · subst hi; simp; omega
      · have : (i == some t) = false := by simpa using hi
        simp [hi, this]
    · simp [hS]

/-- the visits `build_pass` makes for its inputs: `refcount` times each -/
theorem count_expandRefs (refs : List (Nat × Nat)) (t : Nat) (hk : (refs.map (·.1)).Nodup) :
    (expandRefs refs).count (Task.vt t) = refOf refs t := by
  induction refs with
  | nil => simp [expandRefs, refOf]
  | cons p rest ih =>
    obtain ⟨u, n⟩ := p
    simp only [List.map_cons, List.nodup_cons] at hk
    simp only [expandRefs, List.count_append, ih hk.2, refOf]
    by_cases h : u = t
    · subst h
      rw [refOf_of_not_key rest u hk.1]
      simp [List.count_replicate]
    · have h2 : (Task.vt u == Task.vt t) = false := by
        simp only [beq_eq_false_iff_ne, ne_eq, Task.vt.injEq]; exact h
      simp [h, List.count_replicate, h2]

theorem expandRefs_only_vt (refs : List (Nat × Nat)) (o : Nat) : (expandRefs refs).count (Task.vo o) = 0 := by
  induction refs with
  | nil => simp [expandRefs]
  | cons p rest ih =>
    obtain ⟨u, n⟩ := p
    simp [expandRefs, List.count_append, ih, List.count_replicate]

/-- how often tensor `t` is an input of operator `c` -/
def cnt (c t : Nat) : Nat := (G.op c).inputs.count (some t)

/-- … of the operators `ops` -/
def occ (ops : List Nat) (t : Nat) : Nat := (ops.map fun c => cnt G c t).sum

theorem fold_addInputs_refs (S : List Nat) (f : Nat → List (Option Nat)) (ops : List Nat) (a : InAcc) (t : Nat)
    (hk : (a.refs.map (·.1)).Nodup) :
    refOf (ops.foldl (fun a o => addInputs G S a (f o)) a).refs t =
      refOf a.refs t + (if t ∈ S then (ops.map fun o => (f o).count (some t)).sum else 0) ∧
    ((ops.foldl (fun a o => addInputs G S a (f o)) a).refs.map (·.1)).Nodup := by
  induction ops generalizing a with
  | nil => simp [hk]
  | cons o rest ih =>
    simp only [List.foldl_cons]
    obtain ⟨h1, h2⟩ := addInputs_refs G S (f o) a t hk
    obtain ⟨h3, h4⟩ := ih (addInputs G S a (f o)) h2
    refine ⟨?_, h4⟩
    rw [h3, h1]
    by_cases hS : t ∈ S
    · simp only [hS, if_true, List.map_cons, List.sum_cons]; omega
    · simp [hS]

theorem sum_map_erase (f : Nat → Nat) (l : List Nat) (m : Nat) (h : m ∈ l) : (l.map f).sum = f m + ((l.erase m).map f).sum := by
  induction l with
  | nil => simp at h
  | cons x rest ih =>
    by_cases hx : x = m
    · subst hx; simp
    · have hb : (x == m) = false := by simpa using hx
      rcases List.mem_cons.mp h with h | h
      · exact absurd h.symm hx
      · simp only [List.map_cons, List.sum_cons, List.erase_cons, hb]
        rw [ih h]; simp only [Bool.false_eq_true, if_false, List.map_cons, List.sum_cons]; omega

theorem sum_map_congr (f g : Nat → Nat) (l : List Nat) (h : ∀ x ∈ l, f x = g x) : (l.map f).sum = (l.map g).sum := by
  induction l with
  | nil => rfl
  | cons x rest ih =>
    simp only [List.map_cons, List.sum_cons]
    rw [h x List.mem_cons_self, ih (fun y hy => h y (List.mem_cons_of_mem _ hy))]

theorem count_headD_drop (l : List (Option Nat)) (t : Nat) (h : l ≠ []) :
    [l.headD none].count (some t) + (l.drop 1).count (some t) = l.count (some t) := by
  cases l with
  | nil => exact absurd rfl h
  | cons x rest => simp [List.count_cons]; omega

/-- **`input_refcounts` counts every input position of the pass whose tensor is in the input set** -/
theorem finInAcc_refs (w : Walk) (t : Nat) (hnd : w.ops.Nodup) (hne : w.ops ≠ [])
    (hcr : needCreate G w = true → (G.op (firstOp w)).inputs ≠ []) (hprim : ∀ m, w.primary = some m → m ∈ w.ops) :
    refOf (finInAcc G w).refs t = (if t ∈ finInputSet G w then occ G w.ops t else 0) ∧
    ((finInAcc G w).refs.map (·.1)).Nodup := by
  unfold finInAcc
  obtain ⟨h0, hk0⟩ := addInputs_refs G (finInputSet G w) (primaryInputs G w) {} t (by simp)
  obtain ⟨h1, hk1⟩ := fold_addInputs_refs G (finInputSet G w) (inputsOf G w) (restOps G w) _ t hk0
  refine ⟨?_, hk1⟩
  rw [h1, h0]
  by_cases hS : t ∈ finInputSet G w
  · simp only [hS, if_true, refOf, Nat.zero_add]
    unfold occ cnt
    cases hp : w.primary with
    | some m =>
      have hnc : needCreate G w = false := by simp [needCreate, hp]
      have hfp : finPrimary G w = .real m := by simp [finPrimary, hp]
      have hpi : primaryInputs G w = (G.op m).inputs := by simp [primaryInputs, hfp]
      have hro : restOps G w = w.ops.erase m := by simp [restOps, hfp, removeFirst]
      have hio : ∀ o, inputsOf G w o = (G.op o).inputs := by intro o; simp [inputsOf, hnc]
      rw [hpi, hro, sum_map_erase (fun c => (G.op c).inputs.count (some t)) w.ops m (hprim m hp)]
      congr 1
      exact sum_map_congr _ _ _ (fun o _ => by rw [hio o])
    | none =>
      by_cases hnc : needCreate G w = true
      · have hfp : finPrimary G w = .created := by simp [finPrimary, hp, hnc]
        have hpi : primaryInputs G w = [(G.op (firstOp w)).inputs.headD none] := by
          simp [primaryInputs, hfp, createdInp, hnc]
        have hro : restOps G w = w.ops := by simp [restOps, hfp]
        rw [hpi, hro]
        obtain ⟨rest, hops⟩ : ∃ rest, w.ops = firstOp w :: rest := by
          cases hl : w.ops with
          | nil => exact absurd hl hne
          | cons x rest => exact ⟨rest, by simp [firstOp, hl]⟩
        have hnotin : firstOp w ∉ rest := by rw [hops] at hnd; exact (List.nodup_cons.mp hnd).1
        rw [hops]
        simp only [List.map_cons, List.sum_cons]
        have hfirst : inputsOf G w (firstOp w) = (G.op (firstOp w)).inputs.drop 1 := by simp [inputsOf, hnc]
        have hrest : ∀ o ∈ rest, inputsOf G w o = (G.op o).inputs := by
          intro o ho
          have : (o == firstOp w) = false := by
            simp only [beq_eq_false_iff_ne, ne_eq]; intro h; subst h; exact hnotin ho
          simp [inputsOf, this]
        rw [hfirst, sum_map_congr _ (fun c => (G.op c).inputs.count (some t)) rest (fun o ho => by rw [hrest o ho])]
        have := count_headD_drop (G.op (firstOp w)).inputs t (hcr hnc)
        omega
      · have hnc' : needCreate G w = false := by simpa using hnc
        have hfp : finPrimary G w = .none := by simp [finPrimary, hp, hnc']
        have hpi : primaryInputs G w = [] := by simp [primaryInputs, hfp]
        have hro : restOps G w = w.ops := by simp [restOps, hfp]
        have hio : ∀ o, inputsOf G w o = (G.op o).inputs := by intro o; simp [inputsOf, hnc']
        rw [hpi, hro]
        simp only [List.count_nil, Nat.zero_add]
        exact sum_map_congr _ _ _ (fun o _ => by rw [hio o])
  · simp [hS, refOf]

end VelaVerif.Lemmas.PassPackingWalk
