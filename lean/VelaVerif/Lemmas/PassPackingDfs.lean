import VelaVerif.Lemmas.PassPackingFacts
/-!
# The traversal of `pack_into_passes` (`dfsStep`): counting invariants
-/
namespace VelaVerif.Lemmas.PassPackingDfs
open VelaVerif.PassPacking VelaVerif.Gen.PassPacking VelaVerif.PassPackingSpec VelaVerif.Lemmas.PassPackingWalk

/-! ## the traversal: counting invariants -/

/-- all consumers of the tensor have been visited (and there is at least one) -/
def full (G : Graph) (d : Dfs) (t : Nat) : Bool :=
  d.doneT.count t == (G.tensor t).consumers.length && (G.tensor t).consumers.length != 0

/-- the start operator of a pass: the last of its list -/
def startsOf (ps : List Pass) : List Nat := ps.filterMap fun p => p.ops.getLast?

/-- total of the visits the passes ask for tensor `t` -/
def emitted (ps : List Pass) (t : Nat) : Nat := (ps.map fun p => refOf p.inputRefs t).sum

structure DInvA (G : Graph) (d : Dfs) : Prop where
  facts : ∀ p ∈ d.passes, ∃ s S, PassFacts G s p.ops p.inputRefs S ∧ startupInitOps.contains (G.op s).type = false
  built : ∀ p ∈ d.passes, ∃ s, buildPass Rules.current G s = .ok p
  startupT : ∀ o ∈ d.startup, startupInitOps.contains (G.op o).type = true
  vt : ∀ t, d.doneT.count t + d.stack.count (.vt t) = G.outputs.count t + emitted d.passes t
  vo : ∀ o, d.doneO.count o + d.stack.count (.vo o) = ((G.op o).outputs.filter (full G d)).length
  started : ∀ o, (o ∈ startsOf d.passes ∨ o ∈ d.startup) ↔
    (d.doneO.count o ≥ 1 ∧ d.doneO.count o + unusedOutputs G o = (G.op o).outputs.length)
  bound : ∀ t, d.doneT.count t ≤ (G.tensor t).consumers.length
  obound : ∀ o, d.doneO.count o ≥ 1 → d.doneO.count o + unusedOutputs G o ≤ (G.op o).outputs.length

theorem filter_flip (l : List Nat) (hn : l.Nodup) (P Q : Nat → Bool) (t : Nat) (hsame : ∀ x ∈ l, x ≠ t → P x = Q x)
    (hp : P t = false) (hq : Q t = true) : (l.filter Q).length = (l.filter P).length + (if t ∈ l then 1 else 0) := by
  induction l with
  | nil => simp
  | cons x rest ih =>
    have hn' := List.nodup_cons.mp hn
    have ih' := ih hn'.2 (fun y hy hne => hsame y (List.mem_cons_of_mem _ hy) hne)
    by_cases hx : x = t
    · subst hx
      have : x ∉ rest := hn'.1
      simp only [List.filter_cons, hp, hq, if_true, List.length_cons, List.mem_cons, true_or, Bool.false_eq_true, if_false]
      rw [ih']; simp [this]
    · have := hsame x List.mem_cons_self hx
      simp only [List.filter_cons, this, List.mem_cons]
      have hxt : ¬ t = x := fun h => hx h.symm
      cases hqx : Q x
      · simp only [Bool.false_eq_true, if_false]; rw [ih']; simp [hxt]
      · simp only [if_true, List.length_cons]; rw [ih']; simp [hxt]; omega

theorem filter_same (l : List Nat) (P Q : Nat → Bool) (hsame : ∀ x ∈ l, P x = Q x) : l.filter Q = l.filter P := by
  induction l with
  | nil => rfl
  | cons x rest ih =>
    simp only [List.filter_cons, hsame x List.mem_cons_self]
    rw [ih (fun y hy => hsame y (List.mem_cons_of_mem _ hy))]

theorem count_map_vo' (l : List Nat) (o : Nat) : (l.map Task.vo).count (Task.vo o) = l.count o := by
  induction l with
  | nil => rfl
  | cons x rest ih =>
    simp only [List.map_cons, List.count_cons, ih]
    by_cases h : x = o
    · subst h; simp
    · have : (Task.vo x == Task.vo o) = false := by
        simp only [beq_eq_false_iff_ne, ne_eq, Task.vo.injEq]; exact h
      simp [h, this]

theorem count_of_nodup_mem : ∀ (l : List Nat), l.Nodup → ∀ o, o ∈ l → l.count o = 1
  | [], _, o, h => by simp at h
  | x :: rest, hn, o, h => by
    have hn' := List.nodup_cons.mp hn
    by_cases hx : x = o
    · subst hx
      simp [List.count_cons, List.count_eq_zero.mpr hn'.1]
    · have hb : (x == o) = false := by simpa using hx
      rcases List.mem_cons.mp h with h | h
      · exact absurd h.symm hx
      · simp [List.count_cons, hb, count_of_nodup_mem rest hn'.2 o h]

theorem count_map_vo (l : List Nat) (hn : l.Nodup) (o : Nat) : (l.reverse.map Task.vo).count (Task.vo o) = if o ∈ l then 1 else 0 := by
  rw [count_map_vo', List.count_reverse]
  by_cases h : o ∈ l
  · simp [h, count_of_nodup_mem l hn o h]
  · simp [h, List.count_eq_zero.mpr h]

theorem count_map_vo_vt (l : List Nat) (t : Nat) : (l.reverse.map Task.vo).count (Task.vt t) = 0 := by
  apply List.count_eq_zero.mpr
  intro h
  obtain ⟨x, _, hx⟩ := List.mem_map.mp h
  cases hx


variable {G : Graph} {rk : Nat → Nat}

/-- a tensor visit -/
theorem vt_step (hW : WFU G rk) (d : Dfs) (t : Nat) (rest : List Task) (hs : d.stack = .vt t :: rest) (h : DInvA G d)
    (hle : d.doneT.count t + 1 ≤ (G.tensor t).consumers.length) :
    DInvA G { d with stack := (if d.doneT.count t + 1 == (G.tensor t).consumers.length then (G.tensor t).ops.reverse.map Task.vo else []) ++ rest,
                     doneT := t :: d.doneT } := by
  have hvt := h.vt
  have hvo := h.vo
  constructor
  · exact h.facts
  · exact h.built
  · exact h.startupT
  · -- tensor visits
    intro t'
    have := hvt t'
    rw [hs] at this
    simp only [List.count_cons, List.count_append] at this ⊢
    have hpush : (if d.doneT.count t + 1 == (G.tensor t).consumers.length then (G.tensor t).ops.reverse.map Task.vo else []).count (Task.vt t') = 0 := by
      split
      · exact count_map_vo_vt _ _
      · rfl
    rw [hpush]
    by_cases htt : t = t'
    · subst htt; simp at this ⊢; omega
    · have h1 : (t == t') = false := by simpa using htt
      have h2 : (Task.vt t == Task.vt t') = false := by
        simp only [beq_eq_false_iff_ne, ne_eq, Task.vt.injEq]; exact htt
      simp [h1, h2] at this ⊢; omega
  · -- operator visits
    intro o
    have := hvo o
    rw [hs] at this
    simp only [List.count_cons, List.count_append] at this ⊢
    have hvtvo : (Task.vt t == Task.vo o) = false := by simp
    simp only [hvtvo, Bool.false_eq_true, if_false, Nat.add_zero] at this
    -- fullness changes for `t` only
    have hfull_other : ∀ x ∈ (G.op o).outputs, x ≠ t →
        full G d x = full G { d with stack := (if d.doneT.count t + 1 == (G.tensor t).consumers.length then (G.tensor t).ops.reverse.map Task.vo else []) ++ rest, doneT := t :: d.doneT } x := by
      intro x _ hx
      have : (t == x) = false := by simpa using (fun h : t = x => hx h.symm)
      simp [full, List.count_cons, this]
    have hfull_t_old : full G d t = false := by
      simp only [full, Bool.and_eq_false_iff, beq_eq_false_iff_ne, ne_eq]
      left; omega
    by_cases hc : d.doneT.count t + 1 = (G.tensor t).consumers.length
    · have hb : (d.doneT.count t + 1 == (G.tensor t).consumers.length) = true := by simpa using hc
      simp only [hb, if_true]
      have hfull_t_new : full G { d with stack := (G.tensor t).ops.reverse.map Task.vo ++ rest, doneT := t :: d.doneT } t = true := by
        simp only [full, List.count_cons, beq_self_eq_true, if_true, Bool.and_eq_true, beq_iff_eq, bne_iff_ne, ne_eq]
        exact ⟨hc, by omega⟩
      simp only [hb, if_true] at hfull_other
      rw [filter_flip (G.op o).outputs (hW.outputsNodup o) (full G d) _ t hfull_other hfull_t_old hfull_t_new]
      rw [count_map_vo _ (hW.opsNodup t) o]
      have hiff : o ∈ (G.tensor t).ops ↔ t ∈ (G.op o).outputs := hW.prodOut o t
      by_cases hm : o ∈ (G.tensor t).ops
      · simp [hm, hiff.mp hm]; omega
      · have : t ∉ (G.op o).outputs := fun h' => hm (hiff.mpr h')
        simp [hm, this]; omega
    · have hb : (d.doneT.count t + 1 == (G.tensor t).consumers.length) = false := by simpa using hc
      simp only [hb, Bool.false_eq_true, if_false, List.count_nil, Nat.zero_add]
      simp only [hb, Bool.false_eq_true, if_false] at hfull_other
      have hfull_t_new : full G { d with stack := [] ++ rest, doneT := t :: d.doneT } t = false := by
        simp only [full, List.count_cons, beq_self_eq_true, if_true, Bool.and_eq_false_iff, beq_eq_false_iff_ne, ne_eq]
        left; exact hc
      rw [filter_same (G.op o).outputs (full G d) _ (fun x _ => by
        by_cases hx : x = t
        · subst hx; rw [hfull_t_old, hfull_t_new]
        · exact hfull_other x (by assumption) hx)]
      omega
  · exact h.started
  · intro t'
    simp only [List.count_cons]
    by_cases htt : t = t'
    · subst htt; simp; exact hle
    · have h1 : (t == t') = false := by simpa using htt
      simp [h1]; exact h.bound t'
  · exact h.obound


theorem count_vt_cons_vo (o t : Nat) (rest : List Task) : (Task.vo o :: rest).count (Task.vt t) = rest.count (Task.vt t) := by
  simp [List.count_cons]

theorem count_vo_cons_vo (o o' : Nat) (rest : List Task) :
    (Task.vo o :: rest).count (Task.vo o') = rest.count (Task.vo o') + (if o = o' then 1 else 0) := by
  by_cases h : o = o'
  · subst h; simp [List.count_cons]
  · have : (Task.vo o == Task.vo o') = false := by
      simp only [beq_eq_false_iff_ne, ne_eq, Task.vo.injEq]; exact h
    simp [List.count_cons, this, h]

theorem full_doneO (d : Dfs) (stack : List Task) (doneO : List Nat) (passes : List Pass) (startup : List Nat) (x : Nat) :
    full G { d with stack := stack, doneO := doneO, passes := passes, startup := startup } x = full G d x := rfl

/-- an operator visit that does not complete the operator, or completes a start-up operator -/
theorem vo_step_plain (d : Dfs) (o : Nat) (rest : List Task) (hs : d.stack = .vo o :: rest) (h : DInvA G d)
    (hle : d.doneO.count o + 1 + unusedOutputs G o ≤ (G.op o).outputs.length) (su : List Nat)
    (hsu : su = (if d.doneO.count o + 1 + unusedOutputs G o = (G.op o).outputs.length then [o] else []))
    (hty : d.doneO.count o + 1 + unusedOutputs G o = (G.op o).outputs.length → startupInitOps.contains (G.op o).type = true) :
    DInvA G { d with stack := rest, doneO := o :: d.doneO, startup := d.startup ++ su } := by
  constructor
  · exact h.facts
  · exact h.built
  · intro x hx
    rcases List.mem_append.mp hx with hx | hx
    · exact h.startupT x hx
    · rw [hsu] at hx
      split at hx
      · rename_i hc; simp at hx; subst hx; exact hty hc
      · simp at hx
  · intro t
    have := h.vt t
    rw [hs, count_vt_cons_vo] at this
    exact this
  · intro o'
    have := h.vo o'
    rw [hs, count_vo_cons_vo] at this
    simp only [List.count_cons]
    rw [show ((G.op o').outputs.filter (full G { d with stack := rest, doneO := o :: d.doneO, startup := d.startup ++ su })).length
        = ((G.op o').outputs.filter (full G d)).length from rfl]
    by_cases hoo : o = o'
    · subst hoo; simp at this ⊢; omega
    · have : (o == o') = false := by simpa using hoo
      simp_all
  · intro o'
    simp only [List.count_cons, List.mem_append]
    by_cases hoo : o = o'
    · subst hoo
      simp only [beq_self_eq_true, if_true]
      have hold := h.started o
      constructor
      · intro hm
        have hin : o ∈ su := by
          rcases hm with hm | hm | hm
          · exfalso
            have := hold.mp (Or.inl hm); omega
          · exfalso
            have := hold.mp (Or.inr hm); omega
          · exact hm
        rw [hsu] at hin
        split at hin
        · rename_i hc; exact ⟨by omega, by omega⟩
        · simp at hin
      · rintro ⟨_, hc⟩
        right; right
        rw [hsu]
        have : d.doneO.count o + 1 + unusedOutputs G o = (G.op o).outputs.length := by omega
        simp [this]
    · have hb : (o == o') = false := by simpa using hoo
      simp only [hb, Bool.false_eq_true, if_false, Nat.add_zero]
      have hold := h.started o'
      constructor
      · rintro (hm | hm | hm)
        · exact hold.mp (Or.inl hm)
        · exact hold.mp (Or.inr hm)
        · rw [hsu] at hm
          split at hm
          · simp at hm; exact absurd hm.symm hoo
          · simp at hm
      · intro hc
        rcases hold.mpr hc with hm | hm
        · exact Or.inl hm
        · exact Or.inr (Or.inl hm)
  · exact h.bound
  · intro o' hge
    simp only [List.count_cons] at hge ⊢
    by_cases hoo : o = o'
    · subst hoo; simp at hge ⊢; omega
    · have hb : (o == o') = false := by simpa using hoo
      simp only [hb, Bool.false_eq_true, if_false, Nat.add_zero] at hge ⊢
      exact h.obound o' hge

theorem emitted_cons (p : Pass) (ps : List Pass) (t : Nat) : emitted (p :: ps) t = refOf p.inputRefs t + emitted ps t := by
  simp [emitted]

/-- an operator visit that completes the operator and builds its pass -/
theorem vo_step_pass (hW : WFU G rk) (d : Dfs) (o : Nat) (rest : List Task) (hs : d.stack = .vo o :: rest) (h : DInvA G d)
    (heq : d.doneO.count o + 1 + unusedOutputs G o = (G.op o).outputs.length)
    (hty : startupInitOps.contains (G.op o).type = false) (p : Pass) (hp : buildPass Rules.current G o = .ok p) :
    DInvA G { d with stack := expandRefs p.inputRefs ++ rest, doneO := o :: d.doneO, passes := p :: d.passes } := by
  obtain ⟨S, hF⟩ := buildPass_facts hW hp
  constructor
  · intro p' hp'
    rcases List.mem_cons.mp hp' with rfl | hp'
    · exact ⟨o, S, hF, hty⟩
    · exact h.facts p' hp'
  · intro p' hp'
    rcases List.mem_cons.mp hp' with rfl | hp'
    · exact ⟨o, hp⟩
    · exact h.built p' hp'
  · exact h.startupT
  · intro t
    have := h.vt t
    rw [hs, count_vt_cons_vo] at this
    simp only [List.count_append, count_expandRefs p.inputRefs t hF.keys, emitted_cons]
    omega
  · intro o'
    have := h.vo o'
    rw [hs, count_vo_cons_vo] at this
    simp only [List.count_cons, List.count_append, expandRefs_only_vt]
    rw [show ((G.op o').outputs.filter (full G { d with stack := expandRefs p.inputRefs ++ rest, doneO := o :: d.doneO, passes := p :: d.passes })).length
        = ((G.op o').outputs.filter (full G d)).length from rfl]
    by_cases hoo : o = o'
    · subst hoo; simp at this ⊢; omega
    · have : (o == o') = false := by simpa using hoo
      simp_all
  · intro o'
    have hstarts : startsOf (p :: d.passes) = o :: startsOf d.passes := by
      simp [startsOf, List.filterMap_cons, hF.last]
    simp only [hstarts, List.count_cons, List.mem_cons]
    have hold := h.started o'
    by_cases hoo : o = o'
    · subst hoo
      simp only [beq_self_eq_true, if_true, true_or, true_iff]
      exact ⟨by omega, by omega⟩
    · have hb : (o == o') = false := by simpa using hoo
      simp only [hb, Bool.false_eq_true, if_false, Nat.add_zero]
      constructor
      · rintro ((hm | hm) | hm)
        · exact absurd hm.symm hoo
        · exact hold.mp (Or.inl hm)
        · exact hold.mp (Or.inr hm)
      · intro hc
        rcases hold.mpr hc with hm | hm
        · exact Or.inl (Or.inr hm)
        · exact Or.inr hm
  · exact h.bound
  · intro o' hge
    simp only [List.count_cons] at hge ⊢
    by_cases hoo : o = o'
    · subst hoo; simp at hge ⊢; omega
    · have hb : (o == o') = false := by simpa using hoo
      simp only [hb, Bool.false_eq_true, if_false, Nat.add_zero] at hge ⊢
      exact h.obound o' hge


@[simp] theorem dfs_fail_err (d : Dfs) (m : String) : (d.fail m).err = some m := rfl

/-- one step of the traversal, by cases -/
inductive StepCase (G : Graph) (d : Dfs) : Dfs → Prop
  | idle : d.stack = [] → StepCase G d d
  | vt (t : Nat) (rest : List Task) : d.stack = .vt t :: rest → d.doneT.count t + 1 ≤ (G.tensor t).consumers.length →
      StepCase G d { d with stack := (if d.doneT.count t + 1 == (G.tensor t).consumers.length then (G.tensor t).ops.reverse.map Task.vo else []) ++ rest,
                            doneT := t :: d.doneT }
  | voPlain (o : Nat) (rest : List Task) : d.stack = .vo o :: rest →
      d.doneO.count o + 1 + unusedOutputs G o ≤ (G.op o).outputs.length →
      (d.doneO.count o + 1 + unusedOutputs G o = (G.op o).outputs.length → startupInitOps.contains (G.op o).type = true) →
      StepCase G d { d with stack := rest, doneO := o :: d.doneO,
                            startup := d.startup ++ (if d.doneO.count o + 1 + unusedOutputs G o = (G.op o).outputs.length then [o] else []) }
  | voPass (o : Nat) (rest : List Task) (p : Pass) : d.stack = .vo o :: rest →
      d.doneO.count o + 1 + unusedOutputs G o = (G.op o).outputs.length → startupInitOps.contains (G.op o).type = false →
      buildPass Rules.current G o = .ok p →
      StepCase G d { d with stack := expandRefs p.inputRefs ++ rest, doneO := o :: d.doneO, passes := p :: d.passes }

theorem dfsStep_vt (d : Dfs) (t : Nat) (rest : List Task) (hs : d.stack = .vt t :: rest) :
    dfsStep Rules.current G d =
      (if d.doneT.count t + 1 > (G.tensor t).consumers.length then
        ({ d with stack := rest, doneT := t :: d.doneT } : Dfs).fail "assert visit_tensor_refcount[tens] <= len(tens.consumers())"
       else if d.doneT.count t + 1 == (G.tensor t).consumers.length then
        { d with stack := (G.tensor t).ops.reverse.map Task.vo ++ rest, doneT := t :: d.doneT }
       else { d with stack := rest, doneT := t :: d.doneT }) := by
  unfold dfsStep
  rw [hs]
  simp only [List.count_cons, beq_self_eq_true, if_true]

theorem dfsStep_vo (d : Dfs) (o : Nat) (rest : List Task) (hs : d.stack = .vo o :: rest) :
    dfsStep Rules.current G d =
      (if d.doneO.count o + 1 + unusedOutputs G o > (G.op o).outputs.length then
        ({ d with stack := rest, doneO := o :: d.doneO } : Dfs).fail "assert visit_op_refcount[op] <= len(op.outputs)"
       else if d.doneO.count o + 1 + unusedOutputs G o == (G.op o).outputs.length then
        dfsStart Rules.current G { d with stack := rest, doneO := o :: d.doneO } o
       else { d with stack := rest, doneO := o :: d.doneO }) := by
  unfold dfsStep
  rw [hs]
  simp only [List.count_cons, beq_self_eq_true, if_true]

theorem dfsStep_cases (d : Dfs) (herr : (dfsStep Rules.current G d).err = none) : StepCase G d (dfsStep Rules.current G d) := by
  cases hst : d.stack with
  | nil =>
    have : dfsStep Rules.current G d = d := by unfold dfsStep; rw [hst]
    rw [this]; exact StepCase.idle hst
  | cons task rest =>
    cases task with
    | vt t =>
      rw [dfsStep_vt d t rest hst] at herr ⊢
      by_cases hgt : d.doneT.count t + 1 > (G.tensor t).consumers.length
      · simp [hgt] at herr
      · simp only [hgt, if_false] at herr ⊢
        have hle : d.doneT.count t + 1 ≤ (G.tensor t).consumers.length := by omega
        have := StepCase.vt (G := G) (d := d) t rest hst hle
        by_cases heq : (d.doneT.count t + 1 == (G.tensor t).consumers.length) = true
        · simp only [heq, if_true] at this ⊢; exact this
        · have heq' : (d.doneT.count t + 1 == (G.tensor t).consumers.length) = false := by simpa using heq
          simp only [heq', Bool.false_eq_true, if_false, List.nil_append] at this ⊢; exact this
    | vo o =>
      rw [dfsStep_vo d o rest hst] at herr ⊢
      by_cases hgt : d.doneO.count o + 1 + unusedOutputs G o > (G.op o).outputs.length
      · simp [hgt] at herr
      · simp only [hgt, if_false] at herr ⊢
        have hle : d.doneO.count o + 1 + unusedOutputs G o ≤ (G.op o).outputs.length := by omega
        by_cases heq : (d.doneO.count o + 1 + unusedOutputs G o == (G.op o).outputs.length) = true
        · have heq' : d.doneO.count o + 1 + unusedOutputs G o = (G.op o).outputs.length := by simpa using heq
          simp only [heq, if_true] at herr ⊢
          by_cases hsu : startupInitOps.contains (G.op o).type = true
          · simp only [dfsStart, hsu, if_true]
            have := StepCase.voPlain (G := G) (d := d) o rest hst hle (fun _ => hsu)
            simp only [heq', if_true] at this; exact this
          · have hsu' : startupInitOps.contains (G.op o).type = false := by simpa using hsu
            cases hb : buildPass Rules.current G o with
            | error e =>
              simp only [dfsStart, hsu', hb, Bool.false_eq_true, if_false] at herr
              simp at herr
            | ok p =>
              simp only [dfsStart, hsu', hb, Bool.false_eq_true, if_false]
              exact StepCase.voPass o rest p hst heq' hsu' hb
        · have heq' : (d.doneO.count o + 1 + unusedOutputs G o == (G.op o).outputs.length) = false := by simpa using heq
          have hne : ¬ d.doneO.count o + 1 + unusedOutputs G o = (G.op o).outputs.length := by simpa using heq'
          simp only [heq', Bool.false_eq_true, if_false]
          have := StepCase.voPlain (G := G) (d := d) o rest hst hle (fun h => absurd h hne)
          simp only [hne, if_false, List.append_nil] at this; exact this

theorem dfsStep_invA (hW : WFU G rk) (d : Dfs) (h : DInvA G d) (herr : (dfsStep Rules.current G d).err = none) :
    DInvA G (dfsStep Rules.current G d) := by
  have hc := dfsStep_cases d herr
  generalize dfsStep Rules.current G d = d' at hc
  cases hc with
  | idle _ => exact h
  | vt t rest hs hle => exact vt_step hW d t rest hs h hle
  | voPlain o rest hs hle hty => exact vo_step_plain d o rest hs h hle _ rfl hty
  | voPass o rest p hs heq hty hp => exact vo_step_pass hW d o rest hs h heq hty p hp

end VelaVerif.Lemmas.PassPackingDfs
