import VelaVerif.Model.Blockdep
/-!
# Lemmas for `Model/Blockdep.lean`: what the two nested loops of `calc_blockdep` guarantee
-/
namespace VelaVerif.Lemmas.Blockdep
open VelaVerif.Gen VelaVerif.NpuAccess VelaVerif.Blockdep

/-- the inner loop counts leading previous-OFM blocks that exist and do not intersect -/
theorem inner_spec (c : LoopCtx) (ia : Area) :
    ∀ (ks : List Nat) (n : Nat), innerLoop c ia ks = some n →
      n ≤ ks.length ∧ ∀ i (_ : i < n) (hl : i < ks.length), ∃ oa, c.outArea ks[i] = some (some oa) ∧ c.hit ia oa = false
  | [], n, h => by
    simp only [innerLoop, Option.some.injEq] at h
    subst h
    exact ⟨Nat.le_refl _, fun i hi => absurd hi (Nat.not_lt_zero _)⟩
  | k :: ks, n, h => by
    simp only [innerLoop] at h
    cases ho : c.outArea k with
    | none => simp [ho] at h
    | some o =>
      cases o with
      | none =>
        simp only [ho, Option.some.injEq] at h
        subst h
        exact ⟨Nat.zero_le _, fun i hi => absurd hi (Nat.not_lt_zero _)⟩
      | some oa =>
        simp only [ho] at h
        by_cases hh : c.hit ia oa = true
        · simp only [hh, if_true, Option.some.injEq] at h
          subst h
          exact ⟨Nat.zero_le _, fun i hi => absurd hi (Nat.not_lt_zero _)⟩
        · simp only [hh, Bool.false_eq_true, if_false, Option.map_eq_some_iff] at h
          obtain ⟨m, hm, rfl⟩ := h
          obtain ⟨hlen, hall⟩ := inner_spec c ia ks m hm
          refine ⟨by simp only [List.length_cons]; omega, ?_⟩
          intro i hi hl
          cases i with
          | zero => exact ⟨oa, by simpa using ho, by simpa using hh⟩
          | succ j =>
            have := hall j (by omega) (by simp only [List.length_cons] at hl; omega)
            simpa using this

/-- the outer loop: the result is below the start value and below `f + outstanding(f)` for every forward
    offset that is reached -/
theorem outer_spec (c : LoopCtx) :
    ∀ (fs : List Nat) (bd0 bd : Nat), (∀ f ∈ fs, f + 1 ≤ maxBlockdep) → outerLoop c fs bd0 = some bd →
      bd ≤ bd0 ∧ ∀ (pre : List Nat) (f : Nat) (post : List Nat), fs = pre ++ f :: post →
        (∀ g ∈ pre, c.inArea g ≠ some none) → ∀ ia, c.inArea f = some (some ia) →
          ∃ n, innerLoop c ia (List.range maxBlockdep) = some n ∧ bd ≤ f + n
  | [], bd0, bd, _, h => by
    simp only [outerLoop, Option.some.injEq] at h
    subst h
    exact ⟨Nat.le_refl _, fun pre f post he => by simp at he⟩
  | g :: fs, bd0, bd, hb, h => by
    simp only [outerLoop] at h
    cases hg : c.inArea g with
    | none => simp [hg] at h
    | some o =>
      cases o with
      | none =>
        simp only [hg, Option.some.injEq] at h
        subst h
        refine ⟨Nat.le_refl _, ?_⟩
        intro pre f post he hpre ia hia
        cases pre with
        | nil =>
          simp only [List.nil_append, List.cons.injEq] at he
          rw [← he.1, hg] at hia
          simp at hia
        | cons p pre' =>
          simp only [List.cons_append, List.cons.injEq] at he
          exact absurd (he.1 ▸ hg) (hpre p (List.mem_cons_self ..))
      | some ia0 =>
        simp only [hg] at h
        cases hin : innerLoop c ia0 (List.range maxBlockdep) with
        | none => simp [hin] at h
        | some n0 =>
          simp only [hin] at h
          have hg1 : ¬ (g + 1 > maxBlockdep) := by
            have := hb g (List.mem_cons_self ..); omega
          simp only [hg1, if_false] at h
          obtain ⟨hle, hall⟩ := outer_spec c fs (min bd0 (g + n0)) bd
            (fun f hf => hb f (List.mem_cons_of_mem _ hf)) h
          refine ⟨by omega, ?_⟩
          intro pre f post he hpre ia hia
          cases pre with
          | nil =>
            simp only [List.nil_append, List.cons.injEq] at he
            obtain ⟨rfl, _⟩ := he
            rw [hg] at hia
            simp only [Option.some.injEq] at hia
            subst hia
            exact ⟨n0, hin, by omega⟩
          | cons p pre' =>
            simp only [List.cons_append, List.cons.injEq] at he
            exact hall pre' f post he.2 (fun q hq => hpre q (List.mem_cons_of_mem _ hq)) ia hia

theorem gobc_mono {size blk : Blk3} {qf qg : Int} {p : Pt}
    (h : getOffsetBlockCoords size blk qf = some (some p)) (h0 : 0 ≤ qg) (hle : qg ≤ qf) :
    getOffsetBlockCoords size blk qg ≠ some none := by
  unfold getOffsetBlockCoords at h ⊢
  simp only at h ⊢
  by_cases hblk : blk.width ≤ 0 ∨ blk.height ≤ 0 ∨ blk.depth ≤ 0
  · simp [hblk] at h
  · have hqf : ¬ qf < 0 := by omega
    have hqg : ¬ qg < 0 := by omega
    simp only [hblk, hqf, hqg, if_false] at h ⊢
    generalize roundUpDivide size.width blk.width * roundUpDivide size.height blk.height *
      roundUpDivide size.depth blk.depth = T at h ⊢
    by_cases hidx : qf ≥ T
    · simp [hidx] at h
    · have hg : ¬ qg ≥ T := by omega
      simp only [hg, if_false]
      split <;> simp

/-- if forward offset `f` has an input volume, no smaller offset reports "no such job" -/
theorem inArea_mono (c : LoopCtx) {f g : Nat} {ia : Area} (hf : c.inArea f = some (some ia)) (hgf : g ≤ f) :
    c.inArea g ≠ some none := by
  unfold LoopCtx.inArea getFirstJobInputVolume at hf ⊢
  simp only at hf ⊢
  by_cases hd : c.curIfmBlockDepth ≤ 0
  · simp [hd] at hf
  · by_cases hdb : roundUpDivide c.curIfmSize.depth c.curIfmBlockDepth ≤ 0
    · simp [hd, hdb] at hf
    · simp only [hd, hdb, if_false] at hf ⊢
      have hpos : (0 : Int) < roundUpDivide c.curIfmSize.depth c.curIfmBlockDepth := by omega
      generalize roundUpDivide c.curIfmSize.depth c.curIfmBlockDepth = idb at hf hpos ⊢
      have hle : (g : Int) / idb ≤ (f : Int) / idb := Int.ediv_le_ediv hpos (by exact_mod_cast hgf)
      have hg0 : (0 : Int) ≤ (g : Int) / idb := Int.ediv_nonneg (by omega) (by omega)
      cases hqf : getOffsetBlockCoords c.curOfmSize c.curOfmBlock ((f : Int) / idb) with
      | none => simp [hqf] at hf
      | some o =>
        cases o with
        | none => simp [hqf] at hf
        | some p =>
          have := gobc_mono hqf hg0 hle
          cases hqg : getOffsetBlockCoords c.curOfmSize c.curOfmBlock ((g : Int) / idb) with
          | none => simp
          | some o' =>
            cases o' with
            | none => exact absurd hqg this
            | some p' => simp

theorem range_split {n f : Nat} (h : f < n) :
    List.range n = List.range f ++ f :: List.range' (f + 1) (n - (f + 1)) := by
  have e : n = f + (1 + (n - (f + 1))) := by omega
  have h1 : List.range n = List.range' 0 f ++ List.range' (0 + f) (1 + (n - (f + 1))) := by
    rw [List.range'_append_1, ← e, List.range_eq_range']
  rw [h1, List.range_eq_range']
  congr 1
  rw [Nat.add_comm 1, List.range'_succ]
  simp

/-- **BLOCKDEP of the loop path is safe with respect to the model's own intersection test.** -/
theorem loop_safe (c : LoopCtx) (bd : Nat) (h : outerLoop c (List.range maxBlockdep) maxBlockdep = some bd)
    (f k : Nat) (hfk : f + k < bd) (ia oa : Area)
    (hi : c.inArea f = some (some ia)) (ho : c.outArea k = some (some oa)) : c.hit ia oa = false := by
  have hb : ∀ g ∈ List.range maxBlockdep, g + 1 ≤ maxBlockdep := by
    intro g hg; have := List.mem_range.mp hg; omega
  obtain ⟨hle, hall⟩ := outer_spec c _ _ _ hb h
  have hf : f < maxBlockdep := by omega
  have hsplit := range_split hf
  obtain ⟨n, hin, hbn⟩ := hall _ f _ hsplit
    (fun g hg => inArea_mono c hi (Nat.le_of_lt (List.mem_range.mp hg))) ia hi
  obtain ⟨hnl, hks⟩ := inner_spec c ia _ n hin
  have hkn : k < n := by omega
  have hkl : k < (List.range maxBlockdep).length := by simp only [List.length_range] at hnl ⊢; omega
  obtain ⟨oa', ho', hh⟩ := hks k hkn hkl
  simp only [List.getElem_range] at ho'
  rw [ho] at ho'
  simp only [Option.some.injEq] at ho'
  subst ho'
  exact hh

theorem outer_le (c : LoopCtx) (bd : Nat) (h : outerLoop c (List.range maxBlockdep) maxBlockdep = some bd) :
    bd ≤ maxBlockdep :=
  (outer_spec c _ _ _ (fun g hg => by have := List.mem_range.mp hg; omega) h).1

/-! ## the input volume of a forward job contains the receptive field of its OFM block -/

theorem roundUp_ge (x u : Int) (hu : 0 < u) : x ≤ roundUp x u := by
  unfold roundUp
  have h1 := Int.emod_add_mul_ediv (x + u - 1) u
  have h0 := Int.emod_nonneg (x + u - 1) (Int.ne_of_gt hu)
  have h2 := Int.emod_lt_of_pos (x + u - 1) hu
  have h3 : (x + u - 1) / u * u = u * ((x + u - 1) / u) := Int.mul_comm _ _
  omega

/-- With the y start taken from `padding.top`: the volume `get_first_job_input_volume` returns for the OFM block
    at `oc` starts exactly where the receptive field of the block starts (clipped at 0) and ends at or after the
    last row / column the block needs, `oc·stride + (block−1)·stride + dilated kernel − padding` (for kernels up to
    the sub-kernel limit the function is called with); its depth range is the job's IFM depth slice. -/
theorem firstJob_covers (a : AccRow) (ifmSize ofmSize : Blk3) (ibd : Int) (blk : Blk3) (k : Kernel) (p : Padding)
    (f : Int) (ar : Area)
    (h : getFirstJobInputVolume a ifmSize ofmSize ibd blk k p f = some (some ar))
    (hkh : (k.height - 1) * k.dilationY + 1 ≤ a.ofmBlockMax.height)
    (hkw : (k.width - 1) * k.dilationX + 1 ≤ a.ofmBlockMax.width)
    (huh : 0 < a.ifmUblock.height) (huw : 0 < a.ifmUblock.width) :
    ∃ oc, getOffsetBlockCoords ofmSize blk (f / roundUpDivide ifmSize.depth ibd) = some (some oc) ∧
      ar.start.y = max 0 (oc.y * k.strideY - p.top) ∧
      oc.y * k.strideY + (blk.height - 1) * k.strideY + ((k.height - 1) * k.dilationY + 1) - p.top ≤ ar.stop.y ∧
      ar.start.x = max 0 (oc.x * k.strideX - p.left) ∧
      oc.x * k.strideX + (blk.width - 1) * k.strideX + ((k.width - 1) * k.dilationX + 1) - p.left ≤ ar.stop.x ∧
      ar.start.z = (f % roundUpDivide ifmSize.depth ibd) * ibd ∧ ar.stop.z = ar.start.z + ibd := by
  unfold getFirstJobInputVolume at h
  simp only at h
  by_cases hd : ibd ≤ 0
  · simp [hd] at h
  · by_cases hdb : roundUpDivide ifmSize.depth ibd ≤ 0
    · simp [hd, hdb] at h
    · simp only [hd, hdb, if_false] at h
      cases hq : getOffsetBlockCoords ofmSize blk (f / roundUpDivide ifmSize.depth ibd) with
      | none => simp [hq] at h
      | some o =>
        cases o with
        | none => simp [hq] at h
        | some oc =>
          simp only [hq, Option.some.injEq] at h
          subst h
          refine ⟨oc, rfl, ?_⟩
          simp only [getIfmBlockSize]
          have r1 := roundUp_ge ((blk.height - 1) * k.strideY +
            min (↑a.ofmBlockMax.height) ((k.height - 1) * k.dilationY + 1)) a.ifmUblock.height (by exact_mod_cast huh)
          have r2 := roundUp_ge ((blk.width - 1) * k.strideX +
            min (↑a.ofmBlockMax.width) ((k.width - 1) * k.dilationX + 1)) a.ifmUblock.width (by exact_mod_cast huw)
          simp only [Int.zero_add]
          refine ⟨trivial, ?_, trivial, ?_, trivial, trivial⟩ <;> omega

/-! ## witness operations (used in `Props/C04.lean`) -/

def witFm (addr : Int) : FMap :=
  { region := 1, nhcwb16 := false, elemBytes := 1, shape := ⟨4, 8, 16⟩, tiles := ⟨4, 4, 8, addr, 0, 0, 0⟩, strides := none }

/-- ABS 4×8×16 → 4×8×16 with OFM blocks of one row -/
def witPrev : BlockOp :=
  { isConv2D := false, ifm := witFm 0, ifm2 := none, ifm2Scalar := false, ofm := witFm 4096, kernel := none, padding := none,
    weights := [], biases := [], usesLut := false, blockConfig := ⟨1, 8, 16⟩, ifmBits := 8 }

/-- Conv2D 3 wide × 1 high, SAME padding `NpuPadding(top=0, left=1, bottom=0, right=…)`, OFM blocks of two rows -/
def witOp (right : Int) : BlockOp :=
  { isConv2D := true, ifm := witFm 4096, ifm2 := none, ifm2Scalar := false, ofm := witFm 8192,
    kernel := some ⟨3, 1, 1, 1, 1, 1⟩, padding := some ⟨0, 1, 0, right⟩,
    weights := [⟨0, 0, 1024⟩], biases := [⟨0, 4096, 160⟩], usesLut := false, blockConfig := ⟨2, 8, 16⟩, ifmBits := 8 }

def witAcc : AccRow := (accelerators.find? (·.name = "ethos-u55-128")).getD default

end VelaVerif.Lemmas.Blockdep
