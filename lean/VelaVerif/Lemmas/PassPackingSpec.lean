import VelaVerif.Spec.PassPacking
/-!
# The executable twins of the Spec clauses of `Spec/PassPacking.lean` mean what the `Prop`s say
-/
namespace VelaVerif.Lemmas.PassPackingSpec
open VelaVerif.PassPacking VelaVerif.Gen.PassPacking VelaVerif.PassPackingSpec

theorem partitionB_iff (G : Graph) (ps : List SPass) : partitionB G ps = true ↔ Partition G ps := by
  unfold partitionB Partition
  simp only [Bool.and_eq_true, List.all_eq_true, List.mem_range, beq_iff_eq, decide_eq_true_eq]

theorem topoB_iff (G : Graph) (ps : List SPass) : topoB G ps = true ↔ TopoOrder G ps := by
  unfold topoB TopoOrder
  simp only [List.all_eq_true, List.mem_range]
  constructor
  · intro h j c hj pr hpr
    have hjlt : j < (flat ps).length := by
      rcases Nat.lt_or_ge j (flat ps).length with h' | h'
      · exact h'
      · rw [List.getElem?_eq_none h'] at hj; simp at hj
    have := h j hjlt
    rw [hj] at this
    simp only [List.all_eq_true] at this
    exact List.contains_iff_mem.mp (this pr hpr)
  · intro h j _
    cases hj : (flat ps)[j]? with
    | none => rfl
    | some c =>
      simp only [List.all_eq_true]
      intro pr hpr
      exact List.contains_iff_mem.mpr (h j c hj pr hpr)

theorem neededStep_sound (G : Graph) (l : List Nat) (hl : ∀ o ∈ l, Needed G o) : ∀ o ∈ neededStep G l, Needed G o := by
  intro o ho
  unfold neededStep at ho
  obtain ⟨_, hcond⟩ := List.mem_filter.mp ho
  simp only [Bool.or_eq_true, List.any_eq_true] at hcond
  rcases hcond with h | ⟨t, ht, c, hc, hcc⟩
  · exact hl o (List.contains_iff_mem.mp h)
  · cases c with
    | none => exact Needed.out o t ht hc
    | some c => exact Needed.step o t c ht hc (hl c (List.contains_iff_mem.mp hcc))

theorem neededIter_sound (G : Graph) : ∀ (n : Nat) (l : List Nat), (∀ o ∈ l, Needed G o) → ∀ o ∈ neededIter G n l, Needed G o
  | 0, l, hl => hl
  | n + 1, l, hl => neededIter_sound G n (neededStep G l) (neededStep_sound G l hl)

/-- **the executable well-formedness check is sound** (the acyclicity witness is "rank = operator number") -/
theorem wfB_sound (G : Graph) (h : wfB G = true) : WF G := by
  unfold wfB at h
  simp only [Bool.and_eq_true, List.all_eq_true, List.mem_range, decide_eq_true_eq, beq_iff_eq] at h
  obtain ⟨⟨⟨⟨⟨⟨⟨⟨⟨⟨h1, h2⟩, h3⟩, h4⟩, h5⟩, h6⟩, h7⟩, h8⟩, h9⟩, h10⟩, h11⟩ := h
  constructor
  · intro o ho t ht
    have := (h1 o ho).1 (some t) ht
    simpa using this
  · intro o ho t ht; exact (h1 o ho).2 t ht
  · intro t ht p hp; exact (h2 t ht).1 p hp
  · intro t ht c hc
    have := (h2 t ht).2 (some c) hc
    simpa using this
  · exact h3
  · intro o ho t ht
    have := h4 o ho t ht
    constructor
    · intro hm
      have h' : (G.tensor t).ops.contains o = true := List.contains_iff_mem.mpr hm
      rw [this] at h'; exact List.contains_iff_mem.mp h'
    · intro hm
      have h' : (G.op o).outputs.contains t = true := List.contains_iff_mem.mpr hm
      rw [← this] at h'; exact List.contains_iff_mem.mp h'
  · exact h5
  · exact h6
  · intro t ht c hc; exact (h7 t ht).1 c hc
  · intro t ht; exact (h7 t ht).2
  · exact ⟨id, fun c hc pr hpr => h8 c hc pr hpr⟩
  · intro o ho
    exact neededIter_sound G G.ops.length [] (by simp) o (List.contains_iff_mem.mp (h9 o ho))
  · intro o ho hst
    have := h10 o ho
    simp only [Bool.or_eq_true, Bool.not_eq_true', List.isEmpty_iff] at this
    rcases this with h' | h'
    · rw [hst] at h'; exact Bool.noConfusion h'
    · exact h'
  · intro c hc t u ht hu hne pr hp1 hp2
    have := h11 c hc (some t) ht (some u) hu
    simp only [Bool.or_eq_true, beq_iff_eq, List.all_eq_true, Bool.not_eq_true'] at this
    rcases this with h' | h'
    · exact hne h'
    · have := h' pr hp1
      rw [List.contains_iff_mem.mpr hp2] at this; exact Bool.noConfusion this

end VelaVerif.Lemmas.PassPackingSpec
