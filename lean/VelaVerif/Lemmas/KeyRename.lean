import VelaVerif.Model.Caches
/-!
Renaming the literal atoms of every key with an injective function commutes with `run`: a compilation only ever
compares keys. This is what "`hash(str(depth_offsets))` is used only as a dictionary key" buys: another
`PYTHONHASHSEED` is another injective numbering (collisions aside) of the same literals.
-/
namespace VelaVerif.Caches

def mapTKey (f : Nat → Nat) (tk : TKey) : TKey := ⟨tk.scope, mapKey f tk.key⟩

def mapState (f : Nat → Nat) (st : State) : State :=
  { st with memo := st.memo.map (fun e => ((e.1.1, mapTKey f e.1.2), e.2)),
            addr := st.addr.map (fun e => (mapTKey f e.1, e.2)) }

variable {f : Nat → Nat}

theorem Atom.mapLit_inj (hf : ∀ a b, f a = f b → a = b) : ∀ x y : Atom, x.mapLit f = y.mapLit f → x = y := by
  intro x y h
  cases x <;> cases y <;> simp [Atom.mapLit] at h ⊢
  · exact hf _ _ h
  all_goals exact h

theorem mapKey_inj (hf : ∀ a b, f a = f b → a = b) : ∀ k k' : PKey, mapKey f k = mapKey f k' → k = k' := by
  intro k
  induction k with
  | nil => intro k' h; cases k' with
    | nil => rfl
    | cons _ _ => simp [mapKey] at h
  | cons x t ih =>
    intro k' h
    cases k' with
    | nil => simp [mapKey] at h
    | cons y t' =>
      simp only [mapKey, List.map_cons, List.cons.injEq] at h
      rw [Atom.mapLit_inj hf x y h.1, ih t' h.2]

theorem mapTKey_inj (hf : ∀ a b, f a = f b → a = b) (a b : TKey) (h : mapTKey f a = mapTKey f b) : a = b := by
  cases a with | mk sa ka => cases b with | mk sb kb =>
  simp only [mapTKey, TKey.mk.injEq] at h
  rw [h.1, mapKey_inj hf ka kb h.2]

theorem isLocal_mapKey (k : PKey) : isLocal (mapKey f k) = isLocal k := by
  induction k with
  | nil => rfl
  | cons x t ih =>
    have hx : (x.mapLit f).isLoc = x.isLoc := by cases x <;> rfl
    simp only [isLocal, mapKey, List.map_cons, List.any_cons] at ih ⊢
    rw [hx, ih]

theorem memoAtoms_mapKey (k : PKey) : memoAtoms (mapKey f k) = memoAtoms k := by
  induction k with
  | nil => rfl
  | cons x t ih =>
    simp only [memoAtoms, mapKey, List.map_cons, List.filterMap_cons] at ih ⊢
    cases x <;> simp [Atom.mapLit, ih]

theorem tkey_mapKey (g : Nat) (k : PKey) : tkey g (mapKey f k) = mapTKey f (tkey g k) := by
  simp [tkey, mapTKey, isLocal_mapKey]

theorem lookup_map_inj {κ ν : Type} [DecidableEq κ] (m : κ → κ) (hm : ∀ a b, m a = m b → a = b) (k : κ) (l : List (κ × ν)) :
    lookup (m k) (l.map (fun e => (m e.1, e.2))) = lookup k l := by
  induction l with
  | nil => rfl
  | cons e t ih =>
    obtain ⟨k', v⟩ := e
    simp only [List.map_cons, lookup]
    by_cases h : k = k'
    · subst h; simp
    · have : m k ≠ m k' := fun hh => h (hm _ _ hh)
      rw [if_neg this, if_neg h]; exact ih

theorem lookup_memo_mapState (hf : ∀ a b, f a = f b → a = b) (st : State) (s : Store) (tk : TKey) :
    lookup (s, mapTKey f tk) (mapState f st).memo = lookup (s, tk) st.memo := by
  have := lookup_map_inj (ν := Val) (fun (p : Store × TKey) => (p.1, mapTKey f p.2))
    (by intro a b h; cases a; cases b; simp only [Prod.mk.injEq] at h ⊢; exact ⟨h.1, mapTKey_inj hf _ _ h.2⟩) (s, tk) st.memo
  exact this

theorem lookup_addr_mapState (hf : ∀ a b, f a = f b → a = b) (st : State) (tk : TKey) :
    lookup (mapTKey f tk) (mapState f st).addr = lookup tk st.addr :=
  lookup_map_inj (ν := Nat) (mapTKey f) (mapTKey_inj hf) tk st.addr

theorem noteMemo_mapState (st : State) (k : PKey) :
    noteMemo (mapState f st) (mapKey f k) = mapState f (noteMemo st k) := by
  simp [noteMemo, mapState, memoAtoms_mapKey]

/-- `run` commutes with an injective renaming of the literals in every key -/
theorem run_mapLit {α : Type} (hf : ∀ a b, f a = f b → a = b) (p : Prog α) :
    ∀ st, run (p.mapLit f) (mapState f st) = ((run p st).1, mapState f (run p st).2) := by
  induction p with
  | ret a => intro st; rfl
  | memo s k v cont ih =>
    intro st
    rw [Prog.mapLit, run, run]
    have hg : (mapState f st).gen = st.gen := rfl
    rw [hg, tkey_mapKey, lookup_memo_mapState hf]
    cases lookup (s, tkey st.gen k) st.memo with
    | some v' => simp only []; rw [noteMemo_mapState]; exact ih v' _
    | none =>
      simp only []
      rw [noteMemo_mapState]
      exact ih v (insMemo (noteMemo st k) s (tkey st.gen k) v)
  | assign k a next ih =>
    intro st
    rw [Prog.mapLit, run, run]
    have hg : (mapState f st).gen = st.gen := rfl
    rw [hg, tkey_mapKey, lookup_addr_mapState hf]
    cases lookup (tkey st.gen k) st.addr with
    | some a' =>
      simp only []
      by_cases ha : a' = a
      · rw [if_pos ha, if_pos ha, noteMemo_mapState]; exact ih _
      · rw [if_neg ha, if_neg ha]
    | none =>
      simp only []
      rw [noteMemo_mapState]
      exact ih (insAddr (noteMemo st k) (tkey st.gen k) a)
  | addrOf k cont ih =>
    intro st
    rw [Prog.mapLit, run, run]
    have hg : (mapState f st).gen = st.gen := rfl
    rw [hg, tkey_mapKey, lookup_addr_mapState hf]
    exact ih _ st
  | log row next ih =>
    intro st
    rw [Prog.mapLit, run, run]
    exact ih (logRow st row)
  | dump cont ih =>
    intro st
    rw [Prog.mapLit, run, run]
    exact ih _ st

theorem prepare_mapState (e : Entry) (st : State) : prepare e (mapState f st) = mapState f (prepare e st) := by
  cases e <;> simp [prepare, mapState, List.filter_map, Function.comp_def]

theorem compile_mapLit {ρ ω : Type} (hf : ∀ a b, f a = f b → a = b) (prog : ρ → Prog ω) (e : Entry) (st : State) (rq : ρ) :
    compile (fun r => (prog r).mapLit f) e (mapState f st) rq =
      ((compile prog e st rq).1, mapState f (compile prog e st rq).2) := by
  unfold compile
  simp only []
  rw [prepare_mapState, run_mapLit hf (prog rq) (prepare e st)]
  rcases run (prog rq) (prepare e st) with ⟨o, st'⟩
  cases o with
  | none => rfl
  | some o => cases e <;> rfl

theorem after_mapLit {ρ ω : Type} (hf : ∀ a b, f a = f b → a = b) (prog : ρ → Prog ω) (h : List (Entry × ρ)) :
    ∀ st, after (fun r => (prog r).mapLit f) h (mapState f st) = mapState f (after prog h st) := by
  induction h with
  | nil => intro st; rfl
  | cons er t ih =>
    intro st
    show after _ t (compile (fun r => (prog r).mapLit f) er.1 (mapState f st) er.2).2 = mapState f (after prog t (compile prog er.1 st er.2).2)
    rw [compile_mapLit hf]
    exact ih _

end VelaVerif.Caches
