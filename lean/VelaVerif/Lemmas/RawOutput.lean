import VelaVerif.Model.RawOutput
import VelaVerif.Spec.RawOutput
/-!
# Helper lemmas for `Props/C12Raw.lean` (the raw output, `Model/RawOutput.lean` / `Spec/RawOutput.lean`)
-/
namespace VelaVerif.Props.C12Raw
open VelaVerif VelaVerif.Serialise VelaVerif.Reported VelaVerif.RawOutput

theorem writeRaw_ok (arch : Arch) (c w s f : OpTensor) (ins outs : List OpTensor) (z : Npz)
    (h : writeRaw arch (c :: w :: s :: f :: ins) outs = .ok z) :
    z.cmdData = c.values ∧ z.weightData = w.values ∧ z.scratchShape = s.shape ∧ z.scratchFastShape = f.shape ∧
    getRegion arch w.memType = some z.weightRegion ∧ getRegion arch s.memType = some z.scratchRegion ∧
    getRegion arch f.memType = some z.scratchFastRegion ∧ ioOf arch ins = .ok z.input ∧ ioOf arch outs = .ok z.output := by
  unfold writeRaw writeRawG at h
  simp only [Bool.false_eq_true, if_false] at h
  split at h
  · rename_i wr sr fr hwr hsr hfr
    split at h
    · cases h
    · rename_i i hi
      split at h
      · cases h
      · rename_i o ho
        split at h
        · cases h
        · simp only [Except.ok.injEq] at h
          subst h
          exact ⟨rfl, rfl, rfl, rfl, hwr, hsr, hfr, hi, ho⟩
  · cases h

theorem regionsOf_map (arch : Arch) (ts : List OpTensor) (rs : List Nat) (h : regionsOf arch ts = some rs) :
    ts.map (fun t => getRegion arch t.memType) = rs.map some := by
  induction ts generalizing rs with
  | nil => simp only [regionsOf, Option.some.injEq] at h; subst h; rfl
  | cons t ts ih =>
    simp only [regionsOf] at h
    split at h
    · rename_i r rs' hr hrs
      simp only [Option.some.injEq] at h
      subst h
      simp only [List.map_cons, hr, ih rs' hrs]
    · cases h

/-- the four lists of a direction are the tensors' own shape / element size / region / address, in operand order -/
theorem ioOf_lists (arch : Arch) (ts : List OpTensor) (i : Io) (h : ioOf arch ts = .ok i) :
    i.shapes = ts.map (·.shape) ∧ i.elemSizes = ts.map (·.elemSize) ∧ i.offsets = ts.map (·.address) ∧
    i.regions.map some = ts.map (fun t => getRegion arch t.memType) := by
  unfold ioOf at h
  split at h
  · cases h
  · rename_i rs hrs
    simp only [Except.ok.injEq] at h
    subst h
    exact ⟨rfl, rfl, rfl, (regionsOf_map arch ts rs hrs).symm⟩

/-- the command-stream tensor every NPU subgraph gets: the driver payload of its register command stream -/
theorem serialise_cmd (arch : Arch) (sg : Sg) (s q f : Option MemTensor) (r : Result) (hnpu : sg.isNpu = true)
    (h : serialise arch sg s q f = .ok r) :
    ∃ payload, Payload.createDriverPayload arch.acc sg.words = .ok payload ∧
      r.cmd = some { mkMem arch.flashArea .permanentCPU payload.length true with values := some payload } := by
  unfold serialise at h
  simp only [hnpu, Bool.not_true, Bool.false_eq_true, if_false] at h
  cases hp : Payload.createDriverPayload arch.acc sg.words with
  | error e => rw [hp] at h; cases h
  | ok payload =>
    rw [hp] at h
    refine ⟨payload, rfl, ?_⟩
    simp only at h
    repeat' split at h
    all_goals first
      | (cases h; rfl)
      | cases h

open VelaVerif.Spec.RawOutput in
theorem sizeOf_one (Z : RawSizes) (n : Nat) (h1 : Z.scratchRegion = 1) (h2 : Z.scratchShape = [n]) : Z.sizeOf 1 = some (some n) := by
  simp [RawSizes.sizeOf, h1, h2]

open VelaVerif.Spec.RawOutput in
theorem sizeOf_two (Z : RawSizes) (n : Nat) (h1 : Z.scratchRegion = 1) (h3 : Z.fastRegion = 2) (h4 : Z.fastShape = [n]) :
    Z.sizeOf 2 = some (some n) := by
  simp [RawSizes.sizeOf, h1, h3, h4]

open VelaVerif.Spec.RawOutput in
theorem sizeOf_zero (Z : RawSizes) (b : Bool) (h1 : Z.scratchRegion = 1) (h3 : Z.fastRegion = (if b then 2 else 1)) : Z.sizeOf 0 = none := by
  cases b <;> simp [RawSizes.sizeOf, h1, h3]

open VelaVerif.Spec.RawOutput in
theorem ioProblem_none (z : RawSizes) (what : String) (i : Nat) (t : RawIo) (h : ioProblem z what i t = none) : Inside z t := by
  intro sz hsz
  unfold ioProblem at h
  rw [hsz] at h
  cases sz with
  | none => cases h
  | some n =>
    simp only at h
    cases ho : t.offset with
    | none => rw [ho] at h; cases h
    | some a =>
      rw [ho] at h
      simp only at h
      split at h
      · cases h
      · exact ⟨n, a, rfl, rfl, by omega⟩

def prod (s : List Nat) : Nat := s.foldl (· * ·) 1

theorem foldl_mul_replicate_one (k : Nat) (s : List Nat) (a : Nat) :
    (List.replicate k 1 ++ s).foldl (· * ·) a = s.foldl (· * ·) a := by
  induction k generalizing a with
  | zero => rfl
  | succ k ih => simp only [List.replicate_succ, List.cons_append, List.foldl_cons, Nat.mul_one]; exact ih a

theorem foldl_max_le (l : List (List Nat)) (L m : Nat) (hm : m ≤ L) (h : ∀ s ∈ l, s.length = L) :
    l.foldl (fun m s => max m s.length) m ≤ L := by
  induction l generalizing m with
  | nil => exact hm
  | cons s rest ih =>
    simp only [List.foldl_cons]
    apply ih
    · have := h s (by simp); omega
    · intro x hx; exact h x (by simp [hx])

theorem padShapes_sameRank (l : List (List Nat)) (h : sameRank l = true) : padShapes l = l := by
  cases l with
  | nil => rfl
  | cons s rest =>
    simp only [sameRank, List.all_eq_true, beq_iff_eq] at h
    have hall : ∀ x ∈ s :: rest, x.length = s.length := by
      intro x hx
      rcases List.mem_cons.mp hx with rfl | hx
      · rfl
      · exact h x hx
    have hle := foldl_max_le (s :: rest) s.length 0 (Nat.zero_le _) hall
    unfold padShapes
    simp only
    conv => rhs; rw [← List.map_id (s :: rest)]
    apply List.map_congr_left
    intro x hx
    have := hall x hx
    have h0 : List.foldl (fun m s => max m s.length) 0 (s :: rest) - x.length = 0 := by omega
    rw [h0]; rfl

theorem filterMap_zipIdx_nil {α β : Type} (l : List α) (f : α × Nat → Option β) (k : Nat) (h : (l.zipIdx k).filterMap f = []) :
    ∀ t ∈ l, ∃ i, f (t, i) = none := by
  induction l generalizing k with
  | nil => intro t ht; cases ht
  | cons a l ih =>
    intro t ht
    simp only [List.zipIdx_cons, List.filterMap_cons] at h
    cases hf : f (a, k) with
    | some b => rw [hf] at h; cases h
    | none =>
      rw [hf] at h
      rcases List.mem_cons.mp ht with rfl | ht
      · exact ⟨k, hf⟩
      · exact ih (k + 1) h t ht

end VelaVerif.Props.C12Raw
