import VelaVerif.Model.Caches
/-! Helper lemmas about `emitOrder` (sort by key, ties by position): permutation, sortedness, stability. -/
namespace VelaVerif.Caches

variable {α : Type} (key : α → Nat)

def KeySorted (l : List α) : Prop := l.Pairwise (fun a b => key a ≤ key b)

theorem insertBy_perm (a : α) (l : List α) : (insertBy key a l).Perm (a :: l) := by
  induction l with
  | nil => exact List.Perm.refl _
  | cons b t ih =>
    unfold insertBy
    by_cases h : key a ≤ key b
    · rw [if_pos h]
    · rw [if_neg h]
      exact ((List.Perm.cons b ih).trans (List.Perm.swap a b t))

theorem emitOrder_perm (l : List α) : (emitOrder key l).Perm l := by
  induction l with
  | nil => exact List.Perm.refl _
  | cons a t ih => exact (insertBy_perm key a _).trans (List.Perm.cons a ih)

theorem insertBy_sorted (a : α) (l : List α) (h : KeySorted key l) : KeySorted key (insertBy key a l) := by
  induction l with
  | nil => exact List.pairwise_singleton _ _
  | cons b t ih =>
    unfold insertBy
    have hb := List.pairwise_cons.mp h
    by_cases hab : key a ≤ key b
    · rw [if_pos hab]
      refine List.pairwise_cons.mpr ⟨?_, h⟩
      intro c hc
      rcases List.mem_cons.mp hc with rfl | hc
      · exact hab
      · exact Nat.le_trans hab (hb.1 c hc)
    · rw [if_neg hab]
      refine List.pairwise_cons.mpr ⟨?_, ih hb.2⟩
      intro c hc
      have hc' := (insertBy_perm key a t).subset hc
      rcases List.mem_cons.mp hc' with rfl | hc'
      · exact Nat.le_of_lt (Nat.lt_of_not_le hab)
      · exact hb.1 c hc'

theorem emitOrder_sorted (l : List α) : KeySorted key (emitOrder key l) := by
  induction l with
  | nil => exact List.Pairwise.nil
  | cons a t ih => exact insertBy_sorted key a _ ih

/-- two key-sorted arrangements of the same elements coincide when the key separates the elements -/
theorem eq_of_perm_sorted (xs ys : List α) (hp : xs.Perm ys) (hx : KeySorted key xs) (hy : KeySorted key ys)
    (hinj : ∀ a ∈ xs, ∀ b ∈ xs, key a = key b → a = b) : xs = ys := by
  induction xs generalizing ys with
  | nil => exact (List.Perm.nil_eq hp)
  | cons x xs ih =>
    cases ys with
    | nil => exact absurd hp.length_eq (by simp)
    | cons y ys =>
      have hx' := List.pairwise_cons.mp hx
      have hy' := List.pairwise_cons.mp hy
      have hxy : x = y := by
        have hxin : x ∈ y :: ys := hp.subset (List.mem_cons_self ..)
        have hyin : y ∈ x :: xs := hp.symm.subset (List.mem_cons_self ..)
        have h1 : key y ≤ key x := by
          rcases List.mem_cons.mp hxin with h | h
          · rw [h]; exact Nat.le_refl _
          · exact hy'.1 x h
        have h2 : key x ≤ key y := by
          rcases List.mem_cons.mp hyin with h | h
          · rw [h]; exact Nat.le_refl _
          · exact hx'.1 y h
        exact hinj x (List.mem_cons_self ..) y hyin (Nat.le_antisymm h2 h1)
      subst hxy
      have hp' : xs.Perm ys := (List.perm_cons x).mp hp
      rw [ih ys hp' hx'.2 hy'.2 (fun a ha b hb => hinj a (List.mem_cons_of_mem _ ha) b (List.mem_cons_of_mem _ hb))]

/-- stability: within one key class the emitted order is the iteration order -/
theorem filter_insertBy (c : Nat) (a : α) (l : List α) :
    (insertBy key a l).filter (fun x => key x == c) = (a :: l).filter (fun x => key x == c) := by
  induction l with
  | nil => rfl
  | cons b t ih =>
    unfold insertBy
    by_cases hab : key a ≤ key b
    · rw [if_pos hab]
    · rw [if_neg hab]
      have hlt : key b < key a := Nat.lt_of_not_le hab
      rw [List.filter_cons, ih]
      by_cases ha : key a = c
      · have hb : ¬ key b = c := by omega
        simp [ha, hb]
      · simp [List.filter_cons, ha]

theorem filter_emitOrder (c : Nat) (l : List α) :
    (emitOrder key l).filter (fun x => key x == c) = l.filter (fun x => key x == c) := by
  induction l with
  | nil => rfl
  | cons a t ih =>
    show (insertBy key a (emitOrder key t)).filter _ = _
    rw [filter_insertBy, List.filter_cons, List.filter_cons, ih]

/-- a duplicate-free list with two different members is not its own reverse -/
theorem reverse_ne_of_two (m : List α) (hn : m.Nodup) (a b : α) (ha : a ∈ m) (hb : b ∈ m) (hab : a ≠ b) :
    m.reverse ≠ m := by
  intro hrev
  obtain ⟨i, hi, hia⟩ := List.getElem_of_mem ha
  obtain ⟨j, hj, hjb⟩ := List.getElem_of_mem hb
  have hlen : 2 ≤ m.length := by
    by_cases hij : i = j
    · subst hij; rw [hia] at hjb; exact absurd hjb hab
    · omega
  have h0 : m[0]'(by omega) = m[m.length - 1]'(by omega) := by
    have : m.reverse[0]'(by rw [List.length_reverse]; omega) = m[m.length - 1]'(by omega) := by
      rw [List.getElem_reverse]; simp
    rw [← this]
    congr 1
    exact hrev.symm
  have := (List.getElem_inj hn).mp h0
  omega

end VelaVerif.Caches
