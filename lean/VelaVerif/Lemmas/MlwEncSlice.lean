import VelaVerif.Lemmas.MlwEncChunk
/-!
One slice (C07): `encodeSlice` (header, palette, chunks) is read back by `sliceBody`; the weight indices are mapped
back to the weights by the palette / the direct offset; zero runs are re-inserted.
-/
namespace VelaVerif.MlwEnc
open VelaVerif.Mlw List

/-! ### fuel -/

theorem chunkLoop_mono (c : SliceCfg) : ∀ (f : Nat) (s : Chunk) (b : Bits) (k : Nat) (x : Except DecErr (Chunk × Bits)),
    chunkLoop c f s b = x → x ≠ .error .fuel → chunkLoop c (f + k) s b = x
  | 0, s, b, k, x, h, hx => by
    simp [chunkLoop, Rd.fail] at h; exact absurd h.symm hx
  | f + 1, s, b, k, x, h, hx => by
    rw [show f + 1 + k = (f + k) + 1 by omega]
    rw [chunkLoop] at h ⊢
    simp only [bind_eq, Rd.bind] at h ⊢
    cases hs : chunkStep c (wEnable c s) (zEnable c s) s b with
    | error e => rw [hs] at h; exact h
    | ok r =>
      obtain ⟨s', b'⟩ := r
      rw [hs] at h
      simp only [] at h ⊢
      split
      · rename_i hen; rw [if_pos hen] at h; exact chunkLoop_mono c f s' b' k x h hx
      · rename_i hen; rw [if_neg hen] at h; exact h

/-- a successful run with some fuel is the run with the decoder's own fuel -/
theorem chunkLoop_fuel (c : SliceCfg) {f1 f2 : Nat} {s : Chunk} {b : Bits} {r : Chunk × Bits}
    (h : chunkLoop c f1 s b = .ok r) (hf : b.rest.length + (c.nvalues + 12 - s.wPos) < f2) :
    chunkLoop c f2 s b = .ok r := by
  have h1 := chunkLoop_mono c f1 s b f2 _ h (by simp)
  cases h2 : chunkLoop c f2 s b with
  | ok r' =>
    have := chunkLoop_mono c f2 s b f1 _ h2 (by simp)
    rw [Nat.add_comm, h1] at this
    exact this.symm
  | error e =>
    have he := chunkLoop_err c f2 s b e hf h2
    have := chunkLoop_mono c f2 s b f1 _ h2 (by rw [he]; simp)
    rw [Nat.add_comm, h1] at this
    cases this

/-! ### without zero runs the zero-run parameter is irrelevant -/

theorem chunkLoop_zDiv (c : SliceCfg) (zd : Nat) (hu : c.useZ = false) : ∀ (f : Nat) (s : Chunk) (b : Bits),
    s.zPrevEn = false → chunkLoop { c with zDiv := zd } f s b = chunkLoop c f s b
  | 0, _, _, _ => rfl
  | f + 1, s, b, hs => by
    have hz : zEnable c s = false := by simp [zEnable, hu]
    have hz' : zEnable { c with zDiv := zd } s = false := by simp [zEnable, hu]
    have hw : wEnable { c with zDiv := zd } s = wEnable c s := rfl
    have hstep : chunkStep { c with zDiv := zd } (wEnable c s) false s b = chunkStep c (wEnable c s) false s b := by
      simp only [chunkStep, readZ, readZRemain, hs, Bool.false_eq_true, if_false]
      rfl
    rw [chunkLoop, chunkLoop, hz, hz', hw]
    simp only [bind_eq, Rd.bind, hstep]
    cases hc : chunkStep c (wEnable c s) false s b with
    | error e => rfl
    | ok r =>
      obtain ⟨s', b'⟩ := r
      have hs' : s'.zPrevEn = false := by
        simp only [chunkStep, bind_eq, pure_eq, bind_ok, pure_ok] at hc
        obtain ⟨_, _, _, _, _, _, _, _, _, _, _, _, _, _, _, rfl, _⟩ := hc
        rfl
      simp only []
      split
      · exact chunkLoop_zDiv c zd hu f s' b' hs'
      · rfl

/-! ### weight index → weight -/

/-- the decoder's palette state after reading the palette section written for `p` -/
def palOf (p : PalPlan) : Pal :=
  { directOffset := p.directOffset, palsize := p.lut.length, palbits := p.palbits, palette := p.lut }

theorem unfold_eq (v : Nat) :
    (if v % 2 == 1 then -((v / 2 : Nat) : Int) else ((v / 2 : Nat) : Int)) = unfold v := rfl

theorem unfold_foldDirect (w : Int) : unfold (foldDirect w) = w := by
  unfold unfold foldDirect
  split
  · have h1 : (2 * w.natAbs + 1) % 2 = 1 := by omega
    have h2 : (2 * w.natAbs + 1) / 2 = w.natAbs := by omega
    simp only [h1, h2, beq_self_eq_true, if_true]; omega
  · have h1 : (2 * w.natAbs) % 2 = 0 := by omega
    have h2 : (2 * w.natAbs) / 2 = w.natAbs := by omega
    simp only [h1, h2]; simp; omega

theorem lastIdx_some (w : Int) : ∀ (vs : List Nat) (i : Nat) (acc : Option Nat) (k : Nat),
    lastIdx w vs i acc = some k → acc = some k ∨ (i ≤ k ∧ ∃ h : k - i < vs.length, unfold vs[k - i] = w)
  | [], i, acc, k, h => by left; simpa [lastIdx] using h
  | v :: vs, i, acc, k, h => by
    rw [lastIdx] at h
    rcases lastIdx_some w vs (i + 1) _ k h with h1 | ⟨h1, h2, h3⟩
    · split at h1
      · rename_i hv
        simp only [Option.some.injEq] at h1
        subst h1
        right
        exact ⟨Nat.le_refl _, by simp, by simpa using hv⟩
      · left; exact h1
    · right
      refine ⟨by omega, by simp; omega, ?_⟩
      have : k - i = (k - (i + 1)) + 1 := by omega
      simp only [this, getElem_cons_succ]
      exact h3

/-- the weight can be coded with the palette / direct offset of `p` -/
def IdxOk (p : PalPlan) (w : Int) : Prop :=
  lastIdx w p.lut 0 none = none → p.directOffset ≤ foldDirect w ∧ foldDirect w + p.palsize < 512 + p.directOffset

theorem invLut_spec {p : PalPlan} {w : Int} (hp : p.lut.length ≤ 32) (h : IdxOk p w) :
    0 ≤ invLut p w ∧ (invLut p w).toNat < 512 ∧ weightOf (palOf p) (invLut p w).toNat = .ok w := by
  unfold invLut
  cases hl : lastIdx w p.lut 0 none with
  | some k =>
    rcases lastIdx_some w p.lut 0 none k hl with h1 | ⟨_, h2, h3⟩
    · cases h1
    · simp only [Nat.sub_zero] at h2 h3
      refine ⟨by simp, by simp; omega, ?_⟩
      have hk : ¬ k ≥ 512 := by omega
      simp only [Int.toNat_natCast, weightOf, palOf, hk, if_false, h2, if_true, getElem?_eq_getElem h2, unfold_eq, h3]
  | none =>
    obtain ⟨h1, h2⟩ := h hl
    simp only [PalPlan.palsize] at h2 ⊢
    have hi : (foldDirect w : Int) + (p.lut.length : Int) - (p.directOffset : Int) =
        ((foldDirect w + p.lut.length - p.directOffset : Nat) : Int) := by omega
    rw [hi]
    refine ⟨by simp, by simp; omega, ?_⟩
    have hk : ¬ foldDirect w + p.lut.length - p.directOffset ≥ 512 := by omega
    have hk2 : ¬ foldDirect w + p.lut.length - p.directOffset < p.lut.length := by omega
    have hk3 : foldDirect w + p.lut.length - p.directOffset - p.lut.length + p.directOffset = foldDirect w := by omega
    simp only [Int.toNat_natCast, weightOf, palOf, hk, if_false, hk2, hk3, unfold_eq, unfold_foldDirect]

/-- pointwise: the decoder maps the index list to the weight list -/
def Dec (pal : Pal) : List Nat → List Int → Prop
  | [], [] => True
  | v :: vs, w :: ws => weightOf pal v = .ok w ∧ Dec pal vs ws
  | _, _ => False

theorem Dec.length {pal : Pal} : ∀ {vs : List Nat} {ws : List Int}, Dec pal vs ws → vs.length = ws.length
  | [], [], _ => rfl
  | _ :: vs, _ :: ws, h => by simp [Dec.length h.2]
  | [], _ :: _, h => h.elim
  | _ :: _, [], h => h.elim

theorem Dec.take {pal : Pal} : ∀ {vs : List Nat} {ws : List Int} (k : Nat), Dec pal vs ws → Dec pal (vs.take k) (ws.take k)
  | [], [], k, _ => by simp [Dec]
  | _ :: vs, _ :: ws, 0, _ => by simp [Dec]
  | _ :: vs, _ :: ws, k + 1, h => by simp only [take_succ_cons, Dec]; exact ⟨h.1, Dec.take k h.2⟩
  | [], _ :: _, _, h => h.elim
  | _ :: _, [], _, h => h.elim

theorem Dec.drop {pal : Pal} : ∀ {vs : List Nat} {ws : List Int} (k : Nat), Dec pal vs ws → Dec pal (vs.drop k) (ws.drop k)
  | [], [], k, _ => by simp [Dec]
  | _ :: vs, _ :: ws, 0, h => by simpa using h
  | _ :: vs, _ :: ws, k + 1, h => by simp only [drop_succ_cons]; exact Dec.drop k h.2
  | [], _ :: _, _, h => h.elim
  | _ :: _, [], _, h => h.elim

theorem lookup_spec {p : PalPlan} (hp : p.lut.length ≤ 32) : ∀ (ws : List Int), (∀ w ∈ ws, IdxOk p w) →
    ∃ wv, lookup p ws = .ok wv ∧ (∀ v ∈ wv, v < 512) ∧ Dec (palOf p) wv ws
  | [], _ => ⟨[], rfl, by simp, trivial⟩
  | w :: ws, h => by
    obtain ⟨h1, h2, h3⟩ := invLut_spec hp (h w mem_cons_self)
    obtain ⟨wv, g1, g3, g4⟩ := lookup_spec hp ws (fun x hx => h x (mem_cons_of_mem _ hx))
    refine ⟨(invLut p w).toNat :: wv, ?_, ?_, ⟨h3, g4⟩⟩
    · rw [lookup]; simp only [show ¬ invLut p w < 0 by omega, if_false, g1]
    · intro v hv; rcases mem_cons.mp hv with rfl | hv
      · exact h2
      · exact g3 v hv

/-! ### zero runs back between the weights -/

/-- every weight followed by its zero run -/
def interleave : List Int → List Nat → List Int
  | w :: ws, z :: zs => w :: (replicate z 0 ++ interleave ws zs)
  | _, _ => []

theorem interleave_append : ∀ (a : List Int) (za : List Nat) (b : List Int) (zb : List Nat), a.length = za.length →
    interleave (a ++ b) (za ++ zb) = interleave a za ++ interleave b zb
  | [], [], b, zb, _ => by simp [interleave]
  | w :: a, z :: za, b, zb, h => by
    simp only [cons_append, interleave, append_assoc, cons.injEq, true_and]
    rw [interleave_append a za b zb (by simpa using h)]
  | [], _ :: _, _, _, h => by simp at h
  | _ :: _, [], _, _, h => by simp at h

theorem emitLoop_z (pal : Pal) : ∀ (vs : List Nat) (ws : List Int) (zs : List Nat) (acc : List Int),
    Dec pal vs ws → zs.length = vs.length →
    emitLoop pal true vs zs acc = .ok ((interleave ws zs).reverse ++ acc)
  | [], [], [], acc, _, _ => by simp [emitLoop, interleave]
  | v :: vs, w :: ws, z :: zs, acc, h, hl => by
    rw [emitLoop, h.1]
    simp only [if_true]
    rw [emitLoop_z pal vs ws zs _ h.2 (by simpa using hl)]
    simp [interleave]
  | [], _ :: _, _, _, h, _ => h.elim
  | _ :: _, [], _, _, h, _ => h.elim
  | [], [], _ :: _, _, _, hl => by simp at hl
  | _ :: _, _ :: _, [], _, _, hl => by simp at hl

theorem emitLoop_noz (pal : Pal) : ∀ (vs : List Nat) (ws : List Int) (acc : List Int),
    Dec pal vs ws → emitLoop pal false vs [] acc = .ok (ws.reverse ++ acc)
  | [], [], acc, _ => by simp [emitLoop]
  | v :: vs, w :: ws, acc, h => by
    rw [emitLoop, h.1]
    simp only [Bool.false_eq_true, if_false]
    rw [emitLoop_noz pal vs ws _ h.2]
    simp
  | [], _ :: _, _, h => h.elim
  | _ :: _, [], _, h => h.elim

/-- what a slice contributes to the output: its weights with the zero runs of the slice -/
def sliceOut (useZ newPal : Bool) (ws : List Int) (zs : List Nat) : List Int :=
  if useZ then
    if newPal then
      match zs with
      | [] => []
      | z0 :: zs' => replicate z0 0 ++ interleave ws zs'
    else interleave ws zs
  else ws

theorem emitSlice_spec (pal : Pal) (useZ newPal : Bool) (vs : List Nat) (ws : List Int) (zs : List Nat)
    (acc : List Int) (hd : Dec pal vs ws)
    (hz : useZ = true → zs.length = vs.length + (if newPal = true then 1 else 0)) :
    emitSlice pal useZ newPal vs zs acc = .ok ((sliceOut useZ newPal ws zs).reverse ++ acc) := by
  unfold emitSlice sliceOut
  cases useZ
  · simp only [Bool.false_eq_true, if_false]; exact emitLoop_noz pal vs ws acc hd
  · have hz := hz rfl
    simp only [if_true]
    cases newPal
    · simp only [Bool.false_eq_true, if_false] at hz ⊢
      exact emitLoop_z pal vs ws zs acc hd (by omega)
    · simp only [if_true] at hz ⊢
      cases zs with
      | nil => simp at hz
      | cons z0 zs' =>
        simp only []
        rw [emitLoop_z pal vs ws zs' _ hd (by simpa using hz)]
        simp

/-! ### the slice -/

structure PalOk (p : PalPlan) : Prop where
  dofs : p.directOffset < 32
  size : p.lut.length = 0 ∨ (2 ≤ p.lut.length ∧ p.lut.length ≤ 32)
  bits : 2 ≤ p.palbits ∧ p.palbits ≤ 9
  entries : ∀ v ∈ p.lut, v < 2 ^ p.palbits

structure SliceOk (p : PalPlan) (newPal : Bool) (wv zv : List Nat) (g : GrcCfg) : Prop where
  len : 1 ≤ wv.length ∧ wv.length < 32768
  zlen : p.useZeroRuns = true → zv.length = wv.length + (if newPal = true then 1 else 0)
  noz : p.useZeroRuns = false → zv = []
  v512 : ∀ v ∈ wv, v < 512
  q31 : ∀ v ∈ wv, v >>> g.wDiv ≤ 31
  trunc : g.wTrunc = true → ∀ v ∈ wv, v >>> g.wDiv ≤ 2
  unc : g.wUnc = true → (∀ v ∈ wv, v >>> g.wDiv = 0) ∧
    g.wDiv = (if p.lut.length > 0 then indexBits p.lut.length else p.palbits)
  wdiv : g.wUnc = false → g.wDiv < 6
  zdiv : g.zDiv < 4

theorem pot_le_sum (div : Nat) : ∀ l : List Nat, pot div l ≤ l.sum + l.length
  | [] => by simp [pot]
  | v :: t => by
    have := pot_le_sum div t
    have : v >>> div ≤ v := Nat.shiftRight_le v div
    simp only [pot, sum_cons, length_cons]; omega

theorem inv_init (e : ECfg) (wv zv : List Nat) :
    Inv e wv zv { w := { todo := wv }, z := { todo := zv } } {} := by
  have hs : ∀ (div : Nat) (l : List Nat), StrmInv div l { todo := l } false [] 0 0 0 [] [] := by
    intro div l
    exact ⟨⟨fun _ => rfl, fun h => by simp at h⟩, by simp, by simp, by simp, by simp, by simp, by simp, by simp,
      by simp, by simp⟩
  exact ⟨hs _ _, hs _ _, rfl, rfl, fun _ => rfl⟩

theorem valuesOk_ok {p : PalPlan} {newPal : Bool} {wv zv : List Nat} {g : GrcCfg} (hs : SliceOk p newPal wv zv g) :
    valuesOk g wv = .ok () := by
  unfold valuesOk
  have h1 : (wv.all fun v => decide (v < 512)) = true := by
    rw [all_eq_true]; intro v hv; simpa using hs.v512 v hv
  have h2 : (wv.all fun v => decide (v >>> g.wDiv ≤ 31) && (!g.wTrunc || decide (v >>> g.wDiv ≤ 2))) = true := by
    rw [all_eq_true]; intro v hv
    have := hs.q31 v hv
    cases ht : g.wTrunc
    · simp [this]
    · simp [this, hs.trunc ht v hv]
  simp [h1, h2]

/-- the chunk part of a slice, with the decoder's own fuel and slice constants -/
theorem chunks_spec {p : PalPlan} {newPal : Bool} {wv zv : List Nat} {g : GrcCfg} (hs : SliceOk p newPal wv zv g) :
    ∃ bits, encLoop (sliceCfg g p wv.length newPal) (loopFuel wv zv) { w := { todo := wv }, z := { todo := zv } } = .ok bits ∧
      ∀ (rest : List Bool) (pos : Nat),
        ∃ D', chunkLoop { toDec (sliceCfg g p wv.length newPal) with zDiv := g.zdivField p.useZeroRuns }
            ((bits ++ rest).length + wv.length + 13) {} ⟨bits ++ rest, pos⟩ = .ok (D', ⟨rest, pos + bits.length⟩) ∧
          D'.wVals.reverse = wv ∧ D'.zVals.reverse = zv := by
  have hc : CfgOk (sliceCfg g p wv.length newPal) wv zv := by
    refine ⟨rfl, ?_, hs.noz, hs.trunc, fun h => (hs.unc h).1⟩
    intro hu
    have := hs.zlen hu
    refine ⟨by simp only [sliceCfg]; exact this.symm, ?_, ?_⟩ <;> split at this <;> omega
  obtain ⟨bits, _, h1, _⟩ := chunkLoop_encLoop hc (loopFuel wv zv) _ {} [] 0 (inv_init _ wv zv)
    (by have := pot_le_sum g.wDiv wv; have := pot_le_sum g.zDiv zv
        simp only [sliceCfg, loopFuel]; omega)
  refine ⟨bits, h1, fun rest pos => ?_⟩
  obtain ⟨bits', D'', h1', h2', h3', h4'⟩ := chunkLoop_encLoop hc (loopFuel wv zv) _ {} rest pos (inv_init _ wv zv)
    (by have := pot_le_sum g.wDiv wv; have := pot_le_sum g.zDiv zv
        simp only [sliceCfg, loopFuel]; omega)
  rw [h1] at h1'; cases h1'
  refine ⟨D'', ?_, h3', h4'⟩
  have hfuel := chunkLoop_fuel (toDec (sliceCfg g p wv.length newPal)) h2'
    (f2 := (bits ++ rest).length + wv.length + 13) (by simp [toDec, sliceCfg]; omega)
  cases hu : p.useZeroRuns
  · rw [chunkLoop_zDiv _ _ (by simp [toDec, sliceCfg, hu]) _ _ _ rfl]; exact hfuel
  · have : g.zdivField true = g.zDiv := by simp [GrcCfg.zdivField]
    rw [this]; exact hfuel

theorem putPaletteEntries_length (pb : Nat) : ∀ l : List Nat, (putPaletteEntries pb l).length = l.length * pb
  | [] => by simp [putPaletteEntries]
  | v :: vs => by
    simp [putPaletteEntries, putBits_length, putPaletteEntries_length pb vs, Nat.add_mul]; omega

theorem putPaletteHeader_length (d pb : Nat) (l : List Nat) : (putPaletteHeader d pb l).length = 13 + l.length * pb := by
  simp [putPaletteHeader, putBits_length, putPaletteEntries_length]; omega

theorem putSliceHeader_length (n w : Nat) (t np : Bool) : (putSliceHeader n w t np).length = 20 := by
  simp [putSliceHeader, putBits_length]

theorem sliceBody_spec {p : PalPlan} {newPal : Bool} {wv zv : List Nat} {g : GrcCfg} {ws : List Int}
    (hp : PalOk p) (hs : SliceOk p newPal wv zv g) (hd : Dec (palOf p) wv ws) (bits : List Bool)
    (hb : encLoop (sliceCfg g p wv.length newPal) (loopFuel wv zv) { w := { todo := wv }, z := { todo := zv } } = .ok bits)
    (o : Outer) (rest : List Bool) (pos : Nat)
    (ho : newPal = false → o.first = false ∧ o.pal = palOf p ∧ (o.zPrevDiv != zdivDisable) = p.useZeroRuns) :
    ∃ o', sliceBody (g.zdivField p.useZeroRuns) o
        ⟨putSliceHeader wv.length g.wdivField g.wTrunc newPal ++
          (if newPal = true then putPaletteHeader p.directOffset p.palbits p.lut else []) ++ bits ++ rest, pos⟩ =
        .ok (o', ⟨rest, pos + (putSliceHeader wv.length g.wdivField g.wTrunc newPal ++
          (if newPal = true then putPaletteHeader p.directOffset p.palbits p.lut else []) ++ bits).length⟩) ∧
      o'.first = false ∧ o'.pal = palOf p ∧ o'.zPrevDiv = g.zdivField p.useZeroRuns ∧
      o'.out = (sliceOut p.useZeroRuns newPal ws zv).reverse ++ o.out ∧ o'.eos = o.eos := by
  obtain ⟨bits', hb', hch⟩ := chunks_spec hs
  rw [hb] at hb'; cases hb'
  have hzd : g.zdivField p.useZeroRuns < 4 ∨ g.zdivField p.useZeroRuns = zdivDisable := by
    unfold GrcCfg.zdivField; have := hs.zdiv; split
    · left; exact this
    · right; rfl
  have hwd : g.wdivField < 8 := by
    unfold GrcCfg.wdivField wdivUncompressed
    cases hu : g.wUnc
    · have := hs.wdiv hu; simp; omega
    · simp
  have hc1 : (!(decide (g.zdivField p.useZeroRuns < 4) || g.zdivField p.useZeroRuns == zdivDisable)) = false := by
    rcases hzd with h | h <;> simp [h]
  simp only [sliceBody, bind_eq, pure_eq, hc1, Bool.false_eq_true, if_false]
  simp only [Rd.bind, append_assoc]
  rw [header_roundtrip' _ _ _ _ _ _ hs.len.1 (by have := hs.len.2; omega) hwd]
  simp only []
  have huz : (g.zdivField p.useZeroRuns != zdivDisable) = p.useZeroRuns := by
    unfold GrcCfg.zdivField zdivDisable
    cases p.useZeroRuns
    · simp
    · have := hs.zdiv; simp; omega
  have hunc : (g.wdivField == wdivUncompressed) = g.wUnc := by
    unfold GrcCfg.wdivField wdivUncompressed
    cases hu : g.wUnc
    · have := hs.wdiv hu; simp; omega
    · simp
  have hc2 : (o.first && !newPal) = false := by
    cases hn : newPal
    · simp [(ho hn).1]
    · simp
  have hc3 : (!newPal && (p.useZeroRuns != (o.zPrevDiv != zdivDisable))) = false := by
    cases hn : newPal
    · simp [(ho hn).2.2]
    · simp
  have hc4 : (g.wdivField != wdivUncompressed && !decide (g.wdivField < 6)) = false := by
    unfold GrcCfg.wdivField wdivUncompressed
    cases hu : g.wUnc
    · have := hs.wdiv hu; simp; omega
    · simp
  have hpal : ∀ R : List Bool, (if newPal = true then readPalette else Rd.pure o.pal)
      ⟨(if newPal = true then putPaletteHeader p.directOffset p.palbits p.lut else []) ++ R, pos + 20⟩ =
      .ok (palOf p, ⟨R, pos + 20 + (if newPal = true then putPaletteHeader p.directOffset p.palbits p.lut else []).length⟩) := by
    intro R
    cases hn : newPal
    · simp [Rd.pure, (ho hn).2.1]
    · simp only [if_true]
      rw [palette_roundtrip' _ _ _ _ _ hp.dofs hp.size hp.bits.1 hp.bits.2 hp.entries]
      simp [palOf, putPaletteHeader_length, Nat.add_assoc]; omega
  simp only [huz, hunc, hc2, hc3, hc4, Bool.false_eq_true, if_false, Rd.bind, hpal]
  have hwdiv : (if g.wUnc = true then if (palOf p).palsize > 0 then indexBits (palOf p).palsize else (palOf p).palbits
      else g.wdivField) = g.wDiv := by
    cases hu : g.wUnc
    · simp [GrcCfg.wdivField, hu]
    · simp only [if_true]; exact (hs.unc hu).2.symm
  have hcfg : SliceCfg.mk p.useZeroRuns g.wUnc g.wTrunc g.wDiv (g.zdivField p.useZeroRuns) wv.length
      (wv.length + (if newPal = true then 1 else 0)) =
      { toDec (sliceCfg g p wv.length newPal) with zDiv := g.zdivField p.useZeroRuns } := rfl
  obtain ⟨D', hD, hDw, hDz⟩ := hch rest
    (pos + 20 + (if newPal = true then putPaletteHeader p.directOffset p.palbits p.lut else []).length)
  simp only [remaining, hwdiv, hcfg, hD, hDw, hDz]
  rw [emitSlice_spec (palOf p) p.useZeroRuns newPal wv ws zv o.out hd hs.zlen]
  simp only [Rd.lift, Rd.pure]
  simp only [length_append, putSliceHeader_length, Nat.add_assoc]
  exact ⟨_, rfl, rfl, rfl, rfl, rfl, rfl⟩

/-- one slice inside the slice loop -/
theorem sliceLoop_slice {p : PalPlan} {newPal : Bool} {wv zv : List Nat} {g : GrcCfg} {ws : List Int}
    {ubits wCfg zCfg : Nat} (hp : PalOk p) (hg : grcCfg ubits wCfg zCfg = some g)
    (hs : SliceOk p newPal wv zv g) (hd : Dec (palOf p) wv ws) :
    ∃ bits, encodeSlice wv zv p newPal ubits wCfg zCfg = .ok bits ∧
      ∀ (f : Nat) (o : Outer) (rest : List Bool) (pos : Nat),
        (newPal = false → o.first = false ∧ o.pal = palOf p ∧ (o.zPrevDiv != zdivDisable) = p.useZeroRuns) →
        ∃ o', sliceLoop (f + 1) o ⟨bits ++ rest, pos⟩ = sliceLoop f o' ⟨rest, pos + bits.length⟩ ∧
          o'.first = false ∧ o'.pal = palOf p ∧ (o'.zPrevDiv != zdivDisable) = p.useZeroRuns ∧
          o'.out = (sliceOut p.useZeroRuns newPal ws zv).reverse ++ o.out ∧ o'.eos = o.eos ∧
          o'.sliceEnd = pos + bits.length := by
  obtain ⟨cb, hcb, _⟩ := chunks_spec hs
  refine ⟨sliceHeader g p wv.length newPal ++ cb, ?_, ?_⟩
  · unfold encodeSlice
    rw [if_neg (by have := hs.len; omega), hg]
    simp only [valuesOk_ok hs, hcb]
  · intro f o rest pos ho
    obtain ⟨o', h1, h2, h3, h4, h5, h6⟩ := sliceBody_spec hp hs hd cb hcb o rest (pos + 3) ho
    have hzd : g.zdivField p.useZeroRuns < 8 ∧ g.zdivField p.useZeroRuns ≠ zdivEos := by
      unfold GrcCfg.zdivField zdivDisable zdivEos; have := hs.zdiv; split <;> omega
    have huz : (g.zdivField p.useZeroRuns != zdivDisable) = p.useZeroRuns := by
      unfold GrcCfg.zdivField zdivDisable
      cases p.useZeroRuns
      · simp
      · have := hs.zdiv; simp; omega
    refine ⟨{ o' with sliceEnd := pos + (sliceHeader g p wv.length newPal ++ cb).length }, ?_, h2, h3, ?_, h5, h6, rfl⟩
    · rw [sliceLoop]
      simp only [bind_eq, pure_eq, Rd.bind, sliceHeader, append_assoc]
      rw [get_putBits 3 _ _ _ hzd.1]
      have hne : (putSliceHeader wv.length g.wdivField g.wTrunc newPal ++
          ((if newPal = true then putPaletteHeader p.directOffset p.palbits p.lut else []) ++ (cb ++ rest))).isEmpty = false := by
        simp [putSliceHeader, putBits]
      simp only [beq_iff_eq, hzd.2, if_false, Rd.bind, atEnd, hne, Bool.false_eq_true]
      simp only [append_assoc] at h1
      rw [h1]
      simp only [bitPos, length_append, putBits_length, Nat.add_assoc]
    · show (o'.zPrevDiv != zdivDisable) = _
      rw [h4, huz]

end VelaVerif.MlwEnc
