import VelaVerif.Lemmas.Emit
import VelaVerif.Lemmas.EmitIsa
/-!
Helper lemmas for C06, part 2: the shape of the item list `Emit.program` produces, the opcode facts
(by `decide` over the regenerated tables), and the *skeleton* of a decoded stream (everything that is
not a register write: waits, operations, stop).
-/
namespace VelaVerif.EmitLemmas
open VelaVerif VelaVerif.Emit VelaVerif.Decode VelaVerif.NpuOp

/-! ### the enumerations are complete and their codes are in range (regenerated tables) -/

theorem reg0_mem_all (r : Reg0) : r ∈ Reg0.all := by cases r <;> decide
theorem reg1_mem_all (r : Reg1) : r ∈ Reg1.all := by cases r <;> decide
theorem op_mem_all (r : OpCode) : r ∈ OpCode.all := by cases r <;> decide

theorem reg0_table : ∀ r ∈ Reg0.all, 256 ≤ r.code ∧ r.code < 1024 ∧ r.code = r.isa ∧
    (lookupName Gen.Regs.tblCmd0 r.name).isSome := by decide +kernel
theorem reg1_table : ∀ r ∈ Reg1.all, r.code < 1024 ∧ r.code = r.isa ∧
    (lookupName Gen.Regs.tblCmd1 r.name).isSome := by decide +kernel
theorem op_table : ∀ r ∈ OpCode.all, r.code < 256 ∧ r.code = r.isa ∧
    (lookupName Gen.Regs.tblCmd0 r.name).isSome := by decide +kernel

theorem reg0_range (r : Reg0) : 256 ≤ r.code ∧ r.code < 1024 :=
  let h := reg0_table r (reg0_mem_all r); ⟨h.1, h.2.1⟩
theorem reg1_range (r : Reg1) : r.code < 1024 := (reg1_table r (reg1_mem_all r)).1
theorem op_range (o : OpCode) : o.code < 256 := (op_table o (op_mem_all o)).1

/-! ### every item of the model's program is valid -/

theorem toItem_valid (w : RegWrite) : Valid w.toItem := by
  cases w with
  | w0 r p => exact reg0_range r
  | w1 r o p => exact reg1_range r

/-- register-write items -/
def isSet : Item → Bool
  | .set0 .. => true
  | .set1 .. => true
  | _ => false

theorem toItem_isSet (w : RegWrite) : isSet w.toItem = true := by cases w <;> rfl

theorem waitItems_valid (kw dw : Int) : ∀ it ∈ waitItems kw dw, Valid it := by
  intro it h
  unfold waitItems at h
  simp only [List.mem_append] at h
  rcases h with h | h
  · split at h
    · simp only [List.mem_singleton] at h; subst h; exact op_range _
    · simp at h
  · split at h
    · simp only [List.mem_singleton] at h; subst h; exact op_range _
    · simp at h

theorem waitItems_notSet (kw dw : Int) : ∀ it ∈ waitItems kw dw, isSet it = false := by
  intro it h
  unfold waitItems at h
  simp only [List.mem_append] at h
  rcases h with h | h <;> (split at h <;> simp at h <;> (try subst h) <;> rfl)

/-- the operation command of an operation: one of the five `NPU_OP_*` start commands -/
def isStart (it : Item) : Prop :=
  ∃ p, it = .doOp OpCode.conv.code p ∨ it = .doOp OpCode.depthwise.code p ∨ it = .doOp OpCode.pool.code p ∨
       it = .doOp OpCode.elementwise.code p ∨ it = .doOp OpCode.dmaStart.code p

theorem opCodeItem_start (op : Op) (oc : Item) (h : opCodeItem op = .ok oc) : isStart oc := by
  unfold opCodeItem at h
  cases op with
  | dma d =>
    simp only at h
    injection h with h
    exact ⟨d.channel * 16 + d.mode, Or.inr (Or.inr (Or.inr (Or.inr h.symm)))⟩
  | block b =>
    simp only at h
    cases hk : b.kind <;> simp only [hk] at h
    · injection h with h; exact ⟨0, Or.inl h.symm⟩
    · injection h with h; exact ⟨0, Or.inr (Or.inl h.symm)⟩
    · cases hm : mapValue Gen.EmitTbl.poolingOpMap Gen.EmitTbl.apiPoolingOps b.subOp with
      | error e => simp [hm, bind, Except.bind] at h
      | ok v =>
        simp only [hm, bind, Except.bind, Except.ok.injEq] at h
        exact ⟨v, Or.inr (Or.inr (Or.inl h.symm))⟩
    · cases hm : mapValue Gen.EmitTbl.elementwiseOpMap Gen.EmitTbl.apiElementWiseOps b.subOp with
      | error e => simp [hm, bind, Except.bind] at h
      | ok v =>
        simp only [hm, bind, Except.bind, Except.ok.injEq] at h
        exact ⟨v, Or.inr (Or.inr (Or.inr (Or.inl h.symm)))⟩

theorem start_valid (it : Item) (h : isStart it) : Valid it ∧ isSet it = false := by
  obtain ⟨p, h | h | h | h | h⟩ := h <;> subst h <;> exact ⟨op_range _, rfl⟩

/-- shape of what one operation emits: register writes, then (block operations) BLOCKDEP, then the waits, then the start command -/
theorem opItems_shape (arch : Arch) (op : Op) (its : List Item) (h : opItems arch op = .ok its) :
    ∃ (sets : List Item) (oc : Item), (∀ it ∈ sets, Valid it ∧ isSet it = true) ∧ opCodeItem op = .ok oc ∧
      its = sets ++ waitItems (opWaits op).1 (opWaits op).2 ++ [oc] := by
  unfold opItems at h
  cases hr : regProgram arch op with
  | error e => simp [hr, bind, Except.bind] at h
  | ok ws =>
    cases ho : opCodeItem op with
    | error e => simp [hr, ho, bind, Except.bind] at h
    | ok oc =>
      simp only [hr, ho, bind, Except.bind, Except.ok.injEq] at h
      cases op with
      | block b =>
        refine ⟨ws.map RegWrite.toItem ++ [Item.set0 Reg0.blockdep.code b.oracle.blockdep], oc, ?_, rfl, ?_⟩
        · intro it hit
          simp only [List.mem_append, List.mem_map, List.mem_singleton] at hit
          rcases hit with ⟨w, _, rfl⟩ | rfl
          · exact ⟨toItem_valid w, toItem_isSet w⟩
          · exact ⟨reg0_range _, rfl⟩
        · rw [← h]; try simp
      | dma d =>
        refine ⟨ws.map RegWrite.toItem, oc, ?_, rfl, ?_⟩
        · intro it hit
          simp only [List.mem_map] at hit
          obtain ⟨w, _, rfl⟩ := hit
          exact ⟨toItem_valid w, toItem_isSet w⟩
        · rw [← h]; try simp

theorem opItems_valid (arch : Arch) (op : Op) (its : List Item) (h : opItems arch op = .ok its) :
    ∀ it ∈ its, Valid it := by
  obtain ⟨sets, oc, hs, ho, rfl⟩ := opItems_shape arch op its h
  intro it hit
  simp only [List.mem_append, List.mem_singleton] at hit
  rcases hit with (hit | hit) | rfl
  · exact (hs it hit).1
  · exact waitItems_valid _ _ it hit
  · exact (start_valid _ (opCodeItem_start op _ ho)).1

theorem bodyItems_valid (arch : Arch) (ops : List Op) : ∀ body, bodyItems arch ops = .ok body → ∀ it ∈ body, Valid it := by
  induction ops with
  | nil => intro body h; simp [bodyItems] at h; subst h; simp
  | cons op rest ih =>
    intro body h
    unfold bodyItems at h
    cases ha : opItems arch op with
    | error e => simp [ha] at h
    | ok a =>
      cases hb : bodyItems arch rest with
      | error e => simp [ha, hb] at h
      | ok b =>
        simp only [ha, hb, Except.ok.injEq] at h
        subst h
        intro it hit
        rcases List.mem_append.mp hit with hit | hit
        · exact opItems_valid arch op a ha it hit
        · exact ih b hb it hit

theorem stopItem_valid : Valid stopItem := op_range _

theorem program_valid (arch : Arch) (ops : List Op) (items : List Item) (h : program arch ops = .ok items) :
    ∀ it ∈ items, Valid it := by
  unfold program at h
  cases hb : bodyItems arch ops with
  | error e => simp [hb] at h
  | ok body =>
    simp only [hb, Except.ok.injEq] at h
    subst h
    intro it hit
    simp only [List.mem_append, List.mem_singleton] at hit
    rcases hit with (hit | hit) | rfl
    · unfold preItems at hit
      split at hit
      · simp only [List.mem_singleton] at hit; subst hit; exact reg0_range _
      · simp at hit
    · exact bodyItems_valid arch ops body hb it hit
    · exact stopItem_valid

/-! ### skeleton: what the decoder sees besides register writes -/

/-- (opcode, parameter) of a command that is not a register write -/
def cmdSkel : Cmd → Option (Nat × Nat)
  | .c0 code p => if code < 256 then some (code, p) else none
  | .c1 .. => none

def evSkel : Event → Nat × Nat
  | .stop p => (Isa.OP_STOP, p)
  | .op .conv p _ => (Isa.OP_CONV, p)
  | .op .depthwise p _ => (Isa.OP_DEPTHWISE, p)
  | .op .pool p _ => (Isa.OP_POOL, p)
  | .op .elementwise p _ => (Isa.OP_ELEMENTWISE, p)
  | .op .dma p _ => (Isa.OP_DMA_START, p)
  | .kernelWait p => (Isa.OP_KERNEL_WAIT, p)
  | .dmaWait p => (Isa.OP_DMA_WAIT, p)
  | .other code p => (code, p)

theorem evSkel_opEvent (code p : Nat) (regs : RegFile) : evSkel (opEvent code p regs) = (code, p) := by
  unfold opEvent
  split; · next h => simp [evSkel, h]
  split; · next h => simp [evSkel, h]
  split; · next h => simp [evSkel, h]
  split; · next h => simp [evSkel, h]
  split; · next h => simp [evSkel, h]
  split; · next h => simp [evSkel, h]
  split; · next h => simp [evSkel, h]
  split; · next h => simp [evSkel, h]
  rfl

/-- For *any* command list the decoder never fails, and the events are exactly the non-register commands, in order. -/
theorem go_skeleton (cs : List Cmd) : ∀ (regs : RegFile) (acc : List Event),
    ∃ evs, events.go cs regs acc = .ok evs ∧ evs.map evSkel = acc.reverse.map evSkel ++ cs.filterMap cmdSkel := by
  induction cs with
  | nil => intro regs acc; exact ⟨acc.reverse, rfl, by simp⟩
  | cons c rest ih =>
    intro regs acc
    cases c with
    | c1 code p q =>
      rw [go_set1]
      obtain ⟨evs, h1, h2⟩ := ih (regSet regs ⟨true, code⟩ (q + 2 ^ 32 * p)) acc
      have hn : cmdSkel (Cmd.c1 code p q) = none := rfl
      exact ⟨evs, h1, by rw [h2, List.filterMap_cons_none hn]⟩
    | c0 code p =>
      by_cases hc : code < 256
      · rw [go_op code p rest regs acc hc]
        obtain ⟨evs, h1, h2⟩ := ih regs (opEvent code p regs :: acc)
        refine ⟨evs, h1, ?_⟩
        rw [h2]
        simp [cmdSkel, hc, evSkel_opEvent]
      · rw [go_set0 code p rest regs acc (by omega)]
        obtain ⟨evs, h1, h2⟩ := ih (regSet regs ⟨false, code⟩ p) acc
        have hn : cmdSkel (Cmd.c0 code p) = none := by simp [cmdSkel, hc]
        exact ⟨evs, h1, by rw [h2, List.filterMap_cons_none hn]⟩

theorem events_skeleton (cs : List Cmd) : ∃ evs, events cs = .ok evs ∧ evs.map evSkel = cs.filterMap cmdSkel := by
  obtain ⟨evs, h1, h2⟩ := go_skeleton cs RegFile.empty []
  exact ⟨evs, h1, by simpa using h2⟩

/-- (opcode, masked parameter) of a non-register item -/
def itemSkel : Item → Option (Nat × Nat)
  | .set0 .. => none
  | .set1 .. => none
  | .wait code ch cnt => some (code, mask16 (16 * ch + cnt))
  | .doOp code p => some (code, mask16 p)

theorem cmdSkel_itemCmd (it : Item) (hv : Valid it) : cmdSkel (itemCmd it) = itemSkel it := by
  cases it with
  | set0 code p => obtain ⟨h, _⟩ := hv; simp [itemCmd, cmdSkel, itemSkel]; omega
  | set1 code o p => rfl
  | wait code ch cnt => have : code < 256 := hv; simp [itemCmd, cmdSkel, itemSkel, this]
  | doOp code p => have : code < 256 := hv; simp [itemCmd, cmdSkel, itemSkel, this]

/-- elision removes register writes only: the kept commands have the skeleton of the full item list -/
theorem runCmds_skeleton (sel : Bool → Nat → Bool) (items : List Item) (hv : ∀ it ∈ items, Valid it) (ms : Machines) :
    (runCmds sel ms items).filterMap cmdSkel = items.filterMap itemSkel := by
  induction items generalizing ms with
  | nil => rfl
  | cons it rest ih =>
    have hit : Valid it := hv it (by simp)
    have ih := ih (fun x hx => hv x (by simp [hx]))
    simp only [runCmds, List.filterMap_append, List.filterMap_cons]
    rw [ih]
    cases it with
    | set0 code p =>
      have : cmdSkel (itemCmd (.set0 code p)) = none := by rw [cmdSkel_itemCmd _ hit]; rfl
      by_cases hc : (step sel ms (.set0 code p)).2 = true <;> simp [hc, this, itemSkel]
    | set1 code o p =>
      by_cases hc : (step sel ms (.set1 code o p)).2 = true <;> simp [hc, itemSkel, itemCmd, cmdSkel]
    | wait code ch cnt =>
      have := cmdSkel_itemCmd _ hit
      simp [step, this, itemSkel]
    | doOp code p =>
      have := cmdSkel_itemCmd _ hit
      simp [step, this, itemSkel]

theorem filterMap_sets (sets : List Item) (h : ∀ it ∈ sets, Valid it ∧ isSet it = true) : sets.filterMap itemSkel = [] := by
  induction sets with
  | nil => rfl
  | cons it rest ih =>
    have h1 := (h it (by simp)).2
    have ih := ih (fun x hx => h x (by simp [hx]))
    cases it <;> simp_all [isSet, itemSkel]

/-- the waits and the start command of one operation, as the decoder sees them -/
def opSkel (op : Op) (oc : Item) : List (Nat × Nat) :=
  (waitItems (opWaits op).1 (opWaits op).2 ++ [oc]).filterMap itemSkel

/-- skeleton of the loop body: for each operation its waits, then its start command -/
inductive BodySkel : List Op → List (Nat × Nat) → Prop
  | nil : BodySkel [] []
  | cons (op : Op) (oc : Item) (rest : List Op) (sk : List (Nat × Nat)) :
      opCodeItem op = .ok oc → BodySkel rest sk → BodySkel (op :: rest) (opSkel op oc ++ sk)

theorem bodyItems_skeleton (arch : Arch) (ops : List Op) : ∀ body, bodyItems arch ops = .ok body →
    BodySkel ops (body.filterMap itemSkel) := by
  induction ops with
  | nil => intro body h; simp [bodyItems] at h; subst h; exact .nil
  | cons op rest ih =>
    intro body h
    unfold bodyItems at h
    cases ha : opItems arch op with
    | error e => simp [ha] at h
    | ok a =>
      cases hb : bodyItems arch rest with
      | error e => simp [ha, hb] at h
      | ok b =>
        simp only [ha, hb, Except.ok.injEq] at h
        subst h
        obtain ⟨sets, oc, hs, ho, rfl⟩ := opItems_shape arch op a ha
        have := filterMap_sets sets hs
        simp only [List.filterMap_append, this, List.nil_append]
        have e : List.filterMap itemSkel (waitItems (opWaits op).1 (opWaits op).2) ++ List.filterMap itemSkel [oc] = opSkel op oc := by
          simp [opSkel]
        rw [e]
        exact .cons op oc rest _ ho (ih b hb)

/-! ### the un-elided writes of a register program, as the decoder applies them -/

/-- register file after the decoder has processed the (un-elided) writes of a register program -/
def applyWrites (regs : RegFile) : List RegWrite → RegFile
  | [] => regs
  | .w0 r p :: rest => applyWrites (regSet regs ⟨false, r.code⟩ (mask16 p)) rest
  | .w1 r o p :: rest => applyWrites (regSet regs ⟨true, r.code⟩ (mask32 o + 2 ^ 32 * mask16 p)) rest

theorem go_writes (ws : List RegWrite) (rest : List Cmd) (regs : RegFile) (acc : List Event) :
    events.go (ws.map (fun w => itemCmd w.toItem) ++ rest) regs acc = events.go rest (applyWrites regs ws) acc := by
  induction ws generalizing regs with
  | nil => rfl
  | cons w ws ih =>
    cases w with
    | w0 r p =>
      simp only [List.map_cons, List.cons_append, RegWrite.toItem, itemCmd, applyWrites]
      rw [go_set0 _ _ _ _ _ (reg0_range r).1]
      exact ih _
    | w1 r o p =>
      simp only [List.map_cons, List.cons_append, RegWrite.toItem, itemCmd, applyWrites]
      rw [go_set1]
      exact ih _

def Sized (regs : RegFile) : Prop := regs.r0.size = 1024 ∧ regs.r1.size = 1024

theorem sized_regSet (regs : RegFile) (k : Key) (x : Nat) (h : Sized regs) : Sized (regSet regs k x) := by
  have := regSet_size regs k x
  exact ⟨by rw [this.1, h.1], by rw [this.2, h.2]⟩

theorem regVal_regSet' (regs : RegFile) (k k' : Key) (x : Nat) (h : Sized regs) (hc : k.code < 1024) :
    regVal (regSet regs k x) k' = if k = k' then some x else regVal regs k' :=
  regVal_regSet regs k k' x h.1 h.2 hc

theorem get0_of_regVal (r : RegFile) (op v : Nat) (nm : String) (h : regVal r ⟨false, op⟩ = some v) : r.get0 op nm = .ok v := by
  simp only [regVal, Bool.false_eq_true, if_false] at h
  simp [RegFile.get0, h]

theorem get1_of_regVal (r : RegFile) (op v : Nat) (nm : String) (h : regVal r ⟨true, op⟩ = some v) : r.get1 op nm = .ok v := by
  simp only [regVal, if_true] at h
  simp [RegFile.get1, h]

theorem dma_codes : Reg0.dma0SrcRegion.code = Isa.DMA0_SRC_REGION ∧ Reg0.dma0DstRegion.code = Isa.DMA0_DST_REGION ∧
    Reg1.dma0Src.code = Isa.DMA0_SRC ∧ Reg1.dma0Dst.code = Isa.DMA0_DST ∧ Reg1.dma0Len.code = Isa.DMA0_LEN := by decide

theorem addr_fits (a : Int) (h0 : 0 ≤ a) (h1 : a < 2 ^ 48) : mask32 a + 2 ^ 32 * mask16 (a / 4294967296) = a.toNat := by
  unfold mask32 mask16; omega

end VelaVerif.EmitLemmas
