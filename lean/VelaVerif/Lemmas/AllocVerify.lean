import VelaVerif.Lemmas.AllocLinear
/-! Lemmas for C05: `verify_allocation` (time-slot loop) accepts exactly the Spec's allocations. -/
namespace VelaVerif.Alloc
open VelaVerif.Spec.Alloc (Placed NoConflict NoOverlap LiveTogether)

/-- one tensor per live range (how Greedy/HillClimb results are checked) -/
def vPlaced (lr : VLr) (t : VTens) : Placed := ⟨lr.start, lr.end_, lr.size, 1, t.addr, t.eqv + 1⟩

def VLive (lr : VLr) (t : Nat) : Prop := lr.start ≤ t ∧ t ≤ lr.end_

theorem vLiveAt_iff (lr : VLr) (t : Nat) : vLiveAt lr t = true ↔ VLive lr t := by
  simp [vLiveAt, VLive]

theorem le_foldl_maxEnd (l : List VLr) (m : Nat) :
    m ≤ l.foldl (fun m lr => max m lr.end_) m ∧
    ∀ lr ∈ l, lr.end_ ≤ l.foldl (fun m lr => max m lr.end_) m := by
  induction l generalizing m with
  | nil => simp
  | cons x xs ih =>
    simp only [List.foldl_cons, List.mem_cons]
    obtain ⟨h1, h2⟩ := ih (max m x.end_)
    refine ⟨by omega, ?_⟩
    rintro lr (rfl | h)
    · omega
    · exact h2 lr h

/-- the body of the time loop -/
def slotOk (lrs : List VLr) (t : Nat) : Bool :=
  let at_ := lrs.filter (fun lr => vLiveAt lr t)
  let new := at_.filter (fun lr => t == 0 || !vLiveAt lr (t - 1))
  new.all (fun m => at_.all (fun n => verifyPair n m))

theorem slotOk_iff (lrs : List VLr) (t : Nat) :
    slotOk lrs t = true ↔
      ∀ m ∈ lrs, VLive m t → (t = 0 ∨ ¬VLive m (t - 1)) → ∀ n ∈ lrs, VLive n t → verifyPair n m = true := by
  simp only [slotOk, List.all_eq_true, List.mem_filter, Bool.or_eq_true, beq_iff_eq,
    Bool.not_eq_true', ← Bool.not_eq_true, vLiveAt_iff, and_imp]

theorem slots_iff (lrs : List VLr) (hsym : ∀ m ∈ lrs, ∀ n ∈ lrs, verifyPair n m = verifyPair m n) :
    (List.range (1 + lrs.foldl (fun m lr => max m lr.end_) 0)).all (slotOk lrs) = true ↔
      ∀ m ∈ lrs, ∀ n ∈ lrs, (∃ t, VLive m t ∧ VLive n t) → verifyPair n m = true := by
  simp only [List.all_eq_true, List.mem_range, slotOk_iff]
  constructor
  · intro h m hm n hn ⟨t, ⟨h1, h2⟩, ⟨h3, h4⟩⟩
    have hmax := (le_foldl_maxEnd lrs 0).2
    by_cases hc : n.start ≤ m.start
    · -- `m` is new at its own start, `n` is alive there
      refine h m.start (by have := hmax m hm; omega) m hm ⟨by omega, by omega⟩ ?_ n hn ⟨by omega, by omega⟩
      by_cases h0 : m.start = 0
      · exact Or.inl h0
      · right; intro hl; unfold VLive at hl; omega
    · rw [hsym m hm n hn]
      refine h n.start (by have := hmax n hn; omega) n hn ⟨by omega, by omega⟩ ?_ m hm ⟨by omega, by omega⟩
      by_cases h0 : n.start = 0
      · exact Or.inl h0
      · right; intro hl; unfold VLive at hl; omega
  · intro h t _ m hm h1 _ n hn h3
    exact h m hm n hn ⟨t, h1, h3⟩

/-- the pair test on single-tensor ranges of positive size: no address overlap, or equivalent
    tensors at one address -/
theorem verifyPair_single (n m : VLr) (tn tm : VTens) (hn : n.tens = [tn]) (hm : m.tens = [tm])
    (hsn : 0 < n.size) (hsm : 0 < m.size) :
    verifyPair n m = true ↔
      (tn.addr + n.size ≤ tm.addr ∨ tm.addr + m.size ≤ tn.addr) ∨ (tn.eqv = tm.eqv ∧ tn.addr = tm.addr) := by
  unfold verifyPair overlapsAddress
  rw [hn, hm]
  simp only [List.flatMap_cons, List.map_cons, List.map_nil, List.flatMap_nil, List.append_nil,
    List.find?_cons, List.find?_nil]
  by_cases hc : max tn.addr tm.addr < min (tn.addr + n.size) (tm.addr + m.size)
  · simp only [hc, decide_true, Bool.and_eq_true, beq_iff_eq]
    constructor
    · intro h; exact Or.inr h
    · rintro (h | h)
      · omega
      · exact h
  · simp only [hc, decide_false]
    constructor
    · intro _; left; omega
    · intro _; trivial

/-- `verify_allocation` on ranges with one tensor each, positive sizes and a positive alignment
    raises no error **iff** every CPU tensor is aligned and the placements satisfy the Spec's
    `NoOverlap` (equivalence ids as classes). -/
theorem verifyAllocation_iff (lrs : List (VLr × VTens)) (alignment : Nat) (hal : 0 < alignment)
    (hne : lrs ≠ []) (hone : ∀ p ∈ lrs, p.1.tens = [p.2]) (hsz : ∀ p ∈ lrs, 0 < p.1.size) :
    verifyAllocation (lrs.map Prod.fst) alignment = .ok () ↔
      (∀ p ∈ lrs, p.2.cpu = true → alignment ∣ p.2.addr) ∧
      NoOverlap (lrs.map (fun p => vPlaced p.1 p.2)) := by
  have hpair : ∀ p ∈ lrs, ∀ q ∈ lrs, (verifyPair q.1 p.1 = true ↔
      ((q.2.addr + q.1.size ≤ p.2.addr ∨ p.2.addr + p.1.size ≤ q.2.addr) ∨
        (q.2.eqv = p.2.eqv ∧ q.2.addr = p.2.addr))) :=
    fun p hp q hq => verifyPair_single q.1 p.1 q.2 p.2 (hone q hq) (hone p hp) (hsz q hq) (hsz p hp)
  have hsym : ∀ m ∈ lrs.map Prod.fst, ∀ n ∈ lrs.map Prod.fst, verifyPair n m = verifyPair m n := by
    intro m hm n hn
    obtain ⟨p, hp, rfl⟩ := List.mem_map.1 hm
    obtain ⟨q, hq, rfl⟩ := List.mem_map.1 hn
    have h1 := hpair p hp q hq
    have h2 := hpair q hq p hp
    rw [Bool.eq_iff_iff, h1, h2]
    constructor
    · rintro (h | ⟨h, h'⟩)
      · left; omega
      · right; exact ⟨h.symm, h'.symm⟩
    · rintro (h | ⟨h, h'⟩)
      · left; omega
      · right; exact ⟨h.symm, h'.symm⟩
  have halign : verifyAlignment (lrs.map Prod.fst) alignment = .ok () ↔
      ∀ p ∈ lrs, p.2.cpu = true → alignment ∣ p.2.addr := by
    unfold verifyAlignment
    have h0 : (alignment == 0) = false := by simp; omega
    simp only [h0, Bool.false_eq_true, if_false]
    constructor
    · intro h
      split at h
      · rename_i hall
        intro p hp hcpu
        rw [List.all_eq_true] at hall
        have := hall p.1 (List.mem_map_of_mem hp)
        rw [hone p hp] at this
        simp only [List.all_cons, List.all_nil, Bool.and_true, Bool.or_eq_true, Bool.not_eq_true',
          beq_iff_eq] at this
        rcases this with h | h
        · rw [hcpu] at h; cases h
        · exact Nat.dvd_of_mod_eq_zero h
      · cases h
    · intro h
      rw [if_pos]
      rw [List.all_eq_true]
      intro lr hlr
      obtain ⟨p, hp, rfl⟩ := List.mem_map.1 hlr
      rw [hone p hp]
      simp only [List.all_cons, List.all_nil, Bool.and_true, Bool.or_eq_true, Bool.not_eq_true',
        beq_iff_eq]
      by_cases hc : p.2.cpu = true
      · right; exact Nat.mod_eq_zero_of_dvd (h p hp hc)
      · left; simpa using hc
  have hloop := slots_iff (lrs.map Prod.fst) hsym
  -- the pairs condition as `NoOverlap`
  have hspec : (∀ m ∈ lrs.map Prod.fst, ∀ n ∈ lrs.map Prod.fst, (∃ t, VLive m t ∧ VLive n t) →
      verifyPair n m = true) ↔ NoOverlap (lrs.map (fun p => vPlaced p.1 p.2)) := by
    unfold NoOverlap
    rw [List.pairwise_map]
    constructor
    · intro h
      apply List.Pairwise.imp_of_mem (R := fun _ _ => True) _ (List.pairwise_of_forall (fun _ _ => trivial))
      intro p q hp hq _ hlive
      obtain ⟨t, h1, h2⟩ := hlive
      have := h p.1 (List.mem_map_of_mem hp) q.1 (List.mem_map_of_mem hq) ⟨t, h1, h2⟩
      rw [hpair p hp q hq] at this
      rcases this with h | ⟨h, h'⟩
      · left; simp only [Spec.Alloc.Disjoint, vPlaced]; omega
      · right; exact ⟨by simp [vPlaced], by simp [vPlaced, h], by simp [vPlaced, h']⟩
    · intro h m hm n hn hlive
      obtain ⟨p, hp, rfl⟩ := List.mem_map.1 hm
      obtain ⟨q, hq, rfl⟩ := List.mem_map.1 hn
      rw [hpair p hp q hq]
      by_cases heq : p = q
      · subst heq; right; exact ⟨rfl, rfl⟩
      · obtain ⟨t, h1, h2⟩ := hlive
        have hR : ∀ a b : VLr × VTens, NoConflict (vPlaced a.1 a.2) (vPlaced b.1 b.2) →
            (∃ t, VLive a.1 t ∧ VLive b.1 t) →
            ((a.2.addr + a.1.size ≤ b.2.addr ∨ b.2.addr + b.1.size ≤ a.2.addr) ∨
              (a.2.eqv = b.2.eqv ∧ a.2.addr = b.2.addr)) := by
          intro a b hab ⟨t, h1, h2⟩
          rcases hab ⟨t, h1, h2⟩ with h | ⟨_, h, h'⟩
          · left; simp only [Spec.Alloc.Disjoint, vPlaced] at h; exact h
          · right; simp only [vPlaced] at h h'; exact ⟨by omega, h'⟩
        rcases pairwise_mem_ne h hp hq heq with h' | h'
        · have := hR p q h' ⟨t, h1, h2⟩
          rcases this with h | ⟨h, h''⟩
          · left; omega
          · right; exact ⟨h.symm, h''.symm⟩
        · exact hR q p h' ⟨t, h2, h1⟩
  unfold verifyAllocation
  cases hva : verifyAlignment (lrs.map Prod.fst) alignment with
  | error e =>
    simp only
    constructor
    · intro h; cases h
    · intro ⟨h, _⟩
      rw [halign.2 h] at hva; cases hva
  | ok u =>
    simp only
    have hnotempty : (lrs.map Prod.fst).isEmpty = false := by
      cases lrs with
      | nil => exact absurd rfl hne
      | cons _ _ => rfl
    simp only [hnotempty, Bool.false_eq_true, if_false]
    have hslots : (List.range (1 + (lrs.map Prod.fst).foldl (fun m lr => max m lr.end_) 0)).all
        (fun t =>
          let at_ := (lrs.map Prod.fst).filter (fun lr => vLiveAt lr t)
          let new := at_.filter (fun lr => t == 0 || !vLiveAt lr (t - 1))
          new.all (fun m => at_.all (fun n => verifyPair n m))) =
        (List.range (1 + (lrs.map Prod.fst).foldl (fun m lr => max m lr.end_) 0)).all
          (slotOk (lrs.map Prod.fst)) := rfl
    rw [hslots]
    constructor
    · intro h
      split at h
      · rename_i hall
        exact ⟨halign.1 (by rw [hva]), hspec.1 (hloop.1 hall)⟩
      · cases h
    · intro ⟨_, h2⟩
      rw [if_pos (hloop.2 (hspec.2 h2))]

end VelaVerif.Alloc
