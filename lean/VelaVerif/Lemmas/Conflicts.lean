import VelaVerif.Spec.Conflicts
import VelaVerif.Props.C02
/-!
# The byte-overlap test of `Spec/Conflicts.lean` is the byte-level statement

`piecesOverlap x y = true ↔ some byte lies in a piece of x and in a piece of y`
(hull pre-filter, sorting, sweep).
-/
namespace VelaVerif.Lemmas.Conflicts
open VelaVerif.Conflicts VelaVerif.Footprint

/-- start-sorted, non-empty intervals -/
def IWF (l : List (Nat × Nat)) : Prop := l.Pairwise (fun r s => r.1 ≤ s.1) ∧ ∀ r ∈ l, r.1 < r.2

def anyOverlap (a b : List (Nat × Nat)) : Bool :=
  a.any fun r => b.any fun s => decide (max r.1 s.1 < min r.2 s.2)

theorem anyOverlap_nil_right (a : List (Nat × Nat)) : anyOverlap a [] = false := by simp [anyOverlap]

theorem anyOverlap_cons_left (r : Nat × Nat) (a b : List (Nat × Nat)) :
    anyOverlap (r :: a) b = (b.any (fun s => decide (max r.1 s.1 < min r.2 s.2)) || anyOverlap a b) := by
  simp [anyOverlap]

theorem anyOverlap_cons_right (s : Nat × Nat) (a b : List (Nat × Nat)) :
    anyOverlap a (s :: b) = (a.any (fun r => decide (max r.1 s.1 < min r.2 s.2)) || anyOverlap a b) := by
  induction a with
  | nil => simp [anyOverlap]
  | cons r a ih =>
    rw [anyOverlap_cons_left, anyOverlap_cons_left, ih]
    simp only [List.any_cons]
    cases decide (max r.1 s.1 < min r.2 s.2) <;> cases b.any (fun s => decide (max r.1 s.1 < min r.2 s.2)) <;> simp

theorem IWF.tail {r : Nat × Nat} {l : List (Nat × Nat)} (h : IWF (r :: l)) : IWF l :=
  ⟨(List.pairwise_cons.mp h.1).2, fun x hx => h.2 x (List.mem_cons_of_mem _ hx)⟩

theorem IWF.head_le {r : Nat × Nat} {l : List (Nat × Nat)} (h : IWF (r :: l)) : ∀ s ∈ r :: l, r.1 ≤ s.1 := by
  intro s hs
  rcases List.mem_cons.mp hs with rfl | hs
  · exact Nat.le_refl _
  · exact (List.pairwise_cons.mp h.1).1 s hs

theorem sweep_eq (a b : List (Nat × Nat)) (ha : IWF a) (hb : IWF b) : sweep a b = anyOverlap a b := by
  fun_induction sweep a b with
  | case1 b => simp [anyOverlap]
  | case2 r as => rw [anyOverlap_nil_right]
  | case3 ar as br bs hov =>
    have : anyOverlap (ar :: as) (br :: bs) = true := by
      simp only [anyOverlap, List.any_cons, hov, decide_true, Bool.true_or]
    rw [this]
  | case4 ar as br bs hov hlt ih =>
    rw [ih ha.tail hb, anyOverlap_cons_left]
    have hne : (br :: bs).any (fun s => decide (max ar.1 s.1 < min ar.2 s.2)) = false := by
      rw [List.any_eq_false]
      intro s hs
      have h1 := hb.head_le s hs
      have h2 := hb.2 br (List.mem_cons_self ..)
      simp only [decide_eq_true_eq]
      omega
    rw [hne, Bool.false_or]
  | case5 ar as br bs hov hlt ih =>
    rw [ih ha hb.tail, anyOverlap_cons_right]
    have hn : (ar :: as).any (fun r => decide (max r.1 br.1 < min r.2 br.2)) = false := by
      rw [List.any_eq_false]
      intro r hr
      have h1 := ha.head_le r hr
      have h2 := ha.2 ar (List.mem_cons_self ..)
      have h3 := hb.2 br (List.mem_cons_self ..)
      simp only [decide_eq_true_eq]
      omega
    rw [hn, Bool.false_or]

theorem mem_intervals {ps : List Piece} {iv : Nat × Nat} :
    iv ∈ intervals ps ↔ ∃ p ∈ ps, p.len > 0 ∧ iv = (p.addr, p.addr + p.len) := by
  simp only [intervals, List.mem_mergeSort, List.mem_map, List.mem_filter, decide_eq_true_eq]
  constructor
  · rintro ⟨p, ⟨hp, hl⟩, rfl⟩; exact ⟨p, hp, hl, rfl⟩
  · rintro ⟨p, hp, hl, rfl⟩; exact ⟨p, ⟨hp, hl⟩, rfl⟩

theorem intervals_wf (ps : List Piece) : IWF (intervals ps) := by
  constructor
  · have := List.pairwise_mergeSort (le := fun (a b : Nat × Nat) => decide (a.1 ≤ b.1))
      (fun a b c h1 h2 => by simp only [decide_eq_true_eq] at *; omega)
      (fun a b => by simp only [Bool.or_eq_true, decide_eq_true_eq]; omega)
      ((ps.filter (fun p => p.len > 0)).map fun p => (p.addr, p.addr + p.len))
    simpa [intervals] using this
  · intro r hr
    obtain ⟨p, _, hl, rfl⟩ := mem_intervals.mp hr
    simp only; omega

/-- byte-level meaning of an overlap of two pieces -/
def shareByte (p q : Piece) : Prop := ∃ b, p.addr ≤ b ∧ b < p.addr + p.len ∧ q.addr ≤ b ∧ b < q.addr + q.len

theorem shareByte_iff (p q : Piece) :
    shareByte p q ↔ max p.addr q.addr < min (p.addr + p.len) (q.addr + q.len) := by
  constructor
  · rintro ⟨b, h1, h2, h3, h4⟩; omega
  · intro h; exact ⟨max p.addr q.addr, by omega, by omega, by omega, by omega⟩

theorem anyOverlap_intervals_iff (x y : List Piece) :
    anyOverlap (intervals x) (intervals y) = true ↔ ∃ p ∈ x, ∃ q ∈ y, shareByte p q := by
  simp only [anyOverlap, List.any_eq_true, decide_eq_true_eq]
  constructor
  · rintro ⟨r, hr, s, hs, hov⟩
    obtain ⟨p, hp, _, rfl⟩ := mem_intervals.mp hr
    obtain ⟨q, hq, _, rfl⟩ := mem_intervals.mp hs
    exact ⟨p, hp, q, hq, (shareByte_iff p q).mpr hov⟩
  · rintro ⟨p, hp, q, hq, hsb⟩
    have hov := (shareByte_iff p q).mp hsb
    have hpl : p.len > 0 := by omega
    have hql : q.len > 0 := by omega
    exact ⟨_, mem_intervals.mpr ⟨p, hp, hpl, rfl⟩, _, mem_intervals.mpr ⟨q, hq, hql, rfl⟩, hov⟩

/-- **The overlap test of the Spec is exact.** -/
theorem piecesOverlap_iff (x y : List Piece) :
    piecesOverlap x y = true ↔ ∃ p ∈ x, ∃ q ∈ y, shareByte p q := by
  unfold piecesOverlap
  cases hx : hull x with
  | none =>
    have : x = [] := by
      cases x with
      | nil => rfl
      | cons a l => simp [hull] at hx
    simp [this]
  | some hxv =>
    obtain ⟨xl, xh⟩ := hxv
    cases hy : hull y with
    | none =>
      have : y = [] := by
        cases y with
        | nil => rfl
        | cons a l => simp [hull] at hy
      simp [this]
    | some hyv =>
      obtain ⟨yl, yh⟩ := hyv
      simp only
      split
      · rw [sweep_eq _ _ (intervals_wf x) (intervals_wf y)]
        exact anyOverlap_intervals_iff x y
      · rename_i hno
        constructor
        · intro h; exact absurd h (by simp)
        · rintro ⟨p, hp, q, hq, b, h1, h2, h3, h4⟩
          have hcx := VelaVerif.Props.C02.hull_covers x xl xh hx p hp
          have hcy := VelaVerif.Props.C02.hull_covers y yl yh hy q hq
          exfalso; omega

end VelaVerif.Lemmas.Conflicts
