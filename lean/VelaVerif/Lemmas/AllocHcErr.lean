import VelaVerif.Lemmas.AllocHc
/-! Lemmas for C05: which errors the HillClimb model can produce (the fuel markers are unreachable). -/
namespace VelaVerif.Alloc
open VelaVerif.Gen.AllocConst

/-- every error `x` can produce satisfies `S` -/
def ErrIn {α : Type} (S : Err → Prop) (x : Except Err α) : Prop := ∀ e, x = .error e → S e

theorem errIn_ok {α : Type} {S : Err → Prop} (a : α) : ErrIn S (Except.ok a) := by
  intro e h; cases h

theorem errIn_pure {α : Type} {S : Err → Prop} (a : α) : ErrIn S (pure a : Except Err α) := by
  intro e h; cases h

theorem errIn_error {α : Type} {S : Err → Prop} {e : Err} (h : S e) : ErrIn S (Except.error e : Except Err α) := by
  intro e' h'; injection h' with h'; subst h'; exact h

theorem errIn_bind {α β : Type} {S : Err → Prop} {x : Except Err α} {f : α → Except Err β}
    (hx : ErrIn S x) (hf : ∀ a, ErrIn S (f a)) : ErrIn S (x >>= f) := by
  intro e h
  cases x with
  | error e' =>
    simp only [bind, Except.bind] at h
    injection h with h; subst h; exact hx _ rfl
  | ok a => exact hf a e h

theorem errIn_ite {α : Type} {S : Err → Prop} {c : Prop} [Decidable c] {a b : Except Err α}
    (ha : ErrIn S a) (hb : ErrIn S b) : ErrIn S (if c then a else b) := by
  split <;> assumption

theorem errIn_mapM {α β : Type} {S : Err → Prop} (f : α → Except Err β) (l : List α)
    (hf : ∀ a, ErrIn S (f a)) : ErrIn S (l.mapM f) := by
  induction l with
  | nil => rw [List.mapM_nil]; exact errIn_pure _
  | cons x xs ih =>
    rw [List.mapM_cons]
    exact errIn_bind (hf x) (fun _ => errIn_bind ih (fun _ => errIn_pure _))

/-- the errors that are Python outcomes or oracle misuse — everything but the two fuel markers -/
def NotFuel (e : Err) : Prop := e ≠ .fuel ∧ e ≠ .lrfuel

theorem randint_err (draws : List Nat) (n k : Nat) : ErrIn NotFuel (randint draws n k) := by
  unfold randint
  split
  · exact errIn_error ⟨by decide, by decide⟩
  · split
    · exact errIn_error ⟨by decide, by decide⟩
    · exact errIn_ok _

theorem swapIdx_err (l : List Nat) (i j : Nat) : ErrIn NotFuel (swapIdx l i j) := by
  unfold swapIdx
  split
  · exact errIn_ok _
  · exact errIn_error ⟨by decide, by decide⟩

theorem predChain_err (dyn : Array Dyn) : ∀ (fuel id : Nat) (tl : Array Nat), ErrIn NotFuel (predChain dyn fuel id tl) := by
  intro fuel
  induction fuel with
  | zero =>
    intro id tl
    unfold predChain
    split
    · exact errIn_ok _
    · exact errIn_error ⟨by decide, by decide⟩
  | succ f ih =>
    intro id tl
    unfold predChain
    split
    · exact errIn_ok _
    · exact ih _ _

theorem addPredTurns_err (dyn : Array Dyn) (tl : Array Nat) (id : Nat) : ErrIn NotFuel (addPredTurns dyn tl id) :=
  predChain_err dyn _ _ _

theorem foldAddPred_err (dyn : Array Dyn) : ∀ (js : List Nat) (tl : Array Nat), ErrIn NotFuel (foldAddPred dyn js tl) := by
  intro js
  induction js with
  | nil => intro tl; exact errIn_ok _
  | cons j js ih =>
    intro tl
    unfold foldAddPred
    split
    · rename_i e he
      exact errIn_error (addPredTurns_err dyn tl j e he)
    · exact ih _

theorem hcFix_err (infos : Array Info) (dyn : Array Dyn) (indices : List Nat) (stuck : Nat) (draws : List Nat) :
    ErrIn NotFuel (hcFix infos dyn indices stuck draws) := by
  unfold hcFix
  apply errIn_bind (addPredTurns_err _ _ _); intro tl0
  apply errIn_bind (foldAddPred_err _ _ _); intro tl
  apply errIn_bind
  · apply errIn_mapM
    intro turn
    split
    · split
      · exact errIn_ok _
      · exact errIn_error ⟨by decide, by decide⟩
    · exact errIn_error ⟨by decide, by decide⟩
  intro lrAt
  dsimp only
  refine errIn_ite (errIn_pure _) ?_
  refine errIn_bind (randint_err _ _ _) ?_; intro x0
  refine errIn_ite ?_ ?_ <;>
  ( refine errIn_bind (randint_err _ _ _) ?_; intro x1
    refine errIn_bind ?_ ?_
    · exact errIn_pure _
    intro x2
    refine errIn_bind (randint_err _ _ _) ?_; intro x3
    refine errIn_bind (swapIdx_err _ _ _) ?_; intro indices2
    refine errIn_ite ?_ (errIn_pure _)
    refine errIn_bind ?_ ?_
    · apply errIn_mapM
      intro turn
      split
      · split
        · exact errIn_ok _
        · exact errIn_error ⟨by decide, by decide⟩
      · exact errIn_error ⟨by decide, by decide⟩
    intro nbTurns
    refine errIn_bind (randint_err _ _ _) ?_; intro x4
    refine errIn_bind (randint_err _ _ _) ?_; intro x5
    refine errIn_bind (swapIdx_err _ _ _) ?_; intro indices3
    exact errIn_pure _ )

theorem lrLoop_err (dyn : Array Dyn) (size align : Nat) (nbrs : List Nat) :
    ∀ (fuel address : Nat) (pred : Option Nat),
      ErrIn (fun e => e = .zerodiv ∨ e = .lrfuel) (lrLoop dyn size align nbrs fuel address pred) := by
  intro fuel
  induction fuel with
  | zero =>
    intro address pred
    unfold lrLoop
    simp only
    split
    · exact errIn_ok _
    · split
      · exact errIn_error (Or.inl rfl)
      · exact errIn_error (Or.inr rfl)
  | succ f ih =>
    intro address pred
    unfold lrLoop
    simp only
    split
    · exact errIn_ok _
    · split
      · exact errIn_error (Or.inl rfl)
      · exact ih _ _

theorem hcAllocateLr_err (infos : Array Info) (dyn : Array Dyn) (id : Nat) :
    ErrIn NotFuel (hcAllocateLr infos dyn id) := by
  intro e he
  have h1 := hcAllocateLr_no_fuel_error infos dyn id
  have h2 : e = .zerodiv ∨ e = .lrfuel := by
    unfold hcAllocateLr at he
    exact lrLoop_err _ _ _ _ _ _ _ e he
  rcases h2 with rfl | rfl
  · exact ⟨by decide, by decide⟩
  · exact absurd he h1

theorem hcAllocGo_err (infos : Array Info) (best : Nat) :
    ∀ (ixs : List Nat) (turn : Nat) (dyn : Array Dyn) (size : Nat),
      ErrIn NotFuel (hcAllocGo infos best ixs turn dyn size) := by
  intro ixs
  induction ixs with
  | nil => intro turn dyn size; exact errIn_ok _
  | cons ix rest ih =>
    intro turn dyn size
    unfold hcAllocGo
    split
    · split
      · rename_i e he
        exact errIn_error (hcAllocateLr_err infos dyn ix e he)
      · simp only
        split
        · exact errIn_ok _
        · exact ih _ _ _
    · exact errIn_error ⟨by decide, by decide⟩

theorem hcAllocateIndices_err (infos : Array Info) (dyn : Array Dyn) (ixs : List Nat) (best : Nat) :
    ErrIn NotFuel (hcAllocateIndices infos dyn ixs best) := hcAllocGo_err infos best ixs 0 _ 0

theorem hcSearch_err (infos : Array Info) (minReq memLimit maxIter : Nat) :
    ∀ (fuel : Nat) (dyn : Array Dyn) (indices bestIndices : List Nat) (best last i : Nat)
      (alloc : Array (Option Nat)) (draws : List Nat),
      ErrIn NotFuel (hcSearch infos minReq memLimit maxIter fuel dyn indices bestIndices best last i alloc draws) := by
  intro fuel
  induction fuel with
  | zero =>
    intro dyn indices bestIndices best last i alloc draws
    unfold hcSearch
    split <;> exact errIn_ok _
  | succ f ih =>
    intro dyn indices bestIndices best last i alloc draws
    unfold hcSearch
    split
    · simp only
      split
      · rename_i e he
        exact errIn_error (hcFix_err _ _ _ _ _ e he)
      · split
        · rename_i e he
          exact errIn_error (hcAllocateIndices_err _ _ _ _ e he)
        · split
          · split
            · exact errIn_ok _
            · exact ih _ _ _ _ _ _ _ _
          · exact ih _ _ _ _ _ _ _ _
    · exact errIn_ok _

/-- the only way `hcAllocate` can report a fuel marker is `hcSearch` running out of fuel -/
theorem hcAllocate_no_fuel (lrs : List LR) (maxIter : Option Nat) (memLimit : Nat) (draws : List Nat) :
    hcAllocate lrs maxIter memLimit draws ≠ .error .fuel ∧
    hcAllocate lrs maxIter memLimit draws ≠ .error .lrfuel := by
  have key : ErrIn NotFuel (hcAllocate lrs maxIter memLimit draws) := by
    unfold hcAllocate
    simp only
    split
    · rename_i e he
      exact errIn_error (hcAllocateIndices_err _ _ _ _ e he)
    · rename_i dyn1 best hai
      have hfin : ∀ (r : SearchResult), ErrIn NotFuel
          (match r.alloc.toList.mapM id with
            | some addrs => (Except.ok ⟨addrs, r.iters, r.drawsLeft⟩ : Except Err HcResult)
            | none => .error .unalloc) := by
        intro r
        split
        · exact errIn_ok _
        · exact errIn_error ⟨by decide, by decide⟩
      split
      · split
        · rename_i e he
          exact errIn_error (hcSearch_err _ _ _ _ _ _ _ _ _ _ _ _ _ e he)
        · rename_i hnone
          exact absurd hnone (by
            apply hcSearch_terminates
            unfold searchFuel
            simp only [hcMinIterationsImprove]
            omega)
        · exact hfin _
      · exact hfin ⟨snapshot dyn1, 0, draws, best⟩
  exact ⟨fun h => (key _ h).1 rfl, fun h => (key _ h).2 rfl⟩
end VelaVerif.Alloc
