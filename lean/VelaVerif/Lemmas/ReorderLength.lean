import VelaVerif.Lemmas.Reorder
import Mathlib.Tactic.Ring
/-! The padded length of the traversal in closed form (`reorder_length`). -/
namespace VelaVerif.Reorder
open List

theorem length_flatMap_const {α β : Type} (l : List α) (f : α → List β) (k : Nat)
    (h : ∀ a ∈ l, (f a).length = k) : (l.flatMap f).length = l.length * k := by
  induction l with
  | nil => simp
  | cons x xs ih =>
    rw [flatMap_cons, length_append, h x mem_cons_self, ih (fun a ha => h a (mem_cons_of_mem _ ha)), length_cons]
    ring

theorem sum_map_mul_left (l : List Nat) (g : Nat → Nat) (c : Nat) :
    (l.map (fun a => c * g a)).sum = c * (l.map g).sum := by
  induction l with
  | nil => simp
  | cons x xs ih => simp only [map_cons, sum_cons, ih]; ring

/-- telescoping sum over `for (b = 0; b < …; b += s)` -/
theorem sum_range_tele (s : Nat) (g G : Nat → Nat) (h0 : G 0 = 0) :
    ∀ k, (∀ j, j < k → G (j * s) + g (j * s) = G ((j + 1) * s)) →
      ((range k).map (fun j => g (j * s))).sum = G (k * s)
  | 0, _ => by simp [h0]
  | k + 1, h => by
    rw [range_succ, map_append, sum_append, sum_range_tele s g G h0 k (fun j hj => h j (by omega))]
    simp only [map_cons, map_nil, sum_cons, sum_nil, Nat.add_zero]
    exact h k (by omega)

theorem sum_stepRange (n s : Nat) (g G : Nat → Nat) (h0 : G 0 = 0)
    (hstep : ∀ m, s ∣ m → m < n → G m + g m = G (m + s)) (hs : 0 < s) :
    ((stepRange n s).map g).sum = G ((n + s - 1) / s * s) := by
  unfold stepRange
  rw [map_map]
  refine sum_range_tele s g G h0 _ ?_
  intro j hj
  have h1 : j + 1 ≤ (n + s - 1) / s := hj
  rw [Nat.le_div_iff_mul_le hs] at h1
  have h2 : (j + 1) * s = j * s + s := by ring
  rw [h2]
  exact hstep (j * s) (Nat.dvd_mul_left s j) (by omega)

theorem ceil_mul_ge (n s : Nat) (hs : 0 < s) : n ≤ (n + s - 1) / s * s := le_roundUp n s hs

/-- the clipped block sizes add up to the whole -/
theorem sum_stepRange_min (n s : Nat) (hs : 0 < s) :
    ((stepRange n s).map (fun b => min (n - b) s)).sum = n := by
  rw [sum_stepRange n s _ (fun m => min n m) (by simp) (by intro m _ _; omega) hs]
  have := ceil_mul_ge n s hs
  omega

theorem roundUp_of_dvd {n d : Nat} (hd : 0 < d) (h : d ∣ n) : roundUp n d = n := by
  obtain ⟨k, rfl⟩ := h
  unfold roundUp
  have : (d * k + d - 1) / d = k := by
    rw [show d * k + d - 1 = d - 1 + d * k by omega, Nat.add_mul_div_left _ _ hd, Nat.div_eq_of_lt (by omega)]
    omega
  rw [this, Nat.mul_comm]

theorem roundUp_add_of_dvd {m x d : Nat} (hd : 0 < d) (h : d ∣ m) : roundUp (m + x) d = m + roundUp x d := by
  obtain ⟨k, rfl⟩ := h
  unfold roundUp
  rw [show d * k + x + d - 1 = x + d - 1 + d * k by omega, Nat.add_mul_div_left _ _ hd]
  ring

theorem roundUp_dvd (n d : Nat) : d ∣ roundUp n d := Nat.dvd_mul_left d _

/-- the micro-block-padded clipped OFM block depths add up to the padded OFM depth -/
theorem sum_stepRange_roundUp_min (n s d : Nat) (hs : 0 < s) (hd : 0 < d) (hds : d ∣ s) :
    ((stepRange n s).map (fun b => roundUp (min s (n - b)) d)).sum = roundUp n d := by
  rw [sum_stepRange n s _ (fun m => roundUp (min n m) d) (by simp [roundUp]; omega) ?_ hs]
  · have := ceil_mul_ge n s hs
    rw [Nat.min_eq_left this]
  · intro m hm hlt
    have hdm : d ∣ m := Nat.dvd_trans hds hm
    show roundUp (min n m) d + roundUp (min s (n - m)) d = roundUp (min n (m + s)) d
    rw [Nat.min_eq_right (by omega : m ≤ n), roundUp_of_dvd hd hdm]
    rw [show min n (m + s) = m + min s (n - m) by omega, roundUp_add_of_dvd hd hdm]


theorem length_stepRange_one {s : Nat} (hs : 0 < s) : (stepRange 1 s).length = 1 := by
  rw [length_stepRange]
  exact Nat.div_eq_of_lt_le (by omega) (by omega)

theorem length_stepRange_mul (n s : Nat) : (stepRange n s).length * s = roundUp n s := by
  rw [length_stepRange]; rfl

/-- IFM factor of one sub-kernel: micro-block-padded clipped IFM block depth, or 1 element for depthwise -/
def ifmWidth (p : Params) (clIfm : Nat) : Nat :=
  if p.isDepthwise then (stepRange clIfm p.ifmUblockDepth).length else roundUp clIfm p.ifmUblockDepth

/-- number of values one sub-kernel contributes (all traversals) -/
theorem length_subkernel {p : Params} (hiu : 0 < p.ifmUblockDepth) (B cl Bi clIfm sy sx subH subW : Nat) :
    (subkernel p B cl Bi clIfm sy sx subH subW).length =
      roundUp cl p.ofmUblockDepth * p.subkernelElements subW subH * ifmWidth p clIfm := by
  unfold subkernel
  simp only []
  generalize p.subkernelElements subW subH = elems
  generalize hizn : (if p.isDepthwise = true then 1 else p.ifmUblockDepth) = izN
  generalize hout : (if p.isPartkernel = true then clIfm else 1) = outer
  generalize hinn : (if p.isPartkernel = true then 1 else clIfm) = inner
  have hW : (stepRange outer p.ifmUblockDepth).length * ((stepRange inner p.ifmUblockDepth).length * izN) = ifmWidth p clIfm := by
    unfold ifmWidth
    subst hizn hout hinn
    by_cases hpk : p.isPartkernel = true <;> by_cases hdw : p.isDepthwise = true <;>
      simp only [hpk, hdw, if_true, if_false, Bool.false_eq_true, length_stepRange_one hiu, ← length_stepRange_mul clIfm] <;> ring
  rw [length_flatMap_const _ _ (roundUp cl p.ofmUblockDepth * elems * ((stepRange inner p.ifmUblockDepth).length * izN))]
  · rw [← hW]; ring
  intro io _
  rw [length_flatMap_const _ _ (p.ofmUblockDepth * (elems * ((stepRange inner p.ifmUblockDepth).length * izN)))]
  · rw [← length_stepRange_mul cl]; ring
  intro ub _
  rw [length_flatMap_const _ _ ((stepRange inner p.ifmUblockDepth).length * izN * p.ofmUblockDepth)]
  · rw [length_range]; ring
  intro e _
  rw [length_flatMap_const _ _ (p.ofmUblockDepth * izN)]
  · ring
  intro ii _
  rw [length_flatMap_const _ _ izN]
  · rw [length_range]
  intro uz _
  rw [length_map, length_range]

theorem sum_map_const_mul (l : List Nat) (g : Nat → Nat) (c : Nat) :
    (l.map (fun a => g a * c)).sum = (l.map g).sum * c := by
  induction l with
  | nil => simp
  | cons x xs ih => simp only [map_cons, sum_cons, ih]; ring

/-- number of values one brick contributes -/
theorem length_brick {p : Params} (v : ValidConfig p) (B cl Bi : Nat) :
    (brick p B cl Bi).length = roundUp cl p.ofmUblockDepth * kernelElems p * ifmWidth p (clippedIfm p Bi) := by
  unfold brick kernelElems
  simp only []
  rw [length_flatMap]
  simp only [length_flatMap, length_subkernel v.iuPos]
  have : ∀ sy sx, roundUp cl p.ofmUblockDepth * p.subkernelElements (min (p.kw - sx) p.decompW) (min (p.kh - sy) p.decompH) *
      ifmWidth p (clippedIfm p Bi) =
      p.subkernelElements (min (p.kw - sx) p.decompW) (min (p.kh - sy) p.decompH) *
        (roundUp cl p.ofmUblockDepth * ifmWidth p (clippedIfm p Bi)) := by
    intro sy sx; ring
  simp only [this]
  simp only [sum_map_const_mul _ (fun sx => p.subkernelElements (min (p.kw - sx) p.decompW) (min (p.kh - _) p.decompH))]
  rw [sum_map_const_mul _ (fun sy => ((stepRange p.kw p.decompW).map fun sx =>
      p.subkernelElements (min (p.kw - sx) p.decompW) (min (p.kh - sy) p.decompH)).sum)]
  ring

theorem sum_ifmWidth {p : Params} (v : ValidConfig p) :
    ((stepRange (if p.isDepthwise then 1 else p.ifmDepth) p.ifmBlockDepth).map fun Bi =>
      ifmWidth p (clippedIfm p Bi)).sum = ifmFactor p := by
  have hibd := ifmBlockDepth_pos p
  unfold ifmFactor
  by_cases hdw : p.isDepthwise = true
  · simp only [hdw, if_true, ifmWidth, clippedIfm]
    have h1 : stepRange 1 p.ifmBlockDepth = [0] := by
      unfold stepRange
      rw [show (1 + p.ifmBlockDepth - 1) / p.ifmBlockDepth = 1 from Nat.div_eq_of_lt_le (by omega) (by omega)]
      simp [range_succ]
    have h2 : (stepRange p.ifmUblockDepth p.ifmUblockDepth).length = 1 := by
      rw [length_stepRange]
      have := v.iuPos
      exact Nat.div_eq_of_lt_le (by omega) (by omega)
    simp [h1, h2]
  · simp only [hdw, Bool.false_eq_true, if_false, ifmWidth, clippedIfm]
    by_cases hpk : p.isPartkernel = true
    · simp only [hpk, if_true]
      exact sum_stepRange_roundUp_min _ _ _ hibd v.iuPos v.iuDvd
    · simp only [hpk, Bool.false_eq_true, if_false, roundUp_of_dvd v.iuPos v.iuDvd]
      have hconst : ∀ l : List Nat, (l.map fun _ => p.ifmBlockDepth).sum = l.length * p.ifmBlockDepth := by
        intro l
        induction l with
        | nil => simp
        | cons x xs ih => simp only [map_cons, sum_cons, ih, length_cons]; ring
      rw [hconst]
      exact length_stepRange_mul _ _

/-- `reorder_length`: the padded length in closed form, all traversals -/
theorem length_traverse {p : Params} (v : ValidConfig p) :
    (traverse p).length = roundUp p.ofmDepth p.ofmUblockDepth * kernelElems p * ifmFactor p := by
  unfold traverse
  simp only []
  rw [length_flatMap]
  simp only [length_flatMap, length_brick v]
  have : ∀ B Bi, roundUp (min p.ofmBlockDepth (p.ofmDepth - B)) p.ofmUblockDepth * kernelElems p * ifmWidth p (clippedIfm p Bi) =
      ifmWidth p (clippedIfm p Bi) * (roundUp (min p.ofmBlockDepth (p.ofmDepth - B)) p.ofmUblockDepth * kernelElems p) := by
    intro B Bi; ring
  simp only [this]
  simp only [sum_map_const_mul _ (fun Bi => ifmWidth p (clippedIfm p Bi)), sum_ifmWidth v]
  have h2 : ∀ B, ifmFactor p * (roundUp (min p.ofmBlockDepth (p.ofmDepth - B)) p.ofmUblockDepth * kernelElems p) =
      roundUp (min p.ofmBlockDepth (p.ofmDepth - B)) p.ofmUblockDepth * (kernelElems p * ifmFactor p) := by
    intro B; ring
  simp only [h2]
  rw [sum_map_const_mul _ (fun B => roundUp (min p.ofmBlockDepth (p.ofmDepth - B)) p.ofmUblockDepth),
    sum_stepRange_roundUp_min _ _ _ v.obdPos v.ouPos v.ouDvd]
  ring

/-- depth-first: no kernel padding -/
theorem kernelElems_df {p : Params} (v : ValidConfig p) (hdw : p.isDepthwise = false) (hpk : p.isPartkernel = false) :
    kernelElems p = p.kh * p.kw := by
  unfold kernelElems
  simp only [Params.subkernelElements, hdw, hpk, Bool.false_eq_true, if_false]
  simp only [sum_map_const_mul _ (fun sx => min (p.kw - sx) p.decompW), sum_stepRange_min _ _ v.dwPos]
  have : ∀ sy, p.kw * min (p.kh - sy) p.decompH = min (p.kh - sy) p.decompH * p.kw := by intro; ring
  simp only [this]
  rw [sum_map_const_mul _ (fun sy => min (p.kh - sy) p.decompH), sum_stepRange_min _ _ v.dhPos]

end VelaVerif.Reorder
