import VelaVerif.Lemmas.PyRt
import VelaVerif.Gen.SrcNumericUtil
/-!
# The translated `numeric_util.py` on Python ints, in closed form

`round_up`, `round_down`, `round_up_divide`, `overlaps` evaluated on Python-int arguments.  Python's `//`
is floor division (`Int.fdiv`); for a positive divisor that is Lean's `/` on `Int`, which is what all
hand models use (they call these helpers with positive quanta only); a zero divisor raises
`ZeroDivisionError` in Python, which no model reproduces (Lean's `x / 0 = 0`), hence the hypothesis.
-/
namespace VelaVerif.SrcNumericUtil
open VelaVerif VelaVerif.PyRt
open VelaVerif.Gen.SrcNumericUtil

theorem round_up_py (a b : Int) (hb : 0 < b) :
    round_up (.py a) (.py b) = .ok (.py ((a + b - 1) / b * b)) := by
  py_exec [round_up, if_neg]
  try py_congr

theorem round_down_py (a b : Int) (hb : 0 < b) :
    round_down (.py a) (.py b) = .ok (.py (a / b * b)) := by
  py_exec [round_down, if_neg]
  try py_congr

theorem round_up_divide_py (a b : Int) (hb : 0 < b) :
    round_up_divide (.py a) (.py b) = .ok (.py ((a + b - 1) / b)) := by
  py_exec [round_up_divide, if_neg]
  try py_congr

theorem round_up_zero (a : Int) : round_up (.py a) (.py 0) = .error .zerodiv := by
  py_exec [round_up]

theorem round_up_divide_zero (a : Int) : round_up_divide (.py a) (.py 0) = .error .zerodiv := by
  py_exec [round_up_divide]

theorem overlaps_py (s1 e1 s2 e2 : Int) :
    overlaps (.py s1) (.py e1) (.py s2) (.py e2) = .ok (decide (s1 < e2) && decide (s2 < e1)) := by
  py_exec [overlaps]

/-- the same for natural-number arguments (what the `Nat`-based models use) -/
theorem round_up_nat (a b : Nat) (hb : 0 < b) :
    round_up (.py a) (.py b) = .ok (.py (((a + b - 1) / b * b : Nat) : Int)) := by
  rw [round_up_py _ _ (by omega)]
  congr 2
  have h1 : ((a : Int) + b - 1) = ((a + b - 1 : Nat) : Int) := by omega
  rw [h1]
  push_cast
  rfl

theorem round_up_divide_nat (a b : Nat) (hb : 0 < b) :
    round_up_divide (.py a) (.py b) = .ok (.py (((a + b - 1) / b : Nat) : Int)) := by
  rw [round_up_divide_py _ _ (by omega)]
  congr 2
  have h1 : ((a : Int) + b - 1) = ((a + b - 1 : Nat) : Int) := by omega
  rw [h1]
  push_cast
  rfl

end VelaVerif.SrcNumericUtil
