import VelaVerif.Model.Emit
import VelaVerif.Spec.Decode
import VelaVerif.Lemmas.Bits
/-!
Helper lemmas for C06: the emitter model (`Model/Emit.lean`) against the specification decoder
(`Spec/Decode.lean`).

* words: `cmd0Word`/`cmd1Word` as sums, `splitCmds` recovers the command of every valid item;
* `runCmds`: the commands the emitter keeps (the decoder's view of `runWords`);
* `Inv`: the emitter's register machines agree with the decoder's register file;
* `go_elide`: under `Inv`, decoding the kept commands gives the same events as decoding all of them.
-/
namespace VelaVerif.EmitLemmas
open VelaVerif VelaVerif.Emit VelaVerif.Decode

/-! ### masks and words -/

theorem mask16_lt (x : Int) : mask16 x < 65536 := by unfold mask16; omega
theorem mask32_lt (x : Int) : mask32 x < 4294967296 := by unfold mask32; omega

theorem cmd0Word_eq (code : Nat) (p : Int) (h : code < 65536) :
    cmd0Word code p = code + mask16 p * 65536 := by
  unfold cmd0Word
  rw [Bits.or_shift_eq_add _ _ 16 (by omega)]

theorem cmd1Word_eq (code : Nat) (p : Int) (h : code < 1024) :
    cmd1Word code p = code + 16384 + mask16 p * 65536 := by
  unfold cmd1Word
  have h1 : code ||| Gen.Regs.cmdModePayload32 = code + 16384 := by
    have := Bits.or_shift_eq_add code 1 14 (by omega)
    simpa [Gen.Regs.cmdModePayload32] using this
  rw [h1, Bits.or_shift_eq_add _ _ 16 (by omega)]

theorem cmd1Word_param (code : Nat) (p : Int) (h : code < 1024) : cmd1Word code p / 65536 = mask16 p := by
  rw [cmd1Word_eq code p h]; have := mask16_lt p; omega

theorem splitCmds_c0 (code p : Nat) (rest : List Nat) (hc : code < 1024) (hp : p < 65536) :
    splitCmds ((code + p * 65536) :: rest) = (splitCmds rest).map (Cmd.c0 code p :: ·) := by
  have e1 : (code + p * 65536) % 65536 = code := by omega
  have e2 : (code + p * 65536) / 65536 = p := by omega
  have e3 : code / 16384 = 0 := by omega
  have e4 : code % 1024 = code := by omega
  have e5 : code / 1024 % 16 = 0 := by omega
  have e6 : ¬ (code + p * 65536 ≥ 2 ^ 32) := by omega
  rw [splitCmds]
  simp only [e1, e2, e3, e4, e5, e6, if_false, ne_eq, not_true_eq_false, if_true]

theorem splitCmds_c1 (code p q : Nat) (rest : List Nat) (hc : code < 1024) (hp : p < 65536) (hq : q < 2 ^ 32) :
    splitCmds ((code + 16384 + p * 65536) :: q :: rest) = (splitCmds rest).map (Cmd.c1 code p q :: ·) := by
  have e1 : (code + 16384 + p * 65536) % 65536 = code + 16384 := by omega
  have e2 : (code + 16384 + p * 65536) / 65536 = p := by omega
  have e3 : (code + 16384) / 16384 = 1 := by omega
  have e4 : (code + 16384) % 1024 = code := by omega
  have e5 : (code + 16384) / 1024 % 16 = 0 := by omega
  have e6 : ¬ (code + 16384 + p * 65536 ≥ 2 ^ 32) := by omega
  have e7 : ¬ (q ≥ 2 ^ 32) := by omega
  rw [splitCmds]
  simp only [e1, e2, e3, e4, e5, e6, e7, if_false, ne_eq, not_true_eq_false, if_true]
  simp

/-! ### items as decoder commands -/

/-- an emitter call whose opcode is in the range its command form requires:
    register writes ≥ 0x100 (cmd0) / any 10-bit number (cmd1), operations and waits < 0x100 -/
def Valid : Item → Prop
  | .set0 code _ => 256 ≤ code ∧ code < 1024
  | .set1 code _ _ => code < 1024
  | .wait code _ _ => code < 256
  | .doOp code _ => code < 256

instance : DecidablePred Valid := fun it => by
  cases it <;> unfold Valid <;> infer_instance

/-- the command the decoder sees when the item is written -/
def itemCmd : Item → Cmd
  | .set0 code p => .c0 code (mask16 p)
  | .set1 code off p => .c1 code (mask16 p) (mask32 off)
  | .wait code ch cnt => .c0 code (mask16 (16 * ch + cnt))
  | .doOp code p => .c0 code (mask16 p)

theorem item_words_split (it : Item) (hv : Valid it) (rest : List Nat) :
    splitCmds (it.words ++ rest) = (splitCmds rest).map (itemCmd it :: ·) := by
  cases it with
  | set0 code p =>
    obtain ⟨_, h2⟩ := hv
    simp only [Item.words, itemCmd, List.cons_append, List.nil_append]
    rw [cmd0Word_eq code p (by omega)]
    exact splitCmds_c0 code _ rest h2 (mask16_lt p)
  | set1 code off p =>
    simp only [Item.words, itemCmd, List.cons_append, List.nil_append]
    rw [cmd1Word_eq code p hv]
    exact splitCmds_c1 code _ _ rest hv (mask16_lt p) (mask32_lt off)
  | wait code ch cnt =>
    simp only [Item.words, itemCmd, List.cons_append, List.nil_append]
    have hv' : code < 256 := hv
    rw [cmd0Word_eq code _ (by omega)]
    exact splitCmds_c0 code _ rest (by omega) (mask16_lt _)
  | doOp code p =>
    simp only [Item.words, itemCmd, List.cons_append, List.nil_append]
    have hv' : code < 256 := hv
    rw [cmd0Word_eq code _ (by omega)]
    exact splitCmds_c0 code _ rest (by omega) (mask16_lt _)

/-- the commands the emitter keeps -/
def runCmds (sel : Bool → Nat → Bool) : Machines → List Item → List Cmd
  | _, [] => []
  | ms, it :: rest =>
    let r := step sel ms it
    (if r.2 then [itemCmd it] else []) ++ runCmds sel r.1 rest

theorem runWords_split (sel : Bool → Nat → Bool) (items : List Item) (hv : ∀ it ∈ items, Valid it) (ms : Machines) :
    splitCmds (runWords sel ms items) = .ok (runCmds sel ms items) := by
  induction items generalizing ms with
  | nil => simp [runWords, runCmds, splitCmds]
  | cons it rest ih =>
    have hit : Valid it := hv it (by simp)
    have hrest : ∀ x ∈ rest, Valid x := fun x hx => hv x (by simp [hx])
    simp only [runWords, runCmds]
    by_cases hc : (step sel ms it).2 = true
    · simp only [hc, if_true]
      rw [item_words_split it hit, ih hrest]
      rfl
    · simp only [hc]
      simpa using ih hrest (step sel ms it).1

theorem fullWords_split (items : List Item) (hv : ∀ it ∈ items, Valid it) :
    splitCmds (fullWords items) = .ok (items.map itemCmd) := by
  induction items with
  | nil => simp [fullWords, splitCmds]
  | cons it rest ih =>
    have hit : Valid it := hv it (by simp)
    have hrest : ∀ x ∈ rest, Valid x := fun x hx => hv x (by simp [hx])
    have : fullWords (it :: rest) = it.words ++ fullWords rest := by simp [fullWords]
    rw [this, item_words_split it hit, ih hrest]
    rfl

theorem runCmds_sublist (sel : Bool → Nat → Bool) (items : List Item) (ms : Machines) :
    (runCmds sel ms items).Sublist (items.map itemCmd) := by
  induction items generalizing ms with
  | nil => simp [runCmds]
  | cons it rest ih =>
    simp only [runCmds, List.map_cons]
    by_cases hc : (step sel ms it).2 = true
    · simp only [hc, if_true, List.cons_append, List.nil_append]
      exact List.Sublist.cons_cons _ (ih _)
    · simp only [hc, Bool.false_eq_true, if_false, List.nil_append]
      exact List.Sublist.cons _ (ih _)

/-! ### register maps -/

theorem get_set (m : RegMap) (k k' : Key) (v : Val) :
    (m.set k v).get k' = if k = k' then some v else m.get k' := by
  induction m with
  | nil =>
    by_cases h : k = k' <;> simp [RegMap.set, RegMap.get, h]
  | cons kv m ih =>
    obtain ⟨k0, v0⟩ := kv
    by_cases h0 : k0 = k
    · subst h0
      by_cases h : k0 = k' <;> simp [RegMap.set, RegMap.get, h]
    · by_cases h : k = k'
      · subst h
        simp [RegMap.set, RegMap.get, h0, ih]
      · by_cases h1 : k0 = k'
        · subst h1
          simp [RegMap.set, RegMap.get, h0, h]
        · simp [RegMap.set, RegMap.get, h0, h, h1, ih]

/-- the register machine a key lives in, and what it currently holds for that key -/
def lookup (sel : Bool → Nat → Bool) (ms : Machines) (k : Key) : Option Val :=
  (if sel k.c1 k.code then ms.m1 else ms.m0).cur.get k

theorem setReg_changed (sel : Bool → Nat → Bool) (ms : Machines) (k : Key) (v : Val) :
    (ms.setReg (sel k.c1 k.code) k v).1 = decide (lookup sel ms k ≠ some v) := by
  unfold Machines.setReg lookup RegMachine.setRegister
  by_cases h : sel k.c1 k.code = true <;> simp [h]

theorem lookup_setReg (sel : Bool → Nat → Bool) (ms : Machines) (k k' : Key) (v : Val) :
    lookup sel (ms.setReg (sel k.c1 k.code) k v).2 k' = if k = k' then some v else lookup sel ms k' := by
  unfold Machines.setReg lookup RegMachine.setRegister
  by_cases h : sel k.c1 k.code = true
  · by_cases h' : sel k'.c1 k'.code = true
    · simp [h, h', get_set]
    · have hne : k ≠ k' := by
        intro e; subst e; exact h' h
      simp [h, h', hne]
  · by_cases h' : sel k'.c1 k'.code = true
    · have hne : k ≠ k' := by
        intro e; subst e; exact h h'
      simp [h, h', hne]
    · simp [h, h', get_set]

theorem setReg_others (ms : Machines) (b : Bool) (k : Key) (v : Val) :
    (ms.setReg b k v).2.m0.others = ms.m0.others ∧ (ms.setReg b k v).2.m1.others = ms.m1.others := by
  unfold Machines.setReg RegMachine.setRegister
  cases b <;> simp

/-! ### the decoder's register file -/

def regVal (regs : RegFile) (k : Key) : Option Nat :=
  if k.c1 then regs.r1.getD k.code none else regs.r0.getD k.code none

def regSet (regs : RegFile) (k : Key) (x : Nat) : RegFile :=
  if k.c1 then { regs with r1 := regs.r1.setIfInBounds k.code (some x) }
  else { regs with r0 := regs.r0.setIfInBounds k.code (some x) }

/-- what the decoder stores for an emitter value: the parameter (cmd0) or payload + 2^32 · parameter (cmd1) -/
def valOf (k : Key) (v : Val) : Nat := if k.c1 then v.2 + 2 ^ 32 * (v.1 / 65536) else v.2

theorem getD_setIfInBounds (a : Array (Option Nat)) (i j : Nat) (x : Option Nat) (hi : i < a.size) :
    (a.setIfInBounds i x).getD j none = if i = j then x else a.getD j none := by
  simp only [Array.getD_eq_getD_getElem?, Array.getElem?_setIfInBounds]
  by_cases h : i = j
  · subst h; simp [hi]
  · simp [h]

theorem setIfInBounds_same (a : Array (Option Nat)) (i : Nat) (x : Nat) (h : a.getD i none = some x) :
    a.setIfInBounds i (some x) = a := by
  apply Array.ext_getElem?
  intro j
  rw [Array.getElem?_setIfInBounds]
  rw [Array.getD_eq_getD_getElem?] at h
  by_cases hj : i = j
  · subst hj
    cases hg : a[i]? with
    | none => simp [hg] at h
    | some y =>
      have hy : y = some x := by simpa [hg] using h
      have hlt : i < a.size := by
        rcases Nat.lt_or_ge i a.size with h1 | h1
        · exact h1
        · have := Array.getElem?_eq_none h1
          rw [hg] at this; cases this
      simp [hlt, hy]
  · simp [hj]

theorem regVal_regSet (regs : RegFile) (k k' : Key) (x : Nat) (h0 : regs.r0.size = 1024) (h1 : regs.r1.size = 1024)
    (hc : k.code < 1024) : regVal (regSet regs k x) k' = if k = k' then some x else regVal regs k' := by
  obtain ⟨c, code⟩ := k
  obtain ⟨c', code'⟩ := k'
  have hc' : code < 1024 := hc
  cases c <;> cases c' <;> simp only [regVal, regSet, Bool.false_eq_true, if_false, if_true]
  · rw [getD_setIfInBounds _ _ _ _ (by omega)]
    by_cases h : code = code' <;> simp [h]
  · simp
  · simp
  · rw [getD_setIfInBounds _ _ _ _ (by omega)]
    by_cases h : code = code' <;> simp [h]

theorem regSet_same (regs : RegFile) (k : Key) (x : Nat) (h : regVal regs k = some x) : regSet regs k x = regs := by
  obtain ⟨c, code⟩ := k
  cases c <;> simp only [regVal, regSet, Bool.false_eq_true, if_false, if_true] at h ⊢
  · rw [setIfInBounds_same _ _ _ h]
  · rw [setIfInBounds_same _ _ _ h]

theorem regSet_size (regs : RegFile) (k : Key) (x : Nat) :
    (regSet regs k x).r0.size = regs.r0.size ∧ (regSet regs k x).r1.size = regs.r1.size := by
  unfold regSet
  cases k.c1 <;> simp

/-- register machines (one bank each) and the decoder's register file agree on every key the emitter remembers -/
structure Inv (sel : Bool → Nat → Bool) (ms : Machines) (regs : RegFile) : Prop where
  one0 : ms.m0.others = []
  one1 : ms.m1.others = []
  size0 : regs.r0.size = 1024
  size1 : regs.r1.size = 1024
  agree : ∀ k v, lookup sel ms k = some v → regVal regs k = some (valOf k v)

theorem inv_init (sel : Bool → Nat → Bool) : Inv sel (Machines.new 1 1) RegFile.empty := by
  refine ⟨rfl, rfl, by simp [RegFile.empty], by simp [RegFile.empty], ?_⟩
  intro k v h
  unfold lookup Machines.new RegMachine.new at h
  cases hs : sel k.c1 k.code <;> simp [hs, RegMap.get] at h

/-- writing register `k` (either form) with emitter value `v` -/
theorem inv_set (sel : Bool → Nat → Bool) (ms : Machines) (regs : RegFile) (k : Key) (v : Val)
    (hc : k.code < 1024) (inv : Inv sel ms regs) :
    Inv sel (ms.setReg (sel k.c1 k.code) k v).2 (regSet regs k (valOf k v)) := by
  obtain ⟨o0, o1, s0, s1, ag⟩ := inv
  have ho := setReg_others ms (sel k.c1 k.code) k v
  have hs := regSet_size regs k (valOf k v)
  refine ⟨by rw [ho.1, o0], by rw [ho.2, o1], by rw [hs.1, s0], by rw [hs.2, s1], ?_⟩
  intro k' v' h
  rw [lookup_setReg] at h
  rw [regVal_regSet regs k k' _ s0 s1 hc]
  by_cases hk : k = k'
  · subst hk
    simp only [if_true, Option.some.injEq] at h ⊢
    rw [h]
  · simp only [hk, if_false] at h ⊢
    exact ag k' v' h

theorem switchBank_one (rm : RegMachine) (h : rm.others = []) : rm.switchBank = rm := by
  unfold RegMachine.switchBank; rw [h]

theorem inv_switch (sel : Bool → Nat → Bool) (ms : Machines) (regs : RegFile) (b : Bool) (inv : Inv sel ms regs) :
    ms.switchBank b = ms := by
  unfold Machines.switchBank
  cases b
  · simp [switchBank_one _ inv.one0]
  · simp [switchBank_one _ inv.one1]

/-! ### the decoder on single commands -/

theorem go_set0 (code p : Nat) (rest : List Cmd) (regs : RegFile) (acc : List Event) (h : 256 ≤ code) :
    events.go (Cmd.c0 code p :: rest) regs acc = events.go rest (regSet regs ⟨false, code⟩ p) acc := by
  rw [events.go.eq_2]
  have e : ¬ code < 256 := by omega
  simp [Isa.OP_STOP, Isa.OP_CONV, Isa.OP_DEPTHWISE, Isa.OP_POOL, Isa.OP_ELEMENTWISE, Isa.OP_DMA_START,
    Isa.OP_KERNEL_WAIT, Isa.OP_DMA_WAIT, isOpCode, regSet, e,
    show code ≠ 0 by omega, show code ≠ 2 by omega, show code ≠ 3 by omega, show code ≠ 5 by omega,
    show code ≠ 6 by omega, show code ≠ 16 by omega, show code ≠ 18 by omega, show code ≠ 17 by omega]

theorem go_set1 (code p q : Nat) (rest : List Cmd) (regs : RegFile) (acc : List Event) :
    events.go (Cmd.c1 code p q :: rest) regs acc = events.go rest (regSet regs ⟨true, code⟩ (q + 2 ^ 32 * p)) acc := by
  rw [events.go.eq_3]
  simp [regSet]

/-- the event an operation / wait / stop command produces (it sees the current register file) -/
def opEvent (code p : Nat) (regs : RegFile) : Event :=
  if code = Isa.OP_STOP then .stop p
  else if code = Isa.OP_CONV then .op .conv p regs
  else if code = Isa.OP_DEPTHWISE then .op .depthwise p regs
  else if code = Isa.OP_POOL then .op .pool p regs
  else if code = Isa.OP_ELEMENTWISE then .op .elementwise p regs
  else if code = Isa.OP_DMA_START then .op .dma p regs
  else if code = Isa.OP_KERNEL_WAIT then .kernelWait p
  else if code = Isa.OP_DMA_WAIT then .dmaWait p
  else .other code p

theorem go_op (code p : Nat) (rest : List Cmd) (regs : RegFile) (acc : List Event) (h : code < 256) :
    events.go (Cmd.c0 code p :: rest) regs acc = events.go rest regs (opEvent code p regs :: acc) := by
  rw [events.go.eq_2]
  unfold opEvent
  have e : isOpCode code = true := by simp [isOpCode]; omega
  simp only [e, if_true]
  split <;> try rfl
  split <;> try rfl
  split <;> try rfl
  split <;> try rfl
  split <;> try rfl
  split <;> try rfl
  split <;> try rfl
  split <;> rfl

/-! ### elision is invisible to the decoder -/

theorem go_elide (sel : Bool → Nat → Bool) (items : List Item) (hv : ∀ it ∈ items, Valid it) :
    ∀ (ms : Machines) (regs : RegFile) (acc : List Event), Inv sel ms regs →
      events.go (runCmds sel ms items) regs acc = events.go (items.map itemCmd) regs acc := by
  induction items with
  | nil => intro ms regs acc _; rfl
  | cons it rest ih =>
    have hit : Valid it := hv it (by simp)
    have ih := ih (fun x hx => hv x (by simp [hx]))
    intro ms regs acc inv
    cases it with
    | set0 code p =>
      obtain ⟨hlo, hhi⟩ := hit
      have hinv := inv_set sel ms regs ⟨false, code⟩ (cmd0Word code p, mask16 p) hhi inv
      have hval : valOf ⟨false, code⟩ (cmd0Word code p, mask16 p) = mask16 p := by simp [valOf]
      rw [hval] at hinv
      simp only [runCmds, step, List.map_cons, itemCmd]
      rw [go_set0 code _ _ regs acc hlo]
      by_cases hc : (ms.setReg (sel false code) ⟨false, code⟩ (cmd0Word code p, mask16 p)).1 = true
      · simp only [hc, if_true, List.cons_append, List.nil_append]
        rw [go_set0 code _ _ regs acc hlo]
        exact ih _ _ acc hinv
      · simp only [hc, Bool.false_eq_true, if_false, List.nil_append]
        have hch := setReg_changed sel ms ⟨false, code⟩ (cmd0Word code p, mask16 p)
        simp only at hch
        rw [hch] at hc
        have hl : lookup sel ms ⟨false, code⟩ = some (cmd0Word code p, mask16 p) := by simpa using hc
        have hr := inv.agree _ _ hl
        rw [hval] at hr
        have hsame := regSet_same regs ⟨false, code⟩ (mask16 p) hr
        rw [hsame] at hinv ⊢
        exact ih _ _ acc hinv
    | set1 code off p =>
      have hhi : code < 1024 := hit
      have hinv := inv_set sel ms regs ⟨true, code⟩ (cmd1Word code p, mask32 off) hhi inv
      have hval : valOf ⟨true, code⟩ (cmd1Word code p, mask32 off) = mask32 off + 2 ^ 32 * mask16 p := by
        simp [valOf, cmd1Word_param code p hhi]
      rw [hval] at hinv
      simp only [runCmds, step, List.map_cons, itemCmd]
      rw [go_set1 code _ _ _ regs acc]
      by_cases hc : (ms.setReg (sel true code) ⟨true, code⟩ (cmd1Word code p, mask32 off)).1 = true
      · simp only [hc, if_true, List.cons_append, List.nil_append]
        rw [go_set1 code _ _ _ regs acc]
        exact ih _ _ acc hinv
      · simp only [hc, Bool.false_eq_true, if_false, List.nil_append]
        have hch := setReg_changed sel ms ⟨true, code⟩ (cmd1Word code p, mask32 off)
        simp only at hch
        rw [hch] at hc
        have hl : lookup sel ms ⟨true, code⟩ = some (cmd1Word code p, mask32 off) := by simpa using hc
        have hr := inv.agree _ _ hl
        rw [hval] at hr
        have hsame := regSet_same regs ⟨true, code⟩ _ hr
        rw [hsame] at hinv ⊢
        exact ih _ _ acc hinv
    | wait code ch cnt =>
      have hlt : code < 256 := hit
      simp only [runCmds, step, List.map_cons, itemCmd, if_true, List.cons_append, List.nil_append]
      rw [go_op code _ _ regs acc hlt, go_op code _ _ regs acc hlt]
      exact ih _ _ _ inv
    | doOp code p =>
      have hlt : code < 256 := hit
      simp only [runCmds, step, List.map_cons, itemCmd, if_true, List.cons_append, List.nil_append]
      rw [inv_switch sel ms regs _ inv]
      rw [go_op code _ _ regs acc hlt, go_op code _ _ regs acc hlt]
      exact ih _ _ _ inv

end VelaVerif.EmitLemmas
