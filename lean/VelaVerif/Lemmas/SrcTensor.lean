import VelaVerif.Lemmas.SrcNumericUtil
import VelaVerif.Model.TensorAddr
import VelaVerif.Gen.SrcTensor
/-!
# The translated `tensor.py` address arithmetic on Python ints (C02 source tie)

`Tensor.get_strides` (list stores `strides[i] = …` in a loop over the literal stride order, index loads),
`Tensor.storage_size_for_shape`, `Tensor.get_full_shape`, `shape_num_elements`, executed on lists of known
length.  `augmented` is what the (opaque) call `self.get_augmented_shape(shape4D)` returns for the model's
4-D storage view.
-/
namespace VelaVerif.SrcTensor
open VelaVerif VelaVerif.PyRt VelaVerif.TensorAddr
open VelaVerif.Gen.SrcTensor VelaVerif.Gen.SrcNumericUtil

/-- the list `Tensor.get_augmented_shape` returns for the 4-D storage view `v` (the model's `viewShape`):
    NHWC `[n, c, h, w, 1]`, NHCWB16 `[n, h or 1, w, c, 1]` -/
def augmented (fmt : Fmt) (v : S4) : List Num :=
  match fmt with
  | .nhcwb16 => [.py v.n, .py (if v.h = 0 then 1 else v.h : Nat), .py v.w, .py v.c, .py 1]
  | _ => [.py v.n, .py v.c, .py v.h, .py v.w, .py 1]

/-- the model's strides in Python's list order -/
def stridesList (st : Strides) : List Num := [.py st.sN, .py st.sC, .py st.sH, .py st.sW, .py st.sE]

/-- a shape as a list of Python ints -/
def pyList (l : List Nat) : List Num := l.map fun (n : Nat) => Num.py (n : Int)

section lists
variable {α : Type} (a0 a1 a2 a3 a4 x : α)
theorem len5 : (([a0, a1, a2, a3, a4] : List α).length : Int) = 5 := rfl
theorem rep5 : pyRepeat [x] ⟨.py, (5 : Int)⟩ = [x, x, x, x, x] := rfl
theorem idx0 : pyIndex [a0, a1, a2, a3, a4] (Num.py 0) = .ok a0 := rfl
theorem idx1 : pyIndex [a0, a1, a2, a3, a4] (Num.py 1) = .ok a1 := rfl
theorem idx2 : pyIndex [a0, a1, a2, a3, a4] (Num.py 2) = .ok a2 := rfl
theorem idx3 : pyIndex [a0, a1, a2, a3, a4] (Num.py 3) = .ok a3 := rfl
theorem idx4 : pyIndex [a0, a1, a2, a3, a4] (Num.py 4) = .ok a4 := rfl
theorem set0 : pySetItem [a0, a1, a2, a3, a4] (Num.py 0) x = .ok [x, a1, a2, a3, a4] := rfl
theorem set1 : pySetItem [a0, a1, a2, a3, a4] (Num.py 1) x = .ok [a0, x, a2, a3, a4] := rfl
theorem set2 : pySetItem [a0, a1, a2, a3, a4] (Num.py 2) x = .ok [a0, a1, x, a3, a4] := rfl
theorem set3 : pySetItem [a0, a1, a2, a3, a4] (Num.py 3) x = .ok [a0, a1, a2, x, a4] := rfl
theorem set4 : pySetItem [a0, a1, a2, a3, a4] (Num.py 4) x = .ok [a0, a1, a2, a3, x] := rfl
end lists

theorem pyFor_nil {α σ : Type} (s : σ) (f : σ → α → M σ) : pyFor [] s f = pure s := rfl
theorem pyFor_cons {α σ : Type} (x : α) (xs : List α) (s : σ) (f : σ → α → M σ) :
    pyFor (x :: xs) s f = (f s x >>= fun s' => pyFor xs s' f) := by
  rw [pyFor]; cases f s x <;> rfl

theorem get_strides_nhwc (sh : Option (Num × Num × Num × Num)) (e : Nat) (v : S4) :
    Tensor__get_strides sh false (augmented .nhwc v) (.py e) =
      .ok (stridesList ⟨e * v.c * v.w * v.h, e, e * v.c * v.w, e * v.c, e⟩) := by
  simp only [augmented, stridesList]
  py_exec [Tensor__get_strides, len5, rep5, idx0, idx1, idx2, idx3, idx4, set0, set1, set2, set3, set4, pyFor_nil, pyFor_cons]
  simp only [Num.py]
  push_cast
  try rfl

theorem get_strides_nhcwb16 (sh : Option (Num × Num × Num × Num)) (e : Nat) (v : S4) :
    Tensor__get_strides sh true (augmented .nhcwb16 v) (.py e) =
      .ok (stridesList ⟨v.w * v.c * e * (if v.h = 0 then 1 else v.h), 16 * e * v.w, v.w * v.c * e, 16 * e, e⟩) := by
  simp only [augmented, stridesList]
  py_exec [Tensor__get_strides, len5, rep5, idx0, idx1, idx2, idx3, idx4, set0, set1, set2, set3, set4, pyFor_nil, pyFor_cons]
  simp only [Num.py]
  push_cast
  try rfl

/-- the loop of `shape_num_elements` from any accumulator -/
theorem num_elements_loop (l : List Nat) (acc : Nat) (body : Num → Num → M (Step Num (Option Num)))
    (hb : ∀ (a d : Nat), body (.py a) (.py d) = .ok (.next (.py ((a * d : Nat) : Int)))) :
    pyForE (pyList l) (Num.py (acc : Int)) body = .ok (Out.done (Num.py ((acc * prod l : Nat) : Int))) := by
  induction l generalizing acc with
  | nil => simp [pyList, pyForE.eq_def, prod]
  | cons d t ih =>
    have := ih (acc * d)
    simp only [pyList, List.map_cons] at this ⊢
    rw [pyForE.eq_def]
    simp only [hb, this, prod, Nat.mul_assoc]

theorem num_elements_py (l : List Nat) :
    shape_num_elements (pyList l) = .ok (some (.py ((prod l : Nat) : Int))) := by
  unfold shape_num_elements
  simp only [Bool.false_eq_true, if_false]
  have h1 : Num.py 1 = Num.py ((1 : Nat) : Int) := rfl
  rw [h1, num_elements_loop l 1]
  · simp only [Nat.one_mul]
    rfl
  · intro a d
    py_exec [if_neg]
    simp only [Num.py]
    push_cast
    try rfl


/-- `storage_size_for_shape` with a positive alignment -/
theorem storage_size_pos (shp : List Num) (elems e a : Nat) (hpos : 0 < a) :
    Tensor__storage_size_for_shape shp (.py a) (.py e) (.py elems) =
      .ok (.py ((Cascade.roundUp (if elems * e = 0 then 1 else elems * e) a : Nat) : Int)) := by
  have ha : (0 : Int) < (a : Int) := by omega
  have hr : ∀ x : Int, round_up (.py x) (.py (a : Int)) = .ok (.py ((x + a - 1) / a * a)) :=
    fun x => SrcNumericUtil.round_up_py x a ha
  have hN : ∀ x : Nat, ((x : Int) + a - 1) / a * a = ((Cascade.roundUp x a : Nat) : Int) := by
    intro x
    unfold Cascade.roundUp
    have h1 : ((x : Int) + a - 1) = ((x + a - 1 : Nat) : Int) := by omega
    rw [h1]; push_cast; rfl
  py_exec [Tensor__storage_size_for_shape, round_up_to_int, Num.ceil, Num.int, hr]
  by_cases h0 : elems * e = 0
  · have h0' : (elems : Int) * e = 0 := by exact_mod_cast h0
    have h1 := hN 1
    push_cast at h1
    simp only [h0, h0', if_true, Int.zero_mul, ite_self, h1]
  · have h0' : ¬ ((elems : Int) * e = 0) := by exact_mod_cast h0
    have he : ¬ ((elems : Int) = 0) := by
      intro h; apply h0'; rw [h]; simp
    have h2 := hN (elems * e)
    push_cast at h2
    simp only [h0, h0', he, not_false_eq_true, if_true, if_false, h2]

/-- `get_full_shape` by rank -/
theorem get_full_shape_py (l : List Nat) :
    Tensor__get_full_shape (pyList l) = .ok (pyList (getFullShape l)) := by
  match l with
  | [] => simp [Tensor__get_full_shape, pyList, getFullShape, pyLen, Num.eq, Num.py]; rfl
  | [c] => simp [Tensor__get_full_shape, pyList, getFullShape, pyLen, Num.eq, Num.py, full_shape, Num.sub, pyRepeat]; rfl
  | [a, b] => simp [Tensor__get_full_shape, pyList, getFullShape, pyLen, Num.eq, Num.py, pyIndex]; rfl
  | [h, w, c] => simp [Tensor__get_full_shape, pyList, getFullShape, pyLen, Num.eq, Num.py, full_shape, Num.sub, pyRepeat]; rfl
  | a :: b :: c :: d :: t =>
    simp [Tensor__get_full_shape, pyList, getFullShape, pyLen, Num.eq, Num.py]
    have h1 : ¬ (((t.length : Int) + 1 + 1 + 1 + 1 = 1) ∨ ((t.length : Int) + 1 + 1 + 1 + 1 = 3)) := by omega
    have h2 : ¬ ((t.length : Int) + 1 + 1 + 1 + 1 = 2) := by omega
    simp only [h1, h2, if_false]
    rfl

end VelaVerif.SrcTensor
