import VelaVerif.Lemmas.TfliteWriter
import VelaVerif.Lemmas.TfliteReader
/-!
# The writer / reader round trip, assembled: `Reader.read` of `Writer.write`

`normalise d` is the graph description the reader builds from the file the writer produces for `d`, defined from `d` alone
(through the writer's `__init__` view of the operators, `prepSub`): the tensors of every written subgraph in the writer's order,
each in the reader's normal form; tensor references renumbered; the renumbered operators put through the reader's graph surgery
(virtual outputs, reshaped clones) and listed as the reader lists them. The reader's own checks (data size, inputs without
producer, clonable weights) are part of it, so that `read_writeWith : Reader.read d.version (write d) = normalise d` holds for
every description; `roundtripDomain` / `noSurgery` are the conditions under which it succeeds, and without surgery the subgraph
part has the closed form `normSub_simple`.
-/
set_option linter.unusedSimpArgs false
namespace VelaVerif.Tflite.Roundtrip
open VelaVerif.Tflite VelaVerif.Tflite.Writer VelaVerif.OpIndices VelaVerif.Gen

/-! ## the normal form -/

/-- the reader's normal form of a tensor record the writer emits: written shape as both shapes, the reader-side name of the
element type, the quantisation after `readQuant`, zero-length data dropped, allocation attributes at their defaults, the
representable range of the element type; the reader's own check that constant data has the size of the shape (`checkData`,
ValueError of `reshape`) is part of it -/
def normTensor (td : TensorD) : Except String TensorD := do
  let c ← match dtypeCode td.dtype with
    | some c => pure c
    | none => throw "key"
  let row ← Reader.dtypeRow c
  Reader.checkData row.2.1 row.2.2.2.2 (writtenShape td) (normValues td.values)
  pure { name := td.name, shape := writtenShape td, originalShape := writtenShape td, dtype := row.2.1,
         quant := Reader.readQuant (td.quant.map quantT), values := normValues td.values, isVariable := td.isVariable,
         purpose := 0, memArea := 0, memType := 0, address := none, src := none,
         range := if (Reader.readQuant (td.quant.map quantT)).isSome then Reader.rangeOf row.2.1 row.2.2.1 else none }

def normTensorAt (ts : List TensorD) (g : Nat) : Except String TensorD :=
  match ts[g]? with
  | some td => normTensor td
  | none => throw "ref"

/-- the reader's own precondition on a written tensor record: the element type is one it knows and constant data has exactly the
size of the written shape (`buf.view(dtype).reshape(shape)`) -/
def dataOk (td : TensorD) : Bool :=
  match dtypeCode td.dtype with
  | none => false
  | some c =>
    match Reader.dtypeRow c with
    | .error _ => false
    | .ok row =>
      match Reader.checkData row.2.1 row.2.2.2.2 (writtenShape td) (normValues td.values) with
      | .ok _ => true
      | .error _ => false

/-- a tensor reference `g` of the description becomes `base + position of g in the subgraph's tensor list` -/
def ren (all : List Nat) (b : Nat) (t : Option Nat) : Option Nat := (mapIdx all t).map (b + ·)
/-- a list of tensors (subgraph inputs / outputs): the written ones, renumbered -/
def renList (all : List Nat) (b : Nat) (l : List Nat) : List Nat := (l.filterMap (indexIn all)).map (b + ·)
/-- results / intermediates: the ones that are present, renumbered -/
def renResults (all : List Nat) (b : Nat) (l : List (Option Nat)) : List Nat := (l.filterMap (mapIdx all)).map (b + ·)

def hasSer (p : POp) : Bool :=
  match p.info.inv with
  | some (_, s, _) => s
  | none => false

/-- the option payload as written (and read back) -/
def writtenPayload (p : POp) : Payload :=
  if hasSer p then
    { optType := if p.payload.opts.isSome then p.payload.optType else 0, opts := p.payload.opts, custom := p.payload.custom,
      customFormat := if p.payload.custom.isSome then p.payload.customFormat else 0 }
  else Reader.noPayload

/-- the operator code the reader sees for a written operator (`ci` = the table row of `Custom`): the Ethos-U operator
`CustomNpuOp` comes back as `Custom` with custom code "ethos-u" -/
def normRCode (ci : OpInfo) (p : POp) : Reader.RCode :=
  { op := if p.info.name = "CustomNpuOp" then ci else p.info,
    hasSer := hasSer p,
    custom := if p.info.name = "Custom" then some p.custom else if p.info.name = "CustomNpuOp" then some ethosU else none,
    indices := match p.info.inv with
      | some x => x.2.2
      | none => p.info.nng,
    version := p.version }

def normROp (ci : OpInfo) (all : List Nat) (b : Nat) (p : POp) : Reader.ROp :=
  { code := normRCode ci p, inputs := p.inputs.map (ren all b), fileOutputs := renResults all b p.outputs,
    outputs := (renResults all b p.outputs).map some, intermediates := (renResults all b p.intermediates).map some,
    payload := writtenPayload p }

/-- the operators of a subgraph that reach the file -/
def writtenOps (ps : PSub) : List POp := (sgOps ps).filter (!·.ignored)

/-- an operator after the reader's surgery: operands (clones put in place), `op.outputs` (the virtual output) -/
def operated (r : Reader.ROp) (ins outs : List (Option Nat)) : Reader.ROp := { r with inputs := ins, outputs := outs }

/-- the reader's graph surgery on the renumbered written operators, in file order, threading the operator counter `k`, the tensor
list `T` and the list of virtual outputs: AssignVariable / CallOnce get a virtual output tensor (`Reader.virtualStep`), constant
weights and bias of convolution-like operators are replaced by reshaped clones appended to `T` (`Reader.cloneStep`). For operators
that are neither (`opOk`) this is `map normROp` and `T` is unchanged (`normOps_simple`). -/
def normOps (ci : OpInfo) (all : List Nat) (b : Nat) : List POp → Nat → List TensorD →
    Except String (List Reader.ROp × List TensorD × List Nat)
  | [], _, T => pure ([], T, [])
  | p :: rest, k, T => do
    let c ← Reader.cloneStep (normRCode ci p).op
      (Reader.virtualStep (normRCode ci p) k T ((renResults all b p.outputs).map some)).1 (p.inputs.map (ren all b))
    let rs ← normOps ci all b rest (k + 1) c.1
    pure (operated (normROp ci all b p) c.2 (Reader.virtualStep (normRCode ci p) k T ((renResults all b p.outputs).map some)).2.1 :: rs.1, rs.2.1,
          (match (Reader.virtualStep (normRCode ci p) k T ((renResults all b p.outputs).map some)).2.2 with
            | some v => [v]
            | none => []) ++ rs.2.2)

/-- one written subgraph as the reader rebuilds it behind the tensors `prev` of the earlier subgraphs -/
def normSub (ts : List TensorD) (ci : OpInfo) (prev : List TensorD) (ps : PSub) : Except String (SubgraphD × List TensorD) := do
  let own ← (sgAll ts ps).mapM (normTensorAt ts)
  let r ← normOps ci (sgAll ts ps) prev.length (writtenOps ps) 0 (prev ++ own)
  let outs2 ← outputList ps.sg.originalOutputPositions (sgOuts ps)
  -- the reader's `Tensor.error`: a subgraph input must not have a producer
  Writer.check (!(Reader.dedupNat (renList (sgAll ts ps) prev.length ps.sg.originalInputs)).any (Reader.produced r.1)) "vela-error"
  let positions ← Reader.positionsOf (Reader.dedupNat (renList (sgAll ts ps) prev.length outs2)) (renList (sgAll ts ps) prev.length outs2)
  pure ({ name := ps.sg.name, cpu := true,
          ops := Reader.startupOps r.2.1 prev.length (sgAll ts ps).length r.1
                   (Reader.dedupNat (renList (sgAll ts ps) prev.length ps.sg.originalInputs)) ++ Reader.realOps r.1 r.2.2,
          originalInputs := renList (sgAll ts ps) prev.length ps.sg.originalInputs, inputTensors := [],
          outputTensors := Reader.dedupNat (renList (sgAll ts ps) prev.length outs2) ++ r.2.2,
          originalOutputPositions := some positions,
          virtualOutputs := r.2.2.map fun v => (v, Writer.firstIdx (fun (o : OpD) => o.outputs.contains (some v))
            (Reader.startupOps r.2.1 prev.length (sgAll ts ps).length r.1
               (Reader.dedupNat (renList (sgAll ts ps) prev.length ps.sg.originalInputs)) ++ Reader.realOps r.1 r.2.2)) }, r.2.1)

def normSubs (ts : List TensorD) (ci : OpInfo) : List PSub → List TensorD → Except String (List SubgraphD × List TensorD)
  | [], prev => pure ([], prev)
  | ps :: rest, prev => do
    let r ← normSub ts ci prev ps
    let rs ← normSubs ts ci rest r.2
    pure (r.1 :: rs.1, rs.2)

/-- **the normal form of a graph description under write-then-read** -/
def normalise (d : Desc) : Except String Desc := do
  let subs ← (subgraphsToWrite d).mapM (prepSub d.tensors)
  let ci ← lookupOpE "Custom"
  let r ← normSubs d.tensors ci subs []
  let metas ← metadataToWrite d (subs.map (sgAll d.tensors))
  pure { tensors := r.2, subgraphs := r.1,
         metadata := metas.map fun mw => { nameIsBytes := true, name := mw.name, data := normValues mw.data },
         version := d.version }

/-! ## the domain -/

/-- a convolution-like operator whose weights (operand 1) are present and not constant (after the reader drops zero-length
data): the reader makes no clones for it -/
def convOk (ts : List TensorD) (p : POp) : Bool :=
  !p.info.convLike ||
  match p.inputs[1]? with
  | some (some w) =>
    match ts[w]? with
    | some tw => (normValues tw.values).isNone
    | none => false
  | _ => false

/-- a written operator on which the reader performs no surgery: no virtual output is created for it (AssignVariable / CallOnce)
and it is not a convolution-like operator with constant weights (no reshaped clones) -/
def opOk (ts : List TensorD) (p : POp) : Bool :=
  p.info.name != "AssignVariable" && p.info.name != "CallOnce" && convOk ts p

/-- no original input is a result of a written operator (the reader's `Tensor.error`: a subgraph input with a producer) -/
def inputsNotProduced (ps : PSub) : Bool :=
  ps.sg.originalInputs.all fun g => (writtenOps ps).all fun p => !p.outputs.contains (some g)

def subDomain (ts : List TensorD) (ps : PSub) : Bool :=
  (sgAll ts ps).all (fun g => match ts[g]? with | some td => dataOk td | none => true) &&   -- the reader's `reshape` succeeds
  inputsNotProduced ps                                                             -- see `inputsNotProduced`

/-- no surgery: every written operator of the subgraph is `opOk` -/
def subSimple (ts : List TensorD) (ps : PSub) : Bool := (writtenOps ps).all (opOk ts)

def preppedSubs (d : Desc) : List PSub :=
  match (subgraphsToWrite d).mapM (prepSub d.tensors) with
  | .ok s => s
  | .error _ => []

def roundtripDomain (d : Desc) : Bool := (preppedSubs d).all (subDomain d.tensors)
def noSurgery (d : Desc) : Bool := (preppedSubs d).all (subSimple d.tensors)

/-- the error of a failed read / normalisation ("" for success) -/
def errorOf (r : Except String Desc) : String :=
  match r with
  | .error e => e
  | .ok _ => ""

/-! ## general lemmas -/

theorem mapM_eq_of_index {α β : Type} (f : α → Except String β) : ∀ (l : List α) (r : List β), r.length = l.length →
    (∀ (i : Nat) (a : α), l[i]? = some a → ∃ b, r[i]? = some b ∧ f a = .ok b) → l.mapM f = .ok r
  | [], r, hl, _ => by
    cases r with
    | nil => simp [pure, Except.pure]
    | cons _ _ => simp at hl
  | x :: xs, r, hl, h => by
    cases r with
    | nil => simp at hl
    | cons y ys =>
      obtain ⟨b, hb1, hb2⟩ := h 0 x (by simp)
      simp at hb1; subst hb1
      have ih := mapM_eq_of_index f xs ys (by simpa using hl) (fun i a hi => by simpa using h (i + 1) a (by simpa using hi))
      rw [List.mapM_cons, hb2, ih]; rfl

theorem mapM_map_ok {α β γ : Type} (f : β → Except String γ) (g : α → β) (k : α → γ) : ∀ (l : List α),
    (∀ a ∈ l, f (g a) = .ok (k a)) → (l.map g).mapM f = .ok (l.map k)
  | [], _ => by simp [pure, Except.pure]
  | x :: xs, h => by
    have ih := mapM_map_ok f g k xs (fun a ha => h a (List.mem_cons_of_mem _ ha))
    rw [List.map_cons, List.mapM_cons, h x (List.mem_cons_self ..), ih]; rfl

theorem mapM_mem {α β : Type} (f : α → Except String β) : ∀ (l : List α) (r : List β), l.mapM f = .ok r →
    ∀ b ∈ r, ∃ a ∈ l, f a = .ok b
  | [], r, h => by
    simp [pure, Except.pure] at h
    subst h; simp
  | x :: xs, r, h => by
    rw [List.mapM_cons] at h
    obtain ⟨b, hb, h⟩ := bind_ok h
    obtain ⟨bs, hbs, h⟩ := bind_ok h
    simp only [pure, Except.pure, Except.ok.injEq] at h
    subst h
    intro y hy
    rcases List.mem_cons.mp hy with rfl | hy
    · exact ⟨x, List.mem_cons_self .., hb⟩
    · obtain ⟨a, ha, hf⟩ := mapM_mem f xs bs hbs y hy
      exact ⟨a, List.mem_cons_of_mem _ ha, hf⟩

/-! ## (a) tensors -/

theorem mapM_congr_index {α γ β : Type} (f : α → Except String β) (g : γ → Except String β) : ∀ (l : List α) (r : List γ),
    l.length = r.length → (∀ (i : Nat) (a : α) (c : γ), l[i]? = some a → r[i]? = some c → f a = g c) → l.mapM f = r.mapM g
  | [], r, hl, _ => by
    cases r with
    | nil => rfl
    | cons _ _ => simp at hl
  | x :: xs, r, hl, h => by
    cases r with
    | nil => simp at hl
    | cons y ys =>
      have h0 := h 0 x y (by simp) (by simp)
      have ih := mapM_congr_index f g xs ys (by simpa using hl) (fun i a c hi hc => h (i + 1) a c (by simpa using hi) (by simpa using hc))
      rw [List.mapM_cons, List.mapM_cons, h0, ih]

theorem normTensor_ok_of_dataOk (td : TensorD) (h : dataOk td = true) : ∃ ntd, normTensor td = .ok ntd := by
  unfold dataOk at h
  cases hc : dtypeCode td.dtype with
  | none => simp [hc] at h
  | some c =>
    simp only [hc] at h
    cases hr : Reader.dtypeRow c with
    | error e => simp [hr] at h
    | ok row =>
      simp only [hr] at h
      cases hk : Reader.checkData row.2.1 row.2.2.2.2 (writtenShape td) (normValues td.values) with
      | error e => simp [hk] at h
      | ok u =>
        unfold normTensor
        simp only [hc, hr, hk, bind, Except.bind, pure, Except.pure]
        exact ⟨_, rfl⟩

/-- one written tensor record read back: the reader's result (or failure) is the normal form of the tensor -/
theorem parse_written_tensor (bufs : List (Option Data)) (td : TensorD) (tt : TensorT) (h : tensorT td tt.buffer = .ok tt)
    (hb : bufs[tt.buffer]? = some (normValues td.values)) : Reader.parseTensor bufs tt = normTensor td := by
  obtain ⟨b1, b2, b3, b4, b5, _, _⟩ := tensorT_ok td tt.buffer tt h
  have hbuf : Reader.bufferOf bufs tt.buffer = .ok (normValues td.values) := by
    unfold Reader.bufferOf; rw [hb]; rfl
  unfold Reader.parseTensor normTensor
  simp only [b3, hbuf, b5, b4, b1, b2, Option.getD_some, bind, Except.bind, pure, Except.pure]

/-- the tensor table of one written subgraph read back (relative to the final buffer list `B`, followed by the metadata buffers) -/
theorem parse_written_tensors (ts : List TensorD) (all : List Nat) (tensors : List TensorT) (B X : List (Option Data))
    (h : TensorsOk ts all tensors B) :
    tensors.mapM (Reader.parseTensor (((B ++ X).map fun b => ({ data := b } : BufferT)).map Reader.parseBuffer)) =
      all.mapM (normTensorAt ts) := by
  obtain ⟨hl, hf⟩ := h
  apply mapM_congr_index _ _ _ _ hl
  intro i tt g hi hg
  obtain ⟨td, tt', h1, h2, h3, h4, h5⟩ := hf i g hg
  rw [hi] at h2; obtain rfl := Option.some.inj h2
  have hb : (((B ++ X).map fun b => ({ data := b } : BufferT)).map Reader.parseBuffer)[tt.buffer]? = some (normValues td.values) := by
    simp only [List.getElem?_map, List.getElem?_append_left h4, h5, Option.map_some]; rfl
  rw [parse_written_tensor _ td tt h3 hb]
  unfold normTensorAt
  rw [h1]

/-! ## (b) operator codes -/

theorem parseOpCode_op (oc : OpCodeT) (rc : Reader.RCode) (h : Reader.parseOpCode oc = .ok rc) : lookupOp rc.op.name = some rc.op := by
  unfold Reader.parseOpCode at h
  obtain ⟨row, h1, h⟩ := bind_ok h
  obtain ⟨info, h2, h⟩ := bind_ok h
  simp only [pure, Except.pure, Except.ok.injEq] at h
  subst h
  dsimp only
  unfold lookupOpE at h2
  cases hx : lookupOp row.2.1 with
  | none => simp [hx, throw, throwThe, MonadExceptOf.throw] at h2
  | some i =>
    simp [hx, pure, Except.pure] at h2
    subst h2
    obtain ⟨_, hn⟩ := lookupOp_tableOk _ _ hx
    rw [hn]; exact hx

theorem serialiseOpCode_lookup (c : Code) (oc : OpCodeT) (h : serialiseOpCode c = .ok oc) : ∃ info, lookupOpId c.opId = some info := by
  unfold serialiseOpCode at h
  cases hx : lookupOpId c.opId with
  | none => simp [hx, bind, Except.bind, throw, throwThe, MonadExceptOf.throw] at h
  | some i => exact ⟨i, rfl⟩

theorem opcodes_readable (codes : List Code) (opcodes : List OpCodeT) (h : codes.mapM serialiseOpCode = .ok opcodes) :
    ∃ rcodes, opcodes.mapM Reader.parseOpCode = .ok rcodes := by
  apply mapM_of_pointwise
  intro oc hoc
  obtain ⟨c, _, hc⟩ := mapM_mem _ _ _ h oc hoc
  obtain ⟨info, hi⟩ := serialiseOpCode_lookup c oc hc
  obtain ⟨rc, _, _, _, hrc, _⟩ := opcode_roundtrip c oc info hi hc
  exact ⟨rc, hrc⟩

theorem tableOk_lookupOpId (info : OpInfo) (h : info.tableOk = true) : lookupOpId info.id = some info := by
  unfold OpInfo.tableOk at h
  simp only [Bool.and_eq_true, beq_iff_eq] at h
  exact h.1.2

/-- the operator code entry a written operator points to, as the reader parses it -/
theorem codeAt_written (ci : OpInfo) (hci : lookupOp "Custom" = some ci) (codes : List Code) (opcodes : List OpCodeT)
    (rcodes : List Reader.RCode) (h2 : codes.mapM serialiseOpCode = .ok opcodes) (h3 : opcodes.mapM Reader.parseOpCode = .ok rcodes)
    (p : POp) (hp : p.info.tableOk = true) (i : Nat) (hi : opcodeIndex codes p = .ok i) :
    Reader.codeAt rcodes i = .ok (normRCode ci p) := by
  obtain ⟨c, c1, c2, c3, c4⟩ := opcodeIndex_ok _ _ _ hi
  obtain ⟨_, f2⟩ := mapM_ok _ _ _ h2
  obtain ⟨oc, oc1, oc2⟩ := f2 i c c1
  obtain ⟨_, f3⟩ := mapM_ok _ _ _ h3
  obtain ⟨rc, rc1, rc2⟩ := f3 i oc oc1
  have hl : lookupOpId c.opId = some p.info := by rw [c2]; exact tableOk_lookupOpId _ hp
  obtain ⟨rc', tf, ser, wt, r1, r2, r3, r4, r5, r6, r7, r8⟩ := opcode_roundtrip c oc p.info hl oc2
  rw [rc2] at r1
  obtain rfl := Except.ok.inj r1
  have hop := parseOpCode_op oc rc rc2
  unfold Reader.codeAt
  rw [rc1]
  simp only [pure, Except.pure, Except.ok.injEq]
  have hop' : rc.op = if p.info.name = "CustomNpuOp" then ci else p.info := by
    by_cases hn : p.info.name = "CustomNpuOp"
    · rw [if_pos hn] at r4 ⊢
      rw [r4, hci] at hop
      exact (Option.some.inj hop).symm
    · rw [if_neg hn]; exact r5 hn
  have hcu : rc.custom = if p.info.name = "Custom" then some p.custom else if p.info.name = "CustomNpuOp" then some ethosU else none := by
    rw [r6]
    by_cases hn : p.info.name = "Custom"
    · rw [if_pos hn, if_pos hn, c4 hn]; rfl
    · rw [if_neg hn, if_neg hn]
  cases rc with
  | mk op hs cu ind ver =>
    simp only at hop' hcu r3 r7 r8
    unfold normRCode hasSer
    simp only [r2]
    rw [hop', hcu, r3, r7, r8, c3]

/-! ## (c) one operator -/

theorem mapIdx_lt (all : List Nat) (t : Option Nat) (i : Nat) (h : mapIdx all t = some i) : i < all.length := by
  cases t with
  | none => simp [mapIdx] at h
  | some g => exact (List.getElem?_eq_some_iff.mp (indexIn_some all g i h)).1

theorem serialiseOperator_payload (codes : List Code) (all : List Nat) (p : POp) (o : OperatorT) (h : serialiseOperator codes all p = .ok o) :
    o.payload = writtenPayload p := by
  unfold serialiseOperator at h
  dsimp only at h
  obtain ⟨idx, hidx, h⟩ := bind_ok h
  simp only [pure, Except.pure, Except.ok.injEq] at h
  subst h
  rfl

theorem resolve_inputs (all : List Nat) (b : Nat) (l : List (Option Nat)) :
    Reader.resolveAll b all.length (some (l.map fun t => match mapIdx all t with | some i => (i : Int) | none => -1)) = .ok (l.map (ren all b)) := by
  unfold Reader.resolveAll
  apply mapM_map_ok
  intro t _
  unfold ren
  cases hm : mapIdx all t with
  | none => exact resolve_minus1 _ _
  | some i => exact resolve_nat b _ i (mapIdx_lt all t i hm)

theorem resolve_results (all : List Nat) (b : Nat) (l : List (Option Nat)) :
    (l.filterMap fun t => (mapIdx all t).map Int.ofNat).mapM (Reader.resolve b all.length) = .ok ((renResults all b l).map some) := by
  unfold renResults
  rw [← List.map_filterMap, List.map_map]
  apply mapM_map_ok
  intro i hi
  obtain ⟨t, _, ht⟩ := List.mem_filterMap.mp hi
  exact resolve_nat b _ i (mapIdx_lt all t i ht)

theorem fileOutputs_some (l : List Nat) : Reader.fileOutputs (l.map some) = .ok l := by
  unfold Reader.fileOutputs
  have := mapM_map_ok (fun t : Option Nat => match t with | some t => (pure t : Except String Nat) | none => throw "attr") some id l
    (fun a _ => rfl)
  rw [List.map_id] at this
  exact this

/-- what the reader side needs to know about a written operator: the code entry it points to parses to `normRCode`, and the operand
orders coincide -/
structure OpFacts (ci : OpInfo) (rcodes : List Reader.RCode) (codes : List Code) (p : POp) : Prop where
  code : ∀ i, opcodeIndex codes p = .ok i → Reader.codeAt rcodes i = .ok (normRCode ci p)
  flat : (normRCode ci p).op.nng.flat = (normRCode ci p).indices.flat

/-- no surgery on this operator when the tensor list is `T` -/
structure OpSimple (ci : OpInfo) (all : List Nat) (b : Nat) (T : List TensorD) (p : POp) : Prop where
  name : ((normRCode ci p).op.name == "AssignVariable" || (normRCode ci p).op.name == "CallOnce") = false
  conv : Reader.cloneStep (normRCode ci p).op T (p.inputs.map (ren all b)) = .ok (T, p.inputs.map (ren all b))

theorem parse_written_operator (ci : OpInfo) (rcodes : List Reader.RCode) (codes : List Code) (all : List Nat) (b : Nat)
    (T : List TensorD) (k : Nat) (p : POp) (o : OperatorT)
    (hser : serialiseOperator codes all p = .ok o) (f : OpFacts ci rcodes codes p) :
    Reader.parseOperator rcodes b all.length T k o =
      (Reader.cloneStep (normRCode ci p).op
          (Reader.virtualStep (normRCode ci p) k T ((renResults all b p.outputs).map some)).1 (p.inputs.map (ren all b))).map fun c =>
        (operated (normROp ci all b p) c.2 (Reader.virtualStep (normRCode ci p) k T ((renResults all b p.outputs).map some)).2.1, c.1,
         (Reader.virtualStep (normRCode ci p) k T ((renResults all b p.outputs).map some)).2.2) := by
  obtain ⟨s1, s2, s3, s4, _, _⟩ := serialiseOperator_ok _ _ _ _ hser
  have s5 := serialiseOperator_payload _ _ _ _ hser
  have hint : Reader.resolveIntermediates b all.length o.intermediates = .ok ((renResults all b p.intermediates).map some) := by
    rw [s3]; exact resolve_results all b _
  have hout : Reader.resolveAll b all.length o.outputs = .ok ((renResults all b p.outputs).map some) := by
    rw [s2]; exact resolve_results all b _
  have hin : Reader.resolveAll b all.length o.inputs = .ok (p.inputs.map (ren all b)) := by
    rw [s1]; exact resolve_inputs all b _
  have hp : (if (normRCode ci p).hasSer = true then writtenPayload p else Reader.noPayload) = writtenPayload p := by
    unfold writtenPayload normRCode
    dsimp only
    cases hasSer p <;> simp
  unfold Reader.parseOperator
  simp only [f.code _ s4, hin, hout, hint, fileOutputs_some, alignInputs_id _ _ _ f.flat, s5, hp, bind, Except.bind, pure, Except.pure]
  cases Reader.cloneStep (normRCode ci p).op
      (Reader.virtualStep (normRCode ci p) k T ((renResults all b p.outputs).map some)).1 (p.inputs.map (ren all b)) with
  | error e => rfl
  | ok c => rfl

/-! ## (d) the operators of a subgraph -/

theorem parse_written_operators (ci : OpInfo) (rcodes : List Reader.RCode) (codes : List Code) (all : List Nat) (b : Nat) :
    ∀ (pl : List POp) (ol : List OperatorT) (k : Nat) (T : List TensorD),
    pl.mapM (serialiseOperator codes all) = .ok ol → (∀ p ∈ pl, OpFacts ci rcodes codes p) →
    Reader.parseOperators rcodes b all.length ol k T = normOps ci all b pl k T
  | [], ol, k, T, h, _ => by
    simp [pure, Except.pure] at h
    subst h
    rfl
  | p :: rest, ol, k, T, h, hf => by
    rw [List.mapM_cons] at h
    obtain ⟨o, ho, h⟩ := bind_ok h
    obtain ⟨os, hos, h⟩ := bind_ok h
    simp only [pure, Except.pure, Except.ok.injEq] at h
    subst h
    have f := hf p (List.mem_cons_self ..)
    unfold Reader.parseOperators normOps
    rw [parse_written_operator ci rcodes codes all b T k p o ho f]
    cases hc : Reader.cloneStep (normRCode ci p).op
        (Reader.virtualStep (normRCode ci p) k T ((renResults all b p.outputs).map some)).1 (p.inputs.map (ren all b)) with
    | error e => rfl
    | ok c =>
      have ih := parse_written_operators ci rcodes codes all b rest os (k + 1) c.1 hos (fun q hq => hf q (List.mem_cons_of_mem _ hq))
      simp only [Except.map, bind, Except.bind]
      rw [ih]
      cases normOps ci all b rest (k + 1) c.1 <;> rfl

/-- the surgery leaves the results an operator wrote (`fileOutputs`) alone -/
theorem normOps_fileOutputs (ci : OpInfo) (all : List Nat) (b : Nat) : ∀ (pl : List POp) (k : Nat) (T : List TensorD)
    (r : List Reader.ROp × List TensorD × List Nat), normOps ci all b pl k T = .ok r →
    r.1.map (·.fileOutputs) = pl.map fun p => renResults all b p.outputs
  | [], k, T, r, h => by
    simp only [normOps, pure, Except.pure, Except.ok.injEq] at h
    subst h; rfl
  | p :: rest, k, T, r, h => by
    unfold normOps at h
    obtain ⟨c, _, h⟩ := bind_ok h
    obtain ⟨rs, hrs, h⟩ := bind_ok h
    simp only [pure, Except.pure, Except.ok.injEq] at h
    subst h
    have ih := normOps_fileOutputs ci all b rest (k + 1) c.1 rs hrs
    simp only [List.map_cons, ih]
    rfl

/-- without surgery: the renumbered operators, no new tensor, no virtual output -/
theorem normOps_simple (ci : OpInfo) (all : List Nat) (b : Nat) (T : List TensorD) : ∀ (pl : List POp) (k : Nat),
    (∀ p ∈ pl, OpSimple ci all b T p) → normOps ci all b pl k T = .ok (pl.map (normROp ci all b), T, [])
  | [], k, _ => rfl
  | p :: rest, k, hf => by
    have f := hf p (List.mem_cons_self ..)
    have hvs : ∀ outs, Reader.virtualStep (normRCode ci p) k T outs = (T, outs, none) := by
      intro outs; unfold Reader.virtualStep; simp only [f.name]; rfl
    unfold normOps
    simp only [hvs, f.conv, bind, Except.bind]
    rw [normOps_simple ci all b T rest (k + 1) (fun q hq => hf q (List.mem_cons_of_mem _ hq))]
    rfl

/-- table facts: the row `Custom` the Ethos-U operator is read back as has the operand order the writer uses for `CustomNpuOp`, is
not convolution-like -/
theorem npu_table_fact : opTable.all (fun info => info.name != "CustomNpuOp" ||
    match lookupOp "Custom", info.inv with
    | some ci, some x => ci.nng.flat == x.2.2.flat && !ci.convLike
    | _, _ => false) = true := by decide +kernel

theorem opFacts_of (ci : OpInfo) (hci : lookupOp "Custom" = some ci) (codes : List Code) (opcodes : List OpCodeT)
    (rcodes : List Reader.RCode) (h2 : codes.mapM serialiseOpCode = .ok opcodes) (h3 : opcodes.mapM Reader.parseOpCode = .ok rcodes)
    (p : POp) (hp : p.info.tableOk = true) (hinv : p.info.inv.isSome = true) : OpFacts ci rcodes codes p := by
  obtain ⟨x, hx⟩ := Option.isSome_iff_exists.mp hinv
  have hmem : p.info ∈ opTable := by
    unfold OpInfo.tableOk at hp
    simp only [Bool.and_eq_true, beq_iff_eq] at hp
    have := hp.1.1
    unfold lookupOp at this
    exact List.mem_of_find?_eq_some this
  refine ⟨fun i hi => codeAt_written ci hci codes opcodes rcodes h2 h3 p hp i hi, ?_⟩
  unfold normRCode
  simp only [hx]
  by_cases hn : p.info.name = "CustomNpuOp"
  · rw [if_pos hn]
    have := List.all_eq_true.mp npu_table_fact _ hmem
    simp only [hn, hci, hx, bne_self_eq_false, Bool.false_or, Bool.and_eq_true, beq_iff_eq] at this
    exact this.1
  · rw [if_neg hn]
    unfold OpInfo.tableOk at hp
    simp only [hx, Bool.and_eq_true, beq_iff_eq] at hp
    exact hp.2.1.symm

theorem normTensor_values (td ntd : TensorD) (h : normTensor td = .ok ntd) : ntd.values = normValues td.values := by
  unfold normTensor at h
  cases hc : dtypeCode td.dtype with
  | none => simp [hc, bind, Except.bind, throw, throwThe, MonadExceptOf.throw] at h
  | some c =>
    simp only [hc, bind, Except.bind, pure, Except.pure] at h
    cases hr : Reader.dtypeRow c with
    | error e => simp [hr] at h
    | ok row =>
      simp only [hr] at h
      cases hk : Reader.checkData row.2.1 row.2.2.2.2 (writtenShape td) (normValues td.values) with
      | error e => simp [hk] at h
      | ok u =>
        simp only [hk, Except.ok.injEq] at h
        subst h
        rfl

theorem opSimple_of (ts : List TensorD) (ci : OpInfo) (hci : lookupOp "Custom" = some ci) (all : List Nat) (b : Nat) (T : List TensorD)
    (p : POp) (hp : p.info.tableOk = true) (hok : opOk ts p = true) (hinv : p.info.inv.isSome = true)
    (hw : ∀ w, p.inputs[1]? = some (some w) → w ∈ all)
    (hT : ∀ (i g : Nat), all[i]? = some g → ∀ td, ts[g]? = some td → ∃ ntd, T[b + i]? = some ntd ∧ ntd.values = normValues td.values) :
    OpSimple ci all b T p := by
  obtain ⟨x, hx⟩ := Option.isSome_iff_exists.mp hinv
  unfold opOk at hok
  simp only [Bool.and_eq_true, bne_iff_ne, ne_eq] at hok
  obtain ⟨⟨hn1, hn2⟩, hcv⟩ := hok
  have hcn : ci.name = "Custom" := (lookupOp_tableOk _ _ hci).2
  have hmem : p.info ∈ opTable := by
    unfold OpInfo.tableOk at hp
    simp only [Bool.and_eq_true, beq_iff_eq] at hp
    have := hp.1.1
    unfold lookupOp at this
    exact List.mem_of_find?_eq_some this
  refine ⟨?_, ?_⟩
  · unfold normRCode
    dsimp only
    by_cases hn : p.info.name = "CustomNpuOp"
    · rw [if_pos hn, hcn]; decide
    · rw [if_neg hn]; simp [hn1, hn2]
  · unfold normRCode
    dsimp only
    by_cases hn : p.info.name = "CustomNpuOp"
    · rw [if_pos hn]
      have := List.all_eq_true.mp npu_table_fact _ hmem
      simp only [hn, hci, hx, bne_self_eq_false, Bool.false_or, Bool.and_eq_true, beq_iff_eq, Bool.not_eq_true'] at this
      unfold Reader.cloneStep
      simp only [this.2]
      rfl
    · rw [if_neg hn]
      unfold Reader.cloneStep
      by_cases hc : p.info.convLike = true
      · unfold convOk at hcv
        simp only [hc, Bool.not_true, Bool.false_or] at hcv
        cases h1 : p.inputs[1]? with
        | none => simp [h1] at hcv
        | some ow =>
          cases ow with
          | none => simp [h1] at hcv
          | some w =>
            simp only [h1] at hcv
            cases h2 : ts[w]? with
            | none => simp [h2] at hcv
            | some tw =>
              simp only [h2] at hcv
              obtain ⟨i, hi, hgi⟩ := indexIn_of_mem all w (hw w h1)
              obtain ⟨ntd, hn1', hn2'⟩ := hT i w hgi tw h2
              have hins : (p.inputs.map (ren all b))[1]? = some (some (b + i)) := by
                rw [List.getElem?_map, h1]
                simp [ren, mapIdx, hi]
              have hv : ntd.values.isSome = false := by
                rw [hn2']
                cases hnv : normValues tw.values with
                | none => rfl
                | some v => simp [hnv] at hcv
              simp only [hc, hins, hn1', hv, if_true]
              rfl
      · simp only [hc]
        rfl

/-! ## (e) one subgraph -/

theorem pyIndex_range (n i : Nat) (h : i < n) : Reader.pyIndex (List.range n) (i : Int) = some i := by
  unfold Reader.pyIndex
  have h2 : (0 : Int) ≤ (i : Int) := by omega
  simp [h2, h]

theorem ioIndices_written (all : List Nat) (b : Nat) (l : List Nat) :
    Reader.ioIndices b all.length (some (idxList all l)) = .ok (renList all b l) := by
  unfold Reader.ioIndices idxList renList
  rw [← List.map_filterMap]
  apply mapM_map_ok
  intro i hi
  obtain ⟨g, _, hg⟩ := List.mem_filterMap.mp hi
  have hil : i < all.length := (List.getElem?_eq_some_iff.mp (indexIn_some all g i hg)).1
  simp only [Int.ofNat_eq_natCast, pyIndex_range _ _ hil]
  rfl

theorem inputs_check (all : List Nat) (b : Nat) (origIn : List Nat) (ops : List POp) (rops : List Reader.ROp)
    (hr : rops.map (·.fileOutputs) = ops.map fun p => renResults all b p.outputs)
    (h : (origIn.all fun g => ops.all fun p => !p.outputs.contains (some g)) = true) :
    (Reader.dedupNat (renList all b origIn)).any (Reader.produced rops) = false := by
  cases hc : (Reader.dedupNat (renList all b origIn)).any (Reader.produced rops) with
  | false => rfl
  | true =>
    exfalso
    obtain ⟨x, hx, hprod⟩ := List.any_eq_true.mp hc
    unfold Reader.dedupNat at hx
    rw [mem_dedup] at hx
    unfold renList at hx
    obtain ⟨i, hi, rfl⟩ := List.mem_map.mp hx
    obtain ⟨g, hg, hgi⟩ := List.mem_filterMap.mp hi
    unfold Reader.produced at hprod
    obtain ⟨rop, hrop, hcon⟩ := List.any_eq_true.mp hprod
    have hfo : rop.fileOutputs ∈ ops.map fun p => renResults all b p.outputs := by
      rw [← hr]; exact List.mem_map.mpr ⟨rop, hrop, rfl⟩
    obtain ⟨p, hp, hpe⟩ := List.mem_map.mp hfo
    have hmem : b + i ∈ renResults all b p.outputs := by rw [hpe]; simpa using hcon
    unfold renResults at hmem
    obtain ⟨j, hj, hji⟩ := List.mem_map.mp hmem
    obtain ⟨t, ht, htj⟩ := List.mem_filterMap.mp hj
    have hij : j = i := by omega
    subst hij
    cases t with
    | none => simp [mapIdx] at htj
    | some g' =>
      have e1 := indexIn_some all g j hgi
      have e2 := indexIn_some all g' j htj
      rw [e1] at e2
      obtain rfl := Option.some.inj e2
      have := List.all_eq_true.mp (List.all_eq_true.mp h g hg) p hp
      simp at this
      exact this ht

theorem read_written_subgraph (ts : List TensorD) (ci : OpInfo) (rcodes : List Reader.RCode) (codes : List Code)
    (bufs : List (Option Data)) (prev : List TensorD) (ps : PSub) (sg : SubGraphT)
    (hloc : SgLocal ts codes ps sg) (hlen : sg.tensors.length = (sgAll ts ps).length)
    (hparse : sg.tensors.mapM (Reader.parseTensor bufs) = (sgAll ts ps).mapM (normTensorAt ts))
    (hops : ∀ p ∈ writtenOps ps, OpFacts ci rcodes codes p) :
    Reader.readSubgraph rcodes bufs prev sg = normSub ts ci prev ps := by
  obtain ⟨outs2, operators, ho, hser, hoe, hi, hou, hn, _⟩ := hloc
  unfold Reader.readSubgraph normSub
  rw [hlen, hoe, hou, hi, hn, hparse]
  cases hown : (sgAll ts ps).mapM (normTensorAt ts) with
  | error e => rfl
  | ok own =>
    have hpo := parse_written_operators ci rcodes codes (sgAll ts ps) prev.length (writtenOps ps) operators 0 (prev ++ own) hser hops
    simp only [hpo, bind, Except.bind]
    cases hno : normOps ci (sgAll ts ps) prev.length (writtenOps ps) 0 (prev ++ own) with
    | error e => rfl
    | ok r =>
      simp only [ho, ioIndices_written, bind, Except.bind, pure, Except.pure, Option.getD_some]

/-! ## (f) all subgraphs -/

structure SubOk (ts : List TensorD) (ci : OpInfo) (rcodes : List Reader.RCode) (codes : List Code) (bufs : List (Option Data))
    (ps : PSub) (sg : SubGraphT) : Prop where
  loc : SgLocal ts codes ps sg
  len : sg.tensors.length = (sgAll ts ps).length
  own : sg.tensors.mapM (Reader.parseTensor bufs) = (sgAll ts ps).mapM (normTensorAt ts)
  refs : ∀ g ∈ sgAll ts ps, ∃ td, ts[g]? = some td
  ops : ∀ p ∈ writtenOps ps, OpFacts ci rcodes codes p

theorem read_written_subgraphs (ts : List TensorD) (ci : OpInfo) (rcodes : List Reader.RCode) (codes : List Code)
    (bufs : List (Option Data)) (subs : List PSub) (sgs : List SubGraphT)
    (h : List.Forall₂ (SubOk ts ci rcodes codes bufs) subs sgs) :
    ∀ prev, Reader.readSubgraphs rcodes bufs sgs prev = normSubs ts ci subs prev := by
  induction h with
  | nil => intro prev; rfl
  | cons hab _ ih =>
    intro prev
    unfold Reader.readSubgraphs normSubs
    rw [read_written_subgraph ts ci rcodes codes bufs prev _ _ hab.loc hab.len hab.own hab.ops]
    cases hn : normSub ts ci prev _ with
    | error e => rfl
    | ok r =>
      simp only [bind, Except.bind]
      rw [ih r.2]

theorem positionsOf_ok (l : List Nat) : ∃ r, Reader.positionsOf (Reader.dedupNat l) l = .ok r := by
  unfold Reader.positionsOf
  apply mapM_of_pointwise
  intro t ht
  have : t ∈ Reader.dedupNat l := by unfold Reader.dedupNat; rw [mem_dedup]; exact ht
  obtain ⟨i, hi, _⟩ := indexIn_of_mem _ t this
  exact ⟨i, by simp only [hi]; rfl⟩

/-- the closed form of one subgraph of the normal form without surgery: its own tensors behind the earlier ones, the renumbered
operators behind their Placeholder / Const producers, the renumbered interface -/
theorem normSub_simple (ts : List TensorD) (ci : OpInfo) (prev own : List TensorD) (ps : PSub) (outs2 pos : List Nat)
    (ho1 : (sgAll ts ps).mapM (normTensorAt ts) = .ok own)
    (ho : outputList ps.sg.originalOutputPositions (sgOuts ps) = .ok outs2)
    (hpos : Reader.positionsOf (Reader.dedupNat (renList (sgAll ts ps) prev.length outs2)) (renList (sgAll ts ps) prev.length outs2) = .ok pos)
    (hinp : inputsNotProduced ps = true)
    (hs : ∀ p ∈ writtenOps ps, OpSimple ci (sgAll ts ps) prev.length (prev ++ own) p) :
    normSub ts ci prev ps = .ok (
      SubgraphD.mk ps.sg.name true
        (Reader.startupOps (prev ++ own) prev.length (sgAll ts ps).length ((writtenOps ps).map (normROp ci (sgAll ts ps) prev.length))
            (Reader.dedupNat (renList (sgAll ts ps) prev.length ps.sg.originalInputs)) ++
          Reader.realOps ((writtenOps ps).map (normROp ci (sgAll ts ps) prev.length)) [])
        (renList (sgAll ts ps) prev.length ps.sg.originalInputs) []
        (Reader.dedupNat (renList (sgAll ts ps) prev.length outs2)) (some pos) [], prev ++ own) := by
  have hno := normOps_simple ci (sgAll ts ps) prev.length (prev ++ own) (writtenOps ps) 0 hs
  have hchk : Writer.check (!(Reader.dedupNat (renList (sgAll ts ps) prev.length ps.sg.originalInputs)).any
      (Reader.produced ((writtenOps ps).map (normROp ci (sgAll ts ps) prev.length)))) "vela-error" = .ok () := by
    rw [inputs_check _ _ _ _ _ (normOps_fileOutputs ci _ _ _ _ _ _ hno) hinp]; rfl
  unfold normSub
  simp only [ho1, hno, ho, hchk, hpos, bind, Except.bind, pure, Except.pure, List.append_nil, List.map_nil]

theorem normSubs_ok (ts : List TensorD) (ci : OpInfo) (rcodes : List Reader.RCode) (codes : List Code)
    (bufs : List (Option Data)) (subs : List PSub) (sgs : List SubGraphT)
    (h : List.Forall₂ (SubOk ts ci rcodes codes bufs) subs sgs)
    (hdom : ∀ ps ∈ subs, subDomain ts ps = true)
    (hs : ∀ ps ∈ subs, ∀ prev own, (sgAll ts ps).mapM (normTensorAt ts) = .ok own →
      ∀ p ∈ writtenOps ps, OpSimple ci (sgAll ts ps) prev.length (prev ++ own) p) :
    ∀ prev, ∃ r, normSubs ts ci subs prev = .ok r := by
  induction h with
  | nil => intro prev; exact ⟨_, rfl⟩
  | @cons ps sg _ _ hab _ ih =>
    intro prev
    have hd := hdom ps (List.mem_cons_self ..)
    unfold subDomain at hd
    simp only [Bool.and_eq_true] at hd
    obtain ⟨hdata, hinp⟩ := hd
    obtain ⟨own, ho1⟩ := mapM_of_pointwise (normTensorAt ts) (sgAll ts ps) (by
      intro g hg
      obtain ⟨td, htd⟩ := hab.refs g hg
      have := List.all_eq_true.mp hdata g hg
      simp only [htd] at this
      obtain ⟨ntd, hn⟩ := normTensor_ok_of_dataOk td this
      exact ⟨ntd, by unfold normTensorAt; rw [htd]; exact hn⟩)
    obtain ⟨outs2, _, ho, _⟩ := hab.loc
    unfold normSubs normSub
    obtain ⟨pos, hpos⟩ := positionsOf_ok (renList (sgAll ts ps) prev.length outs2)
    have hno := normOps_simple ci (sgAll ts ps) prev.length (prev ++ own) (writtenOps ps) 0 (hs ps (List.mem_cons_self ..) prev own ho1)
    have hchk : Writer.check (!(Reader.dedupNat (renList (sgAll ts ps) prev.length ps.sg.originalInputs)).any
        (Reader.produced ((writtenOps ps).map (normROp ci (sgAll ts ps) prev.length)))) "vela-error" = .ok () := by
      rw [inputs_check _ _ _ _ _ (normOps_fileOutputs ci _ _ _ _ _ _ hno) hinp]; rfl
    simp only [ho1, hno, ho, hchk, hpos, bind, Except.bind, pure, Except.pure]
    obtain ⟨r, hr⟩ := ih (fun q hq => hdom q (List.mem_cons_of_mem _ hq)) (fun q hq => hs q (List.mem_cons_of_mem _ hq)) (prev ++ own)
    rw [hr]
    exact ⟨_, rfl⟩

/-! ## (g) metadata -/

theorem read_written_metadata (B : List (Option Data)) (metas : List MetaW) :
    Reader.readMetadata (((B ++ metas.map (·.data)).map fun b => ({ data := b } : BufferT)).map Reader.parseBuffer)
      (metas.zipIdx.map fun m => { name := some m.1.name, buffer := B.length + m.2 }) =
    .ok (metas.map fun mw => { nameIsBytes := true, name := mw.name, data := normValues mw.data }) := by
  unfold Reader.readMetadata
  rw [mapM_map_ok (k := fun m : MetaW × Nat => some ({ nameIsBytes := true, name := m.1.name, data := normValues m.1.data } : MetaD))]
  · simp only [bind, Except.bind, pure, Except.pure]
    congr 1
    rw [List.filterMap_map]
    have : (metas.zipIdx.map Prod.fst) = metas := List.zipIdx_map_fst _ _
    conv => rhs; rw [← this]
    rw [List.map_map]
    simp [Function.comp_def]
  · intro m hm
    have hg : metas[m.2]? = some m.1 := List.mem_zipIdx_iff_getElem?.mp hm
    have hb : (((B ++ metas.map (·.data)).map fun b => ({ data := b } : BufferT)).map Reader.parseBuffer)[B.length + m.2]? =
        some (normValues m.1.data) := by
      simp only [List.getElem?_map, List.getElem?_append_right (Nat.le_add_right _ _), Nat.add_sub_cancel_left, hg, Option.map_some]
      rfl
    simp only [hb]
    rfl

/-! ## (h) the whole file -/

theorem prepOp_info (ts : List TensorD) (op : OpD) (p : POp) (h : prepOp ts op = .ok p) : p.info.tableOk = true := by
  unfold prepOp at h
  obtain ⟨info, h1, h⟩ := bind_ok h
  obtain ⟨in1, h2, h⟩ := bind_ok h
  obtain ⟨in2, h3, h⟩ := bind_ok h
  simp only [pure, Except.pure, Except.ok.injEq] at h
  subst h
  unfold lookupOpE at h1
  cases hx : lookupOp op.type with
  | none => simp [hx, throw, throwThe, MonadExceptOf.throw] at h1
  | some i =>
    simp [hx, pure, Except.pure] at h1
    subst h1
    exact (lookupOp_tableOk _ _ hx).1

/-- the operators of a prepared subgraph come from `prepOp` -/
theorem prepSub_ops (ts : List TensorD) (sg : SubgraphD) (ps : PSub) (h : prepSub ts sg = .ok ps) :
    ∀ p ∈ ps.ops, ∃ op, prepOp ts op = .ok p := by
  unfold prepSub at h
  obtain ⟨ops, h1, h⟩ := bind_ok h
  simp only [pure, Except.pure, Except.ok.injEq] at h
  subst h
  intro p hp
  obtain ⟨op, _, hop⟩ := mapM_mem _ _ _ h1 p hp
  exact ⟨op, hop⟩

/-- cutting off virtual outputs only empties result lists -/
theorem mem_clearVirtual : ∀ (vo : List (Nat × Option Nat)) (ops : List POp) (p : POp), p ∈ clearVirtual ops vo →
    ∃ p' ∈ ops, p.info = p'.info ∧ p.ignored = p'.ignored
  | [], ops, p, h => ⟨p, h, rfl, rfl⟩
  | v :: rest, ops, p, h => by
    unfold clearVirtual at h
    rw [List.foldl_cons] at h
    obtain ⟨p'', hp'', e1, e2⟩ := mem_clearVirtual rest _ p h
    cases hv : v.2 with
    | none => simp only [hv] at hp''; exact ⟨p'', hp'', e1, e2⟩
    | some k =>
      simp only [hv] at hp''
      unfold modifyAt at hp''
      cases hk : ops[k]? with
      | none => simp only [hk] at hp''; exact ⟨p'', hp'', e1, e2⟩
      | some a =>
        simp only [hk] at hp''
        rcases List.mem_or_eq_of_mem_set hp'' with hm | rfl
        · exact ⟨p'', hm, e1, e2⟩
        · exact ⟨a, List.mem_of_getElem? hk, e1, e2⟩

/-- a written operator has a row of the live table with a serialiser entry -/
theorem writtenOp_info (ts : List TensorD) (sgd : SubgraphD) (ps : PSub) (hprep : prepSub ts sgd = .ok ps) (p : POp)
    (hp : p ∈ writtenOps ps) : p.info.tableOk = true ∧ p.info.inv.isSome = true := by
  unfold writtenOps at hp
  obtain ⟨hp1, hp2⟩ := List.mem_filter.mp hp
  unfold sgOps at hp1
  obtain ⟨p', hp', e1, e2⟩ := mem_clearVirtual _ _ _ hp1
  obtain ⟨op, hop⟩ := prepSub_ops ts sgd ps hprep p' hp'
  obtain ⟨_, _, _, _, _, _, _, hinv, _⟩ := prepOp_ok ts op p' hop
  rw [e1]
  exact ⟨prepOp_info ts op p' hop, hinv (by rw [← e2]; simpa using hp2)⟩

theorem subOk_of (d : Desc) (ci : OpInfo) (hci : lookupOp "Custom" = some ci) (codes : List Code) (opcodes : List OpCodeT)
    (rcodes : List Reader.RCode) (h2 : codes.mapM serialiseOpCode = .ok opcodes) (h3 : opcodes.mapM Reader.parseOpCode = .ok rcodes)
    (B X : List (Option Data)) (sgd : SubgraphD) (ps : PSub) (sg : SubGraphT) (hprep : prepSub d.tensors sgd = .ok ps)
    (hloc : SgLocal d.tensors codes ps sg)
    (ht : TensorsOk d.tensors (sgAll d.tensors ps) sg.tensors B) :
    SubOk d.tensors ci rcodes codes (((B ++ X).map fun b => ({ data := b } : BufferT)).map Reader.parseBuffer) ps sg := by
  refine ⟨hloc, ht.1, parse_written_tensors d.tensors (sgAll d.tensors ps) sg.tensors B X ht, ?_, ?_⟩
  · intro g hg
    obtain ⟨i, hi⟩ := List.getElem?_of_mem hg
    obtain ⟨td, _, h1, _⟩ := ht.2 i g hi
    exact ⟨td, h1⟩
  · intro p hp
    obtain ⟨t1, t2⟩ := writtenOp_info d.tensors sgd ps hprep p hp
    exact opFacts_of ci hci codes opcodes rcodes h2 h3 p t1 t2

/-- the assembled round trip: reading the written file and normalising the description are the same computation (the same graph
description, or the same failure of one of the reader's checks / of its cloning step) — for every description; on the domain
(`roundtripDomain`) and without surgery (`noSurgery`) normalising succeeds -/
theorem read_writeWith (d : Desc) (enum : List Code) (m : ModelT) (h : writeWith d enum = .ok m) :
    Reader.read d.version m = normalise d ∧ (roundtripDomain d = true → noSurgery d = true → ∃ nd, normalise d = .ok nd) := by
  obtain ⟨subs, opcodes, st, metas, h1, h2, h3, h4, hm, acc, hl⟩ := write_facts d enum m h
  obtain ⟨ci, hci⟩ := Option.isSome_iff_exists.mp custom_exists
  have hciE : lookupOpE "Custom" = .ok ci := by unfold lookupOpE; rw [hci]; rfl
  obtain ⟨rcodes, h3'⟩ := opcodes_readable _ _ h2
  have hloc := subgraphs_local d.tensors (sortCodes enum) subs st0 m.subgraphs st h3
  have hbufs : m.buffers = (st.buffers ++ metas.map (·.data)).map fun b => ({ data := b } : BufferT) := by rw [hm]; rfl
  have hopc : m.opcodes = opcodes := by rw [hm]; rfl
  have hmd : m.metadata = metas.zipIdx.map fun x => ({ name := some x.1.name, buffer := st.buffers.length + x.2 } : MetadataT) := by
    rw [hm]; rfl
  have hall : List.Forall₂ (SubOk d.tensors ci rcodes (sortCodes enum) (m.buffers.map Reader.parseBuffer)) subs m.subgraphs := by
    rw [hbufs]
    rw [List.forall₂_iff_get]
    refine ⟨hl.symm, ?_⟩
    intro k hk hs
    have hL := (List.forall₂_iff_get.mp hloc).2 k hk hs
    have hps : subs.get ⟨k, hk⟩ ∈ subs := List.get_mem _ _
    obtain ⟨sgd, _, hprep⟩ := mapM_mem _ _ _ h1 _ hps
    have hmap : (subs.map (sgAll d.tensors))[k]? = some (sgAll d.tensors (subs.get ⟨k, hk⟩)) := by
      simp [List.getElem?_eq_getElem hk]
    have hsg : m.subgraphs[k]? = some (m.subgraphs.get ⟨k, hs⟩) := by simp [List.getElem?_eq_getElem hs]
    exact subOk_of d ci hci _ opcodes rcodes h2 h3' st.buffers _ sgd _ _ hprep hL (acc.tensors k _ _ hmap hsg)
  have e2 := read_written_subgraphs _ _ _ _ _ _ _ hall []
  have e3 : Reader.readMetadata (m.buffers.map Reader.parseBuffer) m.metadata =
      .ok (metas.map fun mw => { nameIsBytes := true, name := mw.name, data := normValues mw.data }) := by
    rw [hbufs, hmd]; exact read_written_metadata st.buffers metas
  have e4 : metadataToWrite d (subs.map (sgAll d.tensors)) = .ok metas := by rw [← acc.maps_eq]; exact h4
  constructor
  · unfold Reader.read normalise
    rw [hopc]
    simp only [h1, hciE, h3', e2, e3, e4, bind, Except.bind, pure, Except.pure]
  · intro hd hns
    have hdom : ∀ ps ∈ subs, subDomain d.tensors ps = true := by
      unfold roundtripDomain preppedSubs at hd
      rw [h1] at hd
      exact fun ps hps => List.all_eq_true.mp hd ps hps
    have hsimple : ∀ ps ∈ subs, ∀ prev own, (sgAll d.tensors ps).mapM (normTensorAt d.tensors) = .ok own →
        ∀ p ∈ writtenOps ps, OpSimple ci (sgAll d.tensors ps) prev.length (prev ++ own) p := by
      unfold noSurgery preppedSubs at hns
      rw [h1] at hns
      intro ps hps prev own hown p hp
      obtain ⟨sgd, _, hprep⟩ := mapM_mem _ _ _ h1 _ hps
      obtain ⟨t1, t2⟩ := writtenOp_info d.tensors sgd ps hprep p hp
      have hok := List.all_eq_true.mp (List.all_eq_true.mp hns ps hps) p hp
      refine opSimple_of d.tensors ci hci _ _ _ p t1 hok t2 ?_ ?_
      · intro w hw
        exact operand_mem d.tensors ps p hp w (by
          unfold POp.operands
          exact List.mem_append_left _ (List.mem_append_left _ (List.mem_of_getElem? hw)))
      · intro i g hig td htd
        obtain ⟨_, of⟩ := mapM_ok _ _ _ hown
        obtain ⟨ntd, hn1, hn2⟩ := of i g hig
        unfold normTensorAt at hn2
        simp only [htd] at hn2
        refine ⟨ntd, ?_, normTensor_values td ntd hn2⟩
        rw [List.getElem?_append_right (Nat.le_add_right _ _), Nat.add_sub_cancel_left]
        exact hn1
    obtain ⟨r, hr⟩ := normSubs_ok _ _ _ _ _ _ _ hall hdom hsimple []
    unfold normalise
    simp only [h1, hciE, hr, e4, bind, Except.bind, pure, Except.pure]
    exact ⟨_, rfl⟩

end VelaVerif.Tflite.Roundtrip
