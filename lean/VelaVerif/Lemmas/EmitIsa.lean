import VelaVerif.Model.EmitRegs
import VelaVerif.Spec.Isa
/-!
The hand-written ISA constant (`Spec/Isa.lean`, used by the decoder) for every register / operation
constructor of the emitter model.  `Props.C06.codes_match_isa` proves `r.code = r.isa` for all of them,
i.e. the number the *live* opcode table assigns to a name is the number the decoder listens on.
-/
namespace VelaVerif.Emit
open VelaVerif.Isa

def Reg0.isa : Reg0 → Nat
  | .ifmPadTop => IFM_PAD_TOP
  | .ifmPadLeft => IFM_PAD_LEFT
  | .ifmPadRight => IFM_PAD_RIGHT
  | .ifmPadBottom => IFM_PAD_BOTTOM
  | .ifmDepthM1 => IFM_DEPTH_M1
  | .ifmPrecision => IFM_PRECISION
  | .ifmUpscale => IFM_UPSCALE
  | .ifmZeroPoint => IFM_ZERO_POINT
  | .ifmWidth0M1 => IFM_WIDTH0_M1
  | .ifmHeight0M1 => IFM_HEIGHT0_M1
  | .ifmHeight1M1 => IFM_HEIGHT1_M1
  | .ifmIbEnd => IFM_IB_END
  | .ifmRegion => IFM_REGION
  | .ofmWidthM1 => OFM_WIDTH_M1
  | .ofmHeightM1 => OFM_HEIGHT_M1
  | .ofmDepthM1 => OFM_DEPTH_M1
  | .ofmPrecision => OFM_PRECISION
  | .ofmBlkWidthM1 => OFM_BLK_WIDTH_M1
  | .ofmBlkHeightM1 => OFM_BLK_HEIGHT_M1
  | .ofmBlkDepthM1 => OFM_BLK_DEPTH_M1
  | .ofmZeroPoint => OFM_ZERO_POINT
  | .ofmWidth0M1 => OFM_WIDTH0_M1
  | .ofmHeight0M1 => OFM_HEIGHT0_M1
  | .ofmHeight1M1 => OFM_HEIGHT1_M1
  | .ofmRegion => OFM_REGION
  | .kernelWidthM1 => KERNEL_WIDTH_M1
  | .kernelHeightM1 => KERNEL_HEIGHT_M1
  | .kernelStride => KERNEL_STRIDE
  | .parallelMode => PARALLEL_MODE
  | .accFormat => ACC_FORMAT
  | .activation => ACTIVATION
  | .activationMin => ACTIVATION_MIN
  | .activationMax => ACTIVATION_MAX
  | .weightRegion => WEIGHT_REGION
  | .scaleRegion => SCALE_REGION
  | .abStart => AB_START
  | .blockdep => BLOCKDEP
  | .dma0SrcRegion => DMA0_SRC_REGION
  | .dma0DstRegion => DMA0_DST_REGION
  | .dma0Size0 => DMA0_SIZE0
  | .dma0Size1 => DMA0_SIZE1
  | .ifm2Broadcast => IFM2_BROADCAST
  | .ifm2Scalar => IFM2_SCALAR
  | .ifm2Precision => IFM2_PRECISION
  | .ifm2ZeroPoint => IFM2_ZERO_POINT
  | .ifm2Width0M1 => IFM2_WIDTH0_M1
  | .ifm2Height0M1 => IFM2_HEIGHT0_M1
  | .ifm2Height1M1 => IFM2_HEIGHT1_M1
  | .ifm2IbStart => IFM2_IB_START
  | .ifm2Region => IFM2_REGION

def Reg1.isa : Reg1 → Nat
  | .ifmBase0 => IFM_BASE0
  | .ifmBase1 => IFM_BASE1
  | .ifmBase2 => IFM_BASE2
  | .ifmBase3 => IFM_BASE3
  | .ifmStrideX => IFM_STRIDE_X
  | .ifmStrideY => IFM_STRIDE_Y
  | .ifmStrideC => IFM_STRIDE_C
  | .ofmBase0 => OFM_BASE0
  | .ofmBase1 => OFM_BASE1
  | .ofmBase2 => OFM_BASE2
  | .ofmBase3 => OFM_BASE3
  | .ofmStrideX => OFM_STRIDE_X
  | .ofmStrideY => OFM_STRIDE_Y
  | .ofmStrideC => OFM_STRIDE_C
  | .weightBase => WEIGHT_BASE
  | .weightLength => WEIGHT_LENGTH
  | .scaleBase => SCALE_BASE
  | .scaleLength => SCALE_LENGTH
  | .ofmScale => OFM_SCALE
  | .opaScale => OPA_SCALE
  | .opbScale => OPB_SCALE
  | .dma0Src => DMA0_SRC
  | .dma0Dst => DMA0_DST
  | .dma0Len => DMA0_LEN
  | .dma0Skip0 => DMA0_SKIP0
  | .dma0Skip1 => DMA0_SKIP1
  | .ifm2Base0 => IFM2_BASE0
  | .ifm2Base1 => IFM2_BASE1
  | .ifm2Base2 => IFM2_BASE2
  | .ifm2Base3 => IFM2_BASE3
  | .ifm2StrideX => IFM2_STRIDE_X
  | .ifm2StrideY => IFM2_STRIDE_Y
  | .ifm2StrideC => IFM2_STRIDE_C
  | .weight1Base => WEIGHT1_BASE
  | .weight1Length => WEIGHT1_LENGTH
  | .scale1Base => SCALE1_BASE
  | .scale1Length => SCALE1_LENGTH

def OpCode.isa : OpCode → Nat
  | .stop => OP_STOP
  | .irq => OP_IRQ
  | .conv => OP_CONV
  | .depthwise => OP_DEPTHWISE
  | .pool => OP_POOL
  | .elementwise => OP_ELEMENTWISE
  | .dmaStart => OP_DMA_START
  | .dmaWait => OP_DMA_WAIT
  | .kernelWait => OP_KERNEL_WAIT
  | .pmuMask => OP_PMU_MASK

end VelaVerif.Emit
