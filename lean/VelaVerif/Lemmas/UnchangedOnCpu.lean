import VelaVerif.Spec.Constraints
/-!
Non-vacuity of the operand / result descriptions compared by `Spec.unchangedOnCpuDesc` (`Spec.descsEq`): a CPU-resident
CONV_2D whose per-axis weight zero points were zeroed, whose single weight zero point changed, or whose quantised
dimension changed is rejected; identical descriptions, and an absent zero-point vector standing for zeros, are accepted.
-/
namespace VelaVerif.Lemmas.UnchangedOnCpu
open VelaVerif.Constraints.Spec

def x : Option TensorDesc := some ⟨[1, 8, 8, 4], 9, [1028443341], [3], 0, false⟩
def b : Option TensorDesc := some ⟨[4], 2, [981668463], [0], 0, true⟩
def w (zps : List Int) (qd : Int := 0) : Option TensorDesc :=
  some ⟨[4, 1, 1, 4], 9, [1008981770, 1017370378, 1022739087, 1025758986], zps, qd, true⟩

example : descsEq [x, w [3, -2, 5, 1], b] [x, w [3, -2, 5, 1], b] = true := by decide
-- the genuine defect (C11-20) and seeded round 4 C16-m2: all weight zero points written as 0
example : descsEq [x, w [3, -2, 5, 1], b] [x, w [0, 0, 0, 0], b] = false := by decide
-- one entry of the vector changed
example : descsEq [x, w [3, -2, 5, 1], b] [x, w [3, -2, 5, 0], b] = false := by decide
-- quantised dimension changed
example : descsEq [x, w [3, -2, 5, 1], b] [x, w [3, -2, 5, 1] 3, b] = false := by decide
-- an absent zero-point vector means zeros, and only zeros
example : descsEq [x, w [], b] [x, w [0, 0, 0, 0], b] = true := by decide
example : descsEq [x, w [], b] [x, w [0, 0, 0, 1], b] = false := by decide
-- not quantised: the quantised dimension says nothing
example : descsEq [some ⟨[4], 0, [], [], 0, true⟩] [some ⟨[4], 0, [], [], 3, true⟩] = true := by decide
-- an omitted operand stays omitted; a constant stays a constant
example : descsEq [x, none] [x, b] = false := by decide
example : descsEq [x, none, b] [x, b] = false := by decide
-- a trailing omitted operand says nothing (bias-less CONV_2D written as [x, w, -1])
example : descsEq [x, w [0]] [x, w [0], none] = true := by decide
example : descsEq [some ⟨[4], 2, [], [], 0, true⟩] [some ⟨[4], 2, [], [], 0, false⟩] = false := by decide
-- a run-time operand may have been folded into a constant of the same description, not the other way round
example : descsEq [some ⟨[4], 2, [], [], 0, false⟩] [some ⟨[4], 2, [], [], 0, true⟩] = true := by decide
/-- the whole zero-point vector is compared: equal descriptions have equal normalised scales, zero points and quantised
    dimension -/
theorem descsEq_zero_points (a b : TensorDesc) (h : descsEq [some a] [some b] = true) :
    a.norm.zeroPoints = b.norm.zeroPoints ∧ a.norm.qdim = b.norm.qdim ∧ a.norm.scales = b.norm.scales ∧
      a.norm.shape = b.norm.shape ∧ a.norm.dtype = b.norm.dtype := by
  simp [descsEq, descEq] at h
  obtain ⟨⟨h1, h2, h3, h4, h5⟩, _⟩ := h
  exact ⟨h4, h5, h3, h1, h2⟩

end VelaVerif.Lemmas.UnchangedOnCpu
