import VelaVerif.Spec.FloatExact
import Mathlib.Tactic.Linarith
import Mathlib.Tactic.Ring
/-! Error analysis of the exact float routines (`Spec/Requant.roundTo`, `Spec/FloatExact.lean`). -/
namespace VelaVerif.FloatExact
open VelaVerif.Requant (roundTo)

theorem log2_bounds (n : Nat) (h : n ≠ 0) : 2 ^ n.log2 ≤ n ∧ n < 2 ^ (n.log2 + 1) :=
  ⟨Nat.log2_self_le h, Nat.lt_log2_self⟩

/-! ### `roundTo` in named parts -/

/-- the left shift that gives the quotient at least `p + 2` significant bits -/
def upOf (p num den : Nat) : Nat := if den.log2 + p + 3 > num.log2 then den.log2 + p + 3 - num.log2 else 0
/-- bits of the quotient that are rounded away -/
def dropOf (p q : Nat) : Nat := q.log2 + 1 - p
/-- the rounded mantissa (ties to even; a non-zero division remainder counts as "above the tie") -/
def mant (p q r : Nat) : Nat :=
  if q % 2 ^ dropOf p q > 2 ^ (dropOf p q - 1) ∨ (q % 2 ^ dropOf p q = 2 ^ (dropOf p q - 1) ∧ r > 0) then q / 2 ^ dropOf p q + 1
  else if q % 2 ^ dropOf p q = 2 ^ (dropOf p q - 1) ∧ r = 0 then
    (if (q / 2 ^ dropOf p q) % 2 = 1 then q / 2 ^ dropOf p q + 1 else q / 2 ^ dropOf p q)
  else q / 2 ^ dropOf p q

theorem roundTo_eq (p num den : Nat) (e : Int) (hnz : ¬(num = 0 ∨ den = 0 ∨ p = 0)) :
    roundTo p num den e =
      (if mant p (num * 2 ^ upOf p num den / den) (num * 2 ^ upOf p num den % den) = 2 ^ p then
        some (2 ^ (p - 1), e - (upOf p num den : Nat) + (dropOf p (num * 2 ^ upOf p num den / den) : Nat) + 1)
       else some (mant p (num * 2 ^ upOf p num den / den) (num * 2 ^ upOf p num den % den),
                  e - (upOf p num den : Nat) + (dropOf p (num * 2 ^ upOf p num den / den) : Nat))) := by
  unfold roundTo
  rw [if_neg hnz]
  rfl

/-- after the shift the quotient has at least `p + 3` bits -/
theorem quotient_big (p num den : Nat) (hnum : num ≠ 0) (hden : den ≠ 0) :
    2 ^ (p + 2) ≤ num * 2 ^ upOf p num den / den := by
  obtain ⟨hl1, _⟩ := log2_bounds num hnum
  obtain ⟨_, hd2⟩ := log2_bounds den hden
  have hdpos : 0 < den := Nat.pos_of_ne_zero hden
  have hn2big : 2 ^ (den.log2 + p + 3) ≤ num * 2 ^ upOf p num den := by
    unfold upOf
    split
    · calc 2 ^ (den.log2 + p + 3) = 2 ^ num.log2 * 2 ^ (den.log2 + p + 3 - num.log2) := by
            rw [← Nat.pow_add]; congr 1; omega
        _ ≤ num * 2 ^ (den.log2 + p + 3 - num.log2) := Nat.mul_le_mul_right _ hl1
    · simp only [Nat.pow_zero, Nat.mul_one]
      exact le_trans (Nat.pow_le_pow_right (by omega) (by omega)) hl1
  rw [Nat.le_div_iff_mul_le hdpos]
  calc 2 ^ (p + 2) * den ≤ 2 ^ (p + 2) * 2 ^ (den.log2 + 1) := Nat.mul_le_mul_left _ (le_of_lt hd2)
    _ = 2 ^ (den.log2 + p + 3) := by rw [← Nat.pow_add]; congr 1; omega
    _ ≤ _ := hn2big

/-- the mantissa is the quotient rounded to nearest at bit `drop`: `p` bits (or `2^p` after a carry), error at most half -/
theorem mant_spec (p q r den n2 : Nat) (hp : 0 < p) (hqbig : 2 ^ (p + 2) ≤ q) (hdiv : n2 = den * q + r) (hrlt : r < den) :
    3 ≤ dropOf p q ∧ 2 ^ (p - 1) ≤ mant p q r ∧ mant p q r ≤ 2 ^ p ∧
    mant p q r * 2 ^ dropOf p q * den ≤ n2 + 2 ^ (dropOf p q - 1) * den ∧
    n2 ≤ mant p q r * 2 ^ dropOf p q * den + 2 ^ (dropOf p q - 1) * den := by
  have hqne : q ≠ 0 := by
    have : 0 < 2 ^ (p + 2) := Nat.pow_pos (by omega)
    omega
  obtain ⟨hq1, hq2⟩ := log2_bounds q hqne
  have hlq : p + 2 ≤ q.log2 := (Nat.le_log2 hqne).mpr hqbig
  generalize hdrop : dropOf p q = drop
  have hdrop' : q.log2 + 1 - p = drop := hdrop
  have hdr3 : 3 ≤ drop := by omega
  have hpd : 0 < 2 ^ drop := Nat.pow_pos (by omega)
  have hqdec : q = 2 ^ drop * (q / 2 ^ drop) + q % 2 ^ drop := (Nat.div_add_mod q (2 ^ drop)).symm
  have hrest : q % 2 ^ drop < 2 ^ drop := Nat.mod_lt _ hpd
  have hhalf : 2 ^ drop = 2 * 2 ^ (drop - 1) := by
    rw [← Nat.pow_succ']; congr 1; omega
  have hm0lo : 2 ^ (p - 1) ≤ q / 2 ^ drop := by
    rw [Nat.le_div_iff_mul_le hpd, ← Nat.pow_add]
    have : p - 1 + drop = q.log2 := by omega
    rw [this]; exact hq1
  have hm0hi : q / 2 ^ drop < 2 ^ p := by
    rw [Nat.div_lt_iff_lt_mul hpd, ← Nat.pow_add]
    have : p + drop = q.log2 + 1 := by omega
    rw [this]; exact hq2
  unfold mant
  rw [hdrop]
  generalize hm0 : q / 2 ^ drop = m0 at *
  generalize hrq : q % 2 ^ drop = restQ at *
  generalize hhf : 2 ^ (drop - 1) = half at *
  have e1 : n2 = m0 * 2 ^ drop * den + (restQ * den + r) := by
    rw [hdiv, hqdec]; ring
  have e2 : (m0 + 1) * 2 ^ drop * den = m0 * 2 ^ drop * den + 2 * (half * den) := by
    rw [hhalf]; ring
  have hT : restQ * den + r < 2 * (half * den) := by
    have h1 : (restQ + 1) * den ≤ 2 * half * den := by
      apply Nat.mul_le_mul_right; rw [← hhalf]; omega
    have h2 : (restQ + 1) * den = restQ * den + den := by ring
    have h3 : 2 * half * den = 2 * (half * den) := by ring
    omega
  refine ⟨hdr3, ?_⟩
  generalize hB : m0 * 2 ^ drop * den = B at *
  generalize hH : half * den = H at *
  generalize hTT : restQ * den + r = T at *
  by_cases hgt : restQ > half ∨ (restQ = half ∧ r > 0)
  · rw [if_pos hgt]
    have hTH : H ≤ T := by
      rw [← hH, ← hTT]
      rcases hgt with hg | ⟨hg, _⟩
      · have := Nat.mul_le_mul_right den (Nat.le_of_lt hg); omega
      · rw [hg]; omega
    refine ⟨by omega, by omega, ?_, ?_⟩ <;> rw [e2, e1] <;> omega
  · rw [if_neg hgt]
    by_cases heq : restQ = half ∧ r = 0
    · rw [if_pos heq]
      obtain ⟨hq', hr'⟩ := heq
      have hTH : T = H := by rw [← hH, ← hTT, hq', hr']; rfl
      by_cases hodd : m0 % 2 = 1
      · rw [if_pos hodd]
        refine ⟨by omega, by omega, ?_, ?_⟩ <;> rw [e2, e1] <;> omega
      · rw [if_neg hodd]
        refine ⟨by omega, by omega, ?_, ?_⟩ <;> rw [hB, e1] <;> omega
    · rw [if_neg heq]
      have hlt : T < H := by
        have hrq' : restQ < half := by
          rcases Nat.lt_trichotomy restQ half with h1 | h1 | h1
          · exact h1
          · exfalso
            rcases Nat.eq_zero_or_pos r with h0 | h0
            · exact heq ⟨h1, h0⟩
            · exact hgt (Or.inr ⟨h1, h0⟩)
          · exact absurd (Or.inl h1) hgt
        have h1 : (restQ + 1) * den ≤ half * den := Nat.mul_le_mul_right den hrq'
        have h2 : (restQ + 1) * den = restQ * den + den := by ring
        rw [← hH, ← hTT]; omega
      refine ⟨by omega, by omega, ?_, ?_⟩ <;> rw [hB, e1] <;> omega

/-- **`roundTo` rounds to nearest**: the result has exactly `p` significant bits and, with `up` / `dr` the two shifts the
    function applies, `|m·2^dr·den − num·2^up| ≤ 2^(dr−1)·den` — half a unit in the last place. -/
theorem roundTo_spec (p num den : Nat) (e : Int) (m : Nat) (e' : Int) (hp : 0 < p)
    (h : roundTo p num den e = some (m, e')) :
    2 ^ (p - 1) ≤ m ∧ m < 2 ^ p ∧ ∃ up dr : Nat, e' = e - (up : Int) + (dr : Int) ∧ 1 ≤ dr ∧
      m * 2 ^ dr * den ≤ num * 2 ^ up + 2 ^ (dr - 1) * den ∧ num * 2 ^ up ≤ m * 2 ^ dr * den + 2 ^ (dr - 1) * den := by
  have hnz : ¬(num = 0 ∨ den = 0 ∨ p = 0) := by
    intro hh
    unfold roundTo at h
    rw [if_pos hh] at h
    cases h
  have hnum : num ≠ 0 := fun hh => hnz (Or.inl hh)
  have hden : den ≠ 0 := fun hh => hnz (Or.inr (Or.inl hh))
  rw [roundTo_eq p num den e hnz] at h
  generalize hup : upOf p num den = up at h
  have hqbig := quotient_big p num den hnum hden
  rw [hup] at hqbig
  generalize hn2 : num * 2 ^ up = n2 at h hqbig
  have hdpos : 0 < den := Nat.pos_of_ne_zero hden
  have hdiv : n2 = den * (n2 / den) + n2 % den := (Nat.div_add_mod n2 den).symm
  have hrlt : n2 % den < den := Nat.mod_lt _ hdpos
  obtain ⟨hdr3, hlo, hhi, hle, hge⟩ := mant_spec p (n2 / den) (n2 % den) den n2 hp hqbig hdiv hrlt
  generalize hm1 : mant p (n2 / den) (n2 % den) = m1 at *
  generalize hdrop : dropOf p (n2 / den) = drop at *
  have h2p : 2 ^ p = 2 * 2 ^ (p - 1) := by
    rw [← Nat.pow_succ']; congr 1; omega
  have hpp : 0 < 2 ^ (p - 1) := Nat.pow_pos (by omega)
  split at h
  · rename_i hcarry
    injection h with h; injection h with h1 h2
    subst h1
    have hval : 2 ^ (p - 1) * 2 ^ (drop + 1) = m1 * 2 ^ drop := by rw [hcarry, h2p, Nat.pow_succ]; ring
    have hhalf2 : 2 ^ (drop + 1 - 1) * den = 2 * (2 ^ (drop - 1) * den) := by
      have h1 : drop + 1 - 1 = (drop - 1) + 1 := by omega
      rw [h1, Nat.pow_succ]; ring
    refine ⟨le_refl _, by omega, up, drop + 1, ?_, by omega, ?_, ?_⟩
    · rw [← h2]; push_cast; ring
    · rw [hval, hhalf2, hn2]; omega
    · rw [hval, hhalf2, hn2]; omega
  · rename_i hncarry
    injection h with h; injection h with h1 h2
    subst h1
    exact ⟨hlo, by omega, up, drop, h2.symm, by omega, hn2 ▸ hle, hn2 ▸ hge⟩

end VelaVerif.FloatExact
