import VelaVerif.Lemmas.AllocGreedy
/-! Lemmas for C05: the HillClimb allocator (`allocate_lr`, `allocate_indices`, `search`). -/
namespace VelaVerif.Alloc
open VelaVerif.Gen.AllocConst

/-! ### array access -/

theorem getDyn_set_eq (dyn : Array Dyn) (i : Nat) (v : Dyn) (h : i < dyn.size) :
    getDyn (dyn.setIfInBounds i v) i = v := by
  unfold getDyn
  simp [Array.getD_eq_getD_getElem?, h]

theorem getDyn_set_ne (dyn : Array Dyn) (i j : Nat) (v : Dyn) (h : i ≠ j) :
    getDyn (dyn.setIfInBounds i v) j = getDyn dyn j := by
  unfold getDyn
  simp [Array.getD_eq_getD_getElem?, h]

theorem getDyn_reset (dyn : Array Dyn) (i : Nat) :
    (getDyn (dyn.map (fun d => { d with addr := none })) i).addr = none := by
  unfold getDyn
  simp only [Array.getD_eq_getD_getElem?, Array.getElem?_map]
  cases dyn[i]? <;> rfl

/-! ### one sweep of `allocate_lr` -/

/-- the step of the sweep -/
def passStep (dyn : Array Dyn) (size align : Nat) (s : Nat × Option Nat × Bool) (j : Nat) :
    Nat × Option Nat × Bool :=
  let d := getDyn dyn j
  match d.addr with
  | none => s
  | some a2 =>
    if d.endAddr ≤ s.1 then s
    else if a2 < s.1 + size ∧ s.1 < d.endAddr then (roundUp d.endAddr align, some j, false)
    else s

theorem lrPass_eq (dyn : Array Dyn) (size align : Nat) (nbrs : List Nat) (st : Nat × Option Nat × Bool) :
    lrPass dyn size align nbrs st = nbrs.foldl (passStep dyn size align) st := rfl

/-- neighbour `j` (if allocated) does not overlap `[a, a+size)` -/
def FitsAt (dyn : Array Dyn) (size a j : Nat) : Prop :=
  ∀ a2, (getDyn dyn j).addr = some a2 →
    (getDyn dyn j).endAddr ≤ a ∨ ¬(a2 < a + size ∧ a < (getDyn dyn j).endAddr)

theorem passStep_cases (dyn : Array Dyn) (size align : Nat) (s : Nat × Option Nat × Bool) (j : Nat) :
    (passStep dyn size align s j = s ∧ FitsAt dyn size s.1 j) ∨
    (∃ a2, (getDyn dyn j).addr = some a2 ∧ s.1 < (getDyn dyn j).endAddr ∧
      passStep dyn size align s j = (roundUp (getDyn dyn j).endAddr align, some j, false)) := by
  unfold passStep FitsAt
  cases hd : (getDyn dyn j).addr with
  | none => left; simp [hd]
  | some a2 =>
    by_cases h1 : (getDyn dyn j).endAddr ≤ s.1
    · left; simp [hd, h1]
    · by_cases h2 : a2 < s.1 + size ∧ s.1 < (getDyn dyn j).endAddr
      · right
        refine ⟨a2, rfl, by omega, ?_⟩
        simp only [hd, h1, h2, if_false, and_self, if_true]
      · left
        refine ⟨by simp only [hd, h1, h2, if_false], ?_⟩
        intro a2' ha2'
        injection ha2' with ha2'
        subst ha2'
        right; exact h2

/-- a sweep that ends with `fits = true` changed nothing and every neighbour fits -/
theorem pass_true (dyn : Array Dyn) (size align : Nat) (nbrs : List Nat) (s : Nat × Option Nat × Bool)
    (h : (nbrs.foldl (passStep dyn size align) s).2.2 = true) :
    nbrs.foldl (passStep dyn size align) s = s ∧ ∀ j ∈ nbrs, FitsAt dyn size s.1 j := by
  induction nbrs generalizing s with
  | nil => simp
  | cons j js ih =>
    rw [List.foldl_cons] at h ⊢
    obtain ⟨h1, h2⟩ := ih _ h
    rcases passStep_cases dyn size align s j with ⟨hs, hf⟩ | ⟨a2, _, _, hs⟩
    · rw [hs] at h1 h2 ⊢
      refine ⟨h1, ?_⟩
      intro k hk
      rcases List.mem_cons.1 hk with rfl | hk
      · exact hf
      · exact h2 k hk
    · rw [h1, hs] at h
      cases h

theorem pass_aligned (dyn : Array Dyn) (size align : Nat) (nbrs : List Nat) (s : Nat × Option Nat × Bool)
    (h : align ∣ s.1) : align ∣ (nbrs.foldl (passStep dyn size align) s).1 := by
  induction nbrs generalizing s with
  | nil => exact h
  | cons j js ih =>
    rw [List.foldl_cons]
    apply ih
    rcases passStep_cases dyn size align s j with ⟨hs, _⟩ | ⟨a2, _, _, hs⟩
    · rw [hs]; exact h
    · rw [hs]; exact dvd_roundUp _ _

/-- the address only grows during a sweep; a sweep that ends with `fits = false` ends at the
    rounded end of an allocated neighbour that lies above the address the sweep started from -/
theorem pass_false (dyn : Array Dyn) (size align : Nat) (hal : 0 < align) (nbrs : List Nat)
    (s : Nat × Option Nat × Bool) :
    s.1 ≤ (nbrs.foldl (passStep dyn size align) s).1 ∧
    ((nbrs.foldl (passStep dyn size align) s).2.2 = false →
      ((nbrs.foldl (passStep dyn size align) s).1 = s.1 ∧ s.2.2 = false) ∨
      ∃ j ∈ nbrs, ∃ a2, (getDyn dyn j).addr = some a2 ∧ s.1 < (getDyn dyn j).endAddr ∧
        (nbrs.foldl (passStep dyn size align) s).1 = roundUp (getDyn dyn j).endAddr align) := by
  induction nbrs generalizing s with
  | nil => simp
  | cons j js ih =>
    rw [List.foldl_cons]
    obtain ⟨h1, h2⟩ := ih (passStep dyn size align s j)
    rcases passStep_cases dyn size align s j with ⟨hs, _⟩ | ⟨a2, ha2, hlt, hs⟩
    · rw [hs] at h1 h2 ⊢
      refine ⟨h1, ?_⟩
      intro hf
      rcases h2 hf with h | ⟨k, hk, hrest⟩
      · exact Or.inl h
      · exact Or.inr ⟨k, List.mem_cons_of_mem _ hk, hrest⟩
    · have hle := le_roundUp (getDyn dyn j).endAddr align hal
      rw [hs] at h1 h2 ⊢
      simp only at h1 h2
      refine ⟨by omega, ?_⟩
      intro hf
      right
      rcases h2 hf with ⟨h, _⟩ | ⟨k, hk, a2', hk1, hk2, hk3⟩
      · exact ⟨j, by simp, a2, ha2, hlt, h⟩
      · exact ⟨k, List.mem_cons_of_mem _ hk, a2', hk1, by omega, hk3⟩

/-! ### `allocate_lr`: result and termination -/

theorem lrLoop_fits (dyn : Array Dyn) (size align : Nat) (nbrs : List Nat) :
    ∀ (fuel address : Nat) (pred : Option Nat) (a : Nat) (p : Option Nat),
      align ∣ address → lrLoop dyn size align nbrs fuel address pred = .ok (a, p) →
      (∀ j ∈ nbrs, FitsAt dyn size a j) ∧ align ∣ a := by
  intro fuel
  induction fuel with
  | zero =>
    intro address pred a p hdiv h
    unfold lrLoop at h
    rw [lrPass_eq] at h
    simp only at h
    split at h
    · rename_i hfit
      obtain ⟨h1, h2⟩ := pass_true dyn size align nbrs (address, pred, true) hfit
      rw [h1] at h
      injection h with h
      injection h with ha hp
      subst ha
      exact ⟨h2, hdiv⟩
    · split at h <;> cases h
  | succ f ih =>
    intro address pred a p hdiv h
    unfold lrLoop at h
    rw [lrPass_eq] at h
    simp only at h
    split at h
    · rename_i hfit
      obtain ⟨h1, h2⟩ := pass_true dyn size align nbrs (address, pred, true) hfit
      rw [h1] at h
      injection h with h
      injection h with ha hp
      subst ha
      exact ⟨h2, hdiv⟩
    · split at h
      · cases h
      · exact ih _ _ a p (pass_aligned dyn size align nbrs _ hdiv) h

/-- number of allocated neighbours whose rounded end lies above `a` -/
def lrMeasure (dyn : Array Dyn) (align : Nat) (nbrs : List Nat) (a : Nat) : Nat :=
  nbrs.countP (fun j => (getDyn dyn j).addr.isSome && decide (a < roundUp (getDyn dyn j).endAddr align))

theorem countP_lt_of {α : Type} (p q : α → Bool) (l : List α) (himp : ∀ x, q x = true → p x = true)
    (hex : ∃ x ∈ l, p x = true ∧ q x = false) : l.countP q < l.countP p := by
  induction l with
  | nil => obtain ⟨x, hx, _⟩ := hex; cases hx
  | cons y ys ih =>
    rw [List.countP_cons, List.countP_cons]
    have hle : ys.countP q ≤ ys.countP p := by
      apply List.countP_mono_left
      intro x _ hx; exact himp x hx
    obtain ⟨x, hx, hpx, hqx⟩ := hex
    rcases List.mem_cons.1 hx with rfl | hx
    · simp only [hpx, hqx, if_true]
      simp
      omega
    · have := ih ⟨x, hx, hpx, hqx⟩
      by_cases hq : q y = true
      · simp only [hq, himp y hq, if_true]; omega
      · have hq' : q y = false := by simpa using hq
        by_cases hp : p y = true
        · simp [hq', hp]; omega
        · have hp' : p y = false := by simpa using hp
          simp only [hq', hp']; simp; omega

theorem lrMeasure_decreases (dyn : Array Dyn) (size align : Nat) (hal : 0 < align) (nbrs : List Nat)
    (address : Nat) (pred : Option Nat)
    (hf : (nbrs.foldl (passStep dyn size align) (address, pred, true)).2.2 = false) :
    lrMeasure dyn align nbrs (nbrs.foldl (passStep dyn size align) (address, pred, true)).1 <
      lrMeasure dyn align nbrs address := by
  obtain ⟨hle, h2⟩ := pass_false dyn size align hal nbrs (address, pred, true)
  rcases h2 hf with ⟨_, h⟩ | ⟨j, hj, a2, ha2, hlt, heq⟩
  · cases h
  · unfold lrMeasure
    apply countP_lt_of
    · intro x hx
      simp only [Bool.and_eq_true, decide_eq_true_eq] at hx ⊢
      simp only at hle
      exact ⟨hx.1, by omega⟩
    · refine ⟨j, hj, ?_, ?_⟩
      · have := le_roundUp (getDyn dyn j).endAddr align hal
        simp only [Bool.and_eq_true, decide_eq_true_eq, ha2, Option.isSome_some, true_and]
        simp only at hlt
        omega
      · simp only [Bool.and_eq_false_iff, decide_eq_false_iff_not]
        right
        rw [heq]; omega

/-- **`allocate_lr` terminates**: `lrLoop` never runs out of fuel when the fuel covers the
    measure (number of allocated neighbours ending above the current address). -/
theorem lrLoop_no_fuel_error (dyn : Array Dyn) (size align : Nat) (nbrs : List Nat) :
    ∀ (fuel address : Nat) (pred : Option Nat), lrMeasure dyn align nbrs address ≤ fuel →
      lrLoop dyn size align nbrs fuel address pred ≠ .error .lrfuel := by
  intro fuel
  induction fuel with
  | zero =>
    intro address pred hm h
    unfold lrLoop at h
    rw [lrPass_eq] at h
    simp only at h
    split at h
    · cases h
    · rename_i hfit
      split at h
      · cases h
      · rename_i hal
        simp only [beq_iff_eq] at hal
        have := lrMeasure_decreases dyn size align (Nat.pos_of_ne_zero hal) nbrs address pred
          (by simpa using hfit)
        omega
  | succ f ih =>
    intro address pred hm h
    unfold lrLoop at h
    rw [lrPass_eq] at h
    simp only at h
    split at h
    · cases h
    · rename_i hfit
      split at h
      · cases h
      · rename_i hal
        simp only [beq_iff_eq] at hal
        have := lrMeasure_decreases dyn size align (Nat.pos_of_ne_zero hal) nbrs address pred
          (by simpa using hfit)
        exact ih _ _ (by omega) h

theorem lrMeasure_le_length (dyn : Array Dyn) (align : Nat) (nbrs : List Nat) (a : Nat) :
    lrMeasure dyn align nbrs a ≤ nbrs.length := List.countP_le_length

theorem hcAllocateLr_no_fuel_error (infos : Array Info) (dyn : Array Dyn) (id : Nat) :
    hcAllocateLr infos dyn id ≠ .error .lrfuel := by
  unfold hcAllocateLr
  apply lrLoop_no_fuel_error
  have := lrMeasure_le_length dyn (getInfo infos id).lr.align (getInfo infos id).nbrs 0
  omega

theorem hcAllocateLr_fits (infos : Array Info) (dyn : Array Dyn) (id a : Nat) (p : Option Nat)
    (h : hcAllocateLr infos dyn id = .ok (a, p)) :
    (∀ j ∈ (getInfo infos id).nbrs, FitsAt dyn (getInfo infos id).lr.size a j) ∧
    (getInfo infos id).lr.align ∣ a := by
  unfold hcAllocateLr at h
  exact lrLoop_fits dyn _ _ _ _ 0 none a p (Nat.dvd_zero _) h

/-! ### static information -/

/-- the `id` of a live range is its position in the list (how `LiveRangeInfo` objects are made) -/
def WellIds (lrs : List LR) : Prop := ∀ i (h : i < lrs.length), lrs[i].id = i

theorem mkInfos_size (lrs : List LR) : (mkInfos lrs).size = lrs.length := by
  simp [mkInfos]

theorem getInfo_mkInfos (lrs : List LR) (i : Nat) (h : i < lrs.length) :
    (getInfo (mkInfos lrs) i).lr = lrs[i] ∧
    (getInfo (mkInfos lrs) i).nbrs = neighboursOf lrs lrs[i] := by
  simp [getInfo, mkInfos, Array.getD_eq_getD_getElem?, h]

theorem timeOverlap_symm (a b : LR) : timeOverlap a b = timeOverlap b a := by
  unfold timeOverlap
  simp only [decide_eq_decide]
  omega

theorem mem_neighboursOf (lrs : List LR) (lr : LR) (j : Nat) :
    j ∈ neighboursOf lrs lr ↔
      ∃ lr2 ∈ lrs, lr2.id = j ∧ lr2.id ≠ lr.id ∧ timeOverlap lr lr2 = true := by
  unfold neighboursOf
  simp only [List.mem_map, mem_isort, List.mem_filter, Bool.and_eq_true, bne_iff_ne, ne_eq]
  constructor
  · rintro ⟨x, ⟨hx, h1, h2⟩, rfl⟩
    exact ⟨x, hx, rfl, h1, h2⟩
  · rintro ⟨x, hx, rfl, h1, h2⟩
    exact ⟨x, ⟨hx, h1, h2⟩, rfl⟩

theorem mem_nbrs_of_overlap (lrs : List LR) (hw : WellIds lrs) (i j : Nat) (hi : i < lrs.length)
    (hj : j < lrs.length) (hne : i ≠ j) (ho : timeOverlap lrs[i] lrs[j] = true) :
    j ∈ (getInfo (mkInfos lrs) i).nbrs := by
  rw [(getInfo_mkInfos lrs i hi).2, mem_neighboursOf]
  refine ⟨lrs[j], List.getElem_mem hj, hw j hj, ?_, ho⟩
  rw [hw j hj, hw i hi]
  omega

/-! ### `allocate_indices` -/

/-- what holds of the mutable state after any (complete or aborted) `allocate_indices` -/
structure HcInv (lrs : List LR) (dyn : Array Dyn) : Prop where
  size_eq : dyn.size = lrs.length
  disj : ∀ (i j : Nat) (hi : i < lrs.length) (hj : j < lrs.length) (ai aj : Nat), i ≠ j →
    (getDyn dyn i).addr = some ai → (getDyn dyn j).addr = some aj →
    timeOverlap lrs[i] lrs[j] = true → ai + lrs[i].size ≤ aj ∨ aj + lrs[j].size ≤ ai
  endOk : ∀ (i : Nat) (hi : i < lrs.length) (a : Nat), (getDyn dyn i).addr = some a →
    (getDyn dyn i).endAddr = a + lrs[i].size
  aligned : ∀ (i : Nat) (hi : i < lrs.length) (a : Nat), (getDyn dyn i).addr = some a →
    lrs[i].align ∣ a

theorem hcInv_reset (lrs : List LR) (dyn : Array Dyn) (h : dyn.size = lrs.length) :
    HcInv lrs (dyn.map (fun d => { d with addr := none })) := by
  constructor
  · rw [Array.size_map]; exact h
  · intro i j _ _ ai aj _ h1
    rw [getDyn_reset] at h1; cases h1
  · intro i _ a h1
    rw [getDyn_reset] at h1; cases h1
  · intro i _ a h1
    rw [getDyn_reset] at h1; cases h1

theorem hcInv_set (lrs : List LR) (hw : WellIds lrs) (dyn : Array Dyn) (inv : HcInv lrs dyn)
    (ix : Nat) (hix : ix < lrs.length) (a : Nat) (p : Option Nat) (turn : Nat)
    (hfit : ∀ j ∈ (getInfo (mkInfos lrs) ix).nbrs, FitsAt dyn lrs[ix].size a j)
    (hal : lrs[ix].align ∣ a) :
    HcInv lrs (dyn.setIfInBounds ix ⟨some a, a + lrs[ix].size, p, turn⟩) := by
  have hixd : ix < dyn.size := by rw [inv.size_eq]; exact hix
  constructor
  · rw [Array.size_setIfInBounds]; exact inv.size_eq
  · intro i j hi hj ai aj hne h1 h2 ho
    by_cases hi' : ix = i
    · subst hi'
      have hj' : ix ≠ j := hne
      rw [getDyn_set_eq _ _ _ hixd] at h1
      rw [getDyn_set_ne _ _ _ _ hj'] at h2
      simp only at h1
      injection h1 with h1
      subst h1
      have hmem := mem_nbrs_of_overlap lrs hw ix j hi hj hne ho
      have hf := hfit j hmem aj h2
      have he := inv.endOk j hj aj h2
      omega
    · by_cases hj' : ix = j
      · subst hj'
        rw [getDyn_set_eq _ _ _ hixd] at h2
        rw [getDyn_set_ne _ _ _ _ hi'] at h1
        simp only at h2
        injection h2 with h2
        subst h2
        rw [timeOverlap_symm] at ho
        have hmem := mem_nbrs_of_overlap lrs hw ix i hj hi (fun h => hne h.symm) ho
        have hf := hfit i hmem ai h1
        have he := inv.endOk i hi ai h1
        omega
      · rw [getDyn_set_ne _ _ _ _ hi'] at h1
        rw [getDyn_set_ne _ _ _ _ hj'] at h2
        exact inv.disj i j hi hj ai aj hne h1 h2 ho
  · intro i hi a' h1
    by_cases hi' : ix = i
    · subst hi'
      rw [getDyn_set_eq _ _ _ hixd] at h1 ⊢
      simp only at h1 ⊢
      injection h1 with h1
      omega
    · rw [getDyn_set_ne _ _ _ _ hi'] at h1 ⊢
      exact inv.endOk i hi a' h1
  · intro i hi a' h1
    by_cases hi' : ix = i
    · subst hi'
      rw [getDyn_set_eq _ _ _ hixd] at h1
      simp only at h1
      injection h1 with h1
      rw [← h1]; exact hal
    · rw [getDyn_set_ne _ _ _ _ hi'] at h1
      exact inv.aligned i hi a' h1

theorem hcAllocGo_inv (lrs : List LR) (hw : WellIds lrs) (best : Nat) :
    ∀ (ixs : List Nat) (turn : Nat) (dyn : Array Dyn) (size : Nat) (dyn' : Array Dyn) (s' : Nat),
      HcInv lrs dyn → hcAllocGo (mkInfos lrs) best ixs turn dyn size = .ok (dyn', s') →
      HcInv lrs dyn' := by
  intro ixs
  induction ixs with
  | nil =>
    intro turn dyn size dyn' s' inv h
    simp only [hcAllocGo] at h
    injection h with h
    injection h with h1 h2
    rw [← h1]; exact inv
  | cons ix rest ih =>
    intro turn dyn size dyn' s' inv h
    simp only [hcAllocGo] at h
    split at h
    · rename_i hlt
      rw [mkInfos_size] at hlt
      split at h
      · cases h
      · rename_i a p hlr
        obtain ⟨hfit, hal⟩ := hcAllocateLr_fits _ _ _ _ _ hlr
        obtain ⟨hlr_eq, _⟩ := getInfo_mkInfos lrs ix hlt
        rw [hlr_eq] at hfit hal h
        have inv1 := hcInv_set lrs hw dyn inv ix hlt a p turn hfit hal
        split at h
        · injection h with h
          injection h with h1 h2
          rw [← h1]; exact inv1
        · exact ih _ _ _ _ _ inv1 h
    · cases h

theorem hcAllocateIndices_inv (lrs : List LR) (hw : WellIds lrs) (dyn : Array Dyn)
    (hsz : dyn.size = lrs.length) (ixs : List Nat) (best : Nat) (dyn' : Array Dyn) (s' : Nat)
    (h : hcAllocateIndices (mkInfos lrs) dyn ixs best = .ok (dyn', s')) : HcInv lrs dyn' :=
  hcAllocGo_inv lrs hw best ixs 0 _ 0 dyn' s' (hcInv_reset lrs dyn hsz) h

/-! ### `search` -/


def SnapOK (lrs : List LR) (alloc : Array (Option Nat)) : Prop :=
  ∃ dyn, HcInv lrs dyn ∧ alloc = snapshot dyn

theorem hcSearch_snap (lrs : List LR) (hw : WellIds lrs) (minReq memLimit maxIter : Nat) :
    ∀ (fuel : Nat) (dyn : Array Dyn) (indices bestIndices : List Nat) (best last i : Nat)
      (alloc : Array (Option Nat)) (draws : List Nat) (r : SearchResult),
      dyn.size = lrs.length → SnapOK lrs alloc →
      hcSearch (mkInfos lrs) minReq memLimit maxIter fuel dyn indices bestIndices best last i alloc draws = .ok (some r) →
      SnapOK lrs r.alloc := by
  intro fuel
  induction fuel with
  | zero =>
    intro dyn indices bestIndices best last i alloc draws r hsz hsnap h
    unfold hcSearch at h
    split at h
    · cases h
    · injection h with h; injection h with h; subst h; exact hsnap
  | succ f ih =>
    intro dyn indices bestIndices best last i alloc draws r hsz hsnap h
    unfold hcSearch at h
    split at h
    · simp only at h
      split at h
      · cases h
      · rename_i indices' draws' hfix
        split at h
        · cases h
        · rename_i dyn' newSize hai
          have inv' := hcAllocateIndices_inv lrs hw dyn hsz indices' best dyn' newSize hai
          split at h
          · split at h
            · injection h with h
              injection h with h
              subst h
              exact ⟨dyn', inv', rfl⟩
            · exact ih _ _ _ _ _ _ _ _ _ inv'.size_eq ⟨dyn', inv', rfl⟩ h
          · exact ih _ _ _ _ _ _ _ _ _ inv'.size_eq hsnap h
    · injection h with h; injection h with h; subst h; exact hsnap


theorem hcSearch_terminates (infos : Array Info) (minReq memLimit maxIter : Nat) :
    ∀ (fuel : Nat) (dyn : Array Dyn) (indices bestIndices : List Nat) (best last i : Nat)
      (alloc : Array (Option Nat)) (draws : List Nat),
      hcMinIterationsImprove * best + (max maxIter (last + hcMinIterationsImprove) - i) ≤ fuel →
      hcSearch infos minReq memLimit maxIter fuel dyn indices bestIndices best last i alloc draws ≠ .ok none := by
  intro fuel
  induction fuel with
  | zero =>
    intro dyn indices bestIndices best last i alloc draws hpot h
    unfold hcSearch at h
    split at h
    · rename_i hc
      omega
    · cases h
  | succ f ih =>
    intro dyn indices bestIndices best last i alloc draws hpot h
    unfold hcSearch at h
    split at h
    · rename_i hc
      simp only at h
      split at h
      · cases h
      · split at h
        · cases h
        · rename_i dyn' newSize hai
          split at h
          · rename_i hle
            split at h
            · cases h
            · refine ih _ _ _ _ _ _ _ _ ?_ h
              simp only [hcMinIterationsImprove] at hpot hc ⊢
              split <;> omega
          · refine ih _ _ _ _ _ _ _ _ ?_ h
            simp only [hcMinIterationsImprove] at hpot hc ⊢
            omega
    · cases h

/-! ### the snapshot `allocated_addresses` -/


theorem mapM_id_some (xs : List (Option Nat)) (l : List Nat) (h : xs.mapM id = some l) :
    xs = l.map some := by
  induction xs generalizing l with
  | nil => simp at h; subst h; rfl
  | cons x xs ih =>
    rw [List.mapM_cons] at h
    cases x with
    | none => simp at h
    | some a =>
      cases hm : xs.mapM id with
      | none => simp [hm] at h
      | some l' =>
        simp [hm] at h
        subst h
        simp [ih l' hm]

theorem snap_addrs (lrs : List LR) (dyn : Array Dyn) (inv : HcInv lrs dyn) (addrs : List Nat)
    (h : (snapshot dyn).toList.mapM id = some addrs) :
    addrs.length = lrs.length ∧ ∀ (i : Nat) (hi : i < addrs.length), (getDyn dyn i).addr = some addrs[i] := by
  have h1 := mapM_id_some _ _ h
  have hlen : addrs.length = dyn.size := by
    have := congrArg List.length h1
    simp [snapshot] at this
    omega
  refine ⟨by rw [hlen, inv.size_eq], ?_⟩
  intro i hi
  have h2 : (snapshot dyn).toList[i]? = (addrs.map some)[i]? := by rw [h1]
  simp only [snapshot, Array.toList_map, List.getElem?_map] at h2
  have hid : i < dyn.size := by omega
  unfold getDyn
  rw [Array.getD_eq_getD_getElem?]
  simp [hid, hi] at h2 ⊢
  exact h2

/-! ### `allocate` -/

theorem hcAllocate_snap (lrs : List LR) (hw : WellIds lrs) (maxIter : Option Nat) (memLimit : Nat)
    (draws : List Nat) (res : HcResult) (h : hcAllocate lrs maxIter memLimit draws = .ok res) :
    ∃ dyn, HcInv lrs dyn ∧ (snapshot dyn).toList.mapM id = some res.addrs := by
  unfold hcAllocate at h
  simp only at h
  split at h
  · cases h
  · rename_i dyn1 best hai
    have hsz0 : ((lrs.map (fun _ => (⟨some 0, 0, some 0, 0⟩ : Dyn))).toArray).size = lrs.length := by simp
    have inv1 := hcAllocateIndices_inv lrs hw _ hsz0 _ _ dyn1 best hai
    have hfin : ∀ (r : SearchResult), SnapOK lrs r.alloc →
        (match r.alloc.toList.mapM id with
          | some addrs => (Except.ok ⟨addrs, r.iters, r.drawsLeft⟩ : Except Err HcResult)
          | none => .error .unalloc) = .ok res →
        ∃ dyn, HcInv lrs dyn ∧ (snapshot dyn).toList.mapM id = some res.addrs := by
      intro r ⟨dyn, inv, hal⟩ hr
      split at hr
      · rename_i addrs hm
        injection hr with hr
        refine ⟨dyn, inv, ?_⟩
        rw [← hal, hm, ← hr]
      · cases hr
    split at h
    · split at h
      · cases h
      · cases h
      · rename_i r hs
        exact hfin r (hcSearch_snap lrs hw _ _ _ _ _ _ _ _ _ _ _ _ r inv1.size_eq ⟨dyn1, inv1, rfl⟩ hs) h
    · exact hfin ⟨snapshot dyn1, 0, draws, best⟩ ⟨dyn1, inv1, rfl⟩ h

/-- placements of HillClimb: range `i` at `addrs[i]` -/
def hcPlaced (lrs : List LR) (addrs : List Nat) : List Spec.Alloc.Placed := (lrs.zip addrs).map toPlaced

theorem liveTogether_timeOverlap (a b : LR) (x y : Nat)
    (h : Spec.Alloc.LiveTogether (toPlaced (a, x)) (toPlaced (b, y))) : timeOverlap a b = true := by
  rw [← Spec.Alloc.liveTogetherB_iff] at h
  exact h

theorem hcInv_spec (lrs : List LR) (dyn : Array Dyn) (inv : HcInv lrs dyn) (addrs : List Nat)
    (h : (snapshot dyn).toList.mapM id = some addrs) :
    addrs.length = lrs.length ∧ Spec.Alloc.NoOverlap (hcPlaced lrs addrs) ∧
    Spec.Alloc.Aligned (hcPlaced lrs addrs) := by
  obtain ⟨hlen, hget⟩ := snap_addrs lrs dyn inv addrs h
  refine ⟨hlen, ?_, ?_⟩
  · unfold Spec.Alloc.NoOverlap hcPlaced
    rw [List.pairwise_map, List.pairwise_iff_getElem]
    intro i j hi hj hij
    rw [List.length_zip] at hi hj
    simp only [List.getElem_zip]
    intro hlive
    left
    have ho := liveTogether_timeOverlap _ _ _ _ hlive
    have := inv.disj i j (by omega) (by omega) addrs[i] addrs[j] (by omega)
      (hget i (by omega)) (hget j (by omega)) ho
    simp only [Spec.Alloc.Disjoint, toPlaced]
    exact this
  · intro p hp
    unfold hcPlaced at hp
    obtain ⟨q, hq, rfl⟩ := List.mem_map.1 hp
    obtain ⟨i, hi, rfl⟩ := List.getElem_of_mem hq
    rw [List.length_zip] at hi
    simp only [List.getElem_zip, toPlaced]
    exact inv.aligned i (by omega) addrs[i] (hget i (by omega))

theorem hcTotal_eq (lrs : List LR) (addrs : List Nat) :
    hcTotal lrs addrs = Spec.Alloc.highestEnd (hcPlaced lrs addrs) := by
  unfold hcTotal hcPlaced
  rw [Spec.Alloc.highestEnd_iff]
  have key : ∀ (l : List (LR × Nat)) (m : Nat),
      m ≤ l.foldl (fun m p => max m (p.2 + p.1.size)) m ∧
      (∀ p ∈ l, p.2 + p.1.size ≤ l.foldl (fun m p => max m (p.2 + p.1.size)) m) ∧
      (l.foldl (fun m p => max m (p.2 + p.1.size)) m = m ∨
        ∃ p ∈ l, p.2 + p.1.size = l.foldl (fun m p => max m (p.2 + p.1.size)) m) := by
    intro l
    induction l with
    | nil => intro m; simp
    | cons x xs ih =>
      intro m
      simp only [List.foldl_cons, List.mem_cons]
      obtain ⟨h1, h2, h3⟩ := ih (max m (x.2 + x.1.size))
      refine ⟨by omega, ?_, ?_⟩
      · rintro p (rfl | hp)
        · omega
        · exact h2 p hp
      · rcases h3 with h3 | ⟨p, hp, h3⟩
        · by_cases hc : x.2 + x.1.size ≤ m
          · left; rw [h3]; omega
          · right; exact ⟨x, Or.inl rfl, by rw [h3]; omega⟩
        · right; exact ⟨p, Or.inr hp, h3⟩
  obtain ⟨_, h2, h3⟩ := key (lrs.zip addrs) 0
  refine ⟨?_, ?_, ?_⟩
  · intro p hp
    obtain ⟨q, hq, rfl⟩ := List.mem_map.1 hp
    exact h2 q hq
  · intro hnil
    simp only [List.map_eq_nil_iff] at hnil
    rw [hnil]; rfl
  · intro hne
    rcases h3 with h3 | ⟨p, hp, h3⟩
    · simp only [ne_eq, List.map_eq_nil_iff] at hne
      obtain ⟨q, hq⟩ := List.exists_mem_of_ne_nil _ hne
      have := h2 q hq
      refine ⟨toPlaced q, List.mem_map_of_mem hq, ?_⟩
      simp only [toPlaced]
      omega
    · exact ⟨toPlaced p, List.mem_map_of_mem hp, h3⟩


theorem liveSum_hcPlaced (lrs : List LR) (addrs : List Nat) (hlen : addrs.length = lrs.length) (t : Nat) :
    Spec.Alloc.liveSum (hcPlaced lrs addrs) t = sizeAt lrs t := by
  induction lrs generalizing addrs with
  | nil => simp [hcPlaced, Spec.Alloc.liveSum, sizeAt]
  | cons lr lrs ih =>
    cases addrs with
    | nil => simp at hlen
    | cons a as =>
      have hl : as.length = lrs.length := by simpa using hlen
      have := ih as hl
      simp only [hcPlaced, Spec.Alloc.liveSum, sizeAt, List.zip_cons_cons, List.map_cons,
        List.filter_cons, toPlaced, liveAtB] at this ⊢
      split
      · simp only [List.map_cons, List.sum_cons]
        rw [this]
      · exact this

theorem minRequired_le (lrs : List LR) (T : Nat) (h : ∀ t, sizeAt lrs t ≤ T) : minRequired lrs ≤ T := by
  unfold minRequired
  have key : ∀ (l : List Nat) (m : Nat), m ≤ T →
      l.foldl (fun m t => max m (sizeAt lrs t)) m ≤ T := by
    intro l
    induction l with
    | nil => intro m hm; exact hm
    | cons t ts ih =>
      intro m hm
      rw [List.foldl_cons]
      apply ih
      have := h t
      omega
  exact key _ 0 (Nat.zero_le _)

theorem hcSearch_iters (infos : Array Info) (minReq memLimit maxIter : Nat) :
    ∀ (fuel : Nat) (dyn : Array Dyn) (indices bestIndices : List Nat) (best last i : Nat)
      (alloc : Array (Option Nat)) (draws : List Nat) (r : SearchResult),
      hcSearch infos minReq memLimit maxIter fuel dyn indices bestIndices best last i alloc draws =
        .ok (some r) → r.iters ≤ i + fuel := by
  intro fuel
  induction fuel with
  | zero =>
    intro dyn indices bestIndices best last i alloc draws r h
    unfold hcSearch at h
    split at h
    · cases h
    · injection h with h; injection h with h; subst h; simp
  | succ f ih =>
    intro dyn indices bestIndices best last i alloc draws r h
    unfold hcSearch at h
    split at h
    · simp only at h
      split at h
      · cases h
      · split at h
        · cases h
        · split at h
          · split at h
            · injection h with h; injection h with h; subst h; simp only; omega
            · have := ih _ _ _ _ _ _ _ _ _ h; omega
          · have := ih _ _ _ _ _ _ _ _ _ h; omega
    · injection h with h; injection h with h; subst h; simp

end VelaVerif.Alloc
