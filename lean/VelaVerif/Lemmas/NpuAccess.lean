import VelaVerif.Model.NpuAccess
/-!
# The address range Vela computes for a box covers every byte of every element of the box

`get_address_range(fm, strides, y0, x0, c0, y1, x1, c1)` is the hull `[address(y0,x0,c0),
address(y1,x1,c1) + element size)`.  For non-negative strides (and, for NHCWB16, a channel-brick
stride of at least one brick) every element of the box lies inside it, provided the two corners lie in
the same tile — which is how `get_address_ranges` and `get_address_ranges_for_area` call it.
So "no range overlap" implies "no byte conflict": Vela's conflict relation contains the exact one.
-/
namespace VelaVerif.Lemmas.NpuAccess
open VelaVerif.NpuAccess

def lin (b sh sx sc es : Int) (y x c : Int) : Int := b + y * sh + x * sx + (c / 16) * sc + (c % 16) * es

theorem g_mono (sc es c c' : Int) (hsc : 16 * es ≤ sc) (hes : 0 < es) (hc : c ≤ c') :
    (c / 16) * sc + (c % 16) * es ≤ (c' / 16) * sc + (c' % 16) * es := by
  have hq : c / 16 ≤ c' / 16 := Int.ediv_le_ediv (by omega) hc
  have hm1 : 0 ≤ c % 16 := Int.emod_nonneg _ (by omega)
  have hm2 : c % 16 < 16 := Int.emod_lt_of_pos _ (by omega)
  have hm3 : 0 ≤ c' % 16 := Int.emod_nonneg _ (by omega)
  have hsc0 : 0 ≤ sc := by omega
  by_cases heq : c / 16 = c' / 16
  · have : c % 16 ≤ c' % 16 := by omega
    have := Int.mul_le_mul_of_nonneg_right this (Int.le_of_lt hes)
    rw [heq]; omega
  · have hlt : c / 16 + 1 ≤ c' / 16 := by omega
    have h1 := Int.mul_le_mul_of_nonneg_right hlt hsc0
    have h2 : (c % 16) * es ≤ 15 * es := Int.mul_le_mul_of_nonneg_right (by omega) (Int.le_of_lt hes)
    have h3 : 0 ≤ (c' % 16) * es := Int.mul_nonneg hm3 (Int.le_of_lt hes)
    have h4 : (c / 16 + 1) * sc = (c / 16) * sc + sc := by rw [Int.add_mul, Int.one_mul]
    omega

theorem lin_mono (b sh sx sc es y x c y' x' c' : Int) (hsh : 0 ≤ sh) (hsx : 0 ≤ sx) (hsc : 16 * es ≤ sc) (hes : 0 < es)
    (hy : y ≤ y') (hx : x ≤ x') (hc : c ≤ c') : lin b sh sx sc es y x c ≤ lin b sh sx sc es y' x' c' := by
  unfold lin
  have h1 := Int.mul_le_mul_of_nonneg_right hy hsh
  have h2 := Int.mul_le_mul_of_nonneg_right hx hsx
  have h3 := g_mono sc es c c' hsc hes hc
  omega

/-- the tile `get_address` selects for (y, x) -/
def tileOf (fm : FMap) (y x : Int) : Nat :=
  if x ≥ fm.tiles.width0 then (if y ≥ fm.tiles.height1 then 3 else 1)
  else if y ≥ fm.tiles.height0 then 2 else 0

def tileBase (fm : FMap) (t : Nat) : Int :=
  if t = 0 then fm.tiles.a0 else if t = 1 then fm.tiles.a1 else if t = 2 then fm.tiles.a2 else fm.tiles.a3
def tileY (fm : FMap) (t : Nat) : Int := if t = 3 then fm.tiles.height1 else if t = 2 then fm.tiles.height0 else 0
def tileX (fm : FMap) (t : Nat) : Int := if t = 3 ∨ t = 1 then fm.tiles.width0 else 0
/-- the x stride `get_address` uses -/
def sX (fm : FMap) (s : Shape3) : Int := if fm.nhcwb16 then 16 * fm.elemBytes else s.width
/-- the stride between 16-channel bricks `get_address` uses -/
def sC (fm : FMap) (s : Shape3) : Int := if !fm.nhcwb16 then 16 * fm.elemBytes else s.depth

theorem getAddress_lin (fm : FMap) (s : Shape3) (y x c : Int) :
    getAddress fm s y x c =
      lin (tileBase fm (tileOf fm y x)) s.height (sX fm s) (sC fm s) fm.elemBytes
        (y - tileY fm (tileOf fm y x)) (x - tileX fm (tileOf fm y x)) c := by
  unfold getAddress tileOf lin tileBase tileY tileX sX sC
  by_cases hx : x ≥ fm.tiles.width0 <;> by_cases hy1 : y ≥ fm.tiles.height1 <;> by_cases hy0 : y ≥ fm.tiles.height0 <;>
    simp [hx, hy1, hy0]

/-- tiles are boxes: if both corners of a box lie in one tile, every point of the box does -/
theorem tileOf_box (fm : FMap) (y0 x0 y1 x1 y x : Int) (h : tileOf fm y0 x0 = tileOf fm y1 x1)
    (hy : y0 ≤ y ∧ y ≤ y1) (hx : x0 ≤ x ∧ x ≤ x1) : tileOf fm y x = tileOf fm y0 x0 := by
  unfold tileOf at *
  by_cases a0 : x0 ≥ fm.tiles.width0 <;> by_cases a1 : x1 ≥ fm.tiles.width0 <;> by_cases a : x ≥ fm.tiles.width0 <;>
    simp only [a0, a1, a, if_true, if_false] at h ⊢ <;> (try omega) <;>
    (split at h <;> split at h <;> split <;> first | rfl | omega | (exfalso; omega) | simp at h)

/-- **hull_covers**: every element of the box lies inside `get_address_range` of its corners. -/
theorem hull_covers (fm : FMap) (s : Shape3) (y0 x0 c0 y1 x1 c1 y x c : Int)
    (hsh : 0 ≤ s.height) (hsx : 0 ≤ sX fm s) (hsc : 16 * fm.elemBytes ≤ sC fm s) (hes : 0 < fm.elemBytes)
    (htile : tileOf fm y0 x0 = tileOf fm y1 x1)
    (hy : y0 ≤ y ∧ y ≤ y1) (hx : x0 ≤ x ∧ x ≤ x1) (hc : c0 ≤ c ∧ c ≤ c1) :
    (getAddressRange fm s y0 x0 c0 y1 x1 c1).address ≤ getAddress fm s y x c ∧
    getAddress fm s y x c + fm.elemBytes ≤
      (getAddressRange fm s y0 x0 c0 y1 x1 c1).address + (getAddressRange fm s y0 x0 c0 y1 x1 c1).length := by
  have t0 := tileOf_box fm y0 x0 y1 x1 y x htile hy hx
  have e0 : tileOf fm y0 x0 = tileOf fm y x := t0.symm
  have e1 : tileOf fm y1 x1 = tileOf fm y x := by rw [← htile, e0]
  simp only [getAddressRange]
  rw [getAddress_lin fm s y0 x0 c0, getAddress_lin fm s y1 x1 c1, getAddress_lin fm s y x c, e0, e1]
  have lo := lin_mono (tileBase fm (tileOf fm y x)) s.height (sX fm s) (sC fm s) fm.elemBytes
    (y0 - tileY fm (tileOf fm y x)) (x0 - tileX fm (tileOf fm y x)) c0
    (y - tileY fm (tileOf fm y x)) (x - tileX fm (tileOf fm y x)) c hsh hsx hsc hes (by omega) (by omega) hc.1
  have hi := lin_mono (tileBase fm (tileOf fm y x)) s.height (sX fm s) (sC fm s) fm.elemBytes
    (y - tileY fm (tileOf fm y x)) (x - tileX fm (tileOf fm y x)) c
    (y1 - tileY fm (tileOf fm y x)) (x1 - tileX fm (tileOf fm y x)) c1 hsh hsx hsc hes (by omega) (by omega) hc.2
  constructor <;> omega

end VelaVerif.Lemmas.NpuAccess
