import VelaVerif.Model.LiveRangeAlign
namespace VelaVerif.LiveRangeAlign

theorem foldl_ge_acc (l : List Nat) (a : Nat) : a ≤ l.foldl setAlignment a := by
  induction l generalizing a with
  | nil => exact Nat.le_refl a
  | cons x xs ih =>
    simp only [List.foldl_cons]
    exact Nat.le_trans (Nat.le_max_left a x) (ih (setAlignment a x))

theorem foldl_ge_mem (l : List Nat) (a r : Nat) (h : r ∈ l) : r ≤ l.foldl setAlignment a := by
  induction l generalizing a with
  | nil => cases h
  | cons x xs ih =>
    simp only [List.foldl_cons]
    rcases List.mem_cons.mp h with rfl | hm
    · exact Nat.le_trans (Nat.le_max_right a r) (foldl_ge_acc xs (setAlignment a r))
    · exact ih (setAlignment a x) hm

/-- the fold returns one of its inputs -/
theorem foldl_mem (l : List Nat) (a : Nat) : l.foldl setAlignment a = a ∨ l.foldl setAlignment a ∈ l := by
  induction l generalizing a with
  | nil => exact Or.inl rfl
  | cons x xs ih =>
    simp only [List.foldl_cons]
    rcases ih (setAlignment a x) with h | h
    · rw [h]
      unfold setAlignment
      rcases Nat.le_total a x with hax | hxa
      · rw [Nat.max_eq_right hax]; exact Or.inr (List.mem_cons_self ..)
      · rw [Nat.max_eq_left hxa]; exact Or.inl rfl
    · exact Or.inr (List.mem_cons_of_mem _ h)

end VelaVerif.LiveRangeAlign
