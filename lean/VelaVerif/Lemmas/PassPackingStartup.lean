import VelaVerif.Lemmas.PassPackingCover
/-!
# The start-up pass of `pack_into_passes`
-/
namespace VelaVerif.Lemmas.PassPackingDfs
open VelaVerif.PassPacking VelaVerif.Gen.PassPacking VelaVerif.PassPackingSpec VelaVerif.Lemmas.PassPackingWalk

variable {G : Graph}

/-! ## the start-up pass -/

/-- every start operator is in the pass or still waiting -/
def StartInv (R : Rules) (G : Graph) (start : List Nat) (w : Walk) : Prop :=
  w.err = none → ∀ o ∈ start, o ∈ w.ops ∨ (⟨o, none, none⟩ : QItem) ∈ w.queue

theorem walkStep_startInv (R : Rules) (start : List Nat) (w : Walk) (h : StartInv R G start w) : StartInv R G start (walkStep R G w) := by
  have herr := walkStep_err R G w
  revert herr
  unfold walkStep StartInv at *
  split
  · intro _; exact h
  · rename_i q rest hqr
    simp only []
    split
    · rename_i hcont
      intro _ he o ho
      rcases h he o ho with h1 | h1
      · exact Or.inl h1
      · rw [hqr] at h1
        rcases List.mem_cons.mp h1 with h1 | h1
        · left; rw [← h1] at hcont; exact List.contains_iff_mem.mp hcont
        · exact Or.inr h1
    · split
      · rename_i ri r hfr
        intro herr he o ho
        have hwerr : w.err = none := herr he
        obtain ⟨w1, heq, hacc1, _, hq1, _⟩ := acceptOp_ok R G { w with queue := rest } q ri r he
        rw [heq] at he ⊢
        obtain ⟨d1, _, _, _⟩ := scanInputs_detail R G q.op (G.op q.op).inputs.reverse w1 he
        have hsf := scanInputs_frame R G q.op (G.op q.op).inputs.reverse w1
        have hops' : (scanInputs R G q.op (G.op q.op).inputs.reverse w1).ops = q.op :: w.ops := by
          simp [Walk.ops, hsf.1, hacc1, newAcc]
        rw [hops']
        rcases h hwerr o ho with h1 | h1
        · exact Or.inl (List.mem_cons_of_mem _ h1)
        · rw [hqr] at h1
          rcases List.mem_cons.mp h1 with h1 | h1
          · left; rw [← h1]; exact List.mem_cons_self
          · exact Or.inr (d1 _ (by rw [hq1]; exact h1))
      · split
        · intro _ he; simp at he
        · rename_i t0 ht0
          intro _ he o ho
          rcases h he o ho with h1 | h1
          · exact Or.inl h1
          · rw [hqr] at h1
            rcases List.mem_cons.mp h1 with h1 | h1
            · rw [← h1] at ht0; simp at ht0
            · exact Or.inr h1

theorem walkRun_startInv (R : Rules) (start : List Nat) (n : Nat) (w : Walk) (h : StartInv R G start w) :
    StartInv R G start (walkRun R G n w) := by
  induction n generalizing w with
  | zero =>
    simp only [walkRun]; split
    · exact h
    · intro he; simp at he
  | succ n ih =>
    simp only [walkRun]; split
    · exact h
    · exact ih _ (walkStep_startInv R start w h)

theorem walkStart_startInv (R : Rules) (start : List Nat) : StartInv R G start (walkStart start) := by
  intro _ o ho
  right
  simp only [walkStart, List.mem_map]
  exact ⟨o, ho, rfl⟩

/-- when the start operators have no inputs, nothing else gets into the pass -/
theorem accOk_all_start (R : Rules) (start : List Nat) (hno : ∀ c ∈ start, (G.op c).inputs = []) :
    ∀ (l : List Acc), AccOk R G start l → ∀ a ∈ l, a.op ∈ start
  | [], _, a, ha => by simp at ha
  | x :: rest, hacc, a, ha => by
    have ih := accOk_all_start R start hno rest hacc.1
    rcases List.mem_cons.mp ha with rfl | ha
    · have := hacc.2.2
      cases hv : a.via with
      | none => rw [hv] at this; exact this
      | some tc =>
        obtain ⟨t, c⟩ := tc
        rw [hv] at this
        obtain ⟨hc, _, _, hin⟩ := this
        obtain ⟨b, hb, hbc⟩ := List.mem_map.mp hc
        have := hno c (hbc ▸ ih b hb)
        rw [this] at hin; simp at hin
    · exact ih a ha

theorem addInputs_nil (S : List Nat) (a : InAcc) : addInputs G S a [] = a := rfl
theorem addInputs_none (S : List Nat) (a : InAcc) : addInputs G S a [none] = a := rfl

theorem finInAcc_no_inputs (w : Walk) (hno : ∀ o ∈ w.ops, (G.op o).inputs = []) (hprim : ∀ m, w.primary = some m → m ∈ w.ops)
    (hne : w.ops ≠ []) : (finInAcc G w).refs = [] := by
  unfold finInAcc
  have hfirst : firstOp w ∈ w.ops := by
    cases hl : w.ops with
    | nil => exact absurd hl hne
    | cons x r => simp [firstOp, hl]
  have hci : createdInp G w = none := by
    unfold createdInp
    split
    · rw [hno _ hfirst]; rfl
    · rfl
  have h0 : addInputs G (finInputSet G w) {} (primaryInputs G w) = {} := by
    unfold primaryInputs
    cases hfp : finPrimary G w with
    | real m =>
      have hm : w.primary = some m := by
        unfold finPrimary at hfp
        split at hfp
        · rename_i o ho; simp at hfp; rw [ho, hfp]
        · split at hfp <;> simp at hfp
      simp only []
      rw [hno m (hprim m hm)]; rfl
    | created => simp only []; rw [hci]; rfl
    | none => rfl
  rw [h0]
  have hfold : ∀ (l : List Nat), (∀ o ∈ l, o ∈ w.ops) → ∀ a : InAcc, a.refs = [] →
      (l.foldl (fun a o => addInputs G (finInputSet G w) a (inputsOf G w o)) a).refs = [] := by
    intro l
    induction l with
    | nil => intro _ a ha; exact ha
    | cons x rest ih =>
      intro hl a ha
      simp only [List.foldl_cons]
      apply ih (fun o ho => hl o (List.mem_cons_of_mem _ ho))
      have : inputsOf G w x = [] := by
        unfold inputsOf
        rw [hno x (hl x List.mem_cons_self)]
        split <;> rfl
      rw [this]; exact ha
  apply hfold _ _ {} rfl
  intro o ho
  unfold restOps at ho
  split at ho
  · exact List.mem_of_mem_erase ho
  · exact ho

/-- **the start-up pass**: it holds exactly the start-up operators and asks for no visits -/
theorem buildStartupPass_facts {startup : List Nat} {sp : Pass} (h : buildStartupPass Rules.current G startup = .ok sp)
    (hno : ∀ c ∈ startup, (G.op c).inputs = []) :
    sp.ops.Nodup ∧ (∀ x, x ∈ sp.ops ↔ x ∈ startup) ∧ sp.inputRefs = [] := by
  unfold buildStartupPass at h
  split at h
  · simp at h
  · rename_i p hfin
    split at h
    · simp at h
    · simp only [Except.ok.injEq] at h
      obtain ⟨herrNone, hp⟩ := finishPass_ok G hfin
      obtain ⟨herr, _, hne, _⟩ := finishErr_none G herrNone
      have inv := walkRun_inv Rules.current G startup (walkFuel G startup.length) _ (walkStart_inv Rules.current G startup)
      have inv2 := walkRun_inv2 Rules.current G (walkFuel G startup.length) _ (walkStart_inv2 Rules.current G startup)
      have invS := walkRun_startInv Rules.current startup (walkFuel G startup.length) _ (walkStart_startInv (G := G) Rules.current startup)
      have hq := walkRun_queue Rules.current G (walkFuel G startup.length) (walkStart startup)
      generalize walkRun Rules.current G (walkFuel G startup.length) (walkStart startup) = w at *
      subst hp
      subst h
      have hsub := accOk_all_start Rules.current startup hno w.acc inv.acc
      have hopsmem : ∀ x, x ∈ w.ops ↔ x ∈ startup := by
        intro x
        constructor
        · intro hx
          obtain ⟨a, ha, rfl⟩ := List.mem_map.mp hx
          exact hsub a ha
        · intro hx
          rcases invS herr x hx with h1 | h1
          · exact h1
          · rw [hq] at h1; simp at h1
      refine ⟨accOk_nodup G Rules.current startup w.acc inv.acc, hopsmem, ?_⟩
      exact finInAcc_no_inputs w (fun o ho => hno o ((hopsmem o).mp ho)) (fun m hm => (inv2.primSome m hm).1) hne

end VelaVerif.Lemmas.PassPackingDfs
