import VelaVerif.Model.Caches
/-!
Helper lemmas for C14: a simulation between a run from a state left by a history and a run from the
initial state, and the invariant every history maintains.
-/
namespace VelaVerif.Caches

/-! ### look-ups -/

theorem lookup_cons {κ ν : Type} [DecidableEq κ] (k k' : κ) (v : ν) (t : List (κ × ν)) :
    lookup k ((k', v) :: t) = if k = k' then some v else lookup k t := rfl

theorem lookup_none_of_forall {κ ν : Type} [DecidableEq κ] (k : κ) (l : List (κ × ν))
    (h : ∀ e ∈ l, e.1 ≠ k) : lookup k l = none := by
  induction l with
  | nil => rfl
  | cons e t ih =>
    obtain ⟨k', v⟩ := e
    have hne : k ≠ k' := fun hk => h (k', v) (by simp) hk.symm
    rw [lookup_cons, if_neg hne]
    exact ih (fun e he => h e (List.mem_cons_of_mem _ he))

theorem mem_of_lookup_some {κ ν : Type} [DecidableEq κ] (k : κ) (v : ν) (l : List (κ × ν))
    (h : lookup k l = some v) : (k, v) ∈ l := by
  induction l with
  | nil => simp [lookup] at h
  | cons e t ih =>
    obtain ⟨k', v'⟩ := e
    rw [lookup_cons] at h
    by_cases hk : k = k'
    · rw [if_pos hk] at h
      cases h
      subst hk
      simp
    · rw [if_neg hk] at h
      exact List.mem_cons_of_mem _ (ih h)

theorem tkey_local {k : PKey} (g : Nat) (h : isLocal k = true) : tkey g k = ⟨some g, k⟩ := by
  simp [tkey, h]

theorem tkey_global {k : PKey} (g : Nat) (h : isLocal k = false) : tkey g k = ⟨none, k⟩ := by
  simp [tkey, h]

/-! ### the simulation -/

/-- `st` (any generation) and `st0` answer every look-up a compilation can make in the same way:
local keys literally, global memo keys up to "absent or the value `F` prescribes". -/
structure Sim (F : Store → PKey → Val) (strict : Bool) (st st0 : State) : Prop where
  memoLocal : ∀ s k, isLocal k = true →
    lookup (s, (⟨some st.gen, k⟩ : TKey)) st.memo = lookup (s, (⟨some st0.gen, k⟩ : TKey)) st0.memo
  memoGlobal : ∀ s k v, s.persists = true → isLocal k = false →
    (lookup (s, (⟨none, k⟩ : TKey)) st.memo = some v ∨ lookup (s, (⟨none, k⟩ : TKey)) st0.memo = some v) → v = F s k
  memoVolatile : ∀ s k, s.persists = false → isLocal k = false →
    lookup (s, (⟨none, k⟩ : TKey)) st.memo = lookup (s, (⟨none, k⟩ : TKey)) st0.memo
  addrLocal : ∀ k, isLocal k = true →
    lookup (⟨some st.gen, k⟩ : TKey) st.addr = lookup (⟨some st0.gen, k⟩ : TKey) st0.addr
  addrGlobal : ∀ k, isLocal k = false →
    lookup (⟨none, k⟩ : TKey) st.addr = lookup (⟨none, k⟩ : TKey) st0.addr
  db : strict = false → st.db = st0.db

variable {F : Store → PKey → Val} {strict : Bool}

theorem Sim.of_eq {st st0 st' st0' : State} (h : Sim F strict st st0)
    (h1 : st'.gen = st.gen) (h2 : st'.memo = st.memo) (h3 : st'.addr = st.addr) (h4 : st'.db = st.db)
    (g1 : st0'.gen = st0.gen) (g2 : st0'.memo = st0.memo) (g3 : st0'.addr = st0.addr) (g4 : st0'.db = st0.db) :
    Sim F strict st' st0' := by
  constructor
  · intro s k hk; rw [h1, h2, g1, g2]; exact h.memoLocal s k hk
  · intro s k v hp hk; rw [h2, g2]; exact h.memoGlobal s k v hp hk
  · intro s k hp hk; rw [h2, g2]; exact h.memoVolatile s k hp hk
  · intro k hk; rw [h1, h3, g1, g3]; exact h.addrLocal k hk
  · intro k hk; rw [h3, g3]; exact h.addrGlobal k hk
  · intro hs; rw [h4, g4]; exact h.db hs

theorem Sim.note {st st0 : State} (h : Sim F strict st st0) (k k' : PKey) :
    Sim F strict (noteMemo st k) (noteMemo st0 k') :=
  h.of_eq rfl rfl rfl rfl rfl rfl rfl rfl

theorem lookup_insMemo_local_of_global (st : State) (s s' : Store) (k k' : PKey) (v : Val) (g : Nat) :
    lookup (s', (⟨none, k'⟩ : TKey)) (insMemo st s ⟨some g, k⟩ v).memo = lookup (s', (⟨none, k'⟩ : TKey)) st.memo := by
  show lookup _ (_ :: st.memo) = _
  rw [lookup_cons, if_neg]
  intro he; injection he with _ e2; injection e2 with e3 _; cases e3

theorem lookup_insMemo_global_of_local (st : State) (s s' : Store) (k k' : PKey) (v : Val) (g : Nat) :
    lookup (s', (⟨some g, k'⟩ : TKey)) (insMemo st s ⟨none, k⟩ v).memo = lookup (s', (⟨some g, k'⟩ : TKey)) st.memo := by
  show lookup _ (_ :: st.memo) = _
  rw [lookup_cons, if_neg]
  intro he; injection he with _ e2; injection e2 with e3 _; cases e3

theorem lookup_insMemo_other_store (st : State) (s s' : Store) (tk tk' : TKey) (v : Val) (hne : s' ≠ s) :
    lookup (s', tk') (insMemo st s tk v).memo = lookup (s', tk') st.memo := by
  show lookup _ (_ :: st.memo) = _
  rw [lookup_cons, if_neg]
  intro he; injection he with e1 _; exact hne e1

theorem Sim.insMemoLocal {st st0 : State} (h : Sim F strict st st0) (s : Store) (k : PKey) (v : Val) :
    Sim F strict (insMemo st s ⟨some st.gen, k⟩ v) (insMemo st0 s ⟨some st0.gen, k⟩ v) := by
  constructor
  · intro s' k' hk'
    show lookup _ (_ :: st.memo) = lookup _ (_ :: st0.memo)
    rw [lookup_cons, lookup_cons]
    by_cases hc : s' = s ∧ k' = k
    · obtain ⟨rfl, rfl⟩ := hc
      simp [insMemo]
    · have n1 : ¬ ((s', (⟨some (insMemo st s ⟨some st.gen, k⟩ v).gen, k'⟩ : TKey)) = (s, (⟨some st.gen, k⟩ : TKey))) := by
        intro he; injection he with e1 e2; injection e2 with _ e3; exact hc ⟨e1, e3⟩
      have n2 : ¬ ((s', (⟨some (insMemo st0 s ⟨some st0.gen, k⟩ v).gen, k'⟩ : TKey)) = (s, (⟨some st0.gen, k⟩ : TKey))) := by
        intro he; injection he with e1 e2; injection e2 with _ e3; exact hc ⟨e1, e3⟩
      rw [if_neg n1, if_neg n2]
      exact h.memoLocal s' k' hk'
  · intro s' k' v' hp hk' hv
    rw [lookup_insMemo_local_of_global, lookup_insMemo_local_of_global] at hv
    exact h.memoGlobal s' k' v' hp hk' hv
  · intro s' k' hp hk'
    rw [lookup_insMemo_local_of_global, lookup_insMemo_local_of_global]
    exact h.memoVolatile s' k' hp hk'
  · intro k' hk'; exact h.addrLocal k' hk'
  · intro k' hk'; exact h.addrGlobal k' hk'
  · intro hs; exact h.db hs

theorem Sim.insMemoGlobalLeft {st st0 : State} (h : Sim F strict st st0) (s : Store) (k : PKey) (v : Val)
    (hps : s.persists = true) (hv : v = F s k) : Sim F strict (insMemo st s ⟨none, k⟩ v) st0 := by
  constructor
  · intro s' k' hk'
    show lookup (s', (⟨some st.gen, k'⟩ : TKey)) (insMemo st s ⟨none, k⟩ v).memo = _
    rw [lookup_insMemo_global_of_local]; exact h.memoLocal s' k' hk'
  · intro s' k' v' hp hk' hv'
    rcases hv' with hv' | hv'
    · have : lookup (s', (⟨none, k'⟩ : TKey)) (insMemo st s ⟨none, k⟩ v).memo =
          if (s', (⟨none, k'⟩ : TKey)) = (s, (⟨none, k⟩ : TKey)) then some v else lookup (s', (⟨none, k'⟩ : TKey)) st.memo := rfl
      rw [this] at hv'
      by_cases hc : (s', (⟨none, k'⟩ : TKey)) = (s, (⟨none, k⟩ : TKey))
      · rw [if_pos hc] at hv'
        injection hc with e1 e2; injection e2 with _ e3
        cases hv'; subst e1; subst e3; exact hv
      · rw [if_neg hc] at hv'
        exact h.memoGlobal s' k' v' hp hk' (Or.inl hv')
    · exact h.memoGlobal s' k' v' hp hk' (Or.inr hv')
  · intro s' k' hp hk'
    have hne : s' ≠ s := by intro e; rw [e, hps] at hp; cases hp
    rw [lookup_insMemo_other_store _ _ _ _ _ _ hne]
    exact h.memoVolatile s' k' hp hk'
  · intro k' hk'; exact h.addrLocal k' hk'
  · intro k' hk'; exact h.addrGlobal k' hk'
  · intro hs; exact h.db hs

theorem Sim.insMemoGlobalRight {st st0 : State} (h : Sim F strict st st0) (s : Store) (k : PKey) (v : Val)
    (hps : s.persists = true) (hv : v = F s k) : Sim F strict st (insMemo st0 s ⟨none, k⟩ v) := by
  constructor
  · intro s' k' hk'
    show _ = lookup (s', (⟨some st0.gen, k'⟩ : TKey)) (insMemo st0 s ⟨none, k⟩ v).memo
    rw [lookup_insMemo_global_of_local]; exact h.memoLocal s' k' hk'
  · intro s' k' v' hp hk' hv'
    rcases hv' with hv' | hv'
    · exact h.memoGlobal s' k' v' hp hk' (Or.inl hv')
    · have : lookup (s', (⟨none, k'⟩ : TKey)) (insMemo st0 s ⟨none, k⟩ v).memo =
          if (s', (⟨none, k'⟩ : TKey)) = (s, (⟨none, k⟩ : TKey)) then some v else lookup (s', (⟨none, k'⟩ : TKey)) st0.memo := rfl
      rw [this] at hv'
      by_cases hc : (s', (⟨none, k'⟩ : TKey)) = (s, (⟨none, k⟩ : TKey))
      · rw [if_pos hc] at hv'
        injection hc with e1 e2; injection e2 with _ e3
        cases hv'; subst e1; subst e3; exact hv
      · rw [if_neg hc] at hv'
        exact h.memoGlobal s' k' v' hp hk' (Or.inr hv')
  · intro s' k' hp hk'
    have hne : s' ≠ s := by intro e; rw [e, hps] at hp; cases hp
    rw [lookup_insMemo_other_store _ _ _ _ _ _ hne]
    exact h.memoVolatile s' k' hp hk'
  · intro k' hk'; exact h.addrLocal k' hk'
  · intro k' hk'; exact h.addrGlobal k' hk'
  · intro hs; exact h.db hs

/-- a store that is emptied before every compilation: both runs insert the same entry -/
theorem Sim.insMemoVolatile {st st0 : State} (h : Sim F strict st st0) (s : Store) (k : PKey) (v : Val)
    (hps : s.persists = false) : Sim F strict (insMemo st s ⟨none, k⟩ v) (insMemo st0 s ⟨none, k⟩ v) := by
  constructor
  · intro s' k' hk'
    show lookup (s', (⟨some st.gen, k'⟩ : TKey)) (insMemo st s ⟨none, k⟩ v).memo =
      lookup (s', (⟨some st0.gen, k'⟩ : TKey)) (insMemo st0 s ⟨none, k⟩ v).memo
    rw [lookup_insMemo_global_of_local, lookup_insMemo_global_of_local]; exact h.memoLocal s' k' hk'
  · intro s' k' v' hp hk' hv'
    have hne : s' ≠ s := by intro e; rw [e, hps] at hp; cases hp
    rw [lookup_insMemo_other_store _ _ _ _ _ _ hne, lookup_insMemo_other_store _ _ _ _ _ _ hne] at hv'
    exact h.memoGlobal s' k' v' hp hk' hv'
  · intro s' k' hp hk'
    show lookup _ (_ :: st.memo) = lookup _ (_ :: st0.memo)
    rw [lookup_cons, lookup_cons]
    by_cases hc : (s', (⟨none, k'⟩ : TKey)) = (s, (⟨none, k⟩ : TKey))
    · rw [if_pos hc, if_pos hc]
    · rw [if_neg hc, if_neg hc]; exact h.memoVolatile s' k' hp hk'
  · intro k' hk'; exact h.addrLocal k' hk'
  · intro k' hk'; exact h.addrGlobal k' hk'
  · intro hs; exact h.db hs

theorem Sim.insAddrLocal {st st0 : State} (h : Sim F strict st st0) (k : PKey) (a : Nat) :
    Sim F strict (insAddr st ⟨some st.gen, k⟩ a) (insAddr st0 ⟨some st0.gen, k⟩ a) := by
  constructor
  · intro s' k' hk'; exact h.memoLocal s' k' hk'
  · intro s' k' v' hp hk' hv; exact h.memoGlobal s' k' v' hp hk' hv
  · intro s' k' hp hk'; exact h.memoVolatile s' k' hp hk'
  · intro k' hk'
    show lookup _ (_ :: st.addr) = lookup _ (_ :: st0.addr)
    rw [lookup_cons, lookup_cons]
    by_cases hc : k' = k
    · subst hc; simp [insAddr]
    · have n1 : ¬ ((⟨some (insAddr st ⟨some st.gen, k⟩ a).gen, k'⟩ : TKey) = (⟨some st.gen, k⟩ : TKey)) := by
        intro he; injection he with _ e3; exact hc e3
      have n2 : ¬ ((⟨some (insAddr st0 ⟨some st0.gen, k⟩ a).gen, k'⟩ : TKey) = (⟨some st0.gen, k⟩ : TKey)) := by
        intro he; injection he with _ e3; exact hc e3
      rw [if_neg n1, if_neg n2]
      exact h.addrLocal k' hk'
  · intro k' hk'
    show lookup _ (_ :: st.addr) = lookup _ (_ :: st0.addr)
    rw [lookup_cons, lookup_cons, if_neg, if_neg]
    · exact h.addrGlobal k' hk'
    · intro he; injection he with e3 _; cases e3
    · intro he; injection he with e3 _; cases e3
  · intro hs; exact h.db hs

theorem Sim.insAddrGlobal {st st0 : State} (h : Sim F strict st st0) (k : PKey) (a : Nat) :
    Sim F strict (insAddr st ⟨none, k⟩ a) (insAddr st0 ⟨none, k⟩ a) := by
  constructor
  · intro s' k' hk'; exact h.memoLocal s' k' hk'
  · intro s' k' v' hp hk' hv; exact h.memoGlobal s' k' v' hp hk' hv
  · intro s' k' hp hk'; exact h.memoVolatile s' k' hp hk'
  · intro k' hk'
    show lookup _ (_ :: st.addr) = lookup _ (_ :: st0.addr)
    rw [lookup_cons, lookup_cons, if_neg, if_neg]
    · exact h.addrLocal k' hk'
    · intro he; injection he with e3 _; cases e3
    · intro he; injection he with e3 _; cases e3
  · intro k' hk'
    show lookup _ (_ :: st.addr) = lookup _ (_ :: st0.addr)
    rw [lookup_cons, lookup_cons]
    by_cases hc : k' = k
    · subst hc; simp
    · have n1 : ¬ ((⟨none, k'⟩ : TKey) = (⟨none, k⟩ : TKey)) := by
        intro he; injection he with _ e3; exact hc e3
      rw [if_neg n1, if_neg n1]
      exact h.addrGlobal k' hk'
  · intro hs'; exact h.db hs'

theorem Sim.log {st st0 : State} (h : Sim F strict st st0) (row : Nat) :
    Sim F strict (logRow st row) (logRow st0 row) := by
  constructor
  · intro s' k' hk'; exact h.memoLocal s' k' hk'
  · intro s' k' v' hp hk' hv; exact h.memoGlobal s' k' v' hp hk' hv
  · intro s' k' hp hk'; exact h.memoVolatile s' k' hp hk'
  · intro k' hk'; exact h.addrLocal k' hk'
  · intro k' hk'; exact h.addrGlobal k' hk'
  · intro hs; show st.db ++ [row] = st0.db ++ [row]; rw [h.db hs]

/-- on a global key whose stored value (if any) is the prescribed one, a memo node continues with `F s k` -/
theorem run_memo_global {α : Type} (st : State) (s : Store) (k : PKey) (v : Val) (cont : Val → Prog α)
    (hk : isLocal k = false) (hv : v = F s k)
    (hc : ∀ v', lookup (s, (⟨none, k⟩ : TKey)) st.memo = some v' → v' = F s k) :
    run (.memo s k v cont) st = run (cont (F s k)) (noteMemo st k) ∨
    run (.memo s k v cont) st = run (cont (F s k)) (insMemo (noteMemo st k) s ⟨none, k⟩ (F s k)) := by
  rw [run, tkey_global _ hk]
  cases hl : lookup (s, (⟨none, k⟩ : TKey)) st.memo with
  | some v' => left; simp only []; rw [hc v' hl]
  | none => right; simp only []; rw [hv]

/-- **Simulation.** Two states that answer alike give the same output. -/
theorem run_sim {α : Type} {p : Prog α} (hp : Suff F strict p) :
    ∀ st st0, Sim F strict st st0 → (run p st).1 = (run p st0).1 := by
  induction hp with
  | ret a => intro st st0 _; rfl
  | memo s k v cont hv _ ih =>
    intro st st0 hsim
    cases hk : isLocal k with
    | true =>
      rw [run, run, tkey_local _ hk, tkey_local _ hk, hsim.memoLocal s k hk]
      cases lookup (s, (⟨some st0.gen, k⟩ : TKey)) st0.memo with
      | some v' => exact ih v' _ _ (hsim.note k k)
      | none =>
        have := (hsim.note k k).insMemoLocal s k v
        exact ih v _ _ this
    | false =>
      cases hps : s.persists with
      | true =>
        have hv' := hv hps hk
        have h1 := run_memo_global (F := F) st s k v cont hk hv' (fun v' h => hsim.memoGlobal s k v' hps hk (Or.inl h))
        have h2 := run_memo_global (F := F) st0 s k v cont hk hv' (fun v' h => hsim.memoGlobal s k v' hps hk (Or.inr h))
        have base := hsim.note k k
        rcases h1 with h1 | h1 <;> rcases h2 with h2 | h2 <;> rw [h1, h2]
        · exact ih _ _ _ base
        · exact ih _ _ _ (base.insMemoGlobalRight s k _ hps rfl)
        · exact ih _ _ _ (base.insMemoGlobalLeft s k _ hps rfl)
        · exact ih _ _ _ ((base.insMemoGlobalLeft s k _ hps rfl).insMemoGlobalRight s k _ hps rfl)
      | false =>
        rw [run, run, tkey_global _ hk, tkey_global _ hk, hsim.memoVolatile s k hps hk]
        cases lookup (s, (⟨none, k⟩ : TKey)) st0.memo with
        | some v' => exact ih v' _ _ (hsim.note k k)
        | none => exact ih v _ _ ((hsim.note k k).insMemoVolatile s k v hps)
  | assign k a next _ ih =>
    intro st st0 hsim
    cases hk : isLocal k with
    | true =>
      rw [run, run, tkey_local _ hk, tkey_local _ hk, hsim.addrLocal k hk]
      cases lookup (⟨some st0.gen, k⟩ : TKey) st0.addr with
      | some a' =>
        by_cases ha : a' = a
        · simp only [if_pos ha]; exact ih _ _ (hsim.note k k)
        · simp only [if_neg ha]
      | none => exact ih _ _ ((hsim.note k k).insAddrLocal k a)
    | false =>
      rw [run, run, tkey_global _ hk, tkey_global _ hk, hsim.addrGlobal k hk]
      cases lookup (⟨none, k⟩ : TKey) st0.addr with
      | some a' =>
        by_cases ha : a' = a
        · simp only [if_pos ha]; exact ih _ _ (hsim.note k k)
        · simp only [if_neg ha]
      | none => exact ih _ _ ((hsim.note k k).insAddrGlobal k a)
  | addrOf k cont _ ih =>
    intro st st0 hsim
    cases hk : isLocal k with
    | true =>
      rw [run, run, tkey_local _ hk, tkey_local _ hk, hsim.addrLocal k hk]
      exact ih _ _ _ hsim
    | false =>
      rw [run, run, tkey_global _ hk, tkey_global _ hk, hsim.addrGlobal k hk]
      exact ih _ _ _ hsim
  | log row next _ ih =>
    intro st st0 hsim
    rw [run, run]
    exact ih _ _ (hsim.log row)
  | dump cont hs _ ih =>
    intro st st0 hsim
    rw [run, run, hsim.db hs]
    exact ih _ _ _ hsim

/-- forbidding the dump is the stronger hypothesis -/
theorem Suff.weaken {α : Type} {p : Prog α} (hp : Suff F true p) : Suff F false p := by
  induction hp with
  | ret a => exact .ret a
  | memo s k v cont hv _ ih => exact .memo s k v cont hv ih
  | assign k a next _ ih => exact .assign k a next ih
  | addrOf k cont _ ih => exact .addrOf k cont ih
  | log row next _ ih => exact .log row next ih
  | dump cont hs _ _ => cases hs

/-! ### what every history maintains -/

theorem Inv.of_eq {n : Nat} {st st' : State} (h : Inv F n st) (h2 : st'.memo = st.memo) (h3 : st'.addr = st.addr) :
    Inv F n st' :=
  ⟨by rw [h2]; exact h.memoScope, by rw [h2]; exact h.memoGlobal, by rw [h3]; exact h.addrScope⟩

theorem Inv.mono {n m : Nat} {st : State} (h : Inv F n st) (hnm : n ≤ m) : Inv F m st :=
  ⟨fun e he g hg => Nat.lt_of_lt_of_le (h.memoScope e he g hg) hnm, h.memoGlobal,
   fun e he g hg => Nat.lt_of_lt_of_le (h.addrScope e he g hg) hnm⟩

theorem inv_init : Inv F 0 init :=
  ⟨fun e he => by simp [init] at he, fun e he => by simp [init] at he, fun e he => by simp [init] at he⟩

theorem Inv.insMemo {n : Nat} {st : State} (h : Inv F n st) (s : Store) (k : PKey) (v : Val) (g : Nat) (hg : g < n)
    (hv : s.persists = true → isLocal k = false → v = F s k) : Inv F n (insMemo st s (tkey g k) v) := by
  constructor
  · intro e he g' hg'
    rcases List.mem_cons.mp he with rfl | he
    · cases hk : isLocal k with
      | true => rw [tkey_local _ hk] at hg'; cases hg'; exact hg
      | false => rw [tkey_global _ hk] at hg'; cases hg'
    · exact h.memoScope e he g' hg'
  · intro e he hn hp
    rcases List.mem_cons.mp he with rfl | he
    · cases hk : isLocal k with
      | true => rw [tkey_local _ hk] at hn; cases hn
      | false => rw [tkey_global _ hk]; exact hv hp hk
    · exact h.memoGlobal e he hn hp
  · exact h.addrScope

theorem Inv.insAddr {n : Nat} {st : State} (h : Inv F n st) (k : PKey) (a : Nat) (g : Nat) (hg : g < n) :
    Inv F n (insAddr st (tkey g k) a) := by
  constructor
  · exact h.memoScope
  · exact h.memoGlobal
  · intro e he g' hg'
    rcases List.mem_cons.mp he with rfl | he
    · cases hk : isLocal k with
      | true => rw [tkey_local _ hk] at hg'; cases hg'; exact hg
      | false => rw [tkey_global _ hk] at hg'; cases hg'
    · exact h.addrScope e he g' hg'

/-- a run keeps the invariant (with the bound of the *next* compilation) and does not touch the generation counter -/
theorem run_inv {α : Type} {p : Prog α} (hp : Suff F strict p) :
    ∀ st, Inv F (st.gen + 1) st → Inv F (st.gen + 1) (run p st).2 ∧ (run p st).2.gen = st.gen := by
  induction hp with
  | ret a => intro st h; exact ⟨h, rfl⟩
  | memo s k v cont hv _ ih =>
    intro st h
    rw [run]
    cases lookup (s, tkey st.gen k) st.memo with
    | some v' => exact ih v' (noteMemo st k) (h.of_eq rfl rfl)
    | none =>
      have h' : Inv F (st.gen + 1) (insMemo (noteMemo st k) s (tkey st.gen k) v) :=
        (h.of_eq (st' := noteMemo st k) rfl rfl).insMemo s k v st.gen (Nat.lt_succ_self _) hv
      exact ih v (insMemo (noteMemo st k) s (tkey st.gen k) v) h'
  | assign k a next _ ih =>
    intro st h
    rw [run]
    cases lookup (tkey st.gen k) st.addr with
    | some a' =>
      by_cases ha : a' = a
      · simp only [if_pos ha]; exact ih (noteMemo st k) (h.of_eq rfl rfl)
      · simp only [if_neg ha]; exact ⟨h, trivial⟩
    | none =>
      have h' : Inv F (st.gen + 1) (insAddr (noteMemo st k) (tkey st.gen k) a) :=
        (h.of_eq (st' := noteMemo st k) rfl rfl).insAddr k a st.gen (Nat.lt_succ_self _)
      exact ih (insAddr (noteMemo st k) (tkey st.gen k) a) h'
  | addrOf k cont _ ih => intro st h; rw [run]; exact ih _ st h
  | log row next _ ih => intro st h; rw [run]; exact ih (logRow st row) (h.of_eq rfl rfl)
  | dump cont _ _ ih => intro st h; rw [run]; exact ih _ st h

theorem prepare_gen (e : Entry) (st : State) : (prepare e st).gen = st.gen := by cases e <;> rfl

theorem prepare_memo (e : Entry) (st : State) : (prepare e st).memo = st.memo.filter (fun e => e.1.1.persists) := by
  cases e <;> rfl

theorem prepare_addr (e : Entry) (st : State) : (prepare e st).addr = [] := by cases e <;> rfl

theorem prepare_init (e : Entry) : prepare e init = init := by cases e <;> rfl

theorem Inv.prepare {n : Nat} {st : State} (h : Inv F n st) (e : Entry) : Inv F n (prepare e st) := by
  refine ⟨?_, ?_, ?_⟩
  · rw [prepare_memo]; intro x hx; exact h.memoScope x (List.mem_filter.mp hx).1
  · rw [prepare_memo]; intro x hx; exact h.memoGlobal x (List.mem_filter.mp hx).1
  · rw [prepare_addr]; intro x hx; cases hx

theorem compile_fst {ρ ω : Type} (prog : ρ → Prog ω) (e : Entry) (st : State) (rq : ρ) :
    (compile prog e st rq).1 = (run (prog rq) (prepare e st)).1 := by
  unfold compile
  rcases hr : run (prog rq) (prepare e st) with ⟨o, st'⟩
  cases o <;> rfl

theorem Inv.cleanup {n : Nat} {st : State} (h : Inv F n st) (e : Entry) : Inv F n (cleanup e st) := by
  cases e with
  | main => exact h
  | convert => exact h.of_eq rfl rfl
  | convertBytes => exact ⟨h.memoScope, h.memoGlobal, fun e he => by cases he⟩

theorem compile_inv {ρ ω : Type} (prog : ρ → Prog ω) (hs : ∀ r, Suff F strict (prog r)) (e : Entry) (st : State) (rq : ρ)
    (h : Inv F st.gen st) : Inv F (compile prog e st rq).2.gen (compile prog e st rq).2 := by
  have hp : Inv F ((prepare e st).gen + 1) (prepare e st) := by
    rw [prepare_gen]; exact (h.prepare e).mono (Nat.le_succ _)
  have hr := run_inv (hs rq) (prepare e st) hp
  unfold compile
  rcases hrun : run (prog rq) (prepare e st) with ⟨o, st'⟩
  rw [hrun] at hr
  obtain ⟨hinv, hgen⟩ := hr
  simp only at hinv hgen
  cases o with
  | some o =>
    show Inv F (st'.gen + 1) { cleanup e st' with gen := st'.gen + 1 }
    rw [hgen]
    exact (hinv.cleanup e).of_eq rfl rfl
  | none =>
    show Inv F (st'.gen + 1) { st' with gen := st'.gen + 1 }
    rw [hgen]
    exact hinv.of_eq rfl rfl

theorem after_inv {ρ ω : Type} (prog : ρ → Prog ω) (hs : ∀ r, Suff F strict (prog r)) (h : List (Entry × ρ)) :
    ∀ st, Inv F st.gen st → Inv F (after prog h st).gen (after prog h st) := by
  induction h with
  | nil => intro st hi; exact hi
  | cons er t ih =>
    intro st hi
    show Inv F (after prog t (compile prog er.1 st er.2).2).gen (after prog t (compile prog er.1 st er.2).2)
    exact ih _ (compile_inv prog hs er.1 st er.2 hi)

/-- after `prepare`, a state left by any history answers a compilation exactly as the initial state does — up to the
debug database, which only `main` cleans -/
theorem sim_prepare_of_inv {st : State} (h : Inv F st.gen st) (e : Entry) (hd : strict = false → e = .main) :
    Sim F strict (prepare e st) init := by
  constructor
  · intro s k _
    rw [lookup_none_of_forall _ (prepare e st).memo]
    · rfl
    · intro x hx heq
      rw [prepare_memo] at hx
      have := h.memoScope x (List.mem_filter.mp hx).1 st.gen (by rw [heq, prepare_gen])
      exact Nat.lt_irrefl _ this
  · intro s k v hp _ hv
    rcases hv with hv | hv
    · have hm := mem_of_lookup_some _ _ _ hv
      rw [prepare_memo] at hm
      exact h.memoGlobal _ (List.mem_filter.mp hm).1 rfl hp
    · cases hv
  · intro s k hp _
    rw [lookup_none_of_forall _ (prepare e st).memo]
    · rfl
    · intro x hx heq
      rw [prepare_memo] at hx
      have hx' := (List.mem_filter.mp hx).2
      rw [heq] at hx'
      simp only at hx'
      rw [hp] at hx'
      cases hx'
  · intro k _; rw [prepare_addr]; rfl
  · intro k _; rw [prepare_addr]; rfl
  · intro hs; rw [hd hs]; rfl

end VelaVerif.Caches
