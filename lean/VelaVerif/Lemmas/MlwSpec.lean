import VelaVerif.Spec.Mlw
import VelaVerif.Lemmas.Reorder
/-! The executable checkers of `Spec/Mlw.lean` decide the `Prop`s they stand for. -/
namespace VelaVerif.MlwSpec
open VelaVerif.Mlw VelaVerif.Reorder List

theorem zeroPadded_iff (l expected : List Int) : zeroPadded l expected = true ↔ ZeroPadded l expected := by
  unfold zeroPadded ZeroPadded
  simp only [Bool.and_eq_true, beq_iff_eq, all_eq_true]
  constructor
  · rintro ⟨h1, h2⟩
    refine ⟨(l.drop expected.length).length, ?_⟩
    have h3 : l.drop expected.length = replicate (l.drop expected.length).length 0 :=
      eq_replicate_iff.mpr ⟨rfl, fun b hb => h2 b hb⟩
    calc l = l.take expected.length ++ l.drop expected.length := (take_append_drop _ _).symm
      _ = expected ++ replicate (l.drop expected.length).length 0 := by rw [h1, ← h3]
  · rintro ⟨k, rfl⟩
    refine ⟨by simp, ?_⟩
    intro x hx
    simp only [drop_left] at hx
    exact (mem_replicate.mp hx).2

theorem weightsInRange_iff (src : List Int) : weightsInRange src = true ↔ WeightsInRange src := by
  unfold weightsInRange WeightsInRange
  simp only [all_eq_true, Bool.and_eq_true, decide_eq_true_eq]

theorem mem_allCoords (p : Params) (c : Coord) : c ∈ allCoords p ↔ p.inRange c = true := by
  obtain ⟨o, y, x, i⟩ := c
  simp only [allCoords, mem_flatMap, mem_map, mem_range, Coord.mk.injEq, Params.inRange, Bool.and_eq_true,
    decide_eq_true_eq]
  constructor
  · rintro ⟨o', ho, y', hy, x', hx, i', hi, rfl, rfl, rfl, rfl⟩
    exact ⟨⟨⟨ho, hy⟩, hx⟩, hi⟩
  · rintro ⟨⟨⟨ho, hy⟩, hx⟩, hi⟩
    exact ⟨o, ho, y, hy, x, hx, i, hi, rfl, rfl, rfl, rfl⟩

theorem covers_iff (p : Params) (cs : List (Option Coord)) : covers p cs = true ↔ Covers p cs := by
  unfold covers Covers
  simp only [Bool.and_eq_true, all_eq_true, beq_iff_eq, mem_allCoords]
  constructor
  · rintro ⟨h1, h2⟩
    exact ⟨h1, fun c hc => h2 (some c) hc⟩
  · rintro ⟨h1, h2⟩
    refine ⟨h1, ?_⟩
    intro x hx
    cases x with
    | none => rfl
    | some c => exact h2 c hx

/-- an `ok` verdict of the checker establishes the two stream properties -/
theorem checkStream_ok {stream : List Nat} {expected : List Int} {k : Nat} {d : Decoded}
    (h : checkStream stream expected = .ok k d) : Lossless stream expected ∧ Framed stream := by
  unfold checkStream at h
  split at h
  · cases h
  · rename_i d' hd
    split at h
    · cases h
    · rename_i h16
      split at h
      · rename_i hz
        split at h
        · rename_i hf
          cases h
          refine ⟨⟨d, hd, (zeroPadded_iff _ _).mp hz, ?_⟩, ⟨d, hd, by simpa using hf⟩⟩
          simpa using h16
        · cases h
      · split at h <;> cases h

end VelaVerif.MlwSpec
