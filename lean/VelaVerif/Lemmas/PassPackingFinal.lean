import VelaVerif.Lemmas.PassPackingStartup
/-!
# The pass list `packDfs` returns: a partition of the operators, in topological order
-/
namespace VelaVerif.Lemmas.PassPackingDfs
open VelaVerif.PassPacking VelaVerif.Gen.PassPacking VelaVerif.PassPackingSpec VelaVerif.Lemmas.PassPackingWalk

variable {G : Graph} {rk : Nat → Nat}

/-! ## the result of `packDfs` -/

theorem dfsRun_empty (R : Rules) (n : Nat) (d : Dfs) (h : d.stack = []) : dfsRun R G n d = d := by
  cases n <;> simp [dfsRun, h]

/-- what a successful `packDfs` returns: the passes of the traversal, with the start-up pass in front -/
theorem packDfs_ok (hW : WFU G rk) {ps : List Pass} (h : packDfs Rules.current G = .ok ps) :
    ∃ d : Dfs, DInvA G d ∧ DInvB G d ∧ d.stack = [] ∧
      ((d.startup = [] ∧ ps = d.passes) ∨
       (∃ sp, buildStartupPass Rules.current G d.startup = .ok sp ∧ ps = sp :: d.passes ∧ sp.ops.Nodup ∧
          (∀ x, x ∈ sp.ops ↔ x ∈ d.startup))) := by
  unfold packDfs at h
  simp only [] at h
  cases herr : (dfsMain Rules.current G).err with
  | some e => simp [herr] at h
  | none =>
    simp only [herr] at h
    obtain ⟨hA, hB, hst⟩ := dfsRun_inv hW (dfsFuel G) _ init_inv.1 init_inv.2 herr
    refine ⟨dfsMain Rules.current G, hA, hB, hst, ?_⟩
    by_cases hemp : (dfsMain Rules.current G).startup.isEmpty = true
    · simp only [hemp, if_true, Except.ok.injEq] at h
      exact Or.inl ⟨List.isEmpty_iff.mp hemp, h.symm⟩
    · simp only [hemp, Bool.false_eq_true, if_false] at h
      cases hsp : buildStartupPass Rules.current G (dfsMain Rules.current G).startup with
      | error e => simp [hsp] at h
      | ok sp =>
        simp only [hsp] at h
        have hno : ∀ c ∈ (dfsMain Rules.current G).startup, (G.op c).inputs = [] :=
          fun c hc => hW.startupNoInputs c (hA.startupT c hc)
        obtain ⟨hnd, hmem, hrefs⟩ := buildStartupPass_facts hsp hno
        rw [hrefs] at h
        simp only [expandRefs] at h
        rw [dfsRun_empty Rules.current (dfsFuel G) _ rfl] at h
        simp only [herr, Except.ok.injEq] at h
        exact Or.inr ⟨sp, rfl, h.symm, hnd, hmem⟩

theorem flat_map_toSpec (ps : List Pass) : flat (ps.map toSpec) = ps.flatMap (·.ops) := by
  unfold flat
  induction ps with
  | nil => rfl
  | cons p rest ih => simp [List.flatMap_cons, toSpec, ih]

/-- the concatenation of the passes: no repetition, exactly the operators of the graph -/
theorem packDfs_flat (hW : WFU G rk) {ps : List Pass} (h : packDfs Rules.current G = .ok ps) :
    (ps.flatMap (·.ops)).Nodup ∧ (∀ o, o ∈ ps.flatMap (·.ops) ↔ o < G.ops.length) := by
  obtain ⟨d, hA, hB, hst, hcase⟩ := packDfs_ok hW h
  have hcov := coverage hW d hA hB hst
  rcases hcase with ⟨hsu, rfl⟩ | ⟨sp, _, rfl, hnd, hmem⟩
  · have hpl : placed d = d.passes.flatMap (·.ops) := by simp [placed, hsu]
    refine ⟨by rw [← hpl]; exact hB.nodup, fun o => ⟨fun ho => hB.range.1 o (by rw [hpl]; exact ho), fun ho => by rw [← hpl]; exact hcov o ho⟩⟩
  · rw [List.flatMap_cons]
    refine ⟨?_, fun o => ⟨?_, ?_⟩⟩
    · apply List.nodup_append.mpr
      refine ⟨hnd, (List.nodup_append.mp hB.nodup).1, ?_⟩
      intro a ha b hb hab
      subst hab
      exact (List.nodup_append.mp hB.nodup).2.2 a hb a ((hmem a).mp ha) rfl
    · intro ho
      rcases List.mem_append.mp ho with ho | ho
      · exact hB.range.1 o (List.mem_append_right _ ((hmem o).mp ho))
      · exact hB.range.1 o (List.mem_append_left _ ho)
    · intro ho
      rcases List.mem_append.mp (hcov o ho) with h1 | h1
      · exact List.mem_append_right _ h1
      · exact List.mem_append_left _ ((hmem o).mpr h1)

/-- **(a)** -/
theorem packDfs_partition (hW : WFU G rk) {ps : List Pass} (h : packDfs Rules.current G = .ok ps) :
    Partition G (ps.map toSpec) := by
  obtain ⟨hnd, hmem⟩ := packDfs_flat hW h
  unfold Partition
  rw [flat_map_toSpec]
  exact ⟨fun o ho => count_of_nodup_mem _ hnd o ((hmem o).mpr ho), fun o ho => (hmem o).mp ho⟩

theorem mem_flatMap_split {ps : List Pass} {c : Nat} (hc : c ∈ ps.flatMap (·.ops)) :
    ∃ pre p post x y, ps = pre ++ p :: post ∧ p.ops = x ++ c :: y := by
  obtain ⟨p, hp, hcp⟩ := List.mem_flatMap.mp hc
  obtain ⟨pre, post, hsplit⟩ := List.append_of_mem hp
  obtain ⟨x, y, hxy⟩ := List.append_of_mem hcp
  exact ⟨pre, p, post, x, y, hsplit, hxy⟩

/-- **(b)** -/
theorem packDfs_topo (hW : WFU G rk) {ps : List Pass} (h : packDfs Rules.current G = .ok ps) :
    TopoOrder G (ps.map toSpec) := by
  obtain ⟨hnd, hmem⟩ := packDfs_flat hW h
  obtain ⟨d, hA, hB, hst, hcase⟩ := packDfs_ok hW h
  unfold TopoOrder
  rw [flat_map_toSpec]
  intro j c hj pr hpr
  -- pr is somewhere in the list, and not at or behind position j
  obtain ⟨t, hin, hprt⟩ := mem_producersOf.mp hpr
  have hpr_in : pr ∈ ps.flatMap (·.ops) := (hmem pr).mpr (hW.opsRange t pr hprt)
  have hjlt : j < (ps.flatMap (·.ops)).length := by
    rcases Nat.lt_or_ge j (ps.flatMap (·.ops)).length with h' | h'
    · exact h'
    · rw [List.getElem?_eq_none h'] at hj; simp at hj
  have hsplit : ps.flatMap (·.ops) = (ps.flatMap (·.ops)).take j ++ c :: (ps.flatMap (·.ops)).drop (j + 1) := by
    have hget : (ps.flatMap (·.ops))[j] = c := by
      have := List.getElem?_eq_getElem hjlt; rw [this] at hj; exact Option.some.inj hj
    rw [← hget]
    exact (List.take_append_drop j _).symm.trans (by rw [List.drop_eq_getElem_cons hjlt])
  have hnotafter : pr ∉ c :: (ps.flatMap (·.ops)).drop (j + 1) := by
    intro hm
    rcases List.mem_cons.mp hm with rfl | hm
    · have := hW.rank pr pr hpr; omega
    · -- c is in a pass of the traversal (a start-up operator has no inputs)
      have hc_in : c ∈ ps.flatMap (·.ops) := by rw [hsplit]; simp
      have hc_trav : c ∈ d.passes.flatMap (·.ops) := by
        rcases hcase with ⟨_, rfl⟩ | ⟨sp, _, rfl, _, hspmem⟩
        · exact hc_in
        · rw [List.flatMap_cons] at hc_in
          rcases List.mem_append.mp hc_in with h1 | h1
          · have := hW.startupNoInputs c (hA.startupT c ((hspmem c).mp h1))
            rw [this] at hin; simp at hin
          · exact h1
      obtain ⟨pre, p, post, x, y, hps, hpo⟩ := mem_flatMap_split hc_trav
      obtain ⟨hnpost, hny⟩ := hB.ordered pre p post hps c (by rw [hpo]; simp) pr hpr
      -- the tail behind c in the whole list is `y ++` the older passes
      have hwhole : ∃ front, ps.flatMap (·.ops) = front ++ c :: (y ++ post.flatMap (·.ops)) := by
        rcases hcase with ⟨_, rfl⟩ | ⟨sp, _, rfl, _, _⟩
        · exact ⟨pre.flatMap (·.ops) ++ x, by rw [hps]; simp [List.flatMap_append, List.flatMap_cons, hpo]⟩
        · exact ⟨sp.ops ++ pre.flatMap (·.ops) ++ x, by rw [hps]; simp [List.flatMap_append, List.flatMap_cons, hpo]⟩
      obtain ⟨front, hfront⟩ := hwhole
      obtain ⟨_, htail⟩ := nodup_split_unique _ _ _ _ _ c hnd hsplit hfront
      rw [htail] at hm
      rcases List.mem_append.mp hm with h1 | h1
      · exact hny x y hpo h1
      · exact hnpost h1
  rw [hsplit] at hpr_in
  rcases List.mem_append.mp hpr_in with h1 | h1
  · exact h1
  · exact absurd h1 hnotafter

end VelaVerif.Lemmas.PassPackingDfs

namespace VelaVerif.Lemmas.PassPackingDfs
open VelaVerif.PassPacking VelaVerif.Gen.PassPacking VelaVerif.PassPackingSpec VelaVerif.Lemmas.PassPackingWalk

variable {G : Graph} {rk : Nat → Nat}

theorem buildPass_not_startup {s : Nat} {p : Pass} (h : buildPass Rules.current G s = .ok p) : p.isStartup = false := by
  obtain ⟨ofm, ofs, hfin, _⟩ := buildPass_ok Rules.current G h
  obtain ⟨_, hp⟩ := finishPass_ok G hfin
  rw [hp]; rfl

theorem buildStartupPass_isStartup {l : List Nat} {sp : Pass} (h : buildStartupPass Rules.current G l = .ok sp) : sp.isStartup = true := by
  unfold buildStartupPass at h
  split at h
  · simp at h
  · split at h
    · simp at h
    · simp only [Except.ok.injEq] at h; rw [← h]

/-- **(c)** for the whole list: every pass but the start-up pass has the shape of the Spec, the start-up pass holds start-up
    operators only -/
theorem packDfs_shape (hW : WFU G rk) (hbt : MainHasBlock G) {ps : List Pass} (h : packDfs Rules.current G = .ok ps) :
    ∀ p ∈ ps, (p.isStartup = false → passShapeB G (toSpec p) = true) ∧
      (p.isStartup = true → ∀ o ∈ p.ops, startupInitOps.contains (G.op o).type = true) := by
  obtain ⟨d, hA, _, _, hcase⟩ := packDfs_ok hW h
  have htrav : ∀ p ∈ d.passes, (p.isStartup = false → passShapeB G (toSpec p) = true) ∧
      (p.isStartup = true → ∀ o ∈ p.ops, startupInitOps.contains (G.op o).type = true) := by
    intro p hp
    obtain ⟨s, hs⟩ := hA.built p hp
    refine ⟨fun _ => buildPass_shape G hs hbt, fun hst => ?_⟩
    rw [buildPass_not_startup hs] at hst; exact Bool.noConfusion hst
  rcases hcase with ⟨_, rfl⟩ | ⟨sp, hsp, rfl, _, hmem⟩
  · exact htrav
  · intro p hp
    rcases List.mem_cons.mp hp with rfl | hp
    · refine ⟨fun hst => ?_, fun _ o ho => hA.startupT o ((hmem o).mp ho)⟩
      rw [buildStartupPass_isStartup hsp] at hst; exact Bool.noConfusion hst
    · exact htrav p hp

end VelaVerif.Lemmas.PassPackingDfs

namespace VelaVerif.Lemmas.PassPackingDfs
open VelaVerif.PassPacking VelaVerif.Gen.PassPacking VelaVerif.PassPackingSpec VelaVerif.Lemmas.PassPackingWalk

/-- executable form of `MainHasBlock` -/
def mainHasBlockB (G : Graph) : Bool :=
  G.ops.all fun o => !(macMainOps ++ elemWiseMainOps ++ memcpyOps).contains o.type || blockTypeOf o.type != 0

theorem mainHasBlock_of_check (G : Graph) (h : mainHasBlockB G = true) : MainHasBlock G := by
  intro o hm
  by_cases ho : o < G.ops.length
  · unfold mainHasBlockB at h
    rw [List.all_eq_true] at h
    have hmem : G.op o ∈ G.ops := by
      unfold Graph.op
      rw [List.getD_eq_getElem?_getD, List.getElem?_eq_getElem ho]
      exact List.getElem_mem ho
    have := h (G.op o) hmem
    simp only [Bool.or_eq_true, Bool.not_eq_true', bne_iff_ne, ne_eq] at this
    rcases this with h1 | h1
    · rw [List.contains_iff_mem.mpr hm] at h1; exact Bool.noConfusion h1
    · exact h1
  · rw [op_default ho]
    decide

end VelaVerif.Lemmas.PassPackingDfs
