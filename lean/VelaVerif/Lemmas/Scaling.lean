import Mathlib.Tactic.Linarith
import Mathlib.Tactic.Ring
import VelaVerif.Model.Scaling
import VelaVerif.Spec.Scaling
/-! Helper lemmas for C09 (`Props/C09.lean`). -/
namespace VelaVerif.Scaling
open VelaVerif.Spec.Scaling

/-! ### the one rounding double addition of `round_away_zero` is harmless -/

/-- `trunc(fl(m·2^-22 + 0.5)) = ⌊(m + 2^21) / 2^22⌋`: below `2^31 − ½` the sum is exact, above it
    the rounded sum stays in `[2^31, 2^31 + ½]` and truncates to `2^31` either way. -/
theorem rne53_add_half (m : Nat) (h : m < 2 ^ 53) :
    rne53 (m + 2 ^ 21) / 2 ^ 22 = (m + 2 ^ 21) / 2 ^ 22 := by
  unfold rne53
  split
  · rfl
  · simp only []
    split <;> omega

theorem sigQ31_eq (m : Nat) (h : m < 2 ^ 53) : sigQ31 m = (m + 2 ^ 21) / 2 ^ 22 :=
  rne53_add_half m h

theorem sigQ31_range (m : Nat) (h1 : 2 ^ 52 ≤ m) (h2 : m < 2 ^ 53) :
    2 ^ 30 ≤ sigQ31 m ∧ sigQ31 m ≤ 2 ^ 31 := by
  rw [sigQ31_eq m h2]; omega

/-! ### `frexp` -/

theorem frexpNorm_norm (m : Nat) (e : Int) (h0 : 0 < m) (h2 : m < 2 ^ 53) :
    2 ^ 52 ≤ (frexpNorm m e).1 ∧ (frexpNorm m e).1 < 2 ^ 53 := by
  have hne : m ≠ 0 := by omega
  have hl : Nat.log2 m ≤ 52 := by
    have := (Nat.log2_lt hne).2 h2
    omega
  have hlo : 2 ^ Nat.log2 m ≤ m := Nat.log2_self_le hne
  have hhi : m < 2 ^ (Nat.log2 m + 1) := Nat.lt_log2_self
  unfold frexpNorm normShift
  refine ⟨?_, ?_⟩
  · show 2 ^ 52 ≤ m * 2 ^ (52 - Nat.log2 m)
    calc 2 ^ 52 = 2 ^ (Nat.log2 m + (52 - Nat.log2 m)) := by congr 1; omega
      _ = 2 ^ Nat.log2 m * 2 ^ (52 - Nat.log2 m) := Nat.pow_add ..
      _ ≤ m * 2 ^ (52 - Nat.log2 m) := Nat.mul_le_mul_right _ hlo
  · show m * 2 ^ (52 - Nat.log2 m) < 2 ^ 53
    calc m * 2 ^ (52 - Nat.log2 m) < 2 ^ (Nat.log2 m + 1) * 2 ^ (52 - Nat.log2 m) :=
          Nat.mul_lt_mul_of_pos_right hhi (Nat.pow_pos (by decide))
      _ = 2 ^ (Nat.log2 m + 1 + (52 - Nat.log2 m)) := (Nat.pow_add ..).symm
      _ = 2 ^ 53 := by congr 1; omega

/-- `frexp` does not change the value: `m·2^e = m'·2^e'` -/
theorem frexpNorm_value (m : Nat) (e : Int) :
    DyEq m e (frexpNorm m e).1 (frexpNorm m e).2 := by
  unfold DyEq scaleTo frexpNorm
  simp only []
  have hmin : min e (e - (normShift m : Nat)) = e - (normShift m : Nat) := by omega
  rw [hmin]
  have t1 : (e - (e - (normShift m : Nat))).toNat = normShift m := by omega
  have t2 : (e - (normShift m : Nat) - (e - (normShift m : Nat))).toNat = 0 := by omega
  rw [t1, t2]
  simp

theorem frexpNorm_of_norm (m : Nat) (e : Int) (h1 : 2 ^ 52 ≤ m) (h2 : m < 2 ^ 53) :
    frexpNorm m e = (m, e) := by
  have hne : m ≠ 0 := by omega
  have : Nat.log2 m = 52 := (Nat.log2_eq_iff hne).2 ⟨h1, h2⟩
  unfold frexpNorm normShift
  rw [this]; simp

theorem quantiseScale_pos (m : Nat) (e : Int) (h0 : 0 < m) (h2 : m < 2 ^ 53) :
    quantiseScale (.fin false m e) = .ok (quantiseNorm (frexpNorm m e).1 (frexpNorm m e).2) := by
  have hg : ¬ (m = 0 ∨ m ≥ 2 ^ 53) := by omega
  simp only [quantiseScale, hg, if_false]
  rfl

theorem quantiseScale_norm (m : Nat) (e : Int) (h1 : 2 ^ 52 ≤ m) (h2 : m < 2 ^ 53) :
    quantiseScale (.fin false m e) = .ok (quantiseNorm m e) := by
  rw [quantiseScale_pos m e (by omega) h2, frexpNorm_of_norm m e h1 h2]

/-! ### the hardware range in terms of the `frexp` exponent -/

theorem pow_le_iff_of_norm (m k : Nat) (h1 : 2 ^ 52 ≤ m) (h2 : m < 2 ^ 53) : 2 ^ k ≤ m ↔ k ≤ 52 := by
  constructor
  · intro h
    by_cases hk : k ≤ 52
    · exact hk
    · have : 2 ^ 53 ≤ 2 ^ k := Nat.pow_le_pow_right (by decide) (by omega)
      omega
  · intro hk
    have : 2 ^ k ≤ 2 ^ 52 := Nat.pow_le_pow_right (by decide) hk
    omega

theorem lt_pow_iff_of_norm (m k : Nat) (h1 : 2 ^ 52 ≤ m) (h2 : m < 2 ^ 53) : m < 2 ^ k ↔ 53 ≤ k := by
  constructor
  · intro h
    by_cases hk : 53 ≤ k
    · exact hk
    · have : 2 ^ k ≤ 2 ^ 52 := Nat.pow_le_pow_right (by decide) (by omega)
      omega
  · intro hk
    have : 2 ^ 53 ≤ 2 ^ k := Nat.pow_le_pow_right (by decide) hk
    omega

/-- `2^lo ≤ m·2^e ↔ lo − 52 ≤ e` for a normalised significand -/
theorem dyLe_lower (m : Nat) (e : Int) (lo : Int) (h1 : 2 ^ 52 ≤ m) (h2 : m < 2 ^ 53) :
    DyLe 1 lo m e ↔ lo - 52 ≤ e := by
  unfold DyLe scaleTo
  rcases Int.le_total e lo with h | h
  · rw [Int.min_eq_right h]
    have h0 : (e - e).toNat = 0 := by simp
    rw [h0]
    have : (1 * (2:Int) ^ (lo - e).toNat ≤ (m : Int) * 2 ^ 0) ↔ 2 ^ (lo - e).toNat ≤ m := by
      simp only [Int.one_mul, Int.pow_zero, Int.mul_one]
      norm_cast
    rw [this, pow_le_iff_of_norm m _ h1 h2]
    omega
  · rw [Int.min_eq_left h]
    have h0 : (lo - lo).toNat = 0 := by simp
    rw [h0]
    constructor
    · intro _; omega
    · intro _
      have hp : (0:Int) < 2 ^ (e - lo).toNat := Int.pow_pos (by decide)
      have hm : (1:Int) ≤ m := by omega
      simp only [Int.pow_zero, Int.mul_one]
      calc (1:Int) = 1 * 1 := by simp
        _ ≤ m * 2 ^ (e - lo).toNat := Int.mul_le_mul hm (by omega) (by decide) (by omega)

/-- `m·2^e < 2^hi ↔ e ≤ hi − 53` for a normalised significand -/
theorem dyLt_upper (m : Nat) (e : Int) (hi : Int) (h1 : 2 ^ 52 ≤ m) (h2 : m < 2 ^ 53) :
    DyLt m e 1 hi ↔ e ≤ hi - 53 := by
  unfold DyLt scaleTo
  rcases Int.le_total e hi with h | h
  · rw [Int.min_eq_left h]
    have h0 : (e - e).toNat = 0 := by simp
    rw [h0]
    have : ((m : Int) * 2 ^ 0 < 1 * (2:Int) ^ (hi - e).toNat) ↔ m < 2 ^ (hi - e).toNat := by
      simp only [Int.one_mul, Int.pow_zero, Int.mul_one]
      norm_cast
    rw [this, lt_pow_iff_of_norm m _ h1 h2]
    omega
  · rw [Int.min_eq_right h]
    have h0 : (hi - hi).toNat = 0 := by simp
    rw [h0]
    constructor
    · intro hlt
      have hp : (0:Int) < 2 ^ (e - hi).toNat := Int.pow_pos (by decide)
      have hm : (1:Int) ≤ m := by omega
      have : (1:Int) * 1 ≤ m * 2 ^ (e - hi).toNat := Int.mul_le_mul hm (by omega) (by decide) (by omega)
      simp only [Int.pow_zero, Int.mul_one] at hlt
      omega
    · intro _; omega

/-- `2^-33 ≤ m·2^e < 2^31 ↔ −85 ≤ e ≤ −22` -/
theorem hwRange_iff (m : Nat) (e : Int) (h1 : 2 ^ 52 ≤ m) (h2 : m < 2 ^ 53) :
    HwRange m e ↔ -85 ≤ e ∧ e ≤ -22 := by
  unfold HwRange
  rw [dyLe_lower m e _ h1 h2, dyLt_upper m e _ h1 h2]
  omega

/-- `2^-33 ≤ m·2^e < 2^15 ↔ −85 ≤ e ≤ −38` -/
theorem hwRange16_iff (m : Nat) (e : Int) (h1 : 2 ^ 52 ≤ m) (h2 : m < 2 ^ 53) :
    HwRange16 m e ↔ -85 ≤ e ∧ e ≤ -38 := by
  unfold HwRange16
  rw [dyLe_lower m e _ h1 h2, dyLt_upper m e _ h1 h2]
  omega

/-! ### `quantise_scale` on a normalised positive double -/

theorem quantiseNorm_in (m : Nat) (e : Int) (hlo : -85 ≤ e) (hhi : e ≤ -22) :
    quantiseNorm m e = (((sigQ31 m : Nat) : Int), -e - 22) := by
  unfold quantiseNorm
  simp only []
  rw [if_pos (by omega)]
  congr 1
  omega

theorem quantiseNorm_out (m : Nat) (e : Int) (h : ¬ (-85 ≤ e ∧ e ≤ -22)) :
    quantiseNorm m e = (0, 16) := by
  unfold quantiseNorm
  simp only []
  rw [if_neg (by omega)]

theorem relErr_quantise (m : Nat) (e : Int) (_h1 : 2 ^ 52 ≤ m) (h2 : m < 2 ^ 53) :
    RelErr ((sigQ31 m : Nat) : Int) (-(-e - 22)) m e 1 (2 ^ 31) := by
  unfold RelErr scaleTo
  have hmin : min (-(-e - 22)) e = e := by omega
  rw [hmin]
  have t1 : (-(-e - 22) - e).toNat = 22 := by omega
  have t2 : (e - e).toNat = 0 := by omega
  rw [t1, t2, sigQ31_eq m h2]
  simp only [Int.pow_zero, Int.mul_one]
  omega

theorem roundHalfAway_22 (m : Nat) : roundHalfAway m 22 = (m + 2 ^ 21) / 2 ^ 22 := by
  unfold roundHalfAway
  split <;> omega

theorem dyEq_tflite (m : Nat) (e : Int) (h2 : m < 2 ^ 53) :
    DyEq ((sigQ31 m : Nat) : Int) (-(-e - 22)) (tfliteQuantizeMultiplierNoFlush m e).1
      ((tfliteQuantizeMultiplierNoFlush m e).2 - 31) := by
  unfold tfliteQuantizeMultiplierNoFlush
  simp only [roundHalfAway_22, ← sigQ31_eq m h2]
  split
  · rename_i h
    unfold DyEq scaleTo
    simp only []
    have hmin : min (-(-e - 22)) (e + 53 + 1 - 31) = e + 22 := by omega
    rw [hmin, h]
    have t1 : (-(-e - 22) - (e + 22)).toNat = 0 := by omega
    have t2 : (e + 53 + 1 - 31 - (e + 22)).toNat = 1 := by omega
    rw [t1, t2]
    decide
  · unfold DyEq scaleTo
    simp only []
    have he : e + 53 - 31 = -(-e - 22) := by omega
    rw [he]

/-! ### the reduced form -/

theorem shl_32767 : ((32767 : Int) <<< (16 : Nat)) = 2147418112 := by decide

/-- closed form of `reduced_quantise_scale` whenever `quantise_scale` is inside its own guard -/
theorem reduced_in (m : Nat) (e : Int) (h1 : 2 ^ 52 ≤ m) (h2 : m < 2 ^ 53)
    (hlo : -85 ≤ e) (hhi : e ≤ -22) :
    reducedQuantiseScale (.fin false m e) =
      .ok ((if (sigQ31 m : Int) < 2147418112 then ((sigQ31 m : Int) + 2 ^ 15) / 2 ^ 16 else 32767),
           -e - 38) := by
  unfold reducedQuantiseScale
  rw [quantiseScale_norm m e h1 h2, quantiseNorm_in m e hlo hhi]
  simp only [Int.shiftRight_eq_div_pow]
  rw [if_neg (by omega)]
  congr 2
  omega

/-- outside the guard `quantise_scale` answers `(0, 16)`, which *passes* the (repeated) guard of
    `reduced_quantise_scale`: the result is `(0, 0)` -/
theorem reduced_out (m : Nat) (e : Int) (h1 : 2 ^ 52 ≤ m) (h2 : m < 2 ^ 53)
    (h : ¬ (-85 ≤ e ∧ e ≤ -22)) :
    reducedQuantiseScale (.fin false m e) = .ok (0, 0) := by
  unfold reducedQuantiseScale
  rw [quantiseScale_norm m e h1 h2, quantiseNorm_out m e h]
  decide

theorem relErr_reduced (m : Nat) (e : Int) (h1 : 2 ^ 52 ≤ m) (h2 : m < 2 ^ 53) :
    RelErr (if (sigQ31 m : Int) < 2147418112 then ((sigQ31 m : Int) + 2 ^ 15) / 2 ^ 16 else 32767)
      (-(-e - 38)) m e 1 (2 ^ 14) := by
  unfold RelErr scaleTo
  have hmin : min (-(-e - 38)) e = e := by omega
  rw [hmin]
  have t1 : (-(-e - 38) - e).toNat = 38 := by omega
  have t2 : (e - e).toNat = 0 := by omega
  rw [t1, t2, sigQ31_eq m h2]
  simp only [Int.pow_zero, Int.mul_one]
  split <;> omega

/-! ### pooling -/

/-- all the arithmetic of the pooling theorem, after multiplying through by `n` -/
theorem pool_core (b n S H P r Q ρ h : Int)
    (hb : 0 ≤ b) (hn : 0 < n) (hP : n ≤ P) (hr0 : 0 ≤ r) (hrn : r < n)
    (e1 : n * S + r = 2 * H + P) (hh : 2 * h ≤ n) (hh2 : n ≤ 2 * h + 1)
    (hρ0 : 0 ≤ ρ) (hρn : ρ < n) (e2 : b + h = Q * n + ρ) (hbP : b * P < H) :
    (Q * (2 * H) ≤ b * S + H ∧ b * S + H < (Q + 1) * (2 * H)) ∧
    (b * S ≤ Q * (2 * H) + H ∧ (0 < b → Q * (2 * H) + H < b * S + 2 * H)) := by
  have hbP0 : 0 ≤ b * P := Int.mul_nonneg hb (by omega)
  have hH : 0 < H := by omega
  have A1 : b * (n * S) + b * r = b * (2 * H + P) := by rw [← Int.mul_add, e1]
  have A2 : (b + h) * H = (Q * n + ρ) * H := by rw [e2]
  have B1 : 0 ≤ ρ * H := Int.mul_nonneg hρ0 (by omega)
  have B2 : ρ * H ≤ (n - 1) * H := Int.mul_le_mul_of_nonneg_right (by omega) (by omega)
  have B3 : 2 * h * H ≤ n * H := Int.mul_le_mul_of_nonneg_right hh (by omega)
  have B4 : n * H ≤ (2 * h + 1) * H := Int.mul_le_mul_of_nonneg_right hh2 (by omega)
  have B5 : 0 ≤ b * r := Int.mul_nonneg hb hr0
  have B6 : b * r ≤ b * P := Int.mul_le_mul_of_nonneg_left (by omega) hb
  have B7 : 0 < b → b * r + 1 ≤ b * P := by
    intro hb'
    have : b * (r + 1) ≤ b * P := Int.mul_le_mul_of_nonneg_left (by omega) hb
    have : b * (r + 1) = b * r + b := by ring
    omega
  refine ⟨⟨?_, ?_⟩, ?_, ?_⟩
  · have : n * (Q * (2 * H)) ≤ n * (b * S + H) := by nlinarith
    exact le_of_mul_le_mul_left this hn
  · have : n * (b * S + H) < n * ((Q + 1) * (2 * H)) := by nlinarith
    exact lt_of_mul_lt_mul_left this (by omega)
  · have : n * (b * S) ≤ n * (Q * (2 * H) + H) := by nlinarith
    exact le_of_mul_le_mul_left this hn
  · intro hb'
    have := B7 hb'
    have : n * (Q * (2 * H) + H) < n * (b * S + 2 * H) := by nlinarith
    exact lt_of_mul_lt_mul_left this (by omega)

theorem ediv_eq_of_bounds (X T Q : Int) (hT : 0 < T) (h1 : Q * T ≤ X) (h2 : X < (Q + 1) * T) :
    X / T = Q := by
  have a1 : Q ≤ X / T := (Int.le_ediv_iff_mul_le hT).2 h1
  have a2 : X / T < Q + 1 := (Int.ediv_lt_iff_lt_mul hT).2 h2
  omega

/-- The pooling pair `S = ⌊(2^(N+k) + 2^k) / n⌋`, shift `N + k`, for any `k` with `n ≤ 2^k`,
    reproduces the reference rounding for every accumulator of magnitude below `2^(N−1)`. -/
theorem poolOk_general (n : Int) (k N : Nat) (a : Int) (hn : 1 ≤ n) (hnk : n ≤ 2 ^ k)
    (hN : 1 ≤ N) (ha : a.natAbs < 2 ^ (N - 1)) :
    PoolOk ((2 ^ (N + k) + 2 ^ k) / n) (N + k) n a := by
  unfold PoolOk hwRound
  rw [if_neg (by omega)]
  have hsh : N + k - 1 = (N - 1) + k := by omega
  have hT : (2:Int) ^ (N + k) = 2 * 2 ^ (N + k - 1) := by
    have : N + k = (N + k - 1) + 1 := by omega
    conv => lhs; rw [this, Int.pow_succ]
    ring
  have hHP : (2:Int) ^ (N + k - 1) = 2 ^ (N - 1) * 2 ^ k := by rw [hsh, Int.pow_add]
  generalize hH : (2:Int) ^ (N + k - 1) = H at *
  generalize hPd : (2:Int) ^ k = P at *
  have hPpos : 0 < P := by rw [← hPd]; exact Int.pow_pos (by decide)
  rw [hT]
  set S := (2 * H + P) / n with hS
  set r := (2 * H + P) % n with hr
  have e1 : n * S + r = 2 * H + P := Int.mul_ediv_add_emod _ _
  have hr0 : 0 ≤ r := Int.emod_nonneg _ (by omega)
  have hrn : r < n := Int.emod_lt_of_pos _ (by omega)
  set h := n / 2 with hh
  have hh1 : 2 * h ≤ n := by omega
  have hh2 : n ≤ 2 * h + 1 := by omega
  have hblt0 : ((a.natAbs : Nat) : Int) < 2 ^ (N - 1) := by exact_mod_cast ha
  have habs : a = (a.natAbs : Int) ∨ a = -(a.natAbs : Int) := by omega
  have habs0 : a = 0 → (a.natAbs : Int) = 0 := by omega
  generalize hbdef : (a.natAbs : Int) = b at *
  have hb0 : 0 ≤ b := by omega
  have hbP : b * P < H := by
    rw [hHP]
    exact Int.mul_lt_mul_of_pos_right hblt0 hPpos
  set Q := (b + h) / n with hQ
  set ρ := (b + h) % n with hρ
  have e2 : b + h = Q * n + ρ := by
    have := Int.mul_ediv_add_emod (b + h) n
    rw [← hQ, ← hρ] at this
    linarith
  have hρ0 : 0 ≤ ρ := Int.emod_nonneg _ (by omega)
  have hρn : ρ < n := Int.emod_lt_of_pos _ (by omega)
  obtain ⟨⟨p1, p2⟩, q1, q2⟩ :=
    pool_core b n S H P r Q ρ h hb0 (by omega) hnk hr0 hrn e1 hh1 hh2 hρ0 hρn e2 hbP
  have hHpos : 0 < H := by
    have : 0 ≤ b * P := Int.mul_nonneg hb0 (by omega)
    omega
  unfold refAvg
  rcases Int.lt_trichotomy a 0 with hneg | hzero | hpos
  · have hab : a = -b := by omega
    rw [if_neg (by omega)]
    have hb' : 0 < b := by omega
    have h3 := q2 hb'
    have : a - h = -(b + h) := by omega
    rw [this, Int.neg_tdiv, Int.tdiv_eq_ediv_of_nonneg (by omega), ← hQ]
    apply ediv_eq_of_bounds _ _ _ (by omega)
    · rw [hab]; nlinarith
    · rw [hab]; nlinarith
  · subst hzero
    have hbz : b = 0 := habs0 rfl
    rw [if_neg (by omega)]
    have : (0:Int) - h = -h := by omega
    rw [this, Int.neg_tdiv, Int.tdiv_eq_ediv_of_nonneg (by omega)]
    have hq0 : h / n = 0 := Int.ediv_eq_zero_of_lt (by omega) (by omega)
    rw [hq0]
    apply ediv_eq_of_bounds _ _ _ (by omega) <;> omega
  · have hab : a = b := by omega
    rw [if_pos hpos, Int.tdiv_eq_ediv_of_nonneg (by omega), hab, ← hQ]
    apply ediv_eq_of_bounds _ _ _ (by omega)
    · linarith
    · linarith

theorem lt_two_pow_bitLength (x : Nat) : x < 2 ^ bitLength x := by
  unfold bitLength
  split
  · omega
  · exact Nat.lt_log2_self

theorem two_pow_bitLength_le (x : Nat) (hx : x ≠ 0) : 2 ^ (bitLength x - 1) ≤ x := by
  unfold bitLength
  rw [if_neg hx]
  exact Nat.log2_self_le hx

theorem bitLength_le (x b : Nat) (hx : x < 2 ^ b) : bitLength x ≤ b := by
  unfold bitLength
  split
  · omega
  · rename_i h
    have := (Nat.log2_lt h).2 hx
    omega

/-- closed form of `quantise_pooling_scale(n, 31 − N)` for a positive window size -/
theorem quantisePoolingScale_ok (n : Int) (N : Nat) (hn : 1 ≤ n) (hn53 : n ≤ 2 ^ 53)
    (hsh : N + bitLength (n - 1).natAbs < 64) :
    quantisePoolingScale n (31 - (N : Int)) =
      .ok ((2 ^ (N + bitLength (n - 1).natAbs) + 2 ^ bitLength (n - 1).natAbs) / n,
           ((N + bitLength (n - 1).natAbs : Nat) : Int)) := by
  unfold quantisePoolingScale
  simp only []
  have hx : ¬ (n - 1).natAbs ≥ 2 ^ 53 := by omega
  rw [if_neg hx]
  generalize bitLength (n - 1).natAbs = k at *
  have hN : (31 : Int) - (31 - (N : Int)) = N := by omega
  rw [hN]
  rw [if_neg (by omega), if_neg (by omega)]
  have hlt : ((N : Int) + (k : Int)) < 64 := by omega
  rw [if_neg (by omega)]
  have t1 : ((N : Int) + (k : Int)).toNat = N + k := by omega
  have t2 : ((k : Nat) : Int).toNat = k := by omega
  rw [t1, t2, Int.fdiv_eq_ediv_of_nonneg _ (by omega)]
  congr 2

/-! ### exact comparisons -/

theorem magLt_asymm (m1 : Nat) (e1 : Int) (m2 : Nat) (e2 : Int) (h : magLt m1 e1 m2 e2 = true) :
    magLt m2 e2 m1 e1 = false := by
  unfold magLt at *
  simp only [decide_eq_true_eq, decide_eq_false_iff_not] at *
  rw [Int.min_comm e2 e1]
  omega

theorem Dbl.lt_asymm (a b : Dbl) (h : Dbl.lt a b = true) : Dbl.lt b a = false := by
  cases a with
  | nan => simp [Dbl.lt] at h
  | inf n1 =>
    cases b with
    | nan => simp [Dbl.lt] at h
    | inf n2 => cases n1 <;> cases n2 <;> simp [Dbl.lt] at h ⊢
    | zero n2 => cases n1 <;> simp [Dbl.lt] at h ⊢
    | fin n2 m2 e2 => cases n1 <;> simp [Dbl.lt] at h ⊢
  | zero n1 =>
    cases b with
    | nan => simp [Dbl.lt] at h
    | inf n2 => cases n2 <;> simp [Dbl.lt] at h ⊢
    | zero n2 => simp [Dbl.lt] at h
    | fin n2 m2 e2 => cases n2 <;> simp [Dbl.lt] at h ⊢
  | fin n1 m1 e1 =>
    cases b with
    | nan => simp [Dbl.lt] at h
    | inf n2 => cases n2 <;> simp [Dbl.lt] at h ⊢
    | zero n2 => cases n1 <;> simp [Dbl.lt] at h ⊢
    | fin n2 m2 e2 =>
      cases n1 <;> cases n2 <;> simp only [Dbl.lt] at h ⊢
      · exact magLt_asymm _ _ _ _ h
      · cases h
      · exact magLt_asymm _ _ _ _ h

theorem promote_comm (a b : FKind) : promote a b = promote b a := by
  cases a <;> cases b <;> rfl

theorem promote_self (a : FKind) : promote a a = a := by
  cases a <;> rfl

end VelaVerif.Scaling
