import VelaVerif.Lemmas.SchedFastAssert
/-!
# `use_fast_storage_for_feature_maps` returns normally on well-formed ranges (`Model/SchedMem.lean`)
-/
namespace VelaVerif.SchedMem
open VelaVerif.Spec.SchedMem

/-- the range was marked and lies inside the usage array of `n` ticks -/
def FLR.Inside (lr : FLR) (n : Nat) : Prop := lr.start ≤ lr.end_ ∧ lr.end_ < n

theorem sliceMax_ok {u : List Int} {a b : Nat} (h1 : a < b) (h2 : a < u.length) : ∃ m, sliceMax u a b = .ok m := by
  unfold sliceMax
  have hmem : (u[a], a) ∈ u.zipIdx.filter fun p => decide (a ≤ p.2 ∧ p.2 < b) := by
    simp only [List.mem_filter, decide_eq_true_eq]
    refine ⟨?_, Nat.le_refl _, h1⟩
    rw [List.mem_iff_getElem]
    exact ⟨a, by simpa using h2, by simp⟩
  cases hl : (u.zipIdx.filter fun p => decide (a ≤ p.2 ∧ p.2 < b)).map (·.1) with
  | nil =>
    have := List.mem_map_of_mem (f := (·.1)) hmem
    rw [hl] at this; simp at this
  | cons x xs => exact ⟨_, rfl⟩

theorem addTicks_ok' {u : List Int} {lr : FLR} (v : Int) (h : lr.Inside u.length) : ∃ u', addTicks u lr v = .ok u' := by
  unfold addTicks
  have : ¬ (lr.start ≤ lr.end_ ∧ lr.end_ ≥ u.length) := by have := h.2; omega
  simp [this]

theorem evict_ok {st : FS} {lr : FLR} (r : Bool) (h : lr.Inside st.maxU.length) : ∃ st', st.evict lr r = .ok st' := by
  obtain ⟨m, hm⟩ := addTicks_ok' (-(lr.size : Int)) h
  unfold FS.evict evictUsage
  simp only [hm, bind, Except.bind]
  exact ⟨_, rfl⟩

theorem keep_ok {st : FS} {lr : FLR} (h : lr.Inside st.baseU.length) : ∃ st', st.keep lr = .ok st' := by
  obtain ⟨m, hm⟩ := addTicks_ok' (lr.size : Int) h
  unfold FS.keep keepUsage
  simp only [hm, bind, Except.bind]
  exact ⟨_, rfl⟩

theorem evict_len {st st' : FS} {lr : FLR} {r : Bool} (h : st.evict lr r = .ok st') :
    st'.maxU.length = st.maxU.length ∧ st'.baseU = st.baseU := by
  unfold FS.evict at h
  obtain ⟨m, hm, h⟩ := bind_ok h
  simp only [Except.ok.injEq] at h; subst h
  exact ⟨(addTicks_ok hm).1, rfl⟩

theorem keep_len {st st' : FS} {lr : FLR} (h : st.keep lr = .ok st') :
    st'.baseU.length = st.baseU.length ∧ st'.maxU = st.maxU := by
  unfold FS.keep at h
  obtain ⟨m, hm, h⟩ := bind_ok h
  simp only [Except.ok.injEq] at h; subst h
  exact ⟨(addTicks_ok hm).1, rfl⟩

theorem neverFit_ok (limit : Int) (n : Nat) : ∀ (input : List FLR) (st : FS) (rem : List FLR),
    (∀ lr ∈ input, lr.Inside n) → st.maxU.length = n → st.baseU.length = n →
    ∃ r, neverFitPhase limit input st rem = .ok r := by
  intro input
  induction input with
  | nil => intro st rem _ _ _; exact ⟨_, rfl⟩
  | cons lr rest ih =>
    intro st rem hin hm hb
    have hlr := hin lr (by simp)
    obtain ⟨bu, hs⟩ := sliceMax_ok (u := st.baseU) (a := lr.start) (b := lr.end_ + 1) (by have := hlr.1; omega) (by have := hlr; unfold FLR.Inside at this; omega)
    unfold neverFitPhase
    simp only [hs, bind, Except.bind]
    split
    · obtain ⟨st1, he⟩ := evict_ok (st := st) false (by rw [hm]; exact hlr)
      simp only [he]
      obtain ⟨h1, h2⟩ := evict_len he
      exact ih _ rem (fun x hx => hin x (by simp [hx])) (by simp only; omega) (by simp only; rw [h2]; exact hb)
    · exact ih st _ (fun x hx => hin x (by simp [hx])) hm hb

theorem alwaysFit_ok (limit : Int) (n : Nat) : ∀ (input : List FLR) (st : FS) (comp : List FLR),
    (∀ lr ∈ input, lr.Inside n) → st.maxU.length = n → st.baseU.length = n →
    ∃ r, alwaysFitPhase limit input st comp = .ok r := by
  intro input
  induction input with
  | nil => intro st comp _ _ _; exact ⟨_, rfl⟩
  | cons lr rest ih =>
    intro st comp hin hm hb
    have hlr := hin lr (by simp)
    obtain ⟨mu, hs⟩ := sliceMax_ok (u := st.maxU) (a := lr.start) (b := lr.end_ + 1) (by have := hlr.1; omega) (by have := hlr; unfold FLR.Inside at this; omega)
    unfold alwaysFitPhase
    simp only [hs, bind, Except.bind]
    split
    · obtain ⟨st1, hk⟩ := keep_ok (st := st) (by rw [hb]; exact hlr)
      simp only [hk]
      obtain ⟨h1, h2⟩ := keep_len hk
      exact ih st1 comp (fun x hx => hin x (by simp [hx])) (by rw [h2]; exact hm) (by omega)
    · exact ih st _ (fun x hx => hin x (by simp [hx])) hm hb

theorem bind_eq_ok {α β : Type} {x : Except Err α} {f : α → Except Err β} {a : α} (h : x = .ok a) : (x >>= f) = f a := by
  subst h; rfl

theorem allocExh_ok (limit : Int) (n : Nat) : ∀ (rest : List FLR) (score : Int) (base mx : List Int) (curr : List Bool) (best : Exh),
    (∀ lr ∈ rest, lr.Inside n) → base.length = n → mx.length = n → ∃ best', allocExh limit rest score base mx curr best = .ok best' := by
  intro rest
  induction rest with
  | nil => intro score base mx curr best _ _ _; exact ⟨_, rfl⟩
  | cons lr rest ih =>
    intro score base mx curr best hin hb hm
    have hlr := hin lr (by simp)
    have hrest : ∀ x ∈ rest, x.Inside n := fun x hx => hin x (by simp [hx])
    obtain ⟨bmax, hs⟩ := sliceMax_ok (u := base) (a := lr.start) (b := lr.end_ + 1) (by have := hlr.1; omega) (by have := hlr; unfold FLR.Inside at this; omega)
    obtain ⟨mmax, hs2⟩ := sliceMax_ok (u := mx) (a := lr.start) (b := lr.end_ + 1) (by have := hlr.1; omega) (by have := hlr; unfold FLR.Inside at this; omega)
    obtain ⟨b', hk⟩ := addTicks_ok' (u := base) (lr.size : Int) (by rw [hb]; exact hlr)
    obtain ⟨m', he⟩ := addTicks_ok' (u := mx) (-(lr.size : Int)) (by rw [hm]; exact hlr)
    have hbl := (addTicks_ok hk).1
    have hml := (addTicks_ok he).1
    have hbest1 : ∃ best1, (if bmax + ↑lr.size ≤ limit then
          keepUsage base lr >>= fun baseU' => allocExh limit rest (score + ↑lr.score) baseU' mx (curr ++ [false]) best
        else Except.ok best) = Except.ok best1 := by
      split
      · obtain ⟨b1, h1⟩ := ih (score + lr.score) b' mx (curr ++ [false]) best hrest (by omega) hm
        exact ⟨b1, by rw [bind_eq_ok (show keepUsage base lr = .ok b' from hk)]; exact h1⟩
      · exact ⟨best, rfl⟩
    obtain ⟨best1, h1⟩ := hbest1
    unfold allocExh
    rw [bind_eq_ok hs, bind_eq_ok h1, bind_eq_ok hs2]
    split
    · obtain ⟨b2, h2⟩ := ih score base m' (curr ++ [true]) best1 hrest hb (by omega)
      exact ⟨b2, by rw [bind_eq_ok (show evictUsage mx lr = .ok m' from he)]; exact h2⟩
    · exact ⟨best1, rfl⟩

theorem decide_fold_ok (n : Nat) : ∀ (c : List FLR) (pat : List Bool) (st : FS),
    (∀ lr ∈ c, lr.Inside n) → st.maxU.length = n → st.baseU.length = n →
    ∃ st', (c.zip pat).foldlM (fun st p => if p.2 then st.evict p.1 true else st.keep p.1) st = .ok st' ∧
      st'.maxU.length = n ∧ st'.baseU.length = n := by
  intro c
  induction c with
  | nil => intro pat st _ hm hb; exact ⟨st, by simp [pure, Except.pure], hm, hb⟩
  | cons lr rest ih =>
    intro pat st hin hm hb
    cases pat with
    | nil => exact ⟨st, by simp [pure, Except.pure], hm, hb⟩
    | cons p pr =>
      have hlr := hin lr (by simp)
      have hrest : ∀ x ∈ rest, x.Inside n := fun x hx => hin x (by simp [hx])
      simp only [List.zip_cons_cons, List.foldlM_cons]
      cases p with
      | true =>
        obtain ⟨st1, he⟩ := evict_ok (st := st) true (by rw [hm]; exact hlr)
        obtain ⟨h1, h2⟩ := evict_len he
        obtain ⟨st', h', hl⟩ := ih pr st1 hrest (by omega) (by rw [h2]; exact hb)
        exact ⟨st', by simp only [↓reduceIte, he, bind, Except.bind]; exact h', hl⟩
      | false =>
        obtain ⟨st1, hk⟩ := keep_ok (st := st) (by rw [hb]; exact hlr)
        obtain ⟨h1, h2⟩ := keep_len hk
        obtain ⟨st', h', hl⟩ := ih pr st1 hrest (by rw [h2]; exact hm) (by omega)
        exact ⟨st', by simp only [Bool.false_eq_true, ↓reduceIte, hk, bind, Except.bind]; exact h', hl⟩

theorem allocateComponent_ok (limit : Int) (n : Nat) (c : List FLR) (st : FS)
    (hin : ∀ lr ∈ c, lr.Inside n) (hm : st.maxU.length = n) (hb : st.baseU.length = n) :
    ∃ st', allocateComponent limit st c = .ok st' ∧ st'.maxU.length = n ∧ st'.baseU.length = n := by
  obtain ⟨best, hbest⟩ := allocExh_ok limit n c 0 st.baseU st.maxU [] { bestScore := -1, evicted := c.map fun _ => false } hin hb hm
  obtain ⟨st', h', hl⟩ := decide_fold_ok n c best.evicted st hin hm hb
  exact ⟨st', by unfold allocateComponent; simp only [hbest, bind, Except.bind]; exact h', hl⟩

theorem components_fold_ok (limit : Int) (n : Nat) : ∀ (comps : List (List FLR)) (st : FS),
    (∀ c ∈ comps, ∀ lr ∈ c, lr.Inside n) → st.maxU.length = n → st.baseU.length = n →
    ∃ st', comps.foldlM (fun st c => allocateComponent limit st c) st = .ok st' := by
  intro comps
  induction comps with
  | nil => intro st _ _ _; exact ⟨st, by simp [pure, Except.pure]⟩
  | cons c rest ih =>
    intro st hin hm hb
    obtain ⟨st1, h1, hl⟩ := allocateComponent_ok limit n c st (hin c (by simp)) hm hb
    obtain ⟨st', h'⟩ := ih st1 (fun c' hc' => hin c' (by simp [hc'])) hl.1 hl.2
    exact ⟨st', by simp only [List.foldlM_cons, h1, bind, Except.bind]; exact h'⟩

theorem exists_min_end : ∀ (l : List FLR), l ≠ [] → ∃ m ∈ l, ∀ x ∈ l, m.end_ ≤ x.end_ := by
  intro l
  induction l with
  | nil => intro h; exact absurd rfl h
  | cons a r ih =>
    intro _
    cases r with
    | nil => exact ⟨a, by simp, by intro x hx; simp at hx; subst hx; exact Nat.le_refl _⟩
    | cons b r' =>
      obtain ⟨m, hm, hmin⟩ := ih (by simp)
      by_cases h : a.end_ ≤ m.end_
      · exact ⟨a, by simp, by
          intro x hx
          simp only [List.mem_cons] at hx
          rcases hx with rfl | hx
          · exact Nat.le_refl _
          · exact Nat.le_trans h (hmin x (by simpa using hx))⟩
      · exact ⟨m, by simp [hm], by
          intro x hx
          simp only [List.mem_cons] at hx
          rcases hx with rfl | hx
          · omega
          · exact hmin x (by simpa using hx)⟩

theorem longPhase_ok (n : Nat) (copy : List FLR) (hcopy : 0 < copy.length) :
    ∀ (zs : List (FLR × Nat)) (st : FS) (competing : List FLR),
      (∀ z ∈ zs, z.1.Inside n) → st.maxU.length = n → competing.length ≤ copy.length →
      ∃ r, longPhase copy zs st competing = .ok r := by
  intro zs
  induction zs with
  | nil => intro st competing _ _ _; exact ⟨_, rfl⟩
  | cons z rest ih =>
    intro st competing hin hm hc
    obtain ⟨lr, i⟩ := z
    have hrest : ∀ z ∈ rest, z.1.Inside n := fun z hz => hin z (by simp [hz])
    unfold longPhase
    split
    · simp only
      have hpos : min (i + maxItems) (competing.length - 1) < copy.length := by
        have : competing.length - 1 < copy.length := by omega
        exact Nat.lt_of_le_of_lt (Nat.min_le_right _ _) this
      have hsome : copy[min (i + maxItems) (competing.length - 1)]? = some copy[min (i + maxItems) (competing.length - 1)] := by
        simp [hpos]
      rw [hsome]
      simp only
      split
      · obtain ⟨st1, he⟩ := evict_ok (st := st) false (by rw [hm]; exact hin (lr, i) (by simp))
        obtain ⟨h1, _⟩ := evict_len he
        obtain ⟨r, hr⟩ := ih st1 (competing.filter (·.id != lr.id)) hrest (by omega)
          (Nat.le_trans (List.length_filter_le _ _) hc)
        exact ⟨r, by rw [bind_eq_ok he]; exact hr⟩
      · exact ih st competing hrest hm hc
    · exact ih st competing hrest hm hc

theorem longPhase_keeps_min (copy : List FLR) (m : FLR) (hmin : ∀ x ∈ copy, m.end_ ≤ x.end_) :
    ∀ (zs : List (FLR × Nat)) (st : FS) (competing : List FLR) (st' : FS) (comp' : List FLR),
      m ∈ competing → (∀ z ∈ zs, z.1.id = m.id → z.1 = m) →
      longPhase copy zs st competing = .ok (st', comp') → m ∈ comp' := by
  intro zs
  induction zs with
  | nil => intro st competing st' comp' hm _ h; simp [longPhase] at h; obtain ⟨_, rfl⟩ := h; exact hm
  | cons z rest ih =>
    intro st competing st' comp' hm hu h
    obtain ⟨lr, i⟩ := z
    have hu' : ∀ z ∈ rest, z.1.id = m.id → z.1 = m := fun z hz => hu z (by simp [hz])
    unfold longPhase at h
    split at h
    · simp only at h
      split at h
      · simp at h
      · next other ho =>
        split at h
        · next hgt =>
          obtain ⟨st1, he, h⟩ := bind_ok h
          refine ih st1 _ st' comp' ?_ hu' h
          have hoc : other ∈ copy := List.mem_of_getElem? ho
          have hne : lr.id ≠ m.id := by
            intro hid
            have := hu (lr, i) (by simp) hid
            simp only at this
            subst this
            have := hmin other hoc
            unfold maxLifeRange at hgt
            omega
          simp only [List.mem_filter, hm, true_and]
          simpa using fun e => hne e.symm
        · exact ih st competing st' comp' hm hu' h
    · exact ih st competing st' comp' hm hu' h



theorem fastComponents_ok (limit : Int) (fixed : List Int) (st3 : FS) (competing3 : List FLR)
    (hg : GInv limit fixed st3 competing3) (hne : competing3 ≠ []) (hin : ∀ lr ∈ competing3, lr.Inside fixed.length) :
    ∃ r, fastComponents limit fixed st3 competing3 = .ok r ∧ r.st.evicted.length ≥ 0 := by
  cases hc3 : competing3 with
  | nil => exact absurd hc3 hne
  | cons first tl =>
    have hcomp : ∀ c ∈ components (first :: tl) [] first.end_, ∀ lr ∈ c, lr.Inside fixed.length := by
      intro c hc lr hlr
      have : lr ∈ (components (first :: tl) [] first.end_).flatten := List.mem_flatten.mpr ⟨c, hc, hlr⟩
      rw [components_flatten] at this
      exact hin lr (by rw [hc3]; simpa using this)
    obtain ⟨st4, h4⟩ := components_fold_ok limit fixed.length _ st3 hcomp hg.lenM hg.lenB
    have hno := fastComponents_no_assert limit fixed st3 competing3 hg
    rw [hc3] at hno
    unfold fastComponents at hno ⊢
    simp only [h4, bind, Except.bind] at hno ⊢
    split
    · exact ⟨_, rfl, Nat.zero_le _⟩
    · next hfalse => simp [hfalse] at hno

/-- **total correctness**: on ranges that were marked and lie inside the usage array, `use_fast_storage_for_feature_maps`
    returns normally -/
theorem useFastStorage_total (lrs : List FLR) (ct : Nat) (limit : Int)
    (hids : (lrs.map (·.id)).Nodup) (hend : ∀ lr ∈ lrs, lr.end_ ≤ ct + 2)
    (hin : ∀ lr ∈ lrs, lr.scratched = true → lr.Inside (ct + 2)) :
    ∃ r, useFastStorage lrs ct limit = .ok r := by
  -- the usage of all ranges
  have hT : ∃ maxU, temporalUsage (lrs.map (·.tlr)) ct = .ok maxU ∧ maxU.length = ct + 2 := by
    unfold temporalUsage
    have gen : ∀ (l : List FLR) (u : List Int), (∀ lr ∈ l, lr.end_ ≤ ct + 2) → u.length = ct + 2 →
        ∃ u', (l.map (·.tlr)).foldlM (fun u lr => if lr.inArea then (if lr.stop > ct + 3 then Except.error Err.assert_
          else Except.ok ((addRange u lr.start lr.stop lr.size).map wrap32)) else Except.ok u) u = Except.ok u' ∧ u'.length = ct + 2 := by
      intro l
      induction l with
      | nil => intro u _ hu; exact ⟨u, by simp [pure, Except.pure], hu⟩
      | cons a r ih =>
        intro u he hu
        simp only [List.map_cons, List.foldlM_cons]
        have ha := he a (by simp)
        by_cases hia : a.inArea
        · have : ¬ (a.tlr.stop > ct + 3) := by simp [FLR.tlr]; omega
          simp only [FLR.tlr] at this
          simp only [FLR.tlr, hia, ↓reduceIte, this, bind, Except.bind]
          exact ih _ (fun x hx => he x (by simp [hx])) (by simp [addRange_length, hu])
        · simp only [FLR.tlr, hia, Bool.false_eq_true, ↓reduceIte, bind, Except.bind]
          exact ih u (fun x hx => he x (by simp [hx])) hu
    exact gen lrs _ hend (by simp)
  obtain ⟨maxU, hT, hlen⟩ := hT
  have hu := uniqueIds_of_nodup hids
  have hsub : ∀ lr ∈ lrs.filter (·.scratched), lr ∈ lrs := fun lr hlr => (List.mem_filter.mp hlr).1
  have hins : ∀ lr ∈ lrs.filter (·.scratched), lr.Inside (ct + 2) := fun lr hlr => hin lr (hsub lr hlr) (by simpa using (List.mem_filter.mp hlr).2)
  unfold useFastStorage
  simp only [hT, bind, Except.bind]
  split
  · exact ⟨_, rfl⟩
  · generalize hbase : (lrs.filter (·.scratched)).foldl (fun u lr => addRange u lr.start (lr.end_ + 1) (-(lr.size : Int))) maxU = baseU
    have hlenB : baseU.length = maxU.length := by rw [← hbase]; exact (fold_sub _ maxU 0 (by omega)).2
    have hi0 : FInv lrs maxU { baseU := baseU, maxU := maxU, evicted := [], kept := [], evictedFms := [] } :=
      ⟨rfl, hlenB, by intro t _; simp [evSum]⟩
    have hp0 : PInv (lrs.filter (·.scratched)) { baseU := baseU, maxU := maxU, evicted := [], kept := [], evictedFms := [] } ([] ++ lrs.filter (·.scratched)) := by
      refine ⟨?_, by intro id hid; simp at hid, by intro lr hlr; simpa using hlr⟩
      simp only [List.nil_append]
      exact hids.sublist ((List.filter_sublist).map _)
    have hg0 : GInv limit baseU { baseU := baseU, maxU := maxU, evicted := [], kept := [], evictedFms := [] } ([] ++ lrs.filter (·.scratched)) := by
      refine ⟨hlenB.symm, rfl, ?_, fun _ _ => Or.inr rfl⟩
      intro t ht
      simp only [List.nil_append]
      have := (fold_sub (lrs.filter (·.scratched)) maxU t (by omega)).1
      rw [hbase] at this
      omega
    have hnB : baseU.length = ct + 2 := by omega
    obtain ⟨r1, h1⟩ := neverFit_ok limit (ct + 2) (lrs.filter (·.scratched)) { baseU := baseU, maxU := maxU, evicted := [], kept := [], evictedFms := [] } [] hins hlen hnB
    obtain ⟨st1, curr1⟩ := r1
    simp only [h1]
    obtain ⟨hi1, hp1, _, _, _, _⟩ := neverFit_spec lrs _ maxU limit hu hsub _ _ [] st1 curr1 hi0 hp0 h1
    have hg1 := neverFit_g limit baseU _ _ [] st1 curr1 hg0 h1
    have hin1 : ∀ lr ∈ curr1, lr.Inside (ct + 2) := fun lr hlr => hins lr (hp1.poolIn lr hlr)
    obtain ⟨r2, h2⟩ := alwaysFit_ok limit (ct + 2) curr1 st1 [] hin1 (by rw [hi1.lenM]; exact hlen) (by rw [hi1.lenB]; exact hlen)
    obtain ⟨st2, competing⟩ := r2
    simp only [h2]
    obtain ⟨hi2, hp2, _, _, _, _⟩ := alwaysFit_spec lrs _ maxU limit curr1 st1 [] st2 competing hi1 (by simpa using hp1) h2
    have hg2 := alwaysFit_g limit baseU curr1 st1 [] st2 competing (by simpa using hg1) h2
    split
    · exact ⟨_, rfl⟩
    · next hnonempty =>
      have hps : PInv (lrs.filter (·.scratched)) st2 (sortFlr competing) := by
        refine ⟨?_, hp2.evIn, fun lr hlr => hp2.poolIn lr ((sortFlr_perm _).mem_iff.mp hlr)⟩
        exact ((List.Perm.append_left _ ((sortFlr_perm competing).map _)).nodup_iff).mpr hp2.nodup
      have hgs : GInv limit baseU st2 (sortFlr competing) := hg2.perm (sortFlr_perm competing).symm
      have hins2 : ∀ lr ∈ sortFlr competing, lr.Inside (ct + 2) := fun lr hlr => hins lr (hps.poolIn lr hlr)
      have hsne : sortFlr competing ≠ [] := by
        intro he
        have := (sortFlr_perm competing).length_eq
        rw [he] at this
        have : competing = [] := List.eq_nil_of_length_eq_zero this.symm
        simp [this] at hnonempty
      have hbfix : baseU.length = ct + 2 := hnB
      split
      · obtain ⟨r3, h3⟩ := longPhase_ok (ct + 2) (sortFlr competing) (List.length_pos_iff.mpr hsne) (sortFlr competing).zipIdx st2 (sortFlr competing)
          (by intro z hz; exact hins2 z.1 ((List.mem_zipIdx hz).2.2 ▸ List.getElem_mem _)) (by rw [hi2.lenM]; exact hlen) (Nat.le_refl _)
        obtain ⟨st3, competing3⟩ := r3
        simp only [h3]
        have hz : ∀ z ∈ (sortFlr competing).zipIdx, z.1 ∈ sortFlr competing := by
          intro z hz; exact (List.mem_zipIdx hz).2.2 ▸ List.getElem_mem _
        have hn : ((sortFlr competing).zipIdx.map (fun z => z.1.id)).Nodup := by
          have e : (fun z : FLR × Nat => z.1.id) = (fun lr : FLR => lr.id) ∘ Prod.fst := rfl
          rw [e, ← List.map_map, List.zipIdx_map_fst]
          exact (List.nodup_append.mp hps.nodup).2.1
        obtain ⟨_, hp3⟩ := longPhase_spec lrs _ maxU hu hsub _ _ st2 _ st3 competing3 hi2 hps hz hn h3
        have hg3 := longPhase_g lrs _ maxU limit baseU hu hsub _ _ st2 _ st3 competing3 hi2 hps hgs hz hn h3
        obtain ⟨m, hm, hmin⟩ := exists_min_end (sortFlr competing) hsne
        have hm3 : m ∈ competing3 := longPhase_keeps_min (sortFlr competing) m hmin _ st2 _ st3 competing3 hm (by
          intro z hz' hid
          exact hu z.1 (hsub _ (hps.poolIn _ (hz z hz'))) m (hsub _ (hps.poolIn _ hm)) hid) h3
        obtain ⟨r, hr, _⟩ := fastComponents_ok limit baseU st3 competing3 hg3 (by intro he; rw [he] at hm3; simp at hm3)
          (by intro lr hlr; rw [hbfix]; exact hins lr (hp3.poolIn lr hlr))
        exact ⟨r, hr⟩
      · obtain ⟨r, hr, _⟩ := fastComponents_ok limit baseU st2 (sortFlr competing) hgs hsne (by intro lr hlr; rw [hbfix]; exact hins2 lr hlr)
        exact ⟨r, hr⟩

end VelaVerif.SchedMem
