import VelaVerif.Lemmas.FloatExact
import Mathlib.Tactic.Positivity
import Mathlib.Algebra.Order.Field.Power
import Mathlib.Data.Rat.Cast.Order
/-! The rounding of `Spec/Requant.roundTo` over the rationals: relative error at most `2^-p`. -/
namespace VelaVerif.FloatExact
open VelaVerif.Requant (roundTo)

/-- the rational `m · 2^e` -/
def val (m : Nat) (e : Int) : ℚ := (m : ℚ) * (2 : ℚ) ^ e

theorem val_pos (m : Nat) (e : Int) (h : 0 < m) : 0 < val m e := by
  unfold val
  have : (0 : ℚ) < m := by exact_mod_cast h
  positivity

theorem two_zpow_split (a : Int) (b : Nat) : (2 : ℚ) ^ (a + (b : Int)) = (2 : ℚ) ^ a * (2 : ℚ) ^ b := by
  rw [zpow_add₀ (by norm_num : (2 : ℚ) ≠ 0), zpow_natCast]

/-- `roundTo` over ℚ: with `R` the result and `X = num / den · 2^e` the exact value, `R·(1 − 2^-p) ≤ X ≤ R·(1 + 2^-p)` -/
theorem roundTo_rat (p num den : Nat) (e : Int) (m : Nat) (e' : Int) (hp : 0 < p)
    (h : roundTo p num den e = some (m, e')) :
    2 ^ (p - 1) ≤ m ∧ m < 2 ^ p ∧
    val m e' * (1 - (1 / 2 : ℚ) ^ p) ≤ (num : ℚ) / den * (2 : ℚ) ^ e ∧
    (num : ℚ) / den * (2 : ℚ) ^ e ≤ val m e' * (1 + (1 / 2 : ℚ) ^ p) := by
  obtain ⟨hlo, hhi, up, dr, he', hdr, hle, hge⟩ := roundTo_spec p num den e m e' hp h
  refine ⟨hlo, hhi, ?_⟩
  have hden : den ≠ 0 := by
    intro hh
    unfold roundTo at h
    rw [if_pos (Or.inr (Or.inl hh))] at h
    cases h
  have hdq : (0 : ℚ) < den := by exact_mod_cast Nat.pos_of_ne_zero hden
  -- K = 2^(e - up): common factor
  set K : ℚ := (2 : ℚ) ^ (e - (up : Int)) with hK
  have hKpos : 0 < K := by positivity
  have hval : val m e' = (m : ℚ) * (2 : ℚ) ^ dr * K := by
    unfold val
    rw [he', two_zpow_split]; ring
  have hX : (num : ℚ) / den * (2 : ℚ) ^ e = (num : ℚ) * (2 : ℚ) ^ up / den * K := by
    have : (2 : ℚ) ^ e = K * (2 : ℚ) ^ up := by
      rw [hK, ← two_zpow_split]; congr 1; omega
    rw [this]; ring
  -- the integer inequalities over ℚ
  have hle' : (m : ℚ) * (2 : ℚ) ^ dr * den ≤ (num : ℚ) * (2 : ℚ) ^ up + (2 : ℚ) ^ (dr - 1) * den := by exact_mod_cast hle
  have hge' : (num : ℚ) * (2 : ℚ) ^ up ≤ (m : ℚ) * (2 : ℚ) ^ dr * den + (2 : ℚ) ^ (dr - 1) * den := by exact_mod_cast hge
  -- half an ulp is at most 2^-p of the result: 2^(dr-1) ≤ m·2^dr·2^-p since m ≥ 2^(p-1)
  have hulp : (2 : ℚ) ^ (dr - 1) ≤ (m : ℚ) * (2 : ℚ) ^ dr * (1 / 2 : ℚ) ^ p := by
    have hm : ((2 : ℚ) ^ (p - 1)) ≤ (m : ℚ) := by exact_mod_cast hlo
    have e1 : (2 : ℚ) ^ dr = 2 * (2 : ℚ) ^ (dr - 1) := by
      rw [← pow_succ']; congr 1; omega
    have e2 : (2 : ℚ) ^ (p - 1) * (1 / 2 : ℚ) ^ p = 1 / 2 := by
      have : (1 / 2 : ℚ) ^ p = (1 / 2 : ℚ) ^ (p - 1) * (1 / 2) := by
        rw [← pow_succ]; congr 1; omega
      rw [this, ← mul_assoc, ← mul_pow]; norm_num
    have hpos : (0 : ℚ) < (2 : ℚ) ^ (dr - 1) := by positivity
    have hpp : (0 : ℚ) < (1 / 2 : ℚ) ^ p := by positivity
    calc (2 : ℚ) ^ (dr - 1) = (2 : ℚ) ^ (p - 1) * (1 / 2 : ℚ) ^ p * (2 * (2 : ℚ) ^ (dr - 1)) := by rw [e2]; ring
      _ ≤ (m : ℚ) * (1 / 2 : ℚ) ^ p * (2 * (2 : ℚ) ^ (dr - 1)) := by
          apply mul_le_mul_of_nonneg_right _ (by positivity)
          exact mul_le_mul_of_nonneg_right hm (le_of_lt hpp)
      _ = (m : ℚ) * (2 : ℚ) ^ dr * (1 / 2 : ℚ) ^ p := by rw [e1]; ring
  rw [hval, hX]
  have hA : (num : ℚ) * (2 : ℚ) ^ up / den = ((num : ℚ) * (2 : ℚ) ^ up) * (1 / den) := by ring
  constructor
  · -- R(1-u) ≤ X  ⇐  m·2^dr·den − 2^(dr−1)·den ≤ num·2^up
    have : (m : ℚ) * (2 : ℚ) ^ dr * (1 - (1 / 2 : ℚ) ^ p) ≤ (num : ℚ) * (2 : ℚ) ^ up / den := by
      rw [le_div_iff₀ hdq]
      nlinarith [hle', hulp, hdq]
    calc (m : ℚ) * (2 : ℚ) ^ dr * K * (1 - (1 / 2 : ℚ) ^ p) = (m : ℚ) * (2 : ℚ) ^ dr * (1 - (1 / 2 : ℚ) ^ p) * K := by ring
      _ ≤ (num : ℚ) * (2 : ℚ) ^ up / den * K := mul_le_mul_of_nonneg_right this (le_of_lt hKpos)
  · have : (num : ℚ) * (2 : ℚ) ^ up / den ≤ (m : ℚ) * (2 : ℚ) ^ dr * (1 + (1 / 2 : ℚ) ^ p) := by
      rw [div_le_iff₀ hdq]
      nlinarith [hge', hulp, hdq]
    calc (num : ℚ) * (2 : ℚ) ^ up / den * K ≤ (m : ℚ) * (2 : ℚ) ^ dr * (1 + (1 / 2 : ℚ) ^ p) * K :=
          mul_le_mul_of_nonneg_right this (le_of_lt hKpos)
      _ = (m : ℚ) * (2 : ℚ) ^ dr * K * (1 + (1 / 2 : ℚ) ^ p) := by ring

end VelaVerif.FloatExact

namespace VelaVerif.FloatExact
open VelaVerif.Requant (roundTo)

theorem two_zpow_shift (e : Int) (k : Nat) : (2 : ℚ) ^ e = (2 : ℚ) ^ (e - (k : Int)) * (2 : ℚ) ^ k := by
  rw [← two_zpow_split]; congr 1; omega

/-- encoding a value of at most 53 significant bits in the normal range and decoding the pattern gives the same value -/
theorem f64_roundtrip (neg : Bool) (m : Nat) (e : Int) (bits : Nat) (hm0 : m ≠ 0) (hm : m < 2 ^ 53)
    (h : f64Encode ⟨neg, m, e⟩ = some bits) :
    ∃ m' e', f64Decode bits = some ⟨neg, m', e'⟩ ∧ m' ≠ 0 ∧ val m' e' = val m e := by
  unfold f64Encode at h
  simp only [hm0, ↓reduceIte] at h
  obtain ⟨hl1, hl2⟩ := log2_bounds m hm0
  have hl : m.log2 ≤ 52 := by
    have : m.log2 < 53 := (Nat.log2_lt hm0).mpr hm
    omega
  simp only [hl, ↓reduceIte] at h
  generalize hL : m.log2 = l at *
  -- the 53-bit mantissa
  have hm53lo : 2 ^ 52 ≤ m * 2 ^ (52 - l) := by
    calc 2 ^ 52 = 2 ^ l * 2 ^ (52 - l) := by rw [← Nat.pow_add]; congr 1; omega
      _ ≤ m * 2 ^ (52 - l) := Nat.mul_le_mul_right _ hl1
  have hm53hi : m * 2 ^ (52 - l) < 2 ^ 53 := by
    calc m * 2 ^ (52 - l) < 2 ^ (l + 1) * 2 ^ (52 - l) := Nat.mul_lt_mul_of_pos_right hl2 (Nat.pow_pos (by omega))
      _ = 2 ^ 53 := by rw [← Nat.pow_add]; congr 1; omega
  generalize hM : m * 2 ^ (52 - l) = M at *
  split at h
  · cases h
  · rename_i hb
    have hb1 : 1 ≤ e - ((52 - l : Nat) : Int) + 1075 := by omega
    have hb2 : e - ((52 - l : Nat) : Int) + 1075 ≤ 2046 := by omega
    generalize hB : (e - ((52 - l : Nat) : Int) + 1075).toNat = B at *
    have hBv : (B : Int) = e - ((52 - l : Nat) : Int) + 1075 := by rw [← hB]; exact Int.toNat_of_nonneg (by omega)
    have hB1 : 1 ≤ B := by omega
    have hB2 : B ≤ 2046 := by omega
    injection h with h
    refine ⟨M, e - ((52 - l : Nat) : Int), ?_, by omega, ?_⟩
    · unfold f64Decode
      have hbits : bits = (if neg = true then 2 ^ 63 else 0) + B * 2 ^ 52 + (M - 2 ^ 52) := h.symm
      have hfr : M - 2 ^ 52 < 2 ^ 52 := by omega
      cases neg with
      | false =>
        simp only [Bool.false_eq_true, ↓reduceIte, Nat.zero_add] at hbits
        have h1 : bits / 2 ^ 63 % 2 = 0 := by rw [hbits]; omega
        have h2 : bits / 2 ^ 52 % 2048 = B := by rw [hbits]; omega
        have h3 : bits % 2 ^ 52 = M - 2 ^ 52 := by rw [hbits]; omega
        have h4 : ¬ (bits ≥ 2 ^ 64 ∨ B = 2047) := by rw [hbits]; omega
        simp only [h1, h2, h3]
        rw [if_neg h4, if_neg (by omega : ¬ B = 0)]
        simp only [Option.some.injEq, Val.mk.injEq]
        refine ⟨by decide, by omega, by omega⟩
      | true =>
        simp only [↓reduceIte] at hbits
        have h1 : bits / 2 ^ 63 % 2 = 1 := by rw [hbits]; omega
        have h2 : bits / 2 ^ 52 % 2048 = B := by rw [hbits]; omega
        have h3 : bits % 2 ^ 52 = M - 2 ^ 52 := by rw [hbits]; omega
        have h4 : ¬ (bits ≥ 2 ^ 64 ∨ B = 2047) := by rw [hbits]; omega
        simp only [h1, h2, h3]
        rw [if_neg h4, if_neg (by omega : ¬ B = 0)]
        simp only [Option.some.injEq, Val.mk.injEq]
        refine ⟨by decide, by omega, by omega⟩
    · unfold val
      rw [← hM]
      push_cast
      rw [two_zpow_shift e (52 - l)]; ring

end VelaVerif.FloatExact

namespace VelaVerif.FloatExact
open VelaVerif.Requant (roundTo)

theorem roundTo_some (p num den : Nat) (e : Int) (hn : num ≠ 0) (hd : den ≠ 0) (hp : p ≠ 0) :
    ∃ m e', roundTo p num den e = some (m, e') := by
  have hnz : ¬(num = 0 ∨ den = 0 ∨ p = 0) := by
    rintro (h | h | h) <;> contradiction
  rw [roundTo_eq p num den e hnz]
  split <;> exact ⟨_, _, rfl⟩

/-- a two-sided relative bound as a factor -/
theorem rel_factor (R X u : ℚ) (hR : 0 < R) (h1 : R * (1 - u) ≤ X) (h2 : X ≤ R * (1 + u)) :
    ∃ x, 1 - u ≤ x ∧ x ≤ 1 + u ∧ X = R * x := by
  refine ⟨X / R, ?_, ?_, ?_⟩
  · rw [le_div_iff₀ hR]; linarith
  · rw [div_le_iff₀ hR]; linarith
  · rw [mul_div_cancel₀ X (ne_of_gt hR)]

/-- weakening the precision of a relative bound -/
theorem rel_weaken (R X : ℚ) (p : Nat) (hR : 0 < R) (hp : 24 ≤ p)
    (h1 : R * (1 - (1 / 2 : ℚ) ^ p) ≤ X) (h2 : X ≤ R * (1 + (1 / 2 : ℚ) ^ p)) :
    R * (1 - 1 / 16777216) ≤ X ∧ X ≤ R * (1 + 1 / 16777216) := by
  have hu : (1 / 2 : ℚ) ^ p ≤ 1 / 16777216 := by
    have : (1 / 2 : ℚ) ^ p ≤ (1 / 2 : ℚ) ^ 24 := pow_le_pow_of_le_one (by norm_num) (by norm_num) hp
    calc (1 / 2 : ℚ) ^ p ≤ (1 / 2 : ℚ) ^ 24 := this
      _ = 1 / 16777216 := by norm_num
  constructor
  · nlinarith [hu, hR]
  · nlinarith [hu, hR]

/-- the integer part of `m·2^e` as `qdiv` computes it -/
theorem floor_val (m : Nat) (e : Int) (n : Nat) (h1 : (n : ℚ) ≤ val m e) (h2 : val m e < (n : ℚ) + 1) :
    (if e ≥ 0 then m * 2 ^ e.toNat else m / 2 ^ (-e).toNat) = n := by
  by_cases he : e ≥ 0
  · rw [if_pos he]
    have hv : val m e = ((m * 2 ^ e.toNat : Nat) : ℚ) := by
      unfold val
      have : e = (e.toNat : Int) := (Int.toNat_of_nonneg he).symm
      rw [this, zpow_natCast]; push_cast
      rw [Int.toNat_natCast]
    rw [hv] at h1 h2
    have h1' : n ≤ m * 2 ^ e.toNat := by exact_mod_cast h1
    have h2' : m * 2 ^ e.toNat < n + 1 := by exact_mod_cast h2
    omega
  · rw [if_neg he]
    have hk : (-e) = ((-e).toNat : Int) := (Int.toNat_of_nonneg (by omega)).symm
    have hpos : (0 : ℚ) < (2 : ℚ) ^ (-e).toNat := by positivity
    have hv : val m e = (m : ℚ) / (2 : ℚ) ^ (-e).toNat := by
      unfold val
      have : e = -((-e).toNat : Int) := by omega
      rw [this, zpow_neg, zpow_natCast]
      simp only [neg_neg, Int.toNat_natCast]
      rw [div_eq_mul_inv]
    rw [hv] at h1 h2
    rw [le_div_iff₀ hpos] at h1
    rw [div_lt_iff₀ hpos] at h2
    have h1' : n * 2 ^ (-e).toNat ≤ m := by exact_mod_cast h1
    have h2' : m < (n + 1) * 2 ^ (-e).toNat := by exact_mod_cast h2
    have hp : 0 < 2 ^ (-e).toNat := Nat.pow_pos (by omega)
    apply Nat.le_antisymm
    · exact Nat.lt_succ_iff.mp ((Nat.div_lt_iff_lt_mul hp).mpr h2')
    · exact (Nat.le_div_iff_mul_le hp).mpr h1'

end VelaVerif.FloatExact

namespace VelaVerif.FloatExact

/-- The error analysis of `quantise(s·n, s)`: five roundings of relative error `u = 2^-24` — the product `s·n`, its
    conversion to float32, the conversion of `s`, the quotient, the addition of 1/2 — leave the integer part at `n`
    for `1 ≤ n ≤ 2^18`. -/
theorem core_bound (S Pv A B Q V : ℚ) (n : Nat)
    (hPv : 0 < Pv) (hA : 0 < A) (hB : 0 < B) (hQ : 0 < Q) (hn : n ≤ 2 ^ 18)
    (h1 : Pv * (1 - 1 / 16777216) ≤ S * n ∧ S * n ≤ Pv * (1 + 1 / 16777216))
    (h2 : A * (1 - 1 / 16777216) ≤ Pv ∧ Pv ≤ A * (1 + 1 / 16777216))
    (h3 : B * (1 - 1 / 16777216) ≤ S ∧ S ≤ B * (1 + 1 / 16777216))
    (h4 : Q * (1 - 1 / 16777216) ≤ A / B ∧ A / B ≤ Q * (1 + 1 / 16777216))
    (h5 : V * (1 - 1 / 16777216) ≤ Q + 1 / 2 ∧ Q + 1 / 2 ≤ V * (1 + 1 / 16777216)) :
    (n : ℚ) ≤ V ∧ V < (n : ℚ) + 1 := by
  obtain ⟨x1, l1, u1, e1⟩ := rel_factor Pv (S * n) _ hPv h1.1 h1.2
  obtain ⟨x2, l2, u2, e2⟩ := rel_factor A Pv _ hA h2.1 h2.2
  obtain ⟨x3, l3, u3, e3⟩ := rel_factor B S _ hB h3.1 h3.2
  obtain ⟨x4, l4, u4, e4⟩ := rel_factor Q (A / B) _ hQ h4.1 h4.2
  have hnq : (n : ℚ) ≤ 262144 := by
    have : (n : ℚ) ≤ ((2 ^ 18 : Nat) : ℚ) := by exact_mod_cast hn
    simpa using this
  have hn0 : (0 : ℚ) ≤ n := Nat.cast_nonneg n
  -- Q·x4·x2·x1 = n·x3
  have hAB : A = B * (Q * x4) := by
    have : A / B * B = A := div_mul_cancel₀ A (ne_of_gt hB)
    rw [e4] at this; linarith [this]
  have hkey : Q * (x4 * x2 * x1) = n * x3 := by
    have h : B * (Q * (x4 * x2 * x1)) = B * (n * x3) := by
      calc B * (Q * (x4 * x2 * x1)) = (B * (Q * x4)) * x2 * x1 := by ring
        _ = A * x2 * x1 := by rw [← hAB]
        _ = Pv * x1 := by rw [← e2]
        _ = S * n := by rw [← e1]
        _ = B * (n * x3) := by rw [e3]; ring
    exact mul_left_cancel₀ (ne_of_gt hB) h
  -- bounds on the product of the three factors
  have hc : (0 : ℚ) ≤ 1 - 1 / 16777216 := by norm_num
  have hw_lo : (1 - 1 / 16777216 : ℚ) * (1 - 1 / 16777216) * (1 - 1 / 16777216) ≤ x4 * x2 * x1 := by
    have a := mul_le_mul l4 l2 hc (le_trans hc l4)
    exact mul_le_mul a l1 hc (le_trans (mul_nonneg hc hc) a)
  have hw_hi : x4 * x2 * x1 ≤ (1 + 1 / 16777216 : ℚ) * (1 + 1 / 16777216) * (1 + 1 / 16777216) := by
    have p4 : 0 ≤ x4 := le_trans hc l4
    have p2 : 0 ≤ x2 := le_trans hc l2
    have p1 : 0 ≤ x1 := le_trans hc l1
    have a := mul_le_mul u4 u2 p2 (by norm_num : (0 : ℚ) ≤ 1 + 1 / 16777216)
    exact mul_le_mul a u1 p1 (by norm_num)
  have hQhi : Q * ((1 - 1 / 16777216 : ℚ) * (1 - 1 / 16777216) * (1 - 1 / 16777216)) ≤ n * (1 + 1 / 16777216) := by
    calc Q * ((1 - 1 / 16777216 : ℚ) * (1 - 1 / 16777216) * (1 - 1 / 16777216)) ≤ Q * (x4 * x2 * x1) :=
          mul_le_mul_of_nonneg_left hw_lo (le_of_lt hQ)
      _ = n * x3 := hkey
      _ ≤ n * (1 + 1 / 16777216) := mul_le_mul_of_nonneg_left u3 hn0
  have hQlo : (n : ℚ) * (1 - 1 / 16777216) ≤ Q * ((1 + 1 / 16777216 : ℚ) * (1 + 1 / 16777216) * (1 + 1 / 16777216)) := by
    calc (n : ℚ) * (1 - 1 / 16777216) ≤ n * x3 := mul_le_mul_of_nonneg_left l3 hn0
      _ = Q * (x4 * x2 * x1) := hkey.symm
      _ ≤ Q * ((1 + 1 / 16777216 : ℚ) * (1 + 1 / 16777216) * (1 + 1 / 16777216)) :=
          mul_le_mul_of_nonneg_left hw_hi (le_of_lt hQ)
  have hQ1 : Q ≤ n + 1 / 8 := by
    norm_num at hQhi ⊢
    linarith
  have hQ0 : (n : ℚ) - 1 / 8 ≤ Q := by
    norm_num at hQlo ⊢
    linarith
  constructor
  · by_contra hcon
    have hcon := not_le.mp hcon
    have := h5.2
    nlinarith [this, hcon, hQ0, hnq, hn0]
  · by_contra hcon
    have hcon := not_lt.mp hcon
    have := h5.1
    nlinarith [this, hcon, hQ1, hnq, hn0]

end VelaVerif.FloatExact

namespace VelaVerif.FloatExact
open VelaVerif.Requant (roundTo)

theorem toF32_eq (bits : Nat) (v : Val) (m : Nat) (e : Int) (hd : f64Decode bits = some v) (hm : v.m ≠ 0)
    (hr : roundTo 24 v.m 1 v.e = some (m, e)) : toF32 bits = some ⟨v.neg, m, e⟩ := by
  simp [toF32, roundP, hd, hm, hr]

theorem toF32_zero (bits : Nat) (v : Val) (hd : f64Decode bits = some v) (hm : v.m = 0) : toF32 bits = some v := by
  simp [toF32, roundP, hd, hm]

theorem val_div (ma mb : Nat) (ea eb : Int) (hb : mb ≠ 0) :
    (ma : ℚ) / mb * (2 : ℚ) ^ (ea - eb) = val ma ea / val mb eb := by
  unfold val
  have h2 : (2 : ℚ) ^ eb ≠ 0 := by positivity
  have hbq : (mb : ℚ) ≠ 0 := by exact_mod_cast hb
  rw [zpow_sub₀ (by norm_num : (2 : ℚ) ≠ 0), div_mul_div_comm]

/-- **Round trip**: multiplying the positive float `s` by the integer `q` (`|q| ≤ 2^18`) and quantising the product with
    `s` gives `q` back — whenever the product is representable (`mulInt` succeeds: normal range). -/
theorem qdiv_mulInt (sbits kind ik : Nat) (q : Int) (P : Nat) (vs : Val)
    (hs : f64Decode sbits = some vs) (hneg : vs.neg = false) (hm : vs.m ≠ 0)
    (hq : q.natAbs ≤ 2 ^ 18) (hmul : mulInt sbits kind ik q = some P) :
    qdiv P sbits = some q := by
  -- float32 of the scale
  obtain ⟨mb, eb, hrb⟩ := roundTo_some 24 vs.m 1 vs.e hm (by omega) (by omega)
  have hB := toF32_eq sbits vs mb eb hs hm hrb
  obtain ⟨hmb1, _, hb1, hb2⟩ := roundTo_rat 24 vs.m 1 vs.e mb eb (by omega) hrb
  have hmbne : mb ≠ 0 := by
    have : 0 < 2 ^ (24 - 1) := Nat.pow_pos (by omega)
    omega
  by_cases hq0 : q = 0
  · -- the product is 0
    subst hq0
    simp [mulInt, hs] at hmul
    subst hmul
    have hd0 : f64Decode 0 = some ⟨false, 0, -1074⟩ := by decide
    have hA := toF32_zero 0 _ hd0 rfl
    simp [qdiv, hA, hB, hmbne]
  · -- the product
    have hn0 : q.natAbs ≠ 0 := by omega
    simp only [mulInt, hs, Option.bind_eq_bind, Option.bind_some, hq0, hm, or_self, ↓reduceIte, roundP,
      Nat.mul_eq_zero, hn0] at hmul
    generalize hpp : (if mulKind kind ik = 1 then 24 else 53) = pp at hmul
    have hpp24 : 24 ≤ pp := by rw [← hpp]; split <;> omega
    have hpp53 : pp ≤ 53 := by rw [← hpp]; split <;> omega
    have hprod : vs.m * q.natAbs ≠ 0 := Nat.mul_ne_zero hm hn0
    obtain ⟨mP, eP, hrP⟩ := roundTo_some pp (vs.m * q.natAbs) 1 vs.e hprod (by omega) (by omega)
    obtain ⟨hmP1, hmP2, hp1, hp2⟩ := roundTo_rat pp (vs.m * q.natAbs) 1 vs.e mP eP (by omega) hrP
    have hmPne : mP ≠ 0 := by
      have : 0 < 2 ^ (pp - 1) := Nat.pow_pos (by omega)
      omega
    have hmP53 : mP < 2 ^ 53 := lt_of_lt_of_le hmP2 (Nat.pow_le_pow_right (by omega) hpp53)
    have henc : f64Encode ⟨vs.neg != decide (q < 0), mP, eP⟩ = some P := by
      simp only [hrP, Option.bind_some] at hmul
      exact hmul
    obtain ⟨m53, e53, hdP, hm53ne, hv53⟩ := f64_roundtrip _ mP eP P hmPne hmP53 henc
    obtain ⟨ma, ea, hra⟩ := roundTo_some 24 m53 1 e53 hm53ne (by omega) (by omega)
    have hA := toF32_eq P _ ma ea hdP hm53ne hra
    obtain ⟨hma1, _, ha1, ha2⟩ := roundTo_rat 24 m53 1 e53 ma ea (by omega) hra
    have hmane : ma ≠ 0 := by
      have : 0 < 2 ^ (24 - 1) := Nat.pow_pos (by omega)
      omega
    obtain ⟨m, e, hrq⟩ := roundTo_some 24 ma mb (ea - eb) hmane hmbne (by omega)
    obtain ⟨hm1, _, hq1, hq2⟩ := roundTo_rat 24 ma mb (ea - eb) m e (by omega) hrq
    have hmne : m ≠ 0 := by
      have : 0 < 2 ^ (24 - 1) := Nat.pow_pos (by omega)
      omega
    generalize hk : (if e < -1 then e else (-1 : Int)) = k
    have hk1 : k ≤ e := by rw [← hk]; split <;> omega
    have hk2 : k ≤ -1 := by rw [← hk]; split <;> omega
    generalize hnum : m * 2 ^ (e - k).toNat + 2 ^ (-1 - k).toNat = num
    have hnumne : num ≠ 0 := by
      have : 0 < 2 ^ (-1 - k).toNat := Nat.pow_pos (by omega)
      omega
    obtain ⟨m2, e2, hr2⟩ := roundTo_some 24 num 1 k hnumne (by omega) (by omega)
    obtain ⟨hm21, _, hv1, hv2⟩ := roundTo_rat 24 num 1 k m2 e2 (by omega) hr2
    have hm2ne : m2 ≠ 0 := by
      have : 0 < 2 ^ (24 - 1) := Nat.pow_pos (by omega)
      omega
    -- the rational values
    have hSval : ((vs.m * q.natAbs : Nat) : ℚ) / (1 : Nat) * (2 : ℚ) ^ vs.e = val vs.m vs.e * (q.natAbs : ℚ) := by
      unfold val; push_cast; ring
    have hS1 : ((vs.m : Nat) : ℚ) / (1 : Nat) * (2 : ℚ) ^ vs.e = val vs.m vs.e := by unfold val; push_cast; ring
    have hP1 : ((m53 : Nat) : ℚ) / (1 : Nat) * (2 : ℚ) ^ e53 = val mP eP := by rw [← hv53]; unfold val; push_cast; ring
    have hnumval : ((num : Nat) : ℚ) / (1 : Nat) * (2 : ℚ) ^ k = val m e + 1 / 2 := by
      rw [← hnum]; unfold val; push_cast
      have e1 : (2 : ℚ) ^ e = (2 : ℚ) ^ (e - k).toNat * (2 : ℚ) ^ k := by
        rw [← zpow_natCast, ← zpow_add₀ (by norm_num : (2 : ℚ) ≠ 0)]; congr 1
        rw [Int.toNat_of_nonneg (by omega)]; omega
      have e2' : (1 / 2 : ℚ) = (2 : ℚ) ^ (-1 - k).toNat * (2 : ℚ) ^ k := by
        rw [← zpow_natCast, ← zpow_add₀ (by norm_num : (2 : ℚ) ≠ 0), Int.toNat_of_nonneg (by omega)]
        have : (-1 - k + k) = -1 := by omega
        rw [this]; norm_num
      rw [e1, e2']; ring
    rw [hSval] at hp1 hp2
    rw [hS1] at hb1 hb2
    rw [hP1] at ha1 ha2
    rw [val_div ma mb ea eb hmbne] at hq1 hq2
    rw [hnumval] at hv1 hv2
    have posP := val_pos mP eP (Nat.pos_of_ne_zero hmPne)
    have posA := val_pos ma ea (Nat.pos_of_ne_zero hmane)
    have posB := val_pos mb eb (Nat.pos_of_ne_zero hmbne)
    have posQ := val_pos m e (Nat.pos_of_ne_zero hmne)
    have w1 := rel_weaken _ _ pp posP hpp24 hp1 hp2
    have w2 := rel_weaken _ _ 24 posA (le_refl _) ha1 ha2
    have w3 := rel_weaken _ _ 24 posB (le_refl _) hb1 hb2
    have w4 := rel_weaken _ _ 24 posQ (le_refl _) hq1 hq2
    have w5 := rel_weaken _ _ 24 (val_pos m2 e2 (Nat.pos_of_ne_zero hm2ne)) (le_refl _) hv1 hv2
    obtain ⟨hlo, hhi⟩ := core_bound (val vs.m vs.e) (val mP eP) (val ma ea) (val mb eb) (val m e) (val m2 e2) q.natAbs
      posP posA posB posQ hq w1 w2 w3 w4 w5
    have hmag := floor_val m2 e2 q.natAbs hlo hhi
    -- unfold `qdiv` along the computed values
    have hres : qdiv P sbits = some (if (vs.neg != decide (q < 0)) != vs.neg then -((q.natAbs : Nat) : Int) else ((q.natAbs : Nat) : Int)) := by
      simp only [qdiv, hA, hB, Option.bind_eq_bind, Option.bind_some, hmbne, hmane, ↓reduceIte, hrq, hk, hnum, hr2, hmag]
    rw [hres, hneg]
    by_cases hlt : q < 0
    · have : ((q.natAbs : Nat) : Int) = -q := Int.ofNat_natAbs_of_nonpos (le_of_lt hlt)
      simp [hlt, this]
    · have : ((q.natAbs : Nat) : Int) = q := Int.natAbs_of_nonneg (by omega)
      simp [hlt, this]

end VelaVerif.FloatExact

namespace VelaVerif.FloatExact
open VelaVerif.Requant (roundTo)

theorem log2_mul_pow (n k : Nat) (hn : n ≠ 0) : (n * 2 ^ k).log2 = n.log2 + k := by
  obtain ⟨h1, h2⟩ := log2_bounds n hn
  have hne : n * 2 ^ k ≠ 0 := Nat.mul_ne_zero hn (by have := Nat.pow_pos (n := k) (show 0 < 2 by omega); omega)
  have hlo : 2 ^ (n.log2 + k) ≤ n * 2 ^ k := by
    rw [Nat.pow_add]; exact Nat.mul_le_mul_right _ h1
  have hhi : n * 2 ^ k < 2 ^ (n.log2 + k + 1) := by
    have : 2 ^ (n.log2 + k + 1) = 2 ^ (n.log2 + 1) * 2 ^ k := by rw [← Nat.pow_add]; congr 1; omega
    rw [this]; exact Nat.mul_lt_mul_of_pos_right h2 (Nat.pow_pos (by omega))
  have a : n.log2 + k ≤ (n * 2 ^ k).log2 := (Nat.le_log2 hne).mpr hlo
  have b : (n * 2 ^ k).log2 < n.log2 + k + 1 := (Nat.log2_lt hne).mpr hhi
  omega

/-- exponent of the result of rounding an integer (`den = 1`): that of the operand, one more after a carry -/
theorem roundTo_exp (p num : Nat) (e : Int) (m : Nat) (e' : Int) (h : roundTo p num 1 e = some (m, e')) :
    e' = e + (num.log2 : Int) + 1 - (p : Int) ∨ e' = e + (num.log2 : Int) + 2 - (p : Int) := by
  have hnz : ¬(num = 0 ∨ 1 = 0 ∨ p = 0) := by
    intro hh
    unfold roundTo at h
    rw [if_pos hh] at h
    cases h
  have hnum : num ≠ 0 := fun hh => hnz (Or.inl hh)
  rw [roundTo_eq p num 1 e hnz] at h
  have hq : num * 2 ^ upOf p num 1 / 1 = num * 2 ^ upOf p num 1 := Nat.div_one _
  rw [hq] at h
  have hlog := log2_mul_pow num (upOf p num 1) hnum
  have hup : p + 3 ≤ num.log2 + upOf p num 1 := by
    unfold upOf
    have : Nat.log2 1 = 0 := by decide
    rw [this]
    split <;> omega
  have hdrop : (dropOf p (num * 2 ^ upOf p num 1) : Int) = (num.log2 : Int) + (upOf p num 1 : Int) + 1 - (p : Int) := by
    unfold dropOf
    rw [hlog]; omega
  split at h
  · injection h with h; injection h with _ h2
    right; rw [← h2, hdrop]; omega
  · injection h with h; injection h with _ h2
    left; rw [← h2, hdrop]; omega

/-- a positive normal binary64 pattern with biased exponent at most 2026 decodes to a 53-bit mantissa -/
theorem decode_normal (bits : Nat) (hpos : bits < 2 ^ 63) (hex : 1 ≤ bits / 2 ^ 52 % 2048 ∧ bits / 2 ^ 52 % 2048 ≤ 2026) :
    ∃ m e, f64Decode bits = some ⟨false, m, e⟩ ∧ 2 ^ 52 ≤ m ∧ m < 2 ^ 53 ∧ -1074 ≤ e ∧ e ≤ 951 := by
  unfold f64Decode
  have h1 : bits / 2 ^ 63 % 2 = 0 := by omega
  have h4 : ¬ (bits ≥ 2 ^ 64 ∨ bits / 2 ^ 52 % 2048 = 2047) := by omega
  simp only [h1]
  rw [if_neg h4, if_neg (by omega : ¬ bits / 2 ^ 52 % 2048 = 0)]
  refine ⟨bits % 2 ^ 52 + 2 ^ 52, ((bits / 2 ^ 52 % 2048 : Nat) : Int) - 1075, ?_, ?_, ?_, ?_, ?_⟩
  · simp
  · omega
  · omega
  · omega
  · omega

/-- the product of such a scale with an integer of magnitude at most `2^18` is representable -/
theorem mulInt_some (sbits kind ik : Nat) (q : Int) (m : Nat) (e : Int) (hs : f64Decode sbits = some ⟨false, m, e⟩)
    (hm1 : 2 ^ 52 ≤ m) (hm2 : m < 2 ^ 53) (he1 : -1074 ≤ e) (he2 : e ≤ 951) (hq : q.natAbs ≤ 2 ^ 18) :
    ∃ P, mulInt sbits kind ik q = some P := by
  by_cases hq0 : q = 0
  · exact ⟨0, by simp [mulInt, hs, hq0]⟩
  · have hn0 : q.natAbs ≠ 0 := by omega
    have hmne : m ≠ 0 := by omega
    simp only [mulInt, hs, Option.bind_eq_bind, Option.bind_some, hq0, hmne, or_self, ↓reduceIte, roundP,
      Nat.mul_eq_zero, hn0]
    generalize hpp : (if mulKind kind ik = 1 then 24 else 53) = pp
    have hpp24 : 24 ≤ pp := by rw [← hpp]; split <;> omega
    have hpp53 : pp ≤ 53 := by rw [← hpp]; split <;> omega
    have hprod : m * q.natAbs ≠ 0 := Nat.mul_ne_zero hmne hn0
    obtain ⟨mP, eP, hrP⟩ := roundTo_some pp (m * q.natAbs) 1 e hprod (by omega) (by omega)
    obtain ⟨hmP1, hmP2, _⟩ := roundTo_spec pp (m * q.natAbs) 1 e mP eP (by omega) hrP
    have hexp := roundTo_exp pp (m * q.natAbs) e mP eP hrP
    simp only [hrP, Option.bind_some]
    -- log2 of the product
    have hlog : 52 ≤ (m * q.natAbs).log2 ∧ (m * q.natAbs).log2 ≤ 71 := by
      have hlo : 2 ^ 52 ≤ m * q.natAbs := le_trans hm1 (Nat.le_mul_of_pos_right m (by omega))
      have hhi : m * q.natAbs < 2 ^ 72 := by
        calc m * q.natAbs ≤ m * 2 ^ 18 := Nat.mul_le_mul_left m hq
          _ < 2 ^ 53 * 2 ^ 18 := Nat.mul_lt_mul_of_pos_right hm2 (by norm_num)
          _ = 2 ^ 71 := by norm_num
          _ < 2 ^ 72 := by norm_num
      exact ⟨(Nat.le_log2 hprod).mpr hlo, by have := (Nat.log2_lt hprod).mpr hhi; omega⟩
    generalize (m * q.natAbs).log2 = ln at hexp hlog
    -- the encoder's branch
    have hmPne : mP ≠ 0 := by
      have : 0 < 2 ^ (pp - 1) := Nat.pow_pos (by omega)
      omega
    have hl : mP.log2 = pp - 1 := by
      have a : pp - 1 ≤ mP.log2 := (Nat.le_log2 hmPne).mpr hmP1
      have b : mP.log2 < pp := (Nat.log2_lt hmPne).mpr hmP2
      omega
    unfold f64Encode
    simp only [hmPne, ↓reduceIte, hl]
    have hle : pp - 1 ≤ 52 := by omega
    simp only [hle, ↓reduceIte]
    have hb : ¬ (eP - ((52 - (pp - 1) : Nat) : Int) + 1075 < 1 ∨ eP - ((52 - (pp - 1) : Nat) : Int) + 1075 > 2046) := by
      rcases hexp with h | h <;> omega
    rw [if_neg hb]
    exact ⟨_, rfl⟩

end VelaVerif.FloatExact
