import VelaVerif.Lemmas.FloatExact
import Mathlib.Tactic.Positivity
import Mathlib.Algebra.Order.Field.Power
import Mathlib.Data.Rat.Cast.Order
/-! The rounding of `Spec/Requant.roundTo` over the rationals: relative error at most `2^-p`. -/
namespace VelaVerif.FloatExact
open VelaVerif.Requant (roundTo)

/-- the rational `m · 2^e` -/
def val (m : Nat) (e : Int) : ℚ := (m : ℚ) * (2 : ℚ) ^ e

theorem val_pos (m : Nat) (e : Int) (h : 0 < m) : 0 < val m e := by
  unfold val
  have : (0 : ℚ) < m := by exact_mod_cast h
  positivity

theorem two_zpow_split (a : Int) (b : Nat) : (2 : ℚ) ^ (a + (b : Int)) = (2 : ℚ) ^ a * (2 : ℚ) ^ b := by
  rw [zpow_add₀ (by norm_num : (2 : ℚ) ≠ 0), zpow_natCast]

/-- `roundTo` over ℚ: with `R` the result and `X = num / den · 2^e` the exact value, `R·(1 − 2^-p) ≤ X ≤ R·(1 + 2^-p)` -/
theorem roundTo_rat (p num den : Nat) (e : Int) (m : Nat) (e' : Int) (hp : 0 < p)
    (h : roundTo p num den e = some (m, e')) :
    2 ^ (p - 1) ≤ m ∧ m < 2 ^ p ∧
    val m e' * (1 - (1 / 2 : ℚ) ^ p) ≤ (num : ℚ) / den * (2 : ℚ) ^ e ∧
    (num : ℚ) / den * (2 : ℚ) ^ e ≤ val m e' * (1 + (1 / 2 : ℚ) ^ p) := by
  obtain ⟨hlo, hhi, up, dr, he', hdr, hle, hge⟩ := roundTo_spec p num den e m e' hp h
  refine ⟨hlo, hhi, ?_⟩
  have hden : den ≠ 0 := by
    intro hh
    unfold roundTo at h
    rw [if_pos (Or.inr (Or.inl hh))] at h
    cases h
  have hdq : (0 : ℚ) < den := by exact_mod_cast Nat.pos_of_ne_zero hden
  -- K = 2^(e - up): common factor
  set K : ℚ := (2 : ℚ) ^ (e - (up : Int)) with hK
  have hKpos : 0 < K := by positivity
  have hval : val m e' = (m : ℚ) * (2 : ℚ) ^ dr * K := by
    unfold val
    rw [he', two_zpow_split]; ring
  have hX : (num : ℚ) / den * (2 : ℚ) ^ e = (num : ℚ) * (2 : ℚ) ^ up / den * K := by
    have : (2 : ℚ) ^ e = K * (2 : ℚ) ^ up := by
      rw [hK, ← two_zpow_split]; congr 1; omega
    rw [this]; ring
  -- the integer inequalities over ℚ
  have hle' : (m : ℚ) * (2 : ℚ) ^ dr * den ≤ (num : ℚ) * (2 : ℚ) ^ up + (2 : ℚ) ^ (dr - 1) * den := by exact_mod_cast hle
  have hge' : (num : ℚ) * (2 : ℚ) ^ up ≤ (m : ℚ) * (2 : ℚ) ^ dr * den + (2 : ℚ) ^ (dr - 1) * den := by exact_mod_cast hge
  -- half an ulp is at most 2^-p of the result: 2^(dr-1) ≤ m·2^dr·2^-p since m ≥ 2^(p-1)
  have hulp : (2 : ℚ) ^ (dr - 1) ≤ (m : ℚ) * (2 : ℚ) ^ dr * (1 / 2 : ℚ) ^ p := by
    have hm : ((2 : ℚ) ^ (p - 1)) ≤ (m : ℚ) := by exact_mod_cast hlo
    have e1 : (2 : ℚ) ^ dr = 2 * (2 : ℚ) ^ (dr - 1) := by
      rw [← pow_succ']; congr 1; omega
    have e2 : (2 : ℚ) ^ (p - 1) * (1 / 2 : ℚ) ^ p = 1 / 2 := by
      have : (1 / 2 : ℚ) ^ p = (1 / 2 : ℚ) ^ (p - 1) * (1 / 2) := by
        rw [← pow_succ]; congr 1; omega
      rw [this, ← mul_assoc, ← mul_pow]; norm_num
    have hpos : (0 : ℚ) < (2 : ℚ) ^ (dr - 1) := by positivity
    have hpp : (0 : ℚ) < (1 / 2 : ℚ) ^ p := by positivity
    calc (2 : ℚ) ^ (dr - 1) = (2 : ℚ) ^ (p - 1) * (1 / 2 : ℚ) ^ p * (2 * (2 : ℚ) ^ (dr - 1)) := by rw [e2]; ring
      _ ≤ (m : ℚ) * (1 / 2 : ℚ) ^ p * (2 * (2 : ℚ) ^ (dr - 1)) := by
          apply mul_le_mul_of_nonneg_right _ (by positivity)
          exact mul_le_mul_of_nonneg_right hm (le_of_lt hpp)
      _ = (m : ℚ) * (2 : ℚ) ^ dr * (1 / 2 : ℚ) ^ p := by rw [e1]; ring
  rw [hval, hX]
  have hA : (num : ℚ) * (2 : ℚ) ^ up / den = ((num : ℚ) * (2 : ℚ) ^ up) * (1 / den) := by ring
  constructor
  · -- R(1-u) ≤ X  ⇐  m·2^dr·den − 2^(dr−1)·den ≤ num·2^up
    have : (m : ℚ) * (2 : ℚ) ^ dr * (1 - (1 / 2 : ℚ) ^ p) ≤ (num : ℚ) * (2 : ℚ) ^ up / den := by
      rw [le_div_iff₀ hdq]
      nlinarith [hle', hulp, hdq]
    calc (m : ℚ) * (2 : ℚ) ^ dr * K * (1 - (1 / 2 : ℚ) ^ p) = (m : ℚ) * (2 : ℚ) ^ dr * (1 - (1 / 2 : ℚ) ^ p) * K := by ring
      _ ≤ (num : ℚ) * (2 : ℚ) ^ up / den * K := mul_le_mul_of_nonneg_right this (le_of_lt hKpos)
  · have : (num : ℚ) * (2 : ℚ) ^ up / den ≤ (m : ℚ) * (2 : ℚ) ^ dr * (1 + (1 / 2 : ℚ) ^ p) := by
      rw [div_le_iff₀ hdq]
      nlinarith [hge', hulp, hdq]
    calc (num : ℚ) * (2 : ℚ) ^ up / den * K ≤ (m : ℚ) * (2 : ℚ) ^ dr * (1 + (1 / 2 : ℚ) ^ p) * K :=
          mul_le_mul_of_nonneg_right this (le_of_lt hKpos)
      _ = (m : ℚ) * (2 : ℚ) ^ dr * K * (1 + (1 / 2 : ℚ) ^ p) := by ring

end VelaVerif.FloatExact
