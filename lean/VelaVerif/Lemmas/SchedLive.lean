import VelaVerif.Lemmas.LiveRange
import VelaVerif.Lemmas.SchedMem
/-!
# The bridge between the scheduler's estimate (`Model/SchedMem.lean`) and the live ranges `Model/LiveRange.lean` extracts
-/
namespace VelaVerif.SchedMem
open VelaVerif.LiveRange

/-- bytes a range contributes at tick `t` -/
def lrContrib (r : LR) (t : Int) : Nat := if r.start ≤ t ∧ t ≤ r.end_ then r.size else 0

def lrsUsage : List LR → Int → Nat
  | [], _ => 0
  | r :: rs, t => lrContrib r t + lrsUsage rs t

/-- bytes in use at tick `t`: sum of the sizes of the ranges of the graph alive at `t` (`get_temporal_memory_usage` of a graph
    whose ranges all belong to the target area) -/
def graphUsage (g : Graph) (t : Int) : Nat := lrsUsage g.lrs t

theorem lrsUsage_append (a b : List LR) (t : Int) : lrsUsage (a ++ b) t = lrsUsage a t + lrsUsage b t := by
  induction a with
  | nil => simp [lrsUsage]
  | cons r rs ih => simp [lrsUsage, ih]; omega

theorem lrsUsage_modify (f : LR → LR) (t : Int) : ∀ (l : List LR) (i : Nat) (r : LR), l[i]? = some r →
    lrsUsage (l.modify i f) t + lrContrib r t = lrsUsage l t + lrContrib (f r) t := by
  intro l
  induction l with
  | nil => intro i r h; simp at h
  | cons a rest ih =>
    intro i r h
    cases i with
    | zero => simp at h; subst h; simp [List.modify, lrsUsage]; omega
    | succ j =>
      simp at h
      have := ih j r h
      simp only [List.modify_succ_cons, lrsUsage]; omega

/-- `y` has no range yet -/
def Fresh (g : Graph) (y : Tensor) : Prop := g.lookup y = none
/-- `y` has a range of `sz` bytes that is alive at `t` -/
def Has (g : Graph) (y : Tensor) (sz : Nat) (t : Int) : Prop :=
  ∃ i r, g.lookup y = some i ∧ g.lrs[i]? = some r ∧ r.start ≤ t ∧ t ≤ r.end_ ∧ r.size = sz

theorem lookup_append_ne {g : Graph} {x y : Tensor} (h : y.eqId ≠ x.eqId) (lrs' : List LR) (n : Nat) :
    ({ lrs := lrs', ranges := g.ranges ++ [(x, n)] } : Graph).lookup y = g.lookup y := by
  unfold Graph.lookup
  simp only [List.find?_append]
  cases hf : g.ranges.find? (fun p => p.1.eqId == y.eqId) with
  | some p => simp
  | none =>
    have : (x.eqId == y.eqId) = false := by simp; exact fun e => h e.symm
    simp [List.find?, this]

/-- the graph after an event on a tensor that has no range yet: `f` = what the event does to the new range -/
theorem new_range {g : Graph} (hw : g.WF) {x : Tensor} (hx : Fresh g x) (f : LR → LR) (t : Int) :
    let g' : Graph := { lrs := (g.getOrCreate x).1.lrs.modify (g.getOrCreate x).2 f, ranges := (g.getOrCreate x).1.ranges }
    graphUsage g' t = graphUsage g t + lrContrib (f (LR.new x)) t ∧
    (∃ i, g'.lookup x = some i ∧ g'.lrs[i]? = some (f (LR.new x))) ∧
    (∀ y, y.eqId ≠ x.eqId → Fresh g y → Fresh g' y) ∧
    (∀ y sz, y.eqId ≠ x.eqId → Has g y sz t → Has g' y sz t) := by
  unfold Fresh at hx
  simp only [Graph.getOrCreate, hx]
  have hmod : (g.lrs ++ [LR.new x]).modify g.lrs.length f = g.lrs ++ [f (LR.new x)] := by
    apply List.ext_getElem?
    intro j
    simp only [List.getElem?_modify]
    rcases Nat.lt_trichotomy j g.lrs.length with hj | hj | hj
    · have : g.lrs.length ≠ j := by omega
      simp [List.getElem?_append_left hj, this]
    · subst hj; simp
    · have : g.lrs.length ≠ j := by omega
      simp [List.getElem?_append_right (Nat.le_of_lt hj), this]
      have : j - g.lrs.length ≠ 0 := by omega
      cases hk : j - g.lrs.length with
      | zero => omega
      | succ k => simp
  refine ⟨?_, ⟨g.lrs.length, ?_, ?_⟩, ?_, ?_⟩
  · simp only [graphUsage, hmod, lrsUsage_append, lrsUsage]; omega
  · unfold Graph.lookup at hx ⊢
    simp only [List.find?_append]
    cases hf : g.ranges.find? (fun p => p.1.eqId == x.eqId) with
    | some p => simp [hf] at hx
    | none => simp
  · simp [hmod]
  · intro y hy hf
    unfold Fresh at hf ⊢
    rw [lookup_append_ne hy]; exact hf
  · intro y sz hy ⟨i, r, h1, h2, h3⟩
    refine ⟨i, r, by rw [lookup_append_ne hy]; exact h1, ?_, h3⟩
    have hi := lookup_lt hw h1
    simp only [hmod, List.getElem?_append_left hi]; exact h2

/-- the graph after an event on a tensor whose range `r` (index `i`) exists -/
theorem old_range {g : Graph} {x : Tensor} {i : Nat} {r : LR} (hl : g.lookup x = some i) (hr : g.lrs[i]? = some r)
    (f : LR → LR) (t : Int) :
    let g' : Graph := { lrs := (g.getOrCreate x).1.lrs.modify (g.getOrCreate x).2 f, ranges := (g.getOrCreate x).1.ranges }
    graphUsage g' t + lrContrib r t = graphUsage g t + lrContrib (f r) t ∧
    (g'.lookup x = some i ∧ g'.lrs[i]? = some (f r)) ∧
    (∀ y, Fresh g y → Fresh g' y) := by
  simp only [Graph.getOrCreate, hl]
  refine ⟨lrsUsage_modify f t g.lrs i r hr, ⟨hl, ?_⟩, fun y h => h⟩
  simp [hr]

theorem contrib_mark_new (x : Tensor) (t : Nat) : lrContrib ((LR.new x).markUsage (t : Int) 1) t = x.size := by
  unfold lrContrib LR.markUsage LR.new startInit endInit
  simp only
  split <;> simp <;> omega

theorem contrib_rolling (r : LR) (sz : Nat) (t : Nat) : lrContrib ((r.setBufferSize sz).markUsage (t : Int) 1) t = sz := by
  unfold lrContrib LR.markUsage LR.setBufferSize
  simp only
  split <;> simp <;> omega

theorem contrib_window (op : SchedOp) (t idx : Nat) (w : Tensor) :
    lrContrib ((LR.new w).markUsage (bufferedWindow op t idx w).1 (bufferedWindow op t idx w).2) t = w.size := by
  unfold bufferedWindow lrContrib LR.markUsage LR.new startInit endInit
  simp only
  by_cases hp : w.preBuffer <;> by_cases hc : (decide (op.buffered.length > 1) && op.nDepthSlices % op.buffered.length != idx) = true <;>
    simp [hp, hc] <;> (try split) <;> (try simp) <;> omega

def sumT : List Tensor → Nat
  | [] => 0
  | w :: r => w.size + sumT r

/-- pairwise different equivalence ids -/
def DistinctEq (l : List Tensor) : Prop := l.Pairwise (fun a b => a.eqId ≠ b.eqId)

theorem run_cons_ok {g g1 : Graph} {e : Ev} {es : List Ev} (h : g.apply e = .ok g1) : g.run (e :: es) = g1.run es := by
  simp [Graph.run, h]

theorem weights_run (op : SchedOp) (t : Nat) : ∀ (ws : List Tensor) (n : Nat) (g : Graph), g.WF →
    (∀ w ∈ ws, w.inTarget = true) → (∀ w ∈ ws, Fresh g w) → DistinctEq ws →
    ∃ g', g.run ((ws.zipIdx n).filterMap (bufferedEvent op t)) = .ok g' ∧ g'.WF ∧
      graphUsage g' t = graphUsage g t + sumT ws ∧
      (∀ y, (∀ w ∈ ws, y.eqId ≠ w.eqId) → Fresh g y → Fresh g' y) ∧
      (∀ y sz, (∀ w ∈ ws, y.eqId ≠ w.eqId) → Has g y sz t → Has g' y sz t) := by
  intro ws
  induction ws with
  | nil => intro n g hw _ _ _; exact ⟨g, by simp [Graph.run], hw, by simp [sumT], fun _ _ h => h, fun _ _ _ h => h⟩
  | cons w rest ih =>
    intro n g hw hin hfr hd
    have hwin : w.inTarget = true := hin w (by simp)
    have hev : bufferedEvent op t (w, n) = some (.mark w (bufferedWindow op t n w).1 (bufferedWindow op t n w).2) := by
      simp [bufferedEvent, hwin]
    rw [List.zipIdx_cons, List.filterMap_cons_some hev]
    obtain ⟨hu, ⟨i, hl, hr⟩, hfresh, hhas⟩ := new_range hw (hfr w (by simp))
      (fun r => r.markUsage (bufferedWindow op t n w).1 (bufferedWindow op t n w).2) t
    have happ : g.apply (.mark w (bufferedWindow op t n w).1 (bufferedWindow op t n w).2) = .ok _ := rfl
    have hw1 := (apply_spec hw _ happ).1
    rw [run_cons_ok happ]
    have hd' : DistinctEq rest := (List.pairwise_cons.mp hd).2
    have hne : ∀ w' ∈ rest, w'.eqId ≠ w.eqId := fun w' hw' => fun e => (List.pairwise_cons.mp hd).1 w' hw' e.symm
    obtain ⟨g', hrun, hw', hu', hf', hh'⟩ := ih (n + 1) _ hw1 (fun w' hw' => hin w' (by simp [hw']))
      (fun w' hw' => hfresh w' (hne w' hw') (hfr w' (by simp [hw']))) hd'
    refine ⟨g', hrun, hw', ?_, ?_, ?_⟩
    · rw [hu', hu, contrib_window]; simp [sumT]; omega
    · intro y hy hf
      exact hf' y (fun w' hw' => hy w' (by simp [hw'])) (hfresh y (hy w (by simp)) hf)
    · intro y sz hy hh
      exact hh' y sz (fun w' hw' => hy w' (by simp [hw'])) (hhas y sz (hy w (by simp)) hh)

/-- one operation of a cascade after the first tensor: its buffered weight tensors, its OFM, and the size the live-range
    extraction gives the rolling buffer of its IFM (`cascade_info.buffers[op].elements() * dtype size`; unused for the first
    operation, whose IFM is not a rolling buffer) -/
structure Step where
  ws : List Tensor
  out : Tensor
  roll : Nat
deriving Repr, Inhabited

/-- the scheduled operation as `extract_live_ranges_from_schedule` reads it: member of cascade `k`, pass inputs `[ifm]`
    (weights and biases of the pass are skipped by the extraction and left out), outputs `[ofm]` -/
def mkOp (k : Nat) (ifm ofm : Tensor) (rolling : Option Nat) (ws : List Tensor) : SchedOp :=
  { cascade := k, inCascade := true, fuse := default, inputs := [ifm], outputs := [ofm], intermediates := [],
    psIfm := some ifm.id, rolling := rolling, buffered := ws, nDepthSlices := 2 }

def stepOps (k : Nat) : Tensor → Bool → List Step → List SchedOp
  | _, _, [] => []
  | prev, first, s :: rest => mkOp k prev s.out (if first then none else some s.roll) s.ws :: stepOps k s.out false rest

def ifmEvents (prev : Tensor) (rolling : Option Nat) (t : Nat) : List Ev :=
  match rolling with
  | some sz => [.rolling prev sz t]
  | none => if prev.inTarget then [.mark prev t 1] else []

def ofmEvents (out : Tensor) (t : Nat) : List Ev := if out.inTarget then [.mark out t 1] else []

theorem opEvents_mkOp (k : Nat) (prev out : Tensor) (rolling : Option Nat) (ws : List Tensor) (t : Nat)
    (hid : prev.id ≠ out.id) (hp : prev.purpose = .other) (ho : out.purpose = .other) :
    opEvents true (mkOp k prev out rolling ws) t =
      ifmEvents prev rolling t ++ ofmEvents out t ++ (ws.zipIdx.filterMap (bufferedEvent (mkOp k prev out rolling ws) t)) := by
  have h1 : (prev.id == out.id) = false := by simp [hid]
  cases rolling with
  | some sz =>
    by_cases hot : out.inTarget <;>
      simp [opEvents, mkOp, SchedOp.tensors, tensorEvent, isRolling, isSkipped, ifmEvents, ofmEvents, h1, ho, hot, List.filterMap]
  | none =>
    by_cases hot : out.inTarget <;> by_cases hpt : prev.inTarget <;>
      simp [opEvents, mkOp, SchedOp.tensors, tensorEvent, isRolling, isSkipped, ifmEvents, ofmEvents, h1, hp, ho, hot, hpt, List.filterMap]

/-- the state of the IFM `prev` of the next operation: the first IFM has no range yet; a later one has the range its
    producer gave it (full size) if it is in the target memory, and none otherwise -/
def PrevOk (g : Graph) (prev : Tensor) (first : Bool) (t : Int) : Prop :=
  if first then Fresh g prev else (if prev.inTarget then Has g prev prev.size t else Fresh g prev)

def prevBytes (prev : Tensor) (first : Bool) : Nat := if first then 0 else if prev.inTarget then prev.size else 0

theorem run_nil (g : Graph) : g.run [] = .ok g := rfl

theorem run_single {g g1 : Graph} {e : Ev} (h : g.apply e = .ok g1) : g.run [e] = .ok g1 := by simp [Graph.run, h]

theorem ifm_phase {g : Graph} (hw : g.WF) (prev : Tensor) (first : Bool) (roll t : Nat) (hp : PrevOk g prev first t) :
    ∃ g1, g.run (ifmEvents prev (if first then none else some roll) t) = .ok g1 ∧ g1.WF ∧
      graphUsage g1 t + prevBytes prev first = graphUsage g t + (if first then (if prev.inTarget then prev.size else 0) else roll) ∧
      (∀ y, y.eqId ≠ prev.eqId → Fresh g y → Fresh g1 y) := by
  unfold PrevOk at hp
  cases first with
  | true =>
    simp only [↓reduceIte] at hp
    by_cases hpt : prev.inTarget
    · have happ : g.apply (.mark prev (t : Int) 1) = .ok _ := rfl
      obtain ⟨hu, _, hfresh, _⟩ := new_range hw hp (fun r => r.markUsage (t : Int) 1) t
      refine ⟨_, by simpa [ifmEvents, hpt] using run_single happ, (apply_spec hw _ happ).1, ?_, hfresh⟩
      simp only [prevBytes, ↓reduceIte, hpt, Nat.add_zero]; rw [hu, contrib_mark_new]
    · exact ⟨g, by simp [ifmEvents, hpt, run_nil], hw, by simp [prevBytes, hpt], fun _ _ h => h⟩
  | false =>
    simp only [Bool.false_eq_true, ↓reduceIte] at hp
    have happ : g.apply (.rolling prev roll (t : Int)) = .ok _ := rfl
    refine ⟨_, by simpa [ifmEvents] using run_single happ, (apply_spec hw _ happ).1, ?_, ?_⟩
    · by_cases hpt : prev.inTarget
      · simp only [hpt, ↓reduceIte] at hp
        obtain ⟨i, r, hl, hr, h1, h2, h3⟩ := hp
        obtain ⟨hu, _, _⟩ := old_range hl hr (fun r => (r.setBufferSize roll).markUsage (t : Int) 1) t
        rw [contrib_rolling] at hu
        have : lrContrib r t = prev.size := by simp [lrContrib, h1, h2, h3]
        simp only [prevBytes, Bool.false_eq_true, ↓reduceIte, hpt]
        rw [← this]; exact hu
      · simp only [hpt, Bool.false_eq_true, ↓reduceIte] at hp
        obtain ⟨hu, _, _, _⟩ := new_range hw hp (fun r => (r.setBufferSize roll).markUsage (t : Int) 1) t
        rw [contrib_rolling] at hu
        simp only [prevBytes, Bool.false_eq_true, ↓reduceIte, hpt, Nat.add_zero]; exact hu
    · by_cases hpt : prev.inTarget
      · simp only [hpt, ↓reduceIte] at hp
        obtain ⟨i, r, hl, hr, _⟩ := hp
        obtain ⟨_, _, hf⟩ := old_range hl hr (fun r => (r.setBufferSize roll).markUsage (t : Int) 1) t
        exact fun y _ h => hf y h
      · simp only [hpt, Bool.false_eq_true, ↓reduceIte] at hp
        obtain ⟨_, _, hf, _⟩ := new_range hw hp (fun r => (r.setBufferSize roll).markUsage (t : Int) 1) t
        exact hf

theorem ofm_phase {g : Graph} (hw : g.WF) (out : Tensor) (t : Nat) (hf : Fresh g out) :
    ∃ g2, g.run (ofmEvents out t) = .ok g2 ∧ g2.WF ∧ graphUsage g2 t = graphUsage g t + prevBytes out false ∧
      PrevOk g2 out false t ∧ (∀ y, y.eqId ≠ out.eqId → Fresh g y → Fresh g2 y) := by
  by_cases hot : out.inTarget
  · have happ : g.apply (.mark out (t : Int) 1) = .ok _ := rfl
    obtain ⟨hu, ⟨i, hl, hr⟩, hfresh, _⟩ := new_range hw hf (fun r => r.markUsage (t : Int) 1) t
    refine ⟨_, by simpa [ofmEvents, hot] using run_single happ, (apply_spec hw _ happ).1, ?_, ?_, hfresh⟩
    · simp only [prevBytes, Bool.false_eq_true, ↓reduceIte, hot]; rw [hu, contrib_mark_new]
    · simp only [PrevOk, Bool.false_eq_true, ↓reduceIte, hot]
      refine ⟨i, _, hl, hr, ?_, ?_, ?_⟩
      · simp [LR.markUsage, LR.new, startInit, endInit]; split <;> simp <;> omega
      · simp [LR.markUsage, LR.new, startInit, endInit]; split <;> simp <;> omega
      · simp [LR.markUsage, LR.new]; split <;> simp
  · exact ⟨g, by simp [ofmEvents, hot, run_nil], hw, by simp [prevBytes, hot], by simp [PrevOk, hot]; exact hf, fun _ _ h => h⟩

def laterTensors : List Step → List Tensor
  | [] => []
  | s :: rest => s.out :: (s.ws ++ laterTensors rest)

/-- bytes in use at the cascade's tick after the operations `steps` (IFM of the first of them: `prev`) -/
def chainUsage : Bool → Tensor → List Step → Nat
  | first, prev, [] => prevBytes prev first
  | first, prev, s :: rest =>
    (if first then (if prev.inTarget then prev.size else 0) else s.roll) + sumT s.ws + chainUsage false s.out rest

/-- the tensors of the cascade are different tensors (equivalence ids and identities), feature maps have purpose
    FeatureMap, the weight buffers lie in the target memory (fast storage) -/
structure GoodTensors (prev : Tensor) (steps : List Step) : Prop where
  distinct : (prev :: laterTensors steps).Pairwise (fun a b => a.eqId ≠ b.eqId ∧ a.id ≠ b.id)
  prevPurpose : prev.purpose = .other
  outs : ∀ s ∈ steps, s.out.purpose = .other ∧ ∀ w ∈ s.ws, w.inTarget = true

theorem chain_run (k t : Nat) : ∀ (steps : List Step) (prev : Tensor) (first : Bool) (g : Graph), g.WF →
    PrevOk g prev first t → (∀ y ∈ laterTensors steps, Fresh g y) → GoodTensors prev steps →
    ∃ g', g.run ((stepOps k prev first steps).flatMap (fun op => opEvents true op t)) = .ok g' ∧ g'.WF ∧
      graphUsage g' t + prevBytes prev first = graphUsage g t + chainUsage first prev steps := by
  intro steps
  induction steps with
  | nil => intro prev first g hw _ _ _; exact ⟨g, by simp [stepOps, run_nil], hw, by simp [chainUsage]⟩
  | cons s rest ih =>
    intro prev first g hw hprev hfresh hgood
    have hpw := List.pairwise_cons.mp hgood.distinct
    have hlt : laterTensors (s :: rest) = s.out :: (s.ws ++ laterTensors rest) := rfl
    have hpo : prev.eqId ≠ s.out.eqId ∧ prev.id ≠ s.out.id := hpw.1 s.out (by simp [hlt])
    have hpw2 := List.pairwise_cons.mp (show (s.out :: (s.ws ++ laterTensors rest)).Pairwise (fun a b => a.eqId ≠ b.eqId ∧ a.id ≠ b.id) from hpw.2)
    have hpw3 := List.pairwise_append.mp hpw2.2
    obtain ⟨hopurp, hwin⟩ := hgood.outs s (by simp)
    simp only [stepOps, List.flatMap_cons]
    rw [opEvents_mkOp k prev s.out _ s.ws t hpo.2 hgood.prevPurpose hopurp, run_append, run_append, run_append]
    -- IFM
    obtain ⟨g1, hr1, hw1, hu1, hf1⟩ := ifm_phase hw prev first s.roll t hprev
    have hfresh1 : ∀ y ∈ laterTensors (s :: rest), Fresh g1 y := fun y hy =>
      hf1 y (fun e => (hpw.1 y hy).1 e.symm) (hfresh y hy)
    rw [hr1]
    -- OFM
    obtain ⟨g2, hr2, hw2, hu2, hp2, hf2⟩ := ofm_phase hw1 s.out t (hfresh1 s.out (by simp [hlt]))
    have hfresh2 : ∀ y ∈ s.ws ++ laterTensors rest, Fresh g2 y := fun y hy =>
      hf2 y (fun e => (hpw2.1 y hy).1 e.symm) (hfresh1 y (by simp [hlt]; exact Or.inr (by simpa using hy)))
    simp only [hr2]
    -- weights
    obtain ⟨g3, hr3, hw3, hu3, hf3, hh3⟩ := weights_run (mkOp k prev s.out (if first then none else some s.roll) s.ws) t s.ws 0 g2 hw2 hwin
      (fun w hw' => hfresh2 w (by simp [hw'])) (hpw3.1.imp (fun h => h.1))
    simp only [hr3]
    have hne : ∀ w ∈ s.ws, s.out.eqId ≠ w.eqId := fun w hw' => (hpw2.1 w (by simp [hw'])).1
    have hp3 : PrevOk g3 s.out false t := by
      unfold PrevOk at hp2 ⊢
      simp only [Bool.false_eq_true, ↓reduceIte] at hp2 ⊢
      split
      · next h => simp only [h, ↓reduceIte] at hp2; exact hh3 _ _ hne hp2
      · next h => simp only [h, Bool.false_eq_true, ↓reduceIte] at hp2; exact hf3 _ hne hp2
    have hfresh3 : ∀ y ∈ laterTensors rest, Fresh g3 y := fun y hy =>
      hf3 y (fun w hw' => fun e => (hpw3.2.2 w hw' y hy).1 e.symm) (hfresh2 y (by simp [hy]))
    have hgood' : GoodTensors s.out rest :=
      ⟨by
        refine List.pairwise_cons.mpr ⟨fun y hy => hpw2.1 y (by simp [hy]), hpw3.2.1⟩,
       hopurp, fun s' hs' => hgood.outs s' (by simp [hs'])⟩
    obtain ⟨g', hr', hw', hu'⟩ := ih s.out false g3 hw3 hp3 hfresh3 hgood'
    refine ⟨g', hr', hw', ?_⟩
    simp only [chainUsage]
    omega

/-- the cascade on its own: the operations of `steps` after the first IFM `x0`, all members of cascade `k`, no subgraph
    outputs -/
def cascadeSchedule (k : Nat) (x0 : Tensor) (steps : List Step) : Schedule :=
  { sram := true, ops := stepOps k x0 true steps, outputs := [] }

theorem stepOps_cascade (k : Nat) : ∀ (steps : List Step) (prev : Tensor) (first : Bool), ∀ op ∈ stepOps k prev first steps, op.cascade = k := by
  intro steps
  induction steps with
  | nil => intro _ _ op h; simp [stepOps] at h
  | cons s rest ih =>
    intro prev first op h
    simp only [stepOps, List.mem_cons] at h
    rcases h with rfl | h
    · rfl
    · exact ih _ _ op h

theorem stepOps_length (k : Nat) : ∀ (steps : List Step) (prev : Tensor) (first : Bool), (stepOps k prev first steps).length = steps.length := by
  intro steps; induction steps with
  | nil => intro _ _; rfl
  | cons s rest ih => intro _ _; simp [stepOps, ih]

theorem npuLoop_one_cascade (k t0 : Nat) (hk : k ≠ 0) : ∀ (ops : List SchedOp) (ts : TimeState),
    (∀ op ∈ ops, op.cascade = k) → ts.timeFor k = t0 →
    (npuLoop true ops ts).1 = ops.map (fun op => (t0, opEvents true op t0)) := by
  intro ops
  induction ops with
  | nil => intro ts _ _; simp [npuLoop]
  | cons op rest ih =>
    intro ts hall ht
    have hc : op.cascade = k := hall op (by simp)
    simp only [npuLoop, List.map_cons, hc, ht]
    congr 1
    refine ih _ (fun o ho => hall o (by simp [ho])) ?_
    simp [TimeState.step, TimeState.timeFor, hk]
    simp [TimeState.timeFor] at ht
    simp [ht]

theorem extract_cascade (k ct : Nat) (hk : k ≠ 0) (x0 : Tensor) (steps : List Step) (hg : GoodTensors x0 steps) :
    ∃ res, extractNpu (cascadeSchedule k x0 steps) Graph.empty ct = .ok res ∧
      res.times = steps.map (fun _ => ct) ∧ graphUsage res.graph ct = chainUsage true x0 steps := by
  have hloop := npuLoop_one_cascade k ct hk (stepOps k x0 true steps) { current := ct, cascades := [] }
    (stepOps_cascade k steps x0 true) (by simp [TimeState.timeFor])
  obtain ⟨g', hrun, _, hu⟩ := chain_run k ct steps x0 true Graph.empty Graph.WF_empty
    (by simp [PrevOk, Fresh, Graph.lookup, Graph.empty]) (by intro y _; simp [Fresh, Graph.lookup, Graph.empty]) hg
  have hev : (npuWalk (cascadeSchedule k x0 steps) ct).events = (stepOps k x0 true steps).flatMap (fun op => opEvents true op ct) := by
    simp only [npuWalk, cascadeSchedule, hloop, outputEvents, List.filter_nil, List.map_nil, List.append_nil, List.flatMap_map]
  have htm : (npuWalk (cascadeSchedule k x0 steps) ct).times = steps.map (fun _ => ct) := by
    simp only [cascadeSchedule, npuWalk, hloop, List.map_map]
    have := stepOps_length k steps x0 true
    apply List.ext_getElem
    · simp [this]
    · intro i h1 h2; simp
  refine ⟨{ graph := g', current := (npuWalk (cascadeSchedule k x0 steps) ct).current, times := (npuWalk (cascadeSchedule k x0 steps) ct).times }, ?_, htm, ?_⟩
  · unfold extractNpu
    simp only [hev, hrun]
  · simpa [prevBytes, graphUsage, Graph.empty, lrsUsage] using hu

/-- `(x0, steps)` is the live-range view of the chain `l` of the builder under the cost map `ref`: operation by operation
    the same weight buffers (`sum storage_size() = wbOf`), and as rolling buffer size what the builder computed for the pair
    (`buffers[op].elements() * dtype size = pairSize`).  `p` = the producer of the first operation of `l` (none for the
    first operation of the cascade). -/
inductive Linked (ref : CostMap) : Option SOp → List SOp → List Step → Prop
  | nil (p : Option SOp) : Linked ref p [] []
  | cons (p : Option SOp) (o : SOp) (l : List SOp) (s : Step) (steps : List Step) :
      sumT s.ws = wbOf ref o → (∀ p', p = some p' → s.roll = pairSize ref p' o) → Linked ref (some o) l steps →
      Linked ref p (o :: l) (s :: steps)

/-- buffers of the operations `l` whose first IFM comes from `p` -/
def buffersFrom (ref : CostMap) : SOp → List SOp → Nat
  | _, [] => 0
  | p, o :: r => pairSize ref p o + wbOf ref o + buffersFrom ref o r

theorem chainBuffers_cons (ref : CostMap) (o : SOp) (r : List SOp) : chainBuffers ref (o :: r) = wbOf ref o + buffersFrom ref o r := by
  induction r generalizing o with
  | nil => simp [chainBuffers, buffersFrom]
  | cons a r ih => simp only [chainBuffers, buffersFrom, ih a]; omega

/-- bytes of the last OFM of the cascade, if it lies in the target memory -/
def finalBytes : Tensor → List Step → Nat
  | prev, [] => prevBytes prev false
  | _, s :: rest => finalBytes s.out rest

theorem chainUsage_linked (ref : CostMap) : ∀ (l : List SOp) (steps : List Step) (p : SOp) (prev : Tensor),
    Linked ref (some p) l steps → chainUsage false prev steps = buffersFrom ref p l + finalBytes prev steps := by
  intro l
  induction l with
  | nil => intro steps p prev h; cases h; simp [chainUsage, buffersFrom, finalBytes]
  | cons o r ih =>
    intro steps p prev h
    cases h with
    | cons _ _ _ s rest hw hr hl =>
      simp only [chainUsage, buffersFrom, finalBytes, Bool.false_eq_true, ↓reduceIte, ih rest o s.out hl, hw, hr p rfl]
      omega

theorem chainUsage_first (ref : CostMap) (l : List SOp) (steps : List Step) (x0 : Tensor) (hne : l ≠ [])
    (h : Linked ref none l steps) :
    chainUsage true x0 steps = (if x0.inTarget then x0.size else 0) + chainBuffers ref l + finalBytes x0 steps := by
  cases h with
  | nil => exact absurd rfl hne
  | cons _ o r s rest hw hr hl =>
    simp only [chainUsage, ↓reduceIte, chainBuffers_cons, finalBytes, chainUsage_linked ref r rest o s.out hl, hw]
    omega

end VelaVerif.SchedMem
