import VelaVerif.Spec.Mem
import VelaVerif.Lemmas.Footprint
import VelaVerif.Lemmas.IntervalMap
/-!
# C02 — every NPU memory access stays inside the region the output model declares

The run-time verdict is `Mem.checkBounds` applied to each emitted stream. This file proves that the
range-based checker is sound for the byte-level statement.
-/
namespace VelaVerif.Props.C02
open VelaVerif.Footprint VelaVerif.Mem VelaVerif.Decode

/-- Every piece lies inside the hull `Footprint.hull` computes. -/
theorem hull_covers (ps : List Piece) (lo hi : Nat) (h : hull ps = some (lo, hi)) :
    ∀ p ∈ ps, lo ≤ p.addr ∧ p.addr + p.len ≤ hi := by
  cases ps with
  | nil => simp [hull] at h
  | cons p0 rest =>
    simp only [hull, Option.some.injEq] at h
    -- generalise the fold accumulator
    have key : ∀ (l : List Piece) (a : Nat × Nat),
        let r := l.foldl (fun (acc : Nat × Nat) q => (min acc.1 q.addr, max acc.2 (q.addr + q.len))) a
        r.1 ≤ a.1 ∧ a.2 ≤ r.2 ∧ ∀ q ∈ l, r.1 ≤ q.addr ∧ q.addr + q.len ≤ r.2 := by
      intro l
      induction l with
      | nil => intro a; simp
      | cons q l ih =>
        intro a
        have := ih (min a.1 q.addr, max a.2 (q.addr + q.len))
        simp only [List.foldl_cons, List.mem_cons, forall_eq_or_imp] at this ⊢
        obtain ⟨h1, h2, h3⟩ := this
        refine ⟨by omega, by omega, ⟨by omega, by omega⟩, h3⟩
    have k := key rest (p0.addr, p0.addr + p0.len)
    rw [h] at k
    simp only at k
    intro p hp
    rcases List.mem_cons.mp hp with rfl | hp
    · omega
    · exact k.2.2 p hp

/-- Soundness of the bounds check for one access: if `checkAccessBounds` reports nothing, then every
    byte of every piece is below the published extent, and a write never names the constants region. -/
theorem checkAccessBounds_sound (e : Env) (idx : Nat) (a : Access) (h : checkAccessBounds e idx a = []) :
    ∃ ext, e.extent a.region = some ext ∧ (∀ p ∈ a.pieces, ∀ b, p.addr ≤ b → b < p.addr + p.len → b < ext) ∧
      ¬ (a.write = true ∧ a.region = e.constRegion) := by
  unfold checkAccessBounds at h
  cases hext : e.extent a.region with
  | none => simp [hext] at h
  | some ext =>
    simp only [hext, List.append_eq_nil_iff] at h
    obtain ⟨hw, hb⟩ := h
    refine ⟨ext, rfl, ?_, ?_⟩
    · intro p hp b hlo hhi
      cases hh : hull a.pieces with
      | none =>
        cases hps : a.pieces with
        | nil => rw [hps] at hp; simp at hp
        | cons q qs => rw [hps] at hh; simp [hull] at hh
      | some lohi =>
        obtain ⟨lo, hi⟩ := lohi
        rw [hh] at hb
        have hle : ¬ hi > ext := by
          intro hgt; simp [hgt] at hb
        have := hull_covers a.pieces lo hi hh p hp
        omega
    · intro hc
      simp [hc.1, hc.2] at hw

example : checkAccessBounds { extents := [(1, 100)], shramBytes := 16384, lutBase := 14336 } 0
    ⟨1, true, "OFM", [⟨0, 64, 0⟩, ⟨64, 32, 0⟩]⟩ = [] := by decide

/-! ## Part B: the footprint `fmPieces` is exactly the set of bytes of the addressed elements -/

/-- 7. `coalesce` changes neither the set of covered bytes nor the `delta` any byte is covered with -/
theorem coalesce_preserves_bytes (ps : List Piece) (b : Nat) (δ : Int) :
    (∃ p ∈ coalesce ps, (p.addr ≤ b ∧ b < p.addr + p.len) ∧ p.delta = δ) ↔
      (∃ p ∈ ps, (p.addr ≤ b ∧ b < p.addr + p.len) ∧ p.delta = δ) :=
  Footprint.coalesce_preserves_bytes ps b δ

example : coalesce [⟨0, 32, 0⟩, ⟨32, 32, 0⟩, ⟨64, 8, 5⟩, ⟨80, 8, 5⟩] = [⟨0, 64, 0⟩, ⟨64, 8, 5⟩, ⟨80, 8, 5⟩] := by decide

/-- 8. coverage: every byte `fmAddr fm y x c + k` (`k < elemBytes`) of every addressed element
    (`y < height`, `x < width`, `c < depth`) lies in a piece of `fmPieces fm y0 x0 c0`, and that piece's
    `delta` is the element's canonical offset minus its address.
    Side conditions the proof forces: none for NHWC (in particular none on `depth·elemBytes` vs `strideX`:
    when they are equal the pieces are whole x-runs, otherwise one piece per pixel; and none on the tile
    split — the two runs of a row are cut at `width0`, which is what makes each run lie in one tile);
    for NHCWB16 the *tag* part needs the channel origin to be brick aligned, `c0 % 16 = 0`
    (the address part holds without it). `elemBytes > 0` is implied by `k < elemBytes`. -/
theorem fmPieces_covers (fm : FM) (y0 x0 c0 y x c k : Nat)
    (hy : y < fm.height) (hx : x < fm.width) (hc : c < fm.depth) (hk : k < fm.elemBytes) :
    ∃ p ∈ fmPieces fm y0 x0 c0, (p.addr ≤ fmAddr fm y x c + k ∧ fmAddr fm y x c + k < p.addr + p.len) ∧
      ((fm.nhcwb16 = true → c0 % 16 = 0) →
        p.delta = (canon fm (y + y0) (x + x0) (c + c0) : Int) - (fmAddr fm y x c : Int)) :=
  Footprint.fmPieces_covers fm y0 x0 c0 y x c k hy hx hc hk

/-- 9. exactness: conversely every byte of every piece of `fmPieces` is a byte of an addressed element, and
    the piece carries that element's tag (both layouts; NHCWB16 tag part again under `c0 % 16 = 0`).
    So the footprint is not an over-approximation. -/
theorem fmPieces_exact (fm : FM) (y0 x0 c0 : Nat) (p : Piece) (hp : p ∈ fmPieces fm y0 x0 c0)
    (B : Nat) (hB : p.addr ≤ B ∧ B < p.addr + p.len) :
    ∃ y x c k, y < fm.height ∧ x < fm.width ∧ c < fm.depth ∧ k < fm.elemBytes ∧ B = fmAddr fm y x c + k ∧
      ((fm.nhcwb16 = true → c0 % 16 = 0) →
        p.delta = (canon fm (y + y0) (x + x0) (c + c0) : Int) - (fmAddr fm y x c : Int)) :=
  Footprint.fmPieces_exact fm y0 x0 c0 p hp B hB

/-- 8 + 9: the bytes touched by `fmPieces` are exactly the bytes of the addressed elements -/
theorem fmPieces_bytes_iff (fm : FM) (y0 x0 c0 B : Nat) :
    (∃ p ∈ fmPieces fm y0 x0 c0, p.addr ≤ B ∧ B < p.addr + p.len) ↔
      ∃ y x c k, y < fm.height ∧ x < fm.width ∧ c < fm.depth ∧ k < fm.elemBytes ∧ B = fmAddr fm y x c + k :=
  Footprint.fmPieces_bytes_iff fm y0 x0 c0 B

/-- NHWC, 2 tiles side by side (width0 = 2 of width 4), 3 of 8 channels used: one piece per pixel -/
def exNhwc : FM :=
  { region := 1, base := [0, 1000, 0, 0], height0 := 4, height1 := 4, width0 := 2, strideX := 8, strideY := 32,
    strideC := 0, height := 2, width := 4, depth := 3, elemBytes := 1, signed := true, nhcwb16 := false, zeroPoint := 0 }
/-- NHCWB16, 20 channels (one full brick + a 4-channel remainder), int16 -/
def exB16 : FM :=
  { region := 1, base := [0, 0, 0, 0], height0 := 8, height1 := 8, width0 := 8, strideX := 0, strideY := 256,
    strideC := 128, height := 2, width := 4, depth := 20, elemBytes := 2, signed := true, nhcwb16 := true, zeroPoint := 0 }

example : fmPieces exNhwc 5 0 0 =
    [⟨0, 3, 160⟩, ⟨8, 3, 160⟩, ⟨1000, 3, -824⟩, ⟨1008, 3, -824⟩, ⟨32, 3, 160⟩, ⟨40, 3, 160⟩, ⟨1032, 3, -824⟩, ⟨1040, 3, -824⟩] := by
  decide
example : fmPieces exB16 0 0 16 = [⟨0, 136, 128⟩, ⟨160, 8, 128⟩, ⟨192, 8, 128⟩, ⟨224, 8, 128⟩,
    ⟨256, 136, 128⟩, ⟨416, 8, 128⟩, ⟨448, 8, 128⟩, ⟨480, 8, 128⟩] := by decide
example : 1 < exB16.height ∧ 3 < exB16.width ∧ 19 < exB16.depth ∧ 1 < exB16.elemBytes ∧
    (exB16.nhcwb16 = true → 16 % 16 = 0) ∧ fmAddr exB16 1 3 19 + 1 = 487 ∧
    (canon exB16 (1 + 0) (3 + 0) (19 + 16) : Int) - (fmAddr exB16 1 3 19 : Int) = 128 := by decide

/-! ### per-tile shifted footprint (`fmPiecesS`, used by the C03 machine)

An operation may displace the base of each tile by its own offset (`tile_base_offsets`); the tag of a piece
lying in tile `t` is then `canon − fmAddr + shifts[t]`. The bytes are those of `fmPieces` (so the bounds
check, which uses `fmPieces`, covers them), only the tags differ. -/

/-- 8S. coverage: the piece containing a byte of element `(y, x, c)` carries
    `canon − fmAddr + shifts[tileOf fm y x]` (`tileOf` = the tile selection of `fmAddr`) -/
theorem fmPiecesS_covers (fm : FM) (y0 x0 c0 : Nat) (shifts : List Int) (y x c k : Nat)
    (hy : y < fm.height) (hx : x < fm.width) (hc : c < fm.depth) (hk : k < fm.elemBytes) :
    ∃ p ∈ fmPiecesS fm y0 x0 c0 shifts, (p.addr ≤ fmAddr fm y x c + k ∧ fmAddr fm y x c + k < p.addr + p.len) ∧
      ((fm.nhcwb16 = true → c0 % 16 = 0) →
        p.delta = (canon fm (y + y0) (x + x0) (c + c0) : Int) - (fmAddr fm y x c : Int) +
          tileShift shifts (tileOf fm y x)) :=
  Footprint.fmPiecesS_covers fm y0 x0 c0 shifts y x c k hy hx hc hk

/-- 9S. exactness of the shifted footprint -/
theorem fmPiecesS_exact (fm : FM) (y0 x0 c0 : Nat) (shifts : List Int) (p : Piece)
    (hp : p ∈ fmPiecesS fm y0 x0 c0 shifts) (B : Nat) (hB : p.addr ≤ B ∧ B < p.addr + p.len) :
    ∃ y x c k, y < fm.height ∧ x < fm.width ∧ c < fm.depth ∧ k < fm.elemBytes ∧ B = fmAddr fm y x c + k ∧
      ((fm.nhcwb16 = true → c0 % 16 = 0) →
        p.delta = (canon fm (y + y0) (x + x0) (c + c0) : Int) - (fmAddr fm y x c : Int) +
          tileShift shifts (tileOf fm y x)) :=
  Footprint.fmPiecesS_exact fm y0 x0 c0 shifts p hp B hB

/-- the shifts change tags only: same bytes as `fmPieces` -/
theorem fmPiecesS_bytes_iff (fm : FM) (y0 x0 c0 : Nat) (shifts : List Int) (B : Nat) :
    (∃ p ∈ fmPiecesS fm y0 x0 c0 shifts, p.addr ≤ B ∧ B < p.addr + p.len) ↔
      (∃ p ∈ fmPieces fm y0 x0 c0, p.addr ≤ B ∧ B < p.addr + p.len) :=
  Footprint.fmPiecesS_bytes_iff fm y0 x0 c0 shifts B

/-- with the same shift `s` on all four tiles `fmPiecesS` is `fmPieces` with every tag shifted by `s` — exactly
    what the former single-shift checker compared against; in particular no shift gives `fmPieces` -/
theorem fmPiecesS_uniform (fm : FM) (y0 x0 c0 : Nat) (shifts : List Int) (s : Int)
    (h : ∀ t, t < 4 → tileShift shifts t = s) :
    fmPiecesS fm y0 x0 c0 shifts = shiftPieces s (fmPieces fm y0 x0 c0) :=
  Footprint.fmPiecesS_uniform fm y0 x0 c0 shifts s h

theorem fmPiecesS_zero (fm : FM) (y0 x0 c0 : Nat) : fmPiecesS fm y0 x0 c0 [0, 0, 0, 0] = fmPieces fm y0 x0 c0 :=
  Footprint.fmPiecesS_zero fm y0 x0 c0

/-- the two tiles of `exNhwc` (bases 0 and 1000) with different shifts: each piece gets its own tile's shift -/
example : fmPiecesS exNhwc 5 0 0 [4, -9, 0, 0] =
    [⟨0, 3, 164⟩, ⟨8, 3, 164⟩, ⟨1000, 3, -833⟩, ⟨1008, 3, -833⟩, ⟨32, 3, 164⟩, ⟨40, 3, 164⟩, ⟨1032, 3, -833⟩, ⟨1040, 3, -833⟩] := by
  decide
example : tileOf exNhwc 1 3 = 1 ∧ tileOf exNhwc 1 1 = 0 ∧ tileOf exNhwc 5 3 = 3 ∧ tileOf exNhwc 4 0 = 2 := by decide
example : ∀ t, t < 4 → tileShift [7, 7, 7, 7] t = 7 := by decide

/-! ## the bounds check at element granularity -/

/-- If `checkAccessBounds` reports nothing for a feature-map access then the region is published and every
    byte of every addressed element lies below its extent (no alignment side condition: only the address
    part of `fmPieces_covers` is used). -/
theorem checkBounds_sound_elements (e : Env) (idx region : Nat) (write : Bool) (what : String) (fm : FM)
    (y0 x0 c0 : Nat) (h : checkAccessBounds e idx ⟨region, write, what, fmPieces fm y0 x0 c0⟩ = []) :
    ∃ ext, e.extent region = some ext ∧
      (∀ y x c k, y < fm.height → x < fm.width → c < fm.depth → k < fm.elemBytes → fmAddr fm y x c + k < ext) ∧
      ¬ (write = true ∧ region = e.constRegion) := by
  obtain ⟨ext, hext, hall, hw⟩ := checkAccessBounds_sound e idx _ h
  refine ⟨ext, hext, ?_, hw⟩
  intro y x c k hy hx hc hk
  obtain ⟨p, hp, hcov, _⟩ := Footprint.fmPieces_covers fm y0 x0 c0 y x c k hy hx hc hk
  exact hall p hp _ hcov.1 hcov.2

example : checkAccessBounds { extents := [(1, 1043)], shramBytes := 16384, lutBase := 14336 } 0
    ⟨1, false, "IFM", fmPieces exNhwc 5 0 0⟩ = [] := by decide
example : checkAccessBounds { extents := [(1, 1042)], shramBytes := 16384, lutBase := 14336 } 0
    ⟨1, false, "IFM", fmPieces exNhwc 5 0 0⟩ ≠ [] := by decide

/-- Whole stream: if `checkBounds` reports nothing then every access of every executed operation is inside
    its published region, and nothing writes the constants region. -/
theorem checkBounds_sound (e : Env) (ops : List DecOp) (infos : List Info) (h : checkBounds e ops infos = []) :
    ∀ oi ∈ ops.zip infos, ∀ a ∈ accessesOf oi.1 oi.2 e,
      ∃ ext, e.extent a.region = some ext ∧ (∀ p ∈ a.pieces, ∀ b, p.addr ≤ b → b < p.addr + p.len → b < ext) ∧
        ¬ (a.write = true ∧ a.region = e.constRegion) := by
  intro oi hoi a ha
  unfold checkBounds at h
  rw [List.flatMap_eq_nil_iff] at h
  rw [← zipIdx_map_fst (ops.zip infos) 0, List.mem_map] at hoi
  obtain ⟨⟨oi', idx⟩, hmem, rfl⟩ := hoi
  have h1 := h _ hmem
  simp only at h1
  rw [List.flatMap_eq_nil_iff] at h1
  exact checkAccessBounds_sound e idx a (h1 a ha)

/-- … in particular every byte of every IFM and OFM element of every block operation -/
theorem checkBounds_sound_block_elements (e : Env) (ops : List DecOp) (infos : List Info)
    (h : checkBounds e ops infos = []) (b : BlockOp) (i : OpInfo) (hmem : (DecOp.block b, Info.block i) ∈ ops.zip infos) :
    (∃ ext, e.extent b.ifm.region = some ext ∧ ∀ y x c k, y < b.ifm.height → x < b.ifm.width → c < b.ifm.depth →
        k < b.ifm.elemBytes → fmAddr b.ifm y x c + k < ext) ∧
    (∃ ext, e.extent b.ofm.region = some ext ∧ b.ofm.region ≠ e.constRegion ∧
        ∀ y x c k, y < b.ofm.height → x < b.ofm.width → c < b.ofm.depth →
        k < b.ofm.elemBytes → fmAddr b.ofm y x c + k < ext) := by
  have hall := checkBounds_sound e ops infos h _ hmem
  have hI : (⟨b.ifm.region, false, "IFM", fmPieces b.ifm i.ifm.y0 i.ifm.x0 i.ifm.c0⟩ : Access) ∈
      accessesOf (DecOp.block b) (Info.block i) e := by
    show _ ∈ blockAccesses b i e
    unfold blockAccesses
    simp only [List.mem_append, List.mem_singleton, true_or]
  have hO : (⟨b.ofm.region, true, "OFM", fmPieces b.ofm i.ofm.y0 i.ofm.x0 i.ofm.c0⟩ : Access) ∈
      accessesOf (DecOp.block b) (Info.block i) e := by
    show _ ∈ blockAccesses b i e
    unfold blockAccesses
    simp only [List.mem_append, List.mem_singleton, or_true]
  constructor
  · obtain ⟨ext, hext, hp, _⟩ := hall _ hI
    refine ⟨ext, hext, ?_⟩
    intro y x c k hy hx hc hk
    obtain ⟨p, hpm, hcov, _⟩ := Footprint.fmPieces_covers b.ifm i.ifm.y0 i.ifm.x0 i.ifm.c0 y x c k hy hx hc hk
    exact hp p hpm _ hcov.1 hcov.2
  · obtain ⟨ext, hext, hp, hw⟩ := hall _ hO
    refine ⟨ext, hext, fun hc => hw ⟨rfl, hc⟩, ?_⟩
    intro y x c k hy hx hc hk
    obtain ⟨p, hpm, hcov, _⟩ := Footprint.fmPieces_covers b.ofm i.ofm.y0 i.ofm.x0 i.ofm.c0 y x c k hy hx hc hk
    exact hp p hpm _ hcov.1 hcov.2

def exBlock : BlockOp := { (default : BlockOp) with ifm := exNhwc, ofm := { exB16 with region := 2 } }
def exInfo : OpInfo :=
  { ifm := ⟨7, 5, 0, 0, [0, 0, 0, 0]⟩, ifm2 := default, ofm := ⟨8, 0, 0, 16, [0, 0, 0, 0]⟩, wsrc := [], ssrc := [], lutsrc := -1, lutLen := 0 }
example : checkBounds { extents := [(0, 64), (1, 1043), (2, 488)], shramBytes := 16384, lutBase := 14336 }
    [.block exBlock] [.block exInfo] = [] := by decide
example : checkBounds { extents := [(0, 64), (1, 1043), (2, 487)], shramBytes := 16384, lutBase := 14336 }
    [.block exBlock] [.block exInfo] ≠ [] := by decide

end VelaVerif.Props.C02
