import VelaVerif.Spec.Mem
/-!
# C02 — every NPU memory access stays inside the region the output model declares

The run-time verdict is `Mem.checkBounds` applied to each emitted stream. This file proves that the
range-based checker is sound for the byte-level statement.
-/
namespace VelaVerif.Props.C02
open VelaVerif.Footprint VelaVerif.Mem

/-- Every piece lies inside the hull `Footprint.hull` computes. -/
theorem hull_covers (ps : List Piece) (lo hi : Nat) (h : hull ps = some (lo, hi)) :
    ∀ p ∈ ps, lo ≤ p.addr ∧ p.addr + p.len ≤ hi := by
  cases ps with
  | nil => simp [hull] at h
  | cons p0 rest =>
    simp only [hull, Option.some.injEq] at h
    -- generalise the fold accumulator
    have key : ∀ (l : List Piece) (a : Nat × Nat),
        let r := l.foldl (fun (acc : Nat × Nat) q => (min acc.1 q.addr, max acc.2 (q.addr + q.len))) a
        r.1 ≤ a.1 ∧ a.2 ≤ r.2 ∧ ∀ q ∈ l, r.1 ≤ q.addr ∧ q.addr + q.len ≤ r.2 := by
      intro l
      induction l with
      | nil => intro a; simp
      | cons q l ih =>
        intro a
        have := ih (min a.1 q.addr, max a.2 (q.addr + q.len))
        simp only [List.foldl_cons, List.mem_cons, forall_eq_or_imp] at this ⊢
        obtain ⟨h1, h2, h3⟩ := this
        refine ⟨by omega, by omega, ⟨by omega, by omega⟩, h3⟩
    have k := key rest (p0.addr, p0.addr + p0.len)
    rw [h] at k
    simp only at k
    intro p hp
    rcases List.mem_cons.mp hp with rfl | hp
    · omega
    · exact k.2.2 p hp

/-- Soundness of the bounds check for one access: if `checkAccessBounds` reports nothing, then every
    byte of every piece is below the published extent, and a write never names the constants region. -/
theorem checkAccessBounds_sound (e : Env) (idx : Nat) (a : Access) (h : checkAccessBounds e idx a = []) :
    ∃ ext, e.extent a.region = some ext ∧ (∀ p ∈ a.pieces, ∀ b, p.addr ≤ b → b < p.addr + p.len → b < ext) ∧
      ¬ (a.write = true ∧ a.region = e.constRegion) := by
  unfold checkAccessBounds at h
  cases hext : e.extent a.region with
  | none => simp [hext] at h
  | some ext =>
    simp only [hext, List.append_eq_nil_iff] at h
    obtain ⟨hw, hb⟩ := h
    refine ⟨ext, rfl, ?_, ?_⟩
    · intro p hp b hlo hhi
      cases hh : hull a.pieces with
      | none =>
        cases hps : a.pieces with
        | nil => rw [hps] at hp; simp at hp
        | cons q qs => rw [hps] at hh; simp [hull] at hh
      | some lohi =>
        obtain ⟨lo, hi⟩ := lohi
        rw [hh] at hb
        have hle : ¬ hi > ext := by
          intro hgt; simp [hgt] at hb
        have := hull_covers a.pieces lo hi hh p hp
        omega
    · intro hc
      simp [hc.1, hc.2] at hw

example : checkAccessBounds { extents := [(1, 100)], shramBytes := 16384, lutBase := 14336 } 0
    ⟨1, true, "OFM", [⟨0, 64, 0⟩, ⟨64, 32, 0⟩]⟩ = [] := by decide

end VelaVerif.Props.C02
