import VelaVerif.Lemmas.SrcTensor
/-!
# C02 (source tie) — translated `tensor.py` address arithmetic equals `Model/TensorAddr.lean`

`Gen/SrcTensor.lean` is regenerated from the source text of `ethosu/vela/tensor.py` on every run
(`harness/py2lean.py`, plug-in `harness/tables/src_tensor.py`).  `self` is a record: the attributes read
(`self.alignment`, `self.element_size()`, `self.shape`, `self.format == TensorFormat.NHCWB16`) are parameters.
Opaque (parameters, entry assumptions): the list returned by `self.get_augmented_shape(shape4D)` (slices: outside the
translated subset; `SrcTensor.augmented` states what it returns for the model's 4-D view), the initial
`stride = self.element_size() * self.storage_compression_scale` (a float product: the theorem takes the integer element
size, i.e. a compression scale of 1), and in `storage_size_for_shape` the result of `shape_num_elements` — which is
translated and tied on its own (`src_shape_num_elements_eq_model`).
-/
namespace VelaVerif.Props.C02Src
open VelaVerif VelaVerif.PyRt VelaVerif.TensorAddr VelaVerif.SrcTensor
open VelaVerif.Gen.SrcTensor VelaVerif.Gen.SrcNumericUtil

/-- `Tensor.get_strides(shape4D)`: for every tensor whose format is NHWC or NHCWB16, every operator shape (or none),
    whenever the model's 4-D storage view exists (`viewShape`: rank ≤ 4), the translated function — stores into the
    `strides` list in the source's stride order, products with the augmented shape — returns the model's five strides
    in Python's list order -/
theorem src_get_strides_eq_model (t : Tens) (op : Option S4) (v : S4) (hv : viewShape t op = .ok v)
    (hf : t.fmt ≠ .other) (sh : Option (Num × Num × Num × Num)) :
    ∃ st, getStrides t op = .ok st ∧
      Tensor__get_strides sh (t.fmt == .nhcwb16) (augmented t.fmt v) (.py t.elemSize) = .ok (stridesList st) := by
  unfold getStrides
  cases hfmt : t.fmt with
  | other => exact absurd hfmt hf
  | nhwc =>
    refine ⟨_, by simp only [hv, stridesOfView]; rfl, ?_⟩
    exact get_strides_nhwc sh t.elemSize v
  | nhcwb16 =>
    refine ⟨_, by simp only [hv, stridesOfView]; rfl, ?_⟩
    exact get_strides_nhcwb16 sh t.elemSize v

/-- non-vacuous: an NHCWB16 feature map `[1, 5, 7, 20]` of 16-bit elements, storage depth rounded to 32 -/
example : ∃ t v, viewShape t none = .ok v ∧ t.fmt ≠ .other ∧
    getStrides t none = .ok ⟨7 * 32 * 2 * 5, 16 * 2 * 7, 7 * 32 * 2, 16 * 2, 2⟩ :=
  ⟨{ shape := [1, 5, 7, 20], storageShape := [1, 5, 7, 32], fmt := .nhcwb16, quantum := ⟨1, 1, 1, 16⟩, elemSize := 2 },
    ⟨1, 5, 7, 32⟩, rfl, by decide, rfl⟩

/-- `shape_num_elements(shp)` on a list of naturals: the product (`Some`; the `None` paths need a `None` entry) -/
theorem src_shape_num_elements_eq_model (l : List Nat) :
    shape_num_elements (pyList l) = .ok (some (.py ((prod l : Nat) : Int))) :=
  num_elements_py l

/-- `Tensor.storage_size_for_shape(op_storage_shape)` given the element count `shape_num_elements` returned:
    `ZeroDivisionError` exactly when the model says so (alignment 0), the model's size otherwise — every element
    count, element size and alignment; the argument list itself is not read after the opaque call -/
theorem src_storage_size_for_shape_eq_model (shp : List Num) (elems e a : Nat) :
    match sizeOfElems elems e a with
    | .ok r => Tensor__storage_size_for_shape shp (.py a) (.py e) (.py elems) = .ok (.py (r : Int))
    | .error _ => Tensor__storage_size_for_shape shp (.py a) (.py e) (.py elems) = .error .zerodiv := by
  unfold sizeOfElems
  by_cases ha : a = 0
  · subst ha
    simp only [if_true]
    py_exec [Tensor__storage_size_for_shape, round_up_to_int, Num.ceil, Num.int, SrcNumericUtil.round_up_zero,
      (show ((0 : Nat) : Int) = 0 from rfl)]
    all_goals (try py_finish)
  · have hpos : 0 < a := Nat.pos_of_ne_zero ha
    simp only [ha, if_false]
    exact storage_size_pos shp elems e a hpos

/-- `Tensor.get_full_shape()` for every shape list of naturals (`self.shape`) -/
theorem src_get_full_shape_eq_model (l : List Nat) :
    Tensor__get_full_shape (pyList l) = .ok (pyList (getFullShape l)) :=
  get_full_shape_py l

end VelaVerif.Props.C02Src
