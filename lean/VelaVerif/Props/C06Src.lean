import VelaVerif.Lemmas.SrcBlockdep
import VelaVerif.Gen.SrcArchitectureFeatures
import VelaVerif.Gen.SrcRegisterCommandStreamUtil
/-!
# C06 (source tie) — translated helpers of `register_command_stream_util.py` (BLOCKDEP) equal
`Model/Blockdep.lean`

`Gen/SrcRegisterCommandStreamUtil.lean` is regenerated from the source text on every run.  The record
parameters (`PointXYZ`, `NpuShape3D`) are read attribute by attribute; each attribute path is a
parameter of the translated function (in alphabetical order of the paths).
-/
namespace VelaVerif.Props.C06Src
open VelaVerif VelaVerif.PyRt VelaVerif.Blockdep VelaVerif.SrcBlockdep
open VelaVerif.Gen.SrcRegisterCommandStreamUtil

/-- `coords_intersect(start_a, end_a, start_b, end_b)` for all integer coordinates -/
theorem src_coords_intersect_eq_model (sa ea sb eb : Pt) :
    coords_intersect (.py ea.x) (.py ea.y) (.py ea.z) (.py eb.x) (.py eb.y) (.py eb.z)
        (.py sa.x) (.py sa.y) (.py sa.z) (.py sb.x) (.py sb.y) (.py sb.z) =
      .ok (coordsIntersect sa ea sb eb) := by
  unfold coordsIntersect
  py_exec [coords_intersect]
  repeat' py_split1
  all_goals
    simp only [Except.ok.injEq, decide_true, decide_false, Bool.true_and, Bool.false_and, Bool.and_true, Bool.and_false,
      gt_iff_lt, *]

/-- `shape3d_size(shape)` -/
theorem src_shape3d_size_eq_model (s : NpuAccess.Shape3) :
    shape3d_size (.py s.depth) (.py s.height) (.py s.width) = .ok (.py (shapeSize s)) := by
  unfold shapeSize
  py_exec [shape3d_size]

/-- `get_offset_block_coords(area, block, offset)` for an area at the origin with non-negative size and a
    block with positive dimensions: raises (`ZeroDivisionError`, empty area) exactly when the model says
    `none`, returns `None` / the `PointXYZ` the model computes otherwise — for every offset, including the
    negative indices that `offset < -total_blocks` produces -/
theorem src_get_offset_block_coords_eq_model (size block : Blk3) (offset : Int)
    (hb : 0 < block.width ∧ 0 < block.height ∧ 0 < block.depth)
    (hs : 0 ≤ size.width ∧ 0 ≤ size.height ∧ 0 ≤ size.depth) :
    RelPt (get_offset_block_coords (.py offset) (.py size.depth) (.py size.height) (.py size.width)
        (.py 0) (.py 0) (.py 0) (.py block.depth) (.py block.height) (.py block.width))
      (getOffsetBlockCoords size block offset) :=
  gobc size block offset hb hs

/-- `get_prev_job_output_volume(ofm, ofm_block, block_offset)`, same domain -/
theorem src_get_prev_job_output_volume_eq_model (size block : Blk3) (blockOffset : Int)
    (hb : 0 < block.width ∧ 0 < block.height ∧ 0 < block.depth)
    (hs : 0 ≤ size.width ∧ 0 ≤ size.height ∧ 0 ≤ size.depth) :
    RelArea (get_prev_job_output_volume (.py blockOffset) (.py size.depth) (.py size.height) (.py size.width)
        (.py 0) (.py 0) (.py 0) (.py block.depth) (.py block.height) (.py block.width))
      (getPrevJobOutputVolume size block blockOffset) :=
  gpjov size block blockOffset hb hs

/-- `get_first_job_input_volume(arch, ifm, ofm, ifm_block_depth, ofm_block, kernel, padding, block_offset)`;
    `arch.get_ifm_block_size(..)` is opaque: its `width / height / depth` are the model's `getIfmBlockSize` -/
theorem src_get_first_job_input_volume_eq_model (a : Gen.AccRow) (ifmSize ofmSize : Blk3) (ifmBlockDepth : Int)
    (ofmBlock : Blk3) (k : NpuAccess.Kernel) (p : NpuAccess.Padding) (blockOffset : Int)
    (hb : 0 < ofmBlock.width ∧ 0 < ofmBlock.height ∧ 0 < ofmBlock.depth)
    (hs : 0 ≤ ofmSize.width ∧ 0 ≤ ofmSize.height ∧ 0 ≤ ofmSize.depth) (hibd : 0 < ifmBlockDepth)
    (hid : 0 ≤ ifmSize.depth) :
    let B := getIfmBlockSize a ifmBlockDepth ofmBlock k a.ofmBlockMax.width a.ofmBlockMax.height
    RelArea (get_first_job_input_volume (.py ifmBlockDepth) (.py blockOffset) (.py ifmSize.depth) (.py 0)
        (.py B.depth) (.py B.height) (.py B.width) (.py k.strideX) (.py k.strideY)
        (.py ofmSize.depth) (.py ofmSize.height) (.py ofmSize.width) (.py 0) (.py 0) (.py 0)
        (.py ofmBlock.depth) (.py ofmBlock.height) (.py ofmBlock.width) (.py p.left) (.py p.top))
      (getFirstJobInputVolume a ifmSize ofmSize ifmBlockDepth ofmBlock k p blockOffset) :=
  gfjiv a ifmSize ofmSize ifmBlockDepth ofmBlock k p blockOffset hb hs hibd hid

/-- `ArchitectureFeatures.calc_ifm_block_depth(ifm_depth, ifm_bits)` (`self.ifm_ublock.depth` is the only
    attribute read; positive for every accelerator row): asserts exactly where the model says `none`,
    the model's value otherwise -/
theorem src_calc_ifm_block_depth_eq_model (a : Gen.AccRow) (ifmDepth ifmBits : Int) (hu : 0 < a.ifmUblock.depth) :
    match calcIfmBlockDepth a ifmDepth ifmBits with
    | none => Gen.SrcArchitectureFeatures.ArchitectureFeatures__calc_ifm_block_depth (.py ifmDepth) (.py ifmBits)
        (.py a.ifmUblock.depth) = .error .assert_
    | some v => Gen.SrcArchitectureFeatures.ArchitectureFeatures__calc_ifm_block_depth (.py ifmDepth) (.py ifmBits)
        (.py a.ifmUblock.depth) = .ok (.py v) := by
  unfold calcIfmBlockDepth NpuAccess.roundUp
  have hr := SrcNumericUtil.round_up_py ifmDepth a.ifmUblock.depth (by omega)
  by_cases hb : ifmBits = 8 ∨ ifmBits = 16 ∨ ifmBits = 32
  · by_cases hd : ifmDepth > 0
    · simp only [hb, hd, not_true_eq_false, if_false]
      rcases hb with rfl | rfl | rfl <;>
      · py_exec [Gen.SrcArchitectureFeatures.ArchitectureFeatures__calc_ifm_block_depth, hr, if_pos, if_neg, hd]
    · simp only [hb, hd, not_true_eq_false, not_false_eq_true, if_false, if_true]
      rcases hb with rfl | rfl | rfl <;>
      · py_exec [Gen.SrcArchitectureFeatures.ArchitectureFeatures__calc_ifm_block_depth, if_pos, if_neg, hd]
  · simp only [hb, not_false_eq_true, if_true]
    have h8 : ¬ ifmBits = 8 := fun h => hb (Or.inl h)
    have h16 : ¬ ifmBits = 16 := fun h => hb (Or.inr (Or.inl h))
    have h32 : ¬ ifmBits = 32 := fun h => hb (Or.inr (Or.inr h))
    py_exec [Gen.SrcArchitectureFeatures.ArchitectureFeatures__calc_ifm_block_depth, if_pos, if_neg, h8, h16, h32]

end VelaVerif.Props.C06Src
