import VelaVerif.Lemmas.PyRt
import VelaVerif.Model.Blockdep
import VelaVerif.Gen.SrcRegisterCommandStreamUtil
/-!
# C06 (source tie) — translated helpers of `register_command_stream_util.py` (BLOCKDEP) equal
`Model/Blockdep.lean`

`Gen/SrcRegisterCommandStreamUtil.lean` is regenerated from the source text on every run.  The record
parameters (`PointXYZ`, `NpuShape3D`) are read attribute by attribute; each attribute path is a
parameter of the translated function (in alphabetical order of the paths).
-/
namespace VelaVerif.Props.C06Src
open VelaVerif VelaVerif.PyRt VelaVerif.Blockdep
open VelaVerif.Gen.SrcRegisterCommandStreamUtil

/-- `coords_intersect(start_a, end_a, start_b, end_b)` for all integer coordinates -/
theorem src_coords_intersect_eq_model (sa ea sb eb : Pt) :
    coords_intersect (.py ea.x) (.py ea.y) (.py ea.z) (.py eb.x) (.py eb.y) (.py eb.z)
        (.py sa.x) (.py sa.y) (.py sa.z) (.py sb.x) (.py sb.y) (.py sb.z) =
      .ok (coordsIntersect sa ea sb eb) := by
  unfold coordsIntersect
  py_exec [coords_intersect]
  repeat' py_split1
  all_goals
    simp only [Except.ok.injEq, decide_true, decide_false, Bool.true_and, Bool.false_and, Bool.and_true, Bool.and_false,
      gt_iff_lt, *]

/-- `shape3d_size(shape)` -/
theorem src_shape3d_size_eq_model (s : NpuAccess.Shape3) :
    shape3d_size (.py s.depth) (.py s.height) (.py s.width) = .ok (.py (shapeSize s)) := by
  unfold shapeSize
  py_exec [shape3d_size]

end VelaVerif.Props.C06Src
