import VelaVerif.Model.SliceRead
/-!
# C01 — slice reads moved onto consumers (`remove_SplitSliceRead`, `move_splitsliceread_to_consumer`: findings C01-8 / C01-9 / C01-14)

Model `Model/SliceRead.lean`, compared with the real functions by `harness/c01_packing.py` (`run_slices`).
-/
namespace VelaVerif.Props.C01Slice
open VelaVerif.SliceRead

theorem addShape_assoc : ∀ (a b c : Shape), addShape a (addShape b c) = addShape (addShape a b) c
  | [], _, _ => by simp [addShape]
  | _ :: _, [], _ => by simp [addShape]
  | _ :: _, _ :: _, [] => by simp [addShape]
  | x :: a, y :: b, z :: c => by
    have := addShape_assoc a b c
    simp only [addShape, List.zipWith_cons_cons, List.cons.injEq] at this ⊢
    exact ⟨by omega, this⟩

/-- **slice of a slice (C01-8).** A consumer that already reads its input through offset `o2` - relative to the slice - and gets the
    read of the slice (offset `o1`) moved onto it, reads the slice's INPUT through `o1 + o2`: every element it sees is the element
    it saw before. This is the offset `move_to_input` computes. -/
theorem slice_of_slice_read {α : Type} (X : List Int → α) (o1 o2 : Shape) :
    readAt (readAt X o1) o2 = readAt X (addShape o1 o2) := by
  funext i
  simp only [readAt, addShape_assoc]

/-- the model's `moveToInput` establishes exactly that offset, and keeps the consumer's (smaller) read shape -/
theorem moveToInput_offset (s : Slice) (o2 : Shape) (shp : Option Shape) :
    moveToInput Rules.current s (some o2) shp = (some (addShape s.readOffset o2), shp) ∧
    moveToInput Rules.current s none shp = (some s.readOffset, some s.readShape) := ⟨rfl, rfl⟩

/-- the unrepaired rule replaced the consumer's offset by the slice's: a different element -/
theorem slice_of_slice_old_rule_witness :
    let s : Slice := ⟨[1, 6, 6, 8], [1, 5, 4, 8], [1, 5, 4, 8], [0, 1, 2, 0], [1, 5, 4, 8]⟩
    let X : List Int → Int := fun i => i.foldl (fun acc v => acc * 10 + v) 0
    (moveToInput { Rules.current with addOffsets := false } s (some [0, 2, 1, 4]) (some [1, 2, 2, 4])).1 = some [0, 1, 2, 0] ∧
    readAt X [0, 1, 2, 0] [0, 0, 0, 0] ≠ readAt (readAt X [0, 1, 2, 0]) [0, 2, 1, 4] [0, 0, 0, 0] := by decide

/-- **C01-9** a consumer that views the slice in another shape (a strided convolution whose width was folded into the channels):
    the repaired rule keeps the read in an average pool of its own, the old rule moved it -/
theorem reshaped_consumer_witness :
    let s : Slice := ⟨[1, 6, 6, 4], [1, 2, 2, 4], [1, 2, 2, 4], [0, 1, 2, 0], [1, 2, 2, 4]⟩
    let c : Consumer := { ifmShapes := [[1, 2, 1, 8]], ofmShapes := [[1, 1, 1, 4]] }
    folds Rules.current s [c] = some false ∧ folds { Rules.current with shapeCheck := false } s [c] = some true := by decide

/-- **C01-14** a Memcpy (a RESHAPE kept as a copy) copies the whole tensor: the read is not moved onto it -/
theorem memcpy_consumer_witness :
    let s : Slice := ⟨[1, 6, 6, 4], [1, 2, 2, 4], [1, 2, 2, 4], [0, 1, 2, 0], [1, 2, 2, 4]⟩
    let c : Consumer := { isMemcpy := true, ifmShapes := [[1, 2, 2, 4]], ofmShapes := [[1, 2, 2, 4]] }
    folds Rules.current s [c] = some false ∧ folds { Rules.current with memcpyCheck := false } s [c] = some true := by decide

/-- the read moves only when EVERY reader of the slice can take it over: one graph output, CPU operator, memory-only operator,
    Mul, Memcpy, former Transpose or reshaping reader keeps it in a pool of its own -/
theorem folds_all (s : Slice) (cs : List Consumer) (h : folds Rules.current s cs = some true) :
    s.ofmShape = s.ofmTensorShape ∧ ∀ c ∈ cs, c.isNone = false ∧ c.runOnNpu = true ∧ c.memoryOnly = false ∧ c.isMul = false ∧
      c.isMemcpy = false ∧ c.origTranspose = false ∧ readsOwnShape s c = some true := by
  unfold folds at h
  split at h
  · rename_i hs
    refine ⟨by simpa using hs, ?_⟩
    induction cs with
    | nil => simp
    | cons c rest ih =>
      simp only [allOk] at h
      cases hc : consumerOk Rules.current s c with
      | none => simp [hc] at h
      | some b =>
        cases b with
        | false => simp [hc] at h
        | true =>
          simp only [hc] at h
          intro c' hc'
          rcases List.mem_cons.mp hc' with rfl | hc'
          · unfold consumerOk at hc
            simp only [Rules.current, Bool.true_and] at hc
            cases h1 : c'.isNone <;> cases h2 : c'.runOnNpu <;> cases h3 : c'.memoryOnly <;> cases h4 : c'.isMul <;>
              cases h5 : c'.isMemcpy <;> cases h6 : c'.origTranspose <;> simp_all
          · exact ih h c' hc'
  · simp at h

/-- `bypass_memory_only_ops` removes the input tensor of a memory-only operator only when nobody else reads it and no CPU
    operator writes it; otherwise the operator stays as a copy (Memcpy) -/
theorem bypass_only_when_private (npu mo : Bool) (n : Nat) (prods : List Bool) (h : bypassDecision npu mo n prods = .bypass) :
    npu = true ∧ mo = true ∧ n ≤ 1 ∧ ∀ b ∈ prods, b = true := by
  unfold bypassDecision at h
  split at h
  · cases h
  · rename_i h1
    split at h
    · cases h
    · rename_i h2
      simp only [Bool.or_eq_true, Bool.not_eq_true', not_or, Bool.not_eq_false] at h1
      simp only [Bool.or_eq_true, decide_eq_true_eq, List.any_eq_true, Bool.not_eq_true', not_or, not_exists, not_and,
        Bool.not_eq_false] at h2
      exact ⟨h1.1, h1.2, by omega, h2.2⟩

end VelaVerif.Props.C01Slice
