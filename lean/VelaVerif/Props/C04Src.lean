import VelaVerif.Lemmas.SrcNpuAccess
import VelaVerif.Lemmas.SrcCalcBlockdep
/-!
# C04 (source tie) — translated `numeric_util.round_up` / `round_up_divide` / `overlaps` equal the
helpers of `Model/NpuAccess.lean`

`Gen/SrcNumericUtil.lean` is regenerated from the source text of `ethosu/vela/numeric_util.py` on every
run.  `Model/NpuAccess.lean` (address ranges of feature maps: strides, `get_address`, range overlap)
uses these helpers over `Int` with positive quanta (16, the brick size); for a divisor ≤ 0 Python's
floor division and Lean's `Int` division differ, and for 0 Python raises — hence the hypothesis.
-/
namespace VelaVerif.Props.C04Src
open VelaVerif VelaVerif.PyRt VelaVerif.NpuAccess
open VelaVerif.Gen.SrcNumericUtil VelaVerif.Gen.SrcRegisterCommandStreamUtil

/-- `numeric_util.round_up(a, b)`, all integers `a`, positive `b` -/
theorem src_round_up_eq_model (a b : Int) (hb : 0 < b) :
    round_up (.py a) (.py b) = .ok (.py (roundUp a b)) :=
  SrcNumericUtil.round_up_py a b hb

/-- `numeric_util.round_up_divide(a, b)`, all integers `a`, positive `b` -/
theorem src_round_up_divide_eq_model (a b : Int) (hb : 0 < b) :
    round_up_divide (.py a) (.py b) = .ok (.py (roundUpDivide a b)) :=
  SrcNumericUtil.round_up_divide_py a b hb

/-- for a negative divisor the two differ (Python floors; Lean's `Int` division is the Euclidean one,
    which is the floor only for positive divisors): `round_up(6, -4)` is `(1 floordiv (-4)) * (-4) = 4` in
    Python, while the model's formula evaluates to `0` -/
theorem src_round_up_negative_divisor_witness :
    round_up (.py 6) (.py (-4)) = .ok (.py 4) ∧ roundUp 6 (-4) = 0 := by
  constructor
  · py_exec [round_up]
    rfl
  · decide

/-- `numeric_util.overlaps(start1, end1, start2, end2)`, all integers -/
theorem src_overlaps_eq (s1 e1 s2 e2 : Int) :
    overlaps (.py s1) (.py e1) (.py s2) (.py e2) = .ok (decide (s1 < e2) && decide (s2 < e1)) :=
  SrcNumericUtil.overlaps_py s1 e1 s2 e2

/-- `register_command_stream_util.get_address(fm, strides, y, x, c)`, every feature map, strides and
    coordinate (tile selection, brick arithmetic): the model's address.  `fm.layout == NpuLayout.NHCWB16` /
    `== NpuLayout.NHWC` are boolean attributes of the record (`nhcwb16`, `!nhcwb16`: the two layouts that
    exist), `fm.tiles.addresses` is the list of the four tile base addresses. -/
theorem src_get_address_eq_model (fm : FMap) (strides : Shape3) (y x c : Int) :
    get_address (.py y) (.py x) (.py c) (.py fm.elemBytes) (.py fm.tiles.height0) (.py fm.tiles.height1)
        (.py fm.tiles.width0) (.py strides.depth) (.py strides.height) (.py strides.width)
        [.py fm.tiles.a0, .py fm.tiles.a1, .py fm.tiles.a2, .py fm.tiles.a3] fm.nhcwb16 (!fm.nhcwb16) =
      .ok (.py (getAddress fm strides y x c)) :=
  SrcNpuAccess.ga fm strides y x c

/-- `get_strides(fm)`: explicit strides when `fm.strides is not None`, the layout formulas otherwise
    (`sd sh sw` stand for the attributes of `fm.strides`, which are only read when it is not `None`) -/
theorem src_get_strides_eq_model (fm : FMap) (sd sh sw : Int)
    (hs : ∀ s, fm.strides = some s → s.depth = sd ∧ s.height = sh ∧ s.width = sw) :
    get_strides (.py fm.elemBytes) (.py fm.shape.depth) (.py fm.shape.width) (.py sd) (.py sh) (.py sw)
        (!fm.nhcwb16) fm.strides.isNone =
      .ok (.py (getStrides fm).height, .py (getStrides fm).width, .py (getStrides fm).depth) :=
  SrcNpuAccess.gst fm sd sh sw hs

/-- `get_address_range(fm, strides, y0, x0, c0, y1, x1, c1)` = the model's `NpuAddressRange` -/
theorem src_get_address_range_eq_model (fm : FMap) (strides : Shape3) (y0 x0 c0 y1 x1 c1 : Int) :
    get_address_range (.py y0) (.py x0) (.py c0) (.py y1) (.py x1) (.py c1) (.py fm.elemBytes) (.py fm.region)
        (.py fm.tiles.height0) (.py fm.tiles.height1) (.py fm.tiles.width0) (.py strides.depth) (.py strides.height)
        (.py strides.width) [.py fm.tiles.a0, .py fm.tiles.a1, .py fm.tiles.a2, .py fm.tiles.a3]
        fm.nhcwb16 (!fm.nhcwb16) =
      .ok (SrcNpuAccess.pyAR (getAddressRange fm strides y0 x0 c0 y1 x1 c1)) :=
  SrcNpuAccess.gar fm strides y0 x0 c0 y1 x1 c1

/-- `get_h_ranges(..)`: the list comprehension over `range(y0, y1 + 1)` yields the model's list, any length -/
theorem src_get_h_ranges_eq_model (fm : FMap) (strides : Shape3) (y0 x0 c0 y1 x1 c1 : Int) :
    get_h_ranges (.py y0) (.py x0) (.py c0) (.py y1) (.py x1) (.py c1) (.py fm.elemBytes) (.py fm.region)
        (.py fm.tiles.height0) (.py fm.tiles.height1) (.py fm.tiles.width0) (.py strides.depth) (.py strides.height)
        (.py strides.width) [.py fm.tiles.a0, .py fm.tiles.a1, .py fm.tiles.a2, .py fm.tiles.a3]
        fm.nhcwb16 (!fm.nhcwb16) =
      .ok ((getHRanges fm strides y0 x0 c0 y1 x1 c1).map SrcNpuAccess.pyAR) :=
  SrcNpuAccess.ghr fm strides y0 x0 c0 y1 x1 c1

/-- `get_address_ranges_for_area(fm, start, end)`: strides, clipping to the shape, the four tiles and the
    row-wise ranges — the whole function — equals `NpuAccess.getAddressRangesForArea`, for every feature
    map and every start / end point -/
theorem src_get_address_ranges_for_area_eq_model (fm : FMap) (y0 x0 c0 ey ex ez sd sh sw : Int)
    (hs : ∀ s, fm.strides = some s → s.depth = sd ∧ s.height = sh ∧ s.width = sw) :
    get_address_ranges_for_area (.py ex) (.py ey) (.py ez) (.py fm.elemBytes) (.py fm.region) (.py fm.shape.depth)
        (.py fm.shape.height) (.py fm.shape.width) (.py sd) (.py sh) (.py sw) (.py fm.tiles.height0)
        (.py fm.tiles.height1) (.py fm.tiles.width0) (.py x0) (.py y0) (.py c0)
        [.py fm.tiles.a0, .py fm.tiles.a1, .py fm.tiles.a2, .py fm.tiles.a3] fm.nhcwb16 (!fm.nhcwb16)
        fm.strides.isNone =
      .ok ((getAddressRangesForArea fm y0 x0 c0 ey ex ez).map SrcNpuAccess.pyAR) :=
  SrcNpuAccess.garfa fm y0 x0 c0 ey ex ez sd sh sw hs

/-- `get_address_ranges(fm)`: one range per tile in use; the list returned by the source, without its
    `None` entries (which is how the model represents it), is the model's list -/
theorem src_get_address_ranges_eq_model (fm : FMap) (sd sh sw : Int)
    (hs : ∀ s, fm.strides = some s → s.depth = sd ∧ s.height = sh ∧ s.width = sw) :
    Except.map (List.filterMap id)
      (get_address_ranges (.py fm.elemBytes) (.py fm.region) (.py fm.shape.depth) (.py fm.shape.height)
        (.py fm.shape.width) (.py sd) (.py sh) (.py sw) (.py fm.tiles.height0) (.py fm.tiles.height1)
        (.py fm.tiles.width0) [.py fm.tiles.a0, .py fm.tiles.a1, .py fm.tiles.a2, .py fm.tiles.a3]
        fm.nhcwb16 (!fm.nhcwb16) fm.strides.isNone) =
      .ok ((getAddressRanges fm).map SrcNpuAccess.pyAR) :=
  SrcNpuAccess.gars fm sd sh sw hs

/-- `ranges_overlap(range1, range2)`: same region and overlapping address intervals -/
theorem src_ranges_overlap_eq_model (a b : ARange) :
    ranges_overlap (.py a.address) (.py a.length) (.py a.region) (.py b.address) (.py b.length) (.py b.region) =
      .ok (rangesOverlap a b) :=
  SrcNpuAccess.rov a b

/-- `range_lists_overlap(list1, list2)`: the two nested loops with their `continue` on `None` entries and the
    early `return True`, on lists of any length: the model's `rangeListsOverlap` of the lists without the
    `None`s (which is how the model represents them) -/
theorem src_range_lists_overlap_eq_model (l1 l2 : List (Option ARange)) :
    range_lists_overlap (l1.map SrcNpuAccess.pyOAR) (l2.map SrcNpuAccess.pyOAR) =
      .ok (rangeListsOverlap (l1.filterMap id) (l2.filterMap id)) :=
  SrcNpuAccess.rlo l1 l2

/-! ## `calc_blockdep` itself

The callees that take operation objects are *opaque functions* of the translated definition (parameters applied at
each call site): `get_address_ranges(fm)` (three feature maps), `has_ifm2(npu_op)`, `get_ifm_ofm_block_depth(arch, npu_op)`,
`get_first_job_input_volume(.., ifm_block_depth, .., forward_offset)`, `get_prev_job_output_volume(.., block_offset)`,
`intersects(overlapping_fm, .., prev_op.ofm, ..)`.  What the theorems compare is `calc_blockdep`'s own control flow —
the `None` / LUT / overlap early returns, `range_lists_overlap` on the three range lists, the IFM2 broadcast test, the
two nested `for … in range(MAX_BLOCKDEP)` loops with their `break`s, `min(blockdep, elapsed + outstanding)`, the job
accumulation — against `Blockdep.calcBlockdep`, for anything the opaque functions return that behaves like the model's
functions (`SrcCalcBlockdep.OpaqueOk`; the volume functions are tied to the source in `Props/C06Src.lean`, the address
ranges above).  Not covered: the selection `overlapping_fm = npu_op.ifm if ifm_overlaps else npu_op.ifm2` and the
construction of the rectangles / blocks / kernel handed to the opaque functions (records: not values of the fragment). -/

/-- no previous operation: 0 -/
theorem src_calc_blockdep_no_prev_eq_model (a : Gen.AccRow) (op : BlockOp) (banks d1 h1 w1 d2 h2 w2 : Num)
    (b1 b2 b3 b4 b5 b6 b7 b8 : Bool) (r1 r2 r3 : M (List (Option (Num × Num × Num)))) (hi : M Bool) (ibd : M Num)
    (fin : Num → Num → M (Option SrcCalcBlockdep.Vol)) (fout : Num → M (Option SrcCalcBlockdep.Vol))
    (fhit : (Num × Num × Num) → (Num × Num × Num) → (Num × Num × Num) → (Num × Num × Num) → M Bool) :
    SrcCalcBlockdep.RelNat (calc_blockdep banks d1 h1 w1 d2 h2 w2 b1 b2 b3 b4 b5 true b6 b7 b8 r1 r2 hi r3 ibd fin fout fhit)
      (Blockdep.calcBlockdep a none op) := by
  unfold calc_blockdep
  simp only [if_true]
  exact rfl

/-- `calc_blockdep(arch, prev_op, npu_op)` with a previous operation: for every accelerator row, every pair of
    operations the model classifies (`classify ≠ none`), every list of ranges (with `None` entries) whose non-`None`
    entries are the model's address ranges, every outcome of the opaque volume / intersection functions that agrees
    with the model's (`OpaqueOk`): the translated function raises when the model says `none` and returns the model's
    block dependency otherwise -/
theorem src_calc_blockdep_eq_model (a : Gen.AccRow) (prev op : BlockOp) (lp li l2 : List (Option ARange))
    (hlp : lp.filterMap id = getAddressRanges prev.ofm)
    (hli : li.filterMap id = getAddressRanges op.ifm)
    (hl2 : ∀ f2, op.ifm2 = some f2 → l2.filterMap id = getAddressRanges f2)
    (s2 : Shape3) (hs2 : ∀ f2, op.ifm2 = some f2 → f2.shape = s2)
    (pan plt can clt : Bool) (hp : (!pan && plt) = prev.usesLut) (hc : (!can && clt) = op.usesLut)
    (ibd : M Num) (fin : Num → Num → M (Option SrcCalcBlockdep.Vol)) (fout : Num → M (Option SrcCalcBlockdep.Vol))
    (fhit : (Num × Num × Num) → (Num × Num × Num) → (Num × Num × Num) → (Num × Num × Num) → M Bool)
    (hctx : SrcCalcBlockdep.OpaqueOk a prev op ibd fin fout fhit)
    (hcl : Blockdep.classify a (some prev) op ≠ none) :
    SrcCalcBlockdep.RelNat
      (calc_blockdep (.py a.shramReservedUnusedBanks) (.py op.ifm.shape.depth) (.py op.ifm.shape.height)
        (.py op.ifm.shape.width) (.py s2.depth) (.py s2.height) (.py s2.width) can clt false op.ifm2.isNone false false
        pan plt false (.ok (lp.map SrcNpuAccess.pyOAR)) (.ok (li.map SrcNpuAccess.pyOAR)) (.ok (hasIfm2 op))
        (.ok (l2.map SrcNpuAccess.pyOAR)) ibd fin fout fhit)
      (Blockdep.calcBlockdep a (some prev) op) :=
  SrcCalcBlockdep.calc_blockdep_sim a prev op lp li l2 hlp hli hl2 s2 hs2 pan plt can clt hp hc ibd fin fout fhit hctx hcl

/-- non-vacuous: for every accelerator row and pair of operations there are opaque functions that satisfy `OpaqueOk`
    (the model's own, encoded), and every list of ranges is a list "with `None` entries" of itself -/
example (a : Gen.AccRow) (prev op : BlockOp) :
    (∃ ibd fin fout fhit, SrcCalcBlockdep.OpaqueOk a prev op ibd fin fout fhit) ∧
    ((getAddressRanges prev.ofm).map some).filterMap id = getAddressRanges prev.ofm :=
  ⟨SrcCalcBlockdep.opaqueOk_inhabited a prev op, by simp [List.filterMap_map]⟩

end VelaVerif.Props.C04Src
