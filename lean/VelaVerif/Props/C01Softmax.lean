import VelaVerif.Lemmas.SoftmaxRowL
import VelaVerif.Spec.SoftmaxRef
/-!
# C01 — Vela's 8-bit SOFTMAX decomposition (`softmax.py`, `get_graph_8bit`) against the TFLite integer kernel

Model: `Model/SoftmaxGraph.lean` (`graph8`: the 31 passes as the graph carries them; `lower`: the NPU operation of each);
execution: `Spec/SoftmaxExec.lean` (`runGraph8`: the lowered program on one row, per element the functions of
`Spec/NpuWide.lean` the executor of `check_C01` runs); reference: `Spec/SoftmaxKernel.lean` (`softmaxRow8`).

Main theorem, PROVED (`softmax8_decomposition_eq_reference`): for every parameter set of an 8-bit type (`qmax = qmin + 255` inside the
int16 range — int8 and uint8 —, output zero point = type minimum as TFLite requires), every multiplier / left shift, every
`diff_min ≤ 0` and every row of 1 … 511 codes of the type,

    runGraph8 P (SoftmaxKernel.expTable8 mult ls diffMin) xs = .ok (SoftmaxKernel.softmaxRow8 xs mult ls diffMin P.qmin P.qmax)

bit for bit (the bound 511 is needed: from a sum of exponentials of 2^28 = 512.0 in Q12.19 on the reference calls
`RoundingDivideByPOT` with an exponent above 31 — `softmax8_depth512_witness`).  The table hypothesis is "the LUT tensor is the
reference's table of exponentials"; `softmax8_decomposition_eq_reference_generated_table` restates it for the table C19 proves
`generate_exp_table` to produce (`SoftmaxRef.expTable`, `C19.softmax_exp_table_spec`; `live_lut_is_exp_table` ties the graph's LUT
tensor to that function).  Ingredients:

* the program the theorems are about is the program the live function builds (`graph8_is_live_graph_*`, by `decide` over the
  rows regenerated on every run) and its lowering is `prog8` (`lowered_graph8`);
* passes 0 – 9 (`Lemmas/SoftmaxRowL.head_chain`): maximum (depthwise max pool), SUB + table lookup = `exp_on_negative_values` of the
  rescaled difference (0 below `diff_min`), SHR 12 = `Rescale<12>`, REDUCE_SUM = the reference's wrapping int32 accumulation (no wrap:
  each term ≤ 2^19, ≤ 511 terms), CLZ = `CountLeadingZeros` ∈ [4, 12], SUB / SHL / SUB / SHL = `(sum << headroom) − 2^31`;
* **passes 10 – 28 = gemmlowp `one_over_one_plus_x_for_x_in_0_1`** (`RoundingHalfSum`, the constants 48/17 and −32/17, three
  Newton–Raphson iterations, the final `Rescale<0>`), at the level of values (`passes10_28_eq_one_over_one_plus_x`) and through
  the interpreter on the program (`softmax8_reciprocal_passes_eq_reference_partial`); the ranges that make the wrapping
  additions of the reference and the saturating ones of the NPU agree are PROVED from the range of pass 9's result
  (`nr_invariant_step`), not assumed;
* passes 29 – 30 (`tail_chain`, `tail_value`, from `C01Wide.shr_natural_eq_rdivpot` / `npu_mul31`): MUL shift 31 + SHR NATURAL by
  `35 − headroom` ∈ [23, 31] + zero point + clamp = `RoundingDivideByPOT(SRDHM(scale, exp), num_bits_over_unit + 31 − 8) + min`
  clamped.
-/
namespace VelaVerif.Props.C01Softmax
open VelaVerif VelaVerif.Requant VelaVerif.SoftmaxGraph VelaVerif.SoftmaxExec VelaVerif.Lemmas.SoftmaxArith
  VelaVerif.Lemmas.SoftmaxExecL

/-! ## the model's program is the live graph -/

/-- the rows the plug-in read from the graph `get_graph_8bit` built for an int8 stub are the rows of `graph8` -/
theorem graph8_is_live_graph_int8 : Gen.softmaxGraph8Int8 = (graph8 ⟨3, -128, 127, -128⟩).map Step.row := by decide

/-- … and for a uint8 stub -/
theorem graph8_is_live_graph_uint8 : Gen.softmaxGraph8Uint8 = (graph8 ⟨7, 0, 255, 0⟩).map Step.row := by decide

/-- the table tensor of the LUT activation is what `generate_exp_table` returns (C19's subject) -/
theorem live_lut_is_exp_table : Gen.softmaxGraph8LutIsExpTable = true := by decide

/-- the lowering of the graph is the program `prog8`, for every quantisation of input and output -/
theorem lowered_graph8 (P : Params) : lower P (graph8 P) = some (prog8 P) := lower_graph8 P

/-- the OFM_SCALE of the 32-bit multiplications that realise `SaturatingRoundingDoublingHighMul` is shift 31 — computed by the
    live `scaling.elementwise_mul_scale(1.0, 1.0, 2.0)` -/
theorem mul_scale_1_1_2 : mulScale .one .one .two = some (1073741824, 31) := by decide

/-! ## passes 10 – 28 = `one_over_one_plus_x_for_x_in_0_1` -/

/-- invariant of the Newton–Raphson iteration: with the half denominator `hd ∈ [2^30, 2^31)` and `0 ≤ x ≤ INT32_MAX`,
    `hd·x ≤ 2^61 − 2^56`, one step `x ↦ x + 4·(x·(1 − hd·x))` (fixed point, with the roundings of the doubling high
    multiplications) again satisfies it — in particular the sum does not leave the int32 range, which is where the reference
    (wrapping `+`) and the NPU (saturating output stage) could differ -/
theorem nr_invariant_step (hd x : Int) (h1 : 1073741824 ≤ hd) (h2 : hd ≤ 2147483647) (hi : Inv hd x) :
    Inv hd (nrZ hd x) ∧ SoftmaxKernel.nrStep hd x = nrZ hd x ∧ npuNr hd x = nrZ hd x :=
  ⟨inv_step hd x h1 h2 hi, ref_nr hd x h1 h2 hi, npu_nr hd x h1 h2 hi⟩

/-- **value level**: the 19 NPU operations of passes 10 – 28 (`npuRecip`: ADD with shift 1, MUL shift 31, ADD, 3 × (MUL 31, SUB,
    MUL 31, MUL ×4, ADD), MUL ×2 — each with TFL rounding and the saturating 32-bit output stage) applied to a raw Q0.31 value
    `a ∈ [0, 2^31)` give gemmlowp's `one_over_one_plus_x_for_x_in_0_1(a)`, a value of `[0, INT32_MAX]` -/
theorem passes10_28_eq_one_over_one_plus_x (a : Int) (h0 : 0 ≤ a) (h1 : a ≤ 2147483647) :
    npuRecip a = SoftmaxKernel.oneOverOnePlusX a ∧ 0 ≤ npuRecip a ∧ npuRecip a ≤ 2147483647 :=
  npu_recip_eq a h0 h1

/-- **through the interpreter** (partial: passes 10 – 28 of 31): on every environment whose entry 9 — the OFM of pass 9, the
    normalised sum minus one — is a per-position value `a ∈ [0, 2^31)`, the steps 10 – 28 of the lowered program all succeed,
    add 19 per-position values and the last one, the OFM of pass 28, is the reference's `one_over_one_plus_x_for_x_in_0_1(a)`.
    (Kept under its `_partial` name: it is the middle segment; `softmax8_decomposition_eq_reference` below composes it with
    passes 0 – 9, which establish that entry 9 is `sum·2^headroom − 2^31` with the reference's sum, and passes 29 – 30.) -/
theorem softmax8_reciprocal_passes_eq_reference_partial (P : Params) (table xs : List Int)
    (v0 v1 v2 v3 v4 v5 v6 v7 v8 : Val) (a : Int) (h0 : 0 ≤ a) (h1 : a ≤ 2147483647) :
    ∃ vs : List Val, vs.length = 18 ∧
      runSteps table xs (recipProg P) [v0, v1, v2, v3, v4, v5, v6, v7, v8, .scal a] =
        .ok ([v0, v1, v2, v3, v4, v5, v6, v7, v8, .scal a] ++ vs ++ [.scal (SoftmaxKernel.oneOverOnePlusX a)]) := by
  obtain ⟨vs, hrun, hlen⟩ := recip_chain P table xs v0 v1 v2 v3 v4 v5 v6 v7 v8 a
  exact ⟨vs, hlen, by rw [hrun, (npu_recip_eq a h0 h1).1]⟩

/-- the segment is part of the program: `prog8 = headProg ++ recipProg ++ tailProg` (10 + 19 + 2 steps) -/
theorem prog8_segments (P : Params) :
    prog8 P = headProg P ++ recipProg P ++ tailProg P ∧ (headProg P).length = 10 ∧ (recipProg P).length = 19 ∧
      (tailProg P).length = 2 := ⟨rfl, rfl, rfl, rfl⟩

/-! ## the whole row -/

/-- **the 31-pass decomposition = the TFLite 8-bit kernel, bit for bit, on every row of 1 … 511 codes**: `P` any parameter set of an
    8-bit type (256 codes `qmin … qmax` inside the int16 range the ACTIVATION registers are limited to: int8, uint8), output zero
    point = `qmin` (TFLite's requirement on a SOFTMAX output), any input zero point, any multiplier and left shift, any
    `diff_min ≤ 0`; the table is the reference's table of exponentials (see `…_generated_table` for the generated one) -/
theorem softmax8_decomposition_eq_reference (P : Params) (xs : List Int) (mult : Int) (ls : Nat) (diffMin : Int)
    (hne : xs ≠ []) (hlen : xs.length ≤ 511) (hx : ∀ x ∈ xs, P.qmin ≤ x ∧ x ≤ P.qmax)
    (hq1 : -32768 ≤ P.qmin) (hq2 : P.qmax ≤ 32767) (hq : P.qmax = P.qmin + 255) (hz : P.zpOut = P.qmin) (hd : diffMin ≤ 0) :
    runGraph8 P (SoftmaxKernel.expTable8 mult ls diffMin) xs =
      .ok (SoftmaxKernel.softmaxRow8 xs mult ls diffMin P.qmin P.qmax) := by
  cases xs with
  | nil => exact absurd rfl hne
  | cons x0 rest =>
    unfold runGraph8
    rw [lower_graph8]
    exact Lemmas.SoftmaxRowL.run_prog8 P mult ls diffMin x0 rest hlen hx hq1 hq2 hq hz hd

/-- the same with the table `generate_exp_table` produces (`SoftmaxRef.expTable mult ls`, by `C19.softmax_exp_table_spec`) and
    TFLite's `diff_min = −CalculateInputRadius(5, left_shift)` -/
theorem softmax8_decomposition_eq_reference_generated_table (P : Params) (xs : List Int) (mult : Int) (ls : Nat)
    (hne : xs ≠ []) (hlen : xs.length ≤ 511) (hx : ∀ x ∈ xs, P.qmin ≤ x ∧ x ≤ P.qmax)
    (hq1 : -32768 ≤ P.qmin) (hq2 : P.qmax ≤ 32767) (hq : P.qmax = P.qmin + 255) (hz : P.zpOut = P.qmin) :
    runGraph8 P (SoftmaxRef.expTable mult ls) xs =
      .ok (SoftmaxKernel.softmaxRow8 xs mult ls (-(SoftmaxRef.calculateInputRadius 5 ls)) P.qmin P.qmax) := by
  rw [Lemmas.SoftmaxRowL.expTable_tie]
  exact softmax8_decomposition_eq_reference P xs mult ls _ hne hlen hx hq1 hq2 hq hz
    (by have := Lemmas.SoftmaxRowL.inputRadius_nonneg ls; omega)

/-- the sum of exponentials of such a row lies in `[2^19, 2^28)` (the maximum contributes `exp(0) >> 12 = 2^19`), hence the headroom
    in `[4, 12]` and every shift amount of the decomposition and of the reference inside its legal range -/
theorem softmax8_sum_range (mult : Int) (ls : Nat) (diffMin mx : Int) (hd : diffMin ≤ 0) (xs : List Int) (hmx : mx ∈ xs)
    (hlen : xs.length ≤ 511) :
    524288 ≤ xs.foldl (fun a x => a + rdivpot (Lemmas.SoftmaxRowL.expZ mult ls diffMin mx x) 12) 0 ∧
    xs.foldl (fun a x => a + rdivpot (Lemmas.SoftmaxRowL.expZ mult ls diffMin mx x) 12) 0 < 268435456 :=
  Lemmas.SoftmaxRowL.sum_facts mult ls diffMin mx hd xs hmx hlen

/-! ## non-vacuity: the whole program on concrete rows (kernel evaluation) -/

/-- parameters of an int8 SOFTMAX with beta·scale·2^26 = 1.6·2^30 (multiplier 1717986918, left shift 1) -/
def P8 : Params := ⟨3, -128, 127, -128⟩
def dm8 : Int := -(SoftmaxRef.calculateInputRadius 5 1)

example : runGraph8 P8 (SoftmaxKernel.expTable8 1717986918 1 dm8) [5, -3, 100, 127, -128, 90] =
    .ok (SoftmaxKernel.softmaxRow8 [5, -3, 100, 127, -128, 90] 1717986918 1 dm8 (-128) 127) := by decide +kernel
example : runGraph8 P8 (SoftmaxKernel.expTable8 1717986918 1 dm8) [17] = .ok [127] := by decide +kernel
/-- the hypotheses of the main theorem are satisfiable (an int8 row, a uint8 row) -/
example : runGraph8 P8 (SoftmaxKernel.expTable8 1717986918 1 dm8) [5, -3, 100, 127, -128, 90] =
    .ok (SoftmaxKernel.softmaxRow8 [5, -3, 100, 127, -128, 90] 1717986918 1 dm8 P8.qmin P8.qmax) :=
  softmax8_decomposition_eq_reference P8 _ _ _ _ (by decide) (by decide) (by decide) (by decide) (by decide) (by decide) (by decide)
    (by decide)
example : runGraph8 ⟨7, 0, 255, 0⟩ (SoftmaxRef.expTable 1717986918 1) [0, 255, 250, 251] =
    .ok (SoftmaxKernel.softmaxRow8 [0, 255, 250, 251] 1717986918 1 (-(SoftmaxRef.calculateInputRadius 5 1)) 0 255) :=
  softmax8_decomposition_eq_reference_generated_table ⟨7, 0, 255, 0⟩ _ _ _ (by decide) (by decide) (by decide) (by decide) (by decide)
    (by decide) (by decide)
example : runGraph8 ⟨7, 0, 255, 0⟩ (SoftmaxKernel.expTable8 1717986918 1 dm8) [0, 255, 250, 251] =
    .ok (SoftmaxKernel.softmaxRow8 [0, 255, 250, 251] 1717986918 1 dm8 0 255) := by decide +kernel
/-- the bound on the row length is needed: 512 equal int8 inputs give the sum of exponentials 512.0 = 2^28 in Q12.19,
    `num_bits_over_unit` = 9 and the reference's `RoundingDivideByPOT` is called with exponent 32 (outside gemmlowp's `0 … 31`;
    `Spec/Gemmlowp.roundingDivideByPOT` then yields 1 for every non-negative argument, C is undefined there), the NPU shifts by
    32 and yields 0: every output differs by one (reference −127, decomposition −128 — the mathematically rounded value of
    256/512 − 128 is either) -/
theorem softmax8_depth512_witness :
    runGraph8 P8 (SoftmaxKernel.expTable8 1717986918 1 dm8) (List.replicate 512 7) = .ok (List.replicate 512 (-128)) ∧
    SoftmaxKernel.softmaxRow8 (List.replicate 512 7) 1717986918 1 dm8 (-128) 127 = List.replicate 512 (-127) := by
  decide +kernel

/-- the two hypotheses on the parameters are needed for the equality with this reference: (1) an output zero point other than the
    type minimum (TFLite's `Prepare` rejects such a SOFTMAX) — the NPU adds the OFM zero point, the kernel `numeric_limits::min()`;
    (2) a hypothetical 8-bit-wide type whose codes lie outside the int16 range — ACTIVATION_MIN/MAX are limited to int16, so the
    max pool and the final clamp cut the values -/
theorem softmax8_param_hypotheses_witness :
    (runGraph8 ⟨0, -128, 127, -100⟩ (SoftmaxKernel.expTable8 1717986918 1 dm8) [3, 4] = .ok [28, 28] ∧
      SoftmaxKernel.softmaxRow8 [3, 4] 1717986918 1 dm8 (-128) 127 = [0, 0]) ∧
    (runGraph8 ⟨0, -40000, -39745, -40000⟩ (SoftmaxKernel.expTable8 1717986918 1 dm8) [-40000, -39990] = .ok [-32768, -32768] ∧
      SoftmaxKernel.softmaxRow8 [-40000, -39990] 1717986918 1 dm8 (-40000) (-39745) = [-39872, -39872]) := by
  decide +kernel

example : npuRecip 1234567890 = SoftmaxKernel.oneOverOnePlusX 1234567890 := by decide +kernel
example : Inv 1610612736 1000000000 := ⟨by decide, by decide, by decide⟩

end VelaVerif.Props.C01Softmax
